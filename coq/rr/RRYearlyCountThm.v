(* C01 layer 7 -- rrule_iter_correct for the YEARLY family WITH COUNT (and optional BYEASTER): as
   RRYearlyEasterThm, for rules that may carry COUNT (no UNTIL).  The specification stops at the
   beginning of the step after COUNT is used up; the code scans on until the next candidate trips
   the gate (or fuel / MAXYEAR ends the run) -- RRCountThm.run_dead shows that it yields nothing
   more, so the yielded instants agree for every fuel. *)
From Coq Require Import ZArith List Bool Lia ZifyBool.
From V Require Import base.Cal gen.RrTables rr.RRBase rr.RRNorm rr.RRMasks rr.RRIter rr.RRSpec
  rr.RRWeekCal rr.RRWeekFinal rr.RRFilterThm rr.RRFilterSpec rr.RRGateThm rr.RRTimesetThm rr.RRPassThm
  rr.RRYearlyThm rr.RRYearlyEasterThm rr.RRCountThm.
Import ListNotations.
Open Scope Z_scope.

(* gate vs take with no UNTIL: same items, same remaining count, and they stop together *)
Lemma gate_take_nountil rl r :
  until rl = None -> r_until r = None -> dtstart_inst rl = sp_start r ->
  forall xs cnt out,
  let '(o1, c1, s1) := gate_list rl xs cnt out in
  let '(a1, c1', b1) := sp_take r (filter (inst_le (sp_start r)) xs) cnt out in
  o1 = a1 /\ (s1 = None -> b1 = false /\ c1 = c1') /\ (s1 <> None -> b1 = true).
Proof.
  intros Hu Hu' Hs. induction xs as [|x t IH]; intros cnt out; cbn [gate_list filter].
  - cbn [sp_take]. split; [reflexivity|]. split; [auto|]. intros H. contradiction H. reflexivity.
  - unfold gate_one, after_until. rewrite Hu, Hs.
    destruct (inst_le (sp_start r) x) eqn:ES.
    + cbn [sp_take]. unfold sp_after_until. rewrite Hu'.
      destruct cnt as [c|].
      * destruct (c - 1 <? 0) eqn:EC.
        -- replace (c <=? 0) with true by lia. split; [reflexivity|]. split; [discriminate|reflexivity].
        -- replace (c <=? 0) with false by lia. apply IH.
      * apply IH.
    + apply IH.
Qed.

Record yfam_c (r : raw) : Prop := mk_yfam_c {
  c_wf : spec_wf r = true;
  c_freq : r_freq r = YEARLY;
  c_plain : plain_only r = true;
  c_setpos : r_bysetpos r = None;
  c_weekno : all_opt (r_byweekno r) weekno_safe = true;
  c_until : r_until r = None
}.

(* the specification's step items as an explicit list *)
Lemma yearly_step_items r rl k :
  normalize r = Ok rl -> spec_wf r = true -> r_freq r = YEARLY -> r_bysetpos r = None ->
  let y := r_y r + k * r_interval r in 1 <= y <= 9999 ->
  step_items r k = filter (inst_le (sp_start r))
    (flat_map (fun o => map (fun t => (o, t)) (period_times r 0))
              (filter (day_ok r) (zrange (jan1 y) (jan1 (y + 1))))).
Proof.
  intros HN HW Hfr Hsp y Hy.
  unfold step_items, is_coarse, select_pos. rewrite Hfr, Hsp. change (YEARLY <=? DAILY) with true. cbv iota.
  f_equal. unfold cands_coarse, period_days. rewrite Hfr. change (YEARLY =? YEARLY) with true. cbv iota.
  fold y. fold (jan1 y). fold (jan1 (y + 1)).
  assert (B1 : 1 <= jan1 y).
  { rewrite jan1_eq. assert (days_before_year 1 <= days_before_year y) by (apply days_before_year_mono; lia).
    change (days_before_year 1) with 0 in *. lia. }
  assert (B2 : jan1 (y + 1) <= max_ord + 1).
  { rewrite jan1_eq. assert (days_before_year (y + 1) <= days_before_year 10000) by (apply days_before_year_mono; lia).
    change (days_before_year 10000) with 3652059 in *. unfold max_ord. lia. }
  replace (Z.max (jan1 y) 1) with (jan1 y) by lia.
  replace (Z.min (jan1 (y + 1) - 1) max_ord + 1) with (jan1 (y + 1)) by lia.
  apply flat_map_filter.
Qed.

(* a pass with an arbitrary remaining count *)
Lemma yearly_pass_full_c : forall r rl k month ii cnt out,
  normalize r = Ok rl -> yfam_c r ->
  let y := r_y r + k * r_interval r in
  1 <= y <= 9999 -> (r_byeaster r = None \/ 1583 <= y <= 4098) ->
  rebuild rl ii_init y month = Ok ii ->
  exists ds ds' f out' c1 s1 c1' b1,
    getdayset rl ii y month 1 = Ok (ds, 0, year_len y) /\
    filter_loop rl ii (py_slice ds 0 (year_len y)) ds false = Ok (ds', f) /\
    out_days rl (yearordinal ii) (py_slice ds' 0 (year_len y)) (period_times r 0) cnt out = (out', c1, s1) /\
    sp_take r (step_items r k) cnt out = (out', c1', b1) /\
    (s1 = None -> b1 = false /\ c1 = c1') /\ (s1 <> None -> b1 = true).
Proof.
  intros r rl k month ii cnt out HN [HW Hfr Hp Hsp Hs Hu] y Hy He HR.
  destruct (normalize_misc r rl HN) as (_ & _ & _ & _ & _ & _ & Nu).
  assert (V : valid_ymd (r_y r) (r_m r) (r_d r) = true).
  { pose proof HW as HW'. unfold spec_wf in HW'.
    repeat match type of HW' with _ && _ = true =>
      let H := fresh "W" in apply andb_true_iff in HW'; destruct HW' as [HW' H] end. assumption. }
  destruct (normalize_start_until r rl HN V) as (S1 & _ & _).
  destruct (yearly_pass_candidates r rl y month ii (period_times r 0) cnt out HN HW Hfr Hp Hs He Hy HR)
    as (ds & ds' & f & E1 & E2 & E3).
  rewrite (yearly_step_items r rl k HN HW Hfr Hsp Hy). fold y.
  pose proof (gate_take_nountil rl r ltac:(rewrite Nu; exact Hu) Hu S1
     (flat_map (fun o => map (fun t => (o, t)) (period_times r 0))
               (filter (day_ok r) (zrange (jan1 y) (jan1 (y + 1))))) cnt out) as G.
  rewrite <- E3 in G.
  destruct (out_days rl (yearordinal ii) (py_slice ds' 0 (year_len y)) (period_times r 0) cnt out)
    as [[o1 c1] s1] eqn:EO.
  destruct (sp_take r _ cnt out) as [[a1 c1'] b1] eqn:ET. destruct G as (G1 & G2 & G3). subst a1.
  exists ds, ds', f, o1, c1, s1, c1', b1.
  split; [exact E1|]. split; [exact E2|]. split; [exact EO|]. split; [reflexivity|].
  split; [exact G2|exact G3].
Qed.

Definition at_pass_c (r : raw) (rl : rule) (k : Z) (cnt : option Z) (s : state) : Prop :=
  c_year s = r_y r + k * r_interval r /\ c_month s = r_m r /\
  rebuild rl ii_init (c_year s) (c_month s) = Ok (c_ii s) /\
  c_timeset s = period_times r 0 /\ c_count s = cnt.

Lemma yfam_c_e r : yfam_c r -> spec_wf r = true /\ r_freq r = YEARLY /\ plain_only r = true /\
  r_bysetpos r = None /\ all_opt (r_byweekno r) weekno_safe = true /\ r_until r = None.
Proof. intros [A B C D E F]. repeat split; assumption. Qed.

Lemma yearly_step_c : forall r rl k cnt s,
  normalize r = Ok rl -> yfam_c r -> at_pass_c r rl k cnt s ->
  1 <= r_y r + k * r_interval r -> r_y r + (k + 1) * r_interval r <= 9999 ->
  (r_byeaster r = None \/ (1583 <= r_y r + k * r_interval r /\ r_y r + (k + 1) * r_interval r <= 4098)) ->
  exists acc' cnt' b, sp_take r (step_items r k) cnt (c_out s) = (acc', cnt', b) /\
    (b = false -> exists s', step rl s = inl s' /\ at_pass_c r rl (k + 1) cnt' s' /\ c_out s' = acc') /\
    (b = true -> exists t, step rl s = inr (acc', t)).
Proof.
  intros r rl k cnt s HN Y (Ay & Am & Ar & At & Ac) Hlo Hhi HE.
  destruct (yfam_c_e r Y) as (HW & Hfr & Hp & Hsp & Hs & Hu).
  destruct (normalize_misc r rl HN) as (Ni & Nsp & _ & _ & _ & _ & _).
  pose proof (normalize_freq r rl HN) as Nfr. rewrite Hfr in Nfr.
  pose proof (normalize_wkst r rl HN) as Nwk.
  pose proof (plain_only_no_nth r rl HN Hp) as TN.
  pose proof (easter_cases r rl HN HW) as EC.
  assert (Hitv : 1 <= r_interval r /\ 0 <= r_wkst r <= 6).
  { pose proof HW as HW'. unfold spec_wf in HW'.
    repeat match type of HW' with _ && _ = true =>
      let H := fresh "W" in apply andb_true_iff in HW'; destruct HW' as [HW' H] end.
    unfold between in *. lia. }
  destruct Hitv as [Hitv Hwk].
  set (y := r_y r + k * r_interval r) in *.
  assert (Hy : 1 <= y <= 9999) by nia.
  rewrite Ay, Am in Ar.
  assert (HEy : r_byeaster r = None \/ 1583 <= y <= 4098).
  { destruct HE as [HE|HE]; [left; exact HE|right; unfold y; nia]. }
  destruct (yearly_pass_full_c r rl k (r_m r) (c_ii s) cnt (c_out s) HN Y Hy HEy Ar)
    as (ds & ds' & f & out' & c1 & s1 & c1' & b1 & E1 & E2 & E3 & E4 & G2 & G3).
  fold y in E1, E2, E3.
  exists out', c1', b1. split; [exact E4|].
  (* the part of `step` up to the gate *)
  assert (PRE : step rl s =
    match s1 with
    | Some t => inr (out', t)
    | None => match advance rl s f c1 out' with
              | Err e => inr (out', TRaised e)
              | Ok AdvMax => inr (out', TMaxYear)
              | Ok AdvFuel => inr (out', TOutOfFuel)
              | Ok (AdvGo s') => inl s'
              end
    end).
  { unfold step. rewrite Ay, Am.
    assert (G : getdayset rl (c_ii s) y (r_m r) (c_day s) = Ok (ds, 0, year_len y)).
    { revert E1. unfold getdayset. rewrite Nfr. change (YEARLY =? YEARLY) with true. cbv iota. auto. }
    rewrite G. cbn [bind]. rewrite E2. cbn [bind fst snd].
    rewrite Nsp, Hsp. cbn [truthy andb]. rewrite At, Ac. rewrite E3. reflexivity. }
  split.
  - intros Hb. destruct s1 as [t|]; [specialize (G3 ltac:(discriminate)); congruence|].
    destruct (G2 eq_refl) as [_ Ec]. subst c1'.
    set (y2 := y + interval rl).
    assert (Hy2 : 1 <= y2 <= 9999).
    { unfold y2. rewrite Ni. replace (r_y r + (k + 1) * r_interval r) with (y + r_interval r) in Hhi by (unfold y; ring). lia. }
    assert (HE2 : truthy (byeaster rl) = false \/ 1583 <= y2 <= 4098).
    { destruct EC as [[Ea0 T0]|[Ea1 T1]]; [left; exact T0|right].
      destruct HE as [HE|HE]; [congruence|].
      unfold y2. rewrite Ni. replace (r_y r + (k + 1) * r_interval r) with (y + r_interval r) in HE by (unfold y; ring).
      unfold y in *. nia. }
    destruct (rebuild_succeeds rl y2 (r_m r) Hy2 ltac:(rewrite Nwk; exact Hwk) TN HE2) as (ii2 & R2).
    destruct (rebuild_slots rl y (r_m r) (c_ii s) ltac:(lia) Ar) as (LY & EM).
    destruct (rebuild_char rl y (r_m r) (c_ii s) ltac:(lia) Ar) as (_ & CN & _).
    assert (R2' : rebuild rl (c_ii s) y2 (r_m r) = Ok ii2).
    { rewrite rebuild_from_previous_year; [exact R2| | exact TN | apply CN; exact TN |
        destruct EC as [[Ea0 T0]|[Ea1 T1]]; [right; apply EM; exact T0|left; exact T1]].
      rewrite LY. unfold opt_neqb, y2. rewrite Ni. apply negb_true_iff. apply Z.eqb_neq. lia. }
    exists (mkSt y2 (r_m r) (c_day s) (c_hour s) (c_minute s) (c_second s) (c_weekday s) ii2
                 (period_times r 0) c1 out').
    split; [|split; [|reflexivity]].
    + rewrite PRE. unfold advance. rewrite Nfr. change (YEARLY =? YEARLY) with true. cbv iota. rewrite Ay, Am.
      fold y2. unfold T_MAXYEAR. replace (9999 <? y2) with false by lia.
      rewrite R2'. cbn [bind]. unfold finish_advance. cbn [andb]. rewrite At. reflexivity.
    + unfold at_pass_c. cbn [c_year c_month c_ii c_timeset c_count].
      repeat split; try reflexivity; [|exact R2]. unfold y2, y. rewrite Ni. ring.
  - intros Hb. destruct s1 as [t|].
    + exists t. exact PRE.
    + destruct (G2 eq_refl) as [Hf _]. congruence.
Qed.

Lemma yearly_run_is_spec_c : forall r rl limit n k cnt s,
  normalize r = Ok rl -> yfam_c r -> at_pass_c r rl k cnt s -> 0 <= k ->
  1 <= r_y r -> r_y r + (k + Z.of_nat n) * r_interval r <= 9999 ->
  (r_byeaster r = None \/ (1583 <= r_y r /\ r_y r + (k + Z.of_nat n) * r_interval r <= 4098)) ->
  fst (run rl limit n s) = fst (spec_loop r limit n k cnt (c_out s)).
Proof.
  intros r rl limit n. induction n as [|n IH]; intros k cnt s HN Y A Hk Hlo Hhi HE; cbn [run spec_loop].
  - reflexivity.
  - destruct (limit <=? zlen (c_out s)); [reflexivity|].
    destruct (yfam_c_e r Y) as (HW & Hfr & Hp & Hsp & Hs & Hu).
    assert (Hitv : 1 <= r_interval r).
    { pose proof HW as HW'. unfold spec_wf in HW'.
      repeat match type of HW' with _ && _ = true =>
        let H := fresh "W" in apply andb_true_iff in HW'; destruct HW' as [HW' H] end. lia. }
    assert (Hyk : 1 <= r_y r + k * r_interval r) by nia.
    assert (Hyk1 : r_y r + (k + 1) * r_interval r <= 9999) by nia.
    rewrite (step_lo_yearly r k Hfr).
    assert (B : jan1 (r_y r + k * r_interval r) <= max_ord).
    { rewrite jan1_eq.
      assert (days_before_year (r_y r + k * r_interval r) + 1 <= days_before_year (r_y r + k * r_interval r + 1))
        by (rewrite days_before_year_succ; unfold year_len; destruct (is_leap _); lia).
      assert (days_before_year (r_y r + k * r_interval r + 1) <= days_before_year 10000)
        by (apply days_before_year_mono; nia).
      change (days_before_year 10000) with 3652059 in *. unfold max_ord. lia. }
    replace (max_ord <? jan1 (r_y r + k * r_interval r)) with false by lia.
    unfold sp_after_until at 1. rewrite Hu.
    destruct A as (Ay & Am & Ar & At & Ac).
    destruct (match cnt with Some c => c <=? 0 | None => false end) eqn:EC.
    + (* COUNT used up: the specification stops, the code yields nothing more *)
      destruct cnt as [c|]; [|discriminate EC].
      assert (D : dead s) by (exists c; split; [exact Ac|lia]).
      pose proof (step_dead rl s D) as SD. destruct (step rl s) as [s'|[out t]].
      * destruct SD as [E D']. rewrite (run_dead rl limit n s' D'). exact E.
      * exact SD.
    + assert (HEk : r_byeaster r = None \/ (1583 <= r_y r + k * r_interval r /\ r_y r + (k + 1) * r_interval r <= 4098)).
      { destruct HE as [HE|HE]; [left; exact HE|right; nia]. }
      destruct (yearly_step_c r rl k cnt s HN Y (conj Ay (conj Am (conj Ar (conj At Ac)))) Hyk Hyk1 HEk)
        as (acc' & cnt' & b & ET & Hf & Ht).
      rewrite ET. destruct b.
      * destruct (Ht eq_refl) as (t & ES). rewrite ES. reflexivity.
      * destruct (Hf eq_refl) as (s' & ES & A' & EO). rewrite ES. rewrite <- EO.
        apply IH; try assumption; [lia| |].
        -- replace (k + 1 + Z.of_nat n) with (k + Z.of_nat (S n)) by lia. exact Hhi.
        -- replace (k + 1 + Z.of_nat n) with (k + Z.of_nat (S n)) by lia. exact HE.
Qed.

(* rrule_iter_correct for the family with COUNT *)
Theorem yearly_iter_correct_c : forall r rl limit n,
  normalize r = Ok rl -> yfam_c r -> 1 <= r_y r -> r_y r + Z.of_nat n * r_interval r <= 9999 ->
  (r_byeaster r = None \/ (1583 <= r_y r /\ r_y r + Z.of_nat n * r_interval r <= 4098)) ->
  fst (iterate rl limit n) = fst (spec_iter r limit n).
Proof.
  intros r rl limit n HN Y Hlo Hhi HE.
  destruct (yfam_c_e r Y) as (HW & Hfr & Hp & Hsp & Hs & Hu).
  destruct (normalize_misc r rl HN) as (Ni & Nsp & Ny & Nm & Nd & Nc & Nu).
  pose proof (normalize_freq r rl HN) as Nfr. rewrite Hfr in Nfr.
  pose proof (normalize_wkst r rl HN) as Nwk.
  pose proof (plain_only_no_nth r rl HN Hp) as TN.
  pose proof (easter_cases r rl HN HW) as EC.
  assert (Hwf : 1 <= r_interval r /\ 0 <= r_wkst r <= 6).
  { pose proof HW as HW'. unfold spec_wf in HW'.
    repeat match type of HW' with _ && _ = true =>
      let H := fresh "W" in apply andb_true_iff in HW'; destruct HW' as [HW' H] end.
    unfold between in *. lia. }
  destruct Hwf as [Hitv Hwk].
  assert (Hy0 : 1 <= r_y r <= 9999) by nia.
  assert (HE0 : truthy (byeaster rl) = false \/ 1583 <= r_y r <= 4098).
  { destruct EC as [[Ea0 T0]|[Ea1 T1]]; [left; exact T0|right]. destruct HE as [HE|HE]; [congruence|]. nia. }
  destruct (rebuild_succeeds rl (r_y r) (r_m r) Hy0 ltac:(rewrite Nwk; exact Hwk) TN HE0) as (ii0 & R0).
  pose proof (timeset_is_spec r rl HN HW ltac:(rewrite Hfr; reflexivity)) as HT.
  unfold iterate, init_state. rewrite Nfr. change (YEARLY =? WEEKLY) with false. cbn [andb]. cbv iota.
  rewrite Ny, Nm, Nd, R0. cbn [bind].
  change (YEARLY <? HOURLY) with true. cbv iota. rewrite HT. cbn [bind]. rewrite Nc.
  unfold spec_iter.
  set (s0 := mkSt _ _ _ _ _ _ _ _ _ _ _).
  assert (A0 : at_pass_c r rl 0 (r_count r) s0).
  { unfold at_pass_c, s0. cbn [c_year c_month c_ii c_timeset c_count]. repeat split; try reflexivity; [ring|exact R0]. }
  pose proof (yearly_run_is_spec_c r rl limit n 0 (r_count r) s0 HN Y A0 ltac:(lia) Hlo
                ltac:(replace (0 + Z.of_nat n) with (Z.of_nat n) by lia; exact Hhi)
                ltac:(replace (0 + Z.of_nat n) with (Z.of_nat n) by lia; exact HE)) as Q.
  change (c_out s0) with (@nil instant) in Q.
  destruct (run rl limit n s0) as [out t]. destruct (spec_loop r limit n 0 (r_count r) []) as [acc t'].
  cbn [fst] in *. rewrite Q. reflexivity.
Qed.
