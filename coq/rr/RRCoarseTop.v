(* C01 -- summary for FREQ in YEARLY..DAILY: rrule_iter_correct at equal fuel, and the corollaries
   rrule_strictly_increasing / rrule_nodup, under one guard. *)
From Coq Require Import ZArith List Bool Lia ZifyBool.
From V Require Import base.Cal rr.RRBase rr.RRNorm rr.RRMasks rr.RRIter rr.RRSpec rr.RRWeekFinal rr.RRFilterSpec
  rr.RRSetposThm rr.RRWeeklyThm rr.RRMonthlyNthThm rr.RRYearlyMonthNthThm rr.RRDailyFullThm rr.RRWeeklySetposThm
  rr.RRSortedThm.
Import ListNotations.
Open Scope Z_scope.

(* the rules covered: the specification's domain, BYWEEKNO within the RFC range, no BYEASTER (a dateutil
   extension); YEARLY and MONTHLY: everything else; WEEKLY and DAILY: BYDAY without numeric prefixes (RFC 5545
   allows them only under MONTHLY / YEARLY).  The number n of passes is free (it was restricted for WEEKLY before
   fixes 8ced7a9 / 3426f68; the parameter is kept for the statements that mention it). *)
Definition coarse_guard (r : raw) (n : nat) : Prop :=
  spec_wf r = true /\ all_opt (r_byweekno r) weekno_safe = true /\ r_byeaster r = None /\
  (r_freq r = YEARLY \/ r_freq r = MONTHLY \/
   (r_freq r = WEEKLY /\ plain_only r = true) \/
   (r_freq r = DAILY /\ plain_only r = true)).

Theorem rrule_iter_correct_coarse : forall r rl limit n,
  normalize r = Ok rl -> coarse_guard r n ->
  fst (iterate rl limit n) = fst (spec_iter r limit n).
Proof.
  intros r rl limit n HN (HW & Hs & He & [Hf|[Hf|[(Hf & Hp)|[Hf Hp]]]]).
  - apply (yearly_iter_correct_noe r rl limit n HN). constructor; assumption.
  - apply (monthly_iter_correct_all r rl limit n HN). constructor; assumption.
  - apply (weekly_iter_correct_full r rl limit n HN). constructor; assumption.
  - apply (daily_setpos_iter_correct r rl limit n HN). constructor; assumption.
Qed.

Lemma coarse_guard_freq r n : coarse_guard r n -> r_freq r <= DAILY.
Proof.
  intros (_ & _ & _ & [Hf|[Hf|[(Hf & _)|[Hf _]]]]); rewrite Hf; unfold YEARLY, MONTHLY, WEEKLY, DAILY; lia.
Qed.

(* what the generator yields is strictly increasing (in particular without duplicates) *)
Theorem rrule_strictly_increasing_coarse : forall r rl limit n,
  normalize r = Ok rl -> coarse_guard r n -> isorted (fst (iterate rl limit n)).
Proof.
  intros r rl limit n HN G. rewrite (rrule_iter_correct_coarse r rl limit n HN G).
  destruct G as (HW & G'). apply (spec_iter_sorted r HW).
  apply (coarse_guard_freq r n). split; [exact HW|exact G'].
Qed.

Theorem rrule_nodup_coarse : forall r rl limit n,
  normalize r = Ok rl -> coarse_guard r n -> NoDup (fst (iterate rl limit n)).
Proof. intros r rl limit n HN G. apply isorted_NoDup. apply (rrule_strictly_increasing_coarse r rl limit n HN G). Qed.
