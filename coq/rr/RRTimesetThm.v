(* C01 -- the rule's time set (rrule.py 690-701: for hour in byhour: for minute in byminute: for
   second in bysecond: ..., then sort) is the specification's period_times for every FREQ coarser
   than HOURLY: the lexicographic product of sorted duplicate-free lists of valid hours / minutes /
   seconds is already sorted, so the code's sort() is the identity. *)
From Coq Require Import ZArith List Bool Lia ZifyBool.
From V Require Import base.Cal rr.RRBase rr.RRNorm rr.RRSpec.
Import ListNotations.
Open Scope Z_scope.

(* strictly increasing *)
Fixpoint ssorted (l : list Z) : bool :=
  match l with [] => true | x :: t => forallb (Z.ltb x) t && ssorted t end.

Lemma forallb_ltb_trans a b l : a < b -> forallb (Z.ltb b) l = true -> forallb (Z.ltb a) l = true.
Proof.
  intros H. induction l as [|x t IH]; cbn [forallb]; [reflexivity|]. intros F.
  apply andb_true_iff in F. destruct F as [F1 F2]. rewrite (IH F2). replace (a <? x) with true by lia. reflexivity.
Qed.

Lemma insert_uniq_sorted a l : ssorted l = true ->
  ssorted (insert_uniq a l) = true /\
  forall b, b < a -> forallb (Z.ltb b) l = true -> forallb (Z.ltb b) (insert_uniq a l) = true.
Proof.
  induction l as [|h t IH]; intros S; cbn [insert_uniq].
  - split; [reflexivity|]. intros b Hb _. cbn [forallb]. replace (b <? a) with true by lia. reflexivity.
  - cbn [ssorted] in S. apply andb_true_iff in S. destruct S as [S1 S2].
    destruct (a <? h) eqn:E1.
    + split.
      * cbn [ssorted forallb]. replace (a <? h) with true by lia.
        rewrite (forallb_ltb_trans a h t ltac:(lia) S1), S1, S2. reflexivity.
      * intros b Hb F. cbn [forallb] in *. replace (b <? a) with true by lia. exact F.
    + destruct (a =? h) eqn:E2.
      * split; [cbn [ssorted]; rewrite S1, S2; reflexivity|]. intros b Hb F. exact F.
      * destruct (IH S2) as [I1 I2]. split.
        -- cbn [ssorted]. rewrite I1, andb_true_r. apply I2; [lia|exact S1].
        -- intros b Hb F. cbn [forallb] in *. apply andb_true_iff in F. destruct F as [F1 F2].
           rewrite F1. cbn [andb]. apply I2; assumption.
Qed.

Lemma sort_set_sorted l : ssorted (sort_set l) = true.
Proof.
  unfold sort_set. induction l as [|h t IH]; cbn [fold_right]; [reflexivity|].
  apply (proj1 (insert_uniq_sorted h _ IH)).
Qed.

Lemma sortZ_of_sorted l : ssorted l = true -> sortZ l = l.
Proof.
  unfold sortZ. induction l as [|x t IH]; intros S; cbn [fold_right]; [reflexivity|].
  cbn [ssorted] in S. apply andb_true_iff in S. destruct S as [S1 S2]. rewrite (IH S2).
  destruct t as [|h t']; [reflexivity|]. cbn [insertZ]. cbn [forallb] in S1.
  apply andb_true_iff in S1. destruct S1 as [S1 _]. replace (x <=? h) with true by lia. reflexivity.
Qed.

Lemma ssorted_app a b : ssorted a = true -> ssorted b = true ->
  (forall x y, In x a -> In y b -> x < y) -> ssorted (a ++ b) = true.
Proof.
  induction a as [|h t IH]; intros Sa Sb H; cbn [app]; [exact Sb|].
  cbn [ssorted] in *. apply andb_true_iff in Sa. destruct Sa as [S1 S2].
  rewrite (IH S2 Sb) by (intros x y Hx Hy; apply H; [right; exact Hx|exact Hy]).
  rewrite andb_true_r. rewrite forallb_app, S1. cbn [andb].
  apply forallb_forall. intros y Hy. specialize (H h y (or_introl eq_refl) Hy). lia.
Qed.

Lemma ssorted_map_add c l : ssorted l = true -> ssorted (map (fun x => c + x) l) = true.
Proof.
  induction l as [|h t IH]; intros S; cbn [map ssorted]; [reflexivity|].
  cbn [ssorted] in S. apply andb_true_iff in S. destruct S as [S1 S2]. rewrite (IH S2), andb_true_r.
  rewrite forallb_forall in *. intros y Hy. apply in_map_iff in Hy. destruct Hy as (z & <- & Hz).
  specialize (S1 z Hz). lia.
Qed.

(* blocks: sorted keys ks, each key k contributes the sorted block  k*w + b  with 0 <= b < w *)
Lemma ssorted_blocks w (blk : list Z) : 0 < w -> ssorted blk = true ->
  (forall b, In b blk -> 0 <= b < w) ->
  forall ks, ssorted ks = true ->
  ssorted (flat_map (fun k => map (fun b => k * w + b) blk) ks) = true.
Proof.
  intros Hw Sb Hb. induction ks as [|k t IH]; intros Sk; cbn [flat_map]; [reflexivity|].
  cbn [ssorted] in Sk. apply andb_true_iff in Sk. destruct Sk as [S1 S2].
  apply ssorted_app; [apply ssorted_map_add; exact Sb|apply IH; exact S2|].
  intros x y Hx Hy. apply in_map_iff in Hx. destruct Hx as (b & <- & Hbin).
  apply in_flat_map in Hy. destruct Hy as (k' & Hk' & Hy). apply in_map_iff in Hy.
  destruct Hy as (b' & <- & Hb'in). rewrite forallb_forall in S1. specialize (S1 k' Hk').
  pose proof (Hb b Hbin) as B1. pose proof (Hb b' Hb'in) as B2. nia.
Qed.

(* ------------------------------------------------------------------ the product *)
Definition tprod (hs ms ss : list Z) : list Z :=
  flat_map (fun h => flat_map (fun m => map (fun s => h * 3600 + m * 60 + s) ss) ms) hs.

Definition in_range (lo hi : Z) (l : list Z) : Prop := forall x, In x l -> lo <= x <= hi.

Lemma map_res_all_ok {A B} (f : A -> res B) (g : A -> B) l :
  (forall a, In a l -> f a = Ok (g a)) -> map_res f l = Ok (map g l).
Proof.
  induction l as [|a t IH]; intros H; cbn [map_res map]; [reflexivity|].
  rewrite (H a (or_introl eq_refl)). cbn [bind]. rewrite IH by (intros x Hx; apply H; right; exact Hx).
  reflexivity.
Qed.

Lemma map_flat_map {A B C} (g : B -> C) (f : A -> list B) l :
  map g (flat_map f l) = flat_map (fun a => map g (f a)) l.
Proof. induction l as [|a t IH]; cbn [flat_map map]; [reflexivity|]. rewrite map_app, IH. reflexivity. Qed.

Lemma flat_map_ext' {A B} (f g : A -> list B) l :
  (forall a, In a l -> f a = g a) -> flat_map f l = flat_map g l.
Proof.
  induction l as [|a t IH]; intros H; cbn [flat_map]; [reflexivity|].
  rewrite (H a (or_introl eq_refl)), IH by (intros x Hx; apply H; right; exact Hx). reflexivity.
Qed.

(* the model's product *)
Lemma time_product_valid hs ms ss :
  in_range 0 23 hs -> in_range 0 59 ms -> in_range 0 59 ss ->
  time_product hs ms ss = Ok (tprod hs ms ss).
Proof.
  intros Hh Hm Hs. unfold time_product.
  rewrite (map_res_all_ok _ (fun hms : Z * Z * Z => let '(h, m, s) := hms in h * 3600 + m * 60 + s)).
  - f_equal. unfold tprod. rewrite map_flat_map. apply flat_map_ext'. intros h _.
    rewrite map_flat_map. apply flat_map_ext'. intros m _. rewrite map_map. reflexivity.
  - intros [[h m] s] Hin. apply in_flat_map in Hin. destruct Hin as (h' & Hh' & Hin).
    apply in_flat_map in Hin. destruct Hin as (m' & Hm' & Hin). apply in_map_iff in Hin.
    destruct Hin as (s' & E & Hs'). inversion E; subst.
    unfold mk_time, valid_hms. specialize (Hh h Hh'). specialize (Hm m Hm'). specialize (Hs s Hs').
    replace ((0 <=? h) && (h <=? 23) && (0 <=? m) && (m <=? 59) && (0 <=? s) && (s <=? 59)) with true by lia.
    reflexivity.
Qed.

(* the specification's product *)
Lemma spec_product_valid hs ms ss :
  in_range 0 23 hs -> in_range 0 59 ms -> in_range 0 59 ss ->
  flat_map (fun h => flat_map (fun m => flat_map (fun s =>
     if valid_hms h m s then [h * 3600 + m * 60 + s] else []) ss) ms) hs = tprod hs ms ss.
Proof.
  intros Hh Hm Hs. unfold tprod. apply flat_map_ext'. intros h Hh'. apply flat_map_ext'. intros m Hm'.
  induction ss as [|s t IH]; cbn [flat_map map]; [reflexivity|].
  rewrite IH by (intros x Hx; apply Hs; right; exact Hx).
  specialize (Hh h Hh'). specialize (Hm m Hm'). pose proof (Hs s (or_introl eq_refl)) as Hs'.
  unfold valid_hms.
  replace ((0 <=? h) && (h <=? 23) && (0 <=? m) && (m <=? 59) && (0 <=? s) && (s <=? 59)) with true by lia.
  reflexivity.
Qed.

(* the product of sorted lists is sorted *)
Lemma tprod_sorted hs ms ss :
  ssorted hs = true -> ssorted ms = true -> ssorted ss = true ->
  in_range 0 59 ms -> in_range 0 59 ss -> ssorted (tprod hs ms ss) = true.
Proof.
  intros Sh Sm Ss Hm Hs.
  set (B := flat_map (fun m => map (fun s => m * 60 + s) ss) ms).
  assert (SB : ssorted B = true).
  { apply (ssorted_blocks 60 ss ltac:(lia) Ss); [|exact Sm]. intros b Hb. specialize (Hs b Hb). lia. }
  assert (RB : forall b, In b B -> 0 <= b < 3600).
  { intros b Hb. unfold B in Hb. apply in_flat_map in Hb. destruct Hb as (m & Hm' & Hb).
    apply in_map_iff in Hb. destruct Hb as (s & <- & Hs'). specialize (Hm m Hm'). specialize (Hs s Hs'). lia. }
  assert (E : tprod hs ms ss = flat_map (fun h => map (fun b => h * 3600 + b) B) hs).
  { unfold tprod, B. apply flat_map_ext'. intros h _. rewrite map_flat_map. apply flat_map_ext'.
    intros m _. rewrite map_map. apply map_ext. intros s. lia. }
  rewrite E. apply (ssorted_blocks 3600 B ltac:(lia) SB RB hs Sh).
Qed.

Lemma In_insert_uniq' x a l : In x (insert_uniq a l) <-> a = x \/ In x l.
Proof.
  induction l as [|h t IH]; cbn [insert_uniq In]; [tauto|].
  destruct (a <? h); cbn [In]; [tauto|].
  destruct (a =? h) eqn:E; cbn [In].
  - apply Z.eqb_eq in E. subst. tauto.
  - rewrite IH. tauto.
Qed.
Lemma In_sort_set' x l : In x (sort_set l) <-> In x l.
Proof.
  unfold sort_set. induction l as [|h t IH]; cbn [fold_right In]; [tauto|].
  rewrite In_insert_uniq', IH. tauto.
Qed.

Lemma in_range_sort_set lo hi l : in_range lo hi l -> in_range lo hi (sort_set l).
Proof. intros H x Hx. apply H. apply (proj1 (In_sort_set' x l)). exact Hx. Qed.

Definition eff_times (o : option (list Z)) (d : Z) : list Z :=
  sort_set (match o with Some l => l | None => [d] end).

Lemma all_opt_range o lo hi d : all_opt o (between lo hi) = true -> lo <= d <= hi ->
  in_range lo hi (eff_times o d).
Proof.
  intros H Hd. unfold eff_times. apply in_range_sort_set. destruct o as [l|].
  - cbn [all_opt] in H. rewrite forallb_forall in H. intros x Hx. specialize (H x Hx). unfold between in H. lia.
  - intros x [<-|[]]. exact Hd.
Qed.

(* FREQ coarser than HOURLY: the constructor's time set is the specification's period_times *)
Theorem timeset_is_spec : forall r rl,
  normalize r = Ok rl -> spec_wf r = true -> (r_freq r <? HOURLY) = true ->
  timeset rl = Some (period_times r 0).
Proof.
  intros r rl HN HW Hf.
  unfold spec_wf in HW.
  repeat match type of HW with _ && _ = true =>
    let H := fresh "W" in apply andb_true_iff in HW; destruct HW as [HW H] end.
  assert (VH : 0 <= sp_H0 r <= 23 /\ 0 <= sp_M0 r <= 59 /\ 0 <= sp_S0 r <= 59).
  { match goal with H : valid_hms _ _ _ = true |- _ => unfold valid_hms in H end. lia. }
  destruct VH as (VH & VM & VS).
  pose proof (all_opt_range (r_byhour r) 0 23 (sp_H0 r) ltac:(assumption) VH) as RH.
  pose proof (all_opt_range (r_byminute r) 0 59 (sp_M0 r) ltac:(assumption) VM) as RM.
  pose proof (all_opt_range (r_bysecond r) 0 59 (sp_S0 r) ltac:(assumption) VS) as RS.
  (* specification side *)
  assert (SP : period_times r 0 =
               tprod (eff_times (r_byhour r) (sp_H0 r)) (eff_times (r_byminute r) (sp_M0 r))
                     (eff_times (r_bysecond r) (sp_S0 r))).
  { unfold period_times. unfold HOURLY, MINUTELY, SECONDLY in *.
    replace (r_freq r <? 4) with true by lia. replace (r_freq r <? 5) with true by lia.
    replace (r_freq r <? 6) with true by lia. cbv iota.
    apply spec_product_valid; assumption. }
  rewrite SP. clear SP.
  (* model side *)
  revert HN. unfold normalize.
  assert (EHMS : (if r_isdate r then (0, 0, 0) else (r_H r, r_M r, r_S r)) = (sp_H0 r, sp_M0 r, sp_S0 r)).
  { unfold sp_H0, sp_M0, sp_S0. destruct (r_isdate r); reflexivity. }
  rewrite EHMS.
  destruct (negb (is_none (r_until r)) && r_tzmix r); [discriminate|].
  destruct (negb match r_bysetpos r with None => true | Some l => setpos_ok l end); [discriminate|].
  match goal with |- (let '(_, _) := ?p in _) = _ -> _ => destruct p end.
  unfold HOURLY, MINUTELY, SECONDLY in *.
  replace (r_freq r <? 4) with true by lia. replace (r_freq r <? 5) with true by lia.
  replace (r_freq r <? 6) with true by lia. replace (r_freq r =? 4) with false by lia.
  replace (r_freq r =? 5) with false by lia. replace (r_freq r =? 6) with false by lia.
  replace (4 <=? r_freq r) with false by lia.
  assert (E1 : forall (ol : option (list Z)) dd,
     match ol with Some l => Ok (Some (sort_set l)) | None => Ok (Some [dd]) end =
     Ok (Some (eff_times ol dd))).
  { intros ol dd. destruct ol; reflexivity. }
  match goal with |- context [if memZ 0 ?l then _ else _] =>
    destruct (memZ 0 l); [cbn [bind]; discriminate|cbn [bind]] end.
  rewrite !E1. cbn [bind opt_list].
  rewrite (time_product_valid _ _ _ RH RM RS). cbn [bind].
  intros H. inversion H; subst; clear H. cbn [timeset]. f_equal.
  apply sortZ_of_sorted. apply tprod_sorted; try assumption; apply sort_set_sorted.
Qed.
