(* C01 layer 6, sub-daily: the SECONDLY advance branch of rrule._iter (rrule.py 994-1030):
   the `filtered` jump to the last period of the day, then up to 86400 // gcd(interval, 86400)
   rounds of { next admissible second (via __mod_distance); carry into minute / hour / day; stop
   when hour, minute and second are admissible }, ValueError when no round stops.
   `secondly_core_spec` is the exact analogue of RRSubMin.minutely_core_spec.
   Written by the rset builder (new file). *)
From Coq Require Import ZArith List Bool Lia ZifyBool Znumtheory.
From V Require Import base.Cal gen.RrTables rr.RRBase rr.RRNorm rr.RRMasks rr.RRIter rr.RRSubdailyThm
  rr.RRSubLoop rr.RRSubHour rr.RRSubMin.
Import ListNotations.
Open Scope Z_scope.

Definition sstate := (Z * Z * Z * Z * bool)%type.     (* second, minute, hour, day, fixday *)

Definition sec_jump (itv : Z) (filtered : bool) (hour minute second : Z) : Z :=
  if filtered then second + ((86399 - (hour * 3600 + minute * 60 + second)) / itv) * itv else second.

Definition sec_body (rl : rule) (st : sstate) : lp sstate :=
  let '(second, minute, hour, day, fixday) := st in
  match (if truthy (bysecond rl) then mod_distance rl second (opt_list (bysecond rl)) 60
         else Ok ((second + interval rl) / 60, (second + interval rl) mod 60)) with
  | Err e => LErr e
  | Ok (nminutes, second) =>
    let dv := (minute + nminutes) / 60 in
    let minute := (minute + nminutes) mod 60 in
    let '(hour, day, fixday) :=
      if negb (dv =? 0) then
        let hour := hour + dv in
        let dv2 := hour / 24 in
        let hour := hour mod 24 in
        if negb (dv2 =? 0) then (hour, day + dv2, true) else (hour, day, fixday)
      else (hour, day, fixday) in
    if (negb (truthy (byhour rl)) || memZ hour (opt_list (byhour rl))) &&
       (negb (truthy (byminute rl)) || memZ minute (opt_list (byminute rl))) &&
       (negb (truthy (bysecond rl)) || memZ second (opt_list (bysecond rl)))
    then LBreak (second, minute, hour, day, fixday)
    else LCont (second, minute, hour, day, fixday)
  end.

Definition secondly_core (rl : rule) (filtered : bool) (hour minute second day : Z) : res sstate :=
  match for_range (86400 / Z.gcd (interval rl) 86400) (sec_body rl)
                  (sec_jump (interval rl) filtered hour minute second, minute, hour, day, false) with
  | LErr e => Err e
  | LCont _ => Err EValue
  | LBreak st => Ok st
  end.

Lemma lp_match_assoc_s : forall (B : Type) (r : lp sstate) (K : Z -> Z -> Z -> Z -> bool -> res B),
  match r with
  | LErr e => Err e
  | LCont _ => Err EValue
  | LBreak (se, mi, hh, dd, fx) => K se mi hh dd fx
  end =
  match (match r with LErr e => Err e | LCont _ => Err EValue | LBreak st => Ok st end) with
  | Err e => Err e
  | Ok (se, mi, hh, dd, fx) => K se mi hh dd fx
  end.
Proof. intros B r K. destruct r as [[[[[se mi] hh] dd] fx]|[[[[se mi] hh] dd] fx]|e]; reflexivity. Qed.

Lemma advance_secondly_unfold : forall rl s filtered cnt out, freq rl = SECONDLY ->
  advance rl s filtered cnt out =
  match secondly_core rl filtered (c_hour s) (c_minute s) (c_second s) (c_day s) with
  | Err e => Err e
  | Ok (second, minute, hour, day, fixday) =>
    do ts' <- gettimeset rl hour minute second;
    finish_advance rl s fixday (c_year s) (c_month s) day hour minute second
                   (c_weekday s) (c_ii s) ts' cnt out
  end.
Proof.
  intros rl s filtered cnt out E. unfold advance, secondly_core. rewrite E.
  change (SECONDLY =? YEARLY) with false. change (SECONDLY =? MONTHLY) with false.
  change (SECONDLY =? WEEKLY) with false. change (SECONDLY =? DAILY) with false.
  change (SECONDLY =? HOURLY) with false. change (SECONDLY =? MINUTELY) with false.
  change (SECONDLY =? SECONDLY) with true. cbv iota.
  exact (lp_match_assoc_s adv
           (for_range (86400 / Z.gcd (interval rl) 86400) (sec_body rl)
              (sec_jump (interval rl) filtered (c_hour s) (c_minute s) (c_second s), c_minute s, c_hour s, c_day s, false))
           (fun second minute hour day fixday =>
              do ts' <- gettimeset rl hour minute second;
              finish_advance rl s fixday (c_year s) (c_month s) day hour minute second
                             (c_weekday s) (c_ii s) ts' cnt out)).
Qed.

Definition sabs (st : sstate) : Z :=
  let '(second, minute, hour, day, _) := st in day * 86400 + hour * 3600 + minute * 60 + second.
Definition sgood (st : sstate) : Prop :=
  let '(second, minute, hour, _, _) := st in 0 <= second < 60 /\ 0 <= minute < 60 /\ 0 <= hour < 24.
Definition spre (st : sstate) : Prop :=
  let '(second, minute, hour, _, _) := st in 0 <= second /\ 0 <= minute < 60 /\ 0 <= hour < 24.
Definition sday (st : sstate) : Z := let '(_, _, _, day, _) := st in day.
Definition sfix (st : sstate) : bool := let '(_, _, _, _, fx) := st in fx.

Definition sec_adm (rl : rule) (a : Z) : bool :=
  (negb (truthy (byhour rl)) || memZ ((a / 3600) mod 24) (opt_list (byhour rl))) &&
  (negb (truthy (byminute rl)) || memZ ((a / 60) mod 60) (opt_list (byminute rl))) &&
  (negb (truthy (bysecond rl)) || memZ (a mod 60) (opt_list (bysecond rl))).

Lemma sabs_parts : forall second minute hour day fx, 0 <= second < 60 -> 0 <= minute < 60 -> 0 <= hour < 24 ->
  let a := sabs (second, minute, hour, day, fx) in
  a mod 60 = second /\ (a / 60) mod 60 = minute /\ (a / 3600) mod 24 = hour.
Proof.
  intros second minute hour day fx Hs Hm Hh. cbv zeta. unfold sabs.
  set (a := day * 86400 + hour * 3600 + minute * 60 + second).
  assert (H60 : a / 60 = day * 1440 + hour * 60 + minute)
    by (symmetry; apply (Z.div_unique _ 60 _ second); unfold a; lia).
  assert (H3600 : a / 3600 = day * 24 + hour)
    by (symmetry; apply (Z.div_unique _ 3600 _ (minute * 60 + second)); unfold a; lia).
  split; [symmetry; apply (Z.mod_unique _ 60 (day * 1440 + hour * 60 + minute) second); unfold a; lia|].
  split.
  - rewrite H60. symmetry. apply (Z.mod_unique _ 60 (day * 24 + hour) minute); lia.
  - rewrite H3600. symmetry. apply (Z.mod_unique _ 24 day hour); lia.
Qed.

Lemma sec_adm_congr : forall rl a b, a mod 86400 = b mod 86400 -> sec_adm rl a = sec_adm rl b.
Proof.
  intros rl a b E. unfold sec_adm.
  assert (H60 : forall x, x mod 60 = (x mod 86400) mod 60).
  { intro x. apply Zmod_div_mod; [lia|lia|]. exists 1440. reflexivity. }
  assert (HM : forall x, (x / 60) mod 60 = ((x mod 86400) / 60) mod 60).
  { intro x. pose proof (Z.div_mod x 86400 ltac:(lia)) as D.
    rewrite D at 1. replace (86400 * (x / 86400) + x mod 86400) with ((1440 * (x / 86400)) * 60 + x mod 86400) by ring.
    rewrite Z.div_add_l by lia.
    replace (1440 * (x / 86400) + x mod 86400 / 60) with (x mod 86400 / 60 + (24 * (x / 86400)) * 60) by ring.
    apply Z_mod_plus_full. }
  assert (HH : forall x, (x / 3600) mod 24 = ((x mod 86400) / 3600) mod 24).
  { intro x. pose proof (Z.div_mod x 86400 ltac:(lia)) as D.
    rewrite D at 1. replace (86400 * (x / 86400) + x mod 86400) with ((24 * (x / 86400)) * 3600 + x mod 86400) by ring.
    rewrite Z.div_add_l by lia. rewrite Z.add_comm, Z.mul_comm. apply Z_mod_plus_full. }
  rewrite (H60 a), (H60 b), (HM a), (HM b), (HH a), (HH b), E. reflexivity.
Qed.

(* one round *)
Lemma sec_body_spec : forall rl second minute hour day fx, 1 <= interval rl ->
  0 <= second -> 0 <= minute < 60 -> 0 <= hour < 24 ->
  let st := (second, minute, hour, day, fx) in
  match sec_body rl st with
  | LErr e => e = EType /\ truthy (bysecond rl) = true /\
              forall i, 1 <= i -> memZ ((second + i * interval rl) mod 60) (opt_list (bysecond rl)) = false
  | LCont st' =>
      exists ks, 1 <= ks /\ sabs st' = sabs st + ks * interval rl /\ sgood st' /\
        day <= sday st' /\ (sfix st' = false -> sday st' = day /\ fx = false) /\
        sec_adm rl (sabs st') = false /\
        forall i, 1 <= i < ks -> memZ ((second + i * interval rl) mod 60) (opt_list (bysecond rl)) = false /\
                                 truthy (bysecond rl) = true
  | LBreak st' =>
      exists ks, 1 <= ks /\ sabs st' = sabs st + ks * interval rl /\ sgood st' /\
        day <= sday st' /\ (sfix st' = false -> sday st' = day /\ fx = false) /\
        sec_adm rl (sabs st') = true /\
        forall i, 1 <= i < ks -> memZ ((second + i * interval rl) mod 60) (opt_list (bysecond rl)) = false /\
                                 truthy (bysecond rl) = true
  end.
Proof.
  intros rl second minute hour day fx Hi Hs Hm Hh. cbv zeta. unfold sec_body.
  set (itv := interval rl) in *.
  assert (Hstep :
    match (if truthy (bysecond rl) then mod_distance rl second (opt_list (bysecond rl)) 60
           else Ok ((second + itv) / 60, (second + itv) mod 60)) with
    | Err e => e = EType /\ truthy (bysecond rl) = true /\
               forall i, 1 <= i -> memZ ((second + i * itv) mod 60) (opt_list (bysecond rl)) = false
    | Ok (nm, se') => exists ks, 1 <= ks /\ nm * 60 + se' = second + ks * itv /\ 0 <= se' < 60 /\ 0 <= nm /\
        (truthy (bysecond rl) = true -> memZ se' (opt_list (bysecond rl)) = true) /\
        forall i, 1 <= i < ks -> memZ ((second + i * itv) mod 60) (opt_list (bysecond rl)) = false /\
                                 truthy (bysecond rl) = true
    end).
  { destruct (truthy (bysecond rl)) eqn:Eb.
    - unfold mod_distance. fold itv.
      pose proof (mod_distance_loop_spec (Z.to_nat 60) itv 60 (opt_list (bysecond rl)) second 0 ltac:(lia)) as S.
      destruct (mod_distance_loop (Z.to_nat 60) itv 60 (opt_list (bysecond rl)) second 0) as [[a v]|] eqn:El.
      + destruct S as (k & Hk & Eq & Mv & Rv & Fj). exists k. split; [lia|]. split; [lia|]. split; [lia|].
        split; [nia|]. split; [intros _; exact Mv|]. intros i Hi'. split; [apply Fj; lia|reflexivity].
      + split; [reflexivity|]. split; [reflexivity|].
        apply (mod_distance_none_forever (Z.to_nat 60) itv 60 _ second ltac:(lia) eq_refl El).
    - exists 1. split; [lia|]. split; [pose proof (Z.div_mod (second + itv) 60 ltac:(lia)); lia|].
      split; [apply Z.mod_pos_bound; lia|]. split; [apply Z.div_pos; lia|]. split; [discriminate|]. intros i Hi'. lia. }
  destruct (if truthy (bysecond rl) then mod_distance rl second (opt_list (bysecond rl)) 60
            else Ok ((second + itv) / 60, (second + itv) mod 60)) as [[nm se']|e]; [|exact Hstep].
  destruct Hstep as (ks & Hks & Eq & Rs & Rnm & Mem & Skip).
  pose proof (Z.div_mod (minute + nm) 60 ltac:(lia)) as Dm.
  pose proof (Z.mod_pos_bound (minute + nm) 60 ltac:(lia)) as Bm.
  assert (Hdv : 0 <= (minute + nm) / 60) by (apply Z.div_pos; lia).
  set (dv := (minute + nm) / 60) in *. set (m' := (minute + nm) mod 60) in *.
  pose proof (Z.div_mod (hour + dv) 24 ltac:(lia)) as Dh.
  pose proof (Z.mod_pos_bound (hour + dv) 24 ltac:(lia)) as Bh.
  assert (Hdv2 : 0 <= (hour + dv) / 24) by (apply Z.div_pos; lia).
  (* the three-way carry, as one value *)
  set (carry := if negb (dv =? 0)
                then (if negb ((hour + dv) / 24 =? 0) then ((hour + dv) mod 24, day + (hour + dv) / 24, true)
                      else ((hour + dv) mod 24, day, fx))
                else (hour, day, fx)).
  assert (Hc : exists h' d' f', carry = (h', d', f') /\ 0 <= h' < 24 /\ day <= d' /\
                 (f' = false -> d' = day /\ fx = false) /\
                 d' * 24 + h' = day * 24 + hour + dv).
  { unfold carry. destruct (Z.eqb_spec dv 0) as [E0|E0]; cbn [negb].
    - exists hour, day, fx. split; [reflexivity|]. split; [lia|]. split; [lia|]. split; [auto|lia].
    - destruct (Z.eqb_spec ((hour + dv) / 24) 0) as [E1|E1]; cbn [negb].
      + exists ((hour + dv) mod 24), day, fx. split; [reflexivity|]. split; [lia|]. split; [lia|]. split; [auto|lia].
      + exists ((hour + dv) mod 24), (day + (hour + dv) / 24), true. split; [reflexivity|]. split; [lia|].
        split; [lia|]. split; [discriminate|lia]. }
  destruct Hc as (h' & d' & f' & Ec & Rh & Rd & Rf & Eh).
  change (let '(hour0, day0, fixday0) := carry in
          if (negb (truthy (byhour rl)) || memZ hour0 (opt_list (byhour rl))) &&
             (negb (truthy (byminute rl)) || memZ m' (opt_list (byminute rl))) &&
             (negb (truthy (bysecond rl)) || memZ se' (opt_list (bysecond rl)))
          then LBreak (se', m', hour0, day0, fixday0) else LCont (se', m', hour0, day0, fixday0))
    with (match (let '(hour0, day0, fixday0) := carry in
          if (negb (truthy (byhour rl)) || memZ hour0 (opt_list (byhour rl))) &&
             (negb (truthy (byminute rl)) || memZ m' (opt_list (byminute rl))) &&
             (negb (truthy (bysecond rl)) || memZ se' (opt_list (bysecond rl)))
          then LBreak (se', m', hour0, day0, fixday0) else LCont (se', m', hour0, day0, fixday0)) with x => x end).
  rewrite Ec.
  assert (Habs : sabs (se', m', h', d', f') = sabs (second, minute, hour, day, fx) + ks * itv)
    by (unfold sabs; lia).
  assert (Hadm : sec_adm rl (sabs (se', m', h', d', f')) =
                 (negb (truthy (byhour rl)) || memZ h' (opt_list (byhour rl))) &&
                 (negb (truthy (byminute rl)) || memZ m' (opt_list (byminute rl))) &&
                 (negb (truthy (bysecond rl)) || memZ se' (opt_list (bysecond rl)))).
  { unfold sec_adm. destruct (sabs_parts se' m' h' d' f' Rs Bm Rh) as (P1 & P2 & P3).
    rewrite P1, P2, P3. reflexivity. }
  destruct ((negb (truthy (byhour rl)) || memZ h' (opt_list (byhour rl))) &&
            (negb (truthy (byminute rl)) || memZ m' (opt_list (byminute rl))) &&
            (negb (truthy (bysecond rl)) || memZ se' (opt_list (bysecond rl)))) eqn:Eadm;
    (exists ks; split; [lia|]; split; [exact Habs|]; split; [unfold sgood; lia|]; split; [cbn; lia|];
     split; [cbn; exact Rf|]; split; [exact Hadm|exact Skip]).
Qed.

(* ------------------------------------------------------------------ the rounds *)
Lemma sec_bad_by_second : forall rl second minute hour day fx i,
  truthy (bysecond rl) = true ->
  memZ ((second + i * interval rl) mod 60) (opt_list (bysecond rl)) = false ->
  sec_adm rl (sabs (second, minute, hour, day, fx) + i * interval rl) = false.
Proof.
  intros rl second minute hour day fx i Ht Hm. unfold sec_adm, sabs.
  replace ((day * 86400 + hour * 3600 + minute * 60 + second + i * interval rl) mod 60)
    with ((second + i * interval rl) mod 60).
  - rewrite Ht, Hm. cbn [negb orb]. apply andb_false_r.
  - replace (day * 86400 + hour * 3600 + minute * 60 + second + i * interval rl)
      with (second + i * interval rl + (day * 1440 + hour * 60 + minute) * 60) by ring.
    symmetry. apply Z_mod_plus_full.
Qed.

Lemma sgood_spre : forall st, sgood st -> spre st.
Proof. intros [[[[se mi] hh] dd] fx]. unfold sgood, spre. lia. Qed.

Lemma sec_loop_spec : forall rl, 1 <= interval rl -> forall n st, spre st ->
  match loop_n n (sec_body rl) st with
  | LBreak st' =>
      exists c, 1 <= c /\ sabs st' = sabs st + c * interval rl /\ sgood st' /\ sday st <= sday st' /\
        (sfix st' = false -> sday st' = sday st /\ sfix st = false) /\
        sec_adm rl (sabs st') = true /\
        forall i, 1 <= i < c -> sec_adm rl (sabs st + i * interval rl) = false
  | LCont st' =>
      (n = O /\ st' = st) \/
      exists c, Z.of_nat n <= c /\ 1 <= c /\ sabs st' = sabs st + c * interval rl /\ sgood st' /\
        forall i, 1 <= i <= c -> sec_adm rl (sabs st + i * interval rl) = false
  | LErr e => e = EType /\ forall i, 1 <= i -> sec_adm rl (sabs st + i * interval rl) = false
  end.
Proof.
  intros rl Hi. induction n as [|n IH]; intros st Hpre; [left; split; reflexivity|].
  cbn [loop_n]. destruct st as [[[[se mi] hh] dd] fx]. destruct Hpre as [Hse [Hmi Hhh]].
  pose proof (sec_body_spec rl se mi hh dd fx Hi Hse Hmi Hhh) as B. cbv zeta in B.
  set (st := (se, mi, hh, dd, fx)) in *.
  destruct (sec_body rl st) as [st1|st1|e].
  - destruct B as (km & Hkm & Eabs & Hg & Hday & Hfix & Hadm & Skip).
    assert (Hskip : forall i, 1 <= i <= km -> sec_adm rl (sabs st + i * interval rl) = false).
    { intros i Hi'. destruct (Z.eq_dec i km) as [->|Hne]; [rewrite <- Eabs; exact Hadm|].
      destruct (Skip i ltac:(lia)) as [S1 S2]. apply sec_bad_by_second; assumption. }
    specialize (IH st1 (sgood_spre _ Hg)).
    destruct (loop_n n (sec_body rl) st1) as [st2|st2|e].
    + right. destruct IH as [[-> ->]|(c & Hc & Hc1 & Ea & Hg2 & Sk)].
      * exists km. split; [lia|]. split; [lia|]. split; [exact Eabs|]. split; [exact Hg|]. exact Hskip.
      * exists (km + c). split; [lia|]. split; [lia|]. split; [rewrite Ea, Eabs; ring|]. split; [exact Hg2|].
        intros i Hi'. destruct (Z_le_gt_dec i km) as [Hle|Hgt]; [apply Hskip; lia|].
        specialize (Sk (i - km) ltac:(lia)). rewrite Eabs in Sk.
        replace (sabs st + km * interval rl + (i - km) * interval rl)
          with (sabs st + i * interval rl) in Sk by ring. exact Sk.
    + destruct IH as (c & Hc & Ea & Hg2 & Hd2 & Hf2 & Had & Sk).
      exists (km + c). split; [lia|]. split; [rewrite Ea, Eabs; ring|]. split; [exact Hg2|].
      split; [unfold st in *; cbn [sday] in *; lia|]. split.
      { intro Hf. destruct (Hf2 Hf) as [E1 E2]. destruct (Hfix E2) as [E3 E4]. unfold st. cbn [sday sfix] in *.
        split; [lia|exact E4]. }
      split; [exact Had|].
      intros i Hi'. destruct (Z_le_gt_dec i km) as [Hle|Hgt]; [apply Hskip; lia|].
      specialize (Sk (i - km) ltac:(lia)). rewrite Eabs in Sk.
      replace (sabs st + km * interval rl + (i - km) * interval rl)
        with (sabs st + i * interval rl) in Sk by ring. exact Sk.
    + destruct IH as [-> Sk]. split; [reflexivity|].
      intros i Hi'. destruct (Z_le_gt_dec i km) as [Hle|Hgt]; [apply Hskip; lia|].
      specialize (Sk (i - km) ltac:(lia)). rewrite Eabs in Sk.
      replace (sabs st + km * interval rl + (i - km) * interval rl)
        with (sabs st + i * interval rl) in Sk by ring. exact Sk.
  - destruct B as (km & Hkm & Eabs & Hg & Hday & Hfix & Hadm & Skip).
    exists km. split; [lia|]. split; [exact Eabs|]. split; [exact Hg|]. split; [exact Hday|].
    split; [exact Hfix|]. split; [exact Hadm|].
    intros i Hi'. destruct (Skip i Hi') as [S1 S2]. apply sec_bad_by_second; assumption.
  - destruct B as (-> & Ht & Sk). split; [reflexivity|].
    intros i Hi'. apply sec_bad_by_second; [exact Ht|apply Sk; exact Hi'].
Qed.

Lemma sec_all_bad_forever : forall rl A c, 1 <= interval rl ->
  86400 / Z.gcd (interval rl) 86400 <= c ->
  (forall i, 1 <= i <= c -> sec_adm rl (A + i * interval rl) = false) ->
  forall i, 1 <= i -> sec_adm rl (A + i * interval rl) = false.
Proof.
  intros rl A c Hi Hc Hall i Hi'.
  set (itv := interval rl) in *. set (g := Z.gcd itv 86400) in *.
  assert (Gp : 0 < g).
  { pose proof (Z.gcd_nonneg itv 86400). destruct (Z.eq_dec g 0) as [E|E]; [|lia].
    apply Z.gcd_eq_0 in E. lia. }
  destruct (Z.gcd_divide_l itv 86400) as [a Ha]. destruct (Z.gcd_divide_r itv 86400) as [b Hb].
  fold g in Ha, Hb.
  assert (HN : 86400 / g = b) by (rewrite Hb at 1; apply Z.div_mul; lia).
  assert (Hbpos : 1 <= b) by nia.
  rewrite HN in Hc.
  set (i0 := (i - 1) mod b + 1).
  assert (Hi0 : 1 <= i0 <= b) by (unfold i0; pose proof (Z.mod_pos_bound (i - 1) b ltac:(lia)); lia).
  rewrite (sec_adm_congr rl (A + i * itv) (A + i0 * itv)); [apply Hall; lia|].
  pose proof (Z.div_mod (i - 1) b ltac:(lia)) as D.
  replace (A + i * itv) with (A + i0 * itv + ((i - 1) / b * a) * 86400).
  - apply Z_mod_plus_full.
  - unfold i0. rewrite Hb. rewrite Ha. nia.
Qed.

Definition skipped_sec (rl : rule) (filtered : bool) (A0 i : Z) : Prop :=
  (filtered = true /\ A0 + i * interval rl <= 86399) \/ sec_adm rl (A0 + i * interval rl) = false.

Theorem secondly_core_spec : forall rl filtered hour minute second day,
  1 <= interval rl -> 0 <= hour < 24 -> 0 <= minute < 60 -> 0 <= second < 60 ->
  let A0 := hour * 3600 + minute * 60 + second in
  match secondly_core rl filtered hour minute second day with
  | Ok (se', mi', hh', dd', fx') =>
      exists j, 1 <= j /\ (dd' - day) * 86400 + hh' * 3600 + mi' * 60 + se' = A0 + j * interval rl /\
        0 <= se' < 60 /\ 0 <= mi' < 60 /\ 0 <= hh' < 24 /\ day <= dd' /\ (fx' = false -> dd' = day) /\
        sec_adm rl (A0 + j * interval rl) = true /\
        (filtered = true -> 86399 < A0 + j * interval rl) /\
        forall i, 1 <= i < j -> skipped_sec rl filtered A0 i
  | Err e => (e = EValue \/ e = EType) /\ forall i, 1 <= i -> skipped_sec rl filtered A0 i
  end.
Proof.
  intros rl filtered hour minute second day Hi Hh Hm Hs A0. unfold secondly_core, skipped_sec.
  set (itv := interval rl) in *.
  set (q := if filtered then (86399 - A0) / itv else 0).
  assert (HA : 0 <= A0 <= 86399) by (unfold A0; lia).
  assert (Hq : 0 <= q /\ A0 + q * itv <= 86399 /\ (filtered = false -> q = 0) /\
               (filtered = true -> 86399 < A0 + (q + 1) * itv)).
  { unfold q. destruct filtered.
    - pose proof (Z.div_pos (86399 - A0) itv ltac:(lia) ltac:(lia)).
      pose proof (Z.div_mod (86399 - A0) itv ltac:(lia)) as D.
      pose proof (Z.mod_pos_bound (86399 - A0) itv ltac:(lia)) as B.
      split; [lia|]. split; [nia|]. split; [discriminate|]. intros _. nia.
    - split; [lia|]. split; [lia|]. split; [reflexivity|discriminate]. }
  destruct Hq as (Hq0 & Hq1 & Hq2 & Hq3).
  assert (Hj : sec_jump itv filtered hour minute second = second + q * itv).
  { unfold sec_jump, q. fold A0. destruct filtered; ring. }
  rewrite Hj, for_range_loop_n.
  set (st0 := (second + q * itv, minute, hour, day, false)).
  assert (Hpre : spre st0) by (unfold st0, spre; nia).
  assert (Habs0 : sabs st0 = day * 86400 + A0 + q * itv) by (unfold st0, sabs, A0; ring).
  assert (Hcongr : forall i, sec_adm rl (sabs st0 + (i - q) * itv) = sec_adm rl (A0 + i * itv)).
  { intro i. apply sec_adm_congr. rewrite Habs0.
    replace (day * 86400 + A0 + q * itv + (i - q) * itv) with (A0 + i * itv + day * 86400) by ring.
    apply Z_mod_plus_full. }
  assert (Hleft : forall i, 1 <= i <= q -> filtered = true /\ A0 + i * itv <= 86399).
  { intros i Hiq. split; [destruct filtered; [reflexivity|specialize (Hq2 eq_refl); lia]|nia]. }
  pose proof (rep_rate_pos itv 86400 Hi ltac:(lia)) as HN.
  pose proof (sec_loop_spec rl Hi (Z.to_nat (86400 / Z.gcd itv 86400)) st0 Hpre) as L.
  subst itv.
  destruct (loop_n (Z.to_nat (86400 / Z.gcd (interval rl) 86400)) (sec_body rl) st0)
    as [st'|[[[[se' mi'] hh'] dd'] fx']|e].
  - split; [left; reflexivity|]. destruct L as [[E0 _]|(c & Hc & Hc1 & Ea & Hg & Sk)]; [lia|].
    pose proof (sec_all_bad_forever rl (sabs st0) c Hi ltac:(lia) Sk) as F.
    intros i Hi'. destruct (Z_le_gt_dec i q) as [Hle|Hgt]; [left; apply Hleft; lia|].
    right. rewrite <- Hcongr. apply F. lia.
  - destruct L as (c & Hc & Ea & Hg & Hd & Hf & Had & Sk).
    cbn [sday sfix sgood] in *. unfold st0 in Hd, Hf. cbn [sday sfix] in Hd, Hf.
    exists (q + c). split; [lia|].
    split; [rewrite Habs0 in Ea; unfold sabs in Ea; lia|]. split; [lia|]. split; [lia|]. split; [lia|].
    split; [lia|]. split; [intro E; destruct (Hf E); assumption|].
    split; [rewrite <- Hcongr; replace (q + c - q) with c by ring; rewrite <- Ea; exact Had|].
    split; [intro E; specialize (Hq3 E); nia|].
    intros i Hi'. destruct (Z_le_gt_dec i q) as [Hle|Hgt]; [left; apply Hleft; lia|].
    right. rewrite <- Hcongr. apply Sk. lia.
  - destruct L as [-> F]. split; [right; reflexivity|].
    intros i Hi'. destruct (Z_le_gt_dec i q) as [Hle|Hgt]; [left; apply Hleft; lia|].
    right. rewrite <- Hcongr. apply F. lia.
Qed.
