(* C01 -- what the YEARLY/MONTHLY/WEEKLY/DAILY loop theorems share.
   (1) step_from_days: once a pass's day set, filter loop and surviving day indices P are known, the
       rest of `step` -- time expansion or the BYSETPOS selection, then the until/start/count gate --
       is the specification's  sp_take r (filter (>= start) (select_pos r candidates)).
   (2) coarse_run_is_spec: the induction over passes, generic in the cursor invariant. *)
From Coq Require Import ZArith List Bool Lia ZifyBool.
From V Require Import base.Cal gen.RrTables rr.RRBase rr.RRNorm rr.RRMasks rr.RRIter rr.RRSpec
  rr.RRGateThm rr.RRTimesetThm rr.RRPassThm rr.RRYearlyThm rr.RRCountThm rr.RRYearlyCountThm
  rr.RRYearlyUntilThm rr.RRSetposThm.
Import ListNotations.
Ltac Zify.zify_post_hook ::= Z.to_euclidean_division_equations.
Open Scope Z_scope.

(* the time set of a rule coarser than HOURLY is strictly increasing *)
Lemma period_times_sorted r : spec_wf r = true -> (r_freq r <? HOURLY) = true ->
  ssorted (period_times r 0) = true.
Proof.
  intros HW Hf. unfold spec_wf in HW.
  repeat match type of HW with _ && _ = true =>
    let H := fresh "W" in apply andb_true_iff in HW; destruct HW as [HW H] end.
  assert (VH : 0 <= sp_H0 r <= 23 /\ 0 <= sp_M0 r <= 59 /\ 0 <= sp_S0 r <= 59).
  { match goal with H : valid_hms _ _ _ = true |- _ => unfold valid_hms in H end. lia. }
  destruct VH as (VH & VM & VS).
  pose proof (all_opt_range (r_byhour r) 0 23 (sp_H0 r) ltac:(assumption) VH) as RH.
  pose proof (all_opt_range (r_byminute r) 0 59 (sp_M0 r) ltac:(assumption) VM) as RM.
  pose proof (all_opt_range (r_bysecond r) 0 59 (sp_S0 r) ltac:(assumption) VS) as RS.
  assert (SP : period_times r 0 =
               tprod (eff_times (r_byhour r) (sp_H0 r)) (eff_times (r_byminute r) (sp_M0 r))
                     (eff_times (r_bysecond r) (sp_S0 r))).
  { unfold period_times. unfold HOURLY, MINUTELY, SECONDLY in *.
    replace (r_freq r <? 4) with true by lia. replace (r_freq r <? 5) with true by lia.
    replace (r_freq r <? 6) with true by lia. cbv iota.
    apply spec_product_valid; assumption. }
  rewrite SP. apply tprod_sorted; try assumption; apply sort_set_sorted.
Qed.

(* a filtered index range is strictly increasing *)
Lemma zrange_nat_gt n : forall a x, In x (zrange_nat (a + 1) n) -> a < x.
Proof. intros a x H. pose proof (In_zrange_nat_bounds _ _ _ H). lia. Qed.

Lemma ssorted_filter_zrange p a b : ssorted (filter p (zrange a b)) = true.
Proof.
  unfold zrange. generalize (Z.to_nat (b - a)) as n. intros n. revert a.
  induction n as [|n IH]; intros a; cbn [zrange_nat filter]; [reflexivity|].
  destruct (p a); [|apply IH]. cbn [ssorted]. rewrite IH, andb_true_r.
  apply forallb_forall. intros x Hx. apply filter_In in Hx. destruct Hx as [Hx _].
  pose proof (zrange_nat_gt n a x Hx). lia.
Qed.

Lemma flat_map_nil_ts {A B C} (f : A -> B -> C) (l : list A) :
  flat_map (fun i => map (f i) (@nil B)) l = [].
Proof. induction l as [|x t IH]; cbn [flat_map map app]; [reflexivity|exact IH]. Qed.

Section StepFromDays.
Variables (r : raw) (rl : rule).
Hypothesis HN : normalize r = Ok rl.
Hypothesis HW : spec_wf r = true.
Hypothesis Hfr : (r_freq r <? HOURLY) = true.

(* the second half of `step` *)
Theorem step_from_days : forall s k cnt ds st en ds' f P,
  getdayset rl (c_ii s) (c_year s) (c_month s) (c_day s) = Ok (ds, st, en) ->
  filter_loop rl (c_ii s) (py_slice ds st en) ds false = Ok (ds', f) ->
  somes (py_slice ds' st en) = P -> ssorted P = true ->
  (forall i, In i P -> from_ordinal (yearordinal (c_ii s) + i) = Ok (yearordinal (c_ii s) + i)) ->
  c_timeset s = period_times r 0 -> c_count s = cnt ->
  step_items r k = filter (inst_le (sp_start r))
                     (select_pos r (cand_list (yearordinal (c_ii s)) (period_times r 0) P)) ->
  exists out' c1 s1 c1' b1,
    step rl s = match s1 with
                | Some t => inr (out', t)
                | None => match advance rl s f c1 out' with
                          | Err e => inr (out', TRaised e)
                          | Ok AdvMax => inr (out', TMaxYear)
                          | Ok AdvFuel => inr (out', TOutOfFuel)
                          | Ok (AdvGo s') => inl s'
                          end
                end /\
    sp_take r (step_items r k) cnt (c_out s) = (out', c1', b1) /\
    (s1 = None -> b1 = false /\ c1 = c1') /\ (s1 <> None -> b1 = true \/ until_lt_start r) /\
    (forall lo, (forall i, In i P -> lo <= yearordinal (c_ii s) + i) ->
                sp_after_until r (lo, 0) = true -> out' = c_out s).
Proof.
  intros s k cnt ds st en ds' f P E1 E2 EP SP Hfo At Ac ES.
  destruct (normalize_misc r rl HN) as (_ & Nsp & _ & _ & _ & _ & Nu).
  assert (V : valid_ymd (r_y r) (r_m r) (r_d r) = true).
  { pose proof HW as HW'. unfold spec_wf in HW'.
    repeat match type of HW' with _ && _ = true =>
      let H := fresh "W" in apply andb_true_iff in HW'; destruct HW' as [HW' H] end. assumption. }
  destruct (normalize_start_until r rl HN V) as (S1 & _ & _).
  set (yo := yearordinal (c_ii s)) in *. set (ts := period_times r 0) in *.
  set (C := cand_list yo ts P) in *.
  pose proof (period_times_sorted r HW Hfr) as ST. fold ts in ST.
  (* what reaches the gate *)
  assert (GL : (if truthy (bysetpos rl) && nonempty ts then
                  match poslist_build yo (somes (py_slice ds' st en)) ts (opt_list (bysetpos rl)) [] with
                  | Err e => (c_out s, c_count s, Some (TRaised e))
                  | Ok pl => gate_list rl (sort_inst pl) (c_count s) (c_out s)
                  end
                else out_days rl yo (py_slice ds' st en) ts (c_count s) (c_out s)) =
               gate_list rl (select_pos r C) cnt (c_out s)).
  { rewrite Nsp, Ac. unfold select_pos. destruct (r_bysetpos r) as [poss|] eqn:EB.
    - cbn [opt_list].
      assert (Hnz : forallb (fun p => negb (p =? 0)) poss = true).
      { pose proof HW as HW'. unfold spec_wf in HW'.
        repeat match type of HW' with _ && _ = true =>
          let H := fresh "W" in apply andb_true_iff in HW'; destruct HW' as [HW' H] end.
        rewrite EB in *. match goal with H : all_opt (Some poss) _ = true |- _ => cbn [all_opt] in H;
          rewrite forallb_forall in H; rename H into HA end.
        apply forallb_forall. intros p Hp. specialize (HA p Hp).
        apply andb_true_iff in HA. destruct HA as [HA _]. exact HA. }
      assert (TP : truthy (Some poss) = true).
      { pose proof HW as HW'. unfold spec_wf in HW'.
        repeat match type of HW' with _ && _ = true =>
          let H := fresh "W" in apply andb_true_iff in HW'; destruct HW' as [HW' H] end.
        rewrite EB in *. match goal with H : ne_opt (Some poss) = true |- _ => rename H into HE end.
        destruct poss; [discriminate HE|reflexivity]. }
      rewrite TP. cbn [andb].
      destruct (nonempty ts) eqn:ENE.
      + rewrite EP.
        destruct (poslist_is_select_pos yo ts P poss ltac:(destruct ts; [discriminate ENE|cbn [length]; lia])
                    SP ST Hfo Hnz) as (pl & Epl & Esort).
        rewrite Epl, Esort. reflexivity.
      + assert (Ets : ts = []) by (destruct ts; [reflexivity|discriminate ENE]).
        rewrite out_days_is_gate by (rewrite EP; exact Hfo).
        unfold C, cand_list. rewrite Ets, !flat_map_nil_ts. reflexivity.
    - cbn [truthy andb]. rewrite out_days_is_gate by (rewrite EP; exact Hfo). rewrite EP. reflexivity. }
  pose proof (gate_take_gen rl r S1 Nu (select_pos r C) cnt (c_out s)) as GT.
  rewrite <- ES in GT.
  assert (DU : forall lo, (forall i, In i P -> lo <= yo + i) -> sp_after_until r (lo, 0) = true ->
                fst (fst (gate_list rl (select_pos r C) cnt (c_out s))) = c_out s).
  { intros lo Hlo AU. destruct (gate_list_all_after rl r Nu (select_pos r C) cnt (c_out s)) as (stp & Eg & _).
    - intros x Hx.
      assert (HxC : In x C).
      { unfold select_pos in Hx. destruct (r_bysetpos r); [|exact Hx].
        apply (select_pos_aux_sub _ _ _ _ _ Hx). }
      unfold C, cand_list in HxC. apply in_flat_map in HxC. destruct HxC as (i & Hi & HxC).
      apply in_map_iff in HxC. destruct HxC as (t & <- & Ht).
      pose proof (period_times_nonneg r 0 t Ht) as Bt. specialize (Hlo i Hi).
      apply (after_until_mono r (lo, 0) (yo + i, t) AU). unfold inst_le. cbn [fst snd]. lia.
    - rewrite Eg. reflexivity. }
  destruct (gate_list rl (select_pos r C) cnt (c_out s)) as [[o1 c1] s1] eqn:EG.
  destruct (sp_take r (step_items r k) cnt (c_out s)) as [[a1 c1'] b1] eqn:ET.
  destruct GT as (G1 & G2 & G3). subst a1.
  exists o1, c1, s1, c1', b1.
  split.
  { unfold step. rewrite E1. cbn [bind]. rewrite E2. cbn [bind fst snd]. fold yo. rewrite At. fold ts.
    rewrite GL. reflexivity. }
  split; [reflexivity|]. split; [exact G2|]. split; [exact G3|].
  intros lo Hlo AU. apply (DU lo Hlo AU).
Qed.
End StepFromDays.

(* ------------------------------------------------------------------ the induction over passes *)
Section CoarseRun.
Variables (r : raw) (rl : rule).
Variable Inv : Z -> option Z -> state -> Prop.
Variable okp : Z -> Prop.
Hypothesis Inv_count : forall k cnt s, Inv k cnt s -> c_count s = cnt.
Hypothesis lo_mono : forall k, 0 <= k -> step_lo r k <= step_lo r (k + 1).
Hypothesis lo_range : forall k cnt s, Inv k cnt s -> 0 <= k -> okp k -> step_lo r k <= max_ord.
Hypothesis Hstep : forall k cnt s, Inv k cnt s -> 0 <= k -> okp k ->
  exists acc' cnt' b, sp_take r (step_items r k) cnt (c_out s) = (acc', cnt', b) /\
    ((exists s', step rl s = inl s' /\ Inv (k + 1) cnt' s' /\ c_out s' = acc' /\ b = false) \/
     (exists t, step rl s = inr (acc', t) /\
                (b = true \/ until_lt_start r \/ max_ord < step_lo r (k + 1)))) /\
    (sp_after_until r (step_lo r k, 0) = true -> acc' = c_out s).

Lemma spec_loop_beyond limit n k cnt acc : max_ord < step_lo r k ->
  fst (spec_loop r limit n k cnt acc) = acc.
Proof.
  intros Hk. destruct n as [|n]; cbn [spec_loop]; [reflexivity|].
  destruct (limit <=? zlen acc); [reflexivity|].
  replace (max_ord <? step_lo r k) with true by lia. reflexivity.
Qed.

Lemma coarse_run_dead_until : forall limit n k cnt s,
  Inv k cnt s -> 0 <= k -> (forall j, k <= j < k + Z.of_nat n -> okp j) ->
  sp_after_until r (step_lo r k, 0) = true ->
  fst (run rl limit n s) = c_out s.
Proof.
  intros limit n. induction n as [|n IH]; intros k cnt s A Hk Hok AU; cbn [run].
  - reflexivity.
  - destruct (limit <=? zlen (c_out s)); [reflexivity|].
    destruct (Hstep k cnt s A Hk (Hok k ltac:(lia))) as (acc' & cnt' & b & ET & Hcase & Hau).
    specialize (Hau AU).
    destruct Hcase as [(s' & ES & A' & EO & Eb)|(t & ES & _)].
    + rewrite ES. rewrite (IH (k + 1) cnt' s' A' ltac:(lia)).
      * rewrite EO. exact Hau.
      * intros j Hj. apply Hok. lia.
      * apply (after_until_mono r _ _ AU). unfold inst_le. cbn [fst snd].
        pose proof (lo_mono k Hk). lia.
    + rewrite ES. cbn [fst]. exact Hau.
Qed.

Theorem coarse_run_is_spec : forall limit n k cnt s,
  Inv k cnt s -> 0 <= k -> (forall j, k <= j < k + Z.of_nat n -> okp j) ->
  fst (run rl limit n s) = fst (spec_loop r limit n k cnt (c_out s)).
Proof.
  intros limit n. induction n as [|n IH]; intros k cnt s A Hk Hok.
  - reflexivity.
  - pose proof (Inv_count k cnt s A) as Ac.
    pose proof (Hok k ltac:(lia)) as Hokk.
    pose proof (lo_range k cnt s A Hk Hokk) as Hlo.
    destruct (sp_after_until r (step_lo r k, 0)) eqn:AU.
    + rewrite (coarse_run_dead_until limit (S n) k cnt s A Hk Hok AU).
      cbn [spec_loop]. destruct (limit <=? zlen (c_out s)); [reflexivity|].
      replace (max_ord <? step_lo r k) with false by lia. rewrite AU. reflexivity.
    + cbn [run spec_loop]. destruct (limit <=? zlen (c_out s)); [reflexivity|].
      replace (max_ord <? step_lo r k) with false by lia. rewrite AU.
      destruct (match cnt with Some c => c <=? 0 | None => false end) eqn:EC.
      * destruct cnt as [c|]; [|discriminate EC].
        assert (D : dead s) by (exists c; split; [exact Ac|lia]).
        pose proof (step_dead rl s D) as SD. destruct (step rl s) as [s'|[out t]].
        -- destruct SD as [E D']. rewrite (run_dead rl limit n s' D'). exact E.
        -- exact SD.
      * destruct (Hstep k cnt s A Hk Hokk) as (acc' & cnt' & b & ET & Hcase & _).
        rewrite ET. destruct Hcase as [(s' & ES & A' & EO & Eb)|(t & ES & Hb)].
        -- rewrite ES. subst b. rewrite <- EO. apply IH; try assumption; [lia|].
           intros j Hj. apply Hok. lia.
        -- rewrite ES. cbn [fst]. destruct b; [reflexivity|].
           destruct Hb as [Hb|[UL|Hmx]]; [discriminate Hb| |].
           ++ symmetry. apply (spec_loop_dead_until r limit UL).
           ++ symmetry. apply (spec_loop_beyond limit n (k + 1) cnt' acc' Hmx).
Qed.
End CoarseRun.
