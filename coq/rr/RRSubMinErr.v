(* C01 sub-daily, MINUTELY: when the advance does not hand back a state the enumeration is over
   (`minutely_stop`); relative to the abstract day-filter layer IOK extended by "rebuild succeeds".
   Written by the rset builder (new file). *)
From Coq Require Import ZArith List Bool Lia ZifyBool.
From V Require Import base.Cal gen.RrTables easter.EasterSpec rr.RRBase rr.RRNorm rr.RRMasks rr.RRIter
  rr.RRSpec rr.RRAdvanceThm rr.RRTimesetThm rr.RRSubNorm rr.RRSubNorm2 rr.RRSubHour rr.RRSubSpec
  rr.RRSubHourTop rr.RRSubMin rr.RRSubMinTop rr.RRSubTimes rr.RRSubPass rr.RRSubRunBase rr.RRSubMinRun
  rr.RRSubClose rr.RRSubCloseGen rr.RRSubCloseGen2 rr.RRSubStop rr.RRSubNoType.
Import ListNotations.
Open Scope Z_scope.

Section MinutelyErr.
Variables (r : raw) (rl : rule).
Hypothesis Hn : normalize r = Ok rl.
Hypothesis HW : spec_wf r = true.
Hypothesis Hf : r_freq r = MINUTELY.
Hypothesis Hnsp : r_bysetpos r = None.
Variable IOK : iinfo -> Z -> Prop.
Hypothesis IOK_rebuild_ok : forall ii y y' m', IOK ii y -> y <= y' <= 9999 -> 1 <= m' <= 12 ->
  exists ii', rebuild rl ii y' m' = Ok ii'.

Local Notation n := (min_n r).
Local Notation a k := (min_n r k mod 1440).
Local Notation filt k := (negb (day_ok r (sp_ord0 r + n k / 1440))).

Theorem minutely_err_is_value : forall s k cnt out, DenM r IOK s k ->
  match advance rl s (filt k) cnt out with
  | Err e => e = EValue
  | _ => True
  end.
Proof.
  intros s k cnt out (Hk & Hv & Ho & Hh & Hmi & Hse & Hts & Hii).
  destruct (factsM r rl Hn HW Hf Hnsp) as (Efr & Eitv & _ & VH & VM & VS & Hi & Hne).
  assert (Hrm : forall l, r_byminute r = Some l -> forall x, In x l -> 0 <= x <= 59).
  { destruct (spec_wf_times r HW) as (_ & _ & _ & _ & RM & _).
    intros l El x Hx. apply RM. unfold eff_times. rewrite El. apply In_sort_set'. exact Hx. }
  set (filtered := filt k).
  assert (Hfilt : filtered = true -> day_ok r (sp_ord0 r + n k / 1440) = false)
    by (unfold filtered; intro E; apply negb_true_iff in E; exact E).
  pose proof (advance_correct_minutely r rl Hn Hf Hi Hne k filtered (c_day s) Hk VS Hfilt) as AC.
  cbv zeta in AC.
  rewrite (advance_minutely_unfold rl s filtered cnt out Efr). rewrite Hh, Hmi.
  pose proof (minutely_no_typeerror r rl filtered k (c_day s) Hn Hf Hi VM Hk Hrm) as NT. cbv zeta in NT.
  destruct (minutely_core rl filtered (a k / 60) (a k mod 60) (c_day s)) as [[[[mi' hh'] dd'] fx']|e].
  2:{ destruct AC as [[He|He] _]; [exact He|]. subst e. exfalso. apply NT. reflexivity. }
  destruct AC as (k' & Hkk & Hord & Ha' & Rm & Rh & Rd & Rf & Adh & Adm & Hskip).
  assert (Vymd : 1 <= c_year s <= 9999 /\ 1 <= c_month s <= 12 /\ 1 <= c_day s <= Cal.dim (c_year s) (c_month s))
    by (unfold valid_ymd in Hv; lia).
  destruct Vymd as (Vy & Vm & Vd).
  assert (Hgt : gettimeset rl hh' mi' (c_second s) = Ok (period_times r (a k' * 60))).
  { unfold gettimeset. rewrite Efr. change (MINUTELY =? HOURLY) with false. change (MINUTELY =? MINUTELY) with true.
    cbv iota. rewrite (mtimeset_is_spec r rl hh' mi' Hn HW Hf ltac:(lia) ltac:(lia) Adh Adm).
    do 2 f_equal. rewrite <- Ha'. ring. }
  rewrite Hgt. cbn [bind].
  destruct (finish_advance_cases rl s fx' (c_year s) (c_month s) dd' hh' mi' (c_second s)
              (c_weekday s) (c_ii s) (period_times r (a k' * 60)) cnt out Vm ltac:(lia) ltac:(unfold T_MAXYEAR; lia))
    as [[s' ->]|[[-> Hbeyond]|(e & y' & m' & -> & Hreb & Hy' & Hm')]].
  - exact I.
  - exact I.
  - exfalso. unfold T_MAXYEAR in Hy'.
    destruct (IOK_rebuild_ok (c_ii s) (c_year s) y' m' Hii Hy' Hm') as [ii' E]. congruence.
Qed.

End MinutelyErr.
