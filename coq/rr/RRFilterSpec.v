(* C01 layer 4 -- day_filter_correct for the table-driven BY-parts, against the SPECIFICATION:
   for every rule inside spec_wf whose day-selecting parts are among BYMONTH, BYMONTHDAY,
   BYYEARDAY and plain BYDAY (no BYWEEKNO, no BYEASTER, no nth weekday -- those go through the
   masks of layers 2-3), every year 1..9999 and every day of that year, the model's filter
   (rrule.py 838-851 with the iterinfo rebuild() produced) rejects the day exactly when
   RRSpec.day_ok says the date is not in the recurrence set.  Includes the constructor's
   normalisation (sorted de-duplicated tuples, bymonthday/bynmonthday split, start-derived
   defaults). *)
From Coq Require Import ZArith List Bool Lia ZifyBool.
From V Require Import base.Cal gen.RrTables rr.RRBase rr.RRNorm rr.RRMasks rr.RRIter rr.RRSpec
  rr.RRTablesThm rr.RRWeekCal rr.RRNwdThm rr.RRFilterThm rr.RRWeekDefs rr.RRWeekThm rr.RRWeekFinal
  rr.RRWeekTop rr.RREasterThm rr.RRNwdCal.
Import ListNotations.
Ltac Zify.zify_post_hook ::= Z.to_euclidean_division_equations.
Open Scope Z_scope.

(* ---- sorted(set(l)) has the same members as l *)
Lemma memZ_insert_uniq x a l : memZ x (insert_uniq a l) = (x =? a) || memZ x l.
Proof.
  unfold memZ. induction l as [|h t IH]; cbn [insert_uniq existsb]; [reflexivity|].
  destruct (a <? h) eqn:E1; cbn [existsb]; [reflexivity|].
  destruct (a =? h) eqn:E2; cbn [existsb].
  - apply Z.eqb_eq in E2. subst. destruct (x =? h); reflexivity.
  - rewrite IH. destruct (x =? a), (x =? h); reflexivity.
Qed.

Lemma memZ_sort_set x l : memZ x (sort_set l) = memZ x l.
Proof.
  unfold sort_set. induction l as [|h t IH]; cbn [fold_right]; [reflexivity|].
  rewrite memZ_insert_uniq, IH. unfold memZ. cbn [existsb]. reflexivity.
Qed.

Lemma memZ_filter x p l : memZ x (filter p l) = p x && memZ x l.
Proof.
  unfold memZ. induction l as [|h t IH]; cbn [filter existsb]; [rewrite andb_false_r; reflexivity|].
  destruct (p h) eqn:E; cbn [existsb]; rewrite IH.
  - destruct (x =? h) eqn:E2; [apply Z.eqb_eq in E2; subst; rewrite E; reflexivity|]. reflexivity.
  - destruct (x =? h) eqn:E2; [apply Z.eqb_eq in E2; subst; rewrite E; reflexivity|]. reflexivity.
Qed.

Lemma sort_set_nonempty l : nonempty (sort_set l) = nonempty l.
Proof.
  destruct l as [|h t]; [reflexivity|]. cbn [nonempty].
  assert (M : memZ h (sort_set (h :: t)) = true).
  { rewrite memZ_sort_set. unfold memZ. cbn. rewrite Z.eqb_refl. reflexivity. }
  destruct (sort_set (h :: t)); [discriminate M|reflexivity].
Qed.

(* ---- the date of day index i of year y *)
Lemma ymd_at y i : 0 <= i < year_len y ->
  ymd_of_ord (jan1 y + i) = (y, month_at y i, mday_at y i) /\
  jan1 y + i - days_before_year y = i + 1.
Proof.
  intros Hi. unfold ymd_of_ord.
  pose proof (year_of_rel y i ltac:(lia)) as Y. fold (jan1 y) in Y.
  replace (i <? year_len y) with true in Y by lia. rewrite Y.
  rewrite jan1_eq. replace (days_before_year y + 1 + i - days_before_year y) with (i + 1) by lia.
  split; reflexivity.
Qed.

(* ---- what the constructor stores, in terms of the specification's effective parts *)
Definition wd_split (r : raw) : option (list Z) * option (list (Z * Z)) :=
  match eff_byweekday r with
  | None => (None, None)
  | Some l =>
    let '(plain, nth) := split_weekday (r_freq r) l in
    let plain := sort_set plain in
    let nth := sort_set_pair nth in
    if negb (nonempty plain) then (None, Some nth)
    else if negb (nonempty nth) then (Some plain, None)
    else (Some plain, Some nth)
  end.

Lemma normalize_fields r rl : normalize r = Ok rl ->
  bymonth rl = option_map sort_set (eff_bymonth r) /\
  byyearday rl = option_map sort_set (r_byyearday r) /\
  bymonthday rl = filter (fun x => 0 <? x) (sort_set (opt_list (eff_bymonthday r))) /\
  bynmonthday rl = filter (fun x => x <? 0) (sort_set (opt_list (eff_bymonthday r))) /\
  byweekno rl = option_map sort_set (r_byweekno r) /\
  byeaster rl = option_map sortZ (r_byeaster r) /\
  (byweekday rl, bynweekday rl) = wd_split r.
Proof.
  unfold normalize.
  destruct (if r_isdate r then (0, 0, 0) else (r_H r, r_M r, r_S r)) as [[hh mm] ss].
  destruct (negb (is_none (r_until r)) && r_tzmix r); [discriminate|].
  destruct (negb match r_bysetpos r with None => true | Some l => setpos_ok l end); [discriminate|].
  assert (EM : (if is_none (r_byweekno r) && is_none (r_byyearday r) && is_none (r_bymonthday r) &&
                   is_none (r_byweekday r) && is_none (r_byeaster r) && (r_freq r =? YEARLY) &&
                   is_none (r_bymonth r) then Some [r_m r] else r_bymonth r) = eff_bymonth r).
  { unfold eff_bymonth, no_day_part. destruct (r_bymonth r); cbn [is_none]; [rewrite andb_false_r; reflexivity|].
    rewrite andb_true_r. reflexivity. }
  assert (ED : (if is_none (r_byweekno r) && is_none (r_byyearday r) && is_none (r_bymonthday r) &&
                   is_none (r_byweekday r) && is_none (r_byeaster r) &&
                   ((r_freq r =? YEARLY) || (r_freq r =? MONTHLY)) then Some [r_d r]
                else r_bymonthday r) = eff_bymonthday r).
  { unfold eff_bymonthday, no_day_part. destruct (r_bymonthday r); cbn [is_none]; [|reflexivity].
    rewrite !andb_false_r. reflexivity. }
  assert (EW : (if is_none (r_byweekno r) && is_none (r_byyearday r) && is_none (r_bymonthday r) &&
                   is_none (r_byweekday r) && is_none (r_byeaster r) && (r_freq r =? WEEKLY)
                then Some [(Cal.weekday (r_y r) (r_m r) (r_d r), 0)] else r_byweekday r) = eff_byweekday r).
  { unfold eff_byweekday, no_day_part. destruct (r_byweekday r); cbn [is_none]; [|reflexivity].
    rewrite !andb_false_r. reflexivity. }
  rewrite EM, ED, EW.
  fold (wd_split r).
  destruct (wd_split r) as [bw bnw] eqn:EWS.
  intros H.
  repeat match type of H with
  | (let '(_, _) := ?p in _) = _ => destruct p eqn:?
  | bind ?x _ = _ => destruct x; cbn [bind] in H; [|discriminate H]
  end.
  inversion H; subst; clear H. cbn.
  repeat split; reflexivity.
Qed.

(* ---- small boolean / list facts *)
Lemma existsb_or2 (a b : Z) l :
  existsb (fun x => (x =? a) || (x =? b)) l = memZ a l || memZ b l.
Proof.
  unfold memZ. induction l as [|h t IH]; cbn [existsb]; [reflexivity|]. rewrite IH.
  rewrite (Z.eqb_sym a h), (Z.eqb_sym b h).
  destruct (h =? a), (h =? b), (existsb (Z.eqb a) t), (existsb (Z.eqb b) t); reflexivity.
Qed.

Lemma nonempty_filter p (l : list Z) : nonempty (filter p l) = existsb p l.
Proof.
  induction l as [|h t IH]; cbn [filter existsb]; [reflexivity|].
  destruct (p h); cbn [nonempty orb]; [reflexivity|exact IH].
Qed.

Lemma existsb_of_mem (p : Z -> bool) h l : memZ h l = true -> p h = true -> existsb p l = true.
Proof.
  unfold memZ. intros M P. apply existsb_exists in M. destruct M as (x & Hx & E).
  apply Z.eqb_eq in E. subst x. apply existsb_exists. exists h. auto.
Qed.

Lemma truthy_map_sort (o : option (list Z)) : ne_opt o = true ->
  truthy (option_map sort_set o) = negb (is_none o).
Proof.
  destruct o as [l|]; [|reflexivity]. cbn [option_map truthy is_none negb ne_opt].
  destruct l as [|h t]; [discriminate|]. intros _.
  pose proof (sort_set_nonempty (h :: t)) as N. cbn [nonempty] in N.
  destruct (sort_set (h :: t)); [discriminate N|reflexivity].
Qed.

(* ---- clause-by-clause agreement with RRSpec.day_ok *)
Lemma month_clause (o : option (list Z)) m : ne_opt o = true ->
  truthy (option_map sort_set o) && negb (memZ m (opt_list (option_map sort_set o))) =
  negb (in_opt o (Z.eqb m)).
Proof.
  intros N. rewrite (truthy_map_sort o N). destruct o as [l|]; [|reflexivity].
  cbn [is_none negb option_map opt_list in_opt andb]. rewrite memZ_sort_set. reflexivity.
Qed.

Lemma yearday_clause (o : option (list Z)) a b : ne_opt o = true ->
  truthy (option_map sort_set o) && negb (memZ a (opt_list (option_map sort_set o))) &&
  negb (memZ b (opt_list (option_map sort_set o))) =
  negb (in_opt o (fun x => (x =? a) || (x =? b))).
Proof.
  intros N. rewrite (truthy_map_sort o N). destruct o as [l|]; [|reflexivity].
  cbn [is_none negb option_map opt_list in_opt andb]. rewrite !memZ_sort_set, existsb_or2.
  destruct (memZ a l), (memZ b l); reflexivity.
Qed.

Lemma monthday_clause (o : option (list Z)) d dn : ne_opt o = true ->
  all_opt o (fun x => negb (x =? 0)) = true -> 0 < d -> dn < 0 ->
  let l := sort_set (opt_list o) in
  (nonempty (filter (fun x => 0 <? x) l) || nonempty (filter (fun x => x <? 0) l)) &&
  negb (memZ d (filter (fun x => 0 <? x) l)) && negb (memZ dn (filter (fun x => x <? 0) l)) =
  negb (in_opt o (fun x => (x =? d) || (x =? dn))).
Proof.
  intros N Z0 Hd Hn. cbv zeta. rewrite !memZ_filter, !nonempty_filter, !memZ_sort_set.
  replace (0 <? d) with true by lia. replace (dn <? 0) with true by lia. cbn [andb].
  destruct o as [l|].
  - cbn [opt_list in_opt]. rewrite existsb_or2.
    destruct l as [|h t]; [discriminate N|].
    cbn [all_opt forallb] in Z0. apply andb_true_iff in Z0. destruct Z0 as [Zh _].
    assert (M : memZ h (sort_set (h :: t)) = true).
    { rewrite memZ_sort_set. unfold memZ. cbn. rewrite Z.eqb_refl. reflexivity. }
    assert (NE : existsb (fun x => 0 <? x) (sort_set (h :: t)) || existsb (fun x => x <? 0) (sort_set (h :: t)) = true).
    { destruct (0 <? h) eqn:E.
      - rewrite (existsb_of_mem (fun x => 0 <? x) h _ M E). reflexivity.
      - rewrite (existsb_of_mem (fun x => x <? 0) h _ M ltac:(lia)). apply orb_true_r. }
    rewrite NE. cbn [andb]. destruct (memZ d (h :: t)), (memZ dn (h :: t)); reflexivity.
  - reflexivity.
Qed.

Lemma split_plain fr l : forallb (fun wn : Z * Z => snd wn =? 0) l = true ->
  split_weekday fr l = (map fst l, []).
Proof.
  unfold split_weekday. induction l as [|[w n] t IH]; intros H; [reflexivity|].
  cbn [forallb snd] in H. apply andb_true_iff in H. destruct H as [Hn Ht].
  cbn [fold_right map fst]. rewrite (IH Ht). rewrite Hn. reflexivity.
Qed.

Lemma existsb_fst wd (l : list (Z * Z)) :
  existsb (fun wn => fst wn =? wd) l = memZ wd (map fst l).
Proof.
  unfold memZ. induction l as [|h t IH]; cbn [existsb map]; [reflexivity|].
  rewrite IH, (Z.eqb_sym wd (fst h)). reflexivity.
Qed.

(* the main statement *)
Definition plain_only (r : raw) : bool :=
  forallb (fun wn : Z * Z => snd wn =? 0) (opt_list (r_byweekday r)).

Definition weekday_lambda (r : raw) (y i : Z) : Z * Z -> bool :=
  fun wn => let '(w, n) := wn in
    (w =? weekday_of_ord (jan1 y + i)) &&
    (if (n =? 0) || (MONTHLY <? r_freq r) then true
     else if (r_freq r =? MONTHLY) || negb (is_none (r_bymonth r))
          then nth_in (mday_at y i) (dim y (month_at y i)) n
          else nth_in (i + 1) (year_len y) n).

(* plain BYDAY: the weekday clause of the filter = the specification's BYDAY predicate *)
Lemma weekday_plain_clause_ok r rl ii y i :
  normalize r = Ok rl -> spec_wf r = true -> plain_only r = true ->
  ii_for ii y -> nwdaymask ii = None -> 0 <= i < year_len y ->
  cl_weekday rl ii i = Ok (negb (in_opt (eff_byweekday r) (weekday_lambda r y i))).
Proof.
  intros HN HW Hp F Hnw Hi.
  destruct (normalize_fields r rl HN) as (_ & _ & _ & _ & _ & _ & Nwd).
  unfold spec_wf in HW.
  repeat match type of HW with _ && _ = true =>
    let H := fresh "W" in apply andb_true_iff in HW; destruct HW as [HW H] end.
  rewrite (cl_weekday_plain_correct rl ii y F i Hi Hnw). f_equal. unfold weekday_lambda.
  assert (NEw : ne_opt (eff_byweekday r) = true /\
                  forallb (fun wn : Z * Z => snd wn =? 0) (opt_list (eff_byweekday r)) = true).
    { unfold eff_byweekday, plain_only in *. destruct (r_byweekday r) as [l|]; [split; assumption|].
      destruct (no_day_part r && (r_freq r =? WEEKLY)); split; reflexivity. }
    destruct NEw as [NEw Pl].
    assert (BW : byweekday rl = match eff_byweekday r with
                                | None => None | Some l => Some (sort_set (map fst l)) end).
    { pose proof Nwd as Q. unfold wd_split in Q. destruct (eff_byweekday r) as [l|].
      - cbn [opt_list] in Pl. rewrite (split_plain _ l Pl) in Q.
        destruct l as [|h t]; [discriminate NEw|].
        assert (NP : nonempty (sort_set (map fst (h :: t))) = true) by (rewrite sort_set_nonempty; reflexivity).
        rewrite NP in Q. cbn [negb nonempty sort_set_pair fold_right] in Q. injection Q as Q1 Q2. exact Q1.
      - injection Q as Q1 Q2. exact Q1. }
    rewrite BW. destruct (eff_byweekday r) as [l|]; [|reflexivity].
    cbn [opt_list in_opt] in *. destruct l as [|h t]; [discriminate NEw|].
    assert (NP : nonempty (sort_set (map fst (h :: t))) = true) by (rewrite sort_set_nonempty; reflexivity).
    assert (TT : truthy (Some (sort_set (map fst (h :: t)))) = true).
    { cbn [truthy]. destruct (sort_set (map fst (h :: t))); [discriminate NP|reflexivity]. }
    rewrite TT. cbn [andb]. rewrite memZ_sort_set. f_equal. rewrite <- existsb_fst.
    clear -Pl. induction (h :: t) as [|[w n] t' IH]; [reflexivity|].
    cbn [forallb snd] in Pl. apply andb_true_iff in Pl. destruct Pl as [Pn Pt].
    cbn [existsb fst]. rewrite (IH Pt). rewrite Pn. cbn [orb]. rewrite andb_true_r. reflexivity.
Qed.

(* core: the mask-driven clauses enter as hypotheses (discharged by the corollaries below) *)
Definition weekno_lambda (r : raw) (o : Z) : Z -> bool :=
  fun x => let '(wy, w) := week_of (r_wkst r) o in (x =? w) || (x =? w - weeks_in (r_wkst r) wy - 1).
Definition easter_lambda (y o : Z) : Z -> bool := fun x => o =? easter_ord_spec y + x.

Lemma day_filter_core : forall r rl ii y i,
  normalize r = Ok rl -> spec_wf r = true ->
  ii_for ii y -> 1 <= y <= 9999 -> 0 <= i < year_len y ->
  cl_weekday rl ii i = Ok (negb (in_opt (eff_byweekday r) (weekday_lambda r y i))) ->
  cl_weekno rl ii i = Ok (negb (in_opt (r_byweekno r) (weekno_lambda r (jan1 y + i)))) ->
  cl_easter rl ii i = Ok (negb (in_opt (r_byeaster r) (easter_lambda y (jan1 y + i)))) ->
  day_rejected rl ii i = Ok (negb (day_ok r (jan1 y + i))).
Proof.
  intros r rl ii y i HN HW F Hy Hi HCD HCW HCE.
  destruct (normalize_fields r rl HN) as (Nm & Nyd & Nmd & Nnmd & Nwn & Nea & Nwd).
  (* unpack the domain predicate *)
  unfold spec_wf in HW.
  repeat match type of HW with _ && _ = true =>
    let H := fresh "W" in apply andb_true_iff in HW; destruct HW as [HW H] end.
  (* facts about the date at index i *)
  destruct (ymd_at y i Hi) as [EY EYD].
  pose proof (month_of_yday_spec y (i + 1) ltac:(lia)) as MS. cbv zeta in MS.
  fold (month_at y i) in MS. destruct MS as [MS1 MS2].
  pose proof (dbm_succ y (month_at y i) MS1) as DS.
  assert (Dd : 1 <= mday_at y i <= dim y (month_at y i)) by (unfold mday_at; lia).
  (* model side: the six clauses *)
  unfold day_rejected.
  rewrite (cl_month_correct rl ii y F i Hi), (cl_monthday_correct rl ii y F i Hi),
          (cl_yearday_correct rl ii y F i Hi).
  rewrite HCD, HCW, HCE.
  (* specification side *)
  unfold day_ok. rewrite EY, EYD.
  fold (weekno_lambda r (jan1 y + i)). fold (easter_lambda y (jan1 y + i)).
  fold (weekday_lambda r y i).
  (* BYMONTH *)
  assert (NEm : ne_opt (eff_bymonth r) = true).
  { unfold eff_bymonth. destruct (r_bymonth r) as [l|]; [assumption|].
    destruct (no_day_part r && (r_freq r =? YEARLY)); reflexivity. }
  rewrite Nm, (month_clause (eff_bymonth r) (month_at y i) NEm).
  (* BYMONTHDAY *)
  assert (Vd : 1 <= r_d r).
  { match goal with H : valid_ymd _ _ _ = true |- _ => unfold valid_ymd in H end. lia. }
  assert (NEd : ne_opt (eff_bymonthday r) = true /\ all_opt (eff_bymonthday r) (fun x => negb (x =? 0)) = true).
  { unfold eff_bymonthday. destruct (r_bymonthday r) as [l|]; [split; assumption|].
    destruct (no_day_part r && ((r_freq r =? YEARLY) || (r_freq r =? MONTHLY))); [|split; reflexivity].
    split; [reflexivity|]. cbn [all_opt forallb]. rewrite andb_true_r. apply negb_true_iff. lia. }
  destruct NEd as [NEd Zd].
  rewrite Nmd, Nnmd.
  rewrite (monthday_clause (eff_bymonthday r) (mday_at y i) (mday_at y i - dim y (month_at y i) - 1)
             NEd Zd ltac:(lia) ltac:(lia)).
  (* BYYEARDAY *)
  rewrite Nyd. rewrite (yearday_clause (r_byyearday r) (i + 1) (i + 1 - year_len y - 1)) by assumption.
  (* assemble *)
  destruct (in_opt (eff_bymonth r) (Z.eqb (month_at y i))),
    (in_opt (eff_bymonthday r) _), (in_opt (r_byyearday r) _), (in_opt (eff_byweekday r) _),
    (in_opt (r_byweekno r) _), (in_opt (r_byeaster r) _); reflexivity.
Qed.

(* no BYWEEKNO, no BYEASTER *)
Theorem day_filter_correct_tables : forall r rl ii y i,
  normalize r = Ok rl -> spec_wf r = true ->
  r_byweekno r = None -> r_byeaster r = None -> plain_only r = true ->
  ii_for ii y -> nwdaymask ii = None -> 1 <= y <= 9999 -> 0 <= i < year_len y ->
  day_rejected rl ii i = Ok (negb (day_ok r (jan1 y + i))).
Proof.
  intros r rl ii y i HN HW Hwn He Hp F Hnw Hy Hi.
  destruct (normalize_fields r rl HN) as (_ & _ & _ & _ & Nwn & Nea & _).
  apply (day_filter_core r rl ii y i HN HW F Hy Hi).
  - apply (weekday_plain_clause_ok r rl ii y i HN HW Hp F Hnw Hi).
  - unfold cl_weekno. rewrite Nwn, Hwn. reflexivity.
  - unfold cl_easter. rewrite Nea, He. reflexivity.
Qed.

(* non-vacuity: rrule(MONTHLY, dtstart=datetime(2000,1,31), bymonthday=(31,-1), bymonth=(1,2)) in 2001:
   the hypotheses hold for the iterinfo rebuild() produces, 31 January (index 30) and 28 February
   (index 58, monthday -1) survive, 27 February does not *)
Definition raw_example : raw :=
  mkRaw MONTHLY false 2000 1 31 0 0 0 1 0 None None false
        None (Some [1; 2]) (Some [31; -1]) None None None None None None None.

Example day_filter_example :
  spec_wf raw_example = true /\ plain_only raw_example = true /\
  match normalize raw_example with
  | Ok rl =>
    match rebuild rl ii_init 2001 1 with
    | Ok ii => nwdaymask ii = None /\
               day_rejected rl ii 30 = Ok false /\ day_rejected rl ii 58 = Ok false /\
               day_rejected rl ii 57 = Ok true /\
               day_ok raw_example (jan1 2001 + 58) = true
    | Err _ => False
    end
  | Err _ => False
  end.
Proof. vm_compute. repeat split; reflexivity. Qed.

(* ------------------------------------------------------------------ with BYWEEKNO (guarded) *)
Lemma normalize_wkst r rl : normalize r = Ok rl -> wkst rl = r_wkst r.
Proof.
  unfold normalize.
  destruct (if r_isdate r then (0, 0, 0) else (r_H r, r_M r, r_S r)) as [[hh mm] ss].
  destruct (negb (is_none (r_until r)) && r_tzmix r); [discriminate|].
  destruct (negb match r_bysetpos r with None => true | Some l => setpos_ok l end); [discriminate|].
  match goal with |- (let '(_, _) := ?p in _) = _ -> _ => destruct p end.
  intros H.
  repeat match type of H with
  | bind ?x _ = _ => destruct x; cbn [bind] in H; [|discriminate H]
  end.
  inversion H; subst; reflexivity.
Qed.

Lemma rebuild_char rl y month ii' : 1 <= y <= 9999 -> rebuild rl ii_init y month = Ok ii' ->
  ii_for ii' y /\
  (truthy (bynweekday rl) = false -> nwdaymask ii' = None) /\
  (truthy (byweekno rl) = true ->
   exists m, wnomask ii' = Some m /\
     build_wnomask y (year_len y) (year_len (y + 1)) (weekday_of_ord (jan1 y)) (wkst rl)
                   (py_from T_WDAYMASK (weekday_of_ord (jan1 y))) (opt_list (byweekno rl)) = Ok m).
Proof.
  intros Hy HR. split; [exact (rebuild_ii_for rl y month ii' Hy HR)|].
  revert HR. unfold rebuild.
  change (lastyear ii_init) with (@None Z). change (opt_neqb None y) with true. cbv iota.
  unfold date_ord. assert (V : valid_ymd y 1 1 = true) by (unfold valid_ymd; change (dim y 1) with 31; lia).
  rewrite V. cbn [bind]. fold (jan1 y). rewrite !year_len_365.
  destruct (if year_len y =? 365 then _ else _) as [[[mm mdm] nmdm] mr].
  destruct (truthy (byweekno rl)) eqn:TW; cbn [negb].
  - destruct (build_wnomask y (year_len y) (year_len (y + 1)) (weekday_of_ord (jan1 y)) (wkst rl)
                (py_from T_WDAYMASK (weekday_of_ord (jan1 y))) (opt_list (byweekno rl))) as [m|e] eqn:EB;
      cbn [bind]; [|discriminate].
    destruct (truthy (bynweekday rl)) eqn:TN; cbn [andb bind].
    + match goal with |- bind ?r _ = _ -> _ => destruct r as [[nwd month']|e]; cbn [bind]; [|discriminate] end.
      match goal with |- bind ?r _ = _ -> _ => destruct r as [em|e]; cbn [bind]; [|discriminate] end.
      intros E. inversion E; subst. cbn. split; [discriminate|]. intros _. exists m. split; reflexivity.
    + match goal with |- bind ?r _ = _ -> _ => destruct r as [em|e]; cbn [bind]; [|discriminate] end.
      intros E. inversion E; subst. cbn. split; [reflexivity|]. intros _. exists m. split; reflexivity.
  - cbn [bind].
    destruct (truthy (bynweekday rl)) eqn:TN; cbn [andb bind].
    + match goal with |- bind ?r _ = _ -> _ => destruct r as [[nwd month']|e]; cbn [bind]; [|discriminate] end.
      match goal with |- bind ?r _ = _ -> _ => destruct r as [em|e]; cbn [bind]; [|discriminate] end.
      intros E. inversion E; subst. cbn. split; discriminate.
    + match goal with |- bind ?r _ = _ -> _ => destruct r as [em|e]; cbn [bind]; [|discriminate] end.
      intros E. inversion E; subst. cbn. split; [reflexivity|discriminate].
Qed.

Lemma In_insert_uniq x a l : In x (insert_uniq a l) <-> a = x \/ In x l.
Proof.
  induction l as [|h t IH]; cbn [insert_uniq In]; [tauto|].
  destruct (a <? h); cbn [In]; [tauto|].
  destruct (a =? h) eqn:E; cbn [In].
  - apply Z.eqb_eq in E. subst. tauto.
  - rewrite IH. tauto.
Qed.
Lemma In_sort_set x l : In x (sort_set l) <-> In x l.
Proof.
  unfold sort_set. induction l as [|h t IH]; cbn [fold_right In]; [tauto|].
  rewrite In_insert_uniq, IH. tauto.
Qed.
Lemma existsb_sort_set (p : Z -> bool) l : existsb p (sort_set l) = existsb p l.
Proof.
  destruct (existsb p l) eqn:E.
  - apply existsb_exists in E. destruct E as (x & Hx & Px). apply existsb_exists. exists x.
    split; [apply (proj2 (In_sort_set x l)); exact Hx|exact Px].
  - destruct (existsb p (sort_set l)) eqn:E2; [|reflexivity].
    apply existsb_exists in E2. destruct E2 as (x & Hx & Px). apply (proj1 (In_sort_set x l)) in Hx.
    assert (existsb p l = true) by (apply existsb_exists; exists x; split; assumption). congruence.
Qed.
Lemma forallb_sort_set (p : Z -> bool) l : forallb p l = true -> forallb p (sort_set l) = true.
Proof.
  intros H. rewrite forallb_forall in *. intros x Hx. apply H. apply (proj1 (In_sort_set x l)). exact Hx.
Qed.

Lemma py_nth_nth (l : list Z) i : 0 <= i < zlen l -> py_nth l i = Ok (nth (Z.to_nat i) l 0).
Proof.
  intros H. apply py_nth_nth_error; [lia|]. unfold zlen in H.
  apply nth_error_nth'. lia.
Qed.

(* day_filter_correct with BYWEEKNO inside the guard (members in -51..51), years 2..9999, on the
   iterinfo rebuild() produces *)
Theorem day_filter_correct_weekno_guarded : forall r rl y month ii i,
  normalize r = Ok rl -> spec_wf r = true -> r_byeaster r = None -> plain_only r = true ->
  all_opt (r_byweekno r) RRWeekFinal.weekno_safe = true ->
  1 <= y <= 9999 -> rebuild rl ii_init y month = Ok ii -> 0 <= i < year_len y ->
  day_rejected rl ii i = Ok (negb (day_ok r (jan1 y + i))).
Proof.
  intros r rl y month ii i HN HW He Hp Hs Hy HR Hi.
  destruct (normalize_fields r rl HN) as (_ & _ & _ & _ & Nwn & Nea & Nwd).
  pose proof (normalize_wkst r rl HN) as Nwk.
  destruct (rebuild_char rl y month ii ltac:(lia) HR) as (F & Cnw & Cwn).
  (* the rule is inside spec_wf *)
  pose proof HW as HW'. unfold spec_wf in HW'.
  repeat match type of HW' with _ && _ = true =>
    let H := fresh "W" in apply andb_true_iff in HW'; destruct HW' as [HW' H] end.
  (* plain BYDAY only: no nth-weekday mask *)
  assert (Hnw : nwdaymask ii = None).
  { apply Cnw. unfold wd_split in Nwd. unfold plain_only in Hp.
    assert (Pl : forallb (fun wn : Z * Z => snd wn =? 0) (opt_list (eff_byweekday r)) = true).
    { unfold eff_byweekday. destruct (r_byweekday r); [exact Hp|].
      destruct (no_day_part r && (r_freq r =? WEEKLY)); reflexivity. }
    destruct (eff_byweekday r) as [l|]; [|injection Nwd as _ Q; rewrite Q; reflexivity].
    cbn [opt_list] in Pl. rewrite (split_plain _ l Pl) in Nwd.
    destruct (negb (nonempty (sort_set (map fst l)))); cbn [sort_set_pair fold_right nonempty negb] in Nwd;
      injection Nwd as _ Q; rewrite Q; reflexivity. }
  apply (day_filter_core r rl ii y i HN HW F ltac:(lia) Hi).
  - apply (weekday_plain_clause_ok r rl ii y i HN HW Hp F Hnw Hi).
  - (* BYWEEKNO clause through the mask theorem *)
    unfold cl_weekno. rewrite Nwn.
    destruct (r_byweekno r) as [l|] eqn:EL; [|reflexivity].
    assert (NE : ne_opt (Some l) = true) by assumption.
    assert (TT : truthy (option_map sort_set (Some l)) = true).
    { rewrite (truthy_map_sort (Some l) NE). reflexivity. }
    rewrite TT. rewrite Nwn in Cwn. destruct (Cwn TT) as (m & Em & Eb). rewrite Em.
    cbn [option_map opt_list] in Eb.
    assert (SAFE : forallb RRWeekFinal.weekno_safe (sort_set l) = true).
    { apply forallb_sort_set. exact Hs. }
    assert (Hk : 0 <= wkst rl <= 6).
    { rewrite Nwk. match goal with H : between 0 6 (r_wkst r) = true |- _ => unfold between in H end. lia. }
    destruct (RRWeekTop.wnomask_correct_calendar y (wkst rl) (sort_set l) Hk SAFE) as (m' & Em' & Lm & Pm).
    cbv zeta in Em'. rewrite Eb in Em'. injection Em' as <-.
    rewrite (py_nth_nth m i) by lia. cbn [bind].
    assert (U : RRWeekDefs.used_index (shape_of y) (wkst rl) i = true).
    { unfold RRWeekDefs.used_index. change (RRWeekDefs.sh_ylen (shape_of y)) with (year_len y).
      apply andb_true_iff. split; [lia|]. apply orb_true_iff. left. lia. }
    specialize (Pm i U). unfold RRWeekThm.nzb in Pm.
    f_equal. cbn [in_opt].
    rewrite <- (existsb_sort_set (weekno_lambda r (jan1 y + i)) l).
    replace (nth (Z.to_nat i) m 0 =? 0) with (negb (negb (nth (Z.to_nat i) m 0 =? 0)))
      by apply negb_involutive.
    f_equal. rewrite Pm. rewrite Nwk. reflexivity.
  - unfold cl_easter. rewrite Nea, He. reflexivity.
Qed.

(* ------------------------------------------------------------------ with BYEASTER (years of C19's theorem) *)
Lemma In_insertZ x a l : In x (insertZ a l) <-> a = x \/ In x l.
Proof.
  induction l as [|h t IH]; cbn [insertZ In]; [tauto|].
  destruct (a <=? h); cbn [In]; [tauto|]. rewrite IH. tauto.
Qed.
Lemma In_sortZ x l : In x (sortZ l) <-> In x l.
Proof.
  unfold sortZ. induction l as [|h t IH]; cbn [fold_right In]; [tauto|].
  rewrite In_insertZ, IH. tauto.
Qed.
Lemma existsb_sortZ (p : Z -> bool) l : existsb p (sortZ l) = existsb p l.
Proof.
  destruct (existsb p l) eqn:E.
  - apply existsb_exists in E. destruct E as (x & Hx & Px). apply existsb_exists. exists x.
    split; [apply (proj2 (In_sortZ x l)); exact Hx|exact Px].
  - destruct (existsb p (sortZ l)) eqn:E2; [|reflexivity].
    apply existsb_exists in E2. destruct E2 as (x & Hx & Px). apply (proj1 (In_sortZ x l)) in Hx.
    assert (existsb p l = true) by (apply existsb_exists; exists x; split; assumption). congruence.
Qed.
Lemma sortZ_nonempty l : nonempty (sortZ l) = nonempty l.
Proof.
  destruct l as [|h t]; [reflexivity|]. cbn [nonempty].
  assert (M : In h (sortZ (h :: t))) by (apply (proj2 (In_sortZ h (h :: t))); left; reflexivity).
  destruct (sortZ (h :: t)); [destruct M|reflexivity].
Qed.

Lemma rebuild_easter rl y month ii' : 1 <= y < 9999 -> rebuild rl ii_init y month = Ok ii' ->
  truthy (byeaster rl) = true ->
  exists eo eo2 m, RRMasks.easter_ord y = Ok eo /\ RRMasks.easter_ord (y + 1) = Ok eo2 /\
    eastermask ii' = Some m /\
    build_eastermask (eo - jan1 y) (Some (eo2 - jan1 y)) (year_len y) (opt_list (byeaster rl)) = Ok m.
Proof.
  intros Hy HR TE. revert HR. unfold rebuild.
  change (lastyear ii_init) with (@None Z). change (opt_neqb None y) with true. cbv iota.
  unfold date_ord. assert (V : valid_ymd y 1 1 = true) by (unfold valid_ymd; change (dim y 1) with 31; lia).
  rewrite V. cbn [bind]. fold (jan1 y). rewrite !year_len_365.
  destruct (if year_len y =? 365 then _ else _) as [[[mm mdm] nmdm] mr].
  destruct (if negb (truthy (byweekno rl)) then _ else _) as [wno|e]; cbn [bind]; [|discriminate].
  match goal with |- bind ?r _ = _ -> _ => destruct r as [[nwd month']|e]; cbn [bind]; [|discriminate] end.
  rewrite TE. cbn [yearordinal yearlen].
  destruct (RRMasks.easter_ord y) as [eo|e]; cbn [bind]; [|discriminate].
  unfold T_MAXYEAR. replace (y <? 9999) with true by lia.
  destruct (RRMasks.easter_ord (y + 1)) as [eo2|e]; cbn [bind]; [|discriminate].
  destruct (build_eastermask (eo - jan1 y) (Some (eo2 - jan1 y)) (year_len y) (opt_list (byeaster rl))) as [m|e] eqn:EB;
    cbn [bind]; [|discriminate].
  intros E. inversion E; subst. cbn. exists eo, eo2, m. split; [reflexivity|split; [reflexivity|split; [reflexivity|exact EB]]].
Qed.

(* the final statement of layer 4 for the day-selecting parts BYMONTH, BYMONTHDAY, BYYEARDAY, plain
   BYDAY, BYWEEKNO (guarded) and BYEASTER (years of C19's theorem), on the year's own days *)
Theorem day_filter_correct_guarded : forall r rl y month ii i,
  normalize r = Ok rl -> spec_wf r = true -> plain_only r = true ->
  all_opt (r_byweekno r) RRWeekFinal.weekno_safe = true ->
  (r_byeaster r = None \/ 1583 <= y <= 4098) ->
  1 <= y <= 9999 -> rebuild rl ii_init y month = Ok ii -> 0 <= i < year_len y ->
  day_rejected rl ii i = Ok (negb (day_ok r (jan1 y + i))).
Proof.
  intros r rl y month ii i HN HW Hp Hs He Hy HR Hi.
  destruct (normalize_fields r rl HN) as (_ & _ & _ & _ & Nwn & Nea & Nwd).
  pose proof (normalize_wkst r rl HN) as Nwk.
  destruct (rebuild_char rl y month ii ltac:(lia) HR) as (F & Cnw & Cwn).
  pose proof HW as HW'. unfold spec_wf in HW'.
  repeat match type of HW' with _ && _ = true =>
    let H := fresh "W" in apply andb_true_iff in HW'; destruct HW' as [HW' H] end.
  assert (Hnw : nwdaymask ii = None).
  { apply Cnw. unfold wd_split in Nwd. unfold plain_only in Hp.
    assert (Pl : forallb (fun wn : Z * Z => snd wn =? 0) (opt_list (eff_byweekday r)) = true).
    { unfold eff_byweekday. destruct (r_byweekday r); [exact Hp|].
      destruct (no_day_part r && (r_freq r =? WEEKLY)); reflexivity. }
    destruct (eff_byweekday r) as [l|]; [|injection Nwd as _ Q; rewrite Q; reflexivity].
    cbn [opt_list] in Pl. rewrite (split_plain _ l Pl) in Nwd.
    destruct (negb (nonempty (sort_set (map fst l)))); cbn [sort_set_pair fold_right nonempty negb] in Nwd;
      injection Nwd as _ Q; rewrite Q; reflexivity. }
  apply (day_filter_core r rl ii y i HN HW F ltac:(lia) Hi).
  - apply (weekday_plain_clause_ok r rl ii y i HN HW Hp F Hnw Hi).
  - unfold cl_weekno. rewrite Nwn.
    destruct (r_byweekno r) as [l|] eqn:EL; [|reflexivity].
    assert (NE : ne_opt (Some l) = true) by assumption.
    assert (TT : truthy (option_map sort_set (Some l)) = true).
    { rewrite (truthy_map_sort (Some l) NE). reflexivity. }
    rewrite TT. rewrite Nwn in Cwn. destruct (Cwn TT) as (m & Em & Eb). rewrite Em.
    cbn [option_map opt_list] in Eb.
    assert (SAFE : forallb RRWeekFinal.weekno_safe (sort_set l) = true).
    { apply forallb_sort_set. exact Hs. }
    assert (Hk : 0 <= wkst rl <= 6).
    { rewrite Nwk. match goal with H : between 0 6 (r_wkst r) = true |- _ => unfold between in H end. lia. }
    destruct (RRWeekTop.wnomask_correct_calendar y (wkst rl) (sort_set l) Hk SAFE) as (m' & Em' & Lm & Pm).
    cbv zeta in Em'. rewrite Eb in Em'. injection Em' as <-.
    rewrite (py_nth_nth m i) by lia. cbn [bind].
    assert (U : RRWeekDefs.used_index (shape_of y) (wkst rl) i = true).
    { unfold RRWeekDefs.used_index. change (RRWeekDefs.sh_ylen (shape_of y)) with (year_len y).
      apply andb_true_iff. split; [lia|]. apply orb_true_iff. left. lia. }
    specialize (Pm i U). unfold RRWeekThm.nzb in Pm.
    f_equal. cbn [in_opt].
    rewrite <- (existsb_sort_set (weekno_lambda r (jan1 y + i)) l).
    replace (nth (Z.to_nat i) m 0 =? 0) with (negb (negb (nth (Z.to_nat i) m 0 =? 0)))
      by apply negb_involutive.
    f_equal. rewrite Pm. rewrite Nwk. reflexivity.
  - unfold cl_easter. rewrite Nea.
    destruct (r_byeaster r) as [l|] eqn:EL; [|reflexivity].
    destruct He as [He|He]; [discriminate He|].
    assert (NE : nonempty l = true).
    { match goal with H : ne_opt (Some l) = true |- _ => destruct l; [discriminate H|reflexivity] end. }
    assert (TT : truthy (option_map sortZ (Some l)) = true).
    { cbn [option_map truthy]. pose proof (sortZ_nonempty l) as SN. rewrite NE in SN.
      destruct (sortZ l); [discriminate SN|reflexivity]. }
    rewrite TT.
    destruct (rebuild_easter rl y month ii ltac:(lia) HR ltac:(rewrite Nea; exact TT))
      as (eo & eo2 & m & Eo & Eo2 & Em & Eb).
    rewrite Em. rewrite Nea in Eb. cbn [option_map opt_list] in Eb.
    destruct (RREasterThm.eastermask_correct_calendar y (sortZ l) ltac:(lia) ltac:(lia))
      as (eo' & eo2' & m' & Eo' & Eo2' & Eb' & Pm).
    cbv zeta in Eb', Pm. fold (jan1 y) in Eb', Pm.
    rewrite Eo in Eo'. injection Eo' as <-. rewrite Eo2 in Eo2'. injection Eo2' as <-.
    rewrite Eb in Eb'. injection Eb' as <-.
    assert (Lm : zlen m = year_len y + 7).
    { destruct (RREasterThm.eastermask_fold_correct (eo - jan1 y) (Some (eo2 - jan1 y)) (year_len y) (sortZ l)
                  ltac:(unfold year_len; destruct (is_leap y); lia)) as (m2 & E2 & L2 & _).
      rewrite Eb in E2. injection E2 as <-. exact L2. }
    rewrite (py_nth_nth m i) by lia. cbn [bind].
    specialize (Pm i ltac:(lia)). replace (i <? year_len y) with true in Pm by lia.
    unfold RRWeekThm.nzb in Pm.
    f_equal. cbn [in_opt]. rewrite <- (existsb_sortZ (easter_lambda y (jan1 y + i)) l).
    replace (nth (Z.to_nat i) m 0 =? 0) with (negb (negb (nth (Z.to_nat i) m 0 =? 0)))
      by apply negb_involutive.
    f_equal. rewrite Pm. reflexivity.
Qed.

(* ------------------------------------------------------------------ nth-weekday BYDAY, MONTHLY *)
Lemma pair_eq_true a b : pair_eq a b = true -> a = b.
Proof.
  unfold pair_eq. destruct a as [a1 a2], b as [b1 b2]. cbn [fst snd]. intros H.
  apply andb_true_iff in H. destruct H as [H1 H2]. apply Z.eqb_eq in H1, H2. subst. reflexivity.
Qed.
Lemma In_insert_uniq_pair x a l : In x (insert_uniq_pair a l) <-> a = x \/ In x l.
Proof.
  induction l as [|h t IH]; cbn [insert_uniq_pair In]; [tauto|].
  destruct (pair_lt a h); cbn [In]; [tauto|].
  destruct (pair_eq a h) eqn:E; cbn [In].
  - apply pair_eq_true in E. subst. tauto.
  - rewrite IH. tauto.
Qed.
Lemma In_sort_set_pair x l : In x (sort_set_pair l) <-> In x l.
Proof.
  unfold sort_set_pair. induction l as [|h t IH]; cbn [fold_right In]; [tauto|].
  rewrite In_insert_uniq_pair, IH. tauto.
Qed.
Lemma existsb_sort_set_pair (p : Z * Z -> bool) l : existsb p (sort_set_pair l) = existsb p l.
Proof.
  destruct (existsb p l) eqn:E.
  - apply existsb_exists in E. destruct E as (x & Hx & Px). apply existsb_exists. exists x.
    split; [apply (proj2 (In_sort_set_pair x l)); exact Hx|exact Px].
  - destruct (existsb p (sort_set_pair l)) eqn:E2; [|reflexivity].
    apply existsb_exists in E2. destruct E2 as (x & Hx & Px). apply (proj1 (In_sort_set_pair x l)) in Hx.
    assert (existsb p l = true) by (apply existsb_exists; exists x; split; assumption). congruence.
Qed.

(* the split of BYDAY into plain weekdays and (weekday, n) pairs, FREQ <= MONTHLY *)
Lemma split_spec fr (q : Z -> bool) wd l : (MONTHLY <? fr) = false ->
  let '(plain, nth) := split_weekday fr l in
  existsb (fun wn : Z * Z => let '(w, n) := wn in
             (w =? wd) && (if (n =? 0) || (MONTHLY <? fr) then true else q n)) l =
  memZ wd plain || existsb (fun wn : Z * Z => (wd =? fst wn) && q (snd wn)) nth /\
  (forall wn, In wn nth -> In wn l /\ snd wn <> 0).
Proof.
  intros Hf. unfold split_weekday. induction l as [|[w n] t IH]; cbn [fold_right existsb].
  - split; [reflexivity|]. intros wn [].
  - destruct (fold_right _ ([], []) t) as [plain nth]. destruct IH as [IH1 IH2].
    rewrite Hf in IH1 |- *. rewrite orb_false_r. destruct (n =? 0) eqn:En; cbn [fst snd].
    + split.
      * rewrite IH1. unfold memZ. cbn [existsb]. rewrite (Z.eqb_sym wd w), andb_true_r.
        destruct (w =? wd), (existsb (Z.eqb wd) plain); reflexivity.
      * intros wn Hin. destruct (IH2 wn Hin). split; [right; assumption|assumption].
    + split.
      * rewrite IH1. cbn [existsb fst snd]. rewrite (Z.eqb_sym wd w).
        destruct ((w =? wd) && q n), (memZ wd plain); reflexivity.
      * intros wn [<-|Hin]; [split; [left; reflexivity|cbn [snd]; lia]|].
        destruct (IH2 wn Hin). split; [right; assumption|assumption].
Qed.

Lemma rebuild_nwd_monthly rl y month ii' :
  1 <= y <= 9999 -> freq rl = MONTHLY -> truthy (bynweekday rl) = true ->
  rebuild rl ii_init y month = Ok ii' ->
  exists m, nwdaymask ii' = Some m /\
    fold_res (nwd_range (wdm_of (weekday_of_ord (jan1 y))) (opt_list (bynweekday rl)))
             [py_slice (RRNwdCal.mrange_of (is_leap y)) (month - 1) (month + 1)]
             (zeros (Z.to_nat (year_len y))) = Ok m.
Proof.
  intros Hy Hf TN. unfold rebuild.
  change (lastyear ii_init) with (@None Z). change (opt_neqb None y) with true. cbv iota.
  change (lastmonth ii_init) with (@None Z). change (opt_neqb None month) with true.
  unfold date_ord. assert (V : valid_ymd y 1 1 = true) by (unfold valid_ymd; change (dim y 1) with 31; lia).
  rewrite V. cbn [bind]. fold (jan1 y). rewrite !year_len_365.
  assert (T : (if year_len y =? 365
               then (T_M365MASK, T_MDAY365MASK, T_NMDAY365MASK, T_M365RANGE)
               else (T_M366MASK, T_MDAY366MASK, T_NMDAY366MASK, T_M366RANGE)) =
              (fst (fst (fst (masks_for y))), snd (fst (fst (masks_for y))), snd (fst (masks_for y)),
               RRNwdCal.mrange_of (is_leap y))).
  { unfold masks_for, tables_of, RRNwdCal.mrange_of, year_len. destruct (is_leap y); reflexivity. }
  rewrite T. clear T.
  destruct (if negb (truthy (byweekno rl)) then _ else _) as [wno|e]; cbn [bind]; [|discriminate].
  rewrite TN, Hf. cbn [andb orb yearlen mrange wdaymask].
  change (MONTHLY =? YEARLY) with false. change (MONTHLY =? MONTHLY) with true. cbv iota.
  cbn [nonempty]. unfold py_repeat. fold (zeros (Z.to_nat (year_len y))).
  fold (wdm_of (weekday_of_ord (jan1 y))).
  destruct (fold_res _ _ _) as [m|e] eqn:EF; cbn [bind]; [|discriminate].
  match goal with |- bind ?r _ = _ -> _ => destruct r as [em|e]; cbn [bind]; [|discriminate] end.
  intros E. inversion E; subst. cbn. exists m. split; reflexivity.
Qed.

Lemma normalize_freq r rl : normalize r = Ok rl -> freq rl = r_freq r.
Proof.
  unfold normalize.
  destruct (if r_isdate r then (0, 0, 0) else (r_H r, r_M r, r_S r)) as [[hh mm] ss].
  destruct (negb (is_none (r_until r)) && r_tzmix r); [discriminate|].
  destruct (negb match r_bysetpos r with None => true | Some l => setpos_ok l end); [discriminate|].
  match goal with |- (let '(_, _) := ?p in _) = _ -> _ => destruct p end.
  intros H.
  repeat match type of H with
  | bind ?x _ = _ => destruct x; cbn [bind] in H; [|discriminate H]
  end.
  inversion H; subst; reflexivity.
Qed.

(* MONTHLY rule with at least one nth weekday: the weekday clause (plain OR nth, fix 5028dcd) on the
   days of the cursor's month = the specification's BYDAY predicate *)
Lemma weekday_nth_clause_monthly r rl y month ii i :
  normalize r = Ok rl -> spec_wf r = true -> r_freq r = MONTHLY ->
  truthy (bynweekday rl) = true -> 1 <= y <= 9999 -> 1 <= month <= 12 ->
  rebuild rl ii_init y month = Ok ii -> dbm y month <= i < dbm y (month + 1) ->
  cl_weekday rl ii i = Ok (negb (in_opt (eff_byweekday r) (weekday_lambda r y i))).
Proof.
  intros HN HW Hfr TN Hy Hm HR Hi.
  destruct (normalize_fields r rl HN) as (_ & _ & _ & _ & _ & _ & Nwd).
  pose proof (normalize_freq r rl HN) as Nfr. rewrite Hfr in Nfr.
  pose proof (rebuild_ii_for rl y month ii Hy HR) as F.
  (* the date at index i *)
  pose proof (dbm_mono y 1 month ltac:(lia) ltac:(lia) ltac:(lia)) as M1.
  pose proof (dbm_mono y (month + 1) 13 ltac:(lia) ltac:(lia) ltac:(lia)) as M2.
  rewrite dbm_1 in M1. rewrite dbm_13 in M2.
  assert (Hi' : 0 <= i < year_len y) by lia.
  assert (EMo : month_at y i = month) by (unfold month_at; apply month_of_yday_unique; lia).
  assert (EMd : mday_at y i = i + 1 - dbm y month) by (unfold mday_at; rewrite EMo; reflexivity).
  (* the domain predicate *)
  unfold spec_wf in HW.
  repeat match type of HW with _ && _ = true =>
    let H := fresh "W" in apply andb_true_iff in HW; destruct HW as [HW H] end.
  (* shape of the BYDAY argument *)
  unfold wd_split in Nwd.
  destruct (eff_byweekday r) as [l|] eqn:EL.
  2:{ injection Nwd as _ Q. rewrite Q in TN. discriminate TN. }
  assert (WD : forallb (fun wn : Z * Z => between 0 6 (fst wn)) l = true).
  { unfold eff_byweekday in EL. destruct (r_byweekday r) as [l0|].
    - injection EL as <-. assumption.
    - destruct (no_day_part r && (r_freq r =? WEEKLY)); [|discriminate EL]. injection EL as <-.
      cbn [forallb fst]. unfold between. pose proof (weekday_of_ord_range (sp_ord0 r)). lia. }
  pose proof (split_spec (r_freq r) (fun n => nth_in (mday_at y i) (dim y (month_at y i)) n)
                (weekday_of_ord (jan1 y + i)) l ltac:(rewrite Hfr; reflexivity)) as SP.
  destruct (split_weekday (r_freq r) l) as [plain nth]. destruct SP as [SP1 SP2].
  (* pairs handed to rebuild *)
  assert (PK : forall wn, In wn (sort_set_pair nth) -> pair_ok wn).
  { intros wn Hin. apply (proj1 (In_sort_set_pair wn nth)) in Hin. destruct (SP2 wn Hin) as [Hl Hn].
    split; [|exact Hn]. rewrite forallb_forall in WD. specialize (WD wn Hl). unfold between in WD. lia. }
  assert (BN : bynweekday rl = Some (sort_set_pair nth) /\
               byweekday rl = (if nonempty (sort_set plain) then Some (sort_set plain) else None)).
  { destruct (nonempty (sort_set plain)); cbn [negb] in Nwd.
    - destruct (nonempty (sort_set_pair nth)) eqn:NN; cbn [negb] in Nwd.
      + injection Nwd as Q1 Q2. split; assumption.
      + injection Nwd as Q1 Q2. rewrite Q2 in TN. discriminate TN.
    - injection Nwd as Q1 Q2. split; assumption. }
  destruct BN as [BN BW].
  (* the mask rebuild() built *)
  destruct (rebuild_nwd_monthly rl y month ii Hy Nfr TN HR) as (m & Em & Ef).
  rewrite BN in Ef. cbn [opt_list] in Ef.
  destruct (nwdaymask_monthly_calendar y month (sort_set_pair nth) Hm PK) as (m' & Ef' & Pm).
  cbv zeta in Ef'. rewrite Ef in Ef'. injection Ef' as <-.
  assert (Hylen : Z.of_nat (Z.to_nat (year_len y)) = year_len y) by lia.
  assert (YL : 365 <= year_len y <= 366) by (unfold year_len; destruct (is_leap y); lia).
  pose proof (weekday_of_ord_range (jan1 y)) as Rw.
  destruct (nwdaymask_correct (weekday_of_ord (jan1 y)) (Z.to_nat (year_len y))
              [[dbm y month; dbm y (month + 1)]] (sort_set_pair nth) Rw ltac:(lia)) as (m2 & Ef2 & Lm & _).
  { intros rg [<-|[]]. exists (dbm y month), (dbm y (month + 1)). split; [reflexivity|]. lia. }
  { exact PK. }
  rewrite <- (RRNwdCal.mrange_slice y month Hm) in Ef2. rewrite Ef in Ef2. injection Ef2 as <-.
  (* evaluate the clause *)
  unfold cl_weekday. rewrite Em.
  assert (TM : truthy (Some m) = true).
  { cbn [truthy]. destruct m; [cbn in Lm; lia|reflexivity]. }
  rewrite TM, orb_true_r. cbn [opt_list].
  rewrite (f_wdm ii y F). rewrite (wdm_nth _ i Rw ltac:(lia)). rewrite <- wd_shift.
  rewrite (py_nth_nth m i) by (unfold zlen; lia). cbn [bind].
  specialize (Pm i Hi'). unfold RRWeekThm.nzb in Pm.
  replace ((dbm y month <=? i) && (i <? dbm y (month + 1))) with true in Pm by lia. cbn [andb] in Pm.
  rewrite existsb_sort_set_pair in Pm.
  (* the specification side *)
  cbn [in_opt]. unfold weekday_lambda. rewrite Hfr in *. change (MONTHLY =? MONTHLY) with true.
  cbn [orb]. rewrite SP1. rewrite EMo, EMd in *.
  rewrite BW. destruct (nonempty (sort_set plain)) eqn:NP.
  - assert (TT : truthy (Some (sort_set plain)) = true).
    { cbn [truthy]. destruct (sort_set plain); [discriminate NP|reflexivity]. }
    rewrite TT. cbn [opt_list bind]. rewrite memZ_sort_set.
    destruct (memZ (weekday_of_ord (jan1 y + i)) plain); cbn [bind orb negb]; [reflexivity|].
    rewrite Pm. reflexivity.
  - cbn [truthy bind]. assert (PE : plain = []).
    { rewrite sort_set_nonempty in NP. destruct plain; [reflexivity|discriminate NP]. }
    rewrite PE. cbn [memZ existsb orb]. unfold memZ. cbn [existsb orb]. rewrite Pm. reflexivity.
Qed.

(* MONTHLY rules with nth weekdays (plain OR nth), on the days of the cursor's month; BYWEEKNO and
   BYEASTER under the same guards as above *)
Theorem day_filter_correct_monthly_nth_guarded : forall r rl y month ii i,
  normalize r = Ok rl -> spec_wf r = true -> r_freq r = MONTHLY -> truthy (bynweekday rl) = true ->
  all_opt (r_byweekno r) RRWeekFinal.weekno_safe = true ->
  (r_byeaster r = None \/ 1583 <= y <= 4098) ->
  1 <= y <= 9999 -> 1 <= month <= 12 -> rebuild rl ii_init y month = Ok ii ->
  dbm y month <= i < dbm y (month + 1) ->
  day_rejected rl ii i = Ok (negb (day_ok r (jan1 y + i))).
Proof.
  intros r rl y month ii i HN HW Hfr TN Hs He Hy Hm HR Hi0.
  pose proof (dbm_mono y 1 month ltac:(lia) ltac:(lia) ltac:(lia)) as M1.
  pose proof (dbm_mono y (month + 1) 13 ltac:(lia) ltac:(lia) ltac:(lia)) as M2.
  rewrite dbm_1 in M1. rewrite dbm_13 in M2.
  assert (Hi : 0 <= i < year_len y) by lia.
  destruct (normalize_fields r rl HN) as (_ & _ & _ & _ & Nwn & Nea & Nwd).
  pose proof (normalize_wkst r rl HN) as Nwk.
  destruct (rebuild_char rl y month ii ltac:(lia) HR) as (F & Cnw & Cwn).
  pose proof HW as HW'. unfold spec_wf in HW'.
  repeat match type of HW' with _ && _ = true =>
    let H := fresh "W" in apply andb_true_iff in HW'; destruct HW' as [HW' H] end.
  apply (day_filter_core r rl ii y i HN HW F ltac:(lia) Hi).
  - apply (weekday_nth_clause_monthly r rl y month ii i HN HW Hfr TN ltac:(lia) Hm HR Hi0).
  - unfold cl_weekno. rewrite Nwn.
    destruct (r_byweekno r) as [l|] eqn:EL; [|reflexivity].
    assert (NE : ne_opt (Some l) = true) by assumption.
    assert (TT : truthy (option_map sort_set (Some l)) = true).
    { rewrite (truthy_map_sort (Some l) NE). reflexivity. }
    rewrite TT. rewrite Nwn in Cwn. destruct (Cwn TT) as (m & Em & Eb). rewrite Em.
    cbn [option_map opt_list] in Eb.
    assert (SAFE : forallb RRWeekFinal.weekno_safe (sort_set l) = true).
    { apply forallb_sort_set. exact Hs. }
    assert (Hk : 0 <= wkst rl <= 6).
    { rewrite Nwk. match goal with H : between 0 6 (r_wkst r) = true |- _ => unfold between in H end. lia. }
    destruct (RRWeekTop.wnomask_correct_calendar y (wkst rl) (sort_set l) Hk SAFE) as (m' & Em' & Lm & Pm).
    cbv zeta in Em'. rewrite Eb in Em'. injection Em' as <-.
    rewrite (py_nth_nth m i) by lia. cbn [bind].
    assert (U : RRWeekDefs.used_index (shape_of y) (wkst rl) i = true).
    { unfold RRWeekDefs.used_index. change (RRWeekDefs.sh_ylen (shape_of y)) with (year_len y).
      apply andb_true_iff. split; [lia|]. apply orb_true_iff. left. lia. }
    specialize (Pm i U). unfold RRWeekThm.nzb in Pm.
    f_equal. cbn [in_opt].
    rewrite <- (existsb_sort_set (weekno_lambda r (jan1 y + i)) l).
    replace (nth (Z.to_nat i) m 0 =? 0) with (negb (negb (nth (Z.to_nat i) m 0 =? 0)))
      by apply negb_involutive.
    f_equal. rewrite Pm. rewrite Nwk. reflexivity.
  - unfold cl_easter. rewrite Nea.
    destruct (r_byeaster r) as [l|] eqn:EL; [|reflexivity].
    destruct He as [He|He]; [discriminate He|].
    assert (NE : nonempty l = true).
    { match goal with H : ne_opt (Some l) = true |- _ => destruct l; [discriminate H|reflexivity] end. }
    assert (TT : truthy (option_map sortZ (Some l)) = true).
    { cbn [option_map truthy]. pose proof (sortZ_nonempty l) as SN. rewrite NE in SN.
      destruct (sortZ l); [discriminate SN|reflexivity]. }
    rewrite TT.
    destruct (rebuild_easter rl y month ii ltac:(lia) HR ltac:(rewrite Nea; exact TT))
      as (eo & eo2 & m & Eo & Eo2 & Em & Eb).
    rewrite Em. rewrite Nea in Eb. cbn [option_map opt_list] in Eb.
    destruct (RREasterThm.eastermask_correct_calendar y (sortZ l) ltac:(lia) ltac:(lia))
      as (eo' & eo2' & m' & Eo' & Eo2' & Eb' & Pm).
    cbv zeta in Eb', Pm. fold (jan1 y) in Eb', Pm.
    rewrite Eo in Eo'. injection Eo' as <-. rewrite Eo2 in Eo2'. injection Eo2' as <-.
    rewrite Eb in Eb'. injection Eb' as <-.
    assert (Lm : zlen m = year_len y + 7).
    { destruct (RREasterThm.eastermask_fold_correct (eo - jan1 y) (Some (eo2 - jan1 y)) (year_len y) (sortZ l)
                  ltac:(unfold year_len; destruct (is_leap y); lia)) as (m2 & E2 & L2 & _).
      rewrite Eb in E2. injection E2 as <-. exact L2. }
    rewrite (py_nth_nth m i) by lia. cbn [bind].
    specialize (Pm i ltac:(lia)). replace (i <? year_len y) with true in Pm by lia.
    unfold RRWeekThm.nzb in Pm.
    f_equal. cbn [in_opt]. rewrite <- (existsb_sortZ (easter_lambda y (jan1 y + i)) l).
    replace (nth (Z.to_nat i) m 0 =? 0) with (negb (negb (nth (Z.to_nat i) m 0 =? 0)))
      by apply negb_involutive.
    f_equal. rewrite Pm. reflexivity.
Qed.

Lemma rebuild_nwd_yearly rl y month ii' :
  1 <= y <= 9999 -> freq rl = YEARLY -> truthy (bymonth rl) = false -> truthy (bynweekday rl) = true ->
  rebuild rl ii_init y month = Ok ii' ->
  exists m, nwdaymask ii' = Some m /\
    fold_res (nwd_range (wdm_of (weekday_of_ord (jan1 y))) (opt_list (bynweekday rl)))
             [[0; year_len y]]
             (zeros (Z.to_nat (year_len y))) = Ok m.
Proof.
  intros Hy Hf TB TN. unfold rebuild.
  change (lastyear ii_init) with (@None Z). change (opt_neqb None y) with true. cbv iota.
  change (lastmonth ii_init) with (@None Z). change (opt_neqb None month) with true.
  unfold date_ord. assert (V : valid_ymd y 1 1 = true) by (unfold valid_ymd; change (dim y 1) with 31; lia).
  rewrite V. cbn [bind]. fold (jan1 y). rewrite !year_len_365.
  assert (T : (if year_len y =? 365
               then (T_M365MASK, T_MDAY365MASK, T_NMDAY365MASK, T_M365RANGE)
               else (T_M366MASK, T_MDAY366MASK, T_NMDAY366MASK, T_M366RANGE)) =
              (fst (fst (fst (masks_for y))), snd (fst (fst (masks_for y))), snd (fst (masks_for y)),
               RRNwdCal.mrange_of (is_leap y))).
  { unfold masks_for, tables_of, RRNwdCal.mrange_of, year_len. destruct (is_leap y); reflexivity. }
  rewrite T. clear T.
  destruct (if negb (truthy (byweekno rl)) then _ else _) as [wno|e]; cbn [bind]; [|discriminate].
  rewrite TN, Hf, TB. cbn [andb orb yearlen mrange wdaymask].
  change (YEARLY =? YEARLY) with true. cbv iota.
  cbn [nonempty]. unfold py_repeat. fold (zeros (Z.to_nat (year_len y))).
  fold (wdm_of (weekday_of_ord (jan1 y))).
  destruct (fold_res _ _ _) as [m|e] eqn:EF; cbn [bind]; [|discriminate].
  match goal with |- bind ?r _ = _ -> _ => destruct r as [em|e]; cbn [bind]; [|discriminate] end.
  intros E. inversion E; subst. cbn. exists m. split; reflexivity.
Qed.

(* YEARLY rule without BYMONTH with at least one nth weekday (n-th weekday of the YEAR), every day of
   the year *)
Lemma weekday_nth_clause_yearly r rl y month ii i :
  normalize r = Ok rl -> spec_wf r = true -> r_freq r = YEARLY -> r_bymonth r = None ->
  truthy (bynweekday rl) = true -> 1 <= y <= 9999 ->
  rebuild rl ii_init y month = Ok ii -> 0 <= i < year_len y ->
  cl_weekday rl ii i = Ok (negb (in_opt (eff_byweekday r) (weekday_lambda r y i))).
Proof.
  intros HN HW Hfr Hbm TN Hy HR Hi'.
  destruct (normalize_fields r rl HN) as (Nm & _ & _ & _ & _ & _ & Nwd).
  pose proof (normalize_freq r rl HN) as Nfr. rewrite Hfr in Nfr.
  pose proof (rebuild_ii_for rl y month ii Hy HR) as F.
  (* the domain predicate *)
  unfold spec_wf in HW.
  repeat match type of HW with _ && _ = true =>
    let H := fresh "W" in apply andb_true_iff in HW; destruct HW as [HW H] end.
  (* shape of the BYDAY argument *)
  unfold wd_split in Nwd.
  destruct (eff_byweekday r) as [l|] eqn:EL.
  2:{ injection Nwd as _ Q. rewrite Q in TN. discriminate TN. }
  assert (TB : truthy (bymonth rl) = false).
  { rewrite Nm. unfold eff_bymonth. rewrite Hbm.
    assert (ND : no_day_part r = false).
    { unfold no_day_part. unfold eff_byweekday in EL. destruct (r_byweekday r); cbn [is_none].
      - rewrite andb_false_r. reflexivity.
      - rewrite Hfr in EL. change (YEARLY =? WEEKLY) with false in EL. rewrite andb_false_r in EL. discriminate EL. }
    rewrite ND. reflexivity. }
  assert (WD : forallb (fun wn : Z * Z => between 0 6 (fst wn)) l = true).
  { unfold eff_byweekday in EL. destruct (r_byweekday r) as [l0|].
    - injection EL as <-. assumption.
    - destruct (no_day_part r && (r_freq r =? WEEKLY)); [|discriminate EL]. injection EL as <-.
      cbn [forallb fst]. unfold between. pose proof (weekday_of_ord_range (sp_ord0 r)). lia. }
  pose proof (split_spec (r_freq r) (fun n => nth_in (i + 1) (year_len y) n)
                (weekday_of_ord (jan1 y + i)) l ltac:(rewrite Hfr; reflexivity)) as SP.
  destruct (split_weekday (r_freq r) l) as [plain nth]. destruct SP as [SP1 SP2].
  (* pairs handed to rebuild *)
  assert (PK : forall wn, In wn (sort_set_pair nth) -> pair_ok wn).
  { intros wn Hin. apply (proj1 (In_sort_set_pair wn nth)) in Hin. destruct (SP2 wn Hin) as [Hl Hn].
    split; [|exact Hn]. rewrite forallb_forall in WD. specialize (WD wn Hl). unfold between in WD. lia. }
  assert (BN : bynweekday rl = Some (sort_set_pair nth) /\
               byweekday rl = (if nonempty (sort_set plain) then Some (sort_set plain) else None)).
  { destruct (nonempty (sort_set plain)); cbn [negb] in Nwd.
    - destruct (nonempty (sort_set_pair nth)) eqn:NN; cbn [negb] in Nwd.
      + injection Nwd as Q1 Q2. split; assumption.
      + injection Nwd as Q1 Q2. rewrite Q2 in TN. discriminate TN.
    - injection Nwd as Q1 Q2. split; assumption. }
  destruct BN as [BN BW].
  (* the mask rebuild() built *)
  destruct (rebuild_nwd_yearly rl y month ii Hy Nfr TB TN HR) as (m & Em & Ef).
  rewrite BN in Ef. cbn [opt_list] in Ef.
  destruct (nwdaymask_yearly_calendar y (sort_set_pair nth) PK) as (m' & Ef' & Pm).
  cbv zeta in Ef'. rewrite Ef in Ef'. injection Ef' as <-.
  assert (Hylen : Z.of_nat (Z.to_nat (year_len y)) = year_len y) by lia.
  assert (YL : 365 <= year_len y <= 366) by (unfold year_len; destruct (is_leap y); lia).
  pose proof (weekday_of_ord_range (jan1 y)) as Rw.
  destruct (nwdaymask_correct (weekday_of_ord (jan1 y)) (Z.to_nat (year_len y))
              [[0; year_len y]] (sort_set_pair nth) Rw ltac:(lia)) as (m2 & Ef2 & Lm & _).
  { intros rg [<-|[]]. exists 0, (year_len y). split; [reflexivity|]. lia. }
  { exact PK. }
  rewrite Ef in Ef2. injection Ef2 as <-.
  (* evaluate the clause *)
  unfold cl_weekday. rewrite Em.
  assert (TM : truthy (Some m) = true).
  { cbn [truthy]. destruct m; [cbn in Lm; lia|reflexivity]. }
  rewrite TM, orb_true_r. cbn [opt_list].
  rewrite (f_wdm ii y F). rewrite (wdm_nth _ i Rw ltac:(lia)). rewrite <- wd_shift.
  rewrite (py_nth_nth m i) by (unfold zlen; lia). cbn [bind].
  specialize (Pm i Hi'). unfold RRWeekThm.nzb in Pm.
  rewrite existsb_sort_set_pair in Pm.
  (* the specification side *)
  cbn [in_opt]. unfold weekday_lambda. rewrite Hfr in *. rewrite Hbm. change (YEARLY =? MONTHLY) with false.
  cbn [orb negb is_none]. rewrite SP1.
  rewrite BW. destruct (nonempty (sort_set plain)) eqn:NP.
  - assert (TT : truthy (Some (sort_set plain)) = true).
    { cbn [truthy]. destruct (sort_set plain); [discriminate NP|reflexivity]. }
    rewrite TT. cbn [opt_list bind]. rewrite memZ_sort_set.
    destruct (memZ (weekday_of_ord (jan1 y + i)) plain); cbn [bind orb negb]; [reflexivity|].
    rewrite Pm. reflexivity.
  - cbn [truthy bind]. assert (PE : plain = []).
    { rewrite sort_set_nonempty in NP. destruct plain; [reflexivity|discriminate NP]. }
    rewrite PE. cbn [memZ existsb orb]. unfold memZ. cbn [existsb orb]. rewrite Pm. reflexivity.
Qed.

(* YEARLY rules without BYMONTH with nth weekdays (n-th weekday of the year), every day of the year *)
Theorem day_filter_correct_yearly_nth_guarded : forall r rl y month ii i,
  normalize r = Ok rl -> spec_wf r = true -> r_freq r = YEARLY -> r_bymonth r = None ->
  truthy (bynweekday rl) = true ->
  all_opt (r_byweekno r) RRWeekFinal.weekno_safe = true ->
  (r_byeaster r = None \/ 1583 <= y <= 4098) ->
  1 <= y <= 9999 -> rebuild rl ii_init y month = Ok ii -> 0 <= i < year_len y ->
  day_rejected rl ii i = Ok (negb (day_ok r (jan1 y + i))).
Proof.
  intros r rl y month ii i HN HW Hfr Hbm TN Hs He Hy HR Hi.
  destruct (normalize_fields r rl HN) as (_ & _ & _ & _ & Nwn & Nea & Nwd).
  pose proof (normalize_wkst r rl HN) as Nwk.
  destruct (rebuild_char rl y month ii ltac:(lia) HR) as (F & Cnw & Cwn).
  pose proof HW as HW'. unfold spec_wf in HW'.
  repeat match type of HW' with _ && _ = true =>
    let H := fresh "W" in apply andb_true_iff in HW'; destruct HW' as [HW' H] end.
  apply (day_filter_core r rl ii y i HN HW F ltac:(lia) Hi).
  - apply (weekday_nth_clause_yearly r rl y month ii i HN HW Hfr Hbm TN ltac:(lia) HR Hi).
  - unfold cl_weekno. rewrite Nwn.
    destruct (r_byweekno r) as [l|] eqn:EL; [|reflexivity].
    assert (NE : ne_opt (Some l) = true) by assumption.
    assert (TT : truthy (option_map sort_set (Some l)) = true).
    { rewrite (truthy_map_sort (Some l) NE). reflexivity. }
    rewrite TT. rewrite Nwn in Cwn. destruct (Cwn TT) as (m & Em & Eb). rewrite Em.
    cbn [option_map opt_list] in Eb.
    assert (SAFE : forallb RRWeekFinal.weekno_safe (sort_set l) = true).
    { apply forallb_sort_set. exact Hs. }
    assert (Hk : 0 <= wkst rl <= 6).
    { rewrite Nwk. match goal with H : between 0 6 (r_wkst r) = true |- _ => unfold between in H end. lia. }
    destruct (RRWeekTop.wnomask_correct_calendar y (wkst rl) (sort_set l) Hk SAFE) as (m' & Em' & Lm & Pm).
    cbv zeta in Em'. rewrite Eb in Em'. injection Em' as <-.
    rewrite (py_nth_nth m i) by lia. cbn [bind].
    assert (U : RRWeekDefs.used_index (shape_of y) (wkst rl) i = true).
    { unfold RRWeekDefs.used_index. change (RRWeekDefs.sh_ylen (shape_of y)) with (year_len y).
      apply andb_true_iff. split; [lia|]. apply orb_true_iff. left. lia. }
    specialize (Pm i U). unfold RRWeekThm.nzb in Pm.
    f_equal. cbn [in_opt].
    rewrite <- (existsb_sort_set (weekno_lambda r (jan1 y + i)) l).
    replace (nth (Z.to_nat i) m 0 =? 0) with (negb (negb (nth (Z.to_nat i) m 0 =? 0)))
      by apply negb_involutive.
    f_equal. rewrite Pm. rewrite Nwk. reflexivity.
  - unfold cl_easter. rewrite Nea.
    destruct (r_byeaster r) as [l|] eqn:EL; [|reflexivity].
    destruct He as [He|He]; [discriminate He|].
    assert (NE : nonempty l = true).
    { match goal with H : ne_opt (Some l) = true |- _ => destruct l; [discriminate H|reflexivity] end. }
    assert (TT : truthy (option_map sortZ (Some l)) = true).
    { cbn [option_map truthy]. pose proof (sortZ_nonempty l) as SN. rewrite NE in SN.
      destruct (sortZ l); [discriminate SN|reflexivity]. }
    rewrite TT.
    destruct (rebuild_easter rl y month ii ltac:(lia) HR ltac:(rewrite Nea; exact TT))
      as (eo & eo2 & m & Eo & Eo2 & Em & Eb).
    rewrite Em. rewrite Nea in Eb. cbn [option_map opt_list] in Eb.
    destruct (RREasterThm.eastermask_correct_calendar y (sortZ l) ltac:(lia) ltac:(lia))
      as (eo' & eo2' & m' & Eo' & Eo2' & Eb' & Pm).
    cbv zeta in Eb', Pm. fold (jan1 y) in Eb', Pm.
    rewrite Eo in Eo'. injection Eo' as <-. rewrite Eo2 in Eo2'. injection Eo2' as <-.
    rewrite Eb in Eb'. injection Eb' as <-.
    assert (Lm : zlen m = year_len y + 7).
    { destruct (RREasterThm.eastermask_fold_correct (eo - jan1 y) (Some (eo2 - jan1 y)) (year_len y) (sortZ l)
                  ltac:(unfold year_len; destruct (is_leap y); lia)) as (m2 & E2 & L2 & _).
      rewrite Eb in E2. injection E2 as <-. exact L2. }
    rewrite (py_nth_nth m i) by lia. cbn [bind].
    specialize (Pm i ltac:(lia)). replace (i <? year_len y) with true in Pm by lia.
    unfold RRWeekThm.nzb in Pm.
    f_equal. cbn [in_opt]. rewrite <- (existsb_sortZ (easter_lambda y (jan1 y + i)) l).
    replace (nth (Z.to_nat i) m 0 =? 0) with (negb (negb (nth (Z.to_nat i) m 0 =? 0)))
      by apply negb_involutive.
    f_equal. rewrite Pm. reflexivity.
Qed.
