(* C01 layer 2 -- from year shapes to the calendar (all years, no bound):
   every year has one of the 28 shapes (year_shape_complete); what rebuild() passes to
   build_wnomask for year y is the shape-level mask of shape_of y (build_wnomask_shape, every year: since
   /repo commit 049bb14 the code no longer builds date(year-1, 1, 1)); and the
   shape-level week predicate week_matches is the specification's date-intrinsic week number of
   the day (week_rel_correct, against RRSpec.week_of / weeks_in). *)
From Coq Require Import ZArith List Bool Lia ZifyBool.
From V Require Import base.Cal gen.RrTables rr.RRBase rr.RRNorm rr.RRMasks rr.RRSpec rr.RRWeekDefs.
Import ListNotations.
Ltac Zify.zify_post_hook ::= Z.to_euclidean_division_equations.
Open Scope Z_scope.

Definition jan1 (y : Z) : Z := ord_of_ymd y 1 1.
Definition shape_of (y : Z) : shape :=
  mkShape (year_len y) (weekday_of_ord (jan1 y)) (year_len (y - 1)) (year_len (y + 1)).

Lemma jan1_eq y : jan1 y = days_before_year y + 1.
Proof. unfold jan1, ord_of_ymd. rewrite dbm_1. lia. Qed.

Lemma jan1_succ y : jan1 (y + 1) = jan1 y + year_len y.
Proof. rewrite !jan1_eq, days_before_year_succ. lia. Qed.

Lemma leap_next y : is_leap y = true -> is_leap (y + 1) = false /\ is_leap (y - 1) = false.
Proof. unfold is_leap. intros H. split; lia. Qed.

Lemma leap_both y : is_leap (y - 1) = true -> is_leap (y + 1) = false.
Proof. unfold is_leap. lia. Qed.

Theorem year_shape_complete : forall y, In (shape_of y) all_shapes.
Proof.
  intros y. unfold all_shapes. apply in_flat_map.
  exists (weekday_of_ord (jan1 y)). split.
  - pose proof (weekday_of_ord_range (jan1 y)) as R.
    assert (C : weekday_of_ord (jan1 y) = 0 \/ weekday_of_ord (jan1 y) = 1 \/
                weekday_of_ord (jan1 y) = 2 \/ weekday_of_ord (jan1 y) = 3 \/
                weekday_of_ord (jan1 y) = 4 \/ weekday_of_ord (jan1 y) = 5 \/
                weekday_of_ord (jan1 y) = 6) by lia.
    destruct C as [->|[->|[->|[->|[->|[->| ->]]]]]]; cbv; tauto.
  - unfold shape_of, shapes_of_wd, year_len.
    destruct (is_leap y) eqn:L0.
    + destruct (leap_next y L0) as [-> ->]. left. reflexivity.
    + destruct (is_leap (y - 1)) eqn:Lm.
      * rewrite (leap_both y Lm). right. left. reflexivity.
      * destruct (is_leap (y + 1)); [right; right; left|right; right; right; left]; reflexivity.
Qed.

(* ------------------------------------------------------------------ model side *)
Theorem build_wnomask_shape : forall year wk L,
  build_wnomask year (year_len year) (year_len (year + 1)) (weekday_of_ord (jan1 year)) wk
                (py_from T_WDAYMASK (weekday_of_ord (jan1 year))) L =
  shape_mask (shape_of year) wk L.
Proof.
  intros year wk L. unfold build_wnomask, shape_mask, shape_of. cbn [sh_lylen sh_nylen sh_ylen sh_ywd].
  unfold year_len at 3. destruct (is_leap (year - 1)); reflexivity.
Qed.

(* ------------------------------------------------------------------ specification side *)
Lemma wd_shift o j : weekday_of_ord (o + j) = (weekday_of_ord o + j) mod 7.
Proof. unfold weekday_of_ord. lia. Qed.

(* week1_start of a year whose 1 January is j days after 1 January of y *)
Lemma week1_start_rel wk y y' j : jan1 y' = jan1 y + j ->
  week1_start wk y' =
  jan1 y + (let off := ((weekday_of_ord (jan1 y) + j) mod 7 - wk) mod 7 in
            if off <=? 3 then j - off else j - off + 7).
Proof.
  intros H. unfold week1_start. fold (jan1 y'). rewrite H, wd_shift. cbv zeta.
  destruct (_ <=? 3); lia.
Qed.

Section Rel.
Variables (y wk : Z).
Let sh := shape_of y.
Let yo := jan1 y.

Lemma J_m1 : jan1 (y - 1) = yo + jan1_rel sh (-1).
Proof.
  change (jan1_rel sh (-1)) with (- year_len (y - 1)).
  pose proof (jan1_succ (y - 1)) as S. replace (y - 1 + 1) with y in S by lia. unfold yo. lia.
Qed.
Lemma J_0 : jan1 y = yo + jan1_rel sh 0.
Proof. change (jan1_rel sh 0) with 0. unfold yo. lia. Qed.
Lemma J_1 : jan1 (y + 1) = yo + jan1_rel sh 1.
Proof. change (jan1_rel sh 1) with (year_len y). unfold yo. apply jan1_succ. Qed.
Lemma J_2 : jan1 (y + 2) = yo + jan1_rel sh 2.
Proof.
  change (jan1_rel sh 2) with (year_len y + year_len (y + 1)).
  replace (y + 2) with (y + 1 + 1) by lia. rewrite jan1_succ, jan1_succ. unfold yo. lia.
Qed.

Lemma W_m1 : week1_start wk (y - 1) = yo + w1s_rel sh wk (-1).
Proof. apply (week1_start_rel wk y (y - 1) _ J_m1). Qed.
Lemma W_0 : week1_start wk y = yo + w1s_rel sh wk 0.
Proof. apply (week1_start_rel wk y y _ J_0). Qed.
Lemma W_1 : week1_start wk (y + 1) = yo + w1s_rel sh wk 1.
Proof. apply (week1_start_rel wk y (y + 1) _ J_1). Qed.
Lemma W_2 : week1_start wk (y + 2) = yo + w1s_rel sh wk 2.
Proof. apply (week1_start_rel wk y (y + 2) _ J_2). Qed.

Lemma ylen_cases z : year_len z = 365 \/ year_len z = 366.
Proof. unfold year_len. destruct (is_leap z); auto. Qed.

Lemma w1s_bounds k : jan1_rel sh k - 3 <= w1s_rel sh wk k <= jan1_rel sh k + 3.
Proof. unfold w1s_rel. cbv zeta. destruct (_ <=? 3) eqn:E; lia. Qed.

Lemma year_of_rel i : 0 <= i < year_len y + 7 ->
  year_of_ord (yo + i) = if i <? year_len y then y else y + 1.
Proof.
  intros Hi. unfold yo. rewrite jan1_eq.
  pose proof (ylen_cases y). pose proof (ylen_cases (y + 1)).
  destruct (i <? year_len y) eqn:E; apply year_of_ord_unique.
  - rewrite days_before_year_succ. lia.
  - replace (y + 1 + 1) with (y + 2) by lia.
    assert (D2 : days_before_year (y + 2) = days_before_year y + year_len y + year_len (y + 1)).
    { replace (y + 2) with (y + 1 + 1) by lia. rewrite !days_before_year_succ. lia. }
    rewrite days_before_year_succ, D2. lia.
Qed.

Theorem week_rel_correct : forall i, 0 <= i < year_len y + 7 ->
  let '(wy, w, nw) := week_rel sh wk i in
  week_of wk (yo + i) = (y + wy, w) /\ weeks_in wk (y + wy) = nw.
Proof.
  intros i Hi. unfold week_rel, week_of, weeks_in.
  rewrite (year_of_rel i Hi).
  change (sh_ylen sh) with (year_len y).
  pose proof (ylen_cases y) as Y0. pose proof (ylen_cases (y + 1)) as Y1.
  pose proof (ylen_cases (y - 1)) as Ym.
  pose proof (w1s_bounds (-1)) as Bm. pose proof (w1s_bounds 0) as B0.
  pose proof (w1s_bounds 1) as B1. pose proof (w1s_bounds 2) as B2.
  change (jan1_rel sh (-1)) with (- year_len (y - 1)) in Bm.
  change (jan1_rel sh 0) with 0 in B0.
  change (jan1_rel sh 1) with (year_len y) in B1.
  change (jan1_rel sh 2) with (year_len y + year_len (y + 1)) in B2.
  destruct (i <? year_len y) eqn:Ei.
  - (* the day is in year y *)
    change (0 - 1) with (-1). change (0 + 1) with 1.
    rewrite W_0, W_1.
    replace (yo + i <? yo + w1s_rel sh wk 0) with (i <? w1s_rel sh wk 0) by lia.
    replace (yo + w1s_rel sh wk 1 <=? yo + i) with (w1s_rel sh wk 1 <=? i) by lia.
    destruct (i <? w1s_rel sh wk 0) eqn:E1.
    + change (-1 + 1) with 0. replace (y + -1) with (y - 1) by lia.
      replace (y - 1 + 1) with y by lia. rewrite W_m1, W_0. split; [f_equal; f_equal; f_equal; lia|f_equal; lia].
    + destruct (w1s_rel sh wk 1 <=? i) eqn:E2.
      * change (1 + 1) with 2. replace (y + 1 + 1) with (y + 2) by lia. rewrite W_1, W_2.
        split; [f_equal; f_equal; f_equal; lia|f_equal; lia].
      * change (0 + 1) with 1. replace (y + 0) with y by lia. rewrite W_0, W_1.
        split; [f_equal; f_equal; f_equal; lia|f_equal; lia].
  - (* the day is in the first week of year y + 1 *)
    change (1 - 1) with 0. change (1 + 1) with 2.
    replace (y + 1 + 1) with (y + 2) by lia.
    rewrite W_1, W_2.
    replace (yo + i <? yo + w1s_rel sh wk 1) with (i <? w1s_rel sh wk 1) by lia.
    replace (yo + w1s_rel sh wk 2 <=? yo + i) with (w1s_rel sh wk 2 <=? i) by lia.
    destruct (i <? w1s_rel sh wk 1) eqn:E1.
    + change (0 + 1) with 1. replace (y + 1 - 1) with y by lia. replace (y + 0) with y by lia.
      rewrite W_0, W_1. split; [f_equal; f_equal; f_equal; lia|f_equal; lia].
    + assert (E2 : (w1s_rel sh wk 2 <=? i) = false) by lia. rewrite E2.
      change (1 + 1) with 2. replace (y + 1 + 1) with (y + 2) by lia. rewrite W_1, W_2.
      split; [f_equal; f_equal; f_equal; lia|f_equal; lia].
Qed.
End Rel.

(* the BYWEEKNO clause of RRSpec.day_ok, for the day at index i of year y, is week_matches *)
Corollary week_matches_is_spec : forall y wk i n, 0 <= i < year_len y + 7 ->
  week_matches (shape_of y) wk i n =
  (let '(wy, w) := week_of wk (jan1 y + i) in (n =? w) || (n =? w - weeks_in wk wy - 1)).
Proof.
  intros y wk i n Hi. unfold week_matches.
  pose proof (week_rel_correct y wk i Hi) as R.
  destruct (week_rel (shape_of y) wk i) as [[wy w] nw]. destruct R as [R1 R2].
  rewrite R1, R2. reflexivity.
Qed.
