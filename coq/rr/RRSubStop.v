(* C01 sub-daily: what finish_advance can return, and the shape of the constructor's initial
   state for the three sub-daily frequencies (used for the converse closing statement).
   Written by the rset builder (new file). *)
From Coq Require Import ZArith List Bool Lia ZifyBool.
From V Require Import base.Cal gen.RrTables easter.EasterSpec rr.RRBase rr.RRNorm rr.RRMasks rr.RRIter
  rr.RRSpec rr.RRAdvanceThm rr.RRIterThm rr.RRSubRunBase.
Import ListNotations.
Open Scope Z_scope.

Lemma finish_advance_cases : forall rl s fixday y m d hh mi ss wd ii ts cnt out,
  1 <= m <= 12 -> 1 <= d -> y <= T_MAXYEAR ->
  (exists s', finish_advance rl s fixday y m d hh mi ss wd ii ts cnt out = Ok (AdvGo s')) \/
  (finish_advance rl s fixday y m d hh mi ss wd ii ts cnt out = Ok AdvMax /\
   days_before_year (T_MAXYEAR + 1) < vord y m d) \/
  (exists e y' m', finish_advance rl s fixday y m d hh mi ss wd ii ts cnt out = Err e /\
                   rebuild rl ii y' m' = Err e /\ y <= y' <= T_MAXYEAR /\ 1 <= m' <= 12).
Proof.
  intros rl s fixday y m d hh mi ss wd ii ts cnt out Hm Hd Hy.
  pose proof (finish_advance_never_out_of_fuel rl s fixday y m d hh mi ss wd ii ts cnt out Hm) as NF.
  unfold finish_advance in *.
  destruct (fixday && (28 <? d)); [|left; eexists; reflexivity].
  destruct (Cal.dim y m <? d); [|left; eexists; reflexivity].
  destruct (fix_loop (Z.to_nat d) y m d (Cal.dim y m)) as [y' m' d'| |] eqn:Ef.
  - destruct (fix_loop_ordinal _ _ _ _ _ _ _ Hm Hd Ef) as (_ & Hm' & _).
    pose proof (fix_loop_year _ _ _ _ _ _ _ _ Ef Hy) as Hy'.
    destruct (rebuild rl ii y' m') as [ii'|e] eqn:Er; cbn [bind].
    + left. eexists. reflexivity.
    + right. right. exists e, y', m'. repeat split; auto; lia.
  - right. left. split; [reflexivity|].
    apply (fix_loop_max_only_beyond (Z.to_nat d) y m d Hm Hy Ef).
  - exfalso. apply NF. reflexivity.
Qed.
