(* C01 layer 7, sub-daily families WITH BYSETPOS: for HOURLY / MINUTELY / SECONDLY rules of the
   family `sfam_s` (spec_wf, no nth weekday, BYWEEKNO in the safe range, no BYEASTER; BYSETPOS
   arbitrary within spec_wf) the implementation model `iterate` and the specification
   RRSpec.spec_iter enumerate one and the same stream -- the theorems of RRSubCloseFam /
   RRSubStopFam / RRSubSame / RRSubAdvance without the hypothesis r_bysetpos r = None.
   How: the cursor invariant, the advance branches and the constructor state are those of the
   rule with BYSETPOS erased (RRSubSpBase: nothing but the pass reads the field); the pass is
   RRSubSpPass.step_single_day_sp (poslist = select_pos on the period's candidates).
   Written by the rset builder (new file). *)
From Coq Require Import ZArith List Bool Lia ZifyBool.
From V Require Import base.Cal gen.RrTables easter.EasterSpec rr.RRBase rr.RRNorm rr.RRMasks rr.RRIter
  rr.RRSpec rr.RRFilterSpec rr.RRWeekFinal rr.RRGateThm rr.RRTimesetThm rr.RRSubNorm rr.RRSubSpec rr.RRSubTimes
  rr.RRSubPass rr.RRSubMinTop rr.RRSubSecTop rr.RRSubHourRun rr.RRSubMinRun rr.RRSubSecRun rr.RRSubFamily
  rr.RRSubClose rr.RRSubCloseFam rr.RRSubCloseGen2 rr.RRSubStopFam rr.RRSubSpecCoh rr.RRSubAdvance
  rr.RRSubSpBase rr.RRSubSpPass rr.RRSubSpCloseGen.
Import ListNotations.
Open Scope Z_scope.

Record sfam_s (r : raw) (fr : Z) : Prop := mk_sfam_s {
  ss_wf : spec_wf r = true;
  ss_freq : r_freq r = fr;
  ss_plain : plain_only r = true;
  ss_weekno : all_opt (r_byweekno r) weekno_safe = true;
  ss_easter : r_byeaster r = None
}.

Lemma sfam_s_nosp : forall r fr, sfam_s r fr -> sfam (nosp_raw r) fr.
Proof.
  intros r fr [HW Hf Hp Hs He]. constructor; try assumption; [apply spec_wf_nosp; exact HW|reflexivity].
Qed.

Lemma sfam_is_sfam_s : forall r fr, sfam r fr -> sfam_s r fr.
Proof. intros r fr [HW Hf Hp _ Hs He]. constructor; assumption. Qed.

Lemma init_state_nosp : forall rl, (freq rl =? WEEKLY) = false -> init_state (nosp_rule rl) = init_state rl.
Proof.
  intros rl H. unfold init_state.
  cbn [nosp_rule freq s_y s_m s_d s_H s_M s_S wkst bysetpos count].
  rewrite H. cbn [andb]. reflexivity.
Qed.

Section FamSp.
Variables (r : raw) (rl : rule) (fr : Z).
Hypothesis Hn : normalize r = Ok rl.
Hypothesis HF : sfam_s r fr.
Hypothesis Hfr : fr = HOURLY \/ fr = MINUTELY \/ fr = SECONDLY.

Local Notation r0 := (nosp_raw r).
Local Notation rl0 := (nosp_rule rl).

Let Hn0 : normalize r0 = Ok rl0 := normalize_nosp r rl Hn.
Let HF0 : sfam r0 fr := sfam_s_nosp r fr HF.

Lemma freq_not_weekly : (freq rl =? WEEKLY) = false.
Proof.
  destruct (normalize_time_fields r rl Hn) as [Ef _]. pose proof HF as [_ Hf _ _ _]. rewrite Ef, Hf.
  destruct Hfr as [->|[->| ->]]; reflexivity.
Qed.

Lemma freq_subdaily : (DAILY <=? freq rl) && (freq rl <=? SECONDLY) = true.
Proof.
  destruct (normalize_time_fields r rl Hn) as [Ef _]. pose proof HF as [_ Hf _ _ _]. rewrite Ef, Hf.
  destruct Hfr as [->|[->| ->]]; reflexivity.
Qed.

(* what the cursor invariant says about the pass's inputs *)
Lemma cursor_shape : forall s k, den_sub r0 rl0 s k ->
  let o := ord_of_ymd (c_year s) (c_month s) (c_day s) in
  0 <= k /\ valid_ymd (c_year s) (c_month s) (c_day s) = true /\ IOKf rl (c_ii s) (c_year s) /\
  o = period_start r k / 86400 /\
  period_cands r0 k = (if day_ok r o then map (fun t => (o, t)) (c_timeset s) else []) /\
  ssorted (c_timeset s) = true.
Proof.
  intros s k HD o. pose proof HF0 as [HW0 Hf0 _ Hsp0 _ _]. pose proof HF as [HW Hf _ _ _].
  destruct (spec_wf_times r HW) as (VH & VM & VS & _).
  unfold den_sub in HD. rewrite Hf0 in HD.
  destruct Hfr as [E|[E|E]]; rewrite E in HD, Hf, Hf0.
  - change (HOURLY =? HOURLY) with true in HD. cbv iota in HD.
    destruct HD as (Hk & Hv & Ho & Hh & Hmi & Hse & Hts & Hii).
    destruct (hourly_period_day_hour r k Hf VM VS) as [Pd _].
    split; [exact Hk|]. split; [exact Hv|]. split; [exact Hii|].
    split; [unfold o; rewrite Pd; exact Ho|]. split.
    + rewrite (period_cands_hourly r0 rl0 Hn0 HW0 Hf0 Hsp0 k Hk). cbv zeta.
      change (sp_ord0 r0) with (sp_ord0 r) in *. change (sp_H0 r0) with (sp_H0 r) in *.
      change (r_interval r0) with (r_interval r) in *.
      rewrite <- Ho. fold o. rewrite <- Hh. rewrite Hts. reflexivity.
    + rewrite Hts. change (period_times r0) with (period_times r). apply (period_times_sorted_any r _ HW).
      rewrite Hh. change (sp_H0 r0) with (sp_H0 r). change (r_interval r0) with (r_interval r).
      pose proof (Z.mod_pos_bound (sp_H0 r + k * r_interval r) 24 ltac:(lia)). lia.
  - change (MINUTELY =? HOURLY) with false in HD. change (MINUTELY =? MINUTELY) with true in HD. cbv iota in HD.
    destruct HD as (Hk & Hv & Ho & Hh & Hmi & Hse & Hts & Hii).
    destruct (minutely_period_parts r k Hf VS) as [Pd _]. cbv zeta in Pd. fold (min_n r k) in Pd.
    split; [exact Hk|]. split; [exact Hv|]. split; [exact Hii|].
    split; [unfold o; rewrite Pd; exact Ho|]. split.
    + rewrite (period_cands_minutely r0 rl0 Hn0 HW0 Hf0 Hsp0 k). cbv zeta.
      change (sp_ord0 r0) with (sp_ord0 r) in *. change (min_n r0 k) with (min_n r k) in *.
      rewrite <- Ho. fold o. rewrite Hts. reflexivity.
    + rewrite Hts. change (period_times r0) with (period_times r). apply (period_times_sorted_any r _ HW).
      change (min_n r0 k) with (min_n r k).
      pose proof (Z.mod_pos_bound (min_n r k) 1440 ltac:(lia)). lia.
  - change (SECONDLY =? HOURLY) with false in HD. change (SECONDLY =? MINUTELY) with false in HD. cbv iota in HD.
    destruct HD as (Hk & Hv & Ho & Hh & Hmi & Hse & Hts & Hii).
    destruct (secondly_period_parts r k Hf) as [Pd _]. cbv zeta in Pd. fold (sec_n r k) in Pd.
    split; [exact Hk|]. split; [exact Hv|]. split; [exact Hii|].
    split; [unfold o; rewrite Pd; exact Ho|]. split.
    + rewrite (period_cands_secondly r0 Hf0 Hsp0 k). cbv zeta.
      change (sp_ord0 r0) with (sp_ord0 r) in *. change (sec_n r0 k) with (sec_n r k) in *.
      rewrite <- Ho. fold o. rewrite Hts. reflexivity.
    + rewrite Hts. change (period_times r0) with (period_times r). apply (period_times_sorted_any r _ HW).
      change (sec_n r0 k) with (sec_n r k).
      pose proof (Z.mod_pos_bound (sec_n r k) 86400 ltac:(lia)). lia.
Qed.

(* one pass, BYSETPOS or not: the gate on the specification's candidates of the cursor's period,
   then the advance branch *)
Theorem pass_sub_sp : forall s k, den_sub r0 rl0 s k ->
  step rl s = after_gate rl s (filt_sub r k) (gate_list rl (period_cands r k) (c_count s) (c_out s)).
Proof.
  intros s k HD. destruct (cursor_shape s k HD) as (Hk & Hv & Hii & Eo & Ec & Hst). cbv zeta in *.
  pose proof HF as [HW Hf _ _ _].
  set (o := ord_of_ymd (c_year s) (c_month s) (c_day s)) in *.
  pose proof (iokf_range rl _ _ _ _ Hii Hv) as Hi. fold o in Hi.
  pose proof (ord_of_ymd_range _ _ _ Hv) as Hor. fold o in Hor.
  set (i := o - yearordinal (c_ii s)) in *.
  assert (Hrej : day_rejected rl (c_ii s) i = Ok (negb (day_ok r o))).
  { pose proof (iokf_filter r0 rl0 fr Hn0 HF0 (c_ii s) (c_year s) i Hii Hi) as X.
    change (day_rejected rl0) with (day_rejected rl) in X. change (day_ok r0) with (day_ok r) in X.
    rewrite X. do 3 f_equal. unfold i. ring. }
  unfold filt_sub. rewrite <- Eo. rewrite (period_cands_nosp r k), Ec.
  destruct (r_bysetpos r) as [poss|] eqn:Esp.
  - destruct (spec_wf_setpos r poss HW Esp) as [Hne Hnz].
    rewrite (step_single_day_sp rl s (negb (day_ok r o)) poss freq_subdaily
               ltac:(rewrite (normalize_bysetpos r rl Hn); exact Esp) Hne Hnz Hst Hv Hi Hor Hrej).
    fold o. f_equal. f_equal.
    destruct (day_ok r o); cbn [negb]; [|symmetry; apply select_pos_nil].
    unfold select_pos. rewrite Esp. reflexivity.
  - rewrite (step_single_day rl s (negb (day_ok r o)) freq_subdaily
               ltac:(rewrite (normalize_bysetpos r rl Hn), Esp; reflexivity) Hv Hi Hor Hrej).
    fold o. f_equal. unfold select_pos. rewrite Esp.
    destruct (day_ok r o); reflexivity.
Qed.

(* the advance: RRSubAdvance.advance_correct_subdaily for the erased rule, read for the rule itself *)
Lemma dead_after_nosp : forall k, dead_after r0 k -> dead_after r k.
Proof.
  intros k H j Hj. destruct (H j Hj) as [E|E]; [left; apply period_cands_nosp_nil; exact E|right; exact E].
Qed.

Theorem advance_correct_subdaily_sp : forall s k cnt out, den_sub r0 rl0 s k ->
  match advance rl s (filt_sub r k) cnt out with
  | Ok (AdvGo s') =>
      exists k', k < k' /\ den_sub r0 rl0 s' k' /\ (forall j, k < j < k' -> period_cands r j = []) /\
                 c_count s' = cnt /\ c_out s' = out
  | Ok AdvFuel => False
  | Ok AdvMax => dead_after r k
  | Err _ => dead_after r k
  end.
Proof.
  intros s k cnt out HD.
  pose proof (advance_correct_subdaily r0 rl0 fr Hn0 HF0 Hfr s k cnt out HD) as AC.
  change (advance rl0) with (advance rl) in AC. change (filt_sub r0 k) with (filt_sub r k) in AC.
  destruct (advance rl s (filt_sub r k) cnt out) as [[| |s']|e].
  - apply dead_after_nosp. exact AC.
  - exact AC.
  - destruct AC as (k' & Hkk & HD' & Hskip & Ec & Eo). exists k'. split; [exact Hkk|]. split; [exact HD'|].
    split; [|split; assumption]. intros j Hj. apply period_cands_nosp_nil. apply Hskip. exact Hj.
  - apply dead_after_nosp. exact AC.
Qed.

Theorem init_state_den_sub_sp :
  exists s0, init_state rl = Ok s0 /\ den_sub r0 rl0 s0 0 /\ c_count s0 = r_count r /\ c_out s0 = [].
Proof.
  destruct (init_state_den_sub r0 rl0 fr Hn0 HF0 Hfr) as (s0 & E & HD & Ec & Eo).
  rewrite (init_state_nosp rl freq_not_weekly) in E. exists s0. repeat split; assumption.
Qed.

Lemma fam_s_basics : valid_ymd (r_y r) (r_m r) (r_d r) = true /\
  dtstart_inst rl = sp_start r /\ until rl = r_until r /\ 1 <= r_interval r /\ 0 <= sp_sod0 r <= 86399 /\
  is_coarse r = false.
Proof.
  pose proof HF as [HW Hf _ _ _].
  assert (V : valid_ymd (r_y r) (r_m r) (r_d r) = true).
  { pose proof HW as W. unfold spec_wf in W.
    repeat match type of W with _ && _ = true =>
      let H := fresh "W" in apply andb_true_iff in W; destruct W as [W H] end. assumption. }
  destruct (normalize_start_until r rl Hn V) as (S1 & Nu & _).
  destruct (spec_wf_times r HW) as (VH & VM & VS & _ & _ & _ & _ & _ & _ & Hi).
  split; [exact V|]. split; [exact S1|]. split; [exact Nu|]. split; [exact Hi|].
  split; [unfold sp_sod0; lia|]. unfold is_coarse. rewrite Hf. destruct Hfr as [->|[->| ->]]; reflexivity.
Qed.

Lemma den_sub_day : forall s k, den_sub r0 rl0 s k -> 0 <= k /\ period_start r k / 86400 <= max_ord.
Proof.
  intros s k HD. destruct (cursor_shape s k HD) as (Hk & Hv & _ & Eo & _). cbv zeta in Eo.
  split; [exact Hk|]. rewrite <- Eo. apply (ord_of_ymd_range _ _ _ Hv).
Qed.

Lemma next_sub_sp : forall s k cnt out s', den_sub r0 rl0 s k -> advance rl s (filt_sub r k) cnt out = Ok (AdvGo s') ->
  exists k', k < k' /\ den_sub r0 rl0 s' k' /\ (forall j, k < j < k' -> period_cands r j = []) /\
             c_count s' = cnt /\ c_out s' = out.
Proof.
  intros s k cnt out s' HD Ea. pose proof (advance_correct_subdaily_sp s k cnt out HD) as AC.
  rewrite Ea in AC. exact AC.
Qed.

Lemma init_sub_sp : forall s0, init_state rl = Ok s0 ->
  den_sub r0 rl0 s0 0 /\ c_count s0 = r_count r /\ c_out s0 = [].
Proof.
  intros s0 E. destruct init_state_den_sub_sp as (s1 & E1 & H). rewrite E in E1. inversion E1. subst s1. exact H.
Qed.

Theorem prefix_of_spec_sp : forall limit n, exists L d rest, fst (spec_iter r L d) = fst (iterate rl limit n) ++ rest.
Proof.
  destruct fam_s_basics as (V & S1 & Nu & Hi & Hsod & Hsub).
  apply (iterate_prefix_of_spec_sp r rl S1 Nu Hsub Hi Hsod (den_sub r0 rl0) (filt_sub r)
           pass_sub_sp next_sub_sp den_sub_day init_sub_sp).
Qed.

Theorem spec_prefix_of_iterate_sp : forall L d, exists limit n rest, fst (iterate rl limit n) = fst (spec_iter r L d) ++ rest.
Proof.
  destruct fam_s_basics as (V & S1 & Nu & Hi & Hsod & Hsub).
  apply (spec_prefix_of_iterate r rl S1 Nu Hsub Hi Hsod (den_sub r0 rl0) (filt_sub r)
           pass_sub_sp next_sub_sp den_sub_day init_sub_sp).
  - intros s k cnt out HD. pose proof (advance_correct_subdaily_sp s k cnt out HD) as AC.
    destruct (advance rl s (filt_sub r k) cnt out) as [[| |s']|e]; try exact AC. exact I.
  - destruct init_state_den_sub_sp as (s0 & E & _). exists s0. exact E.
Qed.

End FamSp.
