(* C01 layer 2, calendar-level statement: for EVERY year, week start and list of BYWEEKNO
   members in -53..53 (the RFC 5545 range), the week-number mask that rebuild() builds marks, on every index the
   iteration reads, exactly the days whose wkst-week number (RRSpec.week_of) or its negative
   within the week-year (RRSpec.weeks_in) is a member of the list. *)
From Coq Require Import ZArith List Bool Lia.
From V Require Import base.Cal gen.RrTables rr.RRBase rr.RRNorm rr.RRMasks rr.RRSpec rr.RRWeekDefs
  rr.RRWeekThm rr.RRWeekFinal rr.RRWeekCal.
Import ListNotations.
Open Scope Z_scope.

(* the BYWEEKNO clause of RRSpec.day_ok for the day with ordinal o *)
Definition spec_weekno_clause (wk o n : Z) : bool :=
  let '(wy, w) := week_of wk o in (n =? w) || (n =? w - weeks_in wk wy - 1).

Theorem wnomask_correct_calendar : forall year wk L,
  0 <= wk <= 6 -> forallb weekno_safe L = true ->
  let ywd := weekday_of_ord (jan1 year) in
  exists m,
    build_wnomask year (year_len year) (year_len (year + 1)) ywd wk (py_from T_WDAYMASK ywd) L = Ok m /\
    zlen m = year_len year + 7 /\
    forall i, used_index (shape_of year) wk i = true ->
      nzb (nth (Z.to_nat i) m 0) = existsb (spec_weekno_clause wk (jan1 year + i)) L.
Proof.
  intros year wk L Hw HL ywd. unfold ywd.
  rewrite (build_wnomask_shape year wk L).
  destruct (wnomask_correct_guarded (shape_of year) wk L (year_shape_complete year) Hw HL)
    as (m & Em & Lm & Pm).
  exists m. split; [exact Em|]. split; [exact Lm|].
  intros i Hu. rewrite (Pm i Hu). apply existsb_ext_in'. intros n _.
  apply week_matches_is_spec.
  unfold used_index in Hu. apply andb_true_iff in Hu. destruct Hu as [Hu _].
  apply andb_true_iff in Hu. destruct Hu as [H1 H2].
  change (sh_ylen (shape_of year)) with (year_len year) in H2. lia.
Qed.

(* no IndexError while building the mask, for every year and every list of integers *)
Theorem wnomask_no_index_error_calendar : forall year wk L,
  0 <= wk <= 6 ->
  let ywd := weekday_of_ord (jan1 year) in
  exists m, build_wnomask year (year_len year) (year_len (year + 1)) ywd wk (py_from T_WDAYMASK ywd) L = Ok m.
Proof.
  intros year wk L Hw ywd. unfold ywd.
  rewrite (build_wnomask_shape year wk L).
  destruct (wnomask_no_index_error (shape_of year) wk L (year_shape_complete year) Hw) as (m & Em & _).
  exists m. exact Em.
Qed.

(* non-vacuity: year 2024 (leap, Monday), ISO weeks, BYWEEKNO = (1, -1): week 1, week 52 and
   30/31 December (week 1 of 2025) are marked *)
Example wnomask_calendar_example :
  forallb weekno_safe [1; -1] = true /\
  match build_wnomask 2024 366 365 0 0 (py_from T_WDAYMASK 0) [1; -1] with
  | Ok m => nth 0 m 0 = 1 /\ nth 7 m 0 = 0 /\ nth 356 m 0 = 0 /\ nth 363 m 0 = 1 /\ nth 365 m 0 = 1
  | Err _ => False
  end.
Proof. vm_compute. repeat split; reflexivity. Qed.
