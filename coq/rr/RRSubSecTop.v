(* C01 layer 6, sub-daily: `advance_correct_secondly` -- the SECONDLY advance branch against the
   specification (analogue of RRSubMinTop.advance_correct_minutely).
   Written by the rset builder (new file). *)
From Coq Require Import ZArith List Bool Lia ZifyBool Znumtheory.
From V Require Import base.Cal gen.RrTables easter.EasterSpec rr.RRBase rr.RRNorm rr.RRMasks rr.RRIter
  rr.RRSpec rr.RRSubdailyThm rr.RRAdvanceThm rr.RRSubNorm rr.RRSubHour rr.RRSubSpec rr.RRSubHourTop
  rr.RRSubLoop rr.RRSubMin rr.RRSubSec rr.RRSubMinTop.
Import ListNotations.
Open Scope Z_scope.

Lemma sod_parts : forall a, 0 <= a < 86400 ->
  let h := a / 3600 in let m := (a / 60) mod 60 in let s := a mod 60 in
  a = h * 3600 + m * 60 + s /\ 0 <= h < 24 /\ 0 <= m < 60 /\ 0 <= s < 60.
Proof.
  intros a Ha. cbv zeta.
  pose proof (Z.div_mod a 60 ltac:(lia)) as D1. pose proof (Z.mod_pos_bound a 60 ltac:(lia)) as B1.
  pose proof (Z.div_mod (a / 60) 60 ltac:(lia)) as D2. pose proof (Z.mod_pos_bound (a / 60) 60 ltac:(lia)) as B2.
  assert (E : a / 60 / 60 = a / 3600) by (rewrite Z.div_div by lia; reflexivity).
  rewrite E in D2.
  assert (0 <= a / 3600 < 24) by (split; [apply Z.div_pos; lia|apply Z.div_lt_upper_bound; lia]).
  lia.
Qed.

(* second count of period k since midnight of the start day *)
Definition sec_n (r : raw) (k : Z) : Z := sp_sod0 r + k * r_interval r.

Section Secondly.
Variables (r : raw) (rl : rule).
Hypothesis Hn : normalize r = Ok rl.
Hypothesis Hf : r_freq r = SECONDLY.
Hypothesis Hi : 1 <= r_interval r.
Hypothesis HS : 0 <= sp_S0 r <= 59.
Hypothesis Hneh : ne_list (r_byhour r).
Hypothesis Hnem : ne_list (r_byminute r).

Local Notation n := (sec_n r).

Lemma sec_parts_of_period : forall k, (n k mod 86400) mod 60 = (sp_S0 r + k * r_interval r) mod 60.
Proof.
  intro k. rewrite <- Zmod_div_mod; [|lia|lia|exists 1440; reflexivity].
  unfold sec_n, sp_sod0. replace (sp_H0 r * 3600 + sp_M0 r * 60 + sp_S0 r + k * r_interval r)
    with (sp_S0 r + k * r_interval r + (sp_H0 r * 60 + sp_M0 r) * 60) by ring. apply Z_mod_plus_full.
Qed.

Lemma sec_adm_is_spec : forall k, 0 <= k ->
  let a := n k mod 86400 in
  sec_adm rl a = in_opt (r_byhour r) (Z.eqb (a / 3600)) && in_opt (r_byminute r) (Z.eqb ((a / 60) mod 60)) &&
                 in_opt (r_bysecond r) (Z.eqb (a mod 60)).
Proof.
  intros k Hk a.
  destruct (normalize_time_fields r rl Hn) as [_ [_ [_ [_ [_ [Bh [Bm Bs]]]]]]].
  unfold by_field in Bh, Bm, Bs. rewrite Hf in Bh, Bm, Bs.
  change (SECONDLY =? HOURLY) with false in Bh. change (SECONDLY <? HOURLY) with false in Bh.
  change (SECONDLY =? MINUTELY) with false in Bm. change (SECONDLY <? MINUTELY) with false in Bm.
  change (SECONDLY =? SECONDLY) with true in Bs. change (SECONDLY <? SECONDLY) with false in Bs.
  pose proof (Z.mod_pos_bound (n k) 86400 ltac:(lia)) as Ba. fold a in Ba.
  destruct (sod_parts a Ba) as (_ & Rh & _ & _).
  unfold sec_adm. rewrite (Z.mod_small (a / 3600) 24) by lia. f_equal; [f_equal|].
  - destruct (r_byhour r) as [l|] eqn:El.
    + rewrite Bh. assert (l <> []) by (intro E; apply Hneh; rewrite E; reflexivity).
      rewrite truthy_sort_set by assumption. cbn [negb orb opt_list in_opt]. apply memZ_sort_set'.
    + rewrite Bh. reflexivity.
  - destruct (r_byminute r) as [l|] eqn:El.
    + rewrite Bm. assert (l <> []) by (intro E; apply Hnem; rewrite E; reflexivity).
      rewrite truthy_sort_set by assumption. cbn [negb orb opt_list in_opt]. apply memZ_sort_set'.
    + rewrite Bm. reflexivity.
  - destruct (r_bysecond r) as [l|] eqn:El.
    + destruct Bs as [c [Hc Ebs]]. destruct (construct_byset_ok _ _ _ _ _ Hc) as [_ Hcne].
      rewrite Ebs. rewrite truthy_sort_set by assumption. cbn [negb orb opt_list in_opt].
      apply (constructed_mem (r_interval r) (sp_S0 r) l 60 c (a mod 60) k); try lia; [exact Hc|].
      unfold a. apply sec_parts_of_period.
    + rewrite Bs. reflexivity.
Qed.

Lemma sec_bad_no_times : forall k, 0 <= k -> sec_adm rl (n k mod 86400) = false ->
  period_times r (n k mod 86400) = [].
Proof.
  intros k Hk Hbad. rewrite (sec_adm_is_spec k Hk) in Hbad. cbv zeta in Hbad.
  pose proof (Z.mod_pos_bound (n k) 86400 ltac:(lia)) as Ba.
  apply (period_times_secondly_out r _ Hf Ba).
  apply andb_false_iff in Hbad. destruct Hbad as [Hb|Hb]; [apply andb_false_iff in Hb; destruct Hb as [Hb|Hb]|].
  - right. right. destruct (r_byhour r) as [l|]; [|discriminate]. exists l. split; [reflexivity|exact Hb].
  - right. left. destruct (r_byminute r) as [l|]; [|discriminate]. exists l. split; [reflexivity|exact Hb].
  - left. destruct (r_bysecond r) as [l|]; [|discriminate]. exists l. split; [reflexivity|exact Hb].
Qed.

Lemma skipped_sec_no_cands : forall k filtered i, 0 <= k -> 1 <= i ->
  (filtered = true -> day_ok r (sp_ord0 r + n k / 86400) = false) ->
  skipped_sec rl filtered (n k mod 86400) i -> period_cands r (k + i) = [].
Proof.
  intros k filtered i Hk Hi' Hfilt Hsk.
  destruct (normalize_time_fields r rl Hn) as [_ [Eitv _]].
  destruct (secondly_period_parts r (k + i) Hf) as [Pd Pm]. cbv zeta in Pd, Pm.
  fold (n (k + i)) in Pd, Pm.
  assert (Enk : n (k + i) = n k + i * r_interval r) by (unfold sec_n; ring).
  pose proof (Z.div_mod (n k) 86400 ltac:(lia)) as D. pose proof (Z.mod_pos_bound (n k) 86400 ltac:(lia)) as B.
  unfold skipped_sec in Hsk. rewrite Eitv in Hsk. destruct Hsk as [[Efl Hle]|Hbad].
  - apply period_cands_bad_day. rewrite Pd, Enk.
    replace ((n k + i * r_interval r) / 86400) with (n k / 86400); [apply Hfilt; exact Efl|].
    apply (Z.div_unique _ 86400 _ (n k mod 86400 + i * r_interval r)); [nia|lia].
  - apply period_cands_no_times. rewrite Pm. apply sec_bad_no_times; [lia|].
    rewrite <- Hbad. apply sec_adm_congr. rewrite Enk. rewrite Z.mod_mod by lia.
    symmetry. apply Zplus_mod_idemp_l.
Qed.

Theorem advance_correct_secondly : forall k filtered day, 0 <= k ->
  let od := sp_ord0 r + n k / 86400 in
  let a := n k mod 86400 in
  (filtered = true -> day_ok r od = false) ->
  match secondly_core rl filtered (a / 3600) ((a / 60) mod 60) (a mod 60) day with
  | Ok (se', mi', hh', dd', fx') =>
      exists k', k < k' /\
        od + (dd' - day) = sp_ord0 r + n k' / 86400 /\ hh' * 3600 + mi' * 60 + se' = n k' mod 86400 /\
        0 <= se' < 60 /\ 0 <= mi' < 60 /\ 0 <= hh' < 24 /\ day <= dd' /\ (fx' = false -> dd' = day) /\
        in_opt (r_byhour r) (Z.eqb hh') = true /\ in_opt (r_byminute r) (Z.eqb mi') = true /\
        in_opt (r_bysecond r) (Z.eqb se') = true /\
        forall j, k < j < k' -> period_cands r j = []
  | Err e => (e = EValue \/ e = EType) /\ forall j, k < j -> period_cands r j = []
  end.
Proof.
  intros k filtered day Hk od a Hfilt.
  destruct (normalize_time_fields r rl Hn) as [_ [Eitv _]].
  pose proof (Z.mod_pos_bound (n k) 86400 ltac:(lia)) as Ba. fold a in Ba.
  destruct (sod_parts a Ba) as (Ea & Rh0 & Rm0 & Rs0).
  pose proof (secondly_core_spec rl filtered (a / 3600) ((a / 60) mod 60) (a mod 60) day ltac:(lia) Rh0 Rm0 Rs0) as S.
  cbv zeta in S. rewrite <- Ea in S.
  destruct (secondly_core rl filtered (a / 3600) ((a / 60) mod 60) (a mod 60) day) as [[[[[se' mi'] hh'] dd'] fx']|e].
  - destruct S as (j & Hj & Eq & Rs & Rm & Rh & Rd & Rf & Adm & _ & Skip). rewrite Eitv in Eq, Adm.
    exists (k + j). split; [lia|].
    pose proof (Z.div_mod (n k) 86400 ltac:(lia)) as D. fold a in D.
    set (a' := hh' * 3600 + mi' * 60 + se').
    assert (Ba' : 0 <= a' < 86400) by (unfold a'; lia).
    assert (Enk : n (k + j) = (n k / 86400 + (dd' - day)) * 86400 + a') by (unfold sec_n, a' in *; lia).
    assert (Hq : n (k + j) / 86400 = n k / 86400 + (dd' - day))
      by (symmetry; apply (Z.div_unique _ 86400 _ a'); lia).
    assert (Hmod : n (k + j) mod 86400 = a')
      by (symmetry; apply (Z.mod_unique _ 86400 (n k / 86400 + (dd' - day)) a'); lia).
    split; [rewrite Hq; unfold od; ring|]. split; [symmetry; exact Hmod|].
    split; [lia|]. split; [lia|]. split; [lia|]. split; [lia|]. split; [exact Rf|].
    assert (Hadm : sec_adm rl (n (k + j) mod 86400) = true).
    { rewrite <- Adm. apply sec_adm_congr. rewrite Z.mod_mod by lia.
      replace (n (k + j)) with (n k + j * r_interval r) by (unfold sec_n; ring).
      symmetry. apply Zplus_mod_idemp_l. }
    rewrite (sec_adm_is_spec (k + j) ltac:(lia)) in Hadm. cbv zeta in Hadm. rewrite Hmod in Hadm.
    assert (P1 : a' / 3600 = hh') by (symmetry; apply (Z.div_unique _ 3600 _ (mi' * 60 + se')); unfold a'; lia).
    assert (P2 : (a' / 60) mod 60 = mi').
    { assert (a' / 60 = hh' * 60 + mi') by (symmetry; apply (Z.div_unique _ 60 _ se'); unfold a'; lia).
      rewrite H. symmetry. apply (Z.mod_unique _ 60 hh' mi'); lia. }
    assert (P3 : a' mod 60 = se') by (symmetry; apply (Z.mod_unique _ 60 (hh' * 60 + mi') se'); unfold a'; lia).
    rewrite P1, P2, P3 in Hadm.
    apply andb_true_iff in Hadm. destruct Hadm as [A12 A3]. apply andb_true_iff in A12. destruct A12 as [A1 A2].
    split; [exact A1|]. split; [exact A2|]. split; [exact A3|].
    intros j' Hj'. replace j' with (k + (j' - k)) by ring.
    apply (skipped_sec_no_cands k filtered (j' - k) Hk ltac:(lia) Hfilt). apply Skip. lia.
  - destruct S as [He Skip]. split; [exact He|].
    intros j' Hj'. replace j' with (k + (j' - k)) by ring.
    apply (skipped_sec_no_cands k filtered (j' - k) Hk ltac:(lia) Hfilt). apply Skip. lia.
Qed.

End Secondly.
