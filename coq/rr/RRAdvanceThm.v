(* C01 layer 6 (YEARLY..DAILY) -- the cursor arithmetic of the advance step, for all inputs:
   * MONTHLY: the divmod carry (rrule.py 914-926) moves the month index year*12 + month-1 by
     exactly `interval` and keeps 1 <= month <= 12;
   * WEEKLY: the two-branch wkst formula (927-933) moves the day to the start of the cursor's
     wkst-week plus 7*interval days;
   * the fixday carry loop (1023-1036) preserves the "virtual ordinal"
     days_before_year y + dbm y m + d and ends on an existing date (so a DAILY / WEEKLY cursor that
     was day d0 + n stays the n-th day after d0), or stops exactly when the year would pass 9999.
   These are the facts that make the cursor of the k-th pass denote RRSpec.period_days k. *)
From Coq Require Import ZArith List Bool Lia ZifyBool.
From V Require Import base.Cal gen.RrTables rr.RRBase rr.RRNorm rr.RRMasks rr.RRIter rr.RRSpec rr.RRTablesThm.
Import ListNotations.
Ltac Zify.zify_post_hook ::= Z.to_euclidean_division_equations.
Open Scope Z_scope.

(* ---- MONTHLY carry, as written in `advance` *)
Definition monthly_carry (year month itv : Z) : Z * Z :=
  let month := month + itv in
  if 12 <? month then
    let dv := month / 12 in
    let md := month mod 12 in
    if md =? 0 then (12, year + dv - 1) else (md, year + dv)
  else (month, year).

Theorem monthly_carry_correct : forall year month itv,
  1 <= month <= 12 -> 1 <= itv ->
  let '(month', year') := monthly_carry year month itv in
  1 <= month' <= 12 /\ year' * 12 + (month' - 1) = year * 12 + (month - 1) + itv.
Proof.
  intros year month itv Hm Hi. unfold monthly_carry. cbv zeta.
  destruct (12 <? month + itv) eqn:E; [|lia].
  destruct ((month + itv) mod 12 =? 0) eqn:E0; lia.
Qed.

(* the model's MONTHLY branch is this carry *)
Lemma advance_monthly_is_carry rl s filtered cnt out :
  freq rl = MONTHLY ->
  advance rl s filtered cnt out =
  (let '(month, year) := monthly_carry (c_year s) (c_month s) (interval rl) in
   if (12 <? c_month s + interval rl) && (T_MAXYEAR <? year) then Ok AdvMax else
   do ii' <- rebuild rl (c_ii s) year month;
   finish_advance rl s false year month (c_day s) (c_hour s) (c_minute s) (c_second s) (c_weekday s)
                  ii' (c_timeset s) cnt out).
Proof.
  intros Hf. unfold advance, monthly_carry. rewrite Hf. cbv zeta.
  change (MONTHLY =? YEARLY) with false. change (MONTHLY =? MONTHLY) with true. cbv iota.
  destruct (12 <? c_month s + interval rl) eqn:E; cbn [andb]; [|reflexivity].
  destruct ((c_month s + interval rl) mod 12 =? 0); reflexivity.
Qed.

(* ---- WEEKLY: start of the cursor's week + 7 * interval *)
Theorem weekly_advance_correct : forall day wd wk itv, 0 <= wd <= 6 -> 0 <= wk <= 6 ->
  (if wd <? wk then day + - (wd + 1 + (6 - wk)) + itv * 7 else day + - (wd - wk) + itv * 7)
  = day - (wd - wk) mod 7 + 7 * itv.
Proof. intros day wd wk itv Hw Hk. destruct (wd <? wk) eqn:E; lia. Qed.

(* ---- the carry loop preserves the virtual ordinal *)
Definition vord (y m d : Z) : Z := days_before_year y + dbm y m + d.

Lemma fix_loop_preserves_ordinal_aux : forall fuel year month day y' m' d',
  1 <= month <= 12 -> 1 <= day ->
  fix_loop fuel year month day (Cal.dim year month) = FixOk y' m' d' ->
  vord y' m' d' = vord year month day /\ 1 <= m' <= 12 /\ 1 <= d' <= Cal.dim y' m' /\ y' <= T_MAXYEAR \/
  False \/ (vord y' m' d' = vord year month day /\ 1 <= m' <= 12 /\ 1 <= d' <= Cal.dim y' m').
Proof.
  induction fuel as [|k IH]; intros year month day y' m' d' Hm Hd; cbn [fix_loop]; [discriminate|].
  destruct (Cal.dim year month <? day) eqn:E.
  - destruct (month + 1 =? 13) eqn:E13.
    + destruct (T_MAXYEAR <? year + 1) eqn:EM; [discriminate|].
      intros H. destruct (IH (year + 1) 1 (day - Cal.dim year month) y' m' d' ltac:(lia) ltac:(lia) H)
        as [(V & M & D & Y)|[[]|(V & M & D)]].
      * right. right. split; [|split; assumption]. rewrite V. unfold vord.
        assert (month = 12) by lia. subst month.
        rewrite days_before_year_succ. pose proof (dbm_succ year 12 ltac:(lia)) as S.
        change (12 + 1) with 13 in S. rewrite dbm_13 in S. rewrite dbm_1. lia.
      * right. right. split; [|split; assumption]. rewrite V. unfold vord.
        assert (month = 12) by lia. subst month.
        rewrite days_before_year_succ. pose proof (dbm_succ year 12 ltac:(lia)) as S.
        change (12 + 1) with 13 in S. rewrite dbm_13 in S. rewrite dbm_1. lia.
    + intros H. destruct (IH year (month + 1) (day - Cal.dim year month) y' m' d' ltac:(lia) ltac:(lia) H)
        as [(V & M & D & Y)|[[]|(V & M & D)]].
      * right. right. split; [|split; assumption]. rewrite V. unfold vord.
        rewrite (dbm_succ year month Hm). lia.
      * right. right. split; [|split; assumption]. rewrite V. unfold vord.
        rewrite (dbm_succ year month Hm). lia.
  - intros H. inversion H; subst. right. right. split; [reflexivity|]. split; [exact Hm|]. lia.
Qed.

(* cleaner corollary *)
Corollary fix_loop_ordinal : forall fuel year month day y' m' d',
  1 <= month <= 12 -> 1 <= day ->
  fix_loop fuel year month day (Cal.dim year month) = FixOk y' m' d' ->
  ord_of_ymd y' m' d' = vord year month day /\ 1 <= m' <= 12 /\ 1 <= d' <= Cal.dim y' m'.
Proof.
  intros fuel year month day y' m' d' Hm Hd H.
  destruct (fix_loop_preserves_ordinal_aux fuel year month day y' m' d' Hm Hd H)
    as [(V & M & D & _)|[[]|(V & M & D)]]; (split; [exact V|split; assumption]).
Qed.

(* the loop reports MAXYEAR only when the virtual ordinal lies beyond 9999-12-31 *)
Theorem fix_loop_max_only_beyond : forall fuel year month day,
  1 <= month <= 12 -> year <= T_MAXYEAR ->
  fix_loop fuel year month day (Cal.dim year month) = FixMax ->
  days_before_year (T_MAXYEAR + 1) < vord year month day.
Proof.
  induction fuel as [|k IH]; intros year month day Hm Hy; cbn [fix_loop]; [discriminate|].
  destruct (Cal.dim year month <? day) eqn:E; [|discriminate].
  destruct (month + 1 =? 13) eqn:E13.
  - assert (month = 12) by lia. subst month.
    pose proof (dbm_succ year 12 ltac:(lia)) as S. change (12 + 1) with 13 in S. rewrite dbm_13 in S.
    destruct (T_MAXYEAR <? year + 1) eqn:EM.
    + intros _. assert (year = T_MAXYEAR) by lia. subst year. unfold vord.
      rewrite days_before_year_succ. lia.
    + intros H. pose proof (IH (year + 1) 1 (day - Cal.dim year 12) ltac:(lia) ltac:(lia) H) as R.
      unfold vord in *. rewrite (days_before_year_succ year), dbm_1 in R. lia.
  - intros H. pose proof (IH year (month + 1) (day - Cal.dim year month) ltac:(lia) Hy H) as R.
    unfold vord in *. rewrite (dbm_succ year month Hm) in R. lia.
Qed.

(* non-vacuity: 31 January + 30 days, non-leap year *)
Example fix_loop_example : fix_loop 61 2023 1 61 31 = FixOk 2023 3 2.
Proof. vm_compute. reflexivity. Qed.
