(* C01 layer 7, sub-daily families, converse closing statement (progress): for HOURLY / MINUTELY /
   SECONDLY rules of the family `sfam`, everything the specification RRSpec.spec_iter yields (any
   limit, any number of days) is a prefix of what `iterate` yields for a suitable limit and fuel:
   the implementation model never stops early -- neither its ValueError / TypeError branch, nor
   the MAXYEAR exit, nor rebuild() ends the enumeration while the specification still has an
   instant to give.  Together with RRSubCloseFam.subdaily_prefix_of_spec the two sequences are
   prefixes of one another for growing fuel, i.e. the same sequence.
   Written by the rset builder (new file). *)
From Coq Require Import ZArith List Bool Lia ZifyBool.
From V Require Import base.Cal gen.RrTables easter.EasterSpec rr.RRBase rr.RRNorm rr.RRMasks rr.RRIter
  rr.RRSpec rr.RRWeekCal rr.RRWeekFinal rr.RRFilterThm rr.RRFilterSpec rr.RRPassThm rr.RRYearlyThm
  rr.RRGateThm rr.RRYearlyUntilThm rr.RRDailyThm rr.RRTimesetThm rr.RRSubNorm rr.RRSubSpec rr.RRSubTimes
  rr.RRSubMinTop rr.RRSubSecTop rr.RRSubHourRun rr.RRSubMinRun rr.RRSubSecRun rr.RRSubFamily rr.RRSubClose
  rr.RRSubCloseGen rr.RRSubCloseFam rr.RRSubCloseGen2 rr.RRSubStop rr.RRSubHourStop rr.RRSubMinStop
  rr.RRSubSecStop rr.RRSubInit.
Import ListNotations.
Open Scope Z_scope.

Section FamStop.
Variables (r : raw) (rl : rule) (fr : Z).
Hypothesis Hn : normalize r = Ok rl.
Hypothesis HF : sfam r fr.

Lemma fam_rebuild_facts : 0 <= wkst rl <= 6 /\ truthy (bynweekday rl) = false /\ truthy (byeaster rl) = false.
Proof.
  destruct HF as [HW _ Hp _ Hs He].
  pose proof (normalize_wkst r rl Hn) as Nwk.
  pose proof (plain_only_no_nth r rl Hn Hp) as TN.
  destruct (normalize_fields r rl Hn) as (_ & _ & _ & _ & _ & Nea & _).
  assert (TE : truthy (byeaster rl) = false) by (rewrite Nea, He; reflexivity).
  assert (Hwk : 0 <= r_wkst r <= 6).
  { pose proof HW as HW'. unfold spec_wf in HW'.
    repeat match type of HW' with _ && _ = true =>
      let H := fresh "W" in apply andb_true_iff in HW'; destruct HW' as [HW' H] end.
    unfold between in *. lia. }
  split; [rewrite Nwk; exact Hwk|]. split; assumption.
Qed.

(* rebuild() never raises along a run of the family *)
Lemma iokf_rebuild_ok : forall ii y y' m', IOKf rl ii y -> y <= y' <= 9999 -> 1 <= m' <= 12 ->
  exists ii', rebuild rl ii y' m' = Ok ii'.
Proof.
  intros ii y y' m' [Hy [m0 Hr]] Hy' Hm'.
  destruct fam_rebuild_facts as (Hwk & TN & TE).
  destruct (rebuild_succeeds rl y' m' ltac:(lia) Hwk TN (or_introl TE)) as (ii2 & R2).
  exists ii2.
  destruct (Z.eq_dec y' y) as [->|Hne].
  - rewrite (rebuild_same_year rl y m0 m' ii Hr Hy TN). exact R2.
  - destruct (rebuild_slots rl y m0 ii Hy Hr) as (LY & EM).
    destruct (rebuild_char rl y m0 ii Hy Hr) as (_ & CN & _).
    rewrite rebuild_from_previous_year; [exact R2| |exact TN|apply CN; exact TN|right; apply EM; exact TE].
    rewrite LY. unfold opt_neqb. apply negb_true_iff. apply Z.eqb_neq. lia.
Qed.

Lemma fam_rebuild_init : exists ii0, rebuild rl ii_init (r_y r) (r_m r) = Ok ii0.
Proof.
  destruct fam_rebuild_facts as (Hwk & TN & TE).
  destruct (fam_basics r rl fr Hn HF) as (V & _).
  apply (rebuild_succeeds rl (r_y r) (r_m r) ltac:(unfold valid_ymd in V; lia) Hwk TN (or_introl TE)).
Qed.

End FamStop.

Theorem hourly_spec_prefix_of_iterate : forall r rl, normalize r = Ok rl -> sfam r HOURLY ->
  forall L d, exists limit n rest, fst (iterate rl limit n) = fst (spec_iter r L d) ++ rest.
Proof.
  intros r rl Hn HF. pose proof HF as [HW Hf _ Hsp _ _].
  destruct (fam_basics r rl HOURLY Hn HF) as (V & S1 & Nu & Hi & Hsod & VM & VS).
  apply (spec_prefix_of_iterate r rl S1 Nu ltac:(unfold is_coarse; rewrite Hf; reflexivity) Hi Hsod
           (Den r (IOKf rl))
           (fun k => negb (day_ok r (sp_ord0 r + (sp_H0 r + k * r_interval r) / 24)))).
  - intros s k HD. apply (hourly_pass r rl Hn HW Hf Hsp (IOKf rl) (iokf_range rl) (iokf_filter r rl HOURLY Hn HF) s k HD).
  - intros s k cnt out s' HD Ha.
    apply (hourly_next r rl Hn HW Hf Hsp (IOKf rl) (iokf_range rl) (iokf_filter r rl HOURLY Hn HF)
             (iokf_rebuild r rl HOURLY Hn HF) s k cnt out s' HD Ha).
  - intros s k (Hk & Hv & Ho & _). split; [exact Hk|].
    destruct (hourly_period_day_hour r k Hf VM VS) as [Pd _]. rewrite Pd, <- Ho.
    apply (ord_of_ymd_range _ _ _ Hv).
  - intros s0 Ei. apply (init_state_den r rl Hn HW Hf Hsp (IOKf rl) (iokf_range rl) (iokf_filter r rl HOURLY Hn HF)
             (iokf_rebuild r rl HOURLY Hn HF) (iokf_init r rl HOURLY HF) s0 Ei).
  - intros s k cnt out HD.
    apply (hourly_stop r rl Hn HW Hf Hsp (IOKf rl) (iokf_rebuild_ok r rl HOURLY Hn HF) s k cnt out HD).
  - apply (hourly_init_exists r rl Hn HW Hf Hsp (fam_rebuild_init r rl HOURLY Hn HF)).
Qed.

Theorem minutely_spec_prefix_of_iterate : forall r rl, normalize r = Ok rl -> sfam r MINUTELY ->
  forall L d, exists limit n rest, fst (iterate rl limit n) = fst (spec_iter r L d) ++ rest.
Proof.
  intros r rl Hn HF. pose proof HF as [HW Hf _ Hsp _ _].
  destruct (fam_basics r rl MINUTELY Hn HF) as (V & S1 & Nu & Hi & Hsod & VM & VS).
  apply (spec_prefix_of_iterate r rl S1 Nu ltac:(unfold is_coarse; rewrite Hf; reflexivity) Hi Hsod
           (DenM r (IOKf rl))
           (fun k => negb (day_ok r (sp_ord0 r + min_n r k / 1440)))).
  - intros s k HD. apply (minutely_pass r rl Hn HW Hf Hsp (IOKf rl) (iokf_range rl) (iokf_filter r rl MINUTELY Hn HF) s k HD).
  - intros s k cnt out s' HD Ha.
    apply (minutely_next r rl Hn HW Hf Hsp (IOKf rl) (iokf_range rl) (iokf_filter r rl MINUTELY Hn HF)
             (iokf_rebuild r rl MINUTELY Hn HF) s k cnt out s' HD Ha).
  - intros s k (Hk & Hv & Ho & _). split; [exact Hk|].
    destruct (minutely_period_parts r k Hf VS) as [Pd _]. cbv zeta in Pd. fold (min_n r k) in Pd. rewrite Pd, <- Ho.
    apply (ord_of_ymd_range _ _ _ Hv).
  - intros s0 Ei. apply (init_state_denM r rl Hn HW Hf Hsp (IOKf rl) (iokf_range rl) (iokf_filter r rl MINUTELY Hn HF)
             (iokf_rebuild r rl MINUTELY Hn HF) (iokf_init r rl MINUTELY HF) s0 Ei).
  - intros s k cnt out HD.
    apply (minutely_stop r rl Hn HW Hf Hsp (IOKf rl) (iokf_rebuild_ok r rl MINUTELY Hn HF) s k cnt out HD).
  - apply (minutely_init_exists r rl Hn HW Hf Hsp (fam_rebuild_init r rl MINUTELY Hn HF)).
Qed.

Theorem secondly_spec_prefix_of_iterate : forall r rl, normalize r = Ok rl -> sfam r SECONDLY ->
  forall L d, exists limit n rest, fst (iterate rl limit n) = fst (spec_iter r L d) ++ rest.
Proof.
  intros r rl Hn HF. pose proof HF as [HW Hf _ Hsp _ _].
  destruct (fam_basics r rl SECONDLY Hn HF) as (V & S1 & Nu & Hi & Hsod & VM & VS).
  apply (spec_prefix_of_iterate r rl S1 Nu ltac:(unfold is_coarse; rewrite Hf; reflexivity) Hi Hsod
           (DenS r (IOKf rl))
           (fun k => negb (day_ok r (sp_ord0 r + sec_n r k / 86400)))).
  - intros s k HD. apply (secondly_pass r rl Hn HW Hf Hsp (IOKf rl) (iokf_range rl) (iokf_filter r rl SECONDLY Hn HF) s k HD).
  - intros s k cnt out s' HD Ha.
    apply (secondly_next r rl Hn HW Hf Hsp (IOKf rl) (iokf_range rl) (iokf_filter r rl SECONDLY Hn HF)
             (iokf_rebuild r rl SECONDLY Hn HF) s k cnt out s' HD Ha).
  - intros s k (Hk & Hv & Ho & _). split; [exact Hk|].
    destruct (secondly_period_parts r k Hf) as [Pd _]. cbv zeta in Pd. fold (sec_n r k) in Pd. rewrite Pd, <- Ho.
    apply (ord_of_ymd_range _ _ _ Hv).
  - intros s0 Ei. apply (init_state_denS r rl Hn HW Hf Hsp (IOKf rl) (iokf_range rl) (iokf_filter r rl SECONDLY Hn HF)
             (iokf_rebuild r rl SECONDLY Hn HF) (iokf_init r rl SECONDLY HF) s0 Ei).
  - intros s k cnt out HD.
    apply (secondly_stop r rl Hn HW Hf Hsp (IOKf rl) (iokf_rebuild_ok r rl SECONDLY Hn HF) s k cnt out HD).
  - apply (secondly_init_exists r rl Hn HW Hf Hsp (fam_rebuild_init r rl SECONDLY Hn HF)).
Qed.

(* one statement for the three frequencies *)
Theorem subdaily_spec_prefix_of_iterate : forall r rl fr, normalize r = Ok rl -> sfam r fr ->
  fr = HOURLY \/ fr = MINUTELY \/ fr = SECONDLY ->
  forall L d, exists limit n rest, fst (iterate rl limit n) = fst (spec_iter r L d) ++ rest.
Proof.
  intros r rl fr Hn HF [->|[->| ->]];
    [apply hourly_spec_prefix_of_iterate|apply minutely_spec_prefix_of_iterate|apply secondly_spec_prefix_of_iterate];
    assumption.
Qed.

(* the two prefix theorems in one: position by position, the specification and the implementation
   model enumerate the same instants (each given enough room) *)
Lemma nth_error_app_some : forall (A : Type) (l rest : list A) i x,
  nth_error l i = Some x -> nth_error (l ++ rest) i = Some x.
Proof.
  intros A l rest i x H. rewrite nth_error_app1; [exact H|]. apply nth_error_Some. congruence.
Qed.

Theorem subdaily_iter_correct_family : forall r rl fr, normalize r = Ok rl -> sfam r fr ->
  fr = HOURLY \/ fr = MINUTELY \/ fr = SECONDLY ->
  forall i x,
    (exists limit n, nth_error (fst (iterate rl limit n)) i = Some x) <->
    (exists L d, nth_error (fst (spec_iter r L d)) i = Some x).
Proof.
  intros r rl fr Hn HF Hfr i x. split.
  - intros (limit & n & H).
    destruct (subdaily_prefix_of_spec r rl fr Hn HF Hfr limit n) as (L & d & rest & E).
    exists L, d. rewrite E. apply nth_error_app_some. exact H.
  - intros (L & d & H).
    destruct (subdaily_spec_prefix_of_iterate r rl fr Hn HF Hfr L d) as (limit & n & rest & E).
    exists limit, n. rewrite E. apply nth_error_app_some. exact H.
Qed.
