(* C01 -- rrule_strictly_increasing / rrule_nodup for the whole sub-daily family: whatever the
   implementation model yields for an HOURLY / MINUTELY / SECONDLY rule of `sfam_sa` (spec_wf,
   BYWEEKNO in the safe range, no BYEASTER; BYSETPOS and numeric BYDAY prefixes allowed), for any
   limit and fuel, is strictly increasing, in particular free of duplicates.
   Written by the rset builder (new file). *)
From Coq Require Import ZArith List Bool Lia.
From V Require Import base.Cal rr.RRBase rr.RRNorm rr.RRIter rr.RRSpec rr.RRSetposThm rr.RRSortedThm
  rr.RRSubSorted rr.RRSubSpAll.
Import ListNotations.
Open Scope Z_scope.

Lemma sfam_sa_sub : forall r fr, sfam_sa r fr -> fr = HOURLY \/ fr = MINUTELY \/ fr = SECONDLY ->
  is_coarse r = false.
Proof. intros r fr [_ Hf _ _] Hfr. unfold is_coarse. rewrite Hf. destruct Hfr as [->|[->| ->]]; reflexivity. Qed.

Theorem subdaily_all_strictly_increasing : forall r rl fr, normalize r = Ok rl -> sfam_sa r fr ->
  fr = HOURLY \/ fr = MINUTELY \/ fr = SECONDLY ->
  forall limit n, isorted (fst (iterate rl limit n)).
Proof.
  intros r rl fr HN F Hfr limit n.
  destruct (subdaily_all_prefix_of_spec r rl fr HN F Hfr limit n) as (L & d & rest & E).
  pose proof F as [HW _ _ _].
  pose proof (spec_iter_sorted_sub r HW (sfam_sa_sub r fr F Hfr) L d) as S. rewrite E in S.
  apply (isorted_prefix _ _ S).
Qed.

Theorem subdaily_all_nodup : forall r rl fr, normalize r = Ok rl -> sfam_sa r fr ->
  fr = HOURLY \/ fr = MINUTELY \/ fr = SECONDLY ->
  forall limit n, NoDup (fst (iterate rl limit n)).
Proof.
  intros r rl fr HN F Hfr limit n. apply isorted_NoDup.
  apply (subdaily_all_strictly_increasing r rl fr HN F Hfr limit n).
Qed.
