(* C01 layer 6, sub-daily: `advance_correct_minutely` -- the MINUTELY advance branch against the
   specification: from a cursor denoting period k it reaches the first period k' > k whose hour
   and minute are admissible, every skipped period has an empty candidate list in RRSpec, and it
   raises (ValueError / TypeError) only when NO later period has a candidate.
   Written by the rset builder (new file). *)
From Coq Require Import ZArith List Bool Lia ZifyBool Znumtheory.
From V Require Import base.Cal gen.RrTables easter.EasterSpec rr.RRBase rr.RRNorm rr.RRMasks rr.RRIter
  rr.RRSpec rr.RRSubdailyThm rr.RRAdvanceThm rr.RRSubNorm rr.RRSubHour rr.RRSubSpec rr.RRSubHourTop
  rr.RRSubLoop rr.RRSubMin.
Import ListNotations.
Open Scope Z_scope.

Definition ne_list (o : option (list Z)) : Prop := o <> Some [].

Lemma truthy_sort_set_ne : forall l, l <> [] -> truthy (Some (sort_set l)) = true.
Proof. exact truthy_sort_set. Qed.

(* minute count of period k since midnight of the start day *)
Definition min_n (r : raw) (k : Z) : Z := sp_H0 r * 60 + sp_M0 r + k * r_interval r.

Section Minutely.
Variables (r : raw) (rl : rule).
Hypothesis Hn : normalize r = Ok rl.
Hypothesis Hf : r_freq r = MINUTELY.
Hypothesis Hi : 1 <= r_interval r.
Hypothesis HM : 0 <= sp_M0 r <= 59.
Hypothesis Hne : ne_list (r_byhour r).

Local Notation n := (min_n r).

Lemma min_parts_of_period : forall k, (n k mod 1440) mod 60 = (sp_M0 r + k * r_interval r) mod 60.
Proof.
  intro k. rewrite <- Zmod_div_mod; [|lia|lia|exists 24; reflexivity].
  unfold min_n. replace (sp_H0 r * 60 + sp_M0 r + k * r_interval r)
    with (sp_M0 r + k * r_interval r + sp_H0 r * 60) by ring. apply Z_mod_plus_full.
Qed.

(* the model's admissibility test on the minute-of-day of period k = the specification's *)
Lemma min_adm_is_spec : forall k, 0 <= k ->
  let a := n k mod 1440 in
  min_adm rl a = in_opt (r_byhour r) (Z.eqb (a / 60)) && in_opt (r_byminute r) (Z.eqb (a mod 60)).
Proof.
  intros k Hk a.
  destruct (normalize_time_fields r rl Hn) as [_ [_ [_ [_ [_ [Bh [Bm _]]]]]]].
  unfold by_field in Bh, Bm. rewrite Hf in Bh, Bm.
  change (MINUTELY =? HOURLY) with false in Bh. change (MINUTELY <? HOURLY) with false in Bh.
  change (MINUTELY =? MINUTELY) with true in Bm. change (MINUTELY <? MINUTELY) with false in Bm.
  pose proof (Z.mod_pos_bound (n k) 1440 ltac:(lia)) as Ba. fold a in Ba.
  assert (Hh24 : (a / 60) mod 24 = a / 60).
  { apply Z.mod_small. split; [apply Z.div_pos; lia|apply Z.div_lt_upper_bound; lia]. }
  unfold min_adm. rewrite Hh24. rewrite andb_comm. f_equal.
  - destruct (r_byhour r) as [l|] eqn:El.
    + rewrite Bh. assert (l <> []) by (intro E; apply Hne; rewrite E; reflexivity).
      rewrite truthy_sort_set by assumption. cbn [negb orb opt_list in_opt].
      rewrite memZ_sort_set'. reflexivity.
    + rewrite Bh. reflexivity.
  - destruct (r_byminute r) as [l|] eqn:El.
    + destruct Bm as [c [Hc Ebm]]. destruct (construct_byset_ok _ _ _ _ _ Hc) as [_ Hcne].
      rewrite Ebm. rewrite truthy_sort_set by assumption. cbn [negb orb opt_list in_opt].
      apply (constructed_mem (r_interval r) (sp_M0 r) l 60 c (a mod 60) k); try lia; [exact Hc|].
      unfold a. apply min_parts_of_period.
    + rewrite Bm. reflexivity.
Qed.

Lemma min_bad_no_times : forall k, 0 <= k -> min_adm rl (n k mod 1440) = false ->
  period_times r ((n k mod 1440) * 60) = [].
Proof.
  intros k Hk Hbad. rewrite (min_adm_is_spec k Hk) in Hbad. cbv zeta in Hbad.
  pose proof (Z.mod_pos_bound (n k) 1440 ltac:(lia)) as Ba.
  apply (period_times_minutely_out r _ Hf Ba).
  apply andb_false_iff in Hbad. destruct Hbad as [Hb|Hb].
  - right. destruct (r_byhour r) as [l|]; [|discriminate]. exists l. split; [reflexivity|exact Hb].
  - left. destruct (r_byminute r) as [l|]; [|discriminate]. exists l. split; [reflexivity|exact Hb].
Qed.

(* a skipped period (in the sense of RRSubMin) has no candidates in the specification *)
Lemma skipped_min_no_cands : forall k filtered i, 0 <= k -> 1 <= i -> 0 <= sp_S0 r <= 59 ->
  (filtered = true -> day_ok r (sp_ord0 r + n k / 1440) = false) ->
  skipped_min rl filtered (n k mod 1440) i -> period_cands r (k + i) = [].
Proof.
  intros k filtered i Hk Hi' HS Hfilt Hsk.
  destruct (normalize_time_fields r rl Hn) as [_ [Eitv _]].
  destruct (minutely_period_parts r (k + i) Hf HS) as [Pd Pm]. cbv zeta in Pd, Pm.
  fold (n (k + i)) in Pd, Pm.
  assert (Enk : n (k + i) = n k + i * r_interval r) by (unfold min_n; ring).
  pose proof (Z.div_mod (n k) 1440 ltac:(lia)) as D. pose proof (Z.mod_pos_bound (n k) 1440 ltac:(lia)) as B.
  unfold skipped_min in Hsk. rewrite Eitv in Hsk. destruct Hsk as [[Efl Hle]|Hbad].
  - apply period_cands_bad_day. rewrite Pd, Enk.
    replace ((n k + i * r_interval r) / 1440) with (n k / 1440); [apply Hfilt; exact Efl|].
    apply (Z.div_unique _ 1440 _ (n k mod 1440 + i * r_interval r)); [nia|lia].
  - apply period_cands_no_times. rewrite Pm. apply min_bad_no_times; [lia|].
    rewrite <- Hbad. apply min_adm_congr. rewrite Enk. rewrite Z.mod_mod by lia.
    symmetry. apply Zplus_mod_idemp_l.
Qed.

Theorem advance_correct_minutely : forall k filtered day, 0 <= k -> 0 <= sp_S0 r <= 59 ->
  let od := sp_ord0 r + n k / 1440 in
  let hour := (n k mod 1440) / 60 in
  let minute := (n k mod 1440) mod 60 in
  (filtered = true -> day_ok r od = false) ->
  match minutely_core rl filtered hour minute day with
  | Ok (mi', hh', dd', fx') =>
      exists k', k < k' /\
        od + (dd' - day) = sp_ord0 r + n k' / 1440 /\ hh' * 60 + mi' = n k' mod 1440 /\
        0 <= mi' < 60 /\ 0 <= hh' < 24 /\ day <= dd' /\ (fx' = false -> dd' = day) /\
        in_opt (r_byhour r) (Z.eqb hh') = true /\ in_opt (r_byminute r) (Z.eqb mi') = true /\
        forall j, k < j < k' -> period_cands r j = []
  | Err e => (e = EValue \/ e = EType) /\ forall j, k < j -> period_cands r j = []
  end.
Proof.
  intros k filtered day Hk HS od hour minute Hfilt.
  destruct (normalize_time_fields r rl Hn) as [_ [Eitv _]].
  pose proof (Z.mod_pos_bound (n k) 1440 ltac:(lia)) as Ba.
  pose proof (Z.div_mod (n k mod 1440) 60 ltac:(lia)) as Da.
  pose proof (Z.mod_pos_bound (n k mod 1440) 60 ltac:(lia)) as Bm.
  assert (Bh : 0 <= hour < 24).
  { unfold hour. split; [apply Z.div_pos; lia|apply Z.div_lt_upper_bound; lia]. }
  assert (EA : hour * 60 + minute = n k mod 1440) by (unfold hour, minute; lia).
  pose proof (minutely_core_spec rl filtered hour minute day ltac:(lia) Bh Bm) as S. cbv zeta in S.
  rewrite EA in S.
  destruct (minutely_core rl filtered hour minute day) as [[[[mi' hh'] dd'] fx']|e].
  - destruct S as (j & Hj & Eq & Rm & Rh & Rd & Rf & Adm & _ & Skip). rewrite Eitv in Eq, Adm.
    exists (k + j). split; [lia|].
    pose proof (Z.div_mod (n k) 1440 ltac:(lia)) as D.
    assert (Enk : n (k + j) = (n k / 1440 + (dd' - day)) * 1440 + (hh' * 60 + mi')) by (unfold min_n in *; lia).
    assert (Hq : n (k + j) / 1440 = n k / 1440 + (dd' - day))
      by (symmetry; apply (Z.div_unique _ 1440 _ (hh' * 60 + mi')); lia).
    assert (Hmod : n (k + j) mod 1440 = hh' * 60 + mi')
      by (symmetry; apply (Z.mod_unique _ 1440 (n k / 1440 + (dd' - day)) (hh' * 60 + mi')); lia).
    split; [rewrite Hq; unfold od; ring|]. split; [symmetry; exact Hmod|].
    split; [lia|]. split; [lia|]. split; [lia|]. split; [exact Rf|].
    assert (Hadm : min_adm rl (n (k + j) mod 1440) = true).
    { rewrite <- Adm. apply min_adm_congr. rewrite Z.mod_mod by lia.
      replace (n (k + j)) with (n k + j * r_interval r) by (unfold min_n; ring).
      symmetry. apply Zplus_mod_idemp_l. }
    rewrite (min_adm_is_spec (k + j) ltac:(lia)) in Hadm. cbv zeta in Hadm. rewrite Hmod in Hadm.
    replace ((hh' * 60 + mi') / 60) with hh' in Hadm by (apply (Z.div_unique _ 60 _ mi'); lia).
    replace ((hh' * 60 + mi') mod 60) with mi' in Hadm by (apply (Z.mod_unique _ 60 hh' mi'); lia).
    apply andb_true_iff in Hadm. destruct Hadm as [A1 A2]. split; [exact A1|]. split; [exact A2|].
    intros j' Hj'. replace j' with (k + (j' - k)) by ring.
    apply (skipped_min_no_cands k filtered (j' - k) Hk ltac:(lia) HS Hfilt). apply Skip. lia.
  - destruct S as [He Skip]. split; [exact He|].
    intros j' Hj'. replace j' with (k + (j' - k)) by ring.
    apply (skipped_min_no_cands k filtered (j' - k) Hk ltac:(lia) HS Hfilt). apply Skip. lia.
Qed.

End Minutely.
