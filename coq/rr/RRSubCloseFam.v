(* C01 layer 7, sub-daily families, closing statement: for HOURLY / MINUTELY / SECONDLY rules of
   the family `sfam` (spec_wf, no BYSETPOS, no nth weekday, BYWEEKNO in the safe range, no
   BYEASTER), whatever `iterate` has yielded -- for any fuel, any limit, whatever stopped it --
   is a prefix of what the specification RRSpec.spec_iter yields when given enough days and a
   limit that is not reached: soundness and order of everything the implementation model
   produces.  (The equation `fst (iterate ..) = fst (spec_iter ..)` for equal fuel and limit is
   false for sub-daily rules, see notes/rset.md; the converse inclusion -- progress -- is open.)
   Written by the rset builder (new file). *)
From Coq Require Import ZArith List Bool Lia ZifyBool.
From V Require Import base.Cal gen.RrTables easter.EasterSpec rr.RRBase rr.RRNorm rr.RRMasks rr.RRIter
  rr.RRSpec rr.RRGateThm rr.RRTimesetThm rr.RRSubNorm rr.RRSubSpec rr.RRSubTimes rr.RRSubMinTop rr.RRSubSecTop
  rr.RRSubHourRun rr.RRSubMinRun rr.RRSubSecRun rr.RRSubFamily rr.RRSubClose rr.RRSubCloseGen.
Import ListNotations.
Open Scope Z_scope.

Section Fam.
Variables (r : raw) (rl : rule) (fr : Z).
Hypothesis Hn : normalize r = Ok rl.
Hypothesis HF : sfam r fr.

Lemma fam_basics : valid_ymd (r_y r) (r_m r) (r_d r) = true /\
  dtstart_inst rl = sp_start r /\ until rl = r_until r /\ 1 <= r_interval r /\ 0 <= sp_sod0 r <= 86399 /\
  0 <= sp_M0 r <= 59 /\ 0 <= sp_S0 r <= 59.
Proof.
  destruct HF as [HW _ _ _ _ _].
  assert (V : valid_ymd (r_y r) (r_m r) (r_d r) = true).
  { pose proof HW as W. unfold spec_wf in W.
    repeat match type of W with _ && _ = true =>
      let H := fresh "W" in apply andb_true_iff in W; destruct W as [W H] end. assumption. }
  destruct (normalize_start_until r rl Hn V) as (S1 & Nu & _).
  destruct (spec_wf_times r HW) as (VH & VM & VS & _ & _ & _ & _ & _ & _ & Hi).
  repeat split; try assumption; unfold sp_sod0; lia.
Qed.

End Fam.

Theorem hourly_prefix_of_spec : forall r rl, normalize r = Ok rl -> sfam r HOURLY ->
  forall limit n, exists L d rest, fst (spec_iter r L d) = fst (iterate rl limit n) ++ rest.
Proof.
  intros r rl Hn HF. pose proof HF as [HW Hf _ Hsp _ _].
  destruct (fam_basics r rl HOURLY Hn HF) as (V & S1 & Nu & Hi & Hsod & VM & VS).
  apply (iterate_prefix_of_spec r rl S1 Nu ltac:(unfold is_coarse; rewrite Hf; reflexivity) Hi Hsod Hsp
           (Den r (IOKf rl))
           (fun k => negb (day_ok r (sp_ord0 r + (sp_H0 r + k * r_interval r) / 24)))).
  - intros s k HD. apply (hourly_pass r rl Hn HW Hf Hsp (IOKf rl) (iokf_range rl) (iokf_filter r rl HOURLY Hn HF) s k HD).
  - intros s k cnt out s' HD Ha.
    apply (hourly_next r rl Hn HW Hf Hsp (IOKf rl) (iokf_range rl) (iokf_filter r rl HOURLY Hn HF)
             (iokf_rebuild r rl HOURLY Hn HF) s k cnt out s' HD Ha).
  - intros s k (Hk & Hv & Ho & _). split; [exact Hk|].
    destruct (hourly_period_day_hour r k Hf VM VS) as [Pd _]. rewrite Pd, <- Ho.
    apply (ord_of_ymd_range _ _ _ Hv).
  - intros s0 Ei. apply (init_state_den r rl Hn HW Hf Hsp (IOKf rl) (iokf_range rl) (iokf_filter r rl HOURLY Hn HF)
             (iokf_rebuild r rl HOURLY Hn HF) (iokf_init r rl HOURLY HF) s0 Ei).
Qed.

Theorem minutely_prefix_of_spec : forall r rl, normalize r = Ok rl -> sfam r MINUTELY ->
  forall limit n, exists L d rest, fst (spec_iter r L d) = fst (iterate rl limit n) ++ rest.
Proof.
  intros r rl Hn HF. pose proof HF as [HW Hf _ Hsp _ _].
  destruct (fam_basics r rl MINUTELY Hn HF) as (V & S1 & Nu & Hi & Hsod & VM & VS).
  apply (iterate_prefix_of_spec r rl S1 Nu ltac:(unfold is_coarse; rewrite Hf; reflexivity) Hi Hsod Hsp
           (DenM r (IOKf rl))
           (fun k => negb (day_ok r (sp_ord0 r + min_n r k / 1440)))).
  - intros s k HD. apply (minutely_pass r rl Hn HW Hf Hsp (IOKf rl) (iokf_range rl) (iokf_filter r rl MINUTELY Hn HF) s k HD).
  - intros s k cnt out s' HD Ha.
    apply (minutely_next r rl Hn HW Hf Hsp (IOKf rl) (iokf_range rl) (iokf_filter r rl MINUTELY Hn HF)
             (iokf_rebuild r rl MINUTELY Hn HF) s k cnt out s' HD Ha).
  - intros s k (Hk & Hv & Ho & _). split; [exact Hk|].
    destruct (minutely_period_parts r k Hf VS) as [Pd _]. cbv zeta in Pd. fold (min_n r k) in Pd. rewrite Pd, <- Ho.
    apply (ord_of_ymd_range _ _ _ Hv).
  - intros s0 Ei. apply (init_state_denM r rl Hn HW Hf Hsp (IOKf rl) (iokf_range rl) (iokf_filter r rl MINUTELY Hn HF)
             (iokf_rebuild r rl MINUTELY Hn HF) (iokf_init r rl MINUTELY HF) s0 Ei).
Qed.

Theorem secondly_prefix_of_spec : forall r rl, normalize r = Ok rl -> sfam r SECONDLY ->
  forall limit n, exists L d rest, fst (spec_iter r L d) = fst (iterate rl limit n) ++ rest.
Proof.
  intros r rl Hn HF. pose proof HF as [HW Hf _ Hsp _ _].
  destruct (fam_basics r rl SECONDLY Hn HF) as (V & S1 & Nu & Hi & Hsod & VM & VS).
  apply (iterate_prefix_of_spec r rl S1 Nu ltac:(unfold is_coarse; rewrite Hf; reflexivity) Hi Hsod Hsp
           (DenS r (IOKf rl))
           (fun k => negb (day_ok r (sp_ord0 r + sec_n r k / 86400)))).
  - intros s k HD. apply (secondly_pass r rl Hn HW Hf Hsp (IOKf rl) (iokf_range rl) (iokf_filter r rl SECONDLY Hn HF) s k HD).
  - intros s k cnt out s' HD Ha.
    apply (secondly_next r rl Hn HW Hf Hsp (IOKf rl) (iokf_range rl) (iokf_filter r rl SECONDLY Hn HF)
             (iokf_rebuild r rl SECONDLY Hn HF) s k cnt out s' HD Ha).
  - intros s k (Hk & Hv & Ho & _). split; [exact Hk|].
    destruct (secondly_period_parts r k Hf) as [Pd _]. cbv zeta in Pd. fold (sec_n r k) in Pd. rewrite Pd, <- Ho.
    apply (ord_of_ymd_range _ _ _ Hv).
  - intros s0 Ei. apply (init_state_denS r rl Hn HW Hf Hsp (IOKf rl) (iokf_range rl) (iokf_filter r rl SECONDLY Hn HF)
             (iokf_rebuild r rl SECONDLY Hn HF) (iokf_init r rl SECONDLY HF) s0 Ei).
Qed.

(* one statement for the three frequencies *)
Theorem subdaily_prefix_of_spec : forall r rl fr, normalize r = Ok rl -> sfam r fr ->
  fr = HOURLY \/ fr = MINUTELY \/ fr = SECONDLY ->
  forall limit n, exists L d rest, fst (spec_iter r L d) = fst (iterate rl limit n) ++ rest.
Proof.
  intros r rl fr Hn HF [->|[->| ->]];
    [apply hourly_prefix_of_spec|apply minutely_prefix_of_spec|apply secondly_prefix_of_spec]; assumption.
Qed.

(* non-vacuity: rrule(HOURLY, dtstart=datetime(2023,12,31,17,0), interval=4, byhour=(1,5,9),
   byweekday=(MO,), count=4): BYHOUR reachable only through 1, 5, 9 (gcd 4), the day filter rejects
   Sunday 2023-12-31 (filtered jump), the run crosses the year end *)
Definition raw_hourly_example : raw :=
  mkRaw HOURLY false 2023 12 31 17 0 0 4 0 (Some 4) None false
        None None None None None None (Some [(0, 0)]) (Some [1; 5; 9]) None None.
Example hourly_example :
  sfam raw_hourly_example HOURLY /\
  match normalize raw_hourly_example with
  | Ok rl => fst (iterate rl 100 40) =
             [(ord_of_ymd 2024 1 1, 3600); (ord_of_ymd 2024 1 1, 18000); (ord_of_ymd 2024 1 1, 32400);
              (ord_of_ymd 2024 1 8, 3600)] /\
             fst (spec_iter raw_hourly_example 100 12) = fst (iterate rl 100 40)
  | Err _ => False
  end.
Proof. split; [constructor; reflexivity|vm_compute; split; reflexivity]. Qed.

(* rrule(MINUTELY, dtstart=datetime(2024,2,28,23,50), interval=25, byhour=(0,23), count=3) *)
Definition raw_minutely_example : raw :=
  mkRaw MINUTELY false 2024 2 28 23 50 0 25 0 (Some 3) None false
        None None None None None None None (Some [0; 23]) None None.
Example minutely_example :
  sfam raw_minutely_example MINUTELY /\
  match normalize raw_minutely_example with
  | Ok rl => fst (iterate rl 100 40) =
             [(ord_of_ymd 2024 2 28, 85800); (ord_of_ymd 2024 2 29, 900); (ord_of_ymd 2024 2 29, 2400)]
  | Err _ => False
  end.
Proof. split; [constructor; reflexivity|vm_compute; reflexivity]. Qed.
