(* C01 layer 7 for one family -- rrule_iter_correct, YEARLY, unbounded prefix:
   for every YEARLY rule without BYSETPOS / COUNT / UNTIL whose day-selecting parts are BYMONTH,
   BYMONTHDAY, BYYEARDAY, plain BYDAY, BYWEEKNO within the guard of F-C01-weekno, and no BYEASTER, with
   a start year >= 2: for every number of passes n that stays below year 9999 and every limit, the
   model of the generator and the specification yield the SAME instants in the same order.
   By induction over the passes, from yearly_pass_is_spec_step. *)
From Coq Require Import ZArith List Bool Lia ZifyBool.
From V Require Import base.Cal gen.RrTables rr.RRBase rr.RRNorm rr.RRMasks rr.RRIter rr.RRSpec
  rr.RRWeekCal rr.RRWeekFinal rr.RRFilterThm rr.RRFilterSpec rr.RRGateThm rr.RRTimesetThm rr.RRPassThm.
Import ListNotations.
Open Scope Z_scope.

(* ---- small facts *)
Lemma rebuild_slots rl y month ii' : 1 <= y <= 9999 -> rebuild rl ii_init y month = Ok ii' ->
  lastyear ii' = Some y /\
  (truthy (byeaster rl) = false -> eastermask ii' = None).
Proof.
  intros Hy. unfold rebuild.
  change (lastyear ii_init) with (@None Z). change (opt_neqb None y) with true. cbv iota.
  destruct (date_ord y 1 1) as [yo|e]; cbn [bind]; [|discriminate].
  destruct (if 365 + (if is_leap y then 1 else 0) =? 365 then _ else _) as [[[mm mdm] nmdm] mr].
  destruct (if negb (truthy (byweekno rl)) then _ else _) as [wno|e]; cbn [bind]; [|discriminate].
  match goal with |- bind ?r _ = _ -> _ => destruct r as [[nwd month']|e]; cbn [bind]; [|discriminate] end.
  destruct (truthy (byeaster rl)) eqn:TE.
  - match goal with |- bind ?r _ = _ -> _ => destruct r as [em|e]; cbn [bind]; [|discriminate] end.
    intros E. inversion E; subst. cbn. split; [reflexivity|discriminate].
  - cbn [bind]. intros E. inversion E; subst. cbn. split; reflexivity.
Qed.

Section NoStop.
Variables (rl : rule) (r : raw).
Hypothesis Hu : until rl = None.

Lemma gate_list_nostop xs : forall out,
  exists out', gate_list rl xs None out = (out', None, None).
Proof.
  induction xs as [|x t IH]; intros out; cbn [gate_list]; [eexists; reflexivity|].
  unfold gate_one, after_until. rewrite Hu.
  destruct (inst_le (dtstart_inst rl) x); apply IH.
Qed.

Hypothesis Hu' : r_until r = None.
Lemma sp_take_nostop xs : forall acc,
  exists acc', sp_take r xs None acc = (acc', None, false).
Proof.
  induction xs as [|x t IH]; intros acc; cbn [sp_take]; [eexists; reflexivity|].
  unfold sp_after_until. rewrite Hu'. apply IH.
Qed.
End NoStop.

Lemma normalize_misc r rl : normalize r = Ok rl ->
  interval rl = r_interval r /\ bysetpos rl = r_bysetpos r /\ s_y rl = r_y r /\ s_m rl = r_m r /\
  s_d rl = r_d r /\ count rl = r_count r /\ until rl = r_until r.
Proof.
  unfold normalize.
  destruct (if r_isdate r then (0, 0, 0) else (r_H r, r_M r, r_S r)) as [[hh mm] ss].
  destruct (negb (is_none (r_until r)) && r_tzmix r); [discriminate|].
  destruct (negb match r_bysetpos r with None => true | Some l => setpos_ok l end); [discriminate|].
  match goal with |- (let '(_, _) := ?p in _) = _ -> _ => destruct p end.
  intros H.
  repeat match type of H with
  | bind ?x _ = _ => destruct x; cbn [bind] in H; [|discriminate H]
  end.
  inversion H; subst; cbn; repeat split; reflexivity.
Qed.

Lemma plain_only_no_nth r rl : normalize r = Ok rl -> plain_only r = true ->
  truthy (bynweekday rl) = false.
Proof.
  intros HN Hp. destruct (normalize_fields r rl HN) as (_ & _ & _ & _ & _ & _ & Nwd).
  unfold wd_split in Nwd. unfold plain_only in Hp.
  assert (Pl : forallb (fun wn : Z * Z => snd wn =? 0) (opt_list (eff_byweekday r)) = true).
  { unfold eff_byweekday. destruct (r_byweekday r); [exact Hp|].
    destruct (no_day_part r && (r_freq r =? WEEKLY)); reflexivity. }
  destruct (eff_byweekday r) as [l|]; [|injection Nwd as _ Q; rewrite Q; reflexivity].
  cbn [opt_list] in Pl. rewrite (split_plain _ l Pl) in Nwd.
  destruct (negb (nonempty (sort_set (map fst l)))); cbn [sort_set_pair fold_right nonempty negb] in Nwd;
    injection Nwd as _ Q; rewrite Q; reflexivity.
Qed.

(* the family *)
Record yfam (r : raw) : Prop := mk_yfam {
  y_wf : spec_wf r = true;
  y_freq : r_freq r = YEARLY;
  y_plain : plain_only r = true;
  y_setpos : r_bysetpos r = None;
  y_weekno : all_opt (r_byweekno r) weekno_safe = true;
  y_easter : r_byeaster r = None;
  y_until : r_until r = None;
  y_count : r_count r = None
}.

(* a pass, with everything the induction needs *)
Lemma yearly_pass_full : forall r rl k month ii ts out,
  normalize r = Ok rl -> yfam r ->
  let y := r_y r + k * r_interval r in
  1 <= y <= 9999 -> rebuild rl ii_init y month = Ok ii -> timeset rl = Some ts ->
  exists ds ds' f out',
    getdayset rl ii y month 1 = Ok (ds, 0, year_len y) /\
    filter_loop rl ii (py_slice ds 0 (year_len y)) ds false = Ok (ds', f) /\
    out_days rl (yearordinal ii) (py_slice ds' 0 (year_len y)) ts None out = (out', None, None) /\
    sp_take r (step_items r k) None out = (out', None, false).
Proof.
  intros r rl k month ii ts out HN [HW Hfr Hp Hsp Hs He Hu Hc] y Hy HR HT.
  destruct (normalize_misc r rl HN) as (_ & _ & _ & _ & _ & _ & Nu).
  destruct (yearly_pass_candidates r rl y month ii ts None out HN HW Hfr Hp Hs (or_introl He) Hy HR)
    as (ds & ds' & f & E1 & E2 & E3).
  destruct (yearly_pass_is_spec_step r rl k month ii ts None out HN HW Hfr Hp Hsp Hs (or_introl He) Hy HR HT)
    as (ds0 & ds0' & f0 & F1 & F2 & F3).
  fold y in F1, F2, F3. rewrite E1 in F1. injection F1 as <-. rewrite E2 in F2. injection F2 as <- <-.
  rewrite E3 in F3.
  assert (Hu2 : until rl = None) by (rewrite Nu; exact Hu).
  match type of E3 with _ = gate_list _ ?L _ _ =>
    destruct (gate_list_nostop rl Hu2 L out) as (o1 & G1) end.
  destruct (sp_take_nostop r Hu (step_items r k) out) as (a1 & S1).
  rewrite G1 in E3, F3. rewrite S1 in F3. cbn [fst] in F3. subst a1.
  exists ds, ds', f, o1. repeat split; assumption.
Qed.

(* the state of the model at the beginning of pass k *)
Definition at_pass (r : raw) (rl : rule) (ts : list Z) (k : Z) (s : state) : Prop :=
  c_year s = r_y r + k * r_interval r /\ c_month s = r_m r /\
  rebuild rl ii_init (c_year s) (c_month s) = Ok (c_ii s) /\
  c_timeset s = ts /\ c_count s = None.

Lemma yearly_step : forall r rl ts k s,
  normalize r = Ok rl -> yfam r -> timeset rl = Some ts -> at_pass r rl ts k s ->
  1 <= r_y r + k * r_interval r -> r_y r + (k + 1) * r_interval r <= 9999 ->
  exists s' acc',
    step rl s = inl s' /\ at_pass r rl ts (k + 1) s' /\
    sp_take r (step_items r k) None (c_out s) = (acc', None, false) /\ c_out s' = acc'.
Proof.
  intros r rl ts k s HN Y HT (Ay & Am & Ar & At & Ac) Hlo Hhi.
  pose proof Y as [HW Hfr Hp Hsp Hs He Hu Hc].
  destruct (normalize_misc r rl HN) as (Ni & Nsp & _ & _ & _ & _ & _).
  pose proof (normalize_freq r rl HN) as Nfr. rewrite Hfr in Nfr.
  pose proof (normalize_wkst r rl HN) as Nwk.
  pose proof (plain_only_no_nth r rl HN Hp) as TN.
  destruct (normalize_fields r rl HN) as (_ & _ & _ & _ & _ & Nea & _).
  assert (TE : truthy (byeaster rl) = false) by (rewrite Nea, He; reflexivity).
  assert (Hitv : 1 <= r_interval r /\ 0 <= r_wkst r <= 6).
  { unfold spec_wf in HW.
    repeat match type of HW with _ && _ = true =>
      let H := fresh "W" in apply andb_true_iff in HW; destruct HW as [HW H] end.
    unfold between in *. lia. }
  destruct Hitv as [Hitv Hwk].
  set (y := r_y r + k * r_interval r) in *.
  assert (Hy : 1 <= y <= 9999) by nia.
  rewrite Ay, Am in Ar.
  destruct (yearly_pass_full r rl k (r_m r) (c_ii s) ts (c_out s) HN Y Hy Ar HT)
    as (ds & ds' & f & out' & E1 & E2 & E3 & E4).
  fold y in E1, E2, E3.
  (* the next iterinfo *)
  set (y2 := y + interval rl).
  assert (Hy2 : 1 <= y2 <= 9999).
  { unfold y2. rewrite Ni. replace (r_y r + (k + 1) * r_interval r) with (y + r_interval r) in Hhi by (unfold y; ring). lia. }
  destruct (rebuild_succeeds rl y2 (r_m r) Hy2 ltac:(rewrite Nwk; exact Hwk) TN (or_introl TE)) as (ii2 & R2).
  destruct (rebuild_slots rl y (r_m r) (c_ii s) ltac:(lia) Ar) as (LY & EM).
  destruct (rebuild_char rl y (r_m r) (c_ii s) ltac:(lia) Ar) as (_ & CN & _).
  assert (R2' : rebuild rl (c_ii s) y2 (r_m r) = Ok ii2).
  { rewrite rebuild_from_previous_year; [exact R2| | exact TN | apply CN; exact TN | right; apply EM; exact TE].
    rewrite LY. unfold opt_neqb, y2. rewrite Ni. apply negb_true_iff. apply Z.eqb_neq. lia. }
  exists (mkSt y2 (r_m r) (c_day s) (c_hour s) (c_minute s) (c_second s) (c_weekday s) ii2 ts None out'), out'.
  split; [|split; [|split; [exact E4|reflexivity]]].
  - (* one pass of `while True:` *)
    unfold step. rewrite Ay, Am.
    assert (G : getdayset rl (c_ii s) y (r_m r) (c_day s) = Ok (ds, 0, year_len y)).
    { revert E1. unfold getdayset. rewrite Nfr. change (YEARLY =? YEARLY) with true. cbv iota. auto. }
    rewrite G. cbn [bind]. rewrite E2. cbn [bind fst snd].
    rewrite Nsp, Hsp. cbn [truthy andb]. rewrite At, Ac. rewrite E3.
    (* advance *)
    unfold advance. rewrite Nfr. change (YEARLY =? YEARLY) with true. cbv iota. rewrite Ay, Am.
    fold y2. unfold T_MAXYEAR. replace (9999 <? y2) with false by lia.
    rewrite R2'. cbn [bind]. unfold finish_advance. cbn [andb]. rewrite At. reflexivity.
  - (* the invariant for pass k + 1 *)
    unfold at_pass. cbn [c_year c_month c_ii c_timeset c_count].
    repeat split; try reflexivity; [|exact R2].
    unfold y2, y. rewrite Ni. ring.
Qed.

Lemma step_lo_yearly r k : r_freq r = YEARLY -> step_lo r k = jan1 (r_y r + k * r_interval r).
Proof.
  intros Hf. unfold step_lo, is_coarse, period_days. rewrite Hf.
  change (YEARLY <=? DAILY) with true. change (YEARLY =? YEARLY) with true. reflexivity.
Qed.

(* the induction over passes *)
Lemma yearly_run_is_spec : forall r rl ts limit n k s,
  normalize r = Ok rl -> yfam r -> timeset rl = Some ts -> at_pass r rl ts k s -> 0 <= k ->
  1 <= r_y r -> r_y r + (k + Z.of_nat n) * r_interval r <= 9999 ->
  fst (run rl limit n s) = fst (spec_loop r limit n k None (c_out s)).
Proof.
  intros r rl ts limit n. induction n as [|n IH]; intros k s HN Y HT A Hk Hlo Hhi; cbn [run spec_loop].
  - reflexivity.
  - destruct (limit <=? zlen (c_out s)); [reflexivity|].
    pose proof Y as [HW Hfr Hp Hsp Hs He Hu Hc].
    assert (Hitv : 1 <= r_interval r).
    { unfold spec_wf in HW.
      repeat match type of HW with _ && _ = true =>
        let H := fresh "W" in apply andb_true_iff in HW; destruct HW as [HW H] end. lia. }
    assert (Hyk : 1 <= r_y r + k * r_interval r) by nia.
    assert (Hyk1 : r_y r + (k + 1) * r_interval r <= 9999) by nia.
    destruct (yearly_step r rl ts k s HN Y HT A Hyk Hyk1) as (s' & acc' & ES & A' & ET & EO).
    rewrite ES.
    (* the specification's side of the step *)
    rewrite (step_lo_yearly r k Hfr).
    assert (B : jan1 (r_y r + k * r_interval r) <= max_ord).
    { rewrite jan1_eq.
      assert (days_before_year (r_y r + k * r_interval r) + 1 <= days_before_year (r_y r + k * r_interval r + 1))
        by (rewrite days_before_year_succ; unfold year_len; destruct (is_leap _); lia).
      assert (days_before_year (r_y r + k * r_interval r + 1) <= days_before_year 10000)
        by (apply days_before_year_mono; nia).
      change (days_before_year 10000) with 3652059 in *. unfold max_ord. lia. }
    replace (max_ord <? jan1 (r_y r + k * r_interval r)) with false by lia.
    unfold sp_after_until at 1. rewrite Hu. rewrite ET.
    rewrite <- EO. apply IH; try assumption; [lia|].
    replace (k + 1 + Z.of_nat n) with (k + Z.of_nat (S n)) by lia. exact Hhi.
Qed.

(* rrule_iter_correct for the family: same instants, same order, for every number of passes that
   stays within year 9999 and every limit *)
Theorem yearly_iter_correct : forall r rl limit n,
  normalize r = Ok rl -> yfam r -> 1 <= r_y r -> r_y r + Z.of_nat n * r_interval r <= 9999 ->
  fst (iterate rl limit n) = fst (spec_iter r limit n).
Proof.
  intros r rl limit n HN Y Hlo Hhi.
  pose proof Y as [HW Hfr Hp Hsp Hs He Hu Hc].
  destruct (normalize_misc r rl HN) as (Ni & Nsp & Ny & Nm & Nd & Nc & Nu).
  pose proof (normalize_freq r rl HN) as Nfr. rewrite Hfr in Nfr.
  pose proof (normalize_wkst r rl HN) as Nwk.
  pose proof (plain_only_no_nth r rl HN Hp) as TN.
  destruct (normalize_fields r rl HN) as (_ & _ & _ & _ & _ & Nea & _).
  assert (TE : truthy (byeaster rl) = false) by (rewrite Nea, He; reflexivity).
  assert (Hwf : 1 <= r_interval r /\ 0 <= r_wkst r <= 6).
  { unfold spec_wf in HW.
    repeat match type of HW with _ && _ = true =>
      let H := fresh "W" in apply andb_true_iff in HW; destruct HW as [HW H] end.
    unfold between in *. lia. }
  destruct Hwf as [Hitv Hwk].
  assert (Hy0 : 1 <= r_y r <= 9999) by nia.
  destruct (rebuild_succeeds rl (r_y r) (r_m r) Hy0 ltac:(rewrite Nwk; exact Hwk) TN (or_introl TE)) as (ii0 & R0).
  pose proof (timeset_is_spec r rl HN HW ltac:(rewrite Hfr; reflexivity)) as HT.
  unfold iterate, init_state. rewrite Nfr. change (YEARLY =? WEEKLY) with false. cbn [andb]. cbv iota.
  rewrite Ny, Nm, Nd, R0. cbn [bind].
  change (YEARLY <? HOURLY) with true. cbv iota. rewrite HT. cbn [bind]. rewrite Nc, Hc.
  unfold spec_iter. rewrite Hc.
  set (s0 := mkSt _ _ _ _ _ _ _ _ _ _ _).
  assert (A0 : at_pass r rl (period_times r 0) 0 s0).
  { unfold at_pass, s0. cbn [c_year c_month c_ii c_timeset c_count]. repeat split; try reflexivity; [ring|exact R0]. }
  pose proof (yearly_run_is_spec r rl (period_times r 0) limit n 0 s0 HN Y HT A0 ltac:(lia) Hlo
                ltac:(replace (0 + Z.of_nat n) with (Z.of_nat n) by lia; exact Hhi)) as Q.
  change (c_out s0) with (@nil instant) in Q.
  destruct (run rl limit n s0) as [out t]. destruct (spec_loop r limit n 0 None []) as [acc t'].
  cbn [fst] in *. rewrite Q. reflexivity.
Qed.

(* non-vacuity: rrule(YEARLY, dtstart=datetime(1997,9,2,9,0), bymonthday=(2,-1), byweekno=(36,-17)) *)
Definition raw_yearly_example : raw :=
  mkRaw YEARLY false 1997 9 2 9 0 0 1 0 None None false
        None None (Some [2; -1]) None None (Some [36; -17]) None None None None.

Example yearly_example :
  yfam raw_yearly_example /\
  match normalize raw_yearly_example with
  | Ok rl => fst (iterate rl 3 5) = [(ord_of_ymd 1997 9 2, 32400); (ord_of_ymd 1998 8 31, 32400);
                                     (ord_of_ymd 1998 9 2, 32400)]
  | Err _ => False
  end.
Proof. split; [constructor; reflexivity|vm_compute; reflexivity]. Qed.
