(* C01 layer 7 -- YEARLY rules with BYMONTH **and** nth weekdays (FREQ=YEARLY;BYMONTH=3;BYDAY=-1SU, the
   shape of every daylight-saving rule): the nth-weekday mask is built from one range per BYMONTH member
   (the loop variable shadows `month`, which only changes `lastmonth`), the n-th weekday counts inside the
   month.  Filter theorem, rebuild lemmas, and rrule_iter_correct for every fuel. *)
From Coq Require Import ZArith List Bool Lia ZifyBool.
From V Require Import base.Cal gen.RrTables rr.RRBase rr.RRNorm rr.RRMasks rr.RRIter rr.RRSpec
  rr.RROverlay rr.RRTablesThm rr.RRWeekDefs rr.RRWeekThm rr.RRWeekCal rr.RRWeekFinal rr.RRWeekTop rr.RREasterThm
  rr.RRNwdThm rr.RRNwdCal rr.RRFilterThm rr.RRFilterSpec rr.RRGateThm rr.RRTimesetThm
  rr.RRDaysetThm rr.RRAdvanceThm rr.RRIterThm rr.RRPassThm rr.RRYearlyThm rr.RRYearlyEasterThm
  rr.RRCountThm rr.RRYearlyCountThm rr.RRYearlyUntilThm rr.RRDailyThm rr.RRMonthlyThm rr.RRSetposThm
  rr.RRCoarseRun rr.RRMonthlyFullThm rr.RRMonthlyNthThm rr.RRYearlyFullThm.
Import ListNotations.
Ltac Zify.zify_post_hook ::= Z.to_euclidean_division_equations.
Open Scope Z_scope.

Definition month_ranges (y : Z) (months : list Z) : list (list Z) :=
  map (fun mo => py_slice (mrange_of (is_leap y)) (mo - 1) (mo + 1)) months.

Lemma existsb_map' {A B} (p : B -> bool) (g : A -> B) l : existsb p (map g l) = existsb (fun x => p (g x)) l.
Proof. induction l as [|x t IH]; cbn [map existsb]; [reflexivity|]. rewrite IH. reflexivity. Qed.

Lemma existsb_ext_in {A} (f g : A -> bool) l : (forall x, In x l -> f x = g x) -> existsb f l = existsb g l.
Proof.
  intros H. induction l as [|x t IH]; cbn [existsb]; [reflexivity|].
  rewrite (H x (or_introl eq_refl)), IH; [reflexivity|]. intros z Hz. apply H. right. exact Hz.
Qed.

(* the mask for a list of months *)
Theorem nwdaymask_months_calendar : forall y months pairs,
  (forall mo, In mo months -> 1 <= mo <= 12) -> (forall wn, In wn pairs -> pair_ok wn) ->
  let ywd := weekday_of_ord (jan1 y) in
  exists m,
    fold_res (nwd_range (wdm_of ywd) pairs) (month_ranges y months) (zeros (Z.to_nat (year_len y))) = Ok m /\
    length m = Z.to_nat (year_len y) /\
    forall j, 0 <= j < year_len y ->
      nzb (nth (Z.to_nat j) m 0) =
      existsb (fun mo => (dbm y mo <=? j) && (j <? dbm y (mo + 1)) &&
                         existsb (fun wn => (weekday_of_ord (jan1 y + j) =? fst wn) &&
                                            nth_in (j + 1 - dbm y mo) (dim y mo) (snd wn)) pairs) months.
Proof.
  intros y months pairs Hm Hp ywd.
  assert (ER : month_ranges y months = map (fun mo => [dbm y mo; dbm y (mo + 1)]) months).
  { unfold month_ranges. apply map_ext_in. intros mo Hmo. apply mrange_slice. apply Hm. exact Hmo. }
  rewrite ER.
  pose proof (weekday_of_ord_range (jan1 y)) as Hw. fold ywd in Hw.
  assert (Hlen : Z.of_nat (Z.to_nat (year_len y)) <= 372).
  { rewrite ylen_nat. unfold year_len. destruct (is_leap y); lia. }
  destruct (nwdaymask_correct ywd (Z.to_nat (year_len y)) (map (fun mo => [dbm y mo; dbm y (mo + 1)]) months) pairs
              ltac:(lia) Hlen) as (m & Em & Lm & Pm).
  - intros rg Hrg. apply in_map_iff in Hrg. destruct Hrg as (mo & <- & Hmo). specialize (Hm mo Hmo).
    exists (dbm y mo), (dbm y (mo + 1)). split; [reflexivity|]. rewrite ylen_nat.
    pose proof (dbm_mono y 1 mo ltac:(lia) ltac:(lia) ltac:(lia)) as M1.
    pose proof (dbm_mono y (mo + 1) 13 ltac:(lia) ltac:(lia) ltac:(lia)) as M2.
    rewrite dbm_1 in M1. rewrite dbm_13 in M2. lia.
  - exact Hp.
  - exists m. split; [exact Em|]. split; [exact Lm|]. intros j Hj. rewrite Pm by (rewrite ylen_nat; lia).
    rewrite existsb_map'. apply existsb_ext_in. intros mo Hmo. specialize (Hm mo Hmo).
    pose proof (dbm_succ y mo Hm) as DS. pose proof (dim_pos y mo) as DP.
    clear Em Pm. induction pairs as [|wn t IH].
    + cbn [existsb]. rewrite andb_false_r. reflexivity.
    + cbn [existsb]. rewrite IH by (intros; apply Hp; right; assumption).
      unfold nwd_spec. unfold ywd at 1. rewrite <- wd_shift.
      replace (j - dbm y mo + 1) with (j + 1 - dbm y mo) by lia.
      replace (dbm y (mo + 1) - 1 - dbm y mo + 1) with (dim y mo) by lia.
      replace (j <=? dbm y (mo + 1) - 1) with (j <? dbm y (mo + 1)) by lia.
      destruct (dbm y mo <=? j), (j <? dbm y (mo + 1)),
        (weekday_of_ord (jan1 y + j) =? fst wn), (nth_in (j + 1 - dbm y mo) (dim y mo) (snd wn));
        cbn [andb orb]; reflexivity.
Qed.

(* what rebuild() stores for YEARLY + BYMONTH + nth weekdays *)
Lemma rebuild_nwd_yearly_months rl y month ii' :
  1 <= y <= 9999 -> freq rl = YEARLY -> truthy (bymonth rl) = true -> truthy (bynweekday rl) = true ->
  rebuild rl ii_init y month = Ok ii' ->
  exists m, nwdaymask ii' = Some m /\
    fold_res (nwd_range (wdm_of (weekday_of_ord (jan1 y))) (opt_list (bynweekday rl)))
             (month_ranges y (opt_list (bymonth rl)))
             (zeros (Z.to_nat (year_len y))) = Ok m.
Proof.
  intros Hy Hf TB TN. unfold rebuild.
  change (lastyear ii_init) with (@None Z). change (opt_neqb None y) with true. cbv iota.
  change (lastmonth ii_init) with (@None Z). change (opt_neqb None month) with true.
  unfold date_ord. assert (V : valid_ymd y 1 1 = true) by (unfold valid_ymd; change (dim y 1) with 31; lia).
  rewrite V. cbn [bind]. fold (jan1 y). rewrite !year_len_365.
  assert (T : (if year_len y =? 365
               then (T_M365MASK, T_MDAY365MASK, T_NMDAY365MASK, T_M365RANGE)
               else (T_M366MASK, T_MDAY366MASK, T_NMDAY366MASK, T_M366RANGE)) =
              (fst (fst (fst (masks_for y))), snd (fst (fst (masks_for y))), snd (fst (masks_for y)),
               RRNwdCal.mrange_of (is_leap y))).
  { unfold masks_for, tables_of, RRNwdCal.mrange_of, year_len. destruct (is_leap y); reflexivity. }
  rewrite T. clear T.
  destruct (if negb (truthy (byweekno rl)) then _ else _) as [wno|e]; cbn [bind]; [|discriminate].
  rewrite TN, Hf, TB. cbn [andb orb yearlen mrange wdaymask].
  change (YEARLY =? YEARLY) with true. cbv iota.
  fold (month_ranges y (opt_list (bymonth rl))).
  assert (NE : nonempty (month_ranges y (opt_list (bymonth rl))) = true).
  { unfold month_ranges. destruct (bymonth rl) as [[|h t]|]; try discriminate TB. reflexivity. }
  rewrite NE. unfold py_repeat. fold (zeros (Z.to_nat (year_len y))).
  fold (wdm_of (weekday_of_ord (jan1 y))).
  destruct (fold_res _ _ _) as [m|e] eqn:EF; cbn [bind]; [|discriminate].
  match goal with |- bind ?r _ = _ -> _ => destruct r as [em|e]; cbn [bind]; [|discriminate] end.
  intros E. inversion E; subst. cbn. exists m. split; reflexivity.
Qed.

(* day index i lies in month mo's range iff mo is the month of day i *)
Lemma in_month_range y mo i : 1 <= mo <= 12 -> 0 <= i < year_len y ->
  (dbm y mo <=? i) && (i <? dbm y (mo + 1)) = (mo =? month_at y i).
Proof.
  intros Hm Hi. unfold month_at.
  pose proof (month_of_yday_spec y (i + 1) ltac:(lia)) as MS. cbv zeta in MS. destruct MS as [MS1 MS2].
  destruct (mo =? month_of_yday y (i + 1)) eqn:E.
  - apply Z.eqb_eq in E. rewrite <- E in MS2. lia.
  - destruct ((dbm y mo <=? i) && (i <? dbm y (mo + 1))) eqn:E2; [|reflexivity].
    assert (month_of_yday y (i + 1) = mo) by (apply month_of_yday_unique; lia). lia.
Qed.

Lemma existsb_month_sel y i (Q : Z -> bool) months : (forall mo, In mo months -> 1 <= mo <= 12) ->
  0 <= i < year_len y ->
  existsb (fun mo => (dbm y mo <=? i) && (i <? dbm y (mo + 1)) && Q mo) months =
  memZ (month_at y i) months && Q (month_at y i).
Proof.
  intros Hm Hi. unfold memZ. induction months as [|mo t IH]; cbn [existsb]; [reflexivity|].
  rewrite IH by (intros; apply Hm; right; assumption).
  rewrite (in_month_range y mo i (Hm mo (or_introl eq_refl)) Hi).
  destruct (mo =? month_at y i) eqn:E.
  - apply Z.eqb_eq in E. subst mo. rewrite Z.eqb_refl. cbn [andb orb].
    destruct (Q (month_at y i)); cbn [orb andb]; [reflexivity|]. rewrite andb_false_r. reflexivity.
  - replace (month_at y i =? mo) with false by lia. reflexivity.
Qed.

(* the weekday clause on the days of the BYMONTH months *)
Lemma weekday_nth_clause_yearly_months r rl y month ii i lm :
  normalize r = Ok rl -> spec_wf r = true -> r_freq r = YEARLY -> r_bymonth r = Some lm ->
  truthy (bynweekday rl) = true -> 1 <= y <= 9999 ->
  rebuild rl ii_init y month = Ok ii -> 0 <= i < year_len y -> memZ (month_at y i) lm = true ->
  cl_weekday rl ii i = Ok (negb (in_opt (eff_byweekday r) (weekday_lambda r y i))).
Proof.
  intros HN HW Hfr Hbm TN Hy HR Hi' Hmem.
  destruct (normalize_fields r rl HN) as (Nm & _ & _ & _ & _ & _ & Nwd).
  pose proof (normalize_freq r rl HN) as Nfr. rewrite Hfr in Nfr.
  pose proof (rebuild_ii_for rl y month ii Hy HR) as F.
  unfold spec_wf in HW.
  repeat match type of HW with _ && _ = true =>
    let H := fresh "W" in apply andb_true_iff in HW; destruct HW as [HW H] end.
  unfold wd_split in Nwd.
  destruct (eff_byweekday r) as [l|] eqn:EL.
  2:{ injection Nwd as _ Q. rewrite Q in TN. discriminate TN. }
  (* BYMONTH as stored *)
  assert (EBM : bymonth rl = Some (sort_set lm)).
  { rewrite Nm. unfold eff_bymonth. rewrite Hbm. reflexivity. }
  assert (NEl : lm <> []).
  { rewrite Hbm in *. match goal with H : ne_opt (Some lm) = true |- _ => destruct lm; [discriminate H|discriminate] end. }
  assert (TB : truthy (bymonth rl) = true).
  { rewrite EBM. cbn [truthy]. pose proof (sort_set_nonempty lm) as SN.
    destruct lm; [contradiction|]. cbn [nonempty] in SN. destruct (sort_set (z :: lm)); [discriminate SN|reflexivity]. }
  assert (AM : all_opt (r_bymonth r) (between 1 12) = true) by assumption.
  assert (RM : forall mo, In mo (sort_set lm) -> 1 <= mo <= 12).
  { intros mo Hmo. apply (proj1 (In_sort_set' mo lm)) in Hmo. rewrite Hbm in AM. cbn [all_opt] in AM.
    rewrite forallb_forall in AM. specialize (AM mo Hmo). unfold between in AM. lia. }
  assert (WD : forallb (fun wn : Z * Z => between 0 6 (fst wn)) l = true).
  { unfold eff_byweekday in EL. destruct (r_byweekday r) as [l0|].
    - injection EL as <-. assumption.
    - destruct (no_day_part r && (r_freq r =? WEEKLY)); [|discriminate EL]. injection EL as <-.
      cbn [forallb fst]. unfold between. pose proof (weekday_of_ord_range (sp_ord0 r)). lia. }
  pose proof (split_spec (r_freq r) (fun n => nth_in (mday_at y i) (dim y (month_at y i)) n)
                (weekday_of_ord (jan1 y + i)) l ltac:(rewrite Hfr; reflexivity)) as SP.
  destruct (split_weekday (r_freq r) l) as [plain nth]. destruct SP as [SP1 SP2].
  assert (PK : forall wn, In wn (sort_set_pair nth) -> pair_ok wn).
  { intros wn Hin. apply (proj1 (In_sort_set_pair wn nth)) in Hin. destruct (SP2 wn Hin) as [Hl Hn].
    split; [|exact Hn]. rewrite forallb_forall in WD. specialize (WD wn Hl). unfold between in WD. lia. }
  assert (BN : bynweekday rl = Some (sort_set_pair nth) /\
               byweekday rl = (if nonempty (sort_set plain) then Some (sort_set plain) else None)).
  { destruct (nonempty (sort_set plain)); cbn [negb] in Nwd.
    - destruct (nonempty (sort_set_pair nth)) eqn:NN; cbn [negb] in Nwd.
      + injection Nwd as Q1 Q2. split; assumption.
      + injection Nwd as Q1 Q2. rewrite Q2 in TN. discriminate TN.
    - injection Nwd as Q1 Q2. split; assumption. }
  destruct BN as [BN BW].
  (* the mask rebuild() built *)
  destruct (rebuild_nwd_yearly_months rl y month ii Hy Nfr TB TN HR) as (m & Em & Ef).
  rewrite BN, EBM in Ef. cbn [opt_list] in Ef.
  destruct (nwdaymask_months_calendar y (sort_set lm) (sort_set_pair nth) RM PK) as (m' & Ef' & Lm & Pm).
  cbv zeta in Ef'. rewrite Ef in Ef'. injection Ef' as <-.
  assert (Hylen : Z.of_nat (Z.to_nat (year_len y)) = year_len y) by lia.
  assert (YL : 365 <= year_len y <= 366) by (unfold year_len; destruct (is_leap y); lia).
  pose proof (weekday_of_ord_range (jan1 y)) as Rw.
  (* evaluate the clause *)
  unfold cl_weekday. rewrite Em.
  assert (TM : truthy (Some m) = true).
  { cbn [truthy]. destruct m; [cbn in Lm; lia|reflexivity]. }
  rewrite TM, orb_true_r. cbn [opt_list].
  rewrite (f_wdm ii y F). rewrite (wdm_nth _ i Rw ltac:(lia)). rewrite <- wd_shift.
  rewrite (py_nth_nth m i) by (unfold zlen; lia). cbn [bind].
  specialize (Pm i Hi'). unfold RRWeekThm.nzb in Pm.
  rewrite (existsb_month_sel y i _ (sort_set lm) RM Hi') in Pm.
  rewrite memZ_sort_set, Hmem in Pm. cbn [andb] in Pm.
  rewrite existsb_sort_set_pair in Pm.
  fold (mday_at y i) in Pm.
  (* the specification side *)
  cbn [in_opt]. unfold weekday_lambda. rewrite Hfr in *. rewrite Hbm. change (YEARLY =? MONTHLY) with false.
  cbn [orb negb is_none]. rewrite SP1.
  rewrite BW. destruct (nonempty (sort_set plain)) eqn:NP.
  - assert (TT : truthy (Some (sort_set plain)) = true).
    { cbn [truthy]. destruct (sort_set plain); [discriminate NP|reflexivity]. }
    rewrite TT. cbn [opt_list bind]. rewrite memZ_sort_set.
    destruct (memZ (weekday_of_ord (jan1 y + i)) plain); cbn [bind orb negb]; [reflexivity|].
    rewrite Pm. reflexivity.
  - cbn [truthy bind]. assert (PE : plain = []).
    { rewrite sort_set_nonempty in NP. destruct plain; [reflexivity|discriminate NP]. }
    rewrite PE. cbn [memZ existsb orb]. unfold memZ. cbn [existsb orb]. rewrite Pm. reflexivity.
Qed.

(* the week-number clause on the year's own days (stand-alone form) *)
Lemma weekno_clause_ok r rl y month ii i :
  normalize r = Ok rl -> spec_wf r = true -> all_opt (r_byweekno r) weekno_safe = true ->
  1 <= y <= 9999 -> rebuild rl ii_init y month = Ok ii -> 0 <= i < year_len y ->
  cl_weekno rl ii i = Ok (negb (in_opt (r_byweekno r) (weekno_lambda r (jan1 y + i)))).
Proof.
  intros HN HW Hs Hy HR Hi.
  destruct (normalize_fields r rl HN) as (_ & _ & _ & _ & Nwn & _ & _).
  pose proof (normalize_wkst r rl HN) as Nwk.
  destruct (rebuild_char rl y month ii Hy HR) as (F & Cnw & Cwn).
  unfold spec_wf in HW.
  repeat match type of HW with _ && _ = true =>
    let H := fresh "W" in apply andb_true_iff in HW; destruct HW as [HW H] end.
  assert (YL : 365 <= year_len y <= 366) by (unfold year_len; destruct (is_leap y); lia).
  unfold cl_weekno. rewrite Nwn.
  destruct (r_byweekno r) as [l|] eqn:EL; [|reflexivity].
  assert (NE : ne_opt (Some l) = true) by assumption.
  assert (TT : truthy (option_map sort_set (Some l)) = true).
  { rewrite (truthy_map_sort (Some l) NE). reflexivity. }
  rewrite TT. rewrite Nwn in Cwn. destruct (Cwn TT) as (m & Em & Eb). rewrite Em.
  cbn [option_map opt_list] in Eb.
  assert (SAFE : forallb weekno_safe (sort_set l) = true) by (apply forallb_sort_set; exact Hs).
  assert (Hk : 0 <= wkst rl <= 6).
  { rewrite Nwk. match goal with H : between 0 6 (r_wkst r) = true |- _ => unfold between in H end. lia. }
  destruct (wnomask_correct_calendar y (wkst rl) (sort_set l) Hk SAFE) as (m' & Em' & Lm & Pm).
  cbv zeta in Em'. rewrite Eb in Em'. injection Em' as <-.
  rewrite (py_nth_nth m i) by lia. cbn [bind].
  assert (U : used_index (shape_of y) (wkst rl) i = true).
  { unfold used_index. change (sh_ylen (shape_of y)) with (year_len y).
    apply andb_true_iff. split; [lia|]. apply orb_true_iff. left. lia. }
  specialize (Pm i U). unfold RRWeekThm.nzb in Pm.
  f_equal. cbn [in_opt]. rewrite <- (existsb_sort_set (weekno_lambda r (jan1 y + i)) l).
  replace (nth (Z.to_nat i) m 0 =? 0) with (negb (negb (nth (Z.to_nat i) m 0 =? 0))) by apply negb_involutive.
  f_equal. rewrite Pm. rewrite Nwk. reflexivity.
Qed.

(* day_filter_correct for YEARLY + BYMONTH + nth weekdays: every day of the year *)
Theorem day_filter_correct_yearly_bymonth_nth : forall r rl y month ii i lm,
  normalize r = Ok rl -> spec_wf r = true -> r_freq r = YEARLY -> r_bymonth r = Some lm ->
  truthy (bynweekday rl) = true -> all_opt (r_byweekno r) weekno_safe = true -> r_byeaster r = None ->
  1 <= y <= 9999 -> rebuild rl ii_init y month = Ok ii -> 0 <= i < year_len y ->
  day_rejected rl ii i = Ok (negb (day_ok r (jan1 y + i))).
Proof.
  intros r rl y month ii i lm HN HW Hfr Hbm TN Hs He Hy HR Hi.
  destruct (normalize_fields r rl HN) as (Nm & _ & _ & _ & _ & Nea & _).
  pose proof (rebuild_ii_for rl y month ii Hy HR) as F.
  destruct (memZ (month_at y i) lm) eqn:Hmem.
  - apply (day_filter_core r rl ii y i HN HW F Hy Hi).
    + apply (weekday_nth_clause_yearly_months r rl y month ii i lm HN HW Hfr Hbm TN Hy HR Hi Hmem).
    + apply (weekno_clause_ok r rl y month ii i HN HW Hs Hy HR Hi).
    + unfold cl_easter. rewrite Nea, He. reflexivity.
  - (* a day outside the BYMONTH months: rejected by the first clause, and by the specification *)
    assert (EBM : bymonth rl = Some (sort_set lm)).
    { rewrite Nm. unfold eff_bymonth. rewrite Hbm. reflexivity. }
    assert (NEl : lm <> []).
    { pose proof HW as HW'. unfold spec_wf in HW'.
      repeat match type of HW' with _ && _ = true =>
        let H := fresh "W" in apply andb_true_iff in HW'; destruct HW' as [HW' H] end.
      assert (NE : ne_opt (r_bymonth r) = true) by assumption. rewrite Hbm in NE.
      destruct lm; [discriminate NE|discriminate]. }
    assert (TB : truthy (bymonth rl) = true).
    { rewrite EBM. cbn [truthy]. pose proof (sort_set_nonempty lm) as SN.
      destruct lm; [contradiction|]. cbn [nonempty] in SN. destruct (sort_set (z :: lm)); [discriminate SN|reflexivity]. }
    unfold day_rejected. rewrite (cl_month_correct rl ii y F i Hi), TB, EBM. cbn [opt_list andb].
    rewrite memZ_sort_set, Hmem. cbn [negb].
    destruct (ymd_at y i Hi) as [EY _].
    unfold day_ok. rewrite EY. unfold eff_bymonth. rewrite Hbm. cbn [in_opt].
    assert (EX : existsb (Z.eqb (month_at y i)) lm = false).
    { unfold memZ in Hmem. exact Hmem. }
    rewrite EX. reflexivity.
Qed.

(* ------------------------------------------------------------------ rebuild across years *)
Theorem rebuild_nth_other_year_ym : forall rl ii y m,
  opt_neqb (lastyear ii) y = true -> freq rl = YEARLY -> truthy (bymonth rl) = true ->
  truthy (bynweekday rl) = true -> truthy (byeaster rl) = false -> eastermask ii = None ->
  rebuild rl ii y m = rebuild rl ii_init y m.
Proof.
  intros rl ii y m HL Nfr TB TN TE HE. unfold rebuild. rewrite HL, TN, TE, TB, Nfr.
  change (lastyear ii_init) with (@None Z). change (opt_neqb None y) with true. cbv iota.
  change (lastmonth ii_init) with (@None Z). change (opt_neqb None m) with true.
  rewrite orb_true_r. cbn [andb orb].
  change (YEARLY =? YEARLY) with true. cbv iota.
  destruct (date_ord y 1 1) as [yo|e]; cbn [bind]; [|reflexivity].
  destruct (if 365 + (if is_leap y then 1 else 0) =? 365 then _ else _) as [[[mm mdm] nmdm] mr].
  destruct (if negb (truthy (byweekno rl)) then _ else _) as [wno|e]; cbn [bind]; [|reflexivity].
  cbn [nwdaymask eastermask yearordinal yearlen nextyearlen yearweekday mmask mrange mdaymask nmdaymask
       wdaymask wnomask].
  rewrite HE. change (eastermask ii_init) with (@None (list Z)).
  assert (NE : nonempty (map (fun m0 => py_slice mr (m0 - 1) (m0 + 1)) (opt_list (bymonth rl))) = true).
  { destruct (bymonth rl) as [[|h t]|]; try discriminate TB. reflexivity. }
  rewrite NE. destruct (fold_res _ _ _) as [nm|e]; cbn [bind]; reflexivity.
Qed.

Theorem rebuild_nth_succeeds_ym : forall rl y month,
  1 <= y <= 9999 -> 0 <= wkst rl <= 6 -> freq rl = YEARLY -> truthy (bymonth rl) = true ->
  (forall mo, In mo (opt_list (bymonth rl)) -> 1 <= mo <= 12) ->
  truthy (bynweekday rl) = true -> truthy (byeaster rl) = false ->
  (forall wn, In wn (opt_list (bynweekday rl)) -> pair_ok wn) ->
  exists ii', rebuild rl ii_init y month = Ok ii'.
Proof.
  intros rl y month Hy Hk Nfr TB RM TN TE PK. unfold rebuild.
  change (lastyear ii_init) with (@None Z). change (opt_neqb None y) with true. cbv iota.
  change (lastmonth ii_init) with (@None Z). change (opt_neqb None month) with true.
  unfold date_ord. assert (V : valid_ymd y 1 1 = true) by (unfold valid_ymd; change (dim y 1) with 31; lia).
  rewrite V. cbn [bind]. fold (jan1 y). rewrite !year_len_365.
  assert (T : (if year_len y =? 365
               then (T_M365MASK, T_MDAY365MASK, T_NMDAY365MASK, T_M365RANGE)
               else (T_M366MASK, T_MDAY366MASK, T_NMDAY366MASK, T_M366RANGE)) =
              (fst (fst (fst (masks_for y))), snd (fst (fst (masks_for y))), snd (fst (masks_for y)),
               RRNwdCal.mrange_of (is_leap y))).
  { unfold masks_for, tables_of, RRNwdCal.mrange_of, year_len. destruct (is_leap y); reflexivity. }
  rewrite T. clear T.
  assert (W : exists wno,
     (if negb (truthy (byweekno rl)) then Ok None
      else do m <- build_wnomask y (year_len y) (year_len (y + 1)) (weekday_of_ord (jan1 y)) (wkst rl)
                     (py_from T_WDAYMASK (weekday_of_ord (jan1 y))) (opt_list (byweekno rl));
           Ok (Some m)) = Ok wno).
  { destruct (negb (truthy (byweekno rl))); [eexists; reflexivity|].
    destruct (wnomask_no_index_error_calendar y (wkst rl) (opt_list (byweekno rl)) Hk) as (m & Em).
    cbv zeta in Em. rewrite Em. cbn [bind]. eexists; reflexivity. }
  destruct W as (wno & Ew). rewrite Ew. cbn [bind]. rewrite TN, TE, TB, Nfr. cbn [andb orb yearlen mrange wdaymask].
  change (YEARLY =? YEARLY) with true. cbv iota.
  fold (month_ranges y (opt_list (bymonth rl))).
  assert (NE : nonempty (month_ranges y (opt_list (bymonth rl))) = true).
  { unfold month_ranges. destruct (bymonth rl) as [[|h t]|]; try discriminate TB. reflexivity. }
  rewrite NE. unfold py_repeat. fold (zeros (Z.to_nat (year_len y))).
  fold (wdm_of (weekday_of_ord (jan1 y))).
  destruct (nwdaymask_months_calendar y (opt_list (bymonth rl)) (opt_list (bynweekday rl)) RM PK) as (m' & Ef' & _).
  cbv zeta in Ef'. rewrite Ef'. cbn [bind]. eexists; reflexivity.
Qed.

(* ------------------------------------------------------------------ the whole YEARLY family without BYEASTER *)
Record yfam_noe (r : raw) : Prop := mk_yfam_noe {
  yn_wf : spec_wf r = true;
  yn_freq : r_freq r = YEARLY;
  yn_weekno : all_opt (r_byweekno r) weekno_safe = true;
  yn_easter : r_byeaster r = None
}.

(* rrule_iter_correct for every YEARLY rule of the specification's domain without BYEASTER (BYWEEKNO in the
   RFC range): plain and nth weekdays, with or without BYMONTH, BYSETPOS, COUNT, UNTIL; every fuel *)
Theorem yearly_iter_correct_noe : forall r rl limit n,
  normalize r = Ok rl -> yfam_noe r ->
  fst (iterate rl limit n) = fst (spec_iter r limit n).
Proof.
  intros r rl limit n HN [HW Hfr Hs He].
  destruct (plain_only r) eqn:Hp.
  { apply (yearly_iter_correct_full r rl limit n HN). constructor; try assumption. left. exact Hp. }
  destruct (r_bymonth r) as [lm|] eqn:Hbm.
  2:{ apply (yearly_iter_correct_full r rl limit n HN). constructor; try assumption. right. exact Hbm. }
  pose proof (normalize_wkst r rl HN) as Nwk.
  pose proof (normalize_freq r rl HN) as Nfr. rewrite Hfr in Nfr.
  pose proof (not_plain_has_nth r rl HN ltac:(rewrite Hfr; reflexivity) Hp) as TN.
  pose proof (nth_pairs_ok r rl HN HW ltac:(rewrite Hfr; reflexivity)) as PK.
  destruct (normalize_fields r rl HN) as (Nm & _ & _ & _ & _ & Nea & _).
  assert (TE : truthy (byeaster rl) = false) by (rewrite Nea, He; reflexivity).
  assert (EBM : bymonth rl = Some (sort_set lm)).
  { rewrite Nm. unfold eff_bymonth. rewrite Hbm. reflexivity. }
  pose proof HW as HW'. unfold spec_wf in HW'.
  repeat match type of HW' with _ && _ = true =>
    let H := fresh "W" in apply andb_true_iff in HW'; destruct HW' as [HW' H] end.
  assert (AM : all_opt (r_bymonth r) (between 1 12) = true) by assumption.
  assert (NEm : ne_opt (r_bymonth r) = true) by assumption.
  rewrite Hbm in AM, NEm.
  assert (TB : truthy (bymonth rl) = true).
  { rewrite EBM. cbn [truthy]. pose proof (sort_set_nonempty lm) as SN.
    destruct lm; [discriminate NEm|]. cbn [nonempty] in SN. destruct (sort_set (z :: lm)); [discriminate SN|reflexivity]. }
  assert (RM : forall mo, In mo (opt_list (bymonth rl)) -> 1 <= mo <= 12).
  { rewrite EBM. cbn [opt_list]. intros mo Hmo. apply (proj1 (In_sort_set' mo lm)) in Hmo. cbn [all_opt] in AM.
    rewrite forallb_forall in AM. specialize (AM mo Hmo). unfold between in AM. lia. }
  assert (Hwk : 0 <= wkst rl <= 6).
  { rewrite Nwk. match goal with H : between 0 6 (r_wkst r) = true |- _ => unfold between in H end. lia. }
  apply (yearly_iter_correct2 r rl HN HW Hfr 1 9999); [| | |apply (start_year_range r HW)|intros j _; unfold okp_y; lia].
  - intros y m Hy. apply (rebuild_nth_succeeds_ym rl y m Hy Hwk Nfr TB RM TN TE PK).
  - intros y m ii y' Hy Ar Hy' Hne.
    destruct (rebuild_slots rl y m ii Hy Ar) as (LY & EM).
    apply rebuild_nth_other_year_ym; [|exact Nfr|exact TB|exact TN|exact TE|apply EM; exact TE].
    rewrite LY. unfold opt_neqb. apply negb_true_iff. apply Z.eqb_neq. lia.
  - intros y m ii i Hy Ar Hi.
    apply (day_filter_correct_yearly_bymonth_nth r rl y m ii i lm HN HW Hfr Hbm TN Hs He Hy Ar Hi).
Qed.

(* non-vacuity: the US daylight-saving rule pair in one rule -- rrule(YEARLY, dtstart=datetime(2023,1,1,2,0),
   bymonth=(3,11), byweekday=(SU(+2), SU(-1)), count=6): second and last Sundays of March and November *)
Definition raw_yearly_dst_example : raw :=
  mkRaw YEARLY false 2023 1 1 2 0 0 1 0 (Some 6) None false
        None (Some [3; 11]) None None None None (Some [(6, 2); (6, -1)]) None None None.
Example yearly_dst_example :
  yfam_noe raw_yearly_dst_example /\ plain_only raw_yearly_dst_example = false /\
  match normalize raw_yearly_dst_example with
  | Ok rl => fst (iterate rl 100 40) =
             [(ord_of_ymd 2023 3 12, 7200); (ord_of_ymd 2023 3 26, 7200); (ord_of_ymd 2023 11 12, 7200);
              (ord_of_ymd 2023 11 26, 7200); (ord_of_ymd 2024 3 10, 7200); (ord_of_ymd 2024 3 31, 7200)]
  | Err _ => False
  end.
Proof. split; [constructor; reflexivity|split; [reflexivity|vm_compute; reflexivity]]. Qed.
