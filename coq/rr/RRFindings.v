(* C01 -- OPEN findings of the audit round (2026-10-02): the faithful model (= the current code) violates the
   property text at these concrete inputs; each witness was reproduced on the real dateutil (notes/rr.md).  Every
   witness lies inside the complement of a guard of the loop theorems.  vm_compute only. *)
From Coq Require Import ZArith List Bool Lia.
From V Require Import base.Cal rr.RRBase rr.RRNorm rr.RRMasks rr.RRIter rr.RRSpec rr.RRSpecX rr.RRFilterSpec
  rr.RRWeeklyThm.
Import ListNotations.
Open Scope Z_scope.

(* ---- F-C01-last-week-9999.  The WKST-week that contains 9999-12-31 reaches into year 10000; the code builds the
   week's day set with those days and `date.fromordinal` raises ValueError for the first surviving one.
   (a) with BYSETPOS the whole week is lost, although its representable days are candidates:
       rrule(WEEKLY, dtstart=datetime(9999,12,20,9,0), wkst=MO, byweekday=(MO..SU), bysetpos=-1)
       yields [9999-12-26] and raises; the specified sequence is [9999-12-26; 9999-12-31]. *)
Definition raw_last_week_setpos : raw :=
  mkRaw WEEKLY false 9999 12 20 9 0 0 1 0 None None false
        (Some [-1]) None None None None None
        (Some [(0, 0); (1, 0); (2, 0); (3, 0); (4, 0); (5, 0); (6, 0)]) None None None.

Theorem rrule_iter_refuted_last_week_9999 :
  exists r rl limit n,
    normalize r = Ok rl /\ spec_wf r = true /\ r_freq r = WEEKLY /\ r_byeaster r = None /\ r_byweekno r = None /\
    1 <= ws0 r /\
    (* the complement of the loop theorems' guard  wlo r (n - 1) + 6 <= max_ord *)
    max_ord < wlo r (Z.of_nat n - 1) + 6 /\
    fst (iterate rl limit n) = [(ord_of_ymd 9999 12 26, 32400)] /\
    snd (iterate rl limit n) = TRaised EValue /\
    fst (spec_iter r limit n) = [(ord_of_ymd 9999 12 26, 32400); (ord_of_ymd 9999 12 31, 32400)].
Proof.
  exists raw_last_week_setpos.
  destruct (normalize raw_last_week_setpos) as [rl|e] eqn:E; [|vm_compute in E; discriminate E].
  exists rl, 100, 5%nat. split; [reflexivity|].
  assert (Erl : Ok rl = normalize raw_last_week_setpos) by (symmetry; exact E).
  vm_compute in Erl. injection Erl as ->.
  repeat split; try reflexivity; vm_compute; try reflexivity; try discriminate.
Qed.

(* (b) without BYSETPOS every representable occurrence is yielded, but the generator then ends with ValueError
       instead of stopping: rrule(WEEKLY, dtstart=datetime(9999,12,20,9,0), wkst=MO) with all seven weekdays yields
       9999-12-20 .. 9999-12-31 and raises (list(rule) raises; the specified sequence is complete and finite). *)
Definition raw_last_week_plain : raw :=
  mkRaw WEEKLY false 9999 12 20 9 0 0 1 0 None None false
        None None None None None None
        (Some [(0, 0); (1, 0); (2, 0); (3, 0); (4, 0); (5, 0); (6, 0)]) None None None.

Theorem rrule_raises_refuted_last_week_9999 :
  exists r rl limit n,
    normalize r = Ok rl /\ spec_wf r = true /\ max_ord < wlo r (Z.of_nat n - 1) + 6 /\
    fst (iterate rl limit n) = fst (spec_iter r limit n) /\ length (fst (iterate rl limit n)) = 12%nat /\
    snd (iterate rl limit n) = TRaised EValue /\ snd (spec_iter r limit n) = SExhausted.
Proof.
  exists raw_last_week_plain.
  destruct (normalize raw_last_week_plain) as [rl|e] eqn:E; [|vm_compute in E; discriminate E].
  exists rl, 100, 5%nat. split; [reflexivity|].
  assert (Erl : Ok rl = normalize raw_last_week_plain) by (symmetry; exact E).
  vm_compute in Erl. injection Erl as ->.
  repeat split; try reflexivity; vm_compute; try reflexivity; try discriminate.
Qed.

(* ---- F-C01-year1-setpos-week.  WEEKLY + BYSETPOS whose first WKST-week begins before 0001-01-01: fix 12b1f51
   leaves the cursor on the start when `ordinal - back < 1`, so the positions of the first week are counted from
   the start although 0001-01-01 .. are representable candidates of the same week:
       rrule(WEEKLY, dtstart=datetime(1,1,3,9,0), wkst=SU, byweekday=(MO..SU), bysetpos=1, count=2)
   yields 0001-01-03 first; the specified sequence starts with 0001-01-07 (position 1 of the first week is
   0001-01-01, which precedes the start). *)
Definition raw_year1_setpos : raw :=
  mkRaw WEEKLY false 1 1 3 9 0 0 1 6 (Some 2) None false
        (Some [1]) None None None None None
        (Some [(0, 0); (1, 0); (2, 0); (3, 0); (4, 0); (5, 0); (6, 0)]) None None None.

Theorem rrule_iter_refuted_year1_setpos_week :
  exists r rl limit n,
    normalize r = Ok rl /\ spec_wf r = true /\ r_freq r = WEEKLY /\ r_bysetpos r <> None /\
    (* the complement of the loop theorems' guard  1 <= ws0 r *)
    ws0 r < 1 /\
    fst (iterate rl limit n) = [(ord_of_ymd 1 1 3, 32400); (ord_of_ymd 1 1 7, 32400)] /\
    fst (spec_iter r limit n) = [(ord_of_ymd 1 1 7, 32400); (ord_of_ymd 1 1 14, 32400)].
Proof.
  exists raw_year1_setpos.
  destruct (normalize raw_year1_setpos) as [rl|e] eqn:E; [|vm_compute in E; discriminate E].
  exists rl, 100, 5%nat. split; [reflexivity|].
  assert (Erl : Ok rl = normalize raw_year1_setpos) by (symmetry; exact E).
  vm_compute in Erl. injection Erl as ->.
  repeat split; try reflexivity; vm_compute; try reflexivity; try discriminate.
Qed.

(* ---- F-C01-outofrange-typeerror.  A member of the rule's OWN time unit that is outside its range can never be
   reached by `__mod_distance`, which then returns None; unpacking it raises TypeError at the first iteration:
       rrule(HOURLY, dtstart=datetime(2020,1,1,9,0), byhour=24)      (also byhour=-1, MINUTELY byminute=60, ...)
   The property allows ValueError or an empty sequence. *)
Definition raw_hourly_byhour24 : raw :=
  mkRaw HOURLY false 2020 1 1 9 0 0 1 0 None None false
        None None None None None None None (Some [24]) None None.

Theorem rrule_raises_refuted_outofrange_typeerror :
  exists r rl limit n,
    normalize r = Ok rl /\ spec_xwf r = true /\ spec_wf r = false /\
    iterate rl limit n = ([], TRaised EType) /\ spec_iter r limit n = ([], SFuel).
Proof.
  exists raw_hourly_byhour24.
  destruct (normalize raw_hourly_byhour24) as [rl|e] eqn:E; [|vm_compute in E; discriminate E].
  exists rl, 100, 5%nat. split; [reflexivity|].
  assert (Erl : Ok rl = normalize raw_hourly_byhour24) by (symmetry; exact E).
  vm_compute in Erl. injection Erl as ->.
  repeat split; vm_compute; reflexivity.
Qed.

(* ---- F-C01-bymonthday-zero.  BYMONTHDAY=0 can never match (days of the month are 1..31 / -31..-1); the
   constructor splits the members into x > 0 and x < 0, drops 0 silently and -- when nothing is left -- applies NO
   month-day restriction: rrule(DAILY, dtstart=datetime(2020,1,1,9,0), bymonthday=0) yields every day. *)
Definition raw_daily_bymonthday0 : raw :=
  mkRaw DAILY false 2020 1 1 9 0 0 1 0 None None false
        None None (Some [0]) None None None None None None None.

Theorem rrule_iter_refuted_bymonthday_zero :
  exists r rl limit n,
    normalize r = Ok rl /\ spec_xwf r = true /\ spec_wf r = false /\
    fst (iterate rl limit n) = [(ord_of_ymd 2020 1 1, 32400); (ord_of_ymd 2020 1 2, 32400); (ord_of_ymd 2020 1 3, 32400)] /\
    fst (spec_iter r limit n) = [].
Proof.
  exists raw_daily_bymonthday0.
  destruct (normalize raw_daily_bymonthday0) as [rl|e] eqn:E; [|vm_compute in E; discriminate E].
  exists rl, 3, 40%nat. split; [reflexivity|].
  assert (Erl : Ok rl = normalize raw_daily_bymonthday0) by (symmetry; exact E).
  vm_compute in Erl. injection Erl as ->.
  repeat split; vm_compute; reflexivity.
Qed.
