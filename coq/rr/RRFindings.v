(* C01 -- the four findings of the audit round (2026-10-02), REPAIRED in /repo on the same day (55654b4 BYMONTHDAY=0,
   e1e7505 out-of-range members of the rule's own time unit, 8ced7a9 the week that contains 9999-12-31, 3426f68 the
   first week before 0001-01-01).  Before the fixes these inputs were `_refuted` witnesses (the faithful model, like
   the code, violated the property text there); the model follows the fixed code and they are now regression
   theorems: model = specification, resp. ValueError at construction.  vm_compute only. *)
From Coq Require Import ZArith List Bool Lia.
From V Require Import base.Cal rr.RRBase rr.RRNorm rr.RRMasks rr.RRIter rr.RRSpec rr.RRSpecX rr.RRFilterSpec
  rr.RRWeeklyThm.
Import ListNotations.
Open Scope Z_scope.

(* rrule(WEEKLY, dtstart=datetime(9999,12,20,9,0), wkst=MO, byweekday=(MO..SU), bysetpos=-1): before 8ced7a9
   [9999-12-26] and ValueError; now the last week consists of its representable days and the run stops at year 9999 *)
Definition raw_last_week_setpos : raw :=
  mkRaw WEEKLY false 9999 12 20 9 0 0 1 0 None None false
        (Some [-1]) None None None None None
        (Some [(0, 0); (1, 0); (2, 0); (3, 0); (4, 0); (5, 0); (6, 0)]) None None None.

Theorem regress_last_week_9999_setpos :
  spec_wf raw_last_week_setpos = true /\ max_ord < wlo raw_last_week_setpos 4 + 6 /\
  match normalize raw_last_week_setpos with
  | Ok rl => iterate rl 100 5 = ([(ord_of_ymd 9999 12 26, 32400); (ord_of_ymd 9999 12 31, 32400)], TMaxYear) /\
             fst (iterate rl 100 5) = fst (spec_iter raw_last_week_setpos 100 5)
  | Err _ => False
  end.
Proof. split; [reflexivity|]. split; [vm_compute; reflexivity|vm_compute; split; reflexivity]. Qed.

(* the same rule without BYSETPOS: before 8ced7a9 all twelve days and then ValueError; now a clean stop *)
Definition raw_last_week_plain : raw :=
  mkRaw WEEKLY false 9999 12 20 9 0 0 1 0 None None false
        None None None None None None
        (Some [(0, 0); (1, 0); (2, 0); (3, 0); (4, 0); (5, 0); (6, 0)]) None None None.

Theorem regress_last_week_9999_plain :
  spec_wf raw_last_week_plain = true /\
  match normalize raw_last_week_plain with
  | Ok rl => fst (iterate rl 100 5) = fst (spec_iter raw_last_week_plain 100 5) /\
             length (fst (iterate rl 100 5)) = 12%nat /\ snd (iterate rl 100 5) = TMaxYear
  | Err _ => False
  end.
Proof. split; [reflexivity|vm_compute; repeat split; reflexivity]. Qed.

(* rrule(WEEKLY, dtstart=datetime(1,1,3,9,0), wkst=SU, byweekday=(MO..SU), bysetpos=1, count=2): before 3426f68 the
   first occurrence was 0001-01-03; position 1 of the first week is 0001-01-01, which precedes the start *)
Definition raw_year1_setpos : raw :=
  mkRaw WEEKLY false 1 1 3 9 0 0 1 6 (Some 2) None false
        (Some [1]) None None None None None
        (Some [(0, 0); (1, 0); (2, 0); (3, 0); (4, 0); (5, 0); (6, 0)]) None None None.

Theorem regress_year1_setpos_week :
  spec_wf raw_year1_setpos = true /\ ws0 raw_year1_setpos < 1 /\
  match normalize raw_year1_setpos with
  | Ok rl => fst (iterate rl 100 5) = [(ord_of_ymd 1 1 7, 32400); (ord_of_ymd 1 1 14, 32400)] /\
             fst (iterate rl 100 5) = fst (spec_iter raw_year1_setpos 100 5)
  | Err _ => False
  end.
Proof. split; [reflexivity|]. split; [vm_compute; reflexivity|vm_compute; split; reflexivity]. Qed.

(* rrule(HOURLY, dtstart=datetime(2020,1,1,9,0), byhour=24): before e1e7505 TypeError at the first iteration; now the
   member is skipped by __construct_byset and the empty set raises ValueError at construction *)
Definition raw_hourly_byhour24 : raw :=
  mkRaw HOURLY false 2020 1 1 9 0 0 1 0 None None false
        None None None None None None None (Some [24]) None None.

Theorem regress_outofrange_valueerror :
  spec_xwf raw_hourly_byhour24 = true /\ spec_wf raw_hourly_byhour24 = false /\
  normalize raw_hourly_byhour24 = Err EValue /\ fst (spec_iter raw_hourly_byhour24 100 5) = [].
Proof. repeat split; vm_compute; reflexivity. Qed.

(* rrule(DAILY, dtstart=datetime(2020,1,1,9,0), bymonthday=0): before 55654b4 every day; now ValueError *)
Definition raw_daily_bymonthday0 : raw :=
  mkRaw DAILY false 2020 1 1 9 0 0 1 0 None None false
        None None (Some [0]) None None None None None None None.

Theorem regress_bymonthday_zero :
  spec_xwf raw_daily_bymonthday0 = true /\ spec_wf raw_daily_bymonthday0 = false /\
  normalize raw_daily_bymonthday0 = Err EValue /\ fst (spec_iter raw_daily_bymonthday0 3 40) = [].
Proof. repeat split; vm_compute; reflexivity. Qed.
