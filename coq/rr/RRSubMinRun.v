(* C01 layer 7 for MINUTELY rules without BYSETPOS, relative to the day-filter layer (abstract
   predicate IOK as in RRSubHourRun.v): one pass = gate on the specification's candidate list of
   the cursor's period; the advance leads to the first later admissible period or raises exactly
   when the specification has nothing more; by induction over the passes `iterate` yields what
   the gate yields on an initial segment of period_cands r 0 ++ period_cands r 1 ++ ...
   Written by the rset builder (new file). *)
From Coq Require Import ZArith List Bool Lia ZifyBool Znumtheory.
From V Require Import base.Cal gen.RrTables easter.EasterSpec rr.RRBase rr.RRNorm rr.RRMasks rr.RRIter
  rr.RRSpec rr.RRSubdailyThm rr.RRAdvanceThm rr.RRTimesetThm rr.RRSubNorm rr.RRSubNorm2 rr.RRSubHour
  rr.RRSubSpec rr.RRSubHourTop rr.RRSubLoop rr.RRSubMin rr.RRSubMinTop rr.RRSubTimes rr.RRSubPass
  rr.RRSubRunBase.
Import ListNotations.
Open Scope Z_scope.

Section MinutelyRun.
Variables (r : raw) (rl : rule).
Hypothesis Hn : normalize r = Ok rl.
Hypothesis HW : spec_wf r = true.
Hypothesis Hf : r_freq r = MINUTELY.
Hypothesis Hnsp : r_bysetpos r = None.

Variable IOK : iinfo -> Z -> Prop.
Hypothesis IOK_range : forall ii y m d, IOK ii y -> valid_ymd y m d = true ->
  0 <= ord_of_ymd y m d - yearordinal ii < yearlen ii.
Hypothesis IOK_filter : forall ii y i, IOK ii y -> 0 <= i < yearlen ii ->
  day_rejected rl ii i = Ok (negb (day_ok r (yearordinal ii + i))).
Hypothesis IOK_rebuild : forall ii y y' m', IOK ii y -> y <= y' <= 9999 -> 1 <= m' <= 12 ->
  forall ii', rebuild rl ii y' m' = Ok ii' -> IOK ii' y'.

Local Notation n := (min_n r).
Local Notation a k := (min_n r k mod 1440).

Definition DenM (s : state) (k : Z) : Prop :=
  0 <= k /\ valid_ymd (c_year s) (c_month s) (c_day s) = true /\
  ord_of_ymd (c_year s) (c_month s) (c_day s) = sp_ord0 r + n k / 1440 /\
  c_hour s = a k / 60 /\ c_minute s = a k mod 60 /\ c_second s = sp_S0 r /\
  c_timeset s = period_times r (a k * 60) /\
  IOK (c_ii s) (c_year s).

Lemma factsM : freq rl = MINUTELY /\ interval rl = r_interval r /\ bysetpos rl = None /\
  0 <= sp_H0 r <= 23 /\ 0 <= sp_M0 r <= 59 /\ 0 <= sp_S0 r <= 59 /\ 1 <= r_interval r /\
  ne_list (r_byhour r).
Proof.
  destruct (normalize_time_fields r rl Hn) as [Ef [Ei _]].
  destruct (normalize_copied r rl Hn) as [_ [_ [Esp _]]].
  destruct (spec_wf_times r HW) as (VH & VM & VS & _ & _ & _ & Nh & _ & _ & Hi).
  split; [congruence|]. split; [exact Ei|]. split; [congruence|].
  split; [exact VH|]. split; [exact VM|]. split; [exact VS|]. split; [exact Hi|].
  intro E. rewrite E in Nh. discriminate.
Qed.

Lemma a_parts : forall k, 0 <= a k < 1440 /\ 0 <= a k / 60 < 24 /\ 0 <= a k mod 60 < 60 /\
  a k = (a k / 60) * 60 + a k mod 60.
Proof.
  intro k. pose proof (Z.mod_pos_bound (n k) 1440 ltac:(lia)) as B.
  pose proof (Z.div_mod (a k) 60 ltac:(lia)). pose proof (Z.mod_pos_bound (a k) 60 ltac:(lia)).
  split; [exact B|]. split; [split; [apply Z.div_pos; lia|apply Z.div_lt_upper_bound; lia]|]. split; lia.
Qed.

Lemma period_cands_minutely : forall k,
  period_cands r k =
  (let o := sp_ord0 r + n k / 1440 in
   if day_ok r o then map (fun t => (o, t)) (period_times r (a k * 60)) else []).
Proof.
  intros k. destruct factsM as (_ & _ & _ & _ & _ & VS & _).
  destruct (minutely_period_parts r k Hf VS) as [Pd Pm]. cbv zeta in Pd, Pm. fold (min_n r k) in Pd, Pm.
  unfold period_cands. rewrite Pd, Pm. cbv zeta. unfold select_pos. rewrite Hnsp. reflexivity.
Qed.

Theorem minutely_pass : forall s k, DenM s k ->
  step rl s =
  after_gate rl s (negb (day_ok r (sp_ord0 r + n k / 1440)))
    (gate_list rl (period_cands r k) (c_count s) (c_out s)).
Proof.
  intros s k (Hk & Hv & Ho & Hh & Hmi & Hse & Hts & Hii).
  destruct factsM as (Efr & _ & Esp & _).
  pose proof (IOK_range _ _ _ _ Hii Hv) as Hi.
  pose proof (ord_of_ymd_range _ _ _ Hv) as Hor.
  set (o := ord_of_ymd (c_year s) (c_month s) (c_day s)) in *.
  set (i := o - yearordinal (c_ii s)) in *.
  assert (Hrej : day_rejected rl (c_ii s) i = Ok (negb (day_ok r o))).
  { rewrite (IOK_filter _ _ i Hii Hi). do 3 f_equal. unfold i. ring. }
  rewrite (step_single_day rl s (negb (day_ok r o))); try assumption.
  - fold o. rewrite <- Ho. f_equal.
    rewrite (period_cands_minutely k). cbv zeta. rewrite <- Ho, <- Hts.
    destruct (day_ok r o); reflexivity.
  - rewrite Efr. reflexivity.
  - rewrite Esp. reflexivity.
Qed.

Theorem minutely_next : forall s k cnt out s', DenM s k ->
  advance rl s (negb (day_ok r (sp_ord0 r + n k / 1440))) cnt out = Ok (AdvGo s') ->
  exists k', k < k' /\ DenM s' k' /\ (forall j, k < j < k' -> period_cands r j = []) /\
             c_count s' = cnt /\ c_out s' = out.
Proof.
  intros s k cnt out s' (Hk & Hv & Ho & Hh & Hmi & Hse & Hts & Hii) H.
  destruct factsM as (Efr & Eitv & _ & VH & VM & VS & Hi & Hne).
  set (filtered := negb (day_ok r (sp_ord0 r + n k / 1440))) in *.
  assert (Hfilt : filtered = true -> day_ok r (sp_ord0 r + n k / 1440) = false)
    by (unfold filtered; intro E; apply negb_true_iff in E; exact E).
  pose proof (advance_correct_minutely r rl Hn Hf Hi Hne k filtered (c_day s) Hk VS Hfilt) as AC.
  cbv zeta in AC.
  rewrite (advance_minutely_unfold rl s filtered cnt out Efr) in H. rewrite Hh, Hmi in H.
  destruct (minutely_core rl filtered (a k / 60) (a k mod 60) (c_day s)) as [[[[mi' hh'] dd'] fx']|e];
    [|discriminate].
  destruct AC as (k' & Hkk & Hord & Ha' & Rm & Rh & Rd & Rf & Adh & Adm & Hskip).
  assert (Vymd : 1 <= c_year s <= 9999 /\ 1 <= c_month s <= 12 /\ 1 <= c_day s <= Cal.dim (c_year s) (c_month s))
    by (unfold valid_ymd in Hv; lia).
  destruct Vymd as (Vy & Vm & Vd).
  assert (Hgt : gettimeset rl hh' mi' (c_second s) = Ok (period_times r (a k' * 60))).
  { unfold gettimeset. rewrite Efr. change (MINUTELY =? HOURLY) with false. change (MINUTELY =? MINUTELY) with true.
    cbv iota. rewrite (mtimeset_is_spec r rl hh' mi' Hn HW Hf ltac:(lia) ltac:(lia) Adh Adm).
    do 2 f_equal. rewrite <- Ha'. ring. }
  rewrite Hgt in H. cbn [bind] in H.
  destruct (finish_advance_state _ _ _ _ _ _ _ _ _ _ _ _ _ _ _ H Vm ltac:(lia)
              ltac:(intro E; rewrite (Rf E); lia))
    as (V & M & D & A1 & A2 & A3 & _ & A5 & A6 & A7).
  destruct (finish_advance_ii _ _ _ _ _ _ _ _ _ _ _ _ _ _ _ H ltac:(unfold T_MAXYEAR; lia)) as [Yb Hii'].
  unfold T_MAXYEAR in Yb.
  assert (Eh' : a k' / 60 = hh' /\ a k' mod 60 = mi').
  { rewrite <- Ha'. split; [symmetry; apply (Z.div_unique _ 60 _ mi'); lia|symmetry; apply (Z.mod_unique _ 60 hh' mi'); lia]. }
  destruct Eh' as [Eh1 Eh2].
  exists k'. split; [exact Hkk|]. split; [|split; [exact Hskip|split; assumption]].
  split; [lia|]. split.
  { unfold valid_ymd. lia. }
  split.
  { rewrite V. unfold vord. unfold ord_of_ymd in *. lia. }
  split; [congruence|]. split; [congruence|]. split; [congruence|]. split; [rewrite A5; reflexivity|].
  destruct Hii' as [[Ei Ey]|Hreb].
  - rewrite Ei, Ey. exact Hii.
  - apply (IOK_rebuild (c_ii s) (c_year s) (c_year s') (c_month s') Hii ltac:(lia) M _ Hreb).
Qed.

Theorem minutely_run_gate : forall limit m s k, DenM s k ->
  exists k_end cnt' st, k <= k_end /\
    gate_list rl (flat_map (period_cands r) (zrange k k_end)) (c_count s) (c_out s) =
      (fst (run rl limit m s), cnt', st).
Proof.
  intros limit. induction m as [|m IH]; intros s k HD.
  - exists k, (c_count s), None. split; [lia|]. rewrite zrange_empty. reflexivity.
  - cbn [run]. destruct (limit <=? zlen (c_out s)).
    + exists k, (c_count s), None. split; [lia|]. rewrite zrange_empty. reflexivity.
    + rewrite (minutely_pass s k HD). unfold after_gate.
      destruct (gate_list rl (period_cands r k) (c_count s) (c_out s)) as [[out1 cnt1] stop] eqn:Eg.
      assert (Hone : gate_list rl (flat_map (period_cands r) (zrange k (k + 1))) (c_count s) (c_out s)
                     = (out1, cnt1, stop)).
      { rewrite zrange_single. cbn [flat_map]. rewrite app_nil_r. exact Eg. }
      destruct stop as [t|].
      * exists (k + 1), cnt1, (Some t). split; [lia|]. exact Hone.
      * destruct (advance rl s (negb (day_ok r (sp_ord0 r + n k / 1440))) cnt1 out1) as [[| |s']|e] eqn:Ea;
          try (exists (k + 1), cnt1, None; split; [lia|]; exact Hone).
        destruct (minutely_next s k cnt1 out1 s' HD Ea) as (k' & Hkk & HD' & Hskip & Ec & Eo).
        destruct (IH s' k' HD') as (k_end & cnt' & st & Hke & Hg).
        exists k_end, cnt', st. split; [lia|].
        rewrite (periods_skip r k k' k_end ltac:(lia) Hskip), gate_list_app', Eg.
        rewrite <- Ec, <- Eo. exact Hg.
Qed.

(* if the advance raises, the specification has nothing after period k either *)
Theorem minutely_raise_is_end : forall s k cnt out e, DenM s k ->
  advance rl s (negb (day_ok r (sp_ord0 r + n k / 1440))) cnt out = Err e ->
  (forall j, k < j -> period_cands r j = []) \/
  (exists mi hh dd fx, minutely_core rl (negb (day_ok r (sp_ord0 r + n k / 1440))) (a k / 60) (a k mod 60) (c_day s)
                       = Ok (mi, hh, dd, fx)).
Proof.
  intros s k cnt out e (Hk & Hv & Ho & Hh & Hmi & Hse & Hts & Hii) H.
  destruct factsM as (Efr & Eitv & _ & VH & VM & VS & Hi & Hne).
  set (filtered := negb (day_ok r (sp_ord0 r + n k / 1440))) in *.
  assert (Hfilt : filtered = true -> day_ok r (sp_ord0 r + n k / 1440) = false)
    by (unfold filtered; intro E; apply negb_true_iff in E; exact E).
  pose proof (advance_correct_minutely r rl Hn Hf Hi Hne k filtered (c_day s) Hk VS Hfilt) as AC.
  cbv zeta in AC.
  destruct (minutely_core rl filtered (a k / 60) (a k mod 60) (c_day s)) as [[[[mi' hh'] dd'] fx']|e'].
  - right. eauto.
  - left. destruct AC as [_ Hall]. exact Hall.
Qed.


(* ------------------------------------------------------------------ from the constructor's state *)
Hypothesis IOK_init : forall ii0, rebuild rl ii_init (r_y r) (r_m r) = Ok ii0 -> IOK ii0 (r_y r).

Lemma spec_wf_ymdM : valid_ymd (r_y r) (r_m r) (r_d r) = true.
Proof.
  pose proof HW as W. unfold spec_wf in W.
  repeat match type of W with _ && _ = true =>
    let H := fresh "W" in apply andb_true_iff in W; destruct W as [W H] end.
  assumption.
Qed.

Lemma init_state_denM : forall s0, init_state rl = Ok s0 ->
  DenM s0 0 /\ c_count s0 = r_count r /\ c_out s0 = [].
Proof.
  intros s0 H. destruct factsM as (Efr & Eitv & _ & VH & VM & VS & Hi & Hne).
  destruct (normalize_copied r rl Hn) as (Ec & _ & _ & _ & Ey & Em & Ed).
  destruct (normalize_time_fields r rl Hn) as [_ [_ [EH [EM [ES _]]]]].
  assert (Ea0 : a 0 = sp_H0 r * 60 + sp_M0 r).
  { unfold min_n. rewrite Z.mul_0_l, Z.add_0_r. apply Z.mod_small. lia. }
  assert (Eh0 : a 0 / 60 = sp_H0 r) by (rewrite Ea0; symmetry; apply (Z.div_unique _ 60 _ (sp_M0 r)); lia).
  assert (Em0 : a 0 mod 60 = sp_M0 r) by (rewrite Ea0; symmetry; apply (Z.mod_unique _ 60 (sp_H0 r) (sp_M0 r)); lia).
  unfold init_state in H. cbv zeta in H. rewrite Ey, Em, Ed, EH, EM, ES, Efr, Ec in H.
  change (MINUTELY =? WEEKLY) with false in H. cbn [andb] in H. cbv iota beta in H.
  destruct (rebuild rl ii_init (r_y r) (r_m r)) as [ii0|e] eqn:Er; cbn [bind] in H; [|discriminate].
  change (MINUTELY <? HOURLY) with false in H. change (HOURLY <=? MINUTELY) with true in H.
  change (MINUTELY <=? MINUTELY) with true in H. change (SECONDLY <=? MINUTELY) with false in H.
  cbn [andb orb] in H. rewrite !orb_false_r in H.
  assert (Hts : (if truthy (byhour rl) && negb (memZ (sp_H0 r) (opt_list (byhour rl))) ||
                    truthy (byminute rl) && negb (memZ (sp_M0 r) (opt_list (byminute rl)))
                 then Ok [] else gettimeset rl (sp_H0 r) (sp_M0 r) (sp_S0 r))
                = Ok (period_times r (a 0 * 60))).
  { pose proof (min_adm_is_spec r rl Hn Hf Hi Hne 0 ltac:(lia)) as MA. cbv zeta in MA.
    assert (Ecnd : (truthy (byhour rl) && negb (memZ (sp_H0 r) (opt_list (byhour rl))) ||
                    truthy (byminute rl) && negb (memZ (sp_M0 r) (opt_list (byminute rl))))
                   = negb (min_adm rl (a 0))).
    { unfold min_adm. rewrite Em0. rewrite (Z.mod_small (a 0 / 60) 24) by (rewrite Eh0; lia). rewrite Eh0.
      destruct (truthy (byhour rl)), (truthy (byminute rl)),
        (memZ (sp_H0 r) (opt_list (byhour rl))), (memZ (sp_M0 r) (opt_list (byminute rl))); reflexivity. }
    rewrite Ecnd. destruct (min_adm rl (a 0)) eqn:Eadm; cbn [negb].
    - symmetry in MA. apply andb_true_iff in MA. destruct MA as [A1 A2]. rewrite Eh0 in A1. rewrite Em0 in A2.
      unfold gettimeset. rewrite Efr. change (MINUTELY =? HOURLY) with false. change (MINUTELY =? MINUTELY) with true.
      cbv iota. rewrite (mtimeset_is_spec r rl (sp_H0 r) (sp_M0 r) Hn HW Hf VH VM A1 A2).
      do 2 f_equal. rewrite Ea0. ring.
    - f_equal. symmetry. apply (min_bad_no_times r rl Hn Hf Hi Hne 0 ltac:(lia) Eadm). }
  rewrite Hts in H. cbn [bind] in H. inversion H; subst; clear H.
  cbn [c_count c_out]. split; [|split; reflexivity].
  unfold DenM. cbn [c_year c_month c_day c_hour c_minute c_second c_timeset c_ii].
  rewrite Eh0, Em0.
  assert (Eq0 : n 0 / 1440 = 0) by (unfold min_n; rewrite Z.mul_0_l, Z.add_0_r; apply Z.div_small; lia).
  rewrite Eq0.
  split; [lia|]. split; [exact spec_wf_ymdM|]. split; [unfold sp_ord0; ring|].
  repeat split; auto.
Qed.

Theorem minutely_iter_correct_partial : forall limit m,
  exists k_end cnt' st out, 0 <= k_end /\
    gate_list rl (flat_map (period_cands r) (zrange 0 k_end)) (r_count r) [] = (out, cnt', st) /\
    fst (iterate rl limit m) = rev out.
Proof.
  intros limit m. unfold iterate.
  destruct (init_state rl) as [s0|e] eqn:Ei.
  - destruct (init_state_denM s0 Ei) as (HD & Ec & Eo).
    destruct (minutely_run_gate limit m s0 0 HD) as (k_end & cnt' & st & Hk & Hg).
    rewrite Ec, Eo in Hg.
    exists k_end, cnt', st, (fst (run rl limit m s0)). split; [exact Hk|]. split; [exact Hg|].
    destruct (run rl limit m s0) as [out t]. reflexivity.
  - exists 0, (r_count r), None, []. split; [lia|]. split; [rewrite zrange_empty; reflexivity|reflexivity].
Qed.

End MinutelyRun.
