(* C01 layer 7 -- rrule_iter_correct for the MONTHLY family: every MONTHLY rule without BYSETPOS,
   BYEASTER and nth weekdays (BYMONTH, BYMONTHDAY, BYYEARDAY, plain BYDAY, BYWEEKNO in the RFC range;
   COUNT, UNTIL, any interval and time expansion), EVERY fuel.
   Pass k has the cursor on month index  start month + k*interval  (RRAdvanceThm.monthly_carry_correct),
   the day set is the month's index range (mdayset_correct), the filter loop works on that sub-range. *)
From Coq Require Import ZArith List Bool Lia ZifyBool.
From V Require Import base.Cal gen.RrTables rr.RRBase rr.RRNorm rr.RRMasks rr.RRIter rr.RRSpec
  rr.RROverlay rr.RRTablesThm rr.RRWeekCal rr.RRWeekFinal rr.RRNwdCal rr.RRFilterThm rr.RRFilterSpec rr.RRGateThm
  rr.RRTimesetThm rr.RRDaysetThm rr.RRAdvanceThm rr.RRIterThm rr.RRPassThm rr.RRYearlyThm rr.RRYearlyEasterThm
  rr.RRCountThm rr.RRYearlyCountThm rr.RRYearlyUntilThm rr.RRDailyThm.
Import ListNotations.
Open Scope Z_scope.

(* ------------------------------------------------------------------ the month's day set *)
Lemma fold_set_range n : forall a pre suf,
  Z.of_nat (length pre) = a ->
  fold_res (fun ds i => py_set ds i (Some i)) (zrange_nat a n) (pre ++ repeat None n ++ suf) =
  Ok (pre ++ map Some (zrange_nat a n) ++ suf).
Proof.
  induction n as [|n IH]; intros a pre suf Hl; cbn [zrange_nat fold_res repeat map app]; [reflexivity|].
  rewrite <- Hl at 1. rewrite py_set_app. cbn [bind].
  replace (pre ++ Some a :: repeat None n ++ suf) with ((pre ++ [Some a]) ++ repeat None n ++ suf)
    by (rewrite <- app_assoc; reflexivity).
  rewrite (IH (a + 1) (pre ++ [Some a]) suf) by (rewrite app_length; cbn [length]; lia).
  rewrite <- app_assoc. reflexivity.
Qed.

Lemma repeat_app_split {A} (x : A) a b : repeat x (a + b) = repeat x a ++ repeat x b.
Proof. induction a as [|a IH]; cbn [repeat app Nat.add]; [reflexivity|]. rewrite IH. reflexivity. Qed.

(* mdayset: None outside the month, Some i inside; the slice is the month's indices in order *)
Theorem mdayset_correct : forall ii y month,
  ii_for ii y -> 1 <= month <= 12 ->
  let st := dbm y month in let en := dbm y (month + 1) in
  exists ds, mdayset ii month = Ok (ds, st, en) /\
    ds = repeat None (Z.to_nat st) ++ map Some (zrange st en) ++ repeat None (Z.to_nat (year_len y - en)).
Proof.
  intros ii y month F Hm st en. unfold mdayset.
  pose proof (f_masks ii y F) as M. unfold masks_for, tables_of in M.
  assert (MR : mrange ii = mrange_of (is_leap y)).
  { unfold mrange_of. destruct (is_leap y); inversion M; reflexivity. }
  rewrite MR, (mrange_slice y month Hm). fold st en.
  pose proof (dbm_mono y 1 month ltac:(lia) ltac:(lia) ltac:(lia)) as M1.
  pose proof (dbm_mono y (month + 1) 13 ltac:(lia) ltac:(lia) ltac:(lia)) as M2.
  rewrite dbm_1 in M1. rewrite dbm_13 in M2. pose proof (dbm_succ y month Hm) as DS.
  pose proof (dim_pos y month) as DP. fold st in M1, DS. fold en in M2, DS.
  rewrite (f_ylen ii y F). unfold py_repeat, zrange.
  replace (Z.to_nat (year_len y)) with (Z.to_nat st + (Z.to_nat (en - st) + Z.to_nat (year_len y - en)))%nat by lia.
  rewrite !repeat_app_split.
  rewrite (fold_set_range (Z.to_nat (en - st)) st (repeat None (Z.to_nat st)) (repeat None (Z.to_nat (year_len y - en))))
    by (rewrite repeat_length; lia).
  cbn [bind]. eexists. split; reflexivity.
Qed.

(* ------------------------------------------------------------------ the filter loop on a sub-range *)
Section FilterRange.
Variables (rl : rule) (ii : iinfo) (rej : Z -> bool).

Lemma filter_loop_range n : forall a pre suf f,
  Z.of_nat (length pre) = a ->
  (forall i, a <= i < a + Z.of_nat n -> day_rejected rl ii i = Ok (rej i)) ->
  filter_loop rl ii (map Some (zrange_nat a n)) (pre ++ map Some (zrange_nat a n) ++ suf) f =
  Ok (pre ++ map (mark rej) (zrange_nat a n) ++ suf, f || existsb rej (zrange_nat a n)).
Proof.
  induction n as [|n IH]; intros a pre suf f Hl Hr; cbn [zrange_nat map filter_loop existsb app].
  - rewrite orb_false_r. reflexivity.
  - rewrite (Hr a ltac:(lia)). cbn [bind]. subst a. set (a := Z.of_nat (length pre)) in *.
    destruct (rej a) eqn:Ra.
    + unfold a at 3. rewrite py_set_app. cbn [bind]. fold a.
      replace (pre ++ None :: map Some (zrange_nat (a + 1) n) ++ suf)
        with ((pre ++ [None]) ++ map Some (zrange_nat (a + 1) n) ++ suf) by (rewrite <- app_assoc; reflexivity).
      rewrite (IH (a + 1) (pre ++ [None]) suf true).
      * rewrite <- app_assoc. cbn [app]. unfold mark at 2. rewrite Ra. cbn [orb]. rewrite orb_true_r. reflexivity.
      * rewrite app_length. cbn [length]. lia.
      * intros i Hi. apply Hr. lia.
    + replace (pre ++ Some a :: map Some (zrange_nat (a + 1) n) ++ suf)
        with ((pre ++ [Some a]) ++ map Some (zrange_nat (a + 1) n) ++ suf) by (rewrite <- app_assoc; reflexivity).
      rewrite (IH (a + 1) (pre ++ [Some a]) suf f).
      * rewrite <- app_assoc. cbn [app]. unfold mark at 2. rewrite Ra. cbn [orb]. reflexivity.
      * rewrite app_length. cbn [length]. lia.
      * intros i Hi. apply Hr. lia.
Qed.
End FilterRange.

(* the slice of  pre ++ mid ++ suf  between |pre| and |pre| + |mid| *)
Lemma py_slice_mid {A} (pre mid suf : list A) :
  py_slice (pre ++ mid ++ suf) (Z.of_nat (length pre)) (Z.of_nat (length pre) + Z.of_nat (length mid)) = mid.
Proof.
  rewrite py_slice_in.
  - replace (Z.to_nat (Z.of_nat (length pre) + Z.of_nat (length mid) - Z.of_nat (length pre))) with (length mid) by lia.
    rewrite Nat2Z.id. rewrite skipn_app, skipn_all, Nat.sub_diag. cbn [app skipn].
    rewrite firstn_app, firstn_all, Nat.sub_diag. cbn [firstn]. apply app_nil_r.
  - lia.
  - unfold zlen. rewrite !app_length. lia.
Qed.

(* ------------------------------------------------------------------ the MONTHLY family *)
Record mfam (r : raw) : Prop := mk_mfam {
  m_wf : spec_wf r = true;
  m_freq : r_freq r = MONTHLY;
  m_plain : plain_only r = true;
  m_setpos : r_bysetpos r = None;
  m_weekno : all_opt (r_byweekno r) weekno_safe = true;
  m_easter : r_byeaster r = None
}.

Definition midx (r : raw) (k : Z) : Z := r_y r * 12 + (r_m r - 1) + k * r_interval r.

Definition at_pass_m (r : raw) (rl : rule) (k : Z) (cnt : option Z) (s : state) : Prop :=
  1 <= c_month s <= 12 /\ 1 <= c_year s <= 9999 /\
  c_year s * 12 + (c_month s - 1) = midx r k /\
  rebuild rl ii_init (c_year s) (c_month s) = Ok (c_ii s) /\
  c_timeset s = period_times r 0 /\ c_count s = cnt.

Lemma first_of_month y m : 1 <= m <= 12 ->
  ord_of_ymd y m 1 = jan1 y + dbm y m /\ ord_of_ymd y m 1 + dim y m = jan1 y + dbm y (m + 1).
Proof. intros Hm. rewrite jan1_eq. unfold ord_of_ymd. pose proof (dbm_succ y m Hm). lia. Qed.

Lemma step_lo_monthly r k y m : r_freq r = MONTHLY -> 1 <= m <= 12 -> y * 12 + (m - 1) = midx r k ->
  step_lo r k = ord_of_ymd y m 1.
Proof.
  intros Hf Hm Hi. unfold step_lo, is_coarse, period_days. rewrite Hf.
  change (MONTHLY <=? DAILY) with true. change (MONTHLY =? YEARLY) with false.
  change (MONTHLY =? MONTHLY) with true. cbv iota zeta. fold (midx r k). rewrite <- Hi. cbn [fst].
  replace ((y * 12 + (m - 1)) / 12) with y by lia. replace ((y * 12 + (m - 1)) mod 12 + 1) with m by lia.
  reflexivity.
Qed.

Lemma monthly_step_items r k y m : r_freq r = MONTHLY -> r_bysetpos r = None ->
  1 <= m <= 12 -> 1 <= y <= 9999 -> y * 12 + (m - 1) = midx r k ->
  step_items r k = filter (inst_le (sp_start r))
    (flat_map (fun o => map (fun t => (o, t)) (period_times r 0))
              (filter (day_ok r) (zrange (jan1 y + dbm y m) (jan1 y + dbm y (m + 1))))).
Proof.
  intros Hfr Hsp Hm Hy Hi.
  unfold step_items, is_coarse, select_pos. rewrite Hfr, Hsp. change (MONTHLY <=? DAILY) with true. cbv iota.
  f_equal. unfold cands_coarse, period_days. rewrite Hfr.
  change (MONTHLY =? YEARLY) with false. change (MONTHLY =? MONTHLY) with true. cbv iota zeta.
  fold (midx r k). rewrite <- Hi.
  replace ((y * 12 + (m - 1)) / 12) with y by lia. replace ((y * 12 + (m - 1)) mod 12 + 1) with m by lia.
  destruct (first_of_month y m Hm) as [F1 F2].
  assert (B1 : 1 <= jan1 y).
  { rewrite jan1_eq. assert (days_before_year 1 <= days_before_year y) by (apply days_before_year_mono; lia).
    change (days_before_year 1) with 0 in *. lia. }
  assert (B2 : jan1 (y + 1) <= max_ord + 1).
  { rewrite jan1_eq. assert (days_before_year (y + 1) <= days_before_year 10000) by (apply days_before_year_mono; lia).
    change (days_before_year 10000) with 3652059 in *. unfold max_ord. lia. }
  pose proof (dbm_mono y 1 m ltac:(lia) ltac:(lia) ltac:(lia)) as M1.
  pose proof (dbm_mono y (m + 1) 13 ltac:(lia) ltac:(lia) ltac:(lia)) as M2.
  rewrite dbm_1 in M1. rewrite dbm_13 in M2. pose proof (dim_pos y m) as DP.
  rewrite jan1_succ in B2.
  replace (Z.max (ord_of_ymd y m 1) 1) with (jan1 y + dbm y m) by lia.
  replace (Z.min (ord_of_ymd y m 1 + dim y m - 1) max_ord + 1) with (jan1 y + dbm y (m + 1)) by lia.
  apply flat_map_filter.
Qed.

(* a MONTHLY pass *)
Lemma monthly_pass_full : forall r rl k cnt s,
  normalize r = Ok rl -> mfam r -> at_pass_m r rl k cnt s ->
  let y := c_year s in let m := c_month s in
  let st := dbm y m in let en := dbm y (m + 1) in
  exists ds ds' f out' c1 s1 c1' b1,
    getdayset rl (c_ii s) y m (c_day s) = Ok (ds, st, en) /\
    filter_loop rl (c_ii s) (py_slice ds st en) ds false = Ok (ds', f) /\
    out_days rl (yearordinal (c_ii s)) (py_slice ds' st en) (period_times r 0) cnt (c_out s) = (out', c1, s1) /\
    sp_take r (step_items r k) cnt (c_out s) = (out', c1', b1) /\
    (s1 = None -> b1 = false /\ c1 = c1') /\ (s1 <> None -> b1 = true \/ until_lt_start r) /\
    (sp_after_until r (ord_of_ymd y m 1, 0) = true -> out' = c_out s).
Proof.
  intros r rl k cnt s HN [HW Hfr Hp Hsp Hs He] (Am & Ay & Ai & Ar & At & Ac) y m st en.
  fold y m in Am, Ay, Ai, Ar.
  destruct (normalize_misc r rl HN) as (_ & _ & _ & _ & _ & _ & Nu).
  pose proof (normalize_freq r rl HN) as Nfr. rewrite Hfr in Nfr.
  assert (V : valid_ymd (r_y r) (r_m r) (r_d r) = true).
  { pose proof HW as HW'. unfold spec_wf in HW'.
    repeat match type of HW' with _ && _ = true =>
      let H := fresh "W" in apply andb_true_iff in HW'; destruct HW' as [HW' H] end. assumption. }
  destruct (normalize_start_until r rl HN V) as (S1 & _ & _).
  pose proof (rebuild_ii_for rl y m (c_ii s) Ay Ar) as F.
  pose proof (dbm_mono y 1 m ltac:(lia) ltac:(lia) ltac:(lia)) as M1.
  pose proof (dbm_mono y (m + 1) 13 ltac:(lia) ltac:(lia) ltac:(lia)) as M2.
  rewrite dbm_1 in M1. rewrite dbm_13 in M2. pose proof (dbm_succ y m Am) as DS. pose proof (dim_pos y m) as DP.
  fold st in M1, DS. fold en in M2, DS.
  (* day set *)
  destruct (mdayset_correct (c_ii s) y m F Am) as (ds & E1 & Eds). fold st en in E1, Eds.
  assert (G : getdayset rl (c_ii s) y m (c_day s) = Ok (ds, st, en)).
  { unfold getdayset. rewrite Nfr. change (MONTHLY =? YEARLY) with false. change (MONTHLY =? MONTHLY) with true.
    cbv iota. exact E1. }
  (* filter loop *)
  set (rej := fun i => negb (day_ok r (jan1 y + i))).
  assert (HRj : forall i, st <= i < en -> day_rejected rl (c_ii s) i = Ok (rej i)).
  { intros i Hi. apply (day_filter_correct_guarded r rl y m (c_ii s) i HN HW Hp Hs (or_introl He) Ay Ar). lia. }
  set (pre := repeat (@None Z) (Z.to_nat st)). set (suf := repeat (@None Z) (Z.to_nat (year_len y - en))).
  assert (Lp : Z.of_nat (length pre) = st) by (unfold pre; rewrite repeat_length; lia).
  assert (SL : py_slice ds st en = map Some (zrange st en)).
  { rewrite Eds. fold pre suf. pose proof (py_slice_mid pre (map Some (zrange st en)) suf) as P.
    rewrite Lp in P. rewrite map_length in P. unfold zrange in P at 2. rewrite zrange_nat_length in P.
    replace (st + Z.of_nat (Z.to_nat (en - st))) with en in P by lia. exact P. }
  assert (FL : filter_loop rl (c_ii s) (py_slice ds st en) ds false =
               Ok (pre ++ map (mark rej) (zrange st en) ++ suf, existsb rej (zrange st en))).
  { rewrite SL, Eds. fold pre suf. unfold zrange.
    rewrite (filter_loop_range rl (c_ii s) rej (Z.to_nat (en - st)) st pre suf false Lp).
    - reflexivity.
    - intros i Hi. apply HRj. lia. }
  set (ds' := pre ++ map (mark rej) (zrange st en) ++ suf).
  assert (SL' : py_slice ds' st en = map (mark rej) (zrange st en)).
  { unfold ds'. pose proof (py_slice_mid pre (map (mark rej) (zrange st en)) suf) as P.
    rewrite Lp in P. rewrite map_length in P. unfold zrange in P at 2. rewrite zrange_nat_length in P.
    replace (st + Z.of_nat (Z.to_nat (en - st))) with en in P by lia. exact P. }
  (* candidates *)
  set (L := flat_map (fun o => map (fun t => (o, t)) (period_times r 0))
                     (filter (day_ok r) (zrange (jan1 y + st) (jan1 y + en)))).
  assert (EO : out_days rl (yearordinal (c_ii s)) (py_slice ds' st en) (period_times r 0) cnt (c_out s) =
               gate_list rl L cnt (c_out s)).
  { rewrite SL', (f_yo _ _ F). rewrite out_days_is_gate.
    - f_equal. rewrite somes_map_mark. unfold L.
      rewrite (filter_ext' (fun i => negb (rej i)) (fun i => day_ok r (jan1 y + i)))
        by (intros x; unfold rej; apply negb_involutive).
      replace (jan1 y + en) with (jan1 y + st + (en - st)) by lia. rewrite zrange_shift.
      replace (zrange st en) with (map (fun i => st + i) (zrange 0 (en - st)))
        by (rewrite <- zrange_shift; f_equal; lia).
      rewrite !filter_map_comm, !flat_map_map'.
      generalize (zrange 0 (en - st)) as Z0. induction Z0 as [|a t IH]; cbn [filter flat_map]; [reflexivity|].
      replace (jan1 y + (st + a)) with (jan1 y + st + a) by lia.
      destruct (day_ok r (jan1 y + st + a)); cbn [flat_map]; rewrite IH; [|reflexivity].
      f_equal. apply map_ext. intros t0. f_equal. lia.
    - intros i Hi. rewrite somes_map_mark in Hi. apply filter_In in Hi. destruct Hi as [Hi _].
      unfold zrange in Hi. pose proof (In_zrange_nat_bounds _ _ _ Hi) as Bi.
      unfold from_ordinal.
      assert (B1 : 1 <= jan1 y).
      { rewrite jan1_eq. assert (days_before_year 1 <= days_before_year y) by (apply days_before_year_mono; lia).
        change (days_before_year 1) with 0 in *. lia. }
      assert (B2 : jan1 (y + 1) <= max_ord + 1).
      { rewrite jan1_eq. assert (days_before_year (y + 1) <= days_before_year 10000) by (apply days_before_year_mono; lia).
        change (days_before_year 10000) with 3652059 in *. unfold max_ord. lia. }
      rewrite jan1_succ in B2.
      replace ((1 <=? jan1 y + i) && (jan1 y + i <=? max_ord)) with true by lia. reflexivity. }
  assert (ES : step_items r k = filter (inst_le (sp_start r)) L).
  { apply (monthly_step_items r k y m Hfr Hsp Am Ay Ai). }
  pose proof (gate_take_gen rl r S1 Nu L cnt (c_out s)) as GT.
  assert (DU : sp_after_until r (ord_of_ymd y m 1, 0) = true -> fst (fst (gate_list rl L cnt (c_out s))) = c_out s).
  { intros AU. destruct (gate_list_all_after rl r Nu L cnt (c_out s)) as (stp & Eg & _).
    - intros [o t] Hx. unfold L in Hx. apply in_flat_map in Hx. destruct Hx as (o' & Ho' & Hx).
      apply in_map_iff in Hx. destruct Hx as (t' & E & Ht'). inversion E; subst o' t'.
      apply filter_In in Ho'. destruct Ho' as [Ho' _]. unfold zrange in Ho'.
      pose proof (In_zrange_nat_bounds _ _ _ Ho') as Bo. pose proof (period_times_nonneg r 0 t Ht') as Bt.
      destruct (first_of_month y m Am) as [F1 _]. fold st in F1.
      apply (after_until_mono r (ord_of_ymd y m 1, 0) (o, t) AU). unfold inst_le. cbn [fst snd]. lia.
    - rewrite Eg. reflexivity. }
  rewrite <- EO in GT, DU. rewrite <- ES in GT.
  destruct (out_days rl (yearordinal (c_ii s)) (py_slice ds' st en) (period_times r 0) cnt (c_out s))
    as [[o1 c1] s1] eqn:EOD.
  destruct (sp_take r (step_items r k) cnt (c_out s)) as [[a1 c1'] b1] eqn:ET.
  destruct GT as (G1 & G2 & G3). subst a1.
  exists ds, ds', (existsb rej (zrange st en)), o1, c1, s1, c1', b1.
  split; [exact G|]. split; [exact FL|]. split; [exact EOD|]. split; [reflexivity|].
  split; [exact G2|]. split; [exact G3|]. intros AU. apply (DU AU).
Qed.

Lemma monthly_advance : forall r rl k cnt s filtered c1 out1,
  normalize r = Ok rl -> mfam r -> at_pass_m r rl k cnt s ->
  (exists s', advance rl s filtered c1 out1 = Ok (AdvGo s') /\ at_pass_m r rl (k + 1) c1 s' /\ c_out s' = out1) \/
  (advance rl s filtered c1 out1 = Ok AdvMax /\
   exists y' m', 1 <= m' <= 12 /\ 9999 < y' /\ y' * 12 + (m' - 1) = midx r (k + 1)).
Proof.
  intros r rl k cnt s filtered c1 out1 HN [HW Hfr Hp Hsp Hs He] (Am & Ay & Ai & Ar & At & Ac).
  destruct (normalize_misc r rl HN) as (Ni & _ & _ & _ & _ & _ & _).
  pose proof (normalize_freq r rl HN) as Nfr. rewrite Hfr in Nfr.
  pose proof (normalize_wkst r rl HN) as Nwk.
  pose proof (plain_only_no_nth r rl HN Hp) as TN.
  destruct (normalize_fields r rl HN) as (_ & _ & _ & _ & _ & Nea & _).
  assert (TE : truthy (byeaster rl) = false) by (rewrite Nea, He; reflexivity).
  assert (Hwf : 1 <= r_interval r /\ 0 <= r_wkst r <= 6).
  { pose proof HW as HW'. unfold spec_wf in HW'.
    repeat match type of HW' with _ && _ = true =>
      let H := fresh "W" in apply andb_true_iff in HW'; destruct HW' as [HW' H] end.
    unfold between in *. lia. }
  destruct Hwf as [Hitv Hwk].
  rewrite (advance_monthly_is_carry rl s filtered c1 out1 Nfr).
  pose proof (monthly_carry_correct (c_year s) (c_month s) (interval rl) Am ltac:(rewrite Ni; lia)) as MC.
  destruct (monthly_carry (c_year s) (c_month s) (interval rl)) as [m' y'] eqn:EMC. destruct MC as [Hm' Hidx].
  assert (Hidx' : y' * 12 + (m' - 1) = midx r (k + 1)).
  { rewrite Hidx, Ai, Ni. unfold midx. ring. }
  assert (Hyge : c_year s <= y').
  { unfold monthly_carry in EMC. destruct (12 <? c_month s + interval rl); [|inversion EMC; lia].
    destruct ((c_month s + interval rl) mod 12 =? 0); inversion EMC; subst; rewrite Ni in *; lia. }
  destruct ((12 <? c_month s + interval rl) && (T_MAXYEAR <? y')) eqn:EMX.
  - right. split; [reflexivity|]. exists y', m'. unfold T_MAXYEAR in EMX.
    split; [exact Hm'|]. split; [lia|exact Hidx'].
  - assert (Hy' : 1 <= y' <= 9999).
    { unfold T_MAXYEAR in EMX. unfold monthly_carry in EMC.
      destruct (12 <? c_month s + interval rl) eqn:E12; [cbn [andb] in EMX; lia|inversion EMC; lia]. }
    destruct (rebuild_succeeds rl y' m' Hy' ltac:(rewrite Nwk; exact Hwk) TN (or_introl TE)) as (ii2 & R2).
    assert (R2' : rebuild rl (c_ii s) y' m' = Ok ii2).
    { destruct (Z.eq_dec y' (c_year s)) as [->|Hne].
      - rewrite (rebuild_same_year rl (c_year s) (c_month s) m' (c_ii s) Ar Ay TN). exact R2.
      - destruct (rebuild_slots rl _ _ (c_ii s) Ay Ar) as (LY & EM).
        destruct (rebuild_char rl _ _ (c_ii s) Ay Ar) as (_ & CN & _).
        rewrite rebuild_from_previous_year; [exact R2| | exact TN | apply CN; exact TN | right; apply EM; exact TE].
        rewrite LY. unfold opt_neqb. apply negb_true_iff. apply Z.eqb_neq. lia. }
    rewrite R2'. cbn [bind]. unfold finish_advance. cbn [andb].
    left. eexists. split; [reflexivity|]. split; [|reflexivity].
    unfold at_pass_m. cbn [c_year c_month c_ii c_timeset c_count].
    split; [exact Hm'|]. split; [exact Hy'|]. split; [exact Hidx'|]. split; [exact R2|]. split; [exact At|reflexivity].
Qed.

Lemma monthly_step : forall r rl k cnt s,
  normalize r = Ok rl -> mfam r -> at_pass_m r rl k cnt s ->
  exists acc' cnt' b, sp_take r (step_items r k) cnt (c_out s) = (acc', cnt', b) /\
    ((exists s', step rl s = inl s' /\ at_pass_m r rl (k + 1) cnt' s' /\ c_out s' = acc' /\ b = false) \/
     (exists t, step rl s = inr (acc', t) /\
                (b = true \/ until_lt_start r \/
                 exists y' m', 1 <= m' <= 12 /\ 9999 < y' /\ y' * 12 + (m' - 1) = midx r (k + 1)))) /\
    (sp_after_until r (ord_of_ymd (c_year s) (c_month s) 1, 0) = true -> acc' = c_out s).
Proof.
  intros r rl k cnt s HN Y A.
  pose proof Y as [HW Hfr Hp Hsp Hs He].
  destruct (normalize_misc r rl HN) as (_ & Nsp & _ & _ & _ & _ & _).
  destruct (monthly_pass_full r rl k cnt s HN Y A)
    as (ds & ds' & f & out' & c1 & s1 & c1' & b1 & E1 & E2 & E3 & E4 & G2 & G3 & G4).
  pose proof A as (Am & Ay & Ai & Ar & At & Ac).
  exists out', c1', b1. split; [exact E4|]. split; [|exact G4].
  assert (PRE : step rl s =
    match s1 with
    | Some t => inr (out', t)
    | None => match advance rl s f c1 out' with
              | Err e => inr (out', TRaised e)
              | Ok AdvMax => inr (out', TMaxYear)
              | Ok AdvFuel => inr (out', TOutOfFuel)
              | Ok (AdvGo s') => inl s'
              end
    end).
  { unfold step. rewrite E1. cbn [bind]. rewrite E2. cbn [bind fst snd].
    rewrite Nsp, Hsp. cbn [truthy andb]. rewrite At, Ac. rewrite E3. reflexivity. }
  destruct s1 as [t|].
  - right. exists t. split; [exact PRE|]. destruct (G3 ltac:(discriminate)) as [H|H]; auto.
  - destruct (G2 eq_refl) as [Hb Ec]. subst c1'.
    destruct (monthly_advance r rl k cnt s f c1 out' HN Y A) as [(s' & EA & A' & EO)|(EA & Hmax)].
    + left. exists s'. rewrite PRE, EA. split; [reflexivity|]. split; [exact A'|]. split; [exact EO|exact Hb].
    + right. exists TMaxYear. rewrite PRE, EA. split; [reflexivity|]. right. right. exact Hmax.
Qed.

Lemma spec_loop_beyond_monthly r limit n k cnt acc y' m' :
  r_freq r = MONTHLY -> 1 <= m' <= 12 -> 9999 < y' -> y' * 12 + (m' - 1) = midx r k ->
  fst (spec_loop r limit n k cnt acc) = acc.
Proof.
  intros Hfr Hm Hy Hi. destruct n as [|n]; cbn [spec_loop]; [reflexivity|].
  destruct (limit <=? zlen acc); [reflexivity|].
  rewrite (step_lo_monthly r k y' m' Hfr Hm Hi).
  assert (B : max_ord < ord_of_ymd y' m' 1).
  { unfold ord_of_ymd. assert (days_before_year 10000 <= days_before_year y') by (apply days_before_year_mono; lia).
    change (days_before_year 10000) with 3652059 in *.
    pose proof (dbm_mono y' 1 m' ltac:(lia) ltac:(lia) ltac:(lia)) as M1. rewrite dbm_1 in M1.
    unfold max_ord. lia. }
  replace (max_ord <? ord_of_ymd y' m' 1) with true by lia. reflexivity.
Qed.

Lemma month_start_mono y m y2 m2 : 1 <= m <= 12 -> 1 <= m2 <= 12 ->
  y * 12 + (m - 1) <= y2 * 12 + (m2 - 1) -> ord_of_ymd y m 1 <= ord_of_ymd y2 m2 1.
Proof.
  intros Hm Hm2 H. unfold ord_of_ymd.
  destruct (Z_lt_ge_dec y y2) as [L|L].
  - pose proof (days_before_year_strict y y2 L). pose proof (dbm_mono y m 13 ltac:(lia) ltac:(lia) ltac:(lia)) as A.
    rewrite dbm_13 in A. pose proof (dbm_mono y2 1 m2 ltac:(lia) ltac:(lia) ltac:(lia)) as B. rewrite dbm_1 in B.
    assert (days_before_year (y + 1) <= days_before_year y2) by (apply days_before_year_mono; lia).
    rewrite days_before_year_succ in *. lia.
  - assert (y = y2) by lia. subst y2. pose proof (dbm_mono y m m2 ltac:(lia) ltac:(lia) ltac:(lia)). lia.
Qed.

Lemma monthly_run_dead_until : forall r rl limit n k cnt s,
  normalize r = Ok rl -> mfam r -> at_pass_m r rl k cnt s -> 0 <= k ->
  sp_after_until r (ord_of_ymd (c_year s) (c_month s) 1, 0) = true ->
  fst (run rl limit n s) = c_out s.
Proof.
  intros r rl limit n. induction n as [|n IH]; intros k cnt s HN Y A Hk AU; cbn [run].
  - reflexivity.
  - destruct (limit <=? zlen (c_out s)); [reflexivity|].
    pose proof Y as [HW Hfr Hp Hsp Hs He]. pose proof (wf_itv r HW) as Hitv.
    destruct (monthly_step r rl k cnt s HN Y A) as (acc' & cnt' & b & ET & Hcase & Hau).
    specialize (Hau AU).
    destruct Hcase as [(s' & ES & A' & EO & Eb)|(t & ES & _)].
    + rewrite ES. rewrite (IH (k + 1) cnt' s' HN Y A' ltac:(lia)).
      * rewrite EO. exact Hau.
      * apply (after_until_mono r _ _ AU). unfold inst_le. cbn [fst snd].
        destruct A as (Am & _ & Ai & _). destruct A' as (Am' & _ & Ai' & _).
        pose proof (month_start_mono (c_year s) (c_month s) (c_year s') (c_month s') Am Am'
                      ltac:(rewrite Ai, Ai'; unfold midx; nia)). lia.
    + rewrite ES. cbn [fst]. exact Hau.
Qed.

Lemma monthly_run_is_spec : forall r rl limit n k cnt s,
  normalize r = Ok rl -> mfam r -> at_pass_m r rl k cnt s -> 0 <= k ->
  fst (run rl limit n s) = fst (spec_loop r limit n k cnt (c_out s)).
Proof.
  intros r rl limit n. induction n as [|n IH]; intros k cnt s HN Y A Hk.
  - reflexivity.
  - pose proof Y as [HW Hfr Hp Hsp Hs He]. pose proof (wf_itv r HW) as Hitv.
    pose proof A as (Am & Ay & Ai & Ar & At & Ac).
    assert (B : ord_of_ymd (c_year s) (c_month s) 1 <= max_ord).
    { assert (V : valid_ymd (c_year s) (c_month s) 1 = true).
      { unfold valid_ymd. pose proof (dim_pos (c_year s) (c_month s)). lia. }
      pose proof (ord_of_ymd_range _ _ _ V). lia. }
    pose proof (step_lo_monthly r k (c_year s) (c_month s) Hfr Am Ai) as SL.
    destruct (sp_after_until r (ord_of_ymd (c_year s) (c_month s) 1, 0)) eqn:AU.
    + rewrite (monthly_run_dead_until r rl limit (S n) k cnt s HN Y A Hk AU).
      cbn [spec_loop]. destruct (limit <=? zlen (c_out s)); [reflexivity|].
      rewrite SL. replace (max_ord <? ord_of_ymd (c_year s) (c_month s) 1) with false by lia.
      rewrite AU. reflexivity.
    + cbn [run spec_loop]. destruct (limit <=? zlen (c_out s)); [reflexivity|].
      rewrite SL. replace (max_ord <? ord_of_ymd (c_year s) (c_month s) 1) with false by lia. rewrite AU.
      destruct (match cnt with Some c => c <=? 0 | None => false end) eqn:EC.
      * destruct cnt as [c|]; [|discriminate EC].
        assert (D : dead s) by (exists c; split; [exact Ac|lia]).
        pose proof (step_dead rl s D) as SD. destruct (step rl s) as [s'|[out t]].
        -- destruct SD as [E D']. rewrite (run_dead rl limit n s' D'). exact E.
        -- exact SD.
      * destruct (monthly_step r rl k cnt s HN Y A) as (acc' & cnt' & b & ET & Hcase & _).
        rewrite ET. destruct Hcase as [(s' & ES & A' & EO & Eb)|(t & ES & Hb)].
        -- rewrite ES. subst b. rewrite <- EO. apply IH; try assumption. lia.
        -- rewrite ES. cbn [fst]. destruct b; [reflexivity|].
           destruct Hb as [Hb|[UL|(y' & m' & Hm' & Hy' & Hi')]]; [discriminate Hb| |].
           ++ symmetry. apply (spec_loop_dead_until r limit UL).
           ++ symmetry. apply (spec_loop_beyond_monthly r limit n (k + 1) cnt' acc' y' m' Hfr Hm' Hy' Hi').
Qed.

(* rrule_iter_correct for the MONTHLY family: every fuel *)
Theorem monthly_iter_correct : forall r rl limit n,
  normalize r = Ok rl -> mfam r ->
  fst (iterate rl limit n) = fst (spec_iter r limit n).
Proof.
  intros r rl limit n HN Y.
  pose proof Y as [HW Hfr Hp Hsp Hs He].
  destruct (normalize_misc r rl HN) as (Ni & Nsp & Ny & Nm & Nd & Nc & Nu).
  pose proof (normalize_freq r rl HN) as Nfr. rewrite Hfr in Nfr.
  pose proof (normalize_wkst r rl HN) as Nwk.
  pose proof (plain_only_no_nth r rl HN Hp) as TN.
  destruct (normalize_fields r rl HN) as (_ & _ & _ & _ & _ & Nea & _).
  assert (TE : truthy (byeaster rl) = false) by (rewrite Nea, He; reflexivity).
  assert (Hwf : 0 <= r_wkst r <= 6 /\ valid_ymd (r_y r) (r_m r) (r_d r) = true).
  { pose proof HW as HW'. unfold spec_wf in HW'.
    repeat match type of HW' with _ && _ = true =>
      let H := fresh "W" in apply andb_true_iff in HW'; destruct HW' as [HW' H] end.
    unfold between in *. split; [lia|assumption]. }
  destruct Hwf as [Hwk V].
  destruct (index_in_year _ _ _ V) as (_ & _ & Hy0).
  assert (Hm0 : 1 <= r_m r <= 12) by (unfold valid_ymd in V; lia).
  destruct (rebuild_succeeds rl (r_y r) (r_m r) Hy0 ltac:(rewrite Nwk; exact Hwk) TN (or_introl TE)) as (ii0 & R0).
  pose proof (timeset_is_spec r rl HN HW ltac:(rewrite Hfr; reflexivity)) as HT.
  unfold iterate, init_state. rewrite Nfr. change (MONTHLY =? WEEKLY) with false. cbn [andb]. cbv iota.
  rewrite Ny, Nm, Nd, R0. cbn [bind].
  change (MONTHLY <? HOURLY) with true. cbv iota. rewrite HT. cbn [bind]. rewrite Nc.
  unfold spec_iter.
  set (s0 := mkSt _ _ _ _ _ _ _ _ _ _ _).
  assert (A0 : at_pass_m r rl 0 (r_count r) s0).
  { unfold at_pass_m, s0, midx. cbn [c_year c_month c_ii c_timeset c_count].
    split; [exact Hm0|]. split; [exact Hy0|]. split; [ring|]. split; [exact R0|]. split; reflexivity. }
  pose proof (monthly_run_is_spec r rl limit n 0 (r_count r) s0 HN Y A0 ltac:(lia)) as Q.
  change (c_out s0) with (@nil instant) in Q.
  destruct (run rl limit n s0) as [out t]. destruct (spec_loop r limit n 0 (r_count r) []) as [acc t'].
  cbn [fst] in *. rewrite Q. reflexivity.
Qed.

(* non-vacuity: rrule(MONTHLY, dtstart=datetime(2023,11,30,9,0), interval=2, bymonthday=(30,-1),
   byweekday=(TU,WE,TH), count=4): crosses the year end, skips February's 30th *)
Definition raw_monthly_example : raw :=
  mkRaw MONTHLY false 2023 11 30 9 0 0 2 0 (Some 4) None false
        None None (Some [30; -1]) None None None (Some [(1, 0); (2, 0); (3, 0)]) None None None.
Example monthly_example :
  mfam raw_monthly_example /\
  match normalize raw_monthly_example with
  | Ok rl => fst (iterate rl 100 40) = fst (spec_iter raw_monthly_example 100 40) /\
             length (fst (iterate rl 100 40)) = 4%nat
  | Err _ => False
  end.
Proof. split; [constructor; reflexivity|vm_compute; split; reflexivity]. Qed.
