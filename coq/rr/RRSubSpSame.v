(* C01 layer 7, sub-daily families WITH BYSETPOS, final statements (top level, no section
   variables): for HOURLY / MINUTELY / SECONDLY rules of the family `sfam_s` (spec_wf, no nth
   weekday, BYWEEKNO in the safe range, no BYEASTER; BYSETPOS arbitrary) `iterate` and
   RRSpec.spec_iter enumerate ONE AND THE SAME stream, unbounded in limit / fuel / days.
   These subsume the theorems of RRSubCloseFam / RRSubStopFam / RRSubSame (sfam r fr -> sfam_s r fr).
   Written by the rset builder (new file). *)
From Coq Require Import ZArith List Bool Lia.
From V Require Import base.Cal rr.RRBase rr.RRNorm rr.RRIter rr.RRSpec rr.RRSubFamily rr.RRSubStopFam
  rr.RRSubSpecCoh rr.RRSubSpBase rr.RRSubSpFam.
Import ListNotations.
Open Scope Z_scope.

Theorem subdaily_sp_prefix_of_spec : forall r rl fr, normalize r = Ok rl -> sfam_s r fr ->
  fr = HOURLY \/ fr = MINUTELY \/ fr = SECONDLY ->
  forall limit n, exists L d rest, fst (spec_iter r L d) = fst (iterate rl limit n) ++ rest.
Proof. exact prefix_of_spec_sp. Qed.

Theorem subdaily_sp_spec_prefix_of_iterate : forall r rl fr, normalize r = Ok rl -> sfam_s r fr ->
  fr = HOURLY \/ fr = MINUTELY \/ fr = SECONDLY ->
  forall L d, exists limit n rest, fst (iterate rl limit n) = fst (spec_iter r L d) ++ rest.
Proof. exact spec_prefix_of_iterate_sp. Qed.

Theorem subdaily_sp_iter_correct_family : forall r rl fr, normalize r = Ok rl -> sfam_s r fr ->
  fr = HOURLY \/ fr = MINUTELY \/ fr = SECONDLY ->
  forall i x,
    (exists limit n, nth_error (fst (iterate rl limit n)) i = Some x) <->
    (exists L d, nth_error (fst (spec_iter r L d)) i = Some x).
Proof.
  intros r rl fr Hn HF Hfr i x. split.
  - intros (limit & n & H).
    destruct (subdaily_sp_prefix_of_spec r rl fr Hn HF Hfr limit n) as (L & d & rest & E).
    exists L, d. rewrite E. apply nth_error_app_some. exact H.
  - intros (L & d & H).
    destruct (subdaily_sp_spec_prefix_of_iterate r rl fr Hn HF Hfr L d) as (limit & n & rest & E).
    exists limit, n. rewrite E. apply nth_error_app_some. exact H.
Qed.

Theorem subdaily_sp_iterate_spec_comparable : forall r rl fr, normalize r = Ok rl -> sfam_s r fr ->
  fr = HOURLY \/ fr = MINUTELY \/ fr = SECONDLY ->
  forall limit n L d,
    is_prefix (fst (iterate rl limit n)) (fst (spec_iter r L d)) \/
    is_prefix (fst (spec_iter r L d)) (fst (iterate rl limit n)).
Proof.
  intros r rl fr Hn HF Hfr limit n L d.
  destruct (subdaily_sp_prefix_of_spec r rl fr Hn HF Hfr limit n) as (L1 & d1 & rest & E).
  assert (P1 : is_prefix (fst (iterate rl limit n)) (fst (spec_iter r L1 d1))) by (exists rest; exact E).
  destruct (spec_iter_comparable r L d L1 d1) as [P|P].
  - apply (prefixes_comparable _ _ _ (fst (spec_iter r L1 d1)) P1 P).
  - left. apply (is_prefix_trans _ _ _ _ P1 P).
Qed.

Theorem subdaily_sp_nth_agree : forall r rl fr, normalize r = Ok rl -> sfam_s r fr ->
  fr = HOURLY \/ fr = MINUTELY \/ fr = SECONDLY ->
  forall limit n L d i x y,
    nth_error (fst (iterate rl limit n)) i = Some x ->
    nth_error (fst (spec_iter r L d)) i = Some y -> x = y.
Proof.
  intros r rl fr Hn HF Hfr limit n L d i x y Hx Hy.
  destruct (subdaily_sp_iterate_spec_comparable r rl fr Hn HF Hfr limit n L d) as [P|P].
  - apply (is_prefix_nth _ _ _ i x y P Hx Hy).
  - symmetry. apply (is_prefix_nth _ _ _ i y x P Hy Hx).
Qed.

(* non-vacuity, both checked against the real dateutil:
   rrule(HOURLY, dtstart=datetime(2023,12,31,22,20), byminute=(0,15,30,45), bysetpos=(2,-1),
         byweekday=(MO,), count=5): the second and the last of the four quarter hours of every hour of
   Monday 2024-01-01 (Sunday's hours are filtered, the year changes in between) *)
Definition raw_hourly_setpos_example : raw :=
  mkRaw HOURLY false 2023 12 31 22 20 0 1 0 (Some 5) None false
        (Some [2; -1]) None None None None None (Some [(0, 0)]) None (Some [0; 15; 30; 45]) None.
Example hourly_setpos_example :
  sfam_s raw_hourly_setpos_example HOURLY /\
  match normalize raw_hourly_setpos_example with
  | Ok rl => fst (iterate rl 100 40) =
             [(738886, 900); (738886, 2700); (738886, 4500); (738886, 6300); (738886, 8100)] /\
             fst (spec_iter raw_hourly_setpos_example 100 5) = fst (iterate rl 100 40)
  | Err _ => False
  end.
Proof. split; [constructor; reflexivity|vm_compute; split; reflexivity]. Qed.

(* rrule(MINUTELY, dtstart=datetime(2024,2,29,23,58,10), bysecond=(5,10,20,50), bysetpos=(-2,1,1),
         count=5): a duplicate position, a selected instant before dtstart (23:58:05) that is dropped,
   the leap day's end *)
Definition raw_minutely_setpos_example : raw :=
  mkRaw MINUTELY false 2024 2 29 23 58 10 1 0 (Some 5) None false
        (Some [-2; 1; 1]) None None None None None None None None (Some [5; 10; 20; 50]).
Example minutely_setpos_example :
  sfam_s raw_minutely_setpos_example MINUTELY /\
  match normalize raw_minutely_setpos_example with
  | Ok rl => fst (iterate rl 100 40) =
             [(738945, 86300); (738945, 86345); (738945, 86360); (738946, 5); (738946, 20)] /\
             fst (spec_iter raw_minutely_setpos_example 100 5) = fst (iterate rl 100 40)
  | Err _ => False
  end.
Proof. split; [constructor; reflexivity|vm_compute; split; reflexivity]. Qed.
