(* C01 layer 2 -- the week-number mask built for a LIST of BYWEEKNO members is the pointwise union
   of the masks built for its single members (for every list, by induction; no bound), and the
   closed formula of build_wnomask_core in terms of its three phases. *)
From Coq Require Import ZArith List Bool Lia.
From V Require Import base.Cal gen.RrTables rr.RRBase rr.RRNorm rr.RRMasks rr.RROverlay.
Import ListNotations.
Open Scope Z_scope.

Definition nzb (v : Z) : bool := negb (v =? 0).
Definition zeros (n : nat) : list Z := repeat 0 n.

Lemma nth_zeros j n : nth j (zeros n) 0 = 0.
Proof. revert j. induction n as [|n IH]; intros [|j]; cbn; auto. Qed.

(* fold of additive operations over a list, started on zeros: pointwise union *)
Lemma fold_additive_pointwise {X} (ops : list Z -> X -> res (list Z)) (len : nat) (a : X -> list Z) :
  (forall x, additive (fun m => ops m x)) ->
  forall l, (forall x, In x l -> ops (zeros len) x = Ok (a x)) ->
  exists m, fold_res ops l (zeros len) = Ok m /\ length m = len /\
            forall j, nzb (nth j m 0) = existsb (fun x => nzb (nth j (a x) 0)) l.
Proof.
  intros Hadd. induction l as [|x t IH]; intros Hok.
  - exists (zeros len). cbn [fold_res existsb]. split; [reflexivity|]. split; [apply repeat_length|].
    intros j. rewrite nth_zeros. reflexivity.
  - cbn [fold_res]. rewrite (Hok x (or_introl eq_refl)). cbn [bind].
    destruct (IH (fun y Hy => Hok y (or_intror Hy))) as (mt & Et & Lt & Pt).
    assert (La : length (a x) = len).
    { destruct (Hadd x) as [_ H2]. rewrite (H2 _ _ (Hok x (or_introl eq_refl))). apply repeat_length. }
    pose proof (additive_on_zeros (fun m => fold_res ops t m) (a x) (additive_fold ops t Hadd)) as Z.
    cbn beta in Z. rewrite La in Z. fold (zeros len) in Z. rewrite Et in Z. cbn [lift] in Z.
    exists (overlay (a x) mt). split; [exact Z|]. split; [rewrite overlay_length; lia|].
    intros j. cbn [existsb]. unfold nzb in *. rewrite nth_overlay by lia. rewrite Pt. reflexivity.
Qed.

Section Build.
Variables (lylen nylen ylen ywd wk : Z) (wdm : list Z).

Definition firstwkst := (7 - ywd + wk) mod 7.
Definition no1wkst := if 4 <=? firstwkst then 0 else firstwkst.
Definition wyearlen := if 4 <=? firstwkst then ylen + (ywd - wk) mod 7 else ylen - firstwkst.
Definition numweeks := wyearlen / 7 + (wyearlen mod 7) / 4.
Definition len0 : nat := Z.to_nat (ylen + 7).

(* phase 1, one member *)
Definition f_op (mask : list Z) (n : Z) : res (list Z) :=
  let n' := if n <? 0 then n + numweeks + 1 else n in
  if negb ((0 <? n') && (n' <=? numweeks)) then Ok mask else
  let i := if 1 <? n' then
             (let i0 := no1wkst + (n' - 1) * 7 in
              if negb (no1wkst =? firstwkst) then i0 - (7 - firstwkst) else i0)
           else no1wkst in
  mark_week 7 wdm wk mask i.
(* phase 2: week 1 of next year, also addressed as -(number of weeks of next year) *)
Definition nnumweeks : Z :=
  let nyearweekday := (ywd + ylen) mod 7 in
  let nno1wkst := (7 - nyearweekday + wk) mod 7 in
  let nwyearlen := if 4 <=? nno1wkst then nylen + (nyearweekday - wk) mod 7 else nylen - nno1wkst in
  nwyearlen / 7 + (nwyearlen mod 7) / 4.
Definition c2 (n : Z) : bool := (n =? 1) || (n =? - nnumweeks).
Definition g_op (mask : list Z) : res (list Z) :=
  let i0 := no1wkst + numweeks * 7 in
  let i := if negb (no1wkst =? firstwkst) then i0 - (7 - firstwkst) else i0 in
  if i <? ylen then mark_week 7 wdm wk mask i else Ok mask.
(* phase 3: last week of last year *)
Definition h_op (mask : list Z) : res (list Z) :=
  fold_res (fun mask i => py_set mask i 1) (zrange 0 no1wkst) mask.
Definition lnum_c : Z :=
  let lywd := (ywd - lylen) mod 7 in
  let lno1wkst := (7 - lywd + wk) mod 7 in
  if 4 <=? lno1wkst then 52 + ((lylen + (lywd - wk) mod 7) mod 7) / 4
  else (let lwyearlen := lylen - lno1wkst in lwyearlen / 7 + (lwyearlen mod 7) / 4).
Definition c3 (n : Z) : bool := (n =? -1) || (n =? lnum_c).

Lemma memZ_or (a b : Z) L :
  memZ a L || memZ b L = existsb (fun n => (n =? a) || (n =? b)) L.
Proof.
  unfold memZ. induction L as [|x t IH]; cbn [existsb]; [reflexivity|]. rewrite <- IH.
  rewrite (Z.eqb_sym a x), (Z.eqb_sym b x).
  destruct (x =? a), (x =? b), (existsb (Z.eqb a) t), (existsb (Z.eqb b) t); reflexivity.
Qed.

Lemma memZ_if (c : Z) L :
  memZ (if negb (memZ (-1) L) then c else -1) L = existsb (fun n => (n =? -1) || (n =? c)) L.
Proof.
  rewrite <- memZ_or. destruct (memZ (-1) L) eqn:E; cbn [negb orb]; [exact E|reflexivity].
Qed.

Lemma build_unfold L :
  build_wnomask_core lylen nylen ylen ywd wk wdm L =
  do m1 <- fold_res f_op L (zeros len0);
  do m2 <- (if existsb c2 L then g_op m1 else Ok m1);
  if negb (no1wkst =? 0) then
    if existsb c3 L then h_op m2 else Ok m2
  else Ok m2.
Proof.
  unfold build_wnomask_core, f_op, g_op, h_op, c2, c3, nnumweeks, lnum_c, no1wkst, numweeks, wyearlen,
    firstwkst, len0, zeros, py_repeat. cbv zeta.
  rewrite memZ_or.
  destruct (4 <=? (7 - ywd + wk) mod 7) eqn:E4.
  - reflexivity.
  - destruct (fold_res _ L _) as [m1|e]; cbn [bind]; [|reflexivity].
    destruct (if existsb _ L then _ else _) as [m2|e]; cbn [bind]; [|reflexivity].
    destruct (negb ((7 - ywd + wk) mod 7 =? 0)); [|reflexivity].
    rewrite memZ_if. reflexivity.
Qed.

Lemma additive_f n : additive (fun m => f_op m n).
Proof.
  unfold f_op. destruct (negb _); [apply additive_id|apply additive_mark_week].
Qed.
Lemma additive_g : additive g_op.
Proof. unfold g_op. destruct (_ <? ylen); [apply additive_mark_week|apply additive_id]. Qed.
Lemma additive_h : additive h_op.
Proof. unfold h_op. apply additive_fold. intros i. apply additive_py_set. Qed.

Definition build (L : list Z) := build_wnomask_core lylen nylen ylen ywd wk wdm L.
Definition bit (L : list Z) (j : nat) : bool :=
  match build L with Ok m => nzb (nth j m 0) | Err _ => false end.

(* the closed formula, given that the three phases run without IndexError on the zero mask *)
Lemma build_formula (a : Z -> list Z) (g h : list Z) L :
  (forall n, In n L -> f_op (zeros len0) n = Ok (a n)) ->
  g_op (zeros len0) = Ok g -> h_op (zeros len0) = Ok h ->
  exists m, build L = Ok m /\ length m = len0 /\
    forall j, nzb (nth j m 0) =
      existsb (fun n => nzb (nth j (a n) 0)) L ||
      (existsb c2 L && nzb (nth j g 0)) ||
      (negb (no1wkst =? 0) && existsb c3 L && nzb (nth j h 0)).
Proof.
  intros HA HG HH. unfold build. rewrite build_unfold.
  destruct (fold_additive_pointwise f_op len0 a additive_f L HA) as (m1 & E1 & L1 & P1).
  rewrite E1. cbn [bind].
  assert (Lg : length g = len0).
  { destruct additive_g as [_ H2]. rewrite (H2 _ _ HG). apply repeat_length. }
  assert (Lh : length h = len0).
  { destruct additive_h as [_ H2]. rewrite (H2 _ _ HH). apply repeat_length. }
  assert (G1 : g_op m1 = Ok (overlay m1 g)).
  { rewrite (additive_on_zeros g_op m1 additive_g). rewrite L1. fold (zeros len0). rewrite HG. reflexivity. }
  set (m2 := if existsb c2 L then overlay m1 g else m1).
  assert (E2 : (if existsb c2 L then g_op m1 else Ok m1) = Ok m2).
  { unfold m2. destruct (existsb c2 L); [exact G1|reflexivity]. }
  assert (L2 : length m2 = len0).
  { unfold m2. destruct (existsb c2 L); [rewrite overlay_length; lia|exact L1]. }
  assert (P2 : forall j, nzb (nth j m2 0) =
            existsb (fun n => nzb (nth j (a n) 0)) L || (existsb c2 L && nzb (nth j g 0))).
  { intros j. unfold m2. destruct (existsb c2 L); cbn [andb].
    - unfold nzb. rewrite nth_overlay by lia. fold (nzb (nth j m1 0)). rewrite P1. reflexivity.
    - rewrite orb_false_r. apply P1. }
  rewrite E2. cbn [bind].
  assert (H1 : h_op m2 = Ok (overlay m2 h)).
  { rewrite (additive_on_zeros h_op m2 additive_h). rewrite L2. fold (zeros len0). rewrite HH. reflexivity. }
  destruct (negb (no1wkst =? 0)); cbn [andb].
  - destruct (existsb c3 L); cbn [andb].
    + exists (overlay m2 h). split; [exact H1|]. split; [rewrite overlay_length; lia|].
      intros j. unfold nzb. rewrite nth_overlay by lia. fold (nzb (nth j m2 0)). rewrite P2. reflexivity.
    + exists m2. split; [reflexivity|]. split; [exact L2|]. intros j. rewrite orb_false_r. apply P2.
  - exists m2. split; [reflexivity|]. split; [exact L2|]. intros j. rewrite orb_false_r. apply P2.
Qed.

(* union theorem: for every list, the mask is the pointwise union of the single-member masks *)
Theorem build_union (g h : list Z) :
  g_op (zeros len0) = Ok g -> h_op (zeros len0) = Ok h ->
  forall L, (forall n, In n L -> exists a, f_op (zeros len0) n = Ok a) ->
  exists m, build L = Ok m /\ length m = len0 /\
            forall j, nzb (nth j m 0) = existsb (fun n => bit [n] j) L.
Proof.
  intros HG HH L HA.
  (* choose the phase-1 results *)
  set (a := fun n => match f_op (zeros len0) n with Ok x => x | Err _ => [] end).
  assert (HA' : forall n, In n L -> f_op (zeros len0) n = Ok (a n)).
  { intros n Hn. destruct (HA n Hn) as (x & Ex). unfold a. rewrite Ex. reflexivity. }
  destruct (build_formula a g h L HA' HG HH) as (m & Em & Lm & Pm).
  exists m. split; [exact Em|]. split; [exact Lm|].
  intros j. rewrite Pm.
  assert (S : forall n, In n L -> bit [n] j =
     nzb (nth j (a n) 0) || (c2 n && nzb (nth j g 0)) ||
     (negb (no1wkst =? 0) && c3 n && nzb (nth j h 0))).
  { intros n Hn.
    assert (HA1 : forall x, In x [n] -> f_op (zeros len0) x = Ok (a x)).
    { intros x [<-|[]]. apply HA'. exact Hn. }
    destruct (build_formula a g h [n] HA1 HG HH) as (mn & En & _ & Pn).
    unfold bit. rewrite En. rewrite Pn. cbn [existsb].
    rewrite !orb_false_r. reflexivity. }
  clear Pm Em HA HA'. induction L as [|x t IH]; cbn [existsb].
  - cbn. rewrite andb_false_r. reflexivity.
  - rewrite (S x (or_introl eq_refl)).
    rewrite <- (IH (fun n Hn => S n (or_intror Hn))).
    destruct (nzb (nth j (a x) 0)), (c2 x), (nzb (nth j g 0)), (negb (no1wkst =? 0)), (c3 x),
      (nzb (nth j h 0)), (existsb (fun n => nzb (nth j (a n) 0)) t), (existsb c2 t),
      (existsb c3 t); reflexivity.
Qed.
End Build.
