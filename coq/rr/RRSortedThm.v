(* C01 -- "in order": the specification's sequence is strictly increasing for every rule of its domain
   with FREQ coarser than HOURLY (periods are disjoint and ascending, the candidates of a period are the
   lexicographic product of ascending days and ascending times, BYSETPOS and the start filter keep a
   sub-sequence, COUNT / UNTIL keep a prefix).  With the loop theorems this gives
   rrule_strictly_increasing / rrule_nodup for the model inside the proved families. *)
From Coq Require Import ZArith List Bool Lia ZifyBool.
From V Require Import base.Cal rr.RRBase rr.RRNorm rr.RRSpec rr.RRTimesetThm rr.RRWeekCal rr.RRYearlyUntilThm
  rr.RRPassThm rr.RRMonthlyThm rr.RRSetposThm rr.RRCoarseRun.
Import ListNotations.
Ltac Zify.zify_post_hook ::= Z.to_euclidean_division_equations.
Open Scope Z_scope.

Lemma isorted_filter p : forall l, isorted l -> isorted (filter p l).
Proof.
  induction l as [|x t IH]; intros S; cbn [filter]; [exact I|]. destruct S as [A S].
  destruct (p x); [|apply IH; exact S]. split; [|apply IH; exact S].
  intros y Hy. apply filter_In in Hy. apply A. apply Hy.
Qed.

Lemma isorted_NoDup : forall l, isorted l -> NoDup l.
Proof.
  induction l as [|x t IH]; intros S; [constructor|]. destruct S as [A S]. constructor; [|apply IH; exact S].
  intros Hx. apply (ilt_irrefl x). apply A. exact Hx.
Qed.

Lemma isorted_snoc_app : forall a b, isorted a -> isorted b -> (forall x y, In x a -> In y b -> fst x < fst y) ->
  isorted (a ++ b).
Proof.
  induction a as [|h t IH]; intros b Sa Sb H; cbn [app]; [exact Sb|].
  destruct Sa as [A Sa]. split.
  - intros y Hy. apply in_app_or in Hy. destruct Hy as [Hy|Hy]; [apply A; exact Hy|].
    left. apply H; [left; reflexivity|exact Hy].
  - apply IH; try assumption. intros x y Hx Hy. apply H; [right; exact Hx|exact Hy].
Qed.

Lemma isorted_prefix : forall a b, isorted (a ++ b) -> isorted a.
Proof.
  induction a as [|h t IH]; intros b S; [exact I|]. cbn [app] in S. destruct S as [A S]. split.
  - intros y Hy. apply A. apply in_or_app. left. exact Hy.
  - apply (IH b S).
Qed.

(* sp_take adds a prefix of its input, reversed *)
Lemma sp_take_shape r : forall xs cnt acc,
  exists pre suf, xs = pre ++ suf /\ fst (fst (sp_take r xs cnt acc)) = rev pre ++ acc.
Proof.
  induction xs as [|x t IH]; intros cnt acc; cbn [sp_take].
  - exists [], []. split; reflexivity.
  - destruct (sp_after_until r x); [exists [], (x :: t); split; reflexivity|].
    destruct cnt as [c|].
    + destruct (c <=? 0); [exists [], (x :: t); split; reflexivity|].
      destruct (IH (Some (c - 1)) (x :: acc)) as (pre & suf & E1 & E2).
      exists (x :: pre), suf. split; [cbn [app]; rewrite E1; reflexivity|].
      rewrite E2. cbn [rev]. rewrite <- app_assoc. reflexivity.
    + destruct (IH None (x :: acc)) as (pre & suf & E1 & E2).
      exists (x :: pre), suf. split; [cbn [app]; rewrite E1; reflexivity|].
      rewrite E2. cbn [rev]. rewrite <- app_assoc. reflexivity.
Qed.

(* ------------------------------------------------------------------ the candidates of one period *)
Section Sorted.
Variable r : raw.
Hypothesis HW : spec_wf r = true.
Hypothesis Hc : r_freq r <= DAILY.

Lemma coarse_flag : is_coarse r = true.
Proof. unfold is_coarse. lia. Qed.

Lemma cands_as_cand_list k :
  cands_coarse r k =
  cand_list 0 (period_times r 0)
    (filter (day_ok r) (zrange (Z.max (fst (period_days r k)) 1) (Z.min (snd (period_days r k)) max_ord + 1))).
Proof.
  unfold cands_coarse. destruct (period_days r k) as [lo hi]. cbn [fst snd]. rewrite flat_map_filter.
  unfold cand_list. apply flat_map_ext'. intros o _. apply map_ext. intros t. reflexivity.
Qed.

Lemma step_items_sorted k :
  isorted (step_items r k) /\
  forall x, In x (step_items r k) -> fst (period_days r k) <= fst x <= snd (period_days r k).
Proof.
  unfold step_items. rewrite coarse_flag. rewrite cands_as_cand_list.
  set (P := filter (day_ok r) _). set (ts := period_times r 0).
  assert (ST : ssorted ts = true).
  { apply period_times_sorted; [exact HW|]. unfold HOURLY, DAILY in *. lia. }
  assert (SC : isorted (cand_list 0 ts P)) by (apply cand_sorted; [apply ssorted_filter_zrange|exact ST]).
  split.
  - apply isorted_filter. unfold select_pos. destruct (r_bysetpos r); [apply select_pos_aux_sorted|]; exact SC.
  - intros x Hx. apply filter_In in Hx. destruct Hx as [Hx _].
    assert (HxC : In x (cand_list 0 ts P)).
    { unfold select_pos in Hx. destruct (r_bysetpos r); [apply (select_pos_aux_sub _ _ _ _ _ Hx)|exact Hx]. }
    unfold cand_list in HxC. apply in_flat_map in HxC. destruct HxC as (o & Ho & HxC).
    apply in_map_iff in HxC. destruct HxC as (t & <- & _). cbn [fst].
    unfold P in Ho. apply filter_In in Ho. destruct Ho as [Ho _]. unfold zrange in Ho.
    pose proof (In_zrange_nat_bounds _ _ _ Ho) as B. lia.
Qed.

(* periods are disjoint and ascending *)
Lemma period_hi_lt_next k : snd (period_days r k) < fst (period_days r (k + 1)).
Proof.
  pose proof (wf_itv r HW) as Hitv.
  assert (Hf : 0 <= r_freq r).
  { unfold spec_wf in HW. repeat match type of HW with _ && _ = true =>
      let H := fresh "W" in apply andb_true_iff in HW; destruct HW as [HW H] end. unfold between in *. lia. }
  unfold period_days.
  destruct (r_freq r =? YEARLY) eqn:EY.
  - cbn [fst snd]. fold (jan1 (r_y r + k * r_interval r + 1)). fold (jan1 (r_y r + (k + 1) * r_interval r)).
    pose proof (jan1_mono (r_y r + k * r_interval r + 1) (r_y r + (k + 1) * r_interval r) ltac:(nia)). lia.
  - destruct (r_freq r =? MONTHLY) eqn:EM.
    + cbv zeta. cbn [fst snd].
      set (i1 := r_y r * 12 + (r_m r - 1) + k * r_interval r).
      set (i2 := r_y r * 12 + (r_m r - 1) + (k + 1) * r_interval r).
      assert (Hi : i1 + 1 <= i2) by (unfold i1, i2; nia).
      destruct (first_of_month (i1 / 12) (i1 mod 12 + 1) ltac:(lia)) as [F1 F2].
      (* the first day of the following month *)
      assert (NX : ord_of_ymd (i1 / 12) (i1 mod 12 + 1) 1 + dim (i1 / 12) (i1 mod 12 + 1) =
                   ord_of_ymd ((i1 + 1) / 12) ((i1 + 1) mod 12 + 1) 1).
      { rewrite F2. destruct (Z.eq_dec (i1 mod 12) 11) as [E|E].
        - replace (i1 mod 12 + 1 + 1) with 13 by lia. rewrite dbm_13, <- jan1_succ.
          replace ((i1 + 1) / 12) with (i1 / 12 + 1) by lia. replace ((i1 + 1) mod 12 + 1) with 1 by lia. reflexivity.
        - replace ((i1 + 1) / 12) with (i1 / 12) by lia. replace ((i1 + 1) mod 12 + 1) with (i1 mod 12 + 1 + 1) by lia.
          destruct (first_of_month (i1 / 12) (i1 mod 12 + 1 + 1) ltac:(lia)) as [G1 _]. lia. }
      pose proof (month_start_mono ((i1 + 1) / 12) ((i1 + 1) mod 12 + 1) (i2 / 12) (i2 mod 12 + 1)
                    ltac:(lia) ltac:(lia) ltac:(lia)) as MM.
      lia.
    + destruct (r_freq r =? WEEKLY) eqn:EWk; cbv zeta; cbn [fst snd]; nia.
Qed.

Lemma step_lo_is_period k : step_lo r k = fst (period_days r k).
Proof. unfold step_lo. rewrite coarse_flag. reflexivity. Qed.

(* the loop keeps the accumulator (reversed) strictly increasing and before the next period *)
Lemma spec_loop_sorted limit : forall n k cnt acc,
  isorted (rev acc) -> (forall x, In x acc -> fst x < fst (period_days r k)) ->
  isorted (rev (fst (spec_loop r limit n k cnt acc))).
Proof.
  induction n as [|n IH]; intros k cnt acc S B; cbn [spec_loop]; [exact S|].
  destruct (limit <=? zlen acc); [exact S|].
  destruct (max_ord <? step_lo r k); [exact S|].
  destruct (sp_after_until r (step_lo r k, 0)); [exact S|].
  destruct (match cnt with Some c => c <=? 0 | None => false end); [exact S|].
  destruct (sp_take_shape r (step_items r k) cnt acc) as (pre & suf & E1 & E2).
  destruct (step_items_sorted k) as [SS SB].
  destruct (sp_take r (step_items r k) cnt acc) as [[acc' cnt'] stop]. cbn [fst] in E2. subst acc'.
  assert (S' : isorted (rev (rev pre ++ acc))).
  { rewrite rev_app_distr, rev_involutive. apply isorted_snoc_app; [exact S| |].
    - rewrite E1 in SS. apply (isorted_prefix pre suf SS).
    - intros x y Hx Hy. apply in_rev in Hx. specialize (B x Hx).
      assert (Hy' : In y (step_items r k)) by (rewrite E1; apply in_or_app; left; exact Hy).
      specialize (SB y Hy'). lia. }
  destruct stop; [exact S'|]. apply IH; [exact S'|].
  intros x Hx. apply in_app_or in Hx. pose proof (period_hi_lt_next k) as PH.
  destruct Hx as [Hx|Hx].
  - apply in_rev in Hx. assert (Hx' : In x (step_items r k)) by (rewrite E1; apply in_or_app; left; exact Hx).
    specialize (SB x Hx'). lia.
  - specialize (B x Hx). destruct (step_items_sorted k) as [_ _].
    assert (fst (period_days r k) <= snd (period_days r k) \/ True) by (right; exact I).
    (* periods ascend: lo_k <= hi_k + 1 <= lo_{k+1} is not needed, only lo_k < lo_{k+1} *)
    assert (LL : fst (period_days r k) <= fst (period_days r (k + 1))).
    { clear -HW Hc. pose proof (wf_itv r HW) as Hitv. unfold period_days.
      destruct (r_freq r =? YEARLY).
      - cbn [fst]. fold (jan1 (r_y r + k * r_interval r)). fold (jan1 (r_y r + (k + 1) * r_interval r)).
        apply jan1_mono. nia.
      - destruct (r_freq r =? MONTHLY).
        + cbv zeta. cbn [fst]. apply month_start_mono; try lia; nia.
        + destruct (r_freq r =? WEEKLY); cbv zeta; cbn [fst]; nia. }
    lia.
Qed.

(* THE SPECIFICATION'S SEQUENCE IS STRICTLY INCREASING *)
Theorem spec_iter_sorted : forall limit n, isorted (fst (spec_iter r limit n)).
Proof.
  intros limit n. unfold spec_iter.
  pose proof (spec_loop_sorted limit n 0 (r_count r) [] I ltac:(intros x [])) as S.
  destruct (spec_loop r limit n 0 (r_count r) []) as [acc t]. exact S.
Qed.
End Sorted.
