(* C01 layer 7 -- rrule_iter_correct for WEEKLY rules WITH BYSETPOS (fix 12b1f51: the first period is
   expanded from the start of the start's WKST-week, so that positions count the whole week): every rule, every
   number of passes.  The week that contains 0001-01-01 begins there (fix 3426f68: positions count its existing
   days), the week that contains 9999-12-31 ends there (fix 8ced7a9). *)
From Coq Require Import ZArith List Bool Lia ZifyBool.
From V Require Import base.Cal gen.RrTables rr.RRBase rr.RRNorm rr.RRMasks rr.RRIter rr.RRSpec
  rr.RROverlay rr.RRTablesThm rr.RRWeekDefs rr.RRWeekThm rr.RRWeekCal rr.RRWeekFinal rr.RRWeekTop rr.RRNwdThm
  rr.RRNwdCal rr.RRFilterThm rr.RRFilterSpec rr.RRGateThm rr.RRTimesetThm rr.RRDaysetThm rr.RRAdvanceThm rr.RRIterThm
  rr.RRPassThm rr.RRYearlyThm rr.RRYearlyEasterThm rr.RRCountThm rr.RRYearlyCountThm rr.RRYearlyUntilThm
  rr.RRDailyThm rr.RRMonthlyThm rr.RRWeeklyThm rr.RRSetposThm rr.RRCoarseRun rr.RRMonthlyFullThm.
Import ListNotations.
Ltac Zify.zify_post_hook ::= Z.to_euclidean_division_equations.
Open Scope Z_scope.

Record wfam_s (r : raw) : Prop := mk_wfam_s {
  wsf_wf : spec_wf r = true;
  wsf_freq : r_freq r = WEEKLY;
  wsf_plain : plain_only r = true;
  wsf_weekno : all_opt (r_byweekno r) weekno_safe = true;
  wsf_easter : r_byeaster r = None
}.

Definition at_pass_ws (r : raw) (rl : rule) (k : Z) (cnt : option Z) (s : state) : Prop :=
  valid_ymd (c_year s) (c_month s) (c_day s) = true /\
  ord_of_ymd (c_year s) (c_month s) (c_day s) = wbeg r k /\
  c_weekday s = weekday_of_ord (wbeg r k) /\
  rebuild rl ii_init (c_year s) (c_month s) = Ok (c_ii s) /\
  c_timeset s = period_times r 0 /\ c_count s = cnt.

(* a representable ordinal is a valid date *)
Lemma ymd_of_ord_valid o : 1 <= o <= max_ord ->
  let '(y, m, d) := ymd_of_ord o in valid_ymd y m d = true /\ ord_of_ymd y m d = o.
Proof.
  intros Ho. pose proof (ord_of_ymd_of_ord o) as R. unfold ymd_of_ord in *.
  pose proof (year_of_ord_spec o) as S. set (y := year_of_ord o) in *.
  destruct R as (R1 & R2 & R3). split; [|exact R1].
  assert (Hy : 1 <= y <= 9999).
  { split.
    - destruct (Z_lt_ge_dec y 1) as [L|L]; [|lia].
      assert (days_before_year (y + 1) <= days_before_year 1) by (apply days_before_year_mono; lia).
      change (days_before_year 1) with 0 in *. lia.
    - destruct (Z_lt_ge_dec 9999 y) as [L|L]; [|lia].
      assert (days_before_year 10000 <= days_before_year y) by (apply days_before_year_mono; lia).
      change (days_before_year 10000) with 3652059 in *. unfold max_ord in Ho. lia. }
  unfold valid_ymd. lia.
Qed.

Section WeeklySetpos.
Variables (r : raw) (rl : rule).
Hypothesis HN : normalize r = Ok rl.
Hypothesis Y : wfam_s r.

Let HW : spec_wf r = true. Proof. destruct Y; assumption. Qed.
Let Hfr : r_freq r = WEEKLY. Proof. destruct Y; assumption. Qed.
Let Nfr : freq rl = WEEKLY. Proof. rewrite (normalize_freq r rl HN). exact Hfr. Qed.

Lemma wfacts : 1 <= r_interval r /\ 0 <= r_wkst r <= 6 /\ valid_ymd (r_y r) (r_m r) (r_d r) = true.
Proof.
  pose proof HW as HW'. unfold spec_wf in HW'.
  repeat match type of HW' with _ && _ = true =>
    let H := fresh "W" in apply andb_true_iff in HW'; destruct HW' as [HW' H] end.
  unfold between in *. split; [lia|]. split; [lia|assumption].
Qed.

(* the cursor lies in period k, and the rest of its week ends with the period *)
Lemma wbeg_week k : 0 <= k ->
  (weekday_of_ord (wbeg r k) - r_wkst r) mod 7 = wbeg r k - wlo r k /\ wlo r k <= wbeg r k <= wlo r k + 6 /\
  (1 <= k -> wbeg r k = wlo r k).
Proof.
  intros Hk. destruct wfacts as (Hitv & Hwk & V).
  pose proof (ord_of_ymd_range _ _ _ V) as R0. fold (sp_ord0 r) in R0.
  assert (B : 0 <= sp_ord0 r - ws0 r <= 6) by (unfold ws0; lia).
  assert (M : 0 <= k * r_interval r) by nia.
  assert (M1 : 1 <= k -> 1 <= k * r_interval r) by nia.
  pose proof (wlo_weekday r k Hwk) as WL.
  assert (R : wlo r k <= wbeg r k <= wlo r k + 6 /\ (1 <= k -> wbeg r k = wlo r k)) by (unfold wbeg, wlo in *; lia).
  split; [|exact R].
  replace (wbeg r k) with (wlo r k + (wbeg r k - wlo r k)) at 1 by lia.
  rewrite wd_shift, WL. apply week_off; [exact Hwk|lia].
Qed.

Lemma weekly_days_s : forall k cnt s, at_pass_ws r rl k cnt s -> 0 <= k ->
  let y := c_year s in
  let st := wbeg r k - jan1 y in let en := wend r k - jan1 y in
  exists ds ds' f,
    getdayset rl (c_ii s) y (c_month s) (c_day s) = Ok (ds, st, en) /\
    filter_loop rl (c_ii s) (py_slice ds st en) ds false = Ok (ds', f) /\
    somes (py_slice ds' st en) = filter (fun i => day_ok r (jan1 y + i)) (zrange st en).
Proof.
  intros k cnt s (Av & Ao & Aw & Ar & At & Ac) Hk y st en.
  fold y in Av, Ao, Ar.
  assert (Hmax : 1 <= wbeg r k <= max_ord) by (pose proof (ord_of_ymd_range _ _ _ Av) as RR; rewrite Ao in RR; lia).
  destruct (wbeg_week k Hk) as (Ew & Bc & _).
  destruct Y as [_ _ Hp Hs He].
  pose proof (normalize_wkst r rl HN) as Nwk.
  destruct wfacts as (Hitv & Hwk & V).
  destruct (index_in_year _ _ _ Av) as (Hi & Ho & Hy). rewrite Ao in Hi, Ho. fold st in Hi.
  pose proof (rebuild_ii_for rl y _ (c_ii s) Hy Ar) as F.
  assert (YL : 365 <= year_len y <= 366) by (unfold year_len; destruct (is_leap y); lia).
  destruct (wdayset_correct rl (c_ii s) y y (c_month s) (c_day s) F ltac:(rewrite Nwk; exact Hwk) Av
              ltac:(rewrite Ao; exact Hi)) as (ds & suf & E1 & Eds & _).
  rewrite Ao in E1, Eds. fold st in E1, Eds.
  assert (EL : st + Z.min (week_rest (weekday_of_ord (jan1 y)) (wkst rl) st) (max_ord + 1 - (jan1 y + st)) = en).
  { unfold week_rest. rewrite <- wd_shift. replace (jan1 y + st) with (wbeg r k) by (unfold st; lia).
    rewrite Nwk, Ew. unfold st, en, wend. lia. }
  rewrite EL in E1, Eds.
  assert (G : getdayset rl (c_ii s) y (c_month s) (c_day s) = Ok (ds, st, en)).
  { unfold getdayset. rewrite Nfr. change (WEEKLY =? YEARLY) with false. change (WEEKLY =? MONTHLY) with false.
    change (WEEKLY =? WEEKLY) with true. cbv iota. exact E1. }
  set (rej := fun i => negb (day_ok r (jan1 y + i))).
  assert (HRj : forall i, st <= i < en -> day_rejected rl (c_ii s) i = Ok (rej i)).
  { intros i Hi'. destruct (Z_lt_ge_dec i (year_len y)) as [Hlt|Hge].
    - apply (day_filter_correct_guarded r rl y (c_month s) (c_ii s) i HN HW Hp Hs (or_introl He) Hy Ar). lia.
    - apply (day_filter_ext r rl y (c_month s) (c_ii s) i HN HW Hp Hs He Hy Ar); [unfold st, en, wend in *; lia|].
      unfold used_index, shape_of. cbn [sh_ylen sh_ywd].
      rewrite <- wd_shift.
      replace (jan1 y + i) with (wlo r k + (jan1 y + i - wlo r k)) by lia.
      rewrite wd_shift, (wlo_weekday r k Hwk).
      rewrite (week_off (r_wkst r) (jan1 y + i - wlo r k) Hwk) by (unfold st, en, wend in *; lia).
      unfold st, en, wend in *. lia. }
  set (pre := repeat (@None Z) (Z.to_nat st)).
  assert (Lp : Z.of_nat (length pre) = st) by (unfold pre; rewrite repeat_length; lia).
  assert (Hse : st <= en) by (unfold st, en, wend; lia).
  assert (SL : py_slice ds st en = map Some (zrange st en)).
  { rewrite Eds. fold pre. pose proof (py_slice_mid pre (map Some (zrange st en)) suf) as P.
    rewrite Lp in P. rewrite map_length in P. unfold zrange in P at 2. rewrite zrange_nat_length in P.
    replace (st + Z.of_nat (Z.to_nat (en - st))) with en in P by lia. exact P. }
  assert (FL : filter_loop rl (c_ii s) (py_slice ds st en) ds false =
               Ok (pre ++ map (mark rej) (zrange st en) ++ suf, existsb rej (zrange st en))).
  { rewrite SL, Eds. fold pre. unfold zrange.
    rewrite (filter_loop_range rl (c_ii s) rej (Z.to_nat (en - st)) st pre suf false Lp).
    - reflexivity.
    - intros i Hi'. apply HRj. lia. }
  set (ds' := pre ++ map (mark rej) (zrange st en) ++ suf).
  assert (SL' : py_slice ds' st en = map (mark rej) (zrange st en)).
  { unfold ds'. pose proof (py_slice_mid pre (map (mark rej) (zrange st en)) suf) as P.
    rewrite Lp in P. rewrite map_length in P. unfold zrange in P at 2. rewrite zrange_nat_length in P.
    replace (st + Z.of_nat (Z.to_nat (en - st))) with en in P by lia. exact P. }
  exists ds, ds', (existsb rej (zrange st en)). split; [exact G|]. split; [exact FL|].
  rewrite SL', somes_map_mark. apply filter_ext'. intros x. unfold rej. apply negb_involutive.
Qed.

Lemma weekly_step_items_sel k y : 0 <= k -> wbeg r k <= max_ord ->
  let st := wbeg r k - jan1 y in let en := wend r k - jan1 y in
  step_items r k = filter (inst_le (sp_start r))
    (select_pos r (cand_list (jan1 y) (period_times r 0)
                     (filter (fun i => day_ok r (jan1 y + i)) (zrange st en)))).
Proof.
  intros Hk Hmax st en.
  destruct (wbeg_week k Hk) as (_ & Bc & _).
  destruct wfacts as (Hitv & Hwk & V).
  pose proof (wlo_mono r 0 k Hitv Hk) as M0.
  assert (E0 : wlo r 0 = ws0 r) by (unfold wlo; lia).
  rewrite <- (cands_by_index r y st en) by (unfold st, en, wend; lia).
  unfold step_items, is_coarse. rewrite Hfr. change (WEEKLY <=? DAILY) with true. cbv iota.
  f_equal. f_equal. unfold cands_coarse, period_days. rewrite Hfr.
  change (WEEKLY =? YEARLY) with false. change (WEEKLY =? MONTHLY) with false. change (WEEKLY =? WEEKLY) with true.
  cbv iota zeta. fold (ws0 r). fold (wlo r k).
  replace (Z.max (wlo r k) 1) with (jan1 y + st) by (unfold st, wbeg; lia).
  replace (Z.min (wlo r k + 6) max_ord + 1) with (jan1 y + en) by (unfold en, wend; lia).
  apply flat_map_filter.
Qed.

Lemma weekly_advance_s : forall k cnt s filtered c1 out1, at_pass_ws r rl k cnt s -> 0 <= k ->
  (exists s', advance rl s filtered c1 out1 = Ok (AdvGo s') /\ at_pass_ws r rl (k + 1) c1 s' /\ c_out s' = out1) \/
  (advance rl s filtered c1 out1 = Ok AdvMax /\ max_ord < step_lo r (k + 1)).
Proof.
  intros k cnt s filtered c1 out1 (Av & Ao & Aw & Ar & At & Ac) Hk.
  destruct Y as [_ _ Hp Hs He].
  destruct (normalize_misc r rl HN) as (Ni & _ & _ & _ & _ & _ & _).
  pose proof (normalize_wkst r rl HN) as Nwk.
  pose proof (plain_only_no_nth r rl HN Hp) as TN.
  destruct (normalize_fields r rl HN) as (_ & _ & _ & _ & _ & Nea & _).
  assert (TE : truthy (byeaster rl) = false) by (rewrite Nea, He; reflexivity).
  destruct wfacts as (Hitv & Hwk & V).
  destruct (wbeg_week k Hk) as (Ew & Bc & _).
  destruct (wbeg_week (k + 1) ltac:(lia)) as (_ & _ & EC). specialize (EC ltac:(lia)).
  pose proof (weekday_of_ord_range (wbeg r k)) as Rw.
  unfold advance. rewrite Nfr.
  change (WEEKLY =? YEARLY) with false. change (WEEKLY =? MONTHLY) with false. change (WEEKLY =? WEEKLY) with true.
  cbv iota zeta.
  rewrite (weekly_advance_correct (c_day s) (c_weekday s) (wkst rl) (interval rl)
             ltac:(rewrite Aw; exact Rw) ltac:(rewrite Nwk; exact Hwk)).
  rewrite Aw, Nwk, Ew, Ni.
  set (delta := 7 * r_interval r - (wbeg r k - wlo r k)).
  replace (c_day s - (wbeg r k - wlo r k) + 7 * r_interval r) with (c_day s + delta) by (unfold delta; lia).
  assert (EN : wbeg r k + delta = wlo r (k + 1)) by (rewrite wlo_succ; unfold delta; lia).
  destruct (fixday_advance rl s (c_year s) (c_month s) (c_day s) delta (c_hour s) (c_minute s) (c_second s)
              (r_wkst r) (c_ii s) (c_timeset s) c1 out1 Av ltac:(unfold delta; lia) Ar TN TE
              ltac:(rewrite Nwk; exact Hwk))
    as [(y' & m' & d' & ii' & EA & V' & O' & R')|(EA & Hmx)].
  - left. eexists. split; [exact EA|]. split; [|reflexivity].
    unfold at_pass_ws. cbn [c_year c_month c_day c_weekday c_ii c_timeset c_count].
    split; [exact V'|]. split; [rewrite O', Ao, EN, EC; reflexivity|].
    split; [rewrite EC, (wlo_weekday r (k + 1) Hwk); reflexivity|]. split; [exact R'|]. split; [exact At|reflexivity].
  - right. split; [exact EA|]. rewrite (step_lo_weekly r (k + 1) Hfr), <- EN, <- Ao. exact Hmx.
Qed.

Lemma weekly_step_s : forall k cnt s, at_pass_ws r rl k cnt s -> 0 <= k -> True ->
  exists acc' cnt' b, sp_take r (step_items r k) cnt (c_out s) = (acc', cnt', b) /\
    ((exists s', step rl s = inl s' /\ at_pass_ws r rl (k + 1) cnt' s' /\ c_out s' = acc' /\ b = false) \/
     (exists t, step rl s = inr (acc', t) /\
                (b = true \/ until_lt_start r \/ max_ord < step_lo r (k + 1)))) /\
    (sp_after_until r (step_lo r k, 0) = true -> acc' = c_out s).
Proof.
  intros k cnt s A Hk _.
  pose proof A as (Av & Ao & Aw & Ar & At & Ac).
  assert (Hmax : 1 <= wbeg r k <= max_ord) by (pose proof (ord_of_ymd_range _ _ _ Av) as RR; rewrite Ao in RR; lia).
  destruct (wbeg_week k Hk) as (_ & Bc & _).
  destruct (weekly_days_s k cnt s A Hk) as (ds & ds' & f & E1 & E2 & E3).
  destruct (index_in_year _ _ _ Av) as (Hi & Ho & Hy). rewrite Ao in Hi, Ho.
  pose proof (rebuild_ii_for rl _ _ (c_ii s) Hy Ar) as F.
  destruct (step_from_days r rl HN HW ltac:(rewrite Hfr; reflexivity) s k cnt ds _ _ ds' f _ E1 E2 E3
              (ssorted_filter_zrange _ _ _)) as (out' & c1 & s1 & c1' & b1 & PRE & ET & G2 & G3 & G4).
  { intros i Hi'. apply filter_In in Hi'. destruct Hi' as [Hi' _]. unfold zrange in Hi'.
    pose proof (In_zrange_nat_bounds _ _ _ Hi') as Bi. rewrite (f_yo _ _ F). unfold from_ordinal.
    replace ((1 <=? jan1 (c_year s) + i) && (jan1 (c_year s) + i <=? max_ord)) with true by (unfold wend in *; lia).
    reflexivity. }
  { exact At. }
  { exact Ac. }
  { rewrite (f_yo _ _ F). apply (weekly_step_items_sel k (c_year s) Hk ltac:(lia)). }
  exists out', c1', b1. split; [exact ET|]. split.
  - destruct s1 as [t|].
    + right. exists t. split; [exact PRE|]. destruct (G3 ltac:(discriminate)) as [H|H]; auto.
    + destruct (G2 eq_refl) as [Hb Ec]. subst c1'.
      destruct (weekly_advance_s k cnt s f c1 out' A Hk) as [(s' & EA & A' & EO)|(EA & Hmx)].
      * left. exists s'. rewrite PRE, EA. split; [reflexivity|]. split; [exact A'|]. split; [exact EO|exact Hb].
      * right. exists TMaxYear. rewrite PRE, EA. split; [reflexivity|]. right. right. exact Hmx.
  - intros AU. apply (G4 (step_lo r k)); [|exact AU].
    intros i Hi'. apply filter_In in Hi'. destruct Hi' as [Hi' _]. unfold zrange in Hi'.
    pose proof (In_zrange_nat_bounds _ _ _ Hi') as Bi. rewrite (f_yo _ _ F).
    rewrite (step_lo_weekly r k Hfr). lia.
Qed.

Theorem weekly_setpos_iter_correct2 : forall limit n, r_bysetpos r <> None ->
  fst (iterate rl limit n) = fst (spec_iter r limit n).
Proof.
  intros limit n Hsp.
  destruct Y as [_ _ Hp Hs He].
  destruct (normalize_misc r rl HN) as (Ni & Nsp & Ny & Nm & Nd & Nc & Nu).
  pose proof (normalize_wkst r rl HN) as Nwk.
  pose proof (plain_only_no_nth r rl HN Hp) as TN.
  destruct (normalize_fields r rl HN) as (_ & _ & _ & _ & _ & Nea & _).
  assert (TE : truthy (byeaster rl) = false) by (rewrite Nea, He; reflexivity).
  destruct wfacts as (Hitv & Hwk & V).
  pose proof (ord_of_ymd_range _ _ _ V) as R0. fold (sp_ord0 r) in R0.
  pose proof (timeset_is_spec r rl HN HW ltac:(rewrite Hfr; reflexivity)) as HT.
  assert (TS : truthy (bysetpos rl) = true).
  { rewrite Nsp. destruct (r_bysetpos r) as [poss|] eqn:EB; [|contradiction].
    pose proof HW as HW'. unfold spec_wf in HW'.
    repeat match type of HW' with _ && _ = true =>
      let H := fresh "W" in apply andb_true_iff in HW'; destruct HW' as [HW' H] end.
    rewrite EB in *. match goal with H : ne_opt (Some poss) = true |- _ => rename H into HE end.
    destruct poss; [discriminate HE|reflexivity]. }
  (* the prologue: back to the start of the week *)
  set (back := (weekday (r_y r) (r_m r) (r_d r) - r_wkst r) mod 7).
  assert (EB : sp_ord0 r - back = ws0 r) by reflexivity.
  assert (EW0 : wlo r 0 = ws0 r) by (unfold wlo; lia).
  assert (PRO : exists y0 m0 d0,
     (if negb (back =? 0)
      then let '(y', m', d') := ymd_of_ord (Z.max (sp_ord0 r - back) 1) in
           (y', m', d', weekday_of_ord (Z.max (sp_ord0 r - back) 1))
      else (r_y r, r_m r, r_d r, weekday (r_y r) (r_m r) (r_d r))) = (y0, m0, d0, weekday_of_ord (wbeg r 0)) /\
     valid_ymd y0 m0 d0 = true /\ ord_of_ymd y0 m0 d0 = wbeg r 0).
  { assert (EB0 : Z.max (sp_ord0 r - back) 1 = wbeg r 0) by (unfold wbeg; lia).
    destruct (back =? 0) eqn:E0; cbn [negb andb].
    - assert (EQ : wbeg r 0 = sp_ord0 r) by lia.
      exists (r_y r), (r_m r), (r_d r). split; [|split; [exact V|]].
      + rewrite EQ. reflexivity.
      + fold (sp_ord0 r). lia.
    - rewrite EB0.
      pose proof (ymd_of_ord_valid (wbeg r 0) ltac:(unfold back in *; lia)) as VV.
      destruct (ymd_of_ord (wbeg r 0)) as [[y0 m0] d0]. destruct VV as [V1 V2].
      exists y0, m0, d0. split; [reflexivity|]. split; assumption. }
  destruct PRO as (y0 & m0 & d0 & EP & V0 & O0).
  destruct (index_in_year _ _ _ V0) as (_ & _ & Hy0).
  destruct (rebuild_succeeds rl y0 m0 Hy0 ltac:(rewrite Nwk; exact Hwk) TN (or_introl TE)) as (ii0 & R0').
  unfold iterate, init_state. rewrite Nfr, TS. change (WEEKLY =? WEEKLY) with true. cbn [andb]. cbv iota.
  rewrite Ny, Nm, Nd, Nwk. fold (sp_ord0 r). fold back. rewrite EP. rewrite R0'. cbn [bind].
  change (WEEKLY <? HOURLY) with true. cbv iota. rewrite HT. cbn [bind]. rewrite Nc.
  unfold spec_iter.
  set (s0 := mkSt _ _ _ _ _ _ _ _ _ _ _).
  assert (A0 : at_pass_ws r rl 0 (r_count r) s0).
  { unfold at_pass_ws, s0. cbn [c_year c_month c_day c_weekday c_ii c_timeset c_count].
    split; [exact V0|]. split; [exact O0|]. split; [reflexivity|].
    split; [exact R0'|]. split; reflexivity. }
  assert (H1 : forall k0 cnt0 s1, at_pass_ws r rl k0 cnt0 s1 -> c_count s1 = cnt0).
  { intros k0 cnt0 s1 (_ & _ & _ & _ & _ & Ac). exact Ac. }
  assert (H2 : forall k0, 0 <= k0 -> step_lo r k0 <= step_lo r (k0 + 1)).
  { intros k0 Hk0. rewrite !(step_lo_weekly r _ Hfr). apply wlo_mono; lia. }
  assert (H3 : forall k0 cnt0 s1, at_pass_ws r rl k0 cnt0 s1 -> 0 <= k0 -> True ->
               step_lo r k0 <= max_ord).
  { intros k0 cnt0 s1 (Av1 & Ao1 & _) Hk0 _. rewrite (step_lo_weekly r k0 Hfr).
    pose proof (ord_of_ymd_range _ _ _ Av1) as RR. rewrite Ao1 in RR. unfold wbeg in RR. lia. }
  assert (Q : fst (run rl limit n s0) = fst (spec_loop r limit n 0 (r_count r) (c_out s0))).
  { apply (coarse_run_is_spec r rl (at_pass_ws r rl) (fun _ => True) H1 H2 H3 weekly_step_s
             limit n 0 (r_count r) s0 A0 ltac:(lia)).
    intros j Hj. exact I. }
  change (c_out s0) with (@nil instant) in Q.
  destruct (run rl limit n s0) as [out t]. destruct (spec_loop r limit n 0 (r_count r) []) as [acc t'].
  cbn [fst] in *. rewrite Q. reflexivity.
Qed.
End WeeklySetpos.

(* WEEKLY with or without BYSETPOS *)
Theorem weekly_iter_correct_full : forall r rl limit n,
  normalize r = Ok rl -> wfam_s r ->
  fst (iterate rl limit n) = fst (spec_iter r limit n).
Proof.
  intros r rl limit n HN Y.
  destruct (r_bysetpos r) as [poss|] eqn:EB.
  - apply (weekly_setpos_iter_correct2 r rl HN Y limit n). rewrite EB. discriminate.
  - destruct Y as [HW Hfr Hp Hs He].
    apply (weekly_iter_correct r rl limit n HN). constructor; assumption.
Qed.

(* non-vacuity: the regression case of fix 12b1f51 -- rrule(WEEKLY, dtstart=datetime(2024,12,26,9,0) (Thursday),
   wkst=MO, byweekday=(MO,WE,FR), bysetpos=(2,), count=3): the second of Mon/Wed/Fri is the Wednesday,
   which precedes the start in the first week *)
Definition raw_weekly_setpos_example : raw :=
  mkRaw WEEKLY false 2024 12 26 9 0 0 1 0 (Some 3) None false
        (Some [2]) None None None None None (Some [(0, 0); (2, 0); (4, 0)]) None None None.
Example weekly_setpos_example :
  wfam_s raw_weekly_setpos_example /\ 1 <= ws0 raw_weekly_setpos_example /\
  match normalize raw_weekly_setpos_example with
  | Ok rl => fst (iterate rl 100 40) =
             [(ord_of_ymd 2025 1 1, 32400); (ord_of_ymd 2025 1 8, 32400); (ord_of_ymd 2025 1 15, 32400)]
  | Err _ => False
  end.
Proof. split; [constructor; reflexivity|split; [vm_compute; discriminate|vm_compute; reflexivity]]. Qed.
