(* C01 layer 2 -- the mask-building operations of _iterinfo.rebuild only ever SET entries to 1:
   each of them is "additive" (running it on a partly filled mask = overlaying its result on the
   zero mask), which is what makes a mask built for a list of members the union of the masks of
   the single members. *)
From Coq Require Import ZArith List Bool Lia.
From V Require Import rr.RRBase rr.RRMasks.
Import ListNotations.
Open Scope Z_scope.

Fixpoint overlay (a b : list Z) : list Z :=
  match a, b with
  | x :: s, y :: t => (if y =? 0 then x else y) :: overlay s t
  | _, _ => []
  end.

Definition lift (f : list Z -> list Z) (r : res (list Z)) : res (list Z) :=
  match r with Ok m => Ok (f m) | Err e => Err e end.

Lemma overlay_length a : forall b, length a = length b -> length (overlay a b) = length b.
Proof. induction a as [|x s IH]; intros [|y t] H; cbn in *; try lia. rewrite IH; lia. Qed.

Lemma set_nat_length {A} (l : list A) : forall k v, length (set_nat l k v) = length l.
Proof. induction l as [|h t IH]; intros [|k] v; cbn; auto. Qed.

Lemma set_nat_overlay a : forall b k, length a = length b ->
  set_nat (overlay a b) k 1 = overlay a (set_nat b k 1).
Proof.
  induction a as [|x s IH]; intros [|y t] k H; cbn in *; try lia; try reflexivity.
  destruct k as [|k]; cbn; [reflexivity|]. f_equal. apply IH. lia.
Qed.

Lemma zlen_overlay a b : length a = length b -> zlen (overlay a b) = zlen b.
Proof. intros H. unfold zlen. rewrite overlay_length by exact H. reflexivity. Qed.

Lemma py_set_overlay a b i : length a = length b ->
  py_set (overlay a b) i 1 = lift (overlay a) (py_set b i 1).
Proof.
  intros H. unfold py_set. rewrite (zlen_overlay a b H).
  destruct ((_ <? 0) || (_ <=? _))%bool; cbn [lift]; [reflexivity|].
  rewrite set_nat_overlay by exact H. reflexivity.
Qed.

Lemma py_set_length {A} (l l' : list A) i v : py_set l i v = Ok l' -> length l' = length l.
Proof.
  unfold py_set. destruct ((_ <? 0) || (_ <=? _))%bool; [discriminate|].
  intros E; inversion E; subst. apply set_nat_length.
Qed.

(* additive operations on masks *)
Definition additive (op : list Z -> res (list Z)) : Prop :=
  (forall a b, length a = length b -> op (overlay a b) = lift (overlay a) (op b)) /\
  (forall b b', op b = Ok b' -> length b' = length b).

Lemma additive_id : additive (fun m => Ok m).
Proof. split; [reflexivity|]. intros b b' E; inversion E; reflexivity. Qed.

Lemma additive_py_set i : additive (fun m => py_set m i 1).
Proof. split; [intros a b H; apply py_set_overlay; exact H|]. intros b b' E. apply (py_set_length _ _ _ _ E). Qed.

Lemma additive_comp f g : additive f -> additive g -> additive (fun m => do m1 <- f m; g m1).
Proof.
  intros [F1 F2] [G1 G2]. split.
  - intros a b H. rewrite (F1 a b H). destruct (f b) as [b1|e] eqn:E; cbn [lift bind]; [|reflexivity].
    apply G1. rewrite (F2 _ _ E). exact H.
  - intros b b' E. destruct (f b) as [b1|e] eqn:E1; cbn [bind] in E; [|discriminate].
    rewrite (G2 _ _ E). apply (F2 _ _ E1).
Qed.

Lemma additive_if (c : bool) f g : additive f -> additive g -> additive (fun m => if c then f m else g m).
Proof. destruct c; auto. Qed.

Lemma additive_mark_week wdm wk n : forall i, additive (fun m => mark_week n wdm wk m i).
Proof.
  induction n as [|k IH]; intros i; cbn [mark_week]; [apply additive_id|].
  apply (additive_comp (fun m => py_set m i 1)); [apply additive_py_set|].
  destruct (py_nth wdm (i + 1)) as [w|e]; cbn [bind].
  - destruct (w =? wk); [apply additive_id|apply IH].
  - split; [reflexivity|discriminate].
Qed.

Lemma additive_fold {X} (f : list Z -> X -> res (list Z)) (l : list X) :
  (forall x, additive (fun m => f m x)) -> additive (fun m => fold_res f l m).
Proof.
  intros Hf. induction l as [|x t IH]; cbn [fold_res]; [apply additive_id|].
  apply (additive_comp (fun m => f m x)); [apply Hf|exact IH].
Qed.

Lemma overlay_zeros a : overlay a (repeat 0 (length a)) = a.
Proof. induction a as [|x s IH]; cbn; [reflexivity|]. rewrite IH. reflexivity. Qed.

(* running an additive operation on m = overlaying its result on zeros over m *)
Lemma additive_on_zeros op m : additive op ->
  op m = lift (overlay m) (op (repeat 0 (length m))).
Proof.
  intros [H _]. rewrite <- (H m (repeat 0 (length m))) by (rewrite repeat_length; reflexivity).
  rewrite overlay_zeros. reflexivity.
Qed.

Lemma nth_overlay a : forall b j, length a = length b ->
  negb (nth j (overlay a b) 0 =? 0) = negb (nth j a 0 =? 0) || negb (nth j b 0 =? 0).
Proof.
  induction a as [|x s IH]; intros [|y t] j H; cbn [length] in *; try lia.
  - destruct j; reflexivity.
  - destruct j as [|j]; cbn [overlay nth]; [|apply IH; lia].
    destruct (y =? 0) eqn:E; [rewrite orb_false_r; reflexivity|].
    rewrite E. cbn [negb]. rewrite orb_true_r. reflexivity.
Qed.
