(* C01 sub-daily: helpers for the induction over passes -- the gate on concatenated candidate
   lists, splitting integer ranges, and what finish_advance does to the year and to the
   iterinfo.  Written by the rset builder (new file). *)
From Coq Require Import ZArith List Bool Lia ZifyBool.
From V Require Import base.Cal gen.RrTables rr.RRBase rr.RRNorm rr.RRMasks rr.RRIter rr.RRAdvanceThm
  rr.RRSubSpec rr.RRSubHourTop.
Import ListNotations.
Open Scope Z_scope.

Lemma gate_list_app' : forall rl a b cnt out,
  gate_list rl (a ++ b) cnt out =
  (let '(o1, c1, st) := gate_list rl a cnt out in
   match st with Some _ => (o1, c1, st) | None => gate_list rl b c1 o1 end).
Proof.
  intros rl a. induction a as [|x a IH]; intros b cnt out; [reflexivity|].
  cbn [app gate_list]. destruct (gate_one rl x cnt out) as [[o' c'] [t|]]; [reflexivity|]. apply IH.
Qed.

Lemma zrange_nat_app : forall n m a, zrange_nat a (n + m) = zrange_nat a n ++ zrange_nat (a + Z.of_nat n) m.
Proof.
  induction n as [|n IH]; intros m a.
  - cbn. replace (a + 0) with a by ring. reflexivity.
  - cbn [Nat.add zrange_nat app]. f_equal. rewrite IH. f_equal. f_equal. lia.
Qed.

Lemma zrange_split : forall a b c, a <= b <= c -> zrange a c = zrange a b ++ zrange b c.
Proof.
  intros a b c H. unfold zrange.
  replace (Z.to_nat (c - a)) with (Z.to_nat (b - a) + Z.to_nat (c - b))%nat by lia.
  rewrite zrange_nat_app. f_equal. f_equal. lia.
Qed.

Lemma zrange_single : forall a, zrange a (a + 1) = [a].
Proof. intro a. unfold zrange. replace (Z.to_nat (a + 1 - a)) with 1%nat by lia. reflexivity. Qed.

Lemma zrange_empty : forall a, zrange a a = [].
Proof. intro a. unfold zrange. rewrite Z.sub_diag. reflexivity. Qed.

Lemma flat_map_nil_in : forall (A B : Type) (f : A -> list B) l, (forall x, In x l -> f x = []) -> flat_map f l = [].
Proof.
  intros A B f l. induction l as [|a l IH]; intro H; simpl; [reflexivity|].
  rewrite (H a (or_introl eq_refl)), IH; [reflexivity|]. intros x Hx. apply H. right. assumption.
Qed.

(* periods k .. k_end with the ones strictly between k and k' empty *)
Lemma periods_skip : forall r k k' k_end, k < k' <= k_end ->
  (forall j, k < j < k' -> period_cands r j = []) ->
  flat_map (period_cands r) (zrange k k_end) =
  period_cands r k ++ flat_map (period_cands r) (zrange k' k_end).
Proof.
  intros r k k' k_end Hk Hskip.
  rewrite (zrange_split k (k + 1) k_end) by lia. rewrite zrange_single, flat_map_app. cbn [flat_map].
  rewrite app_nil_r. f_equal.
  rewrite (zrange_split (k + 1) k' k_end) by lia. rewrite flat_map_app.
  rewrite (flat_map_nil_in _ _ (period_cands r) (zrange (k + 1) k')); [reflexivity|].
  intros j Hj. apply in_zrange in Hj. apply Hskip. lia.
Qed.

(* the carry loop never decreases the year and stays within MAXYEAR *)
Lemma fix_loop_year : forall fuel year month day dm y' m' d',
  fix_loop fuel year month day dm = FixOk y' m' d' -> year <= T_MAXYEAR -> year <= y' <= T_MAXYEAR.
Proof.
  induction fuel as [|k IH]; intros year month day dm y' m' d' H Hy; cbn [fix_loop] in H; [discriminate|].
  destruct (dm <? day); [|inversion H; subst; lia].
  destruct (month + 1 =? 13).
  - destruct (T_MAXYEAR <? year + 1) eqn:E; [discriminate|].
    apply Z.ltb_ge in E. specialize (IH _ _ _ _ _ _ _ H E). lia.
  - specialize (IH _ _ _ _ _ _ _ H Hy). lia.
Qed.

Lemma finish_advance_ii : forall rl s fixday y m d hh mi ss wd ii ts cnt out s',
  finish_advance rl s fixday y m d hh mi ss wd ii ts cnt out = Ok (AdvGo s') -> y <= T_MAXYEAR ->
  y <= c_year s' <= T_MAXYEAR /\
  ((c_ii s' = ii /\ c_year s' = y) \/ rebuild rl ii (c_year s') (c_month s') = Ok (c_ii s')).
Proof.
  intros rl s fixday y m d hh mi ss wd ii ts cnt out s' H Hy. unfold finish_advance in H.
  destruct (fixday && (28 <? d)).
  - destruct (Cal.dim y m <? d).
    + destruct (fix_loop (Z.to_nat d) y m d (Cal.dim y m)) as [y' m' d'| |] eqn:Ef; try discriminate.
      destruct (rebuild rl ii y' m') as [ii'|e] eqn:Er; cbn [bind] in H; [|discriminate].
      inversion H; subst; clear H. cbn. split; [eapply fix_loop_year; eauto|]. right. exact Er.
    + inversion H; subst. cbn. split; [lia|]. left. split; reflexivity.
  - inversion H; subst. cbn. split; [lia|]. left. split; reflexivity.
Qed.
