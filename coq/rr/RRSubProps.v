(* C01 sub-daily: top-level restatements (closed statements written out) of theorems that are
   proved inside Sections, so that coq/props/C01.v can copy the statement text and `exact` them.
   Written by the rset builder (new file). *)
From Coq Require Import ZArith List Bool.
From V Require Import base.Cal gen.RrTables easter.EasterSpec rr.RRBase rr.RRNorm rr.RRMasks rr.RRIter
  rr.RRSpec rr.RRSubSpec rr.RRSubMin rr.RRSubSec rr.RRSubMinTop rr.RRSubSecTop.
Import ListNotations.
Open Scope Z_scope.

Theorem advance_correct_minutely_top : forall (r : raw) (rl : rule),
  normalize r = Ok rl -> r_freq r = MINUTELY -> 1 <= r_interval r -> ne_list (r_byhour r) ->
  forall (k : Z) (filtered : bool) (day : Z), 0 <= k -> 0 <= sp_S0 r <= 59 ->
  let od := sp_ord0 r + min_n r k / 1440 in
  let hour := (min_n r k mod 1440) / 60 in
  let minute := (min_n r k mod 1440) mod 60 in
  (filtered = true -> day_ok r od = false) ->
  match minutely_core rl filtered hour minute day with
  | Ok (mi', hh', dd', fx') =>
      exists k', k < k' /\
        od + (dd' - day) = sp_ord0 r + min_n r k' / 1440 /\ hh' * 60 + mi' = min_n r k' mod 1440 /\
        0 <= mi' < 60 /\ 0 <= hh' < 24 /\ day <= dd' /\ (fx' = false -> dd' = day) /\
        in_opt (r_byhour r) (Z.eqb hh') = true /\ in_opt (r_byminute r) (Z.eqb mi') = true /\
        forall j, k < j < k' -> period_cands r j = []
  | Err e => (e = EValue \/ e = EType) /\ forall j, k < j -> period_cands r j = []
  end.
Proof. exact advance_correct_minutely. Qed.

Theorem advance_correct_secondly_top : forall (r : raw) (rl : rule),
  normalize r = Ok rl -> r_freq r = SECONDLY -> 1 <= r_interval r ->
  ne_list (r_byhour r) -> ne_list (r_byminute r) ->
  forall (k : Z) (filtered : bool) (day : Z), 0 <= k ->
  let od := sp_ord0 r + sec_n r k / 86400 in
  let a := sec_n r k mod 86400 in
  (filtered = true -> day_ok r od = false) ->
  match secondly_core rl filtered (a / 3600) ((a / 60) mod 60) (a mod 60) day with
  | Ok (se', mi', hh', dd', fx') =>
      exists k', k < k' /\
        od + (dd' - day) = sp_ord0 r + sec_n r k' / 86400 /\
        hh' * 3600 + mi' * 60 + se' = sec_n r k' mod 86400 /\
        0 <= se' < 60 /\ 0 <= mi' < 60 /\ 0 <= hh' < 24 /\ day <= dd' /\ (fx' = false -> dd' = day) /\
        in_opt (r_byhour r) (Z.eqb hh') = true /\ in_opt (r_byminute r) (Z.eqb mi') = true /\
        in_opt (r_bysecond r) (Z.eqb se') = true /\
        forall j, k < j < k' -> period_cands r j = []
  | Err e => (e = EValue \/ e = EType) /\ forall j, k < j -> period_cands r j = []
  end.
Proof. exact advance_correct_secondly. Qed.
