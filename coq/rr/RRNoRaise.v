(* C01 -- rrule_only_valueerror, strong form: inside the guard of the summary theorem the generator raises
   NO exception at all (no IndexError, TypeError or ValueError from the constructor's result on): the run
   ends by COUNT, UNTIL, the year-9999 stop, or because limit / fuel is used up. *)
From Coq Require Import ZArith List Bool Lia ZifyBool.
From V Require Import base.Cal gen.RrTables rr.RRBase rr.RRNorm rr.RRMasks rr.RRIter rr.RRSpec
  rr.RROverlay rr.RRTablesThm rr.RRWeekDefs rr.RRWeekThm rr.RRWeekCal rr.RRWeekFinal rr.RRWeekTop rr.RRNwdThm
  rr.RRNwdCal rr.RRFilterThm rr.RRFilterSpec rr.RRGateThm rr.RRTimesetThm rr.RRDaysetThm rr.RRAdvanceThm rr.RRIterThm
  rr.RRPassThm rr.RRYearlyThm rr.RRYearlyEasterThm rr.RRCountThm rr.RRYearlyCountThm rr.RRYearlyUntilThm
  rr.RRDailyThm rr.RRMonthlyThm rr.RRWeeklyThm rr.RRSetposThm rr.RRCoarseRun rr.RRMonthlyFullThm rr.RRMonthlyNthThm
  rr.RRYearlyFullThm rr.RRYearlyMonthNthThm rr.RRDailyFullThm rr.RRWeeklySetposThm rr.RRCoarseTop.
Import ListNotations.
Ltac Zify.zify_post_hook ::= Z.to_euclidean_division_equations.
Open Scope Z_scope.

Definition quiet (t : term) : Prop := forall e, t <> TRaised e.

Lemma gate_list_term rl : forall xs cnt out o c t,
  gate_list rl xs cnt out = (o, c, Some t) -> t = TUntil \/ t = TCount.
Proof.
  induction xs as [|x xs IH]; intros cnt out o c t; cbn [gate_list]; [discriminate|].
  unfold gate_one. destruct (after_until rl x).
  - intros E. injection E as _ _ <-. left. reflexivity.
  - destruct (inst_le (dtstart_inst rl) x).
    + destruct cnt as [c0|].
      * destruct (c0 - 1 <? 0); [intros E; injection E as _ _ <-; right; reflexivity|apply IH].
      * apply IH.
    + apply IH.
Qed.

Section StepTerm.
Variables (r : raw) (rl : rule).
Hypothesis HN : normalize r = Ok rl.
Hypothesis HW : spec_wf r = true.
Hypothesis Hfr : (r_freq r <? HOURLY) = true.

(* `step` with its second half written as the gate on the selected candidates *)
Lemma step_as_gate : forall s ds st en ds' f P,
  getdayset rl (c_ii s) (c_year s) (c_month s) (c_day s) = Ok (ds, st, en) ->
  filter_loop rl (c_ii s) (py_slice ds st en) ds false = Ok (ds', f) ->
  somes (py_slice ds' st en) = P -> ssorted P = true ->
  (forall i, In i P -> from_ordinal (yearordinal (c_ii s) + i) = Ok (yearordinal (c_ii s) + i)) ->
  c_timeset s = period_times r 0 ->
  step rl s =
  (let '(out1, cnt1, stop) :=
     gate_list rl (select_pos r (cand_list (yearordinal (c_ii s)) (period_times r 0) P)) (c_count s) (c_out s) in
   match stop with
   | Some t => inr (out1, t)
   | None => match advance rl s f cnt1 out1 with
             | Err e => inr (out1, TRaised e)
             | Ok AdvMax => inr (out1, TMaxYear)
             | Ok AdvFuel => inr (out1, TOutOfFuel)
             | Ok (AdvGo s') => inl s'
             end
   end).
Proof.
  intros s ds st en ds' f P E1 E2 EP SP Hfo At.
  destruct (normalize_misc r rl HN) as (_ & Nsp & _ & _ & _ & _ & Nu).
  set (yo := yearordinal (c_ii s)) in *. set (ts := period_times r 0) in *.
  set (C := cand_list yo ts P) in *.
  pose proof (period_times_sorted r HW Hfr) as ST. fold ts in ST.
  assert (GL : (if truthy (bysetpos rl) && nonempty ts then
                  match poslist_build yo (somes (py_slice ds' st en)) ts (opt_list (bysetpos rl)) [] with
                  | Err e => (c_out s, c_count s, Some (TRaised e))
                  | Ok pl => gate_list rl (sort_inst pl) (c_count s) (c_out s)
                  end
                else out_days rl yo (py_slice ds' st en) ts (c_count s) (c_out s)) =
               gate_list rl (select_pos r C) (c_count s) (c_out s)).
  { rewrite Nsp. unfold select_pos. destruct (r_bysetpos r) as [poss|] eqn:EB.
    - cbn [opt_list].
      assert (Hnz : forallb (fun p => negb (p =? 0)) poss = true).
      { pose proof HW as HW'. unfold spec_wf in HW'.
        repeat match type of HW' with _ && _ = true =>
          let H := fresh "W" in apply andb_true_iff in HW'; destruct HW' as [HW' H] end.
        rewrite EB in *. match goal with H : all_opt (Some poss) _ = true |- _ => cbn [all_opt] in H;
          rewrite forallb_forall in H; rename H into HA end.
        apply forallb_forall. intros p Hp. specialize (HA p Hp).
        apply andb_true_iff in HA. destruct HA as [HA _]. exact HA. }
      assert (TP : truthy (Some poss) = true).
      { pose proof HW as HW'. unfold spec_wf in HW'.
        repeat match type of HW' with _ && _ = true =>
          let H := fresh "W" in apply andb_true_iff in HW'; destruct HW' as [HW' H] end.
        rewrite EB in *. match goal with H : ne_opt (Some poss) = true |- _ => rename H into HE end.
        destruct poss; [discriminate HE|reflexivity]. }
      rewrite TP. cbn [andb].
      destruct (nonempty ts) eqn:ENE.
      + rewrite EP.
        destruct (poslist_is_select_pos yo ts P poss ltac:(destruct ts; [discriminate ENE|cbn [length]; lia])
                    SP ST Hfo Hnz) as (pl & Epl & Esort).
        rewrite Epl, Esort. reflexivity.
      + assert (Ets : ts = []) by (destruct ts; [reflexivity|discriminate ENE]).
        rewrite out_days_is_gate by (rewrite EP; exact Hfo).
        unfold C, cand_list. rewrite Ets, !flat_map_nil_ts. reflexivity.
    - cbn [truthy andb]. rewrite out_days_is_gate by (rewrite EP; exact Hfo). rewrite EP. reflexivity. }
  unfold step. rewrite E1. cbn [bind]. rewrite E2. cbn [bind fst snd]. fold yo. rewrite At. fold ts.
  rewrite GL. reflexivity.
Qed.

(* if moreover the advance never raises, a pass ends quietly *)
Lemma step_quiet : forall s ds st en ds' f P,
  getdayset rl (c_ii s) (c_year s) (c_month s) (c_day s) = Ok (ds, st, en) ->
  filter_loop rl (c_ii s) (py_slice ds st en) ds false = Ok (ds', f) ->
  somes (py_slice ds' st en) = P -> ssorted P = true ->
  (forall i, In i P -> from_ordinal (yearordinal (c_ii s) + i) = Ok (yearordinal (c_ii s) + i)) ->
  c_timeset s = period_times r 0 ->
  (forall c1 out1, (exists s', advance rl s f c1 out1 = Ok (AdvGo s')) \/ advance rl s f c1 out1 = Ok AdvMax) ->
  match step rl s with inl _ => True | inr (_, t) => quiet t end.
Proof.
  intros s ds st en ds' f P E1 E2 EP SP Hfo At HA.
  rewrite (step_as_gate s ds st en ds' f P E1 E2 EP SP Hfo At).
  destruct (gate_list rl _ (c_count s) (c_out s)) as [[o1 c1] s1] eqn:EG.
  destruct s1 as [t|].
  - destruct (gate_list_term rl _ _ _ _ _ _ EG) as [-> | ->]; intros e; discriminate.
  - destruct (HA c1 o1) as [(s' & ->)| ->]; [exact I|intros e; discriminate].
Qed.
End StepTerm.

(* ------------------------------------------------------------------ the run *)
Section RunTerm.
Variables (rl : rule).
Variable Inv : Z -> state -> Prop.
Variable okp : Z -> Prop.
Hypothesis Hstep : forall k s, Inv k s -> 0 <= k -> okp k ->
  match step rl s with inl s' => Inv (k + 1) s' | inr (_, t) => quiet t end.

Lemma run_quiet : forall limit n k s, Inv k s -> 0 <= k ->
  (forall j, k <= j < k + Z.of_nat n -> okp j) -> quiet (snd (run rl limit n s)).
Proof.
  intros limit n. induction n as [|n IH]; intros k s A Hk Hok; cbn [run].
  - intros e; discriminate.
  - destruct (limit <=? zlen (c_out s)); [intros e; discriminate|].
    pose proof (Hstep k s A Hk (Hok k ltac:(lia))) as HS.
    destruct (step rl s) as [s'|[out t]].
    + apply (IH (k + 1) s' HS ltac:(lia)). intros j Hj. apply Hok. lia.
    + exact HS.
Qed.
End RunTerm.

(* feed the hypotheses in the context to a lemma that was proved inside a Section *)
Ltac feed H := repeat match type of H with
  | ?A -> _ => let a := fresh in assert (a : A) by assumption; specialize (H a); clear a end.

(* combine the family's step lemma (cursor invariant) with step_quiet *)
Ltac split_step HS Q :=
  destruct HS as (acc' & cnt' & b & _ & Hcase & _);
  match goal with |- match ?st with inl _ => _ | inr _ => _ end =>
    destruct st as [s'|[out t]] eqn:EST end;
  [ destruct Hcase as [(s'' & ES & A' & _)|(t & ES & _)]; [injection ES as <-; exists cnt'; exact A'|discriminate ES]
  | exact Q ].

(* ------------------------------------------------------------------ MONTHLY *)
Section MonthlyQuiet.
Variables (r : raw) (rl : rule).
Hypothesis HN : normalize r = Ok rl.
Hypothesis HW : spec_wf r = true.
Hypothesis Hfr : r_freq r = MONTHLY.
Variables (ylo yhi : Z).
Hypothesis RB_ok : forall y m, ylo <= y <= yhi -> 1 <= m <= 12 -> exists ii, rebuild rl ii_init y m = Ok ii.
Hypothesis RB_eq : forall y m ii y' m', ylo <= y <= yhi -> 1 <= m <= 12 -> rebuild rl ii_init y m = Ok ii ->
  ylo <= y' <= yhi -> 1 <= m' <= 12 -> (y' <> y \/ m' <> m) ->
  rebuild rl ii y' m' = rebuild rl ii_init y' m'.
Hypothesis DF : forall y m ii i, ylo <= y <= yhi -> 1 <= m <= 12 -> rebuild rl ii_init y m = Ok ii ->
  dbm y m <= i < dbm y (m + 1) -> day_rejected rl ii i = Ok (negb (day_ok r (jan1 y + i))).

Lemma monthly_step_quiet : forall k s, (exists cnt, inv_m r rl ylo yhi k cnt s) -> 0 <= k -> okp_m r yhi k ->
  match step rl s with inl s' => exists cnt', inv_m r rl ylo yhi (k + 1) cnt' s' | inr (_, t) => quiet t end.
Proof.
  intros k s (cnt & AA) Hk Hok.
  pose proof AA as [A Hr].
  pose proof A as (Am & Ay & Ai & Ar & At & Ac).
  pose proof monthly_days as D. specialize (D r rl). feed D. specialize (D ylo yhi). feed D.
  destruct (D k cnt s A Hr) as (ds & ds' & f & E1 & E2 & E3).
  pose proof (rebuild_ii_for rl _ _ (c_ii s) Ay Ar) as F.
  pose proof (dbm_mono (c_year s) 1 (c_month s) ltac:(lia) ltac:(lia) ltac:(lia)) as M1.
  pose proof (dbm_mono (c_year s) (c_month s + 1) 13 ltac:(lia) ltac:(lia) ltac:(lia)) as M2.
  rewrite dbm_1 in M1. rewrite dbm_13 in M2.
  destruct (jan1_bounds (c_year s) Ay) as [B1 B2].
  assert (Q : match step rl s with inl _ => True | inr (_, t) => quiet t end).
  { apply (step_quiet r rl HN HW ltac:(rewrite Hfr; reflexivity) s ds _ _ ds' f _ E1 E2 E3
             (ssorted_filter_zrange _ _ _)).
    - intros i Hi. apply filter_In in Hi. destruct Hi as [Hi _]. unfold zrange in Hi.
      pose proof (In_zrange_nat_bounds _ _ _ Hi) as Bi. rewrite (f_yo _ _ F). unfold from_ordinal.
      replace ((1 <=? jan1 (c_year s) + i) && (jan1 (c_year s) + i <=? max_ord)) with true by lia. reflexivity.
    - exact At.
    - intros c1 out1. pose proof monthly_advance2 as MA. specialize (MA r rl). feed MA. specialize (MA ylo yhi). feed MA.
      destruct (MA k cnt s f c1 out1 AA Hok) as [(s' & EA & _)|(EA & _)]; [left; exists s'; exact EA|right; exact EA]. }
  pose proof monthly_step2 as HS. specialize (HS r rl). feed HS. specialize (HS ylo yhi). feed HS.
  specialize (HS k cnt s AA Hk Hok).
  split_step HS Q.
Qed.

Theorem monthly_quiet2 : forall limit n, ylo <= r_y r <= yhi ->
  (forall j, 0 <= j < Z.of_nat n -> okp_m r yhi j) -> quiet (snd (iterate rl limit n)).
Proof.
  intros limit n Hr0 Hokn.
  destruct (normalize_misc r rl HN) as (Ni & Nsp & Ny & Nm & Nd & Nc & Nu).
  pose proof (normalize_freq r rl HN) as Nfr. rewrite Hfr in Nfr.
  assert (V : valid_ymd (r_y r) (r_m r) (r_d r) = true).
  { pose proof HW as HW'. unfold spec_wf in HW'.
    repeat match type of HW' with _ && _ = true =>
      let H := fresh "W" in apply andb_true_iff in HW'; destruct HW' as [HW' H] end. assumption. }
  destruct (index_in_year _ _ _ V) as (_ & _ & Hy0).
  assert (Hm0 : 1 <= r_m r <= 12) by (unfold valid_ymd in V; lia).
  destruct (RB_ok (r_y r) (r_m r) Hr0 Hm0) as (ii0 & R0).
  pose proof (timeset_is_spec r rl HN HW ltac:(rewrite Hfr; reflexivity)) as HT.
  unfold iterate, init_state. rewrite Nfr. change (MONTHLY =? WEEKLY) with false. cbn [andb]. cbv iota.
  rewrite Ny, Nm, Nd, R0. cbn [bind].
  change (MONTHLY <? HOURLY) with true. cbv iota. rewrite HT. cbn [bind]. rewrite Nc.
  set (s0 := mkSt _ _ _ _ _ _ _ _ _ _ _).
  assert (A0 : exists cnt, inv_m r rl ylo yhi 0 cnt s0).
  { exists (r_count r). unfold inv_m, at_pass_m, s0, midx. cbn [c_year c_month c_ii c_timeset c_count].
    split; [|exact Hr0].
    split; [exact Hm0|]. split; [exact Hy0|]. split; [ring|]. split; [exact R0|]. split; reflexivity. }
  pose proof (run_quiet rl (fun k s => exists cnt, inv_m r rl ylo yhi k cnt s) (okp_m r yhi) monthly_step_quiet
                limit n 0 s0 A0 ltac:(lia) ltac:(intros j Hj; apply Hokn; lia)) as Q.
  destruct (run rl limit n s0) as [out t]. exact Q.
Qed.
End MonthlyQuiet.

(* ------------------------------------------------------------------ YEARLY *)
Section YearlyQuiet.
Variables (r : raw) (rl : rule).
Hypothesis HN : normalize r = Ok rl.
Hypothesis HW : spec_wf r = true.
Hypothesis Hfr : r_freq r = YEARLY.
Variables (ylo yhi : Z).
Hypothesis RB_ok : forall y m, ylo <= y <= yhi -> exists ii, rebuild rl ii_init y m = Ok ii.
Hypothesis RB_eq : forall y m ii y', ylo <= y <= yhi -> rebuild rl ii_init y m = Ok ii ->
  ylo <= y' <= yhi -> y' <> y -> rebuild rl ii y' m = rebuild rl ii_init y' m.
Hypothesis DF : forall y m ii i, ylo <= y <= yhi -> rebuild rl ii_init y m = Ok ii ->
  0 <= i < year_len y -> day_rejected rl ii i = Ok (negb (day_ok r (jan1 y + i))).

Lemma yearly_step_quiet : forall k s, (exists cnt, inv_y r rl ylo yhi k cnt s) -> 0 <= k -> okp_y r yhi k ->
  match step rl s with inl s' => exists cnt', inv_y r rl ylo yhi (k + 1) cnt' s' | inr (_, t) => quiet t end.
Proof.
  intros k s (cnt & AA) Hk Hok.
  pose proof AA as [A Hr].
  pose proof A as (Ay & Ai & Ar & At & Ac).
  pose proof yearly_days as D. specialize (D r rl). feed D. specialize (D ylo yhi). feed D.
  destruct (D k cnt s A Hr) as (ds & ds' & f & E1 & E2 & E3).
  pose proof (rebuild_ii_for rl _ _ (c_ii s) Ay Ar) as F.
  destruct (jan1_bounds (c_year s) Ay) as [B1 B2].
  assert (Q : match step rl s with inl _ => True | inr (_, t) => quiet t end).
  { apply (step_quiet r rl HN HW ltac:(rewrite Hfr; reflexivity) s ds _ _ ds' f _ E1 E2 E3
             (ssorted_filter_zrange _ _ _)).
    - intros i Hi. apply filter_In in Hi. destruct Hi as [Hi _]. unfold zrange in Hi.
      pose proof (In_zrange_nat_bounds _ _ _ Hi) as Bi. rewrite (f_yo _ _ F). unfold from_ordinal.
      replace ((1 <=? jan1 (c_year s) + i) && (jan1 (c_year s) + i <=? max_ord)) with true by lia. reflexivity.
    - exact At.
    - intros c1 out1. pose proof yearly_advance2 as MA. specialize (MA r rl). feed MA. specialize (MA ylo yhi). feed MA.
      destruct (MA k cnt s f c1 out1 AA Hok) as [(s' & EA & _)|(EA & _)]; [left; exists s'; exact EA|right; exact EA]. }
  pose proof yearly_step2 as HS. specialize (HS r rl). feed HS. specialize (HS ylo yhi). feed HS.
  specialize (HS k cnt s AA Hk Hok).
  split_step HS Q.
Qed.

Theorem yearly_quiet2 : forall limit n, ylo <= r_y r <= yhi ->
  (forall j, 0 <= j < Z.of_nat n -> okp_y r yhi j) -> quiet (snd (iterate rl limit n)).
Proof.
  intros limit n Hr0 Hokn.
  destruct (normalize_misc r rl HN) as (Ni & Nsp & Ny & Nm & Nd & Nc & Nu).
  pose proof (normalize_freq r rl HN) as Nfr. rewrite Hfr in Nfr.
  assert (V : valid_ymd (r_y r) (r_m r) (r_d r) = true).
  { pose proof HW as HW'. unfold spec_wf in HW'.
    repeat match type of HW' with _ && _ = true =>
      let H := fresh "W" in apply andb_true_iff in HW'; destruct HW' as [HW' H] end. assumption. }
  destruct (index_in_year _ _ _ V) as (_ & _ & Hy0).
  destruct (RB_ok (r_y r) (r_m r) Hr0) as (ii0 & R0).
  pose proof (timeset_is_spec r rl HN HW ltac:(rewrite Hfr; reflexivity)) as HT.
  unfold iterate, init_state. rewrite Nfr. change (YEARLY =? WEEKLY) with false. cbn [andb]. cbv iota.
  rewrite Ny, Nm, Nd, R0. cbn [bind].
  change (YEARLY <? HOURLY) with true. cbv iota. rewrite HT. cbn [bind]. rewrite Nc.
  set (s0 := mkSt _ _ _ _ _ _ _ _ _ _ _).
  assert (A0 : exists cnt, inv_y r rl ylo yhi 0 cnt s0).
  { exists (r_count r). unfold inv_y, at_pass_y, s0. cbn [c_year c_month c_ii c_timeset c_count].
    split; [|exact Hr0].
    split; [exact Hy0|]. split; [ring|]. split; [exact R0|]. split; reflexivity. }
  pose proof (run_quiet rl (fun k s => exists cnt, inv_y r rl ylo yhi k cnt s) (okp_y r yhi) yearly_step_quiet
                limit n 0 s0 A0 ltac:(lia) ltac:(intros j Hj; apply Hokn; lia)) as Q.
  destruct (run rl limit n s0) as [out t]. exact Q.
Qed.
End YearlyQuiet.

(* ------------------------------------------------------------------ DAILY *)
Section DailyQuiet.
Variables (r : raw) (rl : rule).
Hypothesis HN : normalize r = Ok rl.
Hypothesis Y : dfam_s r.

Lemma daily_step_quiet : forall k s, (exists cnt, at_pass_d r rl k cnt s) -> 0 <= k -> True ->
  match step rl s with inl s' => exists cnt', at_pass_d r rl (k + 1) cnt' s' | inr (_, t) => quiet t end.
Proof.
  intros k s (cnt & A) Hk _.
  pose proof A as (Av & Ao & Ar & At & Ac).
  pose proof Y as [HW Hfr Hp Hs He].
  pose proof (normalize_freq r rl HN) as Nfr. rewrite Hfr in Nfr.
  set (o := sp_ord0 r + k * r_interval r) in *.
  set (i := o - jan1 (c_year s)).
  destruct (index_in_year _ _ _ Av) as (Hi & Ho & Hy). rewrite Ao in Hi, Ho. fold i in Hi.
  pose proof (rebuild_ii_for rl _ _ _ Hy Ar) as F.
  assert (EI : ord_of_ymd (c_year s) (c_month s) (c_day s) - yearordinal (c_ii s) = i).
  { rewrite (f_yo _ _ F), Ao. reflexivity. }
  assert (HRj : day_rejected rl (c_ii s) i = Ok (negb (day_ok r o))).
  { rewrite (day_filter_correct_guarded r rl (c_year s) (c_month s) (c_ii s) i HN HW Hp Hs (or_introl He) Hy Ar Hi).
    unfold i. replace (jan1 (c_year s) + (o - jan1 (c_year s))) with o by lia. reflexivity. }
  destruct (single_day_filter rl (c_ii s) (c_year s) (c_month s) (c_day s) (negb (day_ok r o)) Av)
    as (ds & ds' & E1 & E2 & E3).
  { rewrite EI, (f_ylen _ _ F). exact Hi. }
  { rewrite EI. exact HRj. }
  rewrite EI in E1, E2, E3.
  assert (G : getdayset rl (c_ii s) (c_year s) (c_month s) (c_day s) = Ok (ds, i, i + 1)).
  { unfold getdayset. rewrite Nfr. change (DAILY =? YEARLY) with false. change (DAILY =? MONTHLY) with false.
    change (DAILY =? WEEKLY) with false. change ((DAILY <=? DAILY) && (DAILY <=? SECONDLY)) with true.
    cbv iota. exact E1. }
  assert (EP : somes (py_slice ds' i (i + 1)) =
               filter (fun j => day_ok r (jan1 (c_year s) + j)) (zrange i (i + 1))).
  { rewrite E3. unfold zrange. replace (Z.to_nat (i + 1 - i)) with 1%nat by lia. cbn [zrange_nat filter].
    replace (jan1 (c_year s) + i) with o by (unfold i; lia).
    destruct (day_ok r o); reflexivity. }
  assert (Q : match step rl s with inl _ => True | inr (_, t) => quiet t end).
  { apply (step_quiet r rl HN HW ltac:(rewrite Hfr; reflexivity) s ds _ _ ds' _ _ G E2 EP
             (ssorted_filter_zrange _ _ _)).
    - intros j Hj. apply filter_In in Hj. destruct Hj as [Hj _]. unfold zrange in Hj.
      pose proof (In_zrange_nat_bounds _ _ _ Hj) as Bj. rewrite (f_yo _ _ F). unfold from_ordinal.
      replace ((1 <=? jan1 (c_year s) + j) && (jan1 (c_year s) + j <=? max_ord)) with true by (unfold i in *; lia).
      reflexivity.
    - exact At.
    - intros c1 out1.
      destruct (daily_advance2 r rl HN Y k cnt s (negb (day_ok r o)) c1 out1 A) as [(s' & EA & _)|(EA & _)];
        [left; exists s'; exact EA|right; exact EA]. }
  pose proof (daily_step2 r rl HN Y k cnt s A Hk I) as HS.
  split_step HS Q.
Qed.

Theorem daily_quiet2 : forall limit n, quiet (snd (iterate rl limit n)).
Proof.
  intros limit n.
  pose proof Y as [HW Hfr Hp Hs He].
  destruct (normalize_misc r rl HN) as (Ni & Nsp & Ny & Nm & Nd & Nc & Nu).
  pose proof (normalize_freq r rl HN) as Nfr. rewrite Hfr in Nfr.
  pose proof (normalize_wkst r rl HN) as Nwk.
  pose proof (plain_only_no_nth r rl HN Hp) as TN.
  destruct (normalize_fields r rl HN) as (_ & _ & _ & _ & _ & Nea & _).
  assert (TE : truthy (byeaster rl) = false) by (rewrite Nea, He; reflexivity).
  assert (Hwf : 0 <= r_wkst r <= 6 /\ valid_ymd (r_y r) (r_m r) (r_d r) = true).
  { pose proof HW as HW'. unfold spec_wf in HW'.
    repeat match type of HW' with _ && _ = true =>
      let H := fresh "W" in apply andb_true_iff in HW'; destruct HW' as [HW' H] end.
    unfold between in *. split; [lia|assumption]. }
  destruct Hwf as [Hwk V].
  destruct (index_in_year _ _ _ V) as (_ & _ & Hy0).
  destruct (rebuild_succeeds rl (r_y r) (r_m r) Hy0 ltac:(rewrite Nwk; exact Hwk) TN (or_introl TE)) as (ii0 & R0).
  pose proof (timeset_is_spec r rl HN HW ltac:(rewrite Hfr; reflexivity)) as HT.
  unfold iterate, init_state. rewrite Nfr. change (DAILY =? WEEKLY) with false. cbn [andb]. cbv iota.
  rewrite Ny, Nm, Nd, R0. cbn [bind].
  change (DAILY <? HOURLY) with true. cbv iota. rewrite HT. cbn [bind]. rewrite Nc.
  set (s0 := mkSt _ _ _ _ _ _ _ _ _ _ _).
  assert (A0 : exists cnt, at_pass_d r rl 0 cnt s0).
  { exists (r_count r). unfold at_pass_d, s0. cbn [c_year c_month c_day c_ii c_timeset c_count].
    split; [exact V|]. split; [unfold sp_ord0; ring|]. split; [exact R0|]. split; reflexivity. }
  pose proof (run_quiet rl (fun k s => exists cnt, at_pass_d r rl k cnt s) (fun _ => True) daily_step_quiet
                limit n 0 s0 A0 ltac:(lia) (fun j _ => I)) as Q.
  destruct (run rl limit n s0) as [out t]. exact Q.
Qed.
End DailyQuiet.

(* ------------------------------------------------------------------ WEEKLY without BYSETPOS *)
Section WeeklyQuiet.
Variables (r : raw) (rl : rule).
Hypothesis HN : normalize r = Ok rl.
Hypothesis Y : wfam r.

Lemma weekly_days_w : forall k cnt s, at_pass_w r rl k cnt s -> 0 <= k ->
  let y := c_year s in
  let st := wcur r k - jan1 y in let en := wend r k - jan1 y in
  exists ds ds' f,
    getdayset rl (c_ii s) y (c_month s) (c_day s) = Ok (ds, st, en) /\
    filter_loop rl (c_ii s) (py_slice ds st en) ds false = Ok (ds', f) /\
    somes (py_slice ds' st en) = filter (fun i => day_ok r (jan1 y + i)) (zrange st en) /\
    1 <= jan1 y + st /\ jan1 y + en <= max_ord + 1.
Proof.
  intros k cnt s (Av & Ao & Aw & Ar & At & Ac) Hk y st en.
  fold y in Av, Ao, Ar.
  assert (Hmax : 1 <= wcur r k <= max_ord) by (pose proof (ord_of_ymd_range _ _ _ Av) as RR; rewrite Ao in RR; lia).
  destruct Y as [HW Hfr Hp Hsp Hs He].
  pose proof (normalize_freq r rl HN) as Nfr. rewrite Hfr in Nfr.
  pose proof (normalize_wkst r rl HN) as Nwk.
  assert (Hwf : 1 <= r_interval r /\ 0 <= r_wkst r <= 6 /\ valid_ymd (r_y r) (r_m r) (r_d r) = true).
  { pose proof HW as HW'. unfold spec_wf in HW'.
    repeat match type of HW' with _ && _ = true =>
      let H := fresh "W" in apply andb_true_iff in HW'; destruct HW' as [HW' H] end.
    unfold between in *. split; [lia|]. split; [lia|assumption]. }
  destruct Hwf as (Hitv & Hwk & V).
  destruct (index_in_year _ _ _ Av) as (Hi & Ho & Hy). rewrite Ao in Hi, Ho. fold st in Hi.
  pose proof (rebuild_ii_for rl y _ (c_ii s) Hy Ar) as F.
  destruct (wcur_week r k Hitv Hwk Hk) as [Ew Bc].
  assert (YL : 365 <= year_len y <= 366) by (unfold year_len; destruct (is_leap y); lia).
  destruct (wdayset_correct rl (c_ii s) y y (c_month s) (c_day s) F ltac:(rewrite Nwk; exact Hwk) Av
              ltac:(rewrite Ao; exact Hi)) as (ds & suf & E1 & Eds & _).
  rewrite Ao in E1, Eds. fold st in E1, Eds.
  assert (EL : st + Z.min (week_rest (weekday_of_ord (jan1 y)) (wkst rl) st) (max_ord + 1 - (jan1 y + st)) = en).
  { unfold week_rest. rewrite <- wd_shift. replace (jan1 y + st) with (wcur r k) by (unfold st; lia).
    rewrite Nwk, Ew. unfold st, en, wend. lia. }
  rewrite EL in E1, Eds.
  assert (G : getdayset rl (c_ii s) y (c_month s) (c_day s) = Ok (ds, st, en)).
  { unfold getdayset. rewrite Nfr. change (WEEKLY =? YEARLY) with false. change (WEEKLY =? MONTHLY) with false.
    change (WEEKLY =? WEEKLY) with true. cbv iota. exact E1. }
  set (rej := fun i => negb (day_ok r (jan1 y + i))).
  assert (HRj : forall i, st <= i < en -> day_rejected rl (c_ii s) i = Ok (rej i)).
  { intros i Hi'. destruct (Z_lt_ge_dec i (year_len y)) as [Hlt|Hge].
    - apply (day_filter_correct_guarded r rl y (c_month s) (c_ii s) i HN HW Hp Hs (or_introl He) Hy Ar). lia.
    - apply (day_filter_ext r rl y (c_month s) (c_ii s) i HN HW Hp Hs He Hy Ar); [unfold st, en, wend in *; lia|].
      unfold used_index, shape_of. cbn [sh_ylen sh_ywd].
      rewrite <- wd_shift.
      replace (jan1 y + i) with (wlo r k + (jan1 y + i - wlo r k)) by lia.
      rewrite wd_shift, (wlo_weekday r k Hwk).
      rewrite (week_off (r_wkst r) (jan1 y + i - wlo r k) Hwk) by (unfold st, en, wend in *; lia).
      unfold st, en, wend in *. lia. }
  set (pre := repeat (@None Z) (Z.to_nat st)).
  assert (Lp : Z.of_nat (length pre) = st) by (unfold pre; rewrite repeat_length; lia).
  assert (Hse : st <= en) by (unfold st, en, wend; lia).
  assert (SL : py_slice ds st en = map Some (zrange st en)).
  { rewrite Eds. fold pre. pose proof (py_slice_mid pre (map Some (zrange st en)) suf) as P.
    rewrite Lp in P. rewrite map_length in P. unfold zrange in P at 2. rewrite zrange_nat_length in P.
    replace (st + Z.of_nat (Z.to_nat (en - st))) with en in P by lia. exact P. }
  assert (FL : filter_loop rl (c_ii s) (py_slice ds st en) ds false =
               Ok (pre ++ map (mark rej) (zrange st en) ++ suf, existsb rej (zrange st en))).
  { rewrite SL, Eds. fold pre. unfold zrange.
    rewrite (filter_loop_range rl (c_ii s) rej (Z.to_nat (en - st)) st pre suf false Lp).
    - reflexivity.
    - intros i Hi'. apply HRj. lia. }
  set (ds' := pre ++ map (mark rej) (zrange st en) ++ suf).
  assert (SL' : py_slice ds' st en = map (mark rej) (zrange st en)).
  { unfold ds'. pose proof (py_slice_mid pre (map (mark rej) (zrange st en)) suf) as P.
    rewrite Lp in P. rewrite map_length in P. unfold zrange in P at 2. rewrite zrange_nat_length in P.
    replace (st + Z.of_nat (Z.to_nat (en - st))) with en in P by lia. exact P. }
  exists ds, ds', (existsb rej (zrange st en)). split; [exact G|]. split; [exact FL|]. split.
  - rewrite SL', somes_map_mark. apply filter_ext'. intros x. unfold rej. apply negb_involutive.
  - unfold st, en, wend. lia.
Qed.

Lemma weekly_step_quiet : forall k s, (exists cnt, at_pass_w r rl k cnt s) -> 0 <= k -> True ->
  match step rl s with inl s' => exists cnt', at_pass_w r rl (k + 1) cnt' s' | inr (_, t) => quiet t end.
Proof.
  intros k s (cnt & A) Hk _.
  pose proof A as (Av & Ao & Aw & Ar & At & Ac).
  pose proof Y as [HW Hfr Hp Hsp Hs He].
  destruct (weekly_days_w k cnt s A Hk) as (ds & ds' & f & E1 & E2 & E3 & B1 & B2).
  destruct (index_in_year _ _ _ Av) as (_ & _ & Hy).
  pose proof (rebuild_ii_for rl _ _ (c_ii s) Hy Ar) as F.
  assert (Q : match step rl s with inl _ => True | inr (_, t) => quiet t end).
  { apply (step_quiet r rl HN HW ltac:(rewrite Hfr; reflexivity) s ds _ _ ds' f _ E1 E2 E3
             (ssorted_filter_zrange _ _ _)).
    - intros i Hi. apply filter_In in Hi. destruct Hi as [Hi _]. unfold zrange in Hi.
      pose proof (In_zrange_nat_bounds _ _ _ Hi) as Bi. rewrite (f_yo _ _ F). unfold from_ordinal.
      replace ((1 <=? jan1 (c_year s) + i) && (jan1 (c_year s) + i <=? max_ord)) with true by lia. reflexivity.
    - exact At.
    - intros c1 out1.
      destruct (weekly_advance r rl k cnt s f c1 out1 HN Y A Hk) as [(s' & EA & _)|(EA & _)];
        [left; exists s'; exact EA|right; exact EA]. }
  pose proof (weekly_step r rl k cnt s HN Y A Hk) as HS.
  split_step HS Q.
Qed.

Theorem weekly_quiet_nosetpos : forall limit n, quiet (snd (iterate rl limit n)).
Proof.
  intros limit n.
  pose proof Y as [HW Hfr Hp Hsp Hs He].
  destruct (normalize_misc r rl HN) as (Ni & Nsp & Ny & Nm & Nd & Nc & Nu).
  pose proof (normalize_freq r rl HN) as Nfr. rewrite Hfr in Nfr.
  pose proof (normalize_wkst r rl HN) as Nwk.
  pose proof (plain_only_no_nth r rl HN Hp) as TN.
  destruct (normalize_fields r rl HN) as (_ & _ & _ & _ & _ & Nea & _).
  assert (TE : truthy (byeaster rl) = false) by (rewrite Nea, He; reflexivity).
  assert (Hwf : 1 <= r_interval r /\ 0 <= r_wkst r <= 6 /\ valid_ymd (r_y r) (r_m r) (r_d r) = true).
  { pose proof HW as HW'. unfold spec_wf in HW'.
    repeat match type of HW' with _ && _ = true =>
      let H := fresh "W" in apply andb_true_iff in HW'; destruct HW' as [HW' H] end.
    unfold between in *. split; [lia|]. split; [lia|assumption]. }
  destruct Hwf as (Hitv & Hwk & V).
  destruct (index_in_year _ _ _ V) as (_ & _ & Hy0).
  destruct (rebuild_succeeds rl (r_y r) (r_m r) Hy0 ltac:(rewrite Nwk; exact Hwk) TN (or_introl TE)) as (ii0 & R0).
  pose proof (timeset_is_spec r rl HN HW ltac:(rewrite Hfr; reflexivity)) as HT.
  unfold iterate, init_state. rewrite Nfr, Nsp, Hsp. change (WEEKLY =? WEEKLY) with true.
  cbn [truthy andb]. cbv iota.
  rewrite Ny, Nm, Nd, R0. cbn [bind].
  change (WEEKLY <? HOURLY) with true. cbv iota. rewrite HT. cbn [bind]. rewrite Nc.
  set (s0 := mkSt _ _ _ _ _ _ _ _ _ _ _).
  assert (C0 : wcur r 0 = sp_ord0 r).
  { destruct (wcur_cases r 0 Hitv Hwk ltac:(lia)) as [(_ & E & _)|(H & _)]; [exact E|lia]. }
  assert (A0 : exists cnt, at_pass_w r rl 0 cnt s0).
  { exists (r_count r). unfold at_pass_w, s0. cbn [c_year c_month c_day c_weekday c_ii c_timeset c_count].
    split; [exact V|]. split; [rewrite C0; reflexivity|]. split; [rewrite C0; reflexivity|].
    split; [exact R0|]. split; reflexivity. }
  assert (Q : quiet (snd (run rl limit n s0))).
  { apply (run_quiet rl (fun k s => exists cnt, at_pass_w r rl k cnt s) (fun _ => True)
             weekly_step_quiet limit n 0 s0 A0 ltac:(lia)).
    intros j Hj. exact I. }
  destruct (run rl limit n s0) as [out t]. exact Q.
Qed.
End WeeklyQuiet.

(* ------------------------------------------------------------------ WEEKLY with BYSETPOS *)
Section WeeklySetposQuiet.
Variables (r : raw) (rl : rule).
Hypothesis HN : normalize r = Ok rl.
Hypothesis Y : wfam_s r.

Lemma weekly_step_quiet_s : forall k s, (exists cnt, at_pass_ws r rl k cnt s) -> 0 <= k -> True ->
  match step rl s with inl s' => exists cnt', at_pass_ws r rl (k + 1) cnt' s' | inr (_, t) => quiet t end.
Proof.
  intros k s (cnt & A) Hk _.
  pose proof A as (Av & Ao & Aw & Ar & At & Ac).
  pose proof Y as [HW Hfr Hp Hs He].
  assert (Hmax : 1 <= wbeg r k <= max_ord) by (pose proof (ord_of_ymd_range _ _ _ Av) as RR; rewrite Ao in RR; lia).
  destruct (weekly_days_s r rl HN Y k cnt s A Hk) as (ds & ds' & f & E1 & E2 & E3).
  destruct (index_in_year _ _ _ Av) as (Hi & Ho & Hy). rewrite Ao in Hi, Ho.
  pose proof (rebuild_ii_for rl _ _ (c_ii s) Hy Ar) as F.
  assert (Q : match step rl s with inl _ => True | inr (_, t) => quiet t end).
  { apply (step_quiet r rl HN HW ltac:(rewrite Hfr; reflexivity) s ds _ _ ds' f _ E1 E2 E3
             (ssorted_filter_zrange _ _ _)).
    - intros i Hi'. apply filter_In in Hi'. destruct Hi' as [Hi' _]. unfold zrange in Hi'.
      pose proof (In_zrange_nat_bounds _ _ _ Hi') as Bi. rewrite (f_yo _ _ F). unfold from_ordinal.
      replace ((1 <=? jan1 (c_year s) + i) && (jan1 (c_year s) + i <=? max_ord)) with true by (unfold wend in *; lia).
      reflexivity.
    - exact At.
    - intros c1 out1.
      destruct (weekly_advance_s r rl HN Y k cnt s f c1 out1 A Hk) as [(s' & EA & _)|(EA & _)];
        [left; exists s'; exact EA|right; exact EA]. }
  pose proof (weekly_step_s r rl HN Y k cnt s A Hk I) as HS.
  split_step HS Q.
Qed.

Theorem weekly_quiet_setpos : forall limit n, r_bysetpos r <> None -> quiet (snd (iterate rl limit n)).
Proof.
  intros limit n Hsp.
  pose proof Y as [HW Hfr Hp Hs He].
  destruct (normalize_misc r rl HN) as (Ni & Nsp & Ny & Nm & Nd & Nc & Nu).
  pose proof (normalize_freq r rl HN) as Nfr. rewrite Hfr in Nfr.
  pose proof (normalize_wkst r rl HN) as Nwk.
  pose proof (plain_only_no_nth r rl HN Hp) as TN.
  destruct (normalize_fields r rl HN) as (_ & _ & _ & _ & _ & Nea & _).
  assert (TE : truthy (byeaster rl) = false) by (rewrite Nea, He; reflexivity).
  assert (Hwf : 1 <= r_interval r /\ 0 <= r_wkst r <= 6 /\ valid_ymd (r_y r) (r_m r) (r_d r) = true).
  { pose proof HW as HW'. unfold spec_wf in HW'.
    repeat match type of HW' with _ && _ = true =>
      let H := fresh "W" in apply andb_true_iff in HW'; destruct HW' as [HW' H] end.
    unfold between in *. split; [lia|]. split; [lia|assumption]. }
  destruct Hwf as (Hitv & Hwk & V).
  pose proof (ord_of_ymd_range _ _ _ V) as R0. fold (sp_ord0 r) in R0.
  pose proof (timeset_is_spec r rl HN HW ltac:(rewrite Hfr; reflexivity)) as HT.
  assert (TS : truthy (bysetpos rl) = true).
  { rewrite Nsp. destruct (r_bysetpos r) as [poss|] eqn:EB; [|contradiction].
    pose proof HW as HW'. unfold spec_wf in HW'.
    repeat match type of HW' with _ && _ = true =>
      let H := fresh "W" in apply andb_true_iff in HW'; destruct HW' as [HW' H] end.
    rewrite EB in *. match goal with H : ne_opt (Some poss) = true |- _ => rename H into HE end.
    destruct poss; [discriminate HE|reflexivity]. }
  set (back := (weekday (r_y r) (r_m r) (r_d r) - r_wkst r) mod 7).
  assert (EB : sp_ord0 r - back = ws0 r) by reflexivity.
  assert (EW0 : wlo r 0 = ws0 r) by (unfold wlo; lia).
  assert (PRO : exists y0 m0 d0,
     (if negb (back =? 0)
      then let '(y', m', d') := ymd_of_ord (Z.max (sp_ord0 r - back) 1) in
           (y', m', d', weekday_of_ord (Z.max (sp_ord0 r - back) 1))
      else (r_y r, r_m r, r_d r, weekday (r_y r) (r_m r) (r_d r))) = (y0, m0, d0, weekday_of_ord (wbeg r 0)) /\
     valid_ymd y0 m0 d0 = true /\ ord_of_ymd y0 m0 d0 = wbeg r 0).
  { assert (EB0 : Z.max (sp_ord0 r - back) 1 = wbeg r 0) by (unfold wbeg; lia).
    destruct (back =? 0) eqn:E0; cbn [negb andb].
    - assert (EQ : wbeg r 0 = sp_ord0 r) by lia.
      exists (r_y r), (r_m r), (r_d r). split; [|split; [exact V|]].
      + rewrite EQ. reflexivity.
      + fold (sp_ord0 r). lia.
    - rewrite EB0.
      pose proof (ymd_of_ord_valid (wbeg r 0) ltac:(unfold back in *; lia)) as VV.
      destruct (ymd_of_ord (wbeg r 0)) as [[y0 m0] d0]. destruct VV as [V1 V2].
      exists y0, m0, d0. split; [reflexivity|]. split; assumption. }
  destruct PRO as (y0 & m0 & d0 & EP & V0 & O0).
  destruct (index_in_year _ _ _ V0) as (_ & _ & Hy0).
  destruct (rebuild_succeeds rl y0 m0 Hy0 ltac:(rewrite Nwk; exact Hwk) TN (or_introl TE)) as (ii0 & R0').
  unfold iterate, init_state. rewrite Nfr, TS. change (WEEKLY =? WEEKLY) with true. cbn [andb]. cbv iota.
  rewrite Ny, Nm, Nd, Nwk. fold (sp_ord0 r). fold back. rewrite EP. rewrite R0'. cbn [bind].
  change (WEEKLY <? HOURLY) with true. cbv iota. rewrite HT. cbn [bind]. rewrite Nc.
  set (s0 := mkSt _ _ _ _ _ _ _ _ _ _ _).
  assert (A0 : exists cnt, at_pass_ws r rl 0 cnt s0).
  { exists (r_count r). unfold at_pass_ws, s0. cbn [c_year c_month c_day c_weekday c_ii c_timeset c_count].
    split; [exact V0|]. split; [exact O0|]. split; [reflexivity|].
    split; [exact R0'|]. split; reflexivity. }
  assert (Q : quiet (snd (run rl limit n s0))).
  { apply (run_quiet rl (fun k s => exists cnt, at_pass_ws r rl k cnt s) (fun _ => True)
             weekly_step_quiet_s limit n 0 s0 A0 ltac:(lia)).
    intros j Hj. exact I. }
  destruct (run rl limit n s0) as [out t]. exact Q.
Qed.
End WeeklySetposQuiet.

(* ------------------------------------------------------------------ the families *)
Lemma wk_ok r rl : normalize r = Ok rl -> spec_wf r = true -> 0 <= wkst rl <= 6.
Proof.
  intros HN HW. rewrite (normalize_wkst r rl HN). unfold spec_wf in HW.
  repeat match type of HW with _ && _ = true =>
    let H := fresh "W" in apply andb_true_iff in HW; destruct HW as [HW H] end.
  unfold between in *. lia.
Qed.

Theorem monthly_quiet : forall r rl limit n, normalize r = Ok rl -> mfam_all r -> quiet (snd (iterate rl limit n)).
Proof.
  intros r rl limit n HN [HW Hfr Hs He].
  pose proof (wk_ok r rl HN HW) as Hwk.
  pose proof (normalize_freq r rl HN) as Nfr. rewrite Hfr in Nfr.
  destruct (normalize_fields r rl HN) as (_ & _ & _ & _ & _ & Nea & _).
  assert (TE : truthy (byeaster rl) = false) by (rewrite Nea, He; reflexivity).
  destruct (plain_only r) eqn:Hp.
  - pose proof (plain_only_no_nth r rl HN Hp) as TN.
    apply (monthly_quiet2 r rl HN HW Hfr 1 9999); [| | |apply (start_year_range_m r HW)|intros j _; unfold okp_m; lia].
    + intros y m Hy Hm. apply (rebuild_succeeds rl y m Hy Hwk TN (or_introl TE)).
    + intros y m ii y' m' Hy Hm Ar Hy' Hm' Hne.
      destruct (Z.eq_dec y' y) as [->|Hney].
      * apply (rebuild_same_year rl y m m' ii Ar Hy TN).
      * destruct (rebuild_slots rl y m ii Hy Ar) as (LY & EM).
        destruct (rebuild_char rl y m ii Hy Ar) as (_ & CN & _).
        apply rebuild_from_previous_year; [|exact TN|apply CN; exact TN|right; apply EM; exact TE].
        rewrite LY. unfold opt_neqb. apply negb_true_iff. apply Z.eqb_neq. lia.
    + intros y m ii i Hy Hm Ar Hi.
      pose proof (dbm_mono y 1 m ltac:(lia) ltac:(lia) ltac:(lia)) as M1.
      pose proof (dbm_mono y (m + 1) 13 ltac:(lia) ltac:(lia) ltac:(lia)) as M2.
      rewrite dbm_1 in M1. rewrite dbm_13 in M2.
      apply (day_filter_correct_guarded r rl y m ii i HN HW Hp Hs (or_introl He) Hy Ar). lia.
  - pose proof (not_plain_has_nth r rl HN ltac:(rewrite Hfr; reflexivity) Hp) as TN.
    pose proof (nth_pairs_ok r rl HN HW ltac:(rewrite Hfr; reflexivity)) as PK.
    apply (monthly_quiet2 r rl HN HW Hfr 1 9999); [| | |apply (start_year_range_m r HW)|intros j _; unfold okp_m; lia].
    + intros y m Hy Hm. apply (rebuild_nth_succeeds rl y m Hy Hm Hwk Nfr TN TE PK).
    + intros y m ii y' m' Hy Hm Ar Hy' Hm' Hne.
      destruct (Z.eq_dec y' y) as [->|Hney].
      * apply (rebuild_nth_same_year rl y m m' ii Ar Hy Nfr TN TE). destruct Hne as [H|H]; [contradiction|exact H].
      * destruct (rebuild_slots rl y m ii Hy Ar) as (LY & EM).
        apply rebuild_nth_other_year; [|exact Nfr|exact TN|exact TE|apply EM; exact TE].
        rewrite LY. unfold opt_neqb. apply negb_true_iff. apply Z.eqb_neq. lia.
    + intros y m ii i Hy Hm Ar Hi.
      apply (day_filter_correct_monthly_nth_guarded r rl y m ii i HN HW Hfr TN Hs (or_introl He) Hy Hm Ar Hi).
Qed.

Theorem yearly_quiet : forall r rl limit n, normalize r = Ok rl -> yfam_noe r -> quiet (snd (iterate rl limit n)).
Proof.
  intros r rl limit n HN [HW Hfr Hs He].
  pose proof (wk_ok r rl HN HW) as Hwk.
  pose proof (normalize_freq r rl HN) as Nfr. rewrite Hfr in Nfr.
  destruct (normalize_fields r rl HN) as (Nm & _ & _ & _ & _ & Nea & _).
  assert (TE : truthy (byeaster rl) = false) by (rewrite Nea, He; reflexivity).
  destruct (plain_only r) eqn:Hp.
  - pose proof (plain_only_no_nth r rl HN Hp) as TN.
    apply (yearly_quiet2 r rl HN HW Hfr 1 9999); [| | |apply (start_year_range r HW)|intros j _; unfold okp_y; lia].
    + intros y m Hy. apply (rebuild_succeeds rl y m Hy Hwk TN (or_introl TE)).
    + intros y m ii y' Hy Ar Hy' Hne.
      destruct (rebuild_slots rl y m ii Hy Ar) as (LY & EM).
      destruct (rebuild_char rl y m ii Hy Ar) as (_ & CN & _).
      apply rebuild_from_previous_year; [|exact TN|apply CN; exact TN|right; apply EM; exact TE].
      rewrite LY. unfold opt_neqb. apply negb_true_iff. apply Z.eqb_neq. lia.
    + intros y m ii i Hy Ar Hi.
      apply (day_filter_correct_guarded r rl y m ii i HN HW Hp Hs (or_introl He) Hy Ar Hi).
  - pose proof (not_plain_has_nth r rl HN ltac:(rewrite Hfr; reflexivity) Hp) as TN.
    pose proof (nth_pairs_ok r rl HN HW ltac:(rewrite Hfr; reflexivity)) as PK.
    destruct (r_bymonth r) as [lm|] eqn:Hbm.
    + assert (EBM : bymonth rl = Some (sort_set lm)).
      { rewrite Nm. unfold eff_bymonth. rewrite Hbm. reflexivity. }
      pose proof HW as HW'. unfold spec_wf in HW'.
      repeat match type of HW' with _ && _ = true =>
        let H := fresh "W" in apply andb_true_iff in HW'; destruct HW' as [HW' H] end.
      assert (AM : all_opt (r_bymonth r) (between 1 12) = true) by assumption.
      assert (NEm : ne_opt (r_bymonth r) = true) by assumption.
      rewrite Hbm in AM, NEm.
      assert (TB : truthy (bymonth rl) = true).
      { rewrite EBM. cbn [truthy]. pose proof (sort_set_nonempty lm) as SN.
        destruct lm; [discriminate NEm|]. cbn [nonempty] in SN. destruct (sort_set (z :: lm)); [discriminate SN|reflexivity]. }
      assert (RM : forall mo, In mo (opt_list (bymonth rl)) -> 1 <= mo <= 12).
      { rewrite EBM. cbn [opt_list]. intros mo Hmo. apply (proj1 (In_sort_set' mo lm)) in Hmo. cbn [all_opt] in AM.
        rewrite forallb_forall in AM. specialize (AM mo Hmo). unfold between in AM. lia. }
      apply (yearly_quiet2 r rl HN HW Hfr 1 9999); [| | |apply (start_year_range r HW)|intros j _; unfold okp_y; lia].
      * intros y m Hy. apply (rebuild_nth_succeeds_ym rl y m Hy Hwk Nfr TB RM TN TE PK).
      * intros y m ii y' Hy Ar Hy' Hne.
        destruct (rebuild_slots rl y m ii Hy Ar) as (LY & EM).
        apply rebuild_nth_other_year_ym; [|exact Nfr|exact TB|exact TN|exact TE|apply EM; exact TE].
        rewrite LY. unfold opt_neqb. apply negb_true_iff. apply Z.eqb_neq. lia.
      * intros y m ii i Hy Ar Hi.
        apply (day_filter_correct_yearly_bymonth_nth r rl y m ii i lm HN HW Hfr Hbm TN Hs He Hy Ar Hi).
    + assert (TB : truthy (bymonth rl) = false).
      { rewrite Nm. unfold eff_bymonth. rewrite Hbm.
        assert (ND : no_day_part r = false).
        { unfold no_day_part. unfold plain_only in Hp. destruct (r_byweekday r); [|discriminate Hp].
          cbn [is_none]. rewrite andb_false_r. reflexivity. }
        rewrite ND. reflexivity. }
      apply (yearly_quiet2 r rl HN HW Hfr 1 9999); [| | |apply (start_year_range r HW)|intros j _; unfold okp_y; lia].
      * intros y m Hy. apply (rebuild_nth_succeeds_y rl y m Hy Hwk Nfr TB TN TE PK).
      * intros y m ii y' Hy Ar Hy' Hne.
        destruct (rebuild_slots rl y m ii Hy Ar) as (LY & EM).
        apply rebuild_nth_other_year_y; [|exact Nfr|exact TB|exact TN|exact TE|apply EM; exact TE].
        rewrite LY. unfold opt_neqb. apply negb_true_iff. apply Z.eqb_neq. lia.
      * intros y m ii i Hy Ar Hi.
        apply (day_filter_correct_yearly_nth_guarded r rl y m ii i HN HW Hfr Hbm TN Hs (or_introl He) Hy Ar Hi).
Qed.

(* rrule_only_valueerror, strong form: under the guard of the summary theorem NO exception is raised *)
Theorem rrule_no_exception_coarse : forall r rl limit n,
  normalize r = Ok rl -> coarse_guard r n -> forall e, snd (iterate rl limit n) <> TRaised e.
Proof.
  intros r rl limit n HN (HW & Hs & He & [Hf|[Hf|[(Hf & Hp)|[Hf Hp]]]]).
  - apply (yearly_quiet r rl limit n HN). constructor; assumption.
  - apply (monthly_quiet r rl limit n HN). constructor; assumption.
  - destruct (r_bysetpos r) as [poss|] eqn:EB.
    + apply (weekly_quiet_setpos r rl HN ltac:(constructor; assumption) limit n). rewrite EB. discriminate.
    + apply (weekly_quiet_nosetpos r rl HN ltac:(constructor; assumption) limit n).
  - apply (daily_quiet2 r rl HN ltac:(constructor; assumption) limit n).
Qed.

(* the constructor accepts every rule of the specification's domain with FREQ coarser than HOURLY *)
Theorem normalize_total_coarse : forall r, spec_wf r = true -> (r_freq r <? HOURLY) = true ->
  exists rl, normalize r = Ok rl.
Proof.
  intros r HW Hf. unfold spec_wf in HW.
  repeat match type of HW with _ && _ = true =>
    let H := fresh "W" in apply andb_true_iff in HW; destruct HW as [HW H] end.
  assert (VH : 0 <= sp_H0 r <= 23 /\ 0 <= sp_M0 r <= 59 /\ 0 <= sp_S0 r <= 59).
  { match goal with H : valid_hms _ _ _ = true |- _ => unfold valid_hms in H end. lia. }
  destruct VH as (VH & VM & VS).
  pose proof (all_opt_range (r_byhour r) 0 23 (sp_H0 r) ltac:(assumption) VH) as RH.
  pose proof (all_opt_range (r_byminute r) 0 59 (sp_M0 r) ltac:(assumption) VM) as RM.
  pose proof (all_opt_range (r_bysecond r) 0 59 (sp_S0 r) ltac:(assumption) VS) as RS.
  unfold normalize.
  assert (EHMS : (if r_isdate r then (0, 0, 0) else (r_H r, r_M r, r_S r)) = (sp_H0 r, sp_M0 r, sp_S0 r)).
  { unfold sp_H0, sp_M0, sp_S0. destruct (r_isdate r); reflexivity. }
  rewrite EHMS.
  match goal with H : negb (negb (is_none (r_until r)) && r_tzmix r) = true |- _ =>
    apply negb_true_iff in H; rewrite H end.
  assert (SP : negb match r_bysetpos r with None => true | Some l => setpos_ok l end = false).
  { destruct (r_bysetpos r) as [l|]; [|reflexivity]. apply negb_false_iff. unfold setpos_ok.
    match goal with H : all_opt (Some l) _ = true |- _ => cbn [all_opt] in H; rewrite forallb_forall in H; rename H into HA end.
    apply forallb_forall. intros p Hp. specialize (HA p Hp). unfold between in HA. lia. }
  rewrite SP.
  match goal with |- exists rl, (let '(_, _) := ?p in _) = _ => destruct p end.
  unfold HOURLY, MINUTELY, SECONDLY in *.
  replace (r_freq r <? 4) with true by lia. replace (r_freq r <? 5) with true by lia.
  replace (r_freq r <? 6) with true by lia. replace (r_freq r =? 4) with false by lia.
  replace (r_freq r =? 5) with false by lia. replace (r_freq r =? 6) with false by lia.
  replace (4 <=? r_freq r) with false by lia.
  assert (E1 : forall (ol : option (list Z)) dd,
     match ol with Some l => Ok (Some (sort_set l)) | None => Ok (Some [dd]) end =
     Ok (Some (eff_times ol dd))).
  { intros ol dd. destruct ol; reflexivity. }
  (* fix 55654b4: 0 is not a member of BYMONTHDAY (spec_wf), nor is the start's day *)
  match goal with |- context [if memZ 0 ?l then _ else _] => assert (EZ : memZ 0 l = false) end.
  { match goal with |- memZ 0 (opt_list (if ?c then _ else _)) = false => destruct c end.
    - cbn [opt_list]. unfold memZ. cbn [existsb].
      match goal with H : valid_ymd _ _ _ = true |- _ => unfold valid_ymd in H end. lia.
    - destruct (r_bymonthday r) as [l|]; [|reflexivity]. cbn [opt_list]. unfold memZ.
      destruct (existsb (Z.eqb 0) l) eqn:EX; [|reflexivity].
      apply existsb_exists in EX. destruct EX as (x & Hx & E0).
      match goal with H : all_opt (Some l) (fun x => negb (x =? 0)) = true |- _ =>
        cbn [all_opt] in H; rewrite forallb_forall in H; specialize (H x Hx) end. lia. }
  rewrite EZ. cbn [bind].
  rewrite !E1. cbn [bind opt_list].
  rewrite (time_product_valid _ _ _ RH RM RS). cbn [bind]. eexists. reflexivity.
Qed.

(* constructor + iteration: a rule inside the guard never raises *)
Theorem rrule_total_coarse : forall r limit n, coarse_guard r n ->
  exists rl, normalize r = Ok rl /\ forall e, snd (iterate rl limit n) <> TRaised e.
Proof.
  intros r limit n G. pose proof G as (HW & _).
  destruct (normalize_total_coarse r HW) as (rl & HN).
  { pose proof (coarse_guard_freq r n G). unfold HOURLY, DAILY in *. lia. }
  exists rl. split; [exact HN|]. apply (rrule_no_exception_coarse r rl limit n HN G).
Qed.
