(* C01 layer 2 -- wnomask_correct (guarded) : for every year shape, week start and EVERY list of
   BYWEEKNO members in -53..53, the mask built by the model of _iterinfo.rebuild marks, on every
   index the iteration can read, exactly the days whose week number (or its negative within the
   week-year) is a member of the list.  Unbounded in the list (union theorem + induction); the
   finite part (28 shapes x 7 week starts x single members) is the sweep.  The guard is the RFC 5545
   range -53..53 (before /repo commit 83f8e67 the statement was false for +-52, +-53: F-C01-weekno).
   Also: no IndexError for ANY list of integers. *)
From Coq Require Import ZArith List Bool Lia.
From V Require Import base.Cal gen.RrTables rr.RRBase rr.RRNorm rr.RRMasks rr.RROverlay
  rr.RRWeekDefs rr.RRWeekThm rr.RRWeekSweepDefs
  rr.RRWeekSweep0 rr.RRWeekSweep1 rr.RRWeekSweep2 rr.RRWeekSweep3 rr.RRWeekSweep4 rr.RRWeekSweep5
  rr.RRWeekSweep6.
Import ListNotations.
Open Scope Z_scope.

Lemma In_zrange_nat n : forall a x, a <= x < a + Z.of_nat n -> In x (zrange_nat a n).
Proof.
  induction n as [|n IH]; intros a x H; [lia|]. cbn [zrange_nat].
  destruct (Z.eq_dec x a) as [->|Hne]; [left; reflexivity|right; apply IH; lia].
Qed.
Lemma In_zrange a b x : a <= x < b -> In x (zrange a b).
Proof. intros H. apply In_zrange_nat. lia. Qed.

Lemma sweep_all sh wk : In sh all_shapes -> 0 <= wk <= 6 -> sweep_cell sh wk = true.
Proof.
  intros Hs Hw. unfold all_shapes in Hs. apply in_flat_map in Hs. destruct Hs as (wd & Hwd & Hs).
  assert (S : sweep_wd wd = true).
  { assert (C : wd = 0 \/ wd = 1 \/ wd = 2 \/ wd = 3 \/ wd = 4 \/ wd = 5 \/ wd = 6).
    { cbv in Hwd. intuition. }
    destruct C as [->|[->|[->|[->|[->|[->| ->]]]]]];
      [exact sweep_wd_0|exact sweep_wd_1|exact sweep_wd_2|exact sweep_wd_3|exact sweep_wd_4|
       exact sweep_wd_5|exact sweep_wd_6]. }
  unfold sweep_wd in S. rewrite forallb_forall in S. specialize (S sh Hs).
  rewrite forallb_forall in S. apply S. apply In_zrange. lia.
Qed.

Lemma forallb_combine_zrange (P : Z * Z -> bool) k : forall a m,
  forallb P (combine (zrange_nat a k) m) = true ->
  forall j, (j < k)%nat -> (j < length m)%nat -> P (a + Z.of_nat j, nth j m 0) = true.
Proof.
  induction k as [|k IH]; intros a m H j Hj Hm; [lia|].
  destruct m as [|v t]; [cbn in Hm; lia|]. cbn [zrange_nat combine forallb] in H.
  apply andb_true_iff in H. destruct H as [H0 H1].
  destruct j as [|j]; [cbn [nth]; replace (a + Z.of_nat 0) with a by lia; exact H0|].
  cbn [nth]. replace (a + Z.of_nat (S j)) with (a + 1 + Z.of_nat j) by lia.
  apply (IH (a + 1) t H1 j); cbn in Hm; lia.
Qed.

Lemma shape_mask_build sh wk L :
  shape_mask sh wk L =
  build (sh_lylen sh) (sh_nylen sh) (sh_ylen sh) (sh_ywd sh) wk (sh_wdm sh) L.
Proof. reflexivity. Qed.

Lemma is_ok_ex {A} (r : res A) : is_ok r = true -> exists a, r = Ok a.
Proof. destruct r; [eexists; reflexivity|discriminate]. Qed.

(* what a successful single-member sweep cell says *)
Lemma single_ok_spec sh wk n : single_ok sh wk n = true ->
  exists m, shape_mask sh wk [n] = Ok m /\ zlen m = sh_ylen sh + 7 /\
    forall i, used_index sh wk i = true -> nzb (nth (Z.to_nat i) m 0) = week_matches sh wk i n.
Proof.
  unfold single_ok. destruct (shape_mask sh wk [n]) as [m|e]; [|discriminate].
  intros H. apply andb_true_iff in H. destruct H as [HL HF]. apply Z.eqb_eq in HL.
  exists m. split; [reflexivity|]. split; [exact HL|]. intros i Hu.
  assert (Hi : 0 <= i < sh_ylen sh + 7).
  { unfold used_index in Hu. apply andb_true_iff in Hu. destruct Hu as [Hu _].
    apply andb_true_iff in Hu. destruct Hu as [H1 H2]. lia. }
  unfold zrange in HF.
  pose proof (forallb_combine_zrange _ _ _ _ HF (Z.to_nat i)) as K.
  unfold zlen in HL.
  specialize (K ltac:(lia) ltac:(lia)). cbv beta iota in K.
  replace (0 + Z.of_nat (Z.to_nat i)) with i in K by lia. rewrite Hu in K. cbn [negb orb] in K.
  apply eqb_prop in K. exact K.
Qed.

Lemma existsb_ext_in' {A} (f g : A -> bool) l :
  (forall x, In x l -> f x = g x) -> existsb f l = existsb g l.
Proof.
  induction l as [|x t IH]; intros H; [reflexivity|]. cbn [existsb].
  rewrite (H x (or_introl eq_refl)). rewrite IH; [reflexivity|]. intros y Hy. apply H. right. exact Hy.
Qed.

Definition weekno_safe (n : Z) : bool := (-53 <=? n) && (n <=? 53).

Theorem wnomask_correct_guarded : forall sh wk L,
  In sh all_shapes -> 0 <= wk <= 6 -> forallb weekno_safe L = true ->
  exists m, shape_mask sh wk L = Ok m /\ zlen m = sh_ylen sh + 7 /\
    forall i, used_index sh wk i = true ->
      nzb (nth (Z.to_nat i) m 0) = existsb (week_matches sh wk i) L.
Proof.
  intros sh wk L Hs Hw HL.
  pose proof (sweep_all sh wk Hs Hw) as SC. unfold sweep_cell in SC.
  repeat (apply andb_true_iff in SC; destruct SC as [SC ?]).
  rename H into Ssingle. rename H0 into Sn2. rename H1 into Sn1. rename H2 into Sf. rename H3 into Sh.
  destruct (is_ok_ex _ SC) as (g & Eg). destruct (is_ok_ex _ Sh) as (h & Eh).
  rewrite forallb_forall in Ssingle, HL.
  assert (Hsafe : forall n, In n L -> In n safe_ns).
  { intros n Hn. specialize (HL n Hn). unfold weekno_safe in HL. apply In_zrange. lia. }
  assert (HA : forall n, In n L -> exists a,
     f_op (sh_ylen sh) (sh_ywd sh) wk (sh_wdm sh) (zeros (len0 (sh_ylen sh))) n = Ok a).
  { intros n Hn. rewrite forallb_forall in Sf. apply is_ok_ex. apply Sf.
    specialize (HL n Hn). unfold weekno_safe in HL. apply In_zrange. lia. }
  destruct (build_union (sh_lylen sh) (sh_nylen sh) (sh_ylen sh) (sh_ywd sh) wk
              (sh_wdm sh) g h Eg Eh L HA) as (m & Em & Lm & Pm).
  exists m. rewrite shape_mask_build. split; [exact Em|].
  assert (Hylen : sh_ylen sh = 365 \/ sh_ylen sh = 366).
  { unfold all_shapes in Hs. apply in_flat_map in Hs. destruct Hs as (wd & _ & Hs).
    cbn in Hs. destruct Hs as [<-|[<-|[<-|[<-|[]]]]]; cbn; auto. }
  split; [unfold zlen; rewrite Lm; unfold len0; lia|].
  intros i Hu. rewrite Pm. apply existsb_ext_in'.
  intros n Hn. destruct (single_ok_spec sh wk n (Ssingle n (Hsafe n Hn))) as (mn & En & _ & Pn).
  unfold bit. rewrite <- shape_mask_build. rewrite En. apply Pn. exact Hu.
Qed.

(* ------------------------------------------------------------------ no IndexError, any list *)
Lemma f_op_far ylen ywd wk wdm z n :
  1 <= numweeks ylen ywd wk <= 53 -> n < -54 \/ 54 < n -> f_op ylen ywd wk wdm z n = Ok z.
Proof.
  intros Hn Hf. unfold f_op.
  destruct (n <? 0) eqn:E0.
  - assert (E : ((0 <? n + numweeks ylen ywd wk + 1) && (n + numweeks ylen ywd wk + 1 <=? numweeks ylen ywd wk)) = false).
    { apply andb_false_iff. left. apply Z.ltb_ge. lia. }
    rewrite E. reflexivity.
  - assert (E : ((0 <? n) && (n <=? numweeks ylen ywd wk)) = false).
    { apply andb_false_iff. right. apply Z.leb_gt. lia. }
    rewrite E. reflexivity.
Qed.

Theorem wnomask_no_index_error : forall sh wk L,
  In sh all_shapes -> 0 <= wk <= 6 ->
  exists m, shape_mask sh wk L = Ok m /\ length m = len0 (sh_ylen sh).
Proof.
  intros sh wk L Hs Hw.
  pose proof (sweep_all sh wk Hs Hw) as SC. unfold sweep_cell in SC.
  repeat (apply andb_true_iff in SC; destruct SC as [SC ?]).
  rename H into Ssingle. rename H0 into Sn2. rename H1 into Sn1. rename H2 into Sf. rename H3 into Sh.
  destruct (is_ok_ex _ SC) as (g & Eg). destruct (is_ok_ex _ Sh) as (h & Eh).
  assert (HA : forall n, In n L -> exists a,
     f_op (sh_ylen sh) (sh_ywd sh) wk (sh_wdm sh) (zeros (len0 (sh_ylen sh))) n = Ok a).
  { intros n _. destruct (Z_lt_dec n (-54)) as [Hl|Hl]; [|destruct (Z_lt_dec 54 n) as [Hg|Hg]].
    - eexists. apply f_op_far; lia.
    - eexists. apply f_op_far; lia.
    - rewrite forallb_forall in Sf. apply is_ok_ex. apply Sf. apply In_zrange. lia. }
  destruct (build_union (sh_lylen sh) (sh_nylen sh) (sh_ylen sh) (sh_ywd sh) wk
              (sh_wdm sh) g h Eg Eh L HA) as (m & Em & Lm & _).
  exists m. rewrite shape_mask_build. split; assumption.
Qed.

Example wnomask_guard_example : forallb weekno_safe [1; -1; 20; -53; 53; 52; -52] = true.
Proof. reflexivity. Qed.
