(* C01 layer 7 building block -- the until / dtstart / count gate of the generator (876-904) yields
   exactly what the specification's take (RRSpec.sp_take) yields on the candidates that are not
   earlier than the start: same items in the same order, for every candidate list, COUNT and UNTIL
   (the two differ only in WHEN they stop: the code stops at the first candidate after UNTIL even if
   it lies before dtstart, which cannot change the yielded items). *)
From Coq Require Import ZArith List Bool Lia ZifyBool.
From V Require Import base.Cal rr.RRBase rr.RRNorm rr.RRMasks rr.RRIter rr.RRSpec.
Import ListNotations.
Open Scope Z_scope.

Section Gate.
Variables (rl : rule) (r : raw).
Hypothesis Hstart : dtstart_inst rl = sp_start r.
Hypothesis Huntil : until rl = r_until r.

Lemma after_until_eq x : after_until rl x = sp_after_until r x.
Proof. unfold after_until, sp_after_until. rewrite Huntil. reflexivity. Qed.

(* once a candidate before the start is after UNTIL, every candidate >= start is after UNTIL *)
Lemma until_before_start x y :
  sp_after_until r x = true -> inst_le (sp_start r) x = false -> inst_le (sp_start r) y = true ->
  sp_after_until r y = true.
Proof.
  unfold sp_after_until, inst_le. destruct (r_until r) as [[[uo us] uu]|]; [|discriminate].
  destruct (sp_start r) as [so ss], x as [xo xs], y as [yo ys]. cbn [fst snd]. lia.
Qed.

Lemma sp_take_all_after xs : forall cnt acc,
  (forall y, In y xs -> sp_after_until r y = true) ->
  fst (fst (sp_take r xs cnt acc)) = acc.
Proof.
  destruct xs as [|y t]; intros cnt acc H; cbn [sp_take]; [reflexivity|].
  rewrite (H y (or_introl eq_refl)). reflexivity.
Qed.

Theorem gate_list_items : forall xs cnt acc,
  fst (fst (gate_list rl xs cnt acc)) =
  fst (fst (sp_take r (filter (inst_le (sp_start r)) xs) cnt acc)).
Proof.
  induction xs as [|x t IH]; intros cnt acc; cbn [gate_list filter]; [reflexivity|].
  unfold gate_one. rewrite after_until_eq, Hstart.
  destruct (sp_after_until r x) eqn:EU.
  - (* the code stops here *)
    cbn [fst]. destruct (inst_le (sp_start r) x) eqn:ES.
    + cbn [sp_take]. rewrite EU. reflexivity.
    + symmetry. apply sp_take_all_after. intros y Hy. apply filter_In in Hy. destruct Hy as [_ Hy].
      apply (until_before_start x y EU ES Hy).
  - destruct (inst_le (sp_start r) x) eqn:ES.
    + cbn [sp_take]. rewrite EU. destruct cnt as [c|].
      * destruct (c - 1 <? 0) eqn:EC.
        -- replace (c <=? 0) with true by lia. reflexivity.
        -- replace (c <=? 0) with false by lia. apply IH.
      * apply IH.
    + apply IH.
Qed.
End Gate.

(* the constructor keeps dtstart and UNTIL *)
Lemma normalize_start_until r rl : normalize r = Ok rl -> valid_ymd (r_y r) (r_m r) (r_d r) = true ->
  dtstart_inst rl = sp_start r /\ until rl = r_until r /\ count rl = r_count r.
Proof.
  unfold normalize, sp_start, sp_ord0, sp_sod0, sp_H0, sp_M0, sp_S0, dtstart_inst.
  destruct (r_isdate r);
  (destruct (negb (is_none (r_until r)) && r_tzmix r); [discriminate|];
   destruct (negb match r_bysetpos r with None => true | Some l => setpos_ok l end); [discriminate|];
   match goal with |- (let '(_, _) := ?p in _) = _ -> _ => destruct p end;
   intros H _;
   repeat match type of H with
   | bind ?x _ = _ => destruct x; cbn [bind] in H; [|discriminate H]
   end;
   inversion H; subst; cbn; repeat split; reflexivity).
Qed.
