(* C01 -- "exactly the recurrence set": once the generator has stopped for a reason other than running out of
   fuel (COUNT, UNTIL, year 9999, or `limit` reached), more fuel changes nothing, and -- under the headline guard --
   what it has yielded is the specification's sequence for every larger fuel as well. *)
From Coq Require Import ZArith List Bool Lia.
From V Require Import base.Cal rr.RRBase rr.RRNorm rr.RRMasks rr.RRIter rr.RRSpec rr.RRStripThm.
Import ListNotations.
Open Scope Z_scope.

Lemma run_fuel_mono rl limit : forall n m s,
  snd (run rl limit n s) <> TOutOfFuel -> run rl limit (n + m) s = run rl limit n s.
Proof.
  induction n as [|n IH]; intros m s H.
  - cbn [run snd] in H. contradiction.
  - cbn [Nat.add run] in *. destruct (limit <=? zlen (c_out s)); [reflexivity|].
    destruct (step rl s) as [s'|p]; [apply IH; exact H|reflexivity].
Qed.

Theorem iterate_fuel_mono : forall rl limit n n',
  snd (iterate rl limit n) <> TOutOfFuel -> (n <= n')%nat -> iterate rl limit n' = iterate rl limit n.
Proof.
  intros rl limit n n' H Hle. unfold iterate in *. destruct (init_state rl) as [s|e]; [|reflexivity].
  replace n' with (n + (n' - n))%nat by lia.
  rewrite (run_fuel_mono rl limit n (n' - n) s); [reflexivity|].
  destruct (run rl limit n s) as [out t]. exact H.
Qed.

(* a finished run has yielded the whole specified sequence (up to `limit`) *)
Theorem rrule_complete_coarse_all : forall r rl limit n n',
  normalize r = Ok rl -> (n <= n')%nat -> coarse_guard_all r n' ->
  snd (iterate rl limit n) <> TOutOfFuel ->
  fst (spec_iter r limit n') = fst (iterate rl limit n).
Proof.
  intros r rl limit n n' HN Hle G H.
  rewrite <- (rrule_iter_correct_coarse_all r rl limit n' HN G).
  rewrite (iterate_fuel_mono rl limit n n' H Hle). reflexivity.
Qed.
