(* C01 (rrule) -- shared vocabulary: result type with one constructor per exception class,
   Python list primitives (indexing with negative wrap, two-sided slices, item assignment,
   [0]*n, range, sorted(set(..))), instants.  No proofs in this file. *)
From Coq Require Import ZArith List Bool.
Import ListNotations.
Open Scope Z_scope.

(* ---------------------------------------------------------------- results *)
(* EValue = ValueError, EIndex = IndexError, EType = TypeError *)
Inductive exn := EValue | EIndex | EType.

Inductive res (A : Type) : Type :=
| Ok (a : A)
| Err (e : exn).
Arguments Ok {A} a.
Arguments Err {A} e.

Definition bind {A B : Type} (r : res A) (f : A -> res B) : res B :=
  match r with Ok a => f a | Err e => Err e end.

Notation "'do' x <- r ; k" := (bind r (fun x => k))
  (at level 200, x pattern, r at level 100, k at level 200, right associativity).

(* ---------------------------------------------------------------- Python lists *)
Definition zlen {A : Type} (l : list A) : Z := Z.of_nat (length l).

(* l[i] with Python's negative-index wrap; IndexError outside -len..len-1 *)
Definition py_nth {A : Type} (l : list A) (i : Z) : res A :=
  let j := if i <? 0 then i + zlen l else i in
  if j <? 0 then Err EIndex
  else match nth_error l (Z.to_nat j) with Some a => Ok a | None => Err EIndex end.

Fixpoint set_nat {A : Type} (l : list A) (n : nat) (v : A) : list A :=
  match l, n with
  | [], _ => []
  | _ :: t, O => v :: t
  | h :: t, S k => h :: set_nat t k v
  end.

(* l[i] = v *)
Definition py_set {A : Type} (l : list A) (i : Z) (v : A) : res (list A) :=
  let j := if i <? 0 then i + zlen l else i in
  if (j <? 0) || (zlen l <=? j) then Err EIndex else Ok (set_nat l (Z.to_nat j) v).

(* slice.indices for step 1: clamp a bound into 0..len *)
Definition clamp_idx (len i : Z) : Z :=
  let j := if i <? 0 then i + len else i in
  if j <? 0 then 0 else if len <? j then len else j.

(* l[a:b] *)
Definition py_slice {A : Type} (l : list A) (a b : Z) : list A :=
  let n := zlen l in
  let a' := clamp_idx n a in
  let b' := clamp_idx n b in
  firstn (Z.to_nat (b' - a')) (skipn (Z.to_nat a') l).

(* l[a:] *)
Definition py_from {A : Type} (l : list A) (a : Z) : list A :=
  skipn (Z.to_nat (clamp_idx (zlen l) a)) l.

(* [v]*n *)
Definition py_repeat {A : Type} (v : A) (n : Z) : list A := repeat v (Z.to_nat n).

(* list(range(a, b)) *)
Fixpoint zrange_nat (a : Z) (n : nat) : list Z :=
  match n with O => [] | S k => a :: zrange_nat (a + 1) k end.
Definition zrange (a b : Z) : list Z := zrange_nat a (Z.to_nat (b - a)).

Definition memZ (x : Z) (l : list Z) : bool := existsb (Z.eqb x) l.

(* sorted(l) by insertion; sorted(set(l)) drops duplicates *)
Fixpoint insertZ (x : Z) (l : list Z) : list Z :=
  match l with
  | [] => [x]
  | h :: t => if x <=? h then x :: l else h :: insertZ x t
  end.
Definition sortZ (l : list Z) : list Z := fold_right insertZ [] l.

Fixpoint insert_uniq (x : Z) (l : list Z) : list Z :=
  match l with
  | [] => [x]
  | h :: t => if x <? h then x :: l else if x =? h then l else h :: insert_uniq x t
  end.
Definition sort_set (l : list Z) : list Z := fold_right insert_uniq [] l.

(* sorted(set of (weekday, n) pairs)): lexicographic *)
Definition pair_lt (a b : Z * Z) : bool :=
  (fst a <? fst b) || ((fst a =? fst b) && (snd a <? snd b)).
Definition pair_eq (a b : Z * Z) : bool := (fst a =? fst b) && (snd a =? snd b).
Fixpoint insert_uniq_pair (x : Z * Z) (l : list (Z * Z)) : list (Z * Z) :=
  match l with
  | [] => [x]
  | h :: t => if pair_lt x h then x :: l else if pair_eq x h then l else h :: insert_uniq_pair x t
  end.
Definition sort_set_pair (l : list (Z * Z)) : list (Z * Z) := fold_right insert_uniq_pair [] l.

(* ---------------------------------------------------------------- instants *)
(* An instant is (proleptic ordinal of the day, second of the day).  tzinfo is opaque and
   carried through by the implementation; the model never looks at it. *)
Definition instant := (Z * Z)%type.
Definition inst_lt (a b : instant) : bool :=
  (fst a <? fst b) || ((fst a =? fst b) && (snd a <? snd b)).
Definition inst_le (a b : instant) : bool :=
  (fst a <? fst b) || ((fst a =? fst b) && (snd a <=? snd b)).
Definition inst_eq (a b : instant) : bool := (fst a =? fst b) && (snd a =? snd b).
Definition inst_code (a : instant) : Z := fst a * 86400 + snd a.

Fixpoint insert_inst (x : instant) (l : list instant) : list instant :=
  match l with
  | [] => [x]
  | h :: t => if inst_le x h then x :: l else h :: insert_inst x t
  end.
Definition sort_inst (l : list instant) : list instant := fold_right insert_inst [] l.

Definition valid_hms (h m s : Z) : bool :=
  (0 <=? h) && (h <=? 23) && (0 <=? m) && (m <=? 59) && (0 <=? s) && (s <=? 59).

(* frequencies *)
Definition YEARLY := 0. Definition MONTHLY := 1. Definition WEEKLY := 2. Definition DAILY := 3.
Definition HOURLY := 4. Definition MINUTELY := 5. Definition SECONDLY := 6.
