(* finite sweep shard: year shapes whose 1 January is weekday 5 (see RRWeekSweepDefs.v) *)
From Coq Require Import ZArith List Bool.
From V Require Import rr.RRWeekSweepDefs.
Open Scope Z_scope.
Lemma sweep_wd_5 : sweep_wd 5 = true.
Proof. vm_compute. reflexivity. Qed.
