(* C01 -- regression witnesses of the four defects that were found by this machinery and repaired
   in /repo (commits 83f8e67 BYWEEKNO near year boundaries, 12b1f51 WEEKLY+BYSETPOS first week,
   c760855 BYEASTER across the year end, 049bb14 BYWEEKNO in year 1).  Before the fixes each of
   these inputs was a `..._refuted` witness (model <> specification inside spec_wf); the model now
   mirrors the fixed code and agrees with the specification on all of them (vm_compute). *)
From Coq Require Import ZArith List Bool.
From V Require Import base.Cal rr.RRBase rr.RRNorm rr.RRMasks rr.RRIter rr.RRSpec.
Import ListNotations.
Open Scope Z_scope.

Definition model_run (r : raw) (limit : Z) (fuel : nat) : option (list instant * term) :=
  match normalize r with Ok rl => Some (iterate rl limit fuel) | Err _ => None end.

Definition agrees (r : raw) (limit : Z) (fuel : nat) : bool :=
  match model_run r limit fuel with
  | Some (out, _) =>
    let sp := fst (spec_iter r limit fuel) in
    (Nat.eqb (length out) (length sp)) && forallb (fun p => inst_eq (fst p) (snd p)) (combine out sp)
  | None => false
  end.

(* rrule(YEARLY, dtstart=datetime(1890,1,1), wkst=TH, byweekno=-52, until=datetime(1891,12,31,23,59,59)) *)
Definition raw_weekno : raw :=
  mkRaw YEARLY false 1890 1 1 0 0 0 1 3 None (Some (ord_of_ymd 1891 12 31, 86399, 0)) false
        None None None None None (Some [-52]) None None None None.
(* rrule(WEEKLY, dtstart=datetime(1997,9,3,9,0), byweekday=(MO,WE,FR), bysetpos=1, count=3) *)
Definition raw_setpos : raw :=
  mkRaw WEEKLY false 1997 9 3 9 0 0 1 0 (Some 3) None false
        (Some [1]) None None None None None (Some [(0, 0); (2, 0); (4, 0)]) None None None.
(* rrule(WEEKLY, dtstart=datetime(2016,12,1), byeaster=(-105, 0), until=datetime(2017,2,1)) *)
Definition raw_easter : raw :=
  mkRaw WEEKLY false 2016 12 1 0 0 0 1 0 None (Some (ord_of_ymd 2017 2 1, 0, 0)) false
        None None None None (Some [-105; 0]) None None None None None.
(* rrule(YEARLY, dtstart=datetime(1,1,1), wkst=TU, byweekno=1, until=datetime(3,1,1)) *)
Definition raw_year1 : raw :=
  mkRaw YEARLY false 1 1 1 0 0 0 1 1 None (Some (ord_of_ymd 3 1 1, 0, 0)) false
        None None None None None (Some [1]) None None None None.

Theorem regress_weekno : spec_wf raw_weekno = true /\ agrees raw_weekno 100 10 = true /\
  In (ord_of_ymd 1891 12 31, 0) (fst (spec_iter raw_weekno 100 10)).
Proof. vm_compute. repeat split; try reflexivity. repeat (try (left; reflexivity); right). Qed.

Theorem regress_setpos_week : spec_wf raw_setpos = true /\ agrees raw_setpos 100 10 = true /\
  hd_error (fst (spec_iter raw_setpos 100 10)) = Some (ord_of_ymd 1997 9 8, 32400).
Proof. vm_compute. repeat split; reflexivity. Qed.

Theorem regress_easter_week : spec_wf raw_easter = true /\ agrees raw_easter 100 30 = true /\
  fst (spec_iter raw_easter 100 30) = [(ord_of_ymd 2017 1 1, 0)].
Proof. vm_compute. repeat split; reflexivity. Qed.

Theorem regress_year1 : spec_wf raw_year1 = true /\ agrees raw_year1 100 10 = true /\
  hd_error (fst (spec_iter raw_year1 100 10)) = Some (ord_of_ymd 1 1 2, 0).
Proof. vm_compute. repeat split; reflexivity. Qed.
