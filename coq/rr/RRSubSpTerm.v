(* C01 -- termination is complete, sub-daily family: whenever the generator of an HOURLY / MINUTELY /
   SECONDLY rule of `sfam_sa` stops BY ITSELF -- COUNT used up, UNTIL passed, year > 9999, or the
   ValueError "Invalid combination of interval and other parameters" / TypeError of the sub-daily
   advance -- and not because the model ran out of fuel or reached the caller's limit, what has been
   yielded is the COMPLETE stream of the specification: every spec_iter output, for any limit and day
   count, is a prefix of it.  In particular the exception is raised only when the specification has
   nothing more to give (the sub-daily counterpart of the rr builder's rrule_no_exception: here the
   exception exists in the real code and is harmless).  Written by the rset builder (new file). *)
From Coq Require Import ZArith List Bool Lia ZifyBool.
From V Require Import base.Cal rr.RRBase rr.RRNorm rr.RRIter rr.RRSpec rr.RRStripThm rr.RRSubSpecCoh rr.RRSubAdvance
  rr.RRSubSpBase rr.RRSubSpFam rr.RRSubSpAll rr.RRSubTermGen.
Import ListNotations.
Open Scope Z_scope.

Theorem subdaily_sp_self_stop_is_end : forall r rl fr, normalize r = Ok rl -> sfam_s r fr ->
  fr = HOURLY \/ fr = MINUTELY \/ fr = SECONDLY ->
  forall limit n, snd (iterate rl limit n) <> TOutOfFuel -> snd (iterate rl limit n) <> TLimit ->
  forall L d, exists rest, fst (iterate rl limit n) = fst (spec_iter r L d) ++ rest.
Proof.
  intros r rl fr Hn HF Hfr.
  destruct (fam_s_basics r rl fr Hn HF Hfr) as (V & S1 & Nu & Hi & Hsod & Hsub).
  apply (self_stop_is_end r rl S1 Nu Hsub Hi Hsod (den_sub (nosp_raw r) (nosp_rule rl)) (filt_sub r)
           (pass_sub_sp r rl fr Hn HF Hfr) (next_sub_sp r rl fr Hn HF Hfr) (den_sub_day r rl fr Hn HF Hfr)
           (init_sub_sp r rl fr Hn HF Hfr)).
  - intros s k cnt out HD. pose proof (advance_correct_subdaily_sp r rl fr Hn HF Hfr s k cnt out HD) as AC.
    destruct (advance rl s (filt_sub r k) cnt out) as [[| |s']|e]; try exact AC. exact I.
  - destruct (init_state_den_sub_sp r rl fr Hn HF Hfr) as (s0 & E & _). exists s0. exact E.
Qed.

Theorem subdaily_all_self_stop_is_end : forall r rl fr, normalize r = Ok rl -> sfam_sa r fr ->
  fr = HOURLY \/ fr = MINUTELY \/ fr = SECONDLY ->
  forall limit n, snd (iterate rl limit n) <> TOutOfFuel -> snd (iterate rl limit n) <> TLimit ->
  forall L d, exists rest, fst (iterate rl limit n) = fst (spec_iter r L d) ++ rest.
Proof.
  intros r rl fr HN F Hfr limit n NF NL L d. pose proof (sub_finer r fr F Hfr) as Hm.
  rewrite <- (spec_iter_strip r L d Hm).
  apply (subdaily_sp_self_stop_is_end (strip r) rl fr ltac:(rewrite (normalize_strip r Hm); exact HN)
           (sfam_sa_strip r fr F) Hfr limit n NF NL L d).
Qed.

(* an exception of the generator is raised only at the end of the specification's stream *)
Theorem subdaily_all_raise_is_end : forall r rl fr, normalize r = Ok rl -> sfam_sa r fr ->
  fr = HOURLY \/ fr = MINUTELY \/ fr = SECONDLY ->
  forall limit n e, snd (iterate rl limit n) = TRaised e ->
  forall L d, is_prefix (fst (spec_iter r L d)) (fst (iterate rl limit n)).
Proof.
  intros r rl fr HN F Hfr limit n e E L d.
  destruct (subdaily_all_self_stop_is_end r rl fr HN F Hfr limit n
              ltac:(rewrite E; discriminate) ltac:(rewrite E; discriminate) L d) as [rest R].
  exists rest. exact R.
Qed.

(* and then every later, longer run yields exactly the same list: the stream has ended *)
Theorem subdaily_all_self_stop_final : forall r rl fr, normalize r = Ok rl -> sfam_sa r fr ->
  fr = HOURLY \/ fr = MINUTELY \/ fr = SECONDLY ->
  forall limit n, snd (iterate rl limit n) <> TOutOfFuel -> snd (iterate rl limit n) <> TLimit ->
  forall limit' n', is_prefix (fst (iterate rl limit' n')) (fst (iterate rl limit n)).
Proof.
  intros r rl fr HN F Hfr limit n NF NL limit' n'.
  destruct (subdaily_all_prefix_of_spec r rl fr HN F Hfr limit' n') as (L & d & rest1 & E1).
  destruct (subdaily_all_self_stop_is_end r rl fr HN F Hfr limit n NF NL L d) as [rest2 E2].
  exists (rest1 ++ rest2). rewrite E2, E1. symmetry. apply app_assoc.
Qed.
