(* C01 -- summary for rules WITH BYEASTER (a dateutil extension) and FREQ in YEARLY..DAILY, inside the year range
   of C19's Easter theorem: model = specification at equal fuel.  BYDAY without numeric prefixes (plain_only);
   BYSETPOS, COUNT, UNTIL, INTERVAL, WKST and the other BY-parts free. *)
From Coq Require Import ZArith List Bool Lia ZifyBool.
From V Require Import base.Cal rr.RRBase rr.RRNorm rr.RRMasks rr.RRIter rr.RRSpec rr.RRWeekCal rr.RRWeekFinal rr.RRFilterSpec
  rr.RRWeeklyThm rr.RRMonthlyThm rr.RRMonthlyFullThm rr.RRYearlyFullThm rr.RRDailyEasterThm rr.RRWeeklyEasterThm.
Import ListNotations.
Open Scope Z_scope.

(* the n passes stay inside the years for which Easter (and, for the cross-year week, next year's Easter) is
   covered by C19's theorem: 1583..4098 (WEEKLY: start year 1584..4097, passes up to the end of 4097) *)
Definition easter_guard (r : raw) (n : nat) : Prop :=
  spec_wf r = true /\ plain_only r = true /\ all_opt (r_byweekno r) weekno_safe = true /\
  ((r_freq r = YEARLY /\ 1583 <= r_y r <= 4098 /\
    forall j, 0 <= j < Z.of_nat n -> r_y r + (j + 1) * r_interval r <= 4098) \/
   (r_freq r = MONTHLY /\ 1583 <= r_y r <= 4098 /\
    forall j, 0 <= j < Z.of_nat n -> midx r (j + 1) / 12 <= 4098) \/
   (r_freq r = WEEKLY /\ (r_bysetpos r <> None -> 1 <= ws0 r) /\ 1584 <= r_y r /\ r_y r + 1 <= 4098 /\
    (n <> 0%nat -> wlo r (Z.of_nat n) <= we_last)) \/
   (r_freq r = DAILY /\ 1583 <= r_y r <= 4098 /\
    (n <> 0%nat -> sp_ord0 r + Z.of_nat n * r_interval r <= e_last))).

Theorem rrule_iter_correct_coarse_easter : forall r rl limit n,
  normalize r = Ok rl -> easter_guard r n ->
  fst (iterate rl limit n) = fst (spec_iter r limit n).
Proof.
  intros r rl limit n HN (HW & Hp & Hs & [(Hf & Hy & Hn)|[(Hf & Hy & Hn)|[(Hf & Hws & Hy1 & Hy2 & Hn)|(Hf & Hy & Hn)]]]).
  - apply (yearly_easter_iter_correct r rl limit n HN); [constructor; assumption|exact Hy|exact Hn].
  - apply (monthly_easter_iter_correct r rl limit n HN); [constructor; assumption|exact Hy|exact Hn].
  - apply (weekly_easter_iter_correct r rl limit n HN); [constructor; assumption|exact Hws|exact Hy1|exact Hy2|exact Hn].
  - apply (daily_easter_iter_correct r rl limit n HN); [constructor; assumption|exact Hy|exact Hn].
Qed.
