(* C01 -- model of dateutil.rrule._iterinfo (rrule.py 1118-1315): rebuild (year masks, week-number
   mask, nth-weekday mask, easter mask) and the five day sets / three time sets.  Python list
   indexing is py_nth / py_set (negative wrap, IndexError explicit).  No proofs in this file. *)
From Coq Require Import ZArith List Bool.
From V Require Import base.Cal gen.RrTables gen.EasterGen rr.RRBase rr.RRNorm.
Import ListNotations.
Open Scope Z_scope.

Record iinfo := mkII {
  lastyear : option Z; lastmonth : option Z;
  yearlen : Z; nextyearlen : Z; yearordinal : Z; yearweekday : Z;
  mmask : list Z; mrange : list Z; mdaymask : list Z; nmdaymask : list Z; wdaymask : list Z;
  wnomask : option (list Z); nwdaymask : option (list Z); eastermask : option (list Z)
}.

(* _iterinfo.__init__: every slot None (numeric slots are never read before rebuild sets them) *)
Definition ii_init : iinfo :=
  mkII None None 0 0 0 0 [] [] [] [] [] None None None.

(* datetime.date(y, m, d).toordinal(); ValueError for a non-existent date *)
Definition date_ord (y m d : Z) : res Z :=
  if valid_ymd y m d then Ok (ord_of_ymd y m d) else Err EValue.

(* datetime.date.fromordinal(o) *)
Definition from_ordinal (o : Z) : res Z :=
  if (1 <=? o) && (o <=? max_ord) then Ok o else Err EValue.

(* for j in range(7): mask[i] = 1; i += 1; if wdaymask[i] == wkst: break   (1181-1185) *)
Fixpoint mark_week (n : nat) (wdm : list Z) (wk : Z) (mask : list Z) (i : Z) : res (list Z) :=
  match n with
  | O => Ok mask
  | S k => do mask' <- py_set mask i 1;
           do w <- py_nth wdm (i + 1);
           if w =? wk then Ok mask' else mark_week k wdm wk mask' (i + 1)
  end.

Fixpoint fold_res {A B : Type} (f : B -> A -> res B) (l : list A) (b : B) : res B :=
  match l with
  | [] => Ok b
  | a :: t => do b' <- f b a; fold_res f t b'
  end.

(* lines 1194-1243, with rr._byweekno truthy.  lylen / nylen = length of the previous / next year
   (the code computes 365+calendar.isleap(year-1) and reads self.nextyearlen). *)
Definition build_wnomask_core (lylen nylen ylen ywd wk : Z) (wdm : list Z) (bwn : list Z)
  : res (list Z) :=
  let mask0 := py_repeat 0 (ylen + 7) in
  let firstwkst := (7 - ywd + wk) mod 7 in
  let '(no1wkst, wyearlen) :=
    if 4 <=? firstwkst then (0, ylen + (ywd - wk) mod 7) else (firstwkst, ylen - firstwkst) in
  let numweeks := wyearlen / 7 + (wyearlen mod 7) / 4 in
  do mask1 <- fold_res (fun mask n =>
      let n' := if n <? 0 then n + numweeks + 1 else n in
      if negb ((0 <? n') && (n' <=? numweeks)) then Ok mask else
      let i := if 1 <? n' then
                 (let i0 := no1wkst + (n' - 1) * 7 in
                  if negb (no1wkst =? firstwkst) then i0 - (7 - firstwkst) else i0)
               else no1wkst in
      mark_week 7 wdm wk mask i) bwn mask0;
  (* week 1 of next year = week -(number of weeks of next year) *)
  let nyearweekday := (ywd + ylen) mod 7 in
  let nno1wkst := (7 - nyearweekday + wk) mod 7 in
  let nwyearlen := if 4 <=? nno1wkst then nylen + (nyearweekday - wk) mod 7 else nylen - nno1wkst in
  let nnumweeks := nwyearlen / 7 + (nwyearlen mod 7) / 4 in
  do mask2 <-
    (if memZ 1 bwn || memZ (- nnumweeks) bwn then
       let i0 := no1wkst + numweeks * 7 in
       let i := if negb (no1wkst =? firstwkst) then i0 - (7 - firstwkst) else i0 in
       if i <? ylen then mark_week 7 wdm wk mask1 i else Ok mask1
     else Ok mask1);
  if negb (no1wkst =? 0) then
    let lnumweeks :=
      (if negb (memZ (-1) bwn) then
         let lyearweekday := (ywd - lylen) mod 7 in
         let lno1wkst := (7 - lyearweekday + wk) mod 7 in
         if 4 <=? lno1wkst then 52 + ((lylen + (lyearweekday - wk) mod 7) mod 7) / 4
         else (let lwyearlen := lylen - lno1wkst in lwyearlen / 7 + (lwyearlen mod 7) / 4)
       else -1) in
    if memZ lnumweeks bwn then
      fold_res (fun mask i => py_set mask i 1) (zrange 0 no1wkst) mask2
    else Ok mask2
  else Ok mask2.

Definition build_wnomask (year ylen nylen ywd wk : Z) (wdm : list Z) (bwn : list Z) : res (list Z) :=
  build_wnomask_core (365 + (if is_leap (year - 1) then 1 else 0)) nylen ylen ywd wk wdm bwn.

(* lines 1238-1252: one (first, last) range, all (wday, n) pairs *)
Definition nwd_range (wdm : list Z) (pairs : list (Z * Z)) (mask : list Z) (rg : list Z)
  : res (list Z) :=
  match rg with
  | [first; last0] =>
    let last := last0 - 1 in
    fold_res (fun mask wn =>
      let '(wday, n) := wn in
      if n <? 0 then
        let i := last + (n + 1) * 7 in
        if i <? first then Ok mask else
        do w <- py_nth wdm i;
        let i := i - (w - wday) mod 7 in
        if (first <=? i) && (i <=? last) then py_set mask i 1 else Ok mask
      else
        let i := first + (n - 1) * 7 in
        if last <? i then Ok mask else
        do w <- py_nth wdm i;
        let i := i + (7 - w + wday) mod 7 in
        if (first <=? i) && (i <=? last) then py_set mask i 1 else Ok mask) pairs mask
  | _ => Err EValue     (* `for first, last in ranges`: wrong number of values to unpack *)
  end.

Definition opt_neqb (o : option Z) (v : Z) : bool :=
  match o with None => true | Some x => negb (x =? v) end.

(* easter.easter(year).toordinal() *)
Definition easter_ord (year : Z) : res Z :=
  match easter_gen year easter_default_method with
  | Some (y, m, d) => Ok (ord_of_ymd y m d)
  | None => Err EValue
  end.

(* lines 1275-1287: eyday = index of this year's Easter Sunday in the year's mask (marks only the
   year's own days); neyday = index of NEXT year's Easter (marks only the 7 extra days), None when
   year = MAXYEAR *)
Definition build_eastermask (eyday : Z) (neyday : option Z) (ylen : Z) (offs : list Z) : res (list Z) :=
  do m1 <- fold_res (fun mask offset =>
              if (0 <=? eyday + offset) && (eyday + offset <? ylen)
              then py_set mask (eyday + offset) 1 else Ok mask)
           offs (py_repeat 0 (ylen + 7));
  match neyday with
  | None => Ok m1
  | Some e2 => fold_res (fun mask offset =>
                 if (ylen <=? e2 + offset) && (e2 + offset <? ylen + 7)
                 then py_set mask (e2 + offset) 1 else Ok mask) offs m1
  end.

Definition rebuild (rl : rule) (ii : iinfo) (year month : Z) : res iinfo :=
  (* 1132-1221 *)
  do ii1 <-
    (if opt_neqb (lastyear ii) year then
       let ylen := 365 + (if is_leap year then 1 else 0) in
       let nylen := 365 + (if is_leap (year + 1) then 1 else 0) in
       do yord <- date_ord year 1 1;
       let ywd := weekday_of_ord yord in
       let wdm := py_from T_WDAYMASK ywd in
       let '(mm, mdm, nmdm, mr) :=
         if ylen =? 365 then (T_M365MASK, T_MDAY365MASK, T_NMDAY365MASK, T_M365RANGE)
         else (T_M366MASK, T_MDAY366MASK, T_NMDAY366MASK, T_M366RANGE) in
       do wno <- (if negb (truthy (byweekno rl)) then Ok None
                  else do m <- build_wnomask year ylen nylen ywd (wkst rl) wdm (opt_list (byweekno rl));
                       Ok (Some m));
       Ok (mkII (lastyear ii) (lastmonth ii) ylen nylen yord ywd mm mr mdm nmdm wdm
                wno (nwdaymask ii) (eastermask ii))
     else Ok ii);
  (* 1223-1252 *)
  do r2 <-
    (if truthy (bynweekday rl) && (opt_neqb (lastmonth ii) month || opt_neqb (lastyear ii) year) then
       let '(ranges, month') :=
         if freq rl =? YEARLY then
           if truthy (bymonth rl) then
             (map (fun m => py_slice (mrange ii1) (m - 1) (m + 1)) (opt_list (bymonth rl)),
              last (opt_list (bymonth rl)) month)      (* the loop variable shadows `month` *)
           else ([[0; yearlen ii1]], month)
         else if freq rl =? MONTHLY then ([py_slice (mrange ii1) (month - 1) (month + 1)], month)
         else ([], month) in
       if nonempty ranges then
         do m <- fold_res (nwd_range (wdaymask ii1) (opt_list (bynweekday rl))) ranges
                          (py_repeat 0 (yearlen ii1));
         Ok (Some m, month')
       else Ok (nwdaymask ii1, month')
     else Ok (nwdaymask ii1, month));
  let '(nwd, month') := r2 in
  (* 1254-1259 *)
  do em <-
    (if truthy (byeaster rl) then
       do eo <- easter_ord year;
       let eyday := eo - yearordinal ii1 in
       do ne <- (if year <? T_MAXYEAR then do eo2 <- easter_ord (year + 1); Ok (Some (eo2 - yearordinal ii1))
                 else Ok None);
       do m <- build_eastermask eyday ne (yearlen ii1) (opt_list (byeaster rl));
       Ok (Some m)
     else Ok (eastermask ii1));
  Ok (mkII (Some year) (Some month') (yearlen ii1) (nextyearlen ii1) (yearordinal ii1)
           (yearweekday ii1) (mmask ii1) (mrange ii1) (mdaymask ii1) (nmdaymask ii1) (wdaymask ii1)
           (wnomask ii1) nwd em).

(* ------------------------------------------------------------------ day sets *)
Definition dayset := list (option Z).

Definition ydayset (ii : iinfo) : res (dayset * Z * Z) :=
  Ok (map Some (zrange 0 (yearlen ii)), 0, yearlen ii).

Definition mdayset (ii : iinfo) (month : Z) : res (dayset * Z * Z) :=
  match py_slice (mrange ii) (month - 1) (month + 1) with
  | [st; en] =>
    do ds <- fold_res (fun ds i => py_set ds i (Some i)) (zrange st en) (py_repeat None (yearlen ii));
    Ok (ds, st, en)
  | _ => Err EValue
  end.

(* for j in range(7): dset[i] = i; i += 1; if wdaymask[i] == wkst: break *)
(* yo = self.yearordinal: the week that contains 9999-12-31 ends at date.max (fix 8ced7a9) *)
Fixpoint wday_loop (n : nat) (wdm : list Z) (wk yo : Z) (ds : dayset) (i : Z) : res (dayset * Z) :=
  match n with
  | O => Ok (ds, i)
  | S k => do ds' <- py_set ds i (Some i);
           do w <- py_nth wdm (i + 1);
           if w =? wk then Ok (ds', i + 1)
           else if max_ord <? yo + (i + 1) then Ok (ds', i + 1)
           else wday_loop k wdm wk yo ds' (i + 1)
  end.

Definition wdayset (rl : rule) (ii : iinfo) (year month day : Z) : res (dayset * Z * Z) :=
  do o <- date_ord year month day;
  let i := o - yearordinal ii in
  do r <- wday_loop 7 (wdaymask ii) (wkst rl) (yearordinal ii) (py_repeat None (yearlen ii + 7)) i;
  Ok (fst r, i, snd r).

Definition ddayset (ii : iinfo) (year month day : Z) : res (dayset * Z * Z) :=
  do o <- date_ord year month day;
  let i := o - yearordinal ii in
  do ds <- py_set (py_repeat None (yearlen ii)) i (Some i);
  Ok (ds, i, i + 1).

Definition getdayset (rl : rule) (ii : iinfo) (year month day : Z) : res (dayset * Z * Z) :=
  if freq rl =? YEARLY then ydayset ii
  else if freq rl =? MONTHLY then mdayset ii month
  else if freq rl =? WEEKLY then wdayset rl ii year month day
  else if (DAILY <=? freq rl) && (freq rl <=? SECONDLY) then ddayset ii year month day
  else Err EType.      (* KeyError in the dict lookup; frequencies outside 0..6 are not generated *)

(* ------------------------------------------------------------------ time sets *)
Definition iter_opt (o : option (list Z)) : res (list Z) :=
  match o with Some l => Ok l | None => Err EType end.   (* `for x in None` *)

Definition htimeset (rl : rule) (hour : Z) : res (list Z) :=
  do ms <- iter_opt (byminute rl);
  do ts <- map_res (fun m => do ss <- iter_opt (bysecond rl); map_res (fun s => mk_time hour m s) ss) ms;
  Ok (sortZ (concat ts)).

Definition mtimeset (rl : rule) (hour minute : Z) : res (list Z) :=
  do ss <- iter_opt (bysecond rl);
  do ts <- map_res (fun s => mk_time hour minute s) ss;
  Ok (sortZ ts).

Definition stimeset (hour minute second : Z) : res (list Z) :=
  do t <- mk_time hour minute second; Ok [t].

Definition gettimeset (rl : rule) (hour minute second : Z) : res (list Z) :=
  if freq rl =? HOURLY then htimeset rl hour
  else if freq rl =? MINUTELY then mtimeset rl hour minute
  else stimeset hour minute second.
