(* C01 layer 7 -- the YEARLY family theorem WITHOUT the bound on the number of passes (rules without
   BYEASTER): when the next year would pass 9999 the code stops with the MAXYEAR return, the
   specification at the next step's range test; same yielded instants for EVERY fuel. *)
From Coq Require Import ZArith List Bool Lia ZifyBool.
From V Require Import base.Cal gen.RrTables rr.RRBase rr.RRNorm rr.RRMasks rr.RRIter rr.RRSpec
  rr.RRWeekCal rr.RRWeekFinal rr.RRFilterThm rr.RRFilterSpec rr.RRGateThm rr.RRTimesetThm rr.RRPassThm
  rr.RRYearlyThm rr.RRYearlyEasterThm rr.RRCountThm rr.RRYearlyCountThm rr.RRYearlyUntilThm.
Import ListNotations.
Open Scope Z_scope.

Lemma yearly_step_last : forall r rl k cnt s,
  normalize r = Ok rl -> yfam_u r -> at_pass_c r rl k cnt s ->
  1 <= r_y r + k * r_interval r <= 9999 -> 9999 < r_y r + (k + 1) * r_interval r ->
  r_byeaster r = None ->
  exists acc' cnt' b, sp_take r (step_items r k) cnt (c_out s) = (acc', cnt', b) /\
    (exists t, step rl s = inr (acc', t)) /\
    (sp_after_until r (jan1 (r_y r + k * r_interval r), 0) = true -> acc' = c_out s).
Proof.
  intros r rl k cnt s HN Y (Ay & Am & Ar & At & Ac) Hlo Hhi HE.
  pose proof Y as [HW Hfr Hp Hsp Hs].
  destruct (normalize_misc r rl HN) as (Ni & Nsp & _ & _ & _ & _ & _).
  pose proof (normalize_freq r rl HN) as Nfr. rewrite Hfr in Nfr.
  pose proof (normalize_wkst r rl HN) as Nwk.
  pose proof (plain_only_no_nth r rl HN Hp) as TN.
  pose proof (easter_cases r rl HN HW) as EC.
  assert (Hitv : 1 <= r_interval r /\ 0 <= r_wkst r <= 6).
  { pose proof HW as HW'. unfold spec_wf in HW'.
    repeat match type of HW' with _ && _ = true =>
      let H := fresh "W" in apply andb_true_iff in HW'; destruct HW' as [HW' H] end.
    unfold between in *. lia. }
  destruct Hitv as [Hitv Hwk].
  set (y := r_y r + k * r_interval r) in *.
  assert (Hy : 1 <= y <= 9999) by (unfold y; lia).
  rewrite Ay, Am in Ar.
  assert (HEy : r_byeaster r = None \/ 1583 <= y <= 4098).
  { left; exact HE. }
  destruct (yearly_pass_full_u r rl k (r_m r) (c_ii s) cnt (c_out s) HN Y Hy HEy Ar)
    as (ds & ds' & f & out' & c1 & s1 & c1' & b1 & E1 & E2 & E3 & E4 & G2 & G3 & G4).
  fold y in E1, E2, E3.
  exists out', c1', b1. split; [exact E4|].
  (* the part of `step` up to the gate *)
  assert (PRE : step rl s =
    match s1 with
    | Some t => inr (out', t)
    | None => match advance rl s f c1 out' with
              | Err e => inr (out', TRaised e)
              | Ok AdvMax => inr (out', TMaxYear)
              | Ok AdvFuel => inr (out', TOutOfFuel)
              | Ok (AdvGo s') => inl s'
              end
    end).
  { unfold step. rewrite Ay, Am.
    assert (G : getdayset rl (c_ii s) y (r_m r) (c_day s) = Ok (ds, 0, year_len y)).
    { revert E1. unfold getdayset. rewrite Nfr. change (YEARLY =? YEARLY) with true. cbv iota. auto. }
    rewrite G. cbn [bind]. rewrite E2. cbn [bind fst snd].
    rewrite Nsp, Hsp. cbn [truthy andb]. rewrite At, Ac. rewrite E3. reflexivity. }
  split; [|exact G4].
  destruct s1 as [t|].
  - exists t. exact PRE.
  - exists TMaxYear. rewrite PRE. unfold advance. rewrite Nfr. change (YEARLY =? YEARLY) with true. cbv iota.
    rewrite Ay. unfold T_MAXYEAR. rewrite Ni.
    replace (9999 <? y + r_interval r) with true by (unfold y in *; replace (r_y r + (k + 1) * r_interval r) with (r_y r + k * r_interval r + r_interval r) in Hhi by ring; lia).
    reflexivity.
Qed.

(* the specification stops at a step that begins after 9999-12-31 *)
Lemma spec_loop_beyond r limit n k cnt acc :
  r_freq r = YEARLY -> 9999 < r_y r + k * r_interval r ->
  fst (spec_loop r limit n k cnt acc) = acc.
Proof.
  intros Hfr Hk. destruct n as [|n]; cbn [spec_loop]; [reflexivity|].
  destruct (limit <=? zlen acc); [reflexivity|].
  rewrite (step_lo_yearly r k Hfr).
  assert (B : max_ord < jan1 (r_y r + k * r_interval r)).
  { rewrite jan1_eq. assert (days_before_year 10000 <= days_before_year (r_y r + k * r_interval r))
      by (apply days_before_year_mono; lia).
    change (days_before_year 10000) with 3652059 in *. unfold max_ord. lia. }
  replace (max_ord <? jan1 (r_y r + k * r_interval r)) with true by lia. reflexivity.
Qed.

Lemma yearly_run_dead_until_all : forall r rl limit n k cnt s,
  normalize r = Ok rl -> yfam_u r -> r_byeaster r = None -> at_pass_c r rl k cnt s -> 0 <= k ->
  1 <= r_y r -> r_y r + k * r_interval r <= 9999 ->
  sp_after_until r (jan1 (r_y r + k * r_interval r), 0) = true ->
  fst (run rl limit n s) = c_out s.
Proof.
  intros r rl limit n. induction n as [|n IH]; intros k cnt s HN Y He A Hk Hlo Hhi AU; cbn [run].
  - reflexivity.
  - destruct (limit <=? zlen (c_out s)); [reflexivity|].
    pose proof Y as [HW Hfr Hp Hsp Hs]. pose proof (wf_itv r HW) as Hitv.
    assert (Hyk : 1 <= r_y r + k * r_interval r) by nia.
    destruct (Z_le_gt_dec (r_y r + (k + 1) * r_interval r) 9999) as [Hn|Hn].
    + destruct (yearly_step_u r rl k cnt s HN Y A Hyk Hn (or_introl He)) as (acc' & cnt' & b & ET & Hcase & Hau).
      specialize (Hau AU).
      destruct Hcase as [(s' & ES & A' & EO & Eb)|(t & ES & _)].
      * rewrite ES. rewrite (IH (k + 1) cnt' s' HN Y He A' ltac:(lia) Hlo Hn).
        -- rewrite EO. exact Hau.
        -- apply (after_until_mono r _ _ AU). unfold inst_le. cbn [fst snd].
           pose proof (jan1_mono (r_y r + k * r_interval r) (r_y r + (k + 1) * r_interval r) ltac:(nia)). lia.
      * rewrite ES. cbn [fst]. exact Hau.
    + destruct (yearly_step_last r rl k cnt s HN Y A (conj Hyk Hhi) ltac:(lia) He)
        as (acc' & cnt' & b & ET & (t & ES) & Hau).
      rewrite ES. cbn [fst]. apply Hau. exact AU.
Qed.

Lemma yearly_run_is_spec_all : forall r rl limit n k cnt s,
  normalize r = Ok rl -> yfam_u r -> r_byeaster r = None -> at_pass_c r rl k cnt s -> 0 <= k ->
  1 <= r_y r -> r_y r + k * r_interval r <= 9999 ->
  fst (run rl limit n s) = fst (spec_loop r limit n k cnt (c_out s)).
Proof.
  intros r rl limit n. induction n as [|n IH]; intros k cnt s HN Y He A Hk Hlo Hhi.
  - reflexivity.
  - pose proof Y as [HW Hfr Hp Hsp Hs]. pose proof (wf_itv r HW) as Hitv.
    assert (Hyk : 1 <= r_y r + k * r_interval r) by nia.
    assert (B : jan1 (r_y r + k * r_interval r) <= max_ord).
    { rewrite jan1_eq.
      assert (days_before_year (r_y r + k * r_interval r) + 1 <= days_before_year (r_y r + k * r_interval r + 1))
        by (rewrite days_before_year_succ; unfold year_len; destruct (is_leap _); lia).
      assert (days_before_year (r_y r + k * r_interval r + 1) <= days_before_year 10000)
        by (apply days_before_year_mono; nia).
      change (days_before_year 10000) with 3652059 in *. unfold max_ord. lia. }
    destruct (sp_after_until r (jan1 (r_y r + k * r_interval r), 0)) eqn:AU.
    + rewrite (yearly_run_dead_until_all r rl limit (S n) k cnt s HN Y He A Hk Hlo Hhi AU).
      cbn [spec_loop]. destruct (limit <=? zlen (c_out s)); [reflexivity|].
      rewrite (step_lo_yearly r k Hfr).
      replace (max_ord <? jan1 (r_y r + k * r_interval r)) with false by lia. rewrite AU. reflexivity.
    + cbn [run spec_loop]. destruct (limit <=? zlen (c_out s)); [reflexivity|].
      rewrite (step_lo_yearly r k Hfr).
      replace (max_ord <? jan1 (r_y r + k * r_interval r)) with false by lia. rewrite AU.
      pose proof A as (Ay & Am & Ar & At & Ac).
      destruct (match cnt with Some c => c <=? 0 | None => false end) eqn:EC.
      * destruct cnt as [c|]; [|discriminate EC].
        assert (D : dead s) by (exists c; split; [exact Ac|lia]).
        pose proof (step_dead rl s D) as SD. destruct (step rl s) as [s'|[out t]].
        -- destruct SD as [E D']. rewrite (run_dead rl limit n s' D'). exact E.
        -- exact SD.
      * destruct (Z_le_gt_dec (r_y r + (k + 1) * r_interval r) 9999) as [Hn|Hn].
        -- destruct (yearly_step_u r rl k cnt s HN Y A Hyk Hn (or_introl He)) as (acc' & cnt' & b & ET & Hcase & _).
           rewrite ET. destruct Hcase as [(s' & ES & A' & EO & Eb)|(t & ES & Hb)].
           ++ rewrite ES. subst b. rewrite <- EO. apply IH; try assumption. lia.
           ++ rewrite ES. cbn [fst]. destruct b; [reflexivity|].
              destruct Hb as [Hb|UL]; [discriminate Hb|].
              symmetry. apply (spec_loop_dead_until r limit UL).
        -- destruct (yearly_step_last r rl k cnt s HN Y A (conj Hyk Hhi) ltac:(lia) He)
             as (acc' & cnt' & b & ET & (t & ES) & _).
           rewrite ET, ES. cbn [fst]. destruct b; [reflexivity|].
           symmetry. apply (spec_loop_beyond r limit n (k + 1) cnt' acc' Hfr). lia.
Qed.

(* the YEARLY family theorem for EVERY number of passes (rules without BYEASTER) *)
Theorem yearly_iter_correct_all : forall r rl limit n,
  normalize r = Ok rl -> yfam_u r -> r_byeaster r = None -> 1 <= r_y r ->
  fst (iterate rl limit n) = fst (spec_iter r limit n).
Proof.
  intros r rl limit n HN Y He Hlo.
  pose proof Y as [HW Hfr Hp Hsp Hs].
  destruct (normalize_misc r rl HN) as (Ni & Nsp & Ny & Nm & Nd & Nc & Nu).
  pose proof (normalize_freq r rl HN) as Nfr. rewrite Hfr in Nfr.
  pose proof (normalize_wkst r rl HN) as Nwk.
  pose proof (plain_only_no_nth r rl HN Hp) as TN.
  destruct (normalize_fields r rl HN) as (_ & _ & _ & _ & _ & Nea & _).
  assert (TE : truthy (byeaster rl) = false) by (rewrite Nea, He; reflexivity).
  assert (Hwf : 1 <= r_interval r /\ 0 <= r_wkst r <= 6 /\ r_y r <= 9999).
  { pose proof HW as HW'. unfold spec_wf in HW'.
    repeat match type of HW' with _ && _ = true =>
      let H := fresh "W" in apply andb_true_iff in HW'; destruct HW' as [HW' H] end.
    match goal with H : valid_ymd _ _ _ = true |- _ => unfold valid_ymd in H end.
    unfold between in *. lia. }
  destruct Hwf as (Hitv & Hwk & Hy9).
  assert (Hy0 : 1 <= r_y r <= 9999) by lia.
  destruct (rebuild_succeeds rl (r_y r) (r_m r) Hy0 ltac:(rewrite Nwk; exact Hwk) TN (or_introl TE)) as (ii0 & R0).
  pose proof (timeset_is_spec r rl HN HW ltac:(rewrite Hfr; reflexivity)) as HT.
  unfold iterate, init_state. rewrite Nfr. change (YEARLY =? WEEKLY) with false. cbn [andb]. cbv iota.
  rewrite Ny, Nm, Nd, R0. cbn [bind].
  change (YEARLY <? HOURLY) with true. cbv iota. rewrite HT. cbn [bind]. rewrite Nc.
  unfold spec_iter.
  set (s0 := mkSt _ _ _ _ _ _ _ _ _ _ _).
  assert (A0 : at_pass_c r rl 0 (r_count r) s0).
  { unfold at_pass_c, s0. cbn [c_year c_month c_ii c_timeset c_count]. repeat split; try reflexivity; [ring|exact R0]. }
  pose proof (yearly_run_is_spec_all r rl limit n 0 (r_count r) s0 HN Y He A0 ltac:(lia) Hlo ltac:(lia)) as Q.
  change (c_out s0) with (@nil instant) in Q.
  destruct (run rl limit n s0) as [out t]. destruct (spec_loop r limit n 0 (r_count r) []) as [acc t'].
  cbn [fst] in *. rewrite Q. reflexivity.
Qed.
