(* C01 layer 7 for SECONDLY rules without BYSETPOS, relative to the day-filter layer (abstract
   predicate IOK as in RRSubHourRun.v); analogue of RRSubMinRun.v.
   Written by the rset builder (new file). *)
From Coq Require Import ZArith List Bool Lia ZifyBool Znumtheory.
From V Require Import base.Cal gen.RrTables easter.EasterSpec rr.RRBase rr.RRNorm rr.RRMasks rr.RRIter
  rr.RRSpec rr.RRSubdailyThm rr.RRAdvanceThm rr.RRTimesetThm rr.RRSubNorm rr.RRSubNorm2 rr.RRSubHour
  rr.RRSubSpec rr.RRSubHourTop rr.RRSubLoop rr.RRSubMin rr.RRSubMinTop rr.RRSubSec rr.RRSubSecTop
  rr.RRSubTimes rr.RRSubPass rr.RRSubRunBase.
Import ListNotations.
Open Scope Z_scope.

Section SecondlyRun.
Variables (r : raw) (rl : rule).
Hypothesis Hn : normalize r = Ok rl.
Hypothesis HW : spec_wf r = true.
Hypothesis Hf : r_freq r = SECONDLY.
Hypothesis Hnsp : r_bysetpos r = None.

Variable IOK : iinfo -> Z -> Prop.
Hypothesis IOK_range : forall ii y m d, IOK ii y -> valid_ymd y m d = true ->
  0 <= ord_of_ymd y m d - yearordinal ii < yearlen ii.
Hypothesis IOK_filter : forall ii y i, IOK ii y -> 0 <= i < yearlen ii ->
  day_rejected rl ii i = Ok (negb (day_ok r (yearordinal ii + i))).
Hypothesis IOK_rebuild : forall ii y y' m', IOK ii y -> y <= y' <= 9999 -> 1 <= m' <= 12 ->
  forall ii', rebuild rl ii y' m' = Ok ii' -> IOK ii' y'.

Local Notation n := (sec_n r).
Local Notation a k := (sec_n r k mod 86400).

Definition DenS (s : state) (k : Z) : Prop :=
  0 <= k /\ valid_ymd (c_year s) (c_month s) (c_day s) = true /\
  ord_of_ymd (c_year s) (c_month s) (c_day s) = sp_ord0 r + n k / 86400 /\
  c_hour s = a k / 3600 /\ c_minute s = (a k / 60) mod 60 /\ c_second s = a k mod 60 /\
  c_timeset s = period_times r (a k) /\
  IOK (c_ii s) (c_year s).

Lemma factsS : freq rl = SECONDLY /\ interval rl = r_interval r /\ bysetpos rl = None /\
  0 <= sp_H0 r <= 23 /\ 0 <= sp_M0 r <= 59 /\ 0 <= sp_S0 r <= 59 /\ 1 <= r_interval r /\
  ne_list (r_byhour r) /\ ne_list (r_byminute r).
Proof.
  destruct (normalize_time_fields r rl Hn) as [Ef [Ei _]].
  destruct (normalize_copied r rl Hn) as [_ [_ [Esp _]]].
  destruct (spec_wf_times r HW) as (VH & VM & VS & _ & _ & _ & Nh & Nm & _ & Hi).
  split; [congruence|]. split; [exact Ei|]. split; [congruence|].
  split; [exact VH|]. split; [exact VM|]. split; [exact VS|]. split; [exact Hi|].
  split; intro E; [rewrite E in Nh|rewrite E in Nm]; discriminate.
Qed.

Lemma period_cands_secondly : forall k,
  period_cands r k =
  (let o := sp_ord0 r + n k / 86400 in
   if day_ok r o then map (fun t => (o, t)) (period_times r (a k)) else []).
Proof.
  intros k. destruct (secondly_period_parts r k Hf) as [Pd Pm]. cbv zeta in Pd, Pm. fold (sec_n r k) in Pd, Pm.
  unfold period_cands. rewrite Pd, Pm. cbv zeta. unfold select_pos. rewrite Hnsp. reflexivity.
Qed.

Theorem secondly_pass : forall s k, DenS s k ->
  step rl s =
  after_gate rl s (negb (day_ok r (sp_ord0 r + n k / 86400)))
    (gate_list rl (period_cands r k) (c_count s) (c_out s)).
Proof.
  intros s k (Hk & Hv & Ho & Hh & Hmi & Hse & Hts & Hii).
  destruct factsS as (Efr & _ & Esp & _).
  pose proof (IOK_range _ _ _ _ Hii Hv) as Hi.
  pose proof (ord_of_ymd_range _ _ _ Hv) as Hor.
  set (o := ord_of_ymd (c_year s) (c_month s) (c_day s)) in *.
  set (i := o - yearordinal (c_ii s)) in *.
  assert (Hrej : day_rejected rl (c_ii s) i = Ok (negb (day_ok r o))).
  { rewrite (IOK_filter _ _ i Hii Hi). do 3 f_equal. unfold i. ring. }
  rewrite (step_single_day rl s (negb (day_ok r o))); try assumption.
  - fold o. rewrite <- Ho. f_equal.
    rewrite (period_cands_secondly k). cbv zeta. rewrite <- Ho, <- Hts.
    destruct (day_ok r o); reflexivity.
  - rewrite Efr. reflexivity.
  - rewrite Esp. reflexivity.
Qed.

Theorem secondly_next : forall s k cnt out s', DenS s k ->
  advance rl s (negb (day_ok r (sp_ord0 r + n k / 86400))) cnt out = Ok (AdvGo s') ->
  exists k', k < k' /\ DenS s' k' /\ (forall j, k < j < k' -> period_cands r j = []) /\
             c_count s' = cnt /\ c_out s' = out.
Proof.
  intros s k cnt out s' (Hk & Hv & Ho & Hh & Hmi & Hse & Hts & Hii) H.
  destruct factsS as (Efr & Eitv & _ & VH & VM & VS & Hi & Hneh & Hnem).
  set (filtered := negb (day_ok r (sp_ord0 r + n k / 86400))) in *.
  assert (Hfilt : filtered = true -> day_ok r (sp_ord0 r + n k / 86400) = false)
    by (unfold filtered; intro E; apply negb_true_iff in E; exact E).
  pose proof (advance_correct_secondly r rl Hn Hf Hi Hneh Hnem k filtered (c_day s) Hk Hfilt) as AC.
  cbv zeta in AC.
  rewrite (advance_secondly_unfold rl s filtered cnt out Efr) in H. rewrite Hh, Hmi, Hse in H.
  destruct (secondly_core rl filtered (a k / 3600) ((a k / 60) mod 60) (a k mod 60) (c_day s))
    as [[[[[se' mi'] hh'] dd'] fx']|e]; [|discriminate].
  destruct AC as (k' & Hkk & Hord & Ha' & Rs & Rm & Rh & Rd & Rf & Adh & Adm & Ads & Hskip).
  assert (Vymd : 1 <= c_year s <= 9999 /\ 1 <= c_month s <= 12 /\ 1 <= c_day s <= Cal.dim (c_year s) (c_month s))
    by (unfold valid_ymd in Hv; lia).
  destruct Vymd as (Vy & Vm & Vd).
  assert (Hgt : gettimeset rl hh' mi' se' = Ok (period_times r (a k'))).
  { unfold gettimeset. rewrite Efr. change (SECONDLY =? HOURLY) with false. change (SECONDLY =? MINUTELY) with false.
    cbv iota. rewrite (stimeset_is_spec r hh' mi' se' HW Hf ltac:(lia) ltac:(lia) ltac:(lia) Adh Adm Ads).
    rewrite Ha'. reflexivity. }
  rewrite Hgt in H. cbn [bind] in H.
  destruct (finish_advance_state _ _ _ _ _ _ _ _ _ _ _ _ _ _ _ H Vm ltac:(lia)
              ltac:(intro E; rewrite (Rf E); lia))
    as (V & M & D & A1 & A2 & A3 & _ & A5 & A6 & A7).
  destruct (finish_advance_ii _ _ _ _ _ _ _ _ _ _ _ _ _ _ _ H ltac:(unfold T_MAXYEAR; lia)) as [Yb Hii'].
  unfold T_MAXYEAR in Yb.
  assert (Ep : a k' / 3600 = hh' /\ (a k' / 60) mod 60 = mi' /\ a k' mod 60 = se').
  { rewrite <- Ha'. split; [symmetry; apply (Z.div_unique _ 3600 _ (mi' * 60 + se')); lia|]. split.
    - replace ((hh' * 3600 + mi' * 60 + se') / 60) with (hh' * 60 + mi') by (apply (Z.div_unique _ 60 _ se'); lia).
      symmetry. apply (Z.mod_unique _ 60 hh' mi'); lia.
    - symmetry. apply (Z.mod_unique _ 60 (hh' * 60 + mi') se'); lia. }
  destruct Ep as (Ep1 & Ep2 & Ep3).
  exists k'. split; [exact Hkk|]. split; [|split; [exact Hskip|split; assumption]].
  split; [lia|]. split.
  { unfold valid_ymd. lia. }
  split.
  { rewrite V. unfold vord. unfold ord_of_ymd in *. lia. }
  split; [congruence|]. split; [congruence|]. split; [congruence|]. split; [rewrite A5; reflexivity|].
  destruct Hii' as [[Ei Ey]|Hreb].
  - rewrite Ei, Ey. exact Hii.
  - apply (IOK_rebuild (c_ii s) (c_year s) (c_year s') (c_month s') Hii ltac:(lia) M _ Hreb).
Qed.

Theorem secondly_run_gate : forall limit m s k, DenS s k ->
  exists k_end cnt' st, k <= k_end /\
    gate_list rl (flat_map (period_cands r) (zrange k k_end)) (c_count s) (c_out s) =
      (fst (run rl limit m s), cnt', st).
Proof.
  intros limit. induction m as [|m IH]; intros s k HD.
  - exists k, (c_count s), None. split; [lia|]. rewrite zrange_empty. reflexivity.
  - cbn [run]. destruct (limit <=? zlen (c_out s)).
    + exists k, (c_count s), None. split; [lia|]. rewrite zrange_empty. reflexivity.
    + rewrite (secondly_pass s k HD). unfold after_gate.
      destruct (gate_list rl (period_cands r k) (c_count s) (c_out s)) as [[out1 cnt1] stop] eqn:Eg.
      assert (Hone : gate_list rl (flat_map (period_cands r) (zrange k (k + 1))) (c_count s) (c_out s)
                     = (out1, cnt1, stop)).
      { rewrite zrange_single. cbn [flat_map]. rewrite app_nil_r. exact Eg. }
      destruct stop as [t|].
      * exists (k + 1), cnt1, (Some t). split; [lia|]. exact Hone.
      * destruct (advance rl s (negb (day_ok r (sp_ord0 r + n k / 86400))) cnt1 out1) as [[| |s']|e] eqn:Ea;
          try (exists (k + 1), cnt1, None; split; [lia|]; exact Hone).
        destruct (secondly_next s k cnt1 out1 s' HD Ea) as (k' & Hkk & HD' & Hskip & Ec & Eo).
        destruct (IH s' k' HD') as (k_end & cnt' & st & Hke & Hg).
        exists k_end, cnt', st. split; [lia|].
        rewrite (periods_skip r k k' k_end ltac:(lia) Hskip), gate_list_app', Eg.
        rewrite <- Ec, <- Eo. exact Hg.
Qed.

(* ------------------------------------------------------------------ from the constructor's state *)
Hypothesis IOK_init : forall ii0, rebuild rl ii_init (r_y r) (r_m r) = Ok ii0 -> IOK ii0 (r_y r).

Lemma spec_wf_ymdS : valid_ymd (r_y r) (r_m r) (r_d r) = true.
Proof.
  pose proof HW as W. unfold spec_wf in W.
  repeat match type of W with _ && _ = true =>
    let H := fresh "W" in apply andb_true_iff in W; destruct W as [W H] end.
  assumption.
Qed.

Lemma init_state_denS : forall s0, init_state rl = Ok s0 ->
  DenS s0 0 /\ c_count s0 = r_count r /\ c_out s0 = [].
Proof.
  intros s0 H. destruct factsS as (Efr & Eitv & _ & VH & VM & VS & Hi & Hneh & Hnem).
  destruct (normalize_copied r rl Hn) as (Ec & _ & _ & _ & Ey & Em & Ed).
  destruct (normalize_time_fields r rl Hn) as [_ [_ [EH [EM [ES _]]]]].
  assert (Ea0 : a 0 = sp_H0 r * 3600 + sp_M0 r * 60 + sp_S0 r).
  { unfold sec_n, sp_sod0. rewrite Z.mul_0_l, Z.add_0_r. apply Z.mod_small. lia. }
  assert (Eh0 : a 0 / 3600 = sp_H0 r)
    by (rewrite Ea0; symmetry; apply (Z.div_unique _ 3600 _ (sp_M0 r * 60 + sp_S0 r)); lia).
  assert (Em0 : (a 0 / 60) mod 60 = sp_M0 r).
  { rewrite Ea0. replace ((sp_H0 r * 3600 + sp_M0 r * 60 + sp_S0 r) / 60) with (sp_H0 r * 60 + sp_M0 r)
      by (apply (Z.div_unique _ 60 _ (sp_S0 r)); lia).
    symmetry. apply (Z.mod_unique _ 60 (sp_H0 r) (sp_M0 r)); lia. }
  assert (Es0 : a 0 mod 60 = sp_S0 r)
    by (rewrite Ea0; symmetry; apply (Z.mod_unique _ 60 (sp_H0 r * 60 + sp_M0 r) (sp_S0 r)); lia).
  unfold init_state in H. cbv zeta in H. rewrite Ey, Em, Ed, EH, EM, ES, Efr, Ec in H.
  change (SECONDLY =? WEEKLY) with false in H. cbn [andb] in H. cbv iota beta in H.
  destruct (rebuild rl ii_init (r_y r) (r_m r)) as [ii0|e] eqn:Er; cbn [bind] in H; [|discriminate].
  change (SECONDLY <? HOURLY) with false in H. change (HOURLY <=? SECONDLY) with true in H.
  change (MINUTELY <=? SECONDLY) with true in H. change (SECONDLY <=? SECONDLY) with true in H.
  cbn [andb] in H.
  assert (Hts : (if truthy (byhour rl) && negb (memZ (sp_H0 r) (opt_list (byhour rl))) ||
                    truthy (byminute rl) && negb (memZ (sp_M0 r) (opt_list (byminute rl))) ||
                    truthy (bysecond rl) && negb (memZ (sp_S0 r) (opt_list (bysecond rl)))
                 then Ok [] else gettimeset rl (sp_H0 r) (sp_M0 r) (sp_S0 r))
                = Ok (period_times r (a 0))).
  { pose proof (sec_adm_is_spec r rl Hn Hf Hi Hneh Hnem 0 ltac:(lia)) as MA. cbv zeta in MA.
    assert (Ecnd : (truthy (byhour rl) && negb (memZ (sp_H0 r) (opt_list (byhour rl))) ||
                    truthy (byminute rl) && negb (memZ (sp_M0 r) (opt_list (byminute rl))) ||
                    truthy (bysecond rl) && negb (memZ (sp_S0 r) (opt_list (bysecond rl))))
                   = negb (sec_adm rl (a 0))).
    { unfold sec_adm. rewrite Em0, Es0. rewrite (Z.mod_small (a 0 / 3600) 24) by (rewrite Eh0; lia). rewrite Eh0.
      destruct (truthy (byhour rl)), (truthy (byminute rl)), (truthy (bysecond rl)),
        (memZ (sp_H0 r) (opt_list (byhour rl))), (memZ (sp_M0 r) (opt_list (byminute rl))),
        (memZ (sp_S0 r) (opt_list (bysecond rl))); reflexivity. }
    rewrite Ecnd. destruct (sec_adm rl (a 0)) eqn:Eadm; cbn [negb].
    - symmetry in MA. apply andb_true_iff in MA. destruct MA as [A12 A3].
      apply andb_true_iff in A12. destruct A12 as [A1 A2].
      rewrite Eh0 in A1. rewrite Em0 in A2. rewrite Es0 in A3.
      unfold gettimeset. rewrite Efr. change (SECONDLY =? HOURLY) with false. change (SECONDLY =? MINUTELY) with false.
      cbv iota. rewrite (stimeset_is_spec r (sp_H0 r) (sp_M0 r) (sp_S0 r) HW Hf VH VM VS A1 A2 A3).
      rewrite Ea0. reflexivity.
    - f_equal. symmetry. apply (sec_bad_no_times r rl Hn Hf Hi Hneh Hnem 0 ltac:(lia) Eadm). }
  rewrite Hts in H. cbn [bind] in H. inversion H; subst; clear H.
  cbn [c_count c_out]. split; [|split; reflexivity].
  unfold DenS. cbn [c_year c_month c_day c_hour c_minute c_second c_timeset c_ii].
  rewrite Eh0, Em0, Es0.
  assert (Eq0 : n 0 / 86400 = 0).
  { unfold sec_n, sp_sod0. rewrite Z.mul_0_l, Z.add_0_r. apply Z.div_small. lia. }
  rewrite Eq0.
  split; [lia|]. split; [exact spec_wf_ymdS|]. split; [unfold sp_ord0; ring|].
  repeat split; auto.
Qed.

Theorem secondly_iter_correct_partial : forall limit m,
  exists k_end cnt' st out, 0 <= k_end /\
    gate_list rl (flat_map (period_cands r) (zrange 0 k_end)) (r_count r) [] = (out, cnt', st) /\
    fst (iterate rl limit m) = rev out.
Proof.
  intros limit m. unfold iterate.
  destruct (init_state rl) as [s0|e] eqn:Ei.
  - destruct (init_state_denS s0 Ei) as (HD & Ec & Eo).
    destruct (secondly_run_gate limit m s0 0 HD) as (k_end & cnt' & st & Hk & Hg).
    rewrite Ec, Eo in Hg.
    exists k_end, cnt', st, (fst (run rl limit m s0)). split; [exact Hk|]. split; [exact Hg|].
    destruct (run rl limit m s0) as [out t]. reflexivity.
  - exists 0, (r_count r), None, []. split; [lia|]. split; [rewrite zrange_empty; reflexivity|reflexivity].
Qed.

End SecondlyRun.
