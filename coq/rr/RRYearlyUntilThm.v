(* C01 layer 7 -- rrule_iter_correct for the YEARLY family WITH UNTIL and COUNT.
   The specification stops period-wise (at the first step whose first day is after UNTIL, or inside a
   step at the first item after UNTIL); the code stops at the first CANDIDATE after UNTIL, even one
   before dtstart, or scans on when the period has no candidate.  The yielded instants agree for
   every number of passes. *)
From Coq Require Import ZArith List Bool Lia ZifyBool.
From V Require Import base.Cal gen.RrTables rr.RRBase rr.RRNorm rr.RRMasks rr.RRIter rr.RRSpec
  rr.RRWeekCal rr.RRWeekFinal rr.RRFilterThm rr.RRFilterSpec rr.RRGateThm rr.RRTimesetThm rr.RRPassThm
  rr.RRYearlyThm rr.RRYearlyEasterThm rr.RRCountThm rr.RRYearlyCountThm.
Import ListNotations.
Open Scope Z_scope.

(* every instant not before the start is after UNTIL (UNTIL lies before the start) *)
Definition until_lt_start (r : raw) : Prop :=
  forall y, inst_le (sp_start r) y = true -> sp_after_until r y = true.

Section GT.
Variables (rl : rule) (r : raw).
Hypothesis Hstart : dtstart_inst rl = sp_start r.
Hypothesis Huntil : until rl = r_until r.

(* gate vs take, general: same items; they stop together, except that the gate may stop on a
   candidate before the start that is already after UNTIL -- then UNTIL lies before the start *)
Lemma gate_take_gen : forall xs cnt out,
  let '(o1, c1, s1) := gate_list rl xs cnt out in
  let '(a1, c1', b1) := sp_take r (filter (inst_le (sp_start r)) xs) cnt out in
  o1 = a1 /\ (s1 = None -> b1 = false /\ c1 = c1') /\
  (s1 <> None -> b1 = true \/ until_lt_start r).
Proof.
  induction xs as [|x t IH]; intros cnt out; cbn [gate_list filter].
  - cbn [sp_take]. split; [reflexivity|]. split; [auto|]. intros H. contradiction H. reflexivity.
  - unfold gate_one. rewrite (after_until_eq rl r Huntil), Hstart.
    destruct (sp_after_until r x) eqn:EU.
    + destruct (inst_le (sp_start r) x) eqn:ES.
      * cbn [sp_take]. rewrite EU. split; [reflexivity|]. split; [discriminate|]. intros _. left. reflexivity.
      * assert (UL : until_lt_start r).
        { intros y Hy. apply (until_before_start rl r Hstart Huntil x y EU ES Hy). }
        pose proof (sp_take_all_after r (filter (inst_le (sp_start r)) t) cnt out) as Q.
        destruct (sp_take r (filter (inst_le (sp_start r)) t) cnt out) as [[a1 c1'] b1].
        cbn [fst] in Q. split.
        -- symmetry. apply Q. intros y Hy. apply filter_In in Hy. apply UL. apply Hy.
        -- split; [discriminate|]. intros _. right. exact UL.
    + destruct (inst_le (sp_start r) x) eqn:ES.
      * cbn [sp_take]. rewrite EU. destruct cnt as [c|].
        -- destruct (c - 1 <? 0) eqn:EC.
           ++ replace (c <=? 0) with true by lia. split; [reflexivity|]. split; [discriminate|].
              intros _. left. reflexivity.
           ++ replace (c <=? 0) with false by lia. apply IH.
        -- apply IH.
      * apply IH.
Qed.
End GT.

(* the specification adds nothing once every admissible instant is after UNTIL *)
Lemma spec_loop_dead_until r limit : until_lt_start r ->
  forall n k cnt acc, fst (spec_loop r limit n k cnt acc) = acc.
Proof.
  intros UL. induction n as [|n IH]; intros k cnt acc; cbn [spec_loop]; [reflexivity|].
  destruct (limit <=? zlen acc); [reflexivity|].
  destruct (max_ord <? step_lo r k); [reflexivity|].
  destruct (sp_after_until r (step_lo r k, 0)); [reflexivity|].
  destruct (match cnt with Some c => c <=? 0 | None => false end); [reflexivity|].
  pose proof (sp_take_all_after r (step_items r k) cnt acc) as Q.
  assert (A : forall y, In y (step_items r k) -> sp_after_until r y = true).
  { intros y Hy. unfold step_items in Hy. apply filter_In in Hy. apply UL. apply Hy. }
  specialize (Q A).
  destruct (step_items r k) as [|x t] eqn:EI.
  - cbn [sp_take]. apply IH.
  - cbn [sp_take]. rewrite (A x (or_introl eq_refl)). reflexivity.
Qed.

(* monotonicity of "after UNTIL" *)
Lemma after_until_mono r a x : sp_after_until r a = true -> inst_le a x = true -> sp_after_until r x = true.
Proof.
  unfold sp_after_until, inst_le. destruct (r_until r) as [[[uo us] uu]|]; [|discriminate].
  destruct a as [ao as_], x as [xo xs]. cbn [fst snd]. lia.
Qed.

(* the gate on a list whose members are all after UNTIL adds nothing *)
Lemma gate_list_all_after rl r : until rl = r_until r ->
  forall xs cnt out, (forall x, In x xs -> sp_after_until r x = true) ->
  exists st, gate_list rl xs cnt out = (out, cnt, st) /\ (xs = [] -> st = None).
Proof.
  intros Hu xs cnt out H. destruct xs as [|x t]; cbn [gate_list].
  - exists None. split; [reflexivity|auto].
  - unfold gate_one. rewrite (after_until_eq rl r Hu), (H x (or_introl eq_refl)).
    exists (Some TUntil). split; [reflexivity|discriminate].
Qed.

Lemma period_times_nonneg r sod t : In t (period_times r sod) -> 0 <= t.
Proof.
  unfold period_times. intros H.
  apply in_flat_map in H. destruct H as (h & _ & H).
  apply in_flat_map in H. destruct H as (m & _ & H).
  apply in_flat_map in H. destruct H as (s & _ & H).
  destruct (valid_hms h m s) eqn:V; [|destruct H].
  destruct H as [<-|[]]. unfold valid_hms in V. lia.
Qed.

Record yfam_u (r : raw) : Prop := mk_yfam_u {
  u_wf : spec_wf r = true;
  u_freq : r_freq r = YEARLY;
  u_plain : plain_only r = true;
  u_setpos : r_bysetpos r = None;
  u_weekno : all_opt (r_byweekno r) weekno_safe = true
}.

(* a pass, general COUNT and UNTIL *)
Lemma yearly_pass_full_u : forall r rl k month ii cnt out,
  normalize r = Ok rl -> yfam_u r ->
  let y := r_y r + k * r_interval r in
  1 <= y <= 9999 -> (r_byeaster r = None \/ 1583 <= y <= 4098) ->
  rebuild rl ii_init y month = Ok ii ->
  exists ds ds' f out' c1 s1 c1' b1,
    getdayset rl ii y month 1 = Ok (ds, 0, year_len y) /\
    filter_loop rl ii (py_slice ds 0 (year_len y)) ds false = Ok (ds', f) /\
    out_days rl (yearordinal ii) (py_slice ds' 0 (year_len y)) (period_times r 0) cnt out = (out', c1, s1) /\
    sp_take r (step_items r k) cnt out = (out', c1', b1) /\
    (s1 = None -> b1 = false /\ c1 = c1') /\ (s1 <> None -> b1 = true \/ until_lt_start r) /\
    (sp_after_until r (jan1 y, 0) = true -> out' = out).
Proof.
  intros r rl k month ii cnt out HN [HW Hfr Hp Hsp Hs] y Hy He HR.
  destruct (normalize_misc r rl HN) as (_ & _ & _ & _ & _ & _ & Nu).
  assert (V : valid_ymd (r_y r) (r_m r) (r_d r) = true).
  { pose proof HW as HW'. unfold spec_wf in HW'.
    repeat match type of HW' with _ && _ = true =>
      let H := fresh "W" in apply andb_true_iff in HW'; destruct HW' as [HW' H] end. assumption. }
  destruct (normalize_start_until r rl HN V) as (S1 & _ & _).
  destruct (yearly_pass_candidates r rl y month ii (period_times r 0) cnt out HN HW Hfr Hp Hs He Hy HR)
    as (ds & ds' & f & E1 & E2 & E3).
  rewrite (yearly_step_items r rl k HN HW Hfr Hsp Hy). fold y.
  set (L := flat_map (fun o => map (fun t => (o, t)) (period_times r 0))
                     (filter (day_ok r) (zrange (jan1 y) (jan1 (y + 1))))) in *.
  pose proof (gate_take_gen rl r S1 Nu L cnt out) as G.
  assert (DU : sp_after_until r (jan1 y, 0) = true -> fst (fst (gate_list rl L cnt out)) = out).
  { intros AU.
    destruct (gate_list_all_after rl r Nu L cnt out) as (st & Eg & _).
    - intros [o t] Hx. unfold L in Hx. apply in_flat_map in Hx. destruct Hx as (o' & Ho' & Hx).
      apply in_map_iff in Hx. destruct Hx as (t' & E & Ht'). inversion E; subst o' t'.
      apply filter_In in Ho'. destruct Ho' as [Ho' _]. unfold zrange in Ho'.
      pose proof (In_zrange_nat_bounds _ _ _ Ho') as Bo. pose proof (period_times_nonneg r 0 t Ht') as Bt.
      apply (after_until_mono r (jan1 y, 0) (o, t) AU). unfold inst_le. cbn [fst snd]. lia.
    - rewrite Eg. reflexivity. }
  rewrite <- E3 in G, DU.
  destruct (out_days rl (yearordinal ii) (py_slice ds' 0 (year_len y)) (period_times r 0) cnt out)
    as [[o1 c1] s1] eqn:EO.
  destruct (sp_take r _ cnt out) as [[a1 c1'] b1] eqn:ET. destruct G as (G1 & G2 & G3). subst a1.
  exists ds, ds', f, o1, c1, s1, c1', b1.
  split; [exact E1|]. split; [exact E2|]. split; [exact EO|]. split; [reflexivity|].
  split; [exact G2|]. split; [exact G3|]. intros AU. apply (DU AU).
Qed.

Lemma yearly_step_u : forall r rl k cnt s,
  normalize r = Ok rl -> yfam_u r -> at_pass_c r rl k cnt s ->
  1 <= r_y r + k * r_interval r -> r_y r + (k + 1) * r_interval r <= 9999 ->
  (r_byeaster r = None \/ (1583 <= r_y r + k * r_interval r /\ r_y r + (k + 1) * r_interval r <= 4098)) ->
  exists acc' cnt' b, sp_take r (step_items r k) cnt (c_out s) = (acc', cnt', b) /\
    ((exists s', step rl s = inl s' /\ at_pass_c r rl (k + 1) cnt' s' /\ c_out s' = acc' /\ b = false) \/
     (exists t, step rl s = inr (acc', t) /\ (b = true \/ until_lt_start r))) /\
    (sp_after_until r (jan1 (r_y r + k * r_interval r), 0) = true -> acc' = c_out s).
Proof.
  intros r rl k cnt s HN Y (Ay & Am & Ar & At & Ac) Hlo Hhi HE.
  pose proof Y as [HW Hfr Hp Hsp Hs].
  destruct (normalize_misc r rl HN) as (Ni & Nsp & _ & _ & _ & _ & _).
  pose proof (normalize_freq r rl HN) as Nfr. rewrite Hfr in Nfr.
  pose proof (normalize_wkst r rl HN) as Nwk.
  pose proof (plain_only_no_nth r rl HN Hp) as TN.
  pose proof (easter_cases r rl HN HW) as EC.
  assert (Hitv : 1 <= r_interval r /\ 0 <= r_wkst r <= 6).
  { pose proof HW as HW'. unfold spec_wf in HW'.
    repeat match type of HW' with _ && _ = true =>
      let H := fresh "W" in apply andb_true_iff in HW'; destruct HW' as [HW' H] end.
    unfold between in *. lia. }
  destruct Hitv as [Hitv Hwk].
  set (y := r_y r + k * r_interval r) in *.
  assert (Hy : 1 <= y <= 9999) by nia.
  rewrite Ay, Am in Ar.
  assert (HEy : r_byeaster r = None \/ 1583 <= y <= 4098).
  { destruct HE as [HE|HE]; [left; exact HE|right; unfold y; nia]. }
  destruct (yearly_pass_full_u r rl k (r_m r) (c_ii s) cnt (c_out s) HN Y Hy HEy Ar)
    as (ds & ds' & f & out' & c1 & s1 & c1' & b1 & E1 & E2 & E3 & E4 & G2 & G3 & G4).
  fold y in E1, E2, E3.
  exists out', c1', b1. split; [exact E4|].
  (* the part of `step` up to the gate *)
  assert (PRE : step rl s =
    match s1 with
    | Some t => inr (out', t)
    | None => match advance rl s f c1 out' with
              | Err e => inr (out', TRaised e)
              | Ok AdvMax => inr (out', TMaxYear)
              | Ok AdvFuel => inr (out', TOutOfFuel)
              | Ok (AdvGo s') => inl s'
              end
    end).
  { unfold step. rewrite Ay, Am.
    assert (G : getdayset rl (c_ii s) y (r_m r) (c_day s) = Ok (ds, 0, year_len y)).
    { revert E1. unfold getdayset. rewrite Nfr. change (YEARLY =? YEARLY) with true. cbv iota. auto. }
    rewrite G. cbn [bind]. rewrite E2. cbn [bind fst snd].
    rewrite Nsp, Hsp. cbn [truthy andb]. rewrite At, Ac. rewrite E3. reflexivity. }
  split; [|exact G4].
  destruct s1 as [t|].
  - right. exists t. split; [exact PRE|]. apply G3. discriminate.
  - left. destruct (G2 eq_refl) as [Hb Ec]. subst c1'.
    set (y2 := y + interval rl).
    assert (Hy2 : 1 <= y2 <= 9999).
    { unfold y2. rewrite Ni. replace (r_y r + (k + 1) * r_interval r) with (y + r_interval r) in Hhi by (unfold y; ring). lia. }
    assert (HE2 : truthy (byeaster rl) = false \/ 1583 <= y2 <= 4098).
    { destruct EC as [[Ea0 T0]|[Ea1 T1]]; [left; exact T0|right].
      destruct HE as [HE|HE]; [congruence|].
      unfold y2. rewrite Ni. replace (r_y r + (k + 1) * r_interval r) with (y + r_interval r) in HE by (unfold y; ring).
      unfold y in *. nia. }
    destruct (rebuild_succeeds rl y2 (r_m r) Hy2 ltac:(rewrite Nwk; exact Hwk) TN HE2) as (ii2 & R2).
    destruct (rebuild_slots rl y (r_m r) (c_ii s) ltac:(lia) Ar) as (LY & EM).
    destruct (rebuild_char rl y (r_m r) (c_ii s) ltac:(lia) Ar) as (_ & CN & _).
    assert (R2' : rebuild rl (c_ii s) y2 (r_m r) = Ok ii2).
    { rewrite rebuild_from_previous_year; [exact R2| | exact TN | apply CN; exact TN |
        destruct EC as [[Ea0 T0]|[Ea1 T1]]; [right; apply EM; exact T0|left; exact T1]].
      rewrite LY. unfold opt_neqb, y2. rewrite Ni. apply negb_true_iff. apply Z.eqb_neq. lia. }
    exists (mkSt y2 (r_m r) (c_day s) (c_hour s) (c_minute s) (c_second s) (c_weekday s) ii2
                 (period_times r 0) c1 out').
    split; [|split; [|split; [reflexivity|exact Hb]]].
    + rewrite PRE. unfold advance. rewrite Nfr. change (YEARLY =? YEARLY) with true. cbv iota. rewrite Ay, Am.
      fold y2. unfold T_MAXYEAR. replace (9999 <? y2) with false by lia.
      rewrite R2'. cbn [bind]. unfold finish_advance. cbn [andb]. rewrite At. reflexivity.
    + unfold at_pass_c. cbn [c_year c_month c_ii c_timeset c_count].
      repeat split; try reflexivity; [|exact R2]. unfold y2, y. rewrite Ni. ring.
Qed.

Lemma jan1_mono a b : a <= b -> jan1 a <= jan1 b.
Proof. intros H. rewrite !jan1_eq. pose proof (days_before_year_mono a b H). lia. Qed.

Lemma wf_itv r : spec_wf r = true -> 1 <= r_interval r.
Proof.
  intros HW. unfold spec_wf in HW.
  repeat match type of HW with _ && _ = true =>
    let H := fresh "W" in apply andb_true_iff in HW; destruct HW as [HW H] end. lia.
Qed.

(* after the first step whose first day is after UNTIL the code yields nothing more *)
Lemma yearly_run_dead_until : forall r rl limit n k cnt s,
  normalize r = Ok rl -> yfam_u r -> at_pass_c r rl k cnt s -> 0 <= k ->
  1 <= r_y r -> r_y r + (k + Z.of_nat n) * r_interval r <= 9999 ->
  (r_byeaster r = None \/ (1583 <= r_y r /\ r_y r + (k + Z.of_nat n) * r_interval r <= 4098)) ->
  sp_after_until r (jan1 (r_y r + k * r_interval r), 0) = true ->
  fst (run rl limit n s) = c_out s.
Proof.
  intros r rl limit n. induction n as [|n IH]; intros k cnt s HN Y A Hk Hlo Hhi HE AU; cbn [run].
  - reflexivity.
  - destruct (limit <=? zlen (c_out s)); [reflexivity|].
    pose proof Y as [HW Hfr Hp Hsp Hs]. pose proof (wf_itv r HW) as Hitv.
    assert (Hyk : 1 <= r_y r + k * r_interval r) by nia.
    assert (Hyk1 : r_y r + (k + 1) * r_interval r <= 9999) by nia.
    assert (HEk : r_byeaster r = None \/ (1583 <= r_y r + k * r_interval r /\ r_y r + (k + 1) * r_interval r <= 4098)).
    { destruct HE as [HE|HE]; [left; exact HE|right; nia]. }
    destruct (yearly_step_u r rl k cnt s HN Y A Hyk Hyk1 HEk) as (acc' & cnt' & b & ET & Hcase & Hau).
    specialize (Hau AU).
    destruct Hcase as [(s' & ES & A' & EO & Eb)|(t & ES & _)].
    + rewrite ES. rewrite (IH (k + 1) cnt' s' HN Y A' ltac:(lia) Hlo).
      * rewrite EO. exact Hau.
      * replace (k + 1 + Z.of_nat n) with (k + Z.of_nat (S n)) by lia. exact Hhi.
      * replace (k + 1 + Z.of_nat n) with (k + Z.of_nat (S n)) by lia. exact HE.
      * apply (after_until_mono r _ _ AU). unfold inst_le. cbn [fst snd].
        pose proof (jan1_mono (r_y r + k * r_interval r) (r_y r + (k + 1) * r_interval r) ltac:(nia)). lia.
    + rewrite ES. cbn [fst]. exact Hau.
Qed.

Lemma yearly_run_is_spec_u : forall r rl limit n k cnt s,
  normalize r = Ok rl -> yfam_u r -> at_pass_c r rl k cnt s -> 0 <= k ->
  1 <= r_y r -> r_y r + (k + Z.of_nat n) * r_interval r <= 9999 ->
  (r_byeaster r = None \/ (1583 <= r_y r /\ r_y r + (k + Z.of_nat n) * r_interval r <= 4098)) ->
  fst (run rl limit n s) = fst (spec_loop r limit n k cnt (c_out s)).
Proof.
  intros r rl limit n. induction n as [|n IH]; intros k cnt s HN Y A Hk Hlo Hhi HE.
  - reflexivity.
  - pose proof Y as [HW Hfr Hp Hsp Hs]. pose proof (wf_itv r HW) as Hitv.
    assert (Hyk : 1 <= r_y r + k * r_interval r) by nia.
    assert (Hyk1 : r_y r + (k + 1) * r_interval r <= 9999) by nia.
    assert (B : jan1 (r_y r + k * r_interval r) <= max_ord).
    { rewrite jan1_eq.
      assert (days_before_year (r_y r + k * r_interval r) + 1 <= days_before_year (r_y r + k * r_interval r + 1))
        by (rewrite days_before_year_succ; unfold year_len; destruct (is_leap _); lia).
      assert (days_before_year (r_y r + k * r_interval r + 1) <= days_before_year 10000)
        by (apply days_before_year_mono; nia).
      change (days_before_year 10000) with 3652059 in *. unfold max_ord. lia. }
    destruct (sp_after_until r (jan1 (r_y r + k * r_interval r), 0)) eqn:AU.
    + (* the specification stops at this step; the code yields nothing more *)
      rewrite (yearly_run_dead_until r rl limit (S n) k cnt s HN Y A Hk Hlo Hhi HE AU).
      cbn [spec_loop]. destruct (limit <=? zlen (c_out s)); [reflexivity|].
      rewrite (step_lo_yearly r k Hfr).
      replace (max_ord <? jan1 (r_y r + k * r_interval r)) with false by lia. rewrite AU. reflexivity.
    + cbn [run spec_loop]. destruct (limit <=? zlen (c_out s)); [reflexivity|].
      rewrite (step_lo_yearly r k Hfr).
      replace (max_ord <? jan1 (r_y r + k * r_interval r)) with false by lia. rewrite AU.
      pose proof A as (Ay & Am & Ar & At & Ac).
      destruct (match cnt with Some c => c <=? 0 | None => false end) eqn:EC.
      * destruct cnt as [c|]; [|discriminate EC].
        assert (D : dead s) by (exists c; split; [exact Ac|lia]).
        pose proof (step_dead rl s D) as SD. destruct (step rl s) as [s'|[out t]].
        -- destruct SD as [E D']. rewrite (run_dead rl limit n s' D'). exact E.
        -- exact SD.
      * assert (HEk : r_byeaster r = None \/ (1583 <= r_y r + k * r_interval r /\ r_y r + (k + 1) * r_interval r <= 4098)).
        { destruct HE as [HE|HE]; [left; exact HE|right; nia]. }
        destruct (yearly_step_u r rl k cnt s HN Y A Hyk Hyk1 HEk) as (acc' & cnt' & b & ET & Hcase & _).
        rewrite ET. destruct Hcase as [(s' & ES & A' & EO & Eb)|(t & ES & Hb)].
        -- rewrite ES. subst b. rewrite <- EO. apply IH; try assumption; [lia| |].
           ++ replace (k + 1 + Z.of_nat n) with (k + Z.of_nat (S n)) by lia. exact Hhi.
           ++ replace (k + 1 + Z.of_nat n) with (k + Z.of_nat (S n)) by lia. exact HE.
        -- rewrite ES. cbn [fst]. destruct b; [reflexivity|].
           destruct Hb as [Hb|UL]; [discriminate Hb|].
           symmetry. apply (spec_loop_dead_until r limit UL).
Qed.

(* rrule_iter_correct for the YEARLY family, COUNT and UNTIL included *)
Theorem yearly_iter_correct_u : forall r rl limit n,
  normalize r = Ok rl -> yfam_u r -> 1 <= r_y r -> r_y r + Z.of_nat n * r_interval r <= 9999 ->
  (r_byeaster r = None \/ (1583 <= r_y r /\ r_y r + Z.of_nat n * r_interval r <= 4098)) ->
  fst (iterate rl limit n) = fst (spec_iter r limit n).
Proof.
  intros r rl limit n HN Y Hlo Hhi HE.
  pose proof Y as [HW Hfr Hp Hsp Hs].
  destruct (normalize_misc r rl HN) as (Ni & Nsp & Ny & Nm & Nd & Nc & Nu).
  pose proof (normalize_freq r rl HN) as Nfr. rewrite Hfr in Nfr.
  pose proof (normalize_wkst r rl HN) as Nwk.
  pose proof (plain_only_no_nth r rl HN Hp) as TN.
  pose proof (easter_cases r rl HN HW) as EC.
  assert (Hwf : 1 <= r_interval r /\ 0 <= r_wkst r <= 6).
  { pose proof HW as HW'. unfold spec_wf in HW'.
    repeat match type of HW' with _ && _ = true =>
      let H := fresh "W" in apply andb_true_iff in HW'; destruct HW' as [HW' H] end.
    unfold between in *. lia. }
  destruct Hwf as [Hitv Hwk].
  assert (Hy0 : 1 <= r_y r <= 9999) by nia.
  assert (HE0 : truthy (byeaster rl) = false \/ 1583 <= r_y r <= 4098).
  { destruct EC as [[Ea0 T0]|[Ea1 T1]]; [left; exact T0|right]. destruct HE as [HE|HE]; [congruence|]. nia. }
  destruct (rebuild_succeeds rl (r_y r) (r_m r) Hy0 ltac:(rewrite Nwk; exact Hwk) TN HE0) as (ii0 & R0).
  pose proof (timeset_is_spec r rl HN HW ltac:(rewrite Hfr; reflexivity)) as HT.
  unfold iterate, init_state. rewrite Nfr. change (YEARLY =? WEEKLY) with false. cbn [andb]. cbv iota.
  rewrite Ny, Nm, Nd, R0. cbn [bind].
  change (YEARLY <? HOURLY) with true. cbv iota. rewrite HT. cbn [bind]. rewrite Nc.
  unfold spec_iter.
  set (s0 := mkSt _ _ _ _ _ _ _ _ _ _ _).
  assert (A0 : at_pass_c r rl 0 (r_count r) s0).
  { unfold at_pass_c, s0. cbn [c_year c_month c_ii c_timeset c_count]. repeat split; try reflexivity; [ring|exact R0]. }
  pose proof (yearly_run_is_spec_u r rl limit n 0 (r_count r) s0 HN Y A0 ltac:(lia) Hlo
                ltac:(replace (0 + Z.of_nat n) with (Z.of_nat n) by lia; exact Hhi)
                ltac:(replace (0 + Z.of_nat n) with (Z.of_nat n) by lia; exact HE)) as Q.
  change (c_out s0) with (@nil instant) in Q.
  destruct (run rl limit n s0) as [out t]. destruct (spec_loop r limit n 0 (r_count r) []) as [acc t'].
  cbn [fst] in *. rewrite Q. reflexivity.
Qed.

(* non-vacuity: rrule(YEARLY, dtstart=datetime(1997,9,2,9,0), interval=2, bymonth=(1,9), bymonthday=(2,-1),
   byhour=(9,17), count=5, until=datetime(2003,1,1)) *)
Definition raw_until_example : raw :=
  mkRaw YEARLY false 1997 9 2 9 0 0 2 0 (Some 5) (Some (ord_of_ymd 2003 1 1, 0, 0)) false
        None (Some [1; 9]) (Some [2; -1]) None None None None (Some [9; 17]) None None.

Example yearly_until_example :
  yfam_u raw_until_example /\
  match normalize raw_until_example with
  | Ok rl => fst (iterate rl 100 10) =
             [(ord_of_ymd 1997 9 2, 32400); (ord_of_ymd 1997 9 2, 61200); (ord_of_ymd 1997 9 30, 32400);
              (ord_of_ymd 1997 9 30, 61200); (ord_of_ymd 1999 1 2, 32400)]
  | Err _ => False
  end.
Proof. split; [constructor; reflexivity|vm_compute; reflexivity]. Qed.
