(* C01 layer 7 -- rrule_iter_correct for YEARLY rules WITH BYSETPOS and with nth weekdays (no BYMONTH
   next to nth weekdays, no BYEASTER): every fuel.  Same plan as RRMonthlyFullThm: the loop theorem is
   proved from three facts about the rule (rebuild succeeds, rebuild on the previous iterinfo equals
   rebuild from scratch, the BY-filter on the year is the specification's day_ok) and instantiated. *)
From Coq Require Import ZArith List Bool Lia ZifyBool.
From V Require Import base.Cal gen.RrTables rr.RRBase rr.RRNorm rr.RRMasks rr.RRIter rr.RRSpec
  rr.RROverlay rr.RRTablesThm rr.RRWeekDefs rr.RRWeekThm rr.RRWeekCal rr.RRWeekFinal rr.RRWeekTop rr.RRNwdThm
  rr.RRNwdCal rr.RRFilterThm rr.RRFilterSpec rr.RRGateThm rr.RRTimesetThm
  rr.RRDaysetThm rr.RRAdvanceThm rr.RRIterThm rr.RRPassThm rr.RRYearlyThm rr.RRYearlyEasterThm
  rr.RRCountThm rr.RRYearlyCountThm rr.RRYearlyUntilThm rr.RRDailyThm rr.RRMonthlyThm rr.RRSetposThm
  rr.RRCoarseRun rr.RRMonthlyFullThm rr.RRMonthlyNthThm.
Import ListNotations.
Ltac Zify.zify_post_hook ::= Z.to_euclidean_division_equations.
Open Scope Z_scope.

Definition at_pass_y (r : raw) (rl : rule) (k : Z) (cnt : option Z) (s : state) : Prop :=
  1 <= c_year s <= 9999 /\ c_year s = r_y r + k * r_interval r /\
  rebuild rl ii_init (c_year s) (c_month s) = Ok (c_ii s) /\
  c_timeset s = period_times r 0 /\ c_count s = cnt.

Lemma step_lo_yearly r k : r_freq r = YEARLY -> step_lo r k = jan1 (r_y r + k * r_interval r).
Proof.
  intros Hf. unfold step_lo, is_coarse, period_days. rewrite Hf. change (YEARLY <=? DAILY) with true.
  change (YEARLY =? YEARLY) with true. reflexivity.
Qed.

Lemma jan1_bounds y : 1 <= y <= 9999 -> 1 <= jan1 y /\ jan1 y + year_len y <= max_ord + 1.
Proof.
  intros Hy. split.
  - rewrite jan1_eq. assert (days_before_year 1 <= days_before_year y) by (apply days_before_year_mono; lia).
    change (days_before_year 1) with 0 in *. lia.
  - rewrite <- jan1_succ. rewrite jan1_eq.
    assert (days_before_year (y + 1) <= days_before_year 10000) by (apply days_before_year_mono; lia).
    change (days_before_year 10000) with 3652059 in *. unfold max_ord. lia.
Qed.

Lemma start_year_range r : spec_wf r = true -> 1 <= r_y r <= 9999.
Proof.
  intros HW. unfold spec_wf in HW.
  repeat match type of HW with _ && _ = true =>
    let H := fresh "W" in apply andb_true_iff in HW; destruct HW as [HW H] end.
  match goal with H : valid_ymd _ _ _ = true |- _ => unfold valid_ymd in H end. lia.
Qed.

Section YearlyFull.
Variables (r : raw) (rl : rule).
Hypothesis HN : normalize r = Ok rl.
Hypothesis HW : spec_wf r = true.
Hypothesis Hfr : r_freq r = YEARLY.
(* the years ylo..yhi in which the three facts hold (1..9999 without BYEASTER, C19's range with it) *)
Variables (ylo yhi : Z).
Hypothesis RB_ok : forall y m, ylo <= y <= yhi -> exists ii, rebuild rl ii_init y m = Ok ii.
Hypothesis RB_eq : forall y m ii y', ylo <= y <= yhi -> rebuild rl ii_init y m = Ok ii ->
  ylo <= y' <= yhi -> y' <> y -> rebuild rl ii y' m = rebuild rl ii_init y' m.
Hypothesis DF : forall y m ii i, ylo <= y <= yhi -> rebuild rl ii_init y m = Ok ii ->
  0 <= i < year_len y -> day_rejected rl ii i = Ok (negb (day_ok r (jan1 y + i))).

(* the cursor invariant with the year range, and the passes after which the next year is still inside it
   (or beyond 9999, where the loop stops) *)
Definition inv_y (k : Z) (cnt : option Z) (s : state) : Prop :=
  at_pass_y r rl k cnt s /\ ylo <= c_year s <= yhi.
Definition okp_y (k : Z) : Prop :=
  r_y r + (k + 1) * r_interval r <= yhi \/ 9999 < r_y r + (k + 1) * r_interval r.

Let Nfr : freq rl = YEARLY.
Proof. rewrite (normalize_freq r rl HN). exact Hfr. Qed.

Lemma yearly_days : forall k cnt s, at_pass_y r rl k cnt s -> ylo <= c_year s <= yhi ->
  let y := c_year s in
  exists ds ds' f,
    getdayset rl (c_ii s) y (c_month s) (c_day s) = Ok (ds, 0, year_len y) /\
    filter_loop rl (c_ii s) (py_slice ds 0 (year_len y)) ds false = Ok (ds', f) /\
    somes (py_slice ds' 0 (year_len y)) = filter (fun i => day_ok r (jan1 y + i)) (zrange 0 (year_len y)).
Proof.
  intros k cnt s (Ay & Ai & Ar & At & Ac) Hr y. fold y in Ay, Ai, Ar, Hr.
  pose proof (rebuild_ii_for rl y _ (c_ii s) Ay Ar) as F.
  assert (YL : 365 <= year_len y <= 366) by (unfold year_len; destruct (is_leap y); lia).
  set (rej := fun i => negb (day_ok r (jan1 y + i))).
  pose proof (filter_loop_correct rl (c_ii s) rej (year_len y) ltac:(lia)
                ltac:(intros i Hi; apply (DF y (c_month s) (c_ii s) i Hr Ar Hi))) as FL.
  cbv zeta in FL.
  exists (map Some (zrange 0 (year_len y))), (map (mark rej) (zrange 0 (year_len y))),
         (existsb rej (zrange 0 (year_len y))).
  split.
  { unfold getdayset. rewrite Nfr. change (YEARLY =? YEARLY) with true. cbv iota.
    unfold ydayset. rewrite (f_ylen _ _ F). reflexivity. }
  split; [exact FL|].
  assert (L : zlen (map (mark rej) (zrange 0 (year_len y))) = year_len y).
  { unfold zlen, zrange. rewrite map_length, zrange_nat_length. lia. }
  pose proof (py_slice_all (map (mark rej) (zrange 0 (year_len y)))) as P. rewrite L in P. rewrite P.
  rewrite somes_map_mark. apply filter_ext'. intros x. unfold rej. apply negb_involutive.
Qed.

Lemma yearly_step_items_sel k y : 1 <= y <= 9999 -> y = r_y r + k * r_interval r ->
  step_items r k = filter (inst_le (sp_start r))
    (select_pos r (cand_list (jan1 y) (period_times r 0)
                     (filter (fun i => day_ok r (jan1 y + i)) (zrange 0 (year_len y))))).
Proof.
  intros Hy Hi.
  assert (YL : 365 <= year_len y <= 366) by (unfold year_len; destruct (is_leap y); lia).
  rewrite <- (cands_by_index r y 0 (year_len y)) by lia.
  unfold step_items, is_coarse. rewrite Hfr. change (YEARLY <=? DAILY) with true. cbv iota.
  f_equal. f_equal. unfold cands_coarse, period_days. rewrite Hfr.
  change (YEARLY =? YEARLY) with true. cbv iota zeta. rewrite <- Hi.
  fold (jan1 y). fold (jan1 (y + 1)). rewrite jan1_succ.
  destruct (jan1_bounds y Hy) as [B1 B2].
  replace (Z.max (jan1 y) 1) with (jan1 y + 0) by lia.
  replace (Z.min (jan1 y + year_len y - 1) max_ord + 1) with (jan1 y + year_len y) by lia.
  apply flat_map_filter.
Qed.

Lemma yearly_advance2 : forall k cnt s filtered c1 out1, inv_y k cnt s -> okp_y k ->
  (exists s', advance rl s filtered c1 out1 = Ok (AdvGo s') /\ inv_y (k + 1) c1 s' /\ c_out s' = out1) \/
  (advance rl s filtered c1 out1 = Ok AdvMax /\ max_ord < step_lo r (k + 1)).
Proof.
  intros k cnt s filtered c1 out1 [(Ay & Ai & Ar & At & Ac) Hr] Hok.
  destruct (normalize_misc r rl HN) as (Ni & _ & _ & _ & _ & _ & _).
  pose proof (wf_itv r HW) as Hitv.
  unfold advance. rewrite Nfr. change (YEARLY =? YEARLY) with true. cbv iota zeta. rewrite Ni.
  assert (EY : c_year s + r_interval r = r_y r + (k + 1) * r_interval r) by (rewrite Ai; ring).
  destruct (T_MAXYEAR <? c_year s + r_interval r) eqn:EM.
  - right. split; [reflexivity|]. rewrite (step_lo_yearly r (k + 1) Hfr), <- EY.
    unfold T_MAXYEAR in EM. pose proof (jan1_mono 10000 (c_year s + r_interval r) ltac:(lia)) as JM.
    change (jan1 10000) with 3652060 in JM. unfold max_ord. lia.
  - unfold T_MAXYEAR in EM.
    assert (Hy' : 1 <= c_year s + r_interval r <= 9999) by lia.
    assert (Hr' : ylo <= c_year s + r_interval r <= yhi).
    { unfold okp_y in Hok. rewrite <- EY in Hok. lia. }
    destruct (RB_ok (c_year s + r_interval r) (c_month s) Hr') as (ii2 & R2).
    rewrite (RB_eq (c_year s) (c_month s) (c_ii s) _ Hr Ar Hr' ltac:(lia)), R2. cbn [bind].
    unfold finish_advance. cbn [andb].
    left. eexists. split; [reflexivity|]. split; [|reflexivity].
    unfold inv_y, at_pass_y. cbn [c_year c_month c_ii c_timeset c_count].
    split; [|exact Hr'].
    split; [exact Hy'|]. split; [exact EY|]. split; [exact R2|]. split; [exact At|reflexivity].
Qed.

Lemma yearly_step2 : forall k cnt s, inv_y k cnt s -> 0 <= k -> okp_y k ->
  exists acc' cnt' b, sp_take r (step_items r k) cnt (c_out s) = (acc', cnt', b) /\
    ((exists s', step rl s = inl s' /\ inv_y (k + 1) cnt' s' /\ c_out s' = acc' /\ b = false) \/
     (exists t, step rl s = inr (acc', t) /\
                (b = true \/ until_lt_start r \/ max_ord < step_lo r (k + 1)))) /\
    (sp_after_until r (step_lo r k, 0) = true -> acc' = c_out s).
Proof.
  intros k cnt s AA Hk Hok.
  pose proof AA as [A Hr].
  pose proof A as (Ay & Ai & Ar & At & Ac).
  destruct (yearly_days k cnt s A Hr) as (ds & ds' & f & E1 & E2 & E3).
  pose proof (rebuild_ii_for rl _ _ (c_ii s) Ay Ar) as F.
  destruct (jan1_bounds (c_year s) Ay) as [B1 B2].
  destruct (step_from_days r rl HN HW ltac:(rewrite Hfr; reflexivity) s k cnt ds _ _ ds' f _ E1 E2 E3
              (ssorted_filter_zrange _ _ _)) as (out' & c1 & s1 & c1' & b1 & PRE & ET & G2 & G3 & G4).
  { intros i Hi. apply filter_In in Hi. destruct Hi as [Hi _]. unfold zrange in Hi.
    pose proof (In_zrange_nat_bounds _ _ _ Hi) as Bi. rewrite (f_yo _ _ F). unfold from_ordinal.
    replace ((1 <=? jan1 (c_year s) + i) && (jan1 (c_year s) + i <=? max_ord)) with true by lia. reflexivity. }
  { exact At. }
  { exact Ac. }
  { rewrite (f_yo _ _ F). apply (yearly_step_items_sel k (c_year s) Ay Ai). }
  exists out', c1', b1. split; [exact ET|]. split.
  - destruct s1 as [t|].
    + right. exists t. split; [exact PRE|]. destruct (G3 ltac:(discriminate)) as [H|H]; auto.
    + destruct (G2 eq_refl) as [Hb Ec]. subst c1'.
      destruct (yearly_advance2 k cnt s f c1 out' AA Hok) as [(s' & EA & A' & EO)|(EA & Hmax)].
      * left. exists s'. rewrite PRE, EA. split; [reflexivity|]. split; [exact A'|]. split; [exact EO|exact Hb].
      * right. exists TMaxYear. rewrite PRE, EA. split; [reflexivity|]. right. right. exact Hmax.
  - intros AU. apply (G4 (step_lo r k)); [|exact AU].
    intros i Hi. apply filter_In in Hi. destruct Hi as [Hi _]. unfold zrange in Hi.
    pose proof (In_zrange_nat_bounds _ _ _ Hi) as Bi. rewrite (f_yo _ _ F).
    rewrite (step_lo_yearly r k Hfr), <- Ai. lia.
Qed.

Theorem yearly_iter_correct2 : forall limit n, ylo <= r_y r <= yhi ->
  (forall j, 0 <= j < Z.of_nat n -> okp_y j) ->
  fst (iterate rl limit n) = fst (spec_iter r limit n).
Proof.
  intros limit n Hr0 Hokn.
  destruct (normalize_misc r rl HN) as (Ni & Nsp & Ny & Nm & Nd & Nc & Nu).
  pose proof (wf_itv r HW) as Hitv.
  assert (V : valid_ymd (r_y r) (r_m r) (r_d r) = true).
  { pose proof HW as HW'. unfold spec_wf in HW'.
    repeat match type of HW' with _ && _ = true =>
      let H := fresh "W" in apply andb_true_iff in HW'; destruct HW' as [HW' H] end. assumption. }
  destruct (index_in_year _ _ _ V) as (_ & _ & Hy0).
  destruct (RB_ok (r_y r) (r_m r) Hr0) as (ii0 & R0).
  pose proof (timeset_is_spec r rl HN HW ltac:(rewrite Hfr; reflexivity)) as HT.
  unfold iterate, init_state. rewrite Nfr. change (YEARLY =? WEEKLY) with false. cbn [andb]. cbv iota.
  rewrite Ny, Nm, Nd, R0. cbn [bind].
  change (YEARLY <? HOURLY) with true. cbv iota. rewrite HT. cbn [bind]. rewrite Nc.
  unfold spec_iter.
  set (s0 := mkSt _ _ _ _ _ _ _ _ _ _ _).
  assert (A0 : inv_y 0 (r_count r) s0).
  { unfold inv_y, at_pass_y, s0. cbn [c_year c_month c_ii c_timeset c_count]. split; [|exact Hr0].
    split; [exact Hy0|]. split; [ring|]. split; [exact R0|]. split; reflexivity. }
  assert (H1 : forall k0 cnt0 s1, inv_y k0 cnt0 s1 -> c_count s1 = cnt0).
  { intros k0 cnt0 s1 [(_ & _ & _ & _ & Ac) _]. exact Ac. }
  assert (H2 : forall k0, 0 <= k0 -> step_lo r k0 <= step_lo r (k0 + 1)).
  { intros k0 Hk0. rewrite !(step_lo_yearly r _ Hfr). apply jan1_mono. nia. }
  assert (H3 : forall k0 cnt0 s1, inv_y k0 cnt0 s1 -> 0 <= k0 -> okp_y k0 -> step_lo r k0 <= max_ord).
  { intros k0 cnt0 s1 [(Ay & Ai & _) _] _ _. rewrite (step_lo_yearly r k0 Hfr), <- Ai.
    destruct (jan1_bounds (c_year s1) Ay). unfold year_len in *. destruct (is_leap (c_year s1)); lia. }
  pose proof (coarse_run_is_spec r rl inv_y okp_y H1 H2 H3 yearly_step2
                limit n 0 (r_count r) s0 A0 ltac:(lia) ltac:(intros j Hj; apply Hokn; lia)) as Q.
  change (c_out s0) with (@nil instant) in Q.
  destruct (run rl limit n s0) as [out t]. destruct (spec_loop r limit n 0 (r_count r) []) as [acc t'].
  cbn [fst] in *. rewrite Q. reflexivity.
Qed.
End YearlyFull.

(* ------------------------------------------------------------------ instance 1: plain BYDAY, BYSETPOS free *)
Record yfam_s (r : raw) : Prop := mk_yfam_s {
  ys_wf : spec_wf r = true;
  ys_freq : r_freq r = YEARLY;
  ys_plain : plain_only r = true;
  ys_weekno : all_opt (r_byweekno r) weekno_safe = true;
  ys_easter : r_byeaster r = None
}.

Theorem yearly_setpos_iter_correct : forall r rl limit n,
  normalize r = Ok rl -> yfam_s r ->
  fst (iterate rl limit n) = fst (spec_iter r limit n).
Proof.
  intros r rl limit n HN [HW Hfr Hp Hs He].
  pose proof (normalize_wkst r rl HN) as Nwk.
  pose proof (plain_only_no_nth r rl HN Hp) as TN.
  destruct (normalize_fields r rl HN) as (_ & _ & _ & _ & _ & Nea & _).
  assert (TE : truthy (byeaster rl) = false) by (rewrite Nea, He; reflexivity).
  assert (Hwk : 0 <= wkst rl <= 6).
  { rewrite Nwk. pose proof HW as HW'. unfold spec_wf in HW'.
    repeat match type of HW' with _ && _ = true =>
      let H := fresh "W" in apply andb_true_iff in HW'; destruct HW' as [HW' H] end.
    unfold between in *. lia. }
  apply (yearly_iter_correct2 r rl HN HW Hfr 1 9999).
  - intros y m Hy. apply (rebuild_succeeds rl y m Hy Hwk TN (or_introl TE)).
  - intros y m ii y' Hy Ar Hy' Hne.
    destruct (rebuild_slots rl y m ii Hy Ar) as (LY & EM).
    destruct (rebuild_char rl y m ii Hy Ar) as (_ & CN & _).
    apply rebuild_from_previous_year; [|exact TN|apply CN; exact TN|right; apply EM; exact TE].
    rewrite LY. unfold opt_neqb. apply negb_true_iff. apply Z.eqb_neq. lia.
  - intros y m ii i Hy Ar Hi.
    apply (day_filter_correct_guarded r rl y m ii i HN HW Hp Hs (or_introl He) Hy Ar Hi).
  - apply (start_year_range r HW).
  - intros j _. unfold okp_y. lia.
Qed.

(* ------------------------------------------------------------------ instance 1e: the same with BYEASTER *)
(* BYEASTER (dateutil extension) inside the year range of C19's Easter theorem: every pass, and the year after
   it (whose Easter fills the mask's 7-day extension), within 1583..4099 *)
Record yfam_es (r : raw) : Prop := mk_yfam_es {
  yes_wf : spec_wf r = true;
  yes_freq : r_freq r = YEARLY;
  yes_plain : plain_only r = true;
  yes_weekno : all_opt (r_byweekno r) weekno_safe = true
}.

Theorem yearly_easter_iter_correct : forall r rl limit n,
  normalize r = Ok rl -> yfam_es r -> 1583 <= r_y r <= 4098 ->
  (forall j, 0 <= j < Z.of_nat n -> r_y r + (j + 1) * r_interval r <= 4098) ->
  fst (iterate rl limit n) = fst (spec_iter r limit n).
Proof.
  intros r rl limit n HN [HW Hfr Hp Hs] Hr0 Hn.
  pose proof (normalize_wkst r rl HN) as Nwk.
  pose proof (plain_only_no_nth r rl HN Hp) as TN.
  assert (Hwk : 0 <= wkst rl <= 6).
  { rewrite Nwk. pose proof HW as HW'. unfold spec_wf in HW'.
    repeat match type of HW' with _ && _ = true =>
      let H := fresh "W" in apply andb_true_iff in HW'; destruct HW' as [HW' H] end.
    unfold between in *. lia. }
  apply (yearly_iter_correct2 r rl HN HW Hfr 1583 4098).
  - intros y m Hy. apply (rebuild_succeeds rl y m ltac:(lia) Hwk TN (or_intror Hy)).
  - intros y m ii y' Hy Ar Hy' Hne.
    destruct (rebuild_slots rl y m ii ltac:(lia) Ar) as (LY & EM).
    destruct (rebuild_char rl y m ii ltac:(lia) Ar) as (_ & CN & _).
    apply rebuild_from_previous_year; [|exact TN|apply CN; exact TN|].
    + rewrite LY. unfold opt_neqb. apply negb_true_iff. apply Z.eqb_neq. lia.
    + destruct (truthy (byeaster rl)) eqn:TE; [left; reflexivity|right; apply EM; reflexivity].
  - intros y m ii i Hy Ar Hi.
    apply (day_filter_correct_guarded r rl y m ii i HN HW Hp Hs (or_intror Hy) ltac:(lia) Ar Hi).
  - exact Hr0.
  - intros j Hj. unfold okp_y. left. apply Hn. exact Hj.
Qed.

(* non-vacuity: rrule(YEARLY, dtstart=datetime(2023,1,1,9,0), byeaster=(0, -2, 49), bysetpos=(1,-1), count=4):
   Good Friday and Whit Sunday of each year *)
Definition raw_yearly_easter_example : raw :=
  mkRaw YEARLY false 2023 1 1 9 0 0 1 0 (Some 4) None false
        (Some [1; -1]) None None None (Some [0; -2; 49]) None None None None None.
Example yearly_easter_example :
  yfam_es raw_yearly_easter_example /\
  match normalize raw_yearly_easter_example with
  | Ok rl => fst (iterate rl 100 40) =
             [(ord_of_ymd 2023 4 7, 32400); (ord_of_ymd 2023 5 28, 32400); (ord_of_ymd 2024 3 29, 32400);
              (ord_of_ymd 2024 5 19, 32400)]
  | Err _ => False
  end.
Proof. split; [constructor; reflexivity|vm_compute; reflexivity]. Qed.

(* non-vacuity: rrule(YEARLY, dtstart=datetime(2023,1,1,9,0), bymonth=(1,6), byweekday=(MO,FR),
   bysetpos=(1,3,-1), count=6) *)
Definition raw_yearly_setpos_example : raw :=
  mkRaw YEARLY false 2023 1 1 9 0 0 1 0 (Some 6) None false
        (Some [1; 3; -1]) (Some [1; 6]) None None None None (Some [(0, 0); (4, 0)]) None None None.
Example yearly_setpos_example :
  yfam_s raw_yearly_setpos_example /\
  match normalize raw_yearly_setpos_example with
  | Ok rl => fst (iterate rl 100 40) =
             [(ord_of_ymd 2023 1 2, 32400); (ord_of_ymd 2023 1 9, 32400); (ord_of_ymd 2023 6 30, 32400);
              (ord_of_ymd 2024 1 1, 32400); (ord_of_ymd 2024 1 8, 32400); (ord_of_ymd 2024 6 28, 32400)]
  | Err _ => False
  end.
Proof. split; [constructor; reflexivity|vm_compute; reflexivity]. Qed.

(* ------------------------------------------------------------------ instance 2: nth weekdays (no BYMONTH) *)
Theorem rebuild_nth_other_year_y : forall rl ii y m,
  opt_neqb (lastyear ii) y = true -> freq rl = YEARLY -> truthy (bymonth rl) = false ->
  truthy (bynweekday rl) = true -> truthy (byeaster rl) = false -> eastermask ii = None ->
  rebuild rl ii y m = rebuild rl ii_init y m.
Proof.
  intros rl ii y m HL Nfr TB TN TE HE. unfold rebuild. rewrite HL, TN, TE, TB, Nfr.
  change (lastyear ii_init) with (@None Z). change (opt_neqb None y) with true. cbv iota.
  change (lastmonth ii_init) with (@None Z). change (opt_neqb None m) with true.
  rewrite orb_true_r. cbn [andb orb].
  change (YEARLY =? YEARLY) with true. cbv iota.
  destruct (date_ord y 1 1) as [yo|e]; cbn [bind]; [|reflexivity].
  destruct (if 365 + (if is_leap y then 1 else 0) =? 365 then _ else _) as [[[mm mdm] nmdm] mr].
  destruct (if negb (truthy (byweekno rl)) then _ else _) as [wno|e]; cbn [bind]; [|reflexivity].
  cbn [nwdaymask eastermask yearordinal yearlen nextyearlen yearweekday mmask mrange mdaymask nmdaymask
       wdaymask wnomask].
  rewrite HE. change (eastermask ii_init) with (@None (list Z)).
  cbn [nonempty]. destruct (fold_res _ _ _) as [nm|e]; cbn [bind]; reflexivity.
Qed.

Theorem rebuild_nth_succeeds_y : forall rl y month,
  1 <= y <= 9999 -> 0 <= wkst rl <= 6 -> freq rl = YEARLY -> truthy (bymonth rl) = false ->
  truthy (bynweekday rl) = true -> truthy (byeaster rl) = false ->
  (forall wn, In wn (opt_list (bynweekday rl)) -> pair_ok wn) ->
  exists ii', rebuild rl ii_init y month = Ok ii'.
Proof.
  intros rl y month Hy Hk Nfr TB TN TE PK. unfold rebuild.
  change (lastyear ii_init) with (@None Z). change (opt_neqb None y) with true. cbv iota.
  change (lastmonth ii_init) with (@None Z). change (opt_neqb None month) with true.
  unfold date_ord. assert (V : valid_ymd y 1 1 = true) by (unfold valid_ymd; change (dim y 1) with 31; lia).
  rewrite V. cbn [bind]. fold (jan1 y). rewrite !year_len_365.
  destruct (if year_len y =? 365 then _ else _) as [[[mm mdm] nmdm] mr].
  assert (W : exists wno,
     (if negb (truthy (byweekno rl)) then Ok None
      else do m <- build_wnomask y (year_len y) (year_len (y + 1)) (weekday_of_ord (jan1 y)) (wkst rl)
                     (py_from T_WDAYMASK (weekday_of_ord (jan1 y))) (opt_list (byweekno rl));
           Ok (Some m)) = Ok wno).
  { destruct (negb (truthy (byweekno rl))); [eexists; reflexivity|].
    destruct (wnomask_no_index_error_calendar y (wkst rl) (opt_list (byweekno rl)) Hk) as (m & Em).
    cbv zeta in Em. rewrite Em. cbn [bind]. eexists; reflexivity. }
  destruct W as (wno & Ew). rewrite Ew. cbn [bind]. rewrite TN, TE, TB, Nfr. cbn [andb orb yearlen mrange wdaymask].
  change (YEARLY =? YEARLY) with true. cbv iota.
  cbn [nonempty]. unfold py_repeat. fold (zeros (Z.to_nat (year_len y))).
  fold (wdm_of (weekday_of_ord (jan1 y))).
  destruct (nwdaymask_yearly_calendar y (opt_list (bynweekday rl)) PK) as (m' & Ef' & _).
  cbv zeta in Ef'. rewrite Ef'. cbn [bind]. eexists; reflexivity.
Qed.

(* the YEARLY family without BYEASTER: plain BYDAY with anything, or nth weekdays without BYMONTH *)
Record yfam_all (r : raw) : Prop := mk_yfam_all {
  ya_wf : spec_wf r = true;
  ya_freq : r_freq r = YEARLY;
  ya_kind : plain_only r = true \/ r_bymonth r = None;
  ya_weekno : all_opt (r_byweekno r) weekno_safe = true;
  ya_easter : r_byeaster r = None
}.

Theorem yearly_iter_correct_full : forall r rl limit n,
  normalize r = Ok rl -> yfam_all r ->
  fst (iterate rl limit n) = fst (spec_iter r limit n).
Proof.
  intros r rl limit n HN [HW Hfr Hk Hs He].
  destruct (plain_only r) eqn:Hp.
  - apply (yearly_setpos_iter_correct r rl limit n HN). constructor; assumption.
  - destruct Hk as [Hk|Hbm]; [discriminate Hk|].
    pose proof (normalize_wkst r rl HN) as Nwk.
    pose proof (normalize_freq r rl HN) as Nfr. rewrite Hfr in Nfr.
    pose proof (not_plain_has_nth r rl HN ltac:(rewrite Hfr; reflexivity) Hp) as TN.
    pose proof (nth_pairs_ok r rl HN HW ltac:(rewrite Hfr; reflexivity)) as PK.
    destruct (normalize_fields r rl HN) as (Nm & _ & _ & _ & _ & Nea & _).
    assert (TE : truthy (byeaster rl) = false) by (rewrite Nea, He; reflexivity).
    assert (TB : truthy (bymonth rl) = false).
    { rewrite Nm. unfold eff_bymonth. rewrite Hbm.
      assert (ND : no_day_part r = false).
      { unfold no_day_part. unfold plain_only in Hp. destruct (r_byweekday r); [|discriminate Hp].
        cbn [is_none]. rewrite andb_false_r. reflexivity. }
      rewrite ND. reflexivity. }
    assert (Hwk : 0 <= wkst rl <= 6).
    { rewrite Nwk. pose proof HW as HW'. unfold spec_wf in HW'.
      repeat match type of HW' with _ && _ = true =>
        let H := fresh "W" in apply andb_true_iff in HW'; destruct HW' as [HW' H] end.
      unfold between in *. lia. }
    apply (yearly_iter_correct2 r rl HN HW Hfr 1 9999); [| | |apply (start_year_range r HW)|intros j _; unfold okp_y; lia].
    + intros y m Hy. apply (rebuild_nth_succeeds_y rl y m Hy Hwk Nfr TB TN TE PK).
    + intros y m ii y' Hy Ar Hy' Hne.
      destruct (rebuild_slots rl y m ii Hy Ar) as (LY & EM).
      apply rebuild_nth_other_year_y; [|exact Nfr|exact TB|exact TN|exact TE|apply EM; exact TE].
      rewrite LY. unfold opt_neqb. apply negb_true_iff. apply Z.eqb_neq. lia.
    + intros y m ii i Hy Ar Hi.
      apply (day_filter_correct_yearly_nth_guarded r rl y m ii i HN HW Hfr Hbm TN Hs (or_introl He) Hy Ar Hi).
Qed.

(* non-vacuity: rrule(YEARLY, dtstart=datetime(2023,1,1,9,0), byweekday=(MO(+20), FR(-1), SU(+1)),
   bysetpos=(-1, 1), count=4) *)
Definition raw_yearly_nth_example : raw :=
  mkRaw YEARLY false 2023 1 1 9 0 0 1 0 (Some 4) None false
        (Some [-1; 1]) None None None None None (Some [(0, 20); (4, -1); (6, 1)]) None None None.
Example yearly_nth_example :
  yfam_all raw_yearly_nth_example /\ plain_only raw_yearly_nth_example = false /\
  match normalize raw_yearly_nth_example with
  | Ok rl => fst (iterate rl 100 40) =
             [(ord_of_ymd 2023 1 1, 32400); (ord_of_ymd 2023 12 29, 32400); (ord_of_ymd 2024 1 7, 32400);
              (ord_of_ymd 2024 12 27, 32400)]
  | Err _ => False
  end.
Proof. split; [constructor; try reflexivity; right; reflexivity|split; [reflexivity|vm_compute; reflexivity]]. Qed.
