(* C01 layer 1 -- the module-level mask tables of dateutil.rrule, as regenerated from the live
   module into gen/RrTables.v on every run, are the calendar: for every year y and every day
   index i < year_len y + 7 the tables give month / day-of-month / negative day-of-month of that
   day (wrapping into next January), the ranges are the month boundaries, WDAYMASK is i mod 7.
   Unbounded in y; the finite index range is in the statement and checked by vm_compute. *)
From Coq Require Import ZArith List Bool Lia ZifyBool.
From V Require Import base.Cal gen.RrTables rr.RRBase.
Import ListNotations.
Ltac Zify.zify_post_hook ::= Z.to_euclidean_division_equations.
Open Scope Z_scope.

(* calendar quantities that depend on the year only through its leapness *)
Definition dbm_l (leap : bool) (m : Z) : Z :=
  (367 * m - 362) / 12 - (if m <=? 2 then 0 else if leap then 1 else 2).
Definition dim_l (leap : bool) (m : Z) : Z :=
  if m =? 2 then (if leap then 29 else 28)
  else if (m =? 4) || (m =? 6) || (m =? 9) || (m =? 11) then 30 else 31.
Definition moy_l (leap : bool) (n : Z) : Z :=
  if n <=? dbm_l leap 2 then 1 else if n <=? dbm_l leap 3 then 2 else
  if n <=? dbm_l leap 4 then 3 else if n <=? dbm_l leap 5 then 4 else
  if n <=? dbm_l leap 6 then 5 else if n <=? dbm_l leap 7 then 6 else
  if n <=? dbm_l leap 8 then 7 else if n <=? dbm_l leap 9 then 8 else
  if n <=? dbm_l leap 10 then 9 else if n <=? dbm_l leap 11 then 10 else
  if n <=? dbm_l leap 12 then 11 else 12.
Definition ylen_l (leap : bool) : Z := if leap then 366 else 365.

Lemma dbm_leap y m : dbm y m = dbm_l (is_leap y) m. Proof. reflexivity. Qed.
Lemma dim_leap y m : dim y m = dim_l (is_leap y) m. Proof. reflexivity. Qed.
Lemma moy_leap y n : month_of_yday y n = moy_l (is_leap y) n. Proof. reflexivity. Qed.
Lemma ylen_leap y : year_len y = ylen_l (is_leap y). Proof. reflexivity. Qed.

Definition tables_of (leap : bool) : list Z * list Z * list Z * list Z :=
  if leap then (T_M366MASK, T_MDAY366MASK, T_NMDAY366MASK, T_M366RANGE)
  else (T_M365MASK, T_MDAY365MASK, T_NMDAY365MASK, T_M365RANGE).

(* (month, day, days in that month) of day index i of a year with the given leapness;
   indices past the year's end are next January *)
Definition cal_of_index (leap : bool) (i : Z) : Z * Z * Z :=
  if i <? ylen_l leap then
    let m := moy_l leap (i + 1) in (m, i + 1 - dbm_l leap m, dim_l leap m)
  else (1, i - ylen_l leap + 1, 31).

Definition index_ok (leap : bool) (i : Z) : bool :=
  let '(mm, mdm, nmdm, _) := tables_of leap in
  let '(m, d, dm) := cal_of_index leap i in
  match nth_error mm (Z.to_nat i), nth_error mdm (Z.to_nat i), nth_error nmdm (Z.to_nat i) with
  | Some a, Some b, Some c => (a =? m) && (b =? d) && (c =? d - dm - 1)
  | _, _, _ => false
  end.

Definition range_ok (leap : bool) (m : Z) : bool :=
  let '(_, _, _, mr) := tables_of leap in
  match nth_error mr (Z.to_nat (m - 1)) with Some a => a =? dbm_l leap m | None => false end.

Definition wday_ok (i : Z) : bool :=
  match nth_error T_WDAYMASK (Z.to_nat i) with Some a => a =? i mod 7 | None => false end.

Lemma forallb_zrange_nat f n : forall a,
  forallb f (zrange_nat a n) = true -> forall i, a <= i < a + Z.of_nat n -> f i = true.
Proof.
  induction n as [|n IH]; intros a H i Hi; [lia|].
  cbn [zrange_nat forallb] in H. apply andb_true_iff in H. destruct H as [H0 H1].
  destruct (Z.eq_dec i a) as [->|Hne]; [exact H0|].
  apply (IH (a + 1) H1). lia.
Qed.

Lemma forallb_zrange f a b :
  forallb f (zrange a b) = true -> forall i, a <= i < b -> f i = true.
Proof. intros H i Hi. apply (forallb_zrange_nat f _ a H). lia. Qed.

Lemma tables_sweep :
  forallb (index_ok true) (zrange 0 373) = true /\ forallb (index_ok false) (zrange 0 372) = true /\
  forallb (range_ok true) (zrange 1 14) = true /\ forallb (range_ok false) (zrange 1 14) = true /\
  forallb wday_ok (zrange 0 385) = true /\ length T_WDAYMASK = 385%nat /\
  length T_M366MASK = 373%nat /\ length T_M365MASK = 372%nat /\
  length T_MDAY366MASK = 373%nat /\ length T_MDAY365MASK = 372%nat /\
  length T_NMDAY366MASK = 373%nat /\ length T_NMDAY365MASK = 372%nat /\
  (T_YEARLY, T_MONTHLY, T_WEEKLY, T_DAILY, T_HOURLY, T_MINUTELY, T_SECONDLY, T_MAXYEAR) =
  (0, 1, 2, 3, 4, 5, 6, 9999).
Proof. vm_compute. repeat split; reflexivity. Qed.

(* the masks rebuild() selects for year y *)
Definition masks_for (y : Z) := tables_of (is_leap y).

Theorem tables_correct : forall y i, 0 <= i < year_len y + 7 ->
  let '(mm, mdm, nmdm, mr) := masks_for y in
  let '(yy, m, d) :=
    if i <? year_len y then (y, month_of_yday y (i + 1), i + 1 - dbm y (month_of_yday y (i + 1)))
    else (y + 1, 1, i - year_len y + 1) in
  nth_error mm (Z.to_nat i) = Some m /\
  nth_error mdm (Z.to_nat i) = Some d /\
  nth_error nmdm (Z.to_nat i) = Some (d - dim yy m - 1).
Proof.
  intros y i Hi. unfold masks_for.
  destruct tables_sweep as (S1 & S0 & _).
  rewrite ylen_leap in *. rewrite moy_leap, dbm_leap.
  assert (K : index_ok (is_leap y) i = true).
  { destruct (is_leap y); [apply (forallb_zrange _ _ _ S1) | apply (forallb_zrange _ _ _ S0)];
      cbn [ylen_l] in Hi; lia. }
  clear S1 S0.
  unfold index_ok, cal_of_index in K.
  destruct (tables_of (is_leap y)) as [[[mm mdm] nmdm] mr].
  destruct (i <? ylen_l (is_leap y)) eqn:E.
  - rewrite dim_leap.
    destruct (nth_error mm (Z.to_nat i)) as [a|]; [|discriminate K].
    destruct (nth_error mdm (Z.to_nat i)) as [b|]; [|discriminate K].
    destruct (nth_error nmdm (Z.to_nat i)) as [c|]; [|discriminate K].
    apply andb_true_iff in K. destruct K as [K K3]. apply andb_true_iff in K. destruct K as [K1 K2].
    apply Z.eqb_eq in K1, K2, K3. subst. auto.
  - change (dim (y + 1) 1) with 31.
    destruct (nth_error mm (Z.to_nat i)) as [a|]; [|discriminate K].
    destruct (nth_error mdm (Z.to_nat i)) as [b|]; [|discriminate K].
    destruct (nth_error nmdm (Z.to_nat i)) as [c|]; [|discriminate K].
    apply andb_true_iff in K. destruct K as [K K3]. apply andb_true_iff in K. destruct K as [K1 K2].
    apply Z.eqb_eq in K1, K2, K3. subst. auto.
Qed.

Theorem ranges_correct : forall y m, 1 <= m <= 13 ->
  let '(_, _, _, mr) := masks_for y in nth_error mr (Z.to_nat (m - 1)) = Some (dbm y m).
Proof.
  intros y m Hm. unfold masks_for. destruct tables_sweep as (_ & _ & R1 & R0 & _).
  rewrite dbm_leap.
  assert (K : range_ok (is_leap y) m = true).
  { destruct (is_leap y); [apply (forallb_zrange _ _ _ R1) | apply (forallb_zrange _ _ _ R0)]; lia. }
  clear R1 R0.
  unfold range_ok in K. destruct (tables_of (is_leap y)) as [[[mm mdm] nmdm] mr].
  destruct (nth_error mr (Z.to_nat (m - 1))); [|discriminate K]. apply Z.eqb_eq in K. subst. reflexivity.
Qed.

Theorem wdaymask_correct : forall i, 0 <= i < 385 ->
  nth_error T_WDAYMASK (Z.to_nat i) = Some (i mod 7).
Proof.
  intros i Hi. destruct tables_sweep as (_ & _ & _ & _ & W & _).
  pose proof (forallb_zrange _ _ _ W i Hi) as K. clear W. unfold wday_ok in K.
  destruct (nth_error T_WDAYMASK (Z.to_nat i)); [|discriminate K]. apply Z.eqb_eq in K. subst. reflexivity.
Qed.

Theorem constants_correct :
  (T_YEARLY, T_MONTHLY, T_WEEKLY, T_DAILY, T_HOURLY, T_MINUTELY, T_SECONDLY, T_MAXYEAR) =
  (YEARLY, MONTHLY, WEEKLY, DAILY, HOURLY, MINUTELY, SECONDLY, 9999).
Proof. destruct tables_sweep as (_ & _ & _ & _ & _ & _ & _ & _ & _ & _ & _ & _ & C). exact C. Qed.

(* non-vacuity: 29 Feb 2000 is index 59 of a leap year *)
Example tables_example : nth_error T_M366MASK 59 = Some 2 /\ nth_error T_MDAY366MASK 59 = Some 29 /\
  nth_error T_NMDAY366MASK 59 = Some (-1).
Proof. vm_compute. auto. Qed.
