(* C01 -- the BYSETPOS selection (rrule.py 857-874: for pos in bysetpos: daypos, timepos = divmod(..);
   try: i = [x for x in dayset[start:end] if x is not None][daypos]; time = timeset[timepos]
   except IndexError: pass; else: ... if res not in poslist: poslist.append(res); poslist.sort())
   is the specification's select_pos: the members of the period's candidate list whose 1-based position,
   or position counted from the end, is listed -- in candidate order, each once. *)
From Coq Require Import ZArith List Bool Lia ZifyBool.
From V Require Import base.Cal rr.RRBase rr.RRNorm rr.RRMasks rr.RRIter rr.RRSpec rr.RRTimesetThm.
Import ListNotations.
Ltac Zify.zify_post_hook ::= Z.to_euclidean_division_equations.
Open Scope Z_scope.

(* ------------------------------------------------------------------ strictly sorted lists of instants *)
Definition ilt (a b : instant) : Prop := fst a < fst b \/ (fst a = fst b /\ snd a < snd b).

Fixpoint isorted (l : list instant) : Prop :=
  match l with [] => True | x :: t => (forall y, In y t -> ilt x y) /\ isorted t end.

Lemma ilt_irrefl a : ~ ilt a a.
Proof. unfold ilt. lia. Qed.
Lemma ilt_asym a b : ilt a b -> ilt b a -> False.
Proof. unfold ilt. lia. Qed.
Lemma ilt_trans a b c : ilt a b -> ilt b c -> ilt a c.
Proof. unfold ilt. lia. Qed.

(* two strictly sorted lists with the same members are equal *)
Lemma isorted_ext : forall l1 l2, isorted l1 -> isorted l2 -> (forall x, In x l1 <-> In x l2) -> l1 = l2.
Proof.
  induction l1 as [|x t1 IH]; intros [|y t2] S1 S2 H.
  - reflexivity.
  - exfalso. apply (proj2 (H y)). left. reflexivity.
  - exfalso. apply (proj1 (H x)). left. reflexivity.
  - destruct S1 as [A1 S1]. destruct S2 as [A2 S2].
    assert (E : x = y).
    { destruct (proj1 (H x) (or_introl eq_refl)) as [E|Hx]; [symmetry; exact E|].
      destruct (proj2 (H y) (or_introl eq_refl)) as [E|Hy]; [exact E|].
      exfalso. apply (ilt_asym x y); [apply A1; exact Hy|apply A2; exact Hx]. }
    subst y. f_equal. apply IH; try assumption. intros z. split; intros Hz.
    + destruct (proj1 (H z) (or_intror Hz)) as [E|Hz']; [|exact Hz'].
      subst z. exfalso. apply (ilt_irrefl x). apply A1. exact Hz.
    + destruct (proj2 (H z) (or_intror Hz)) as [E|Hz']; [|exact Hz'].
      subst z. exfalso. apply (ilt_irrefl x). apply A2. exact Hz.
Qed.

Lemma inst_le_cases x h : x <> h -> (inst_le x h = true -> ilt x h) /\ (inst_le x h = false -> ilt h x).
Proof.
  destruct x as [a b], h as [c d]. intros Hne. unfold inst_le, ilt. cbn [fst snd].
  assert (a <> c \/ b <> d) by (destruct (Z.eq_dec a c); [right; intros ->; subst; apply Hne; reflexivity|left; assumption]).
  split; intros E; lia.
Qed.

Lemma insert_inst_sorted x : forall l, isorted l -> ~ In x l ->
  isorted (insert_inst x l) /\ forall y, In y (insert_inst x l) <-> y = x \/ In y l.
Proof.
  induction l as [|h t IH]; intros S Hn; cbn [insert_inst].
  - split; [split; [intros y []|exact I]|]. intros y. cbn [In]. intuition.
  - destruct S as [A S].
    assert (Hne : x <> h) by (intros ->; apply Hn; left; reflexivity).
    destruct (inst_le_cases x h Hne) as [C1 C2].
    destruct (inst_le x h) eqn:E.
    + split.
      * split; [|split; assumption]. intros y [<-|Hy]; [apply C1; reflexivity|].
        apply (ilt_trans x h y); [apply C1; reflexivity|apply A; exact Hy].
      * intros y. cbn [In]. intuition.
    + destruct (IH S ltac:(intros Hx; apply Hn; right; exact Hx)) as [I1 I2]. split.
      * split; [|exact I1]. intros y Hy. apply I2 in Hy. destruct Hy as [->|Hy]; [apply C2; reflexivity|apply A; exact Hy].
      * intros y. cbn [In]. rewrite I2. intuition.
Qed.

Lemma sort_inst_sorted : forall l, NoDup l ->
  isorted (sort_inst l) /\ forall y, In y (sort_inst l) <-> In y l.
Proof.
  unfold sort_inst. induction l as [|x t IH]; intros ND; cbn [fold_right].
  - split; [exact I|]. intros y. reflexivity.
  - inversion ND as [|? ? Hx ND']; subst. destruct (IH ND') as [S M].
    destruct (insert_inst_sorted x _ S ltac:(rewrite M; exact Hx)) as [S' M']. split; [exact S'|].
    intros y. rewrite M', M. cbn [In]. intuition.
Qed.

(* ------------------------------------------------------------------ the candidate list as blocks *)
Section Setpos.
Variables (yo : Z) (ts : list Z).
Let blk (i : Z) : list instant := map (fun t => (yo + i, t)) ts.
Definition cand_list (P : list Z) : list instant := flat_map (fun i => map (fun t => (yo + i, t)) ts) P.

Lemma cand_cons i P : cand_list (i :: P) = map (fun t => (yo + i, t)) ts ++ cand_list P.
Proof. reflexivity. Qed.

Lemma cand_length : forall P, length (cand_list P) = (length P * length ts)%nat.
Proof.
  induction P as [|i t IH]; [reflexivity|].
  rewrite cand_cons, app_length, map_length. cbn [length]. unfold instant in *. lia.
Qed.

Lemma nth_blocks : forall P a b i t, nth_error P a = Some i -> nth_error ts b = Some t ->
  nth_error (cand_list P) (a * length ts + b) = Some (yo + i, t).
Proof.
  induction P as [|h P' IH]; intros a b i t Ha Hb; [destruct a; discriminate Ha|].
  rewrite cand_cons.
  assert (Lb : (b < length ts)%nat) by (apply nth_error_Some; rewrite Hb; discriminate).
  destruct a as [|a'].
  - cbn [nth_error] in Ha. injection Ha as ->. cbn [Nat.mul Nat.add].
    rewrite nth_error_app1 by (rewrite map_length; exact Lb).
    apply map_nth_error. exact Hb.
  - cbn [nth_error] in Ha.
    rewrite nth_error_app2 by (rewrite map_length; lia).
    rewrite map_length. replace (S a' * length ts + b - length ts)%nat with (a' * length ts + b)%nat by lia.
    apply IH; assumption.
Qed.

(* strictly increasing day indices and times give a strictly sorted candidate list *)
Lemma ssorted_forall x l : forallb (Z.ltb x) l = true -> forall y, In y l -> x < y.
Proof. intros F y Hy. rewrite forallb_forall in F. specialize (F y Hy). lia. Qed.

Lemma blk_sorted : forall l i, ssorted l = true -> isorted (map (fun t => (yo + i, t)) l).
Proof.
  induction l as [|t l' IH]; intros i S; cbn [map isorted]; [exact I|].
  cbn [ssorted] in S. apply andb_true_iff in S. destruct S as [S1 S2]. split; [|apply IH; exact S2].
  intros y Hy. apply in_map_iff in Hy. destruct Hy as (t' & <- & Ht'). right. cbn [fst snd].
  split; [reflexivity|]. apply (ssorted_forall t l' S1 t' Ht').
Qed.

Lemma isorted_app : forall a b, isorted a -> isorted b -> (forall x y, In x a -> In y b -> ilt x y) ->
  isorted (a ++ b).
Proof.
  induction a as [|h t IH]; intros b Sa Sb H; cbn [app]; [exact Sb|].
  destruct Sa as [A Sa]. split.
  - intros y Hy. apply in_app_or in Hy. destruct Hy as [Hy|Hy]; [apply A; exact Hy|].
    apply H; [left; reflexivity|exact Hy].
  - apply IH; try assumption. intros x y Hx Hy. apply H; [right; exact Hx|exact Hy].
Qed.

Lemma cand_sorted : forall P, ssorted P = true -> ssorted ts = true -> isorted (cand_list P).
Proof.
  induction P as [|i P' IH]; intros SP ST; [exact I|]. rewrite cand_cons.
  cbn [ssorted] in SP. apply andb_true_iff in SP. destruct SP as [S1 S2].
  apply isorted_app; [apply blk_sorted; exact ST|apply IH; assumption|].
  intros x y Hx Hy. apply in_map_iff in Hx. destruct Hx as (t & <- & _).
  unfold cand_list in Hy. apply in_flat_map in Hy. destruct Hy as (i' & Hi' & Hy).
  apply in_map_iff in Hy. destruct Hy as (t' & <- & _). left. cbn [fst].
  pose proof (ssorted_forall i P' S1 i' Hi'). lia.
Qed.

(* ------------------------------------------------------------------ one position *)
(* 0-based index into the candidate list that position p denotes *)
Definition sel_idx (N p : Z) : Z := if p <? 0 then N + p else p - 1.

Lemma pos_lookup : forall P pos, (0 < length ts)%nat -> pos <> 0 ->
  let n := zlen ts in let N := zlen (cand_list P) in
  let idx := sel_idx N pos in
  let '(daypos, timepos) := if pos <? 0 then (pos / n, pos mod n) else ((pos - 1) / n, (pos - 1) mod n) in
  (0 <= idx < N -> exists i t, py_nth P daypos = Ok i /\ py_nth ts timepos = Ok t /\
                               nth_error (cand_list P) (Z.to_nat idx) = Some (yo + i, t)) /\
  (~ 0 <= idx < N -> exists e, py_nth P daypos = Err e).
Proof.
  intros P pos Hts Hpos n N idx.
  assert (Hn : 0 < n) by (unfold n, zlen; lia).
  assert (EN : N = zlen P * n) by (unfold N, n, zlen; rewrite cand_length; lia).
  set (q := zlen P) in *.
  (* the wrapped day index and the time index *)
  assert (KEY : forall daypos timepos,
            (if daypos <? 0 then daypos + q else daypos) = idx / n -> timepos = idx mod n ->
            (0 <= idx < N -> exists i t, py_nth P daypos = Ok i /\ py_nth ts timepos = Ok t /\
                               nth_error (cand_list P) (Z.to_nat idx) = Some (yo + i, t)) /\
            (~ 0 <= idx < N -> exists e, py_nth P daypos = Err e)).
  { intros daypos timepos Ed Et. unfold py_nth at 1 3. fold q. rewrite Ed. split.
    - intros Hi.
      assert (Hj : 0 <= idx / n < q).
      { split; [apply Z.div_pos; lia|apply Z.div_lt_upper_bound; lia]. }
      assert (Hb : 0 <= idx mod n < n) by (apply Z.mod_pos_bound; exact Hn).
      replace (idx / n <? 0) with false by lia.
      destruct (nth_error P (Z.to_nat (idx / n))) as [i|] eqn:EP.
      2:{ apply nth_error_None in EP. unfold q, zlen in Hj. lia. }
      destruct (nth_error ts (Z.to_nat (idx mod n))) as [t|] eqn:ET.
      2:{ apply nth_error_None in ET. assert (n = Z.of_nat (length ts)) by reflexivity. lia. }
      exists i, t. split; [reflexivity|]. split.
      + unfold py_nth. subst timepos. replace (idx mod n <? 0) with false by lia.
        replace (idx mod n <? 0) with false by lia. rewrite ET. reflexivity.
      + rewrite <- (nth_blocks P _ _ i t EP ET). f_equal.
        apply Nat2Z.inj. rewrite Nat2Z.inj_add, Nat2Z.inj_mul, !Z2Nat.id by lia.
        fold (zlen ts). fold n. rewrite (Z.div_mod idx n) at 1 by lia. ring.
    - intros Hi.
      destruct (idx / n <? 0) eqn:EJ; [exists EIndex; reflexivity|].
      assert (Hq : q <= idx / n).
      { assert (0 <= idx).
        { destruct (Z_lt_ge_dec idx 0) as [Hlt|Hge]; [|lia].
          assert (idx / n < 0) by (apply Z.div_lt_upper_bound; lia). lia. }
        apply Z.div_le_lower_bound; lia. }
      destruct (nth_error P (Z.to_nat (idx / n))) as [i|] eqn:EP; [|exists EIndex; reflexivity].
      assert (Z.to_nat (idx / n) < length P)%nat by (apply nth_error_Some; rewrite EP; discriminate).
      unfold q, zlen in Hq. lia. }
  destruct (pos <? 0) eqn:Eneg.
  - apply KEY.
    + replace (pos / n <? 0) with true
        by (symmetry; apply Z.ltb_lt; apply Z.div_lt_upper_bound; lia).
      unfold idx, sel_idx. rewrite Eneg, EN. rewrite Z.add_comm. rewrite Z.add_comm, Z_div_plus_full_l by lia.
      lia.
    + unfold idx, sel_idx. rewrite Eneg, EN. rewrite Z.add_comm, Z_mod_plus_full. reflexivity.
  - apply KEY.
    + assert (0 <= (pos - 1) / n) by (apply Z.div_pos; lia).
      replace ((pos - 1) / n <? 0) with false by lia. unfold idx, sel_idx. rewrite Eneg. reflexivity.
    + unfold idx, sel_idx. rewrite Eneg. reflexivity.
Qed.
End Setpos.

(* ------------------------------------------------------------------ the poslist loop *)
Lemma mem_inst_In x l : mem_inst x l = true <-> In x l.
Proof.
  unfold mem_inst. rewrite existsb_exists. split.
  - intros (y & Hy & E). unfold inst_eq in E. destruct x, y. cbn [fst snd] in E.
    assert (z = z1 /\ z0 = z2) as [-> ->] by lia. exact Hy.
  - intros H. exists x. split; [exact H|]. unfold inst_eq. lia.
Qed.

Lemma NoDup_snoc {A} (l : list A) x : NoDup l -> ~ In x l -> NoDup (l ++ [x]).
Proof.
  induction l as [|h t IH]; intros ND Hx; cbn [app].
  - constructor; [intros []|constructor].
  - inversion ND as [|? ? Hh ND']; subst. constructor.
    + intros Hin. apply in_app_or in Hin. destruct Hin as [Hin|[<-|[]]]; [exact (Hh Hin)|].
      apply Hx. left. reflexivity.
    + apply IH; [exact ND'|]. intros Hin. apply Hx. right. exact Hin.
Qed.

Theorem poslist_build_spec : forall yo ts P, (0 < length ts)%nat ->
  (forall i, In i P -> from_ordinal (yo + i) = Ok (yo + i)) ->
  let C := cand_list yo ts P in let N := zlen C in
  forall poss acc, forallb (fun p => negb (p =? 0)) poss = true -> NoDup acc ->
  exists pl, poslist_build yo P ts poss acc = Ok pl /\ NoDup pl /\
    forall x, In x pl <-> In x acc \/
      exists p, In p poss /\ 0 <= sel_idx N p < N /\ nth_error C (Z.to_nat (sel_idx N p)) = Some x.
Proof.
  intros yo ts P Hts Hfo C N. induction poss as [|pos t IH]; intros acc Hnz ND.
  - exists acc. split; [reflexivity|]. split; [exact ND|]. intros x. split; [auto|].
    intros [H|(p & [] & _)]. exact H.
  - cbn [forallb] in Hnz. apply andb_true_iff in Hnz. destruct Hnz as [Hp Hnz].
    assert (Hpos : pos <> 0) by lia.
    pose proof (pos_lookup yo ts P pos Hts Hpos) as PL. cbv zeta in PL. fold C N in PL.
    cbn [poslist_build].
    destruct (if pos <? 0 then (pos / zlen ts, pos mod zlen ts)
              else ((pos - 1) / zlen ts, (pos - 1) mod zlen ts)) as [daypos timepos].
    destruct PL as [PL1 PL2].
    destruct (Z_le_dec 0 (sel_idx N pos)) as [H0|H0]; [destruct (Z_lt_dec (sel_idx N pos) N) as [H1|H1]|].
    + destruct (PL1 ltac:(lia)) as (i & tm & E1 & E2 & E3). rewrite E1, E2.
      assert (Hi : In i P).
      { unfold py_nth in E1. destruct (_ <? 0); [discriminate|].
        destruct (nth_error P _) eqn:EN; [|discriminate]. injection E1 as <-. apply (nth_error_In _ _ EN). }
      rewrite (Hfo i Hi). cbn [bind].
      set (x0 := (yo + i, tm)) in *.
      assert (ND' : NoDup (if mem_inst x0 acc then acc else acc ++ [x0])).
      { destruct (mem_inst x0 acc) eqn:EM; [exact ND|]. apply NoDup_snoc; [exact ND|].
        intros Hin. apply mem_inst_In in Hin. rewrite Hin in EM. discriminate. }
      destruct (IH _ Hnz ND') as (pl & E & NDp & M). exists pl. split; [exact E|]. split; [exact NDp|].
      intros x. rewrite M. split.
      * intros [Hx|(p & Hp' & R & Hn)].
        -- destruct (mem_inst x0 acc) eqn:EM; [left; exact Hx|].
           apply in_app_or in Hx. destruct Hx as [Hx|[<-|[]]]; [left; exact Hx|].
           right. exists pos. split; [left; reflexivity|]. split; [lia|exact E3].
        -- right. exists p. split; [right; exact Hp'|]. split; assumption.
      * intros [Hx|(p & [<-|Hp'] & R & Hn)].
        -- left. destruct (mem_inst x0 acc); [exact Hx|apply in_or_app; left; exact Hx].
        -- left. rewrite E3 in Hn. injection Hn as <-.
           destruct (mem_inst x0 acc) eqn:EM; [apply mem_inst_In; exact EM|apply in_or_app; right; left; reflexivity].
        -- right. exists p. split; [exact Hp'|]. split; assumption.
    + destruct (PL2 ltac:(lia)) as (e & E1). rewrite E1.
      destruct (IH _ Hnz ND) as (pl & E & NDp & M). exists pl. split; [exact E|]. split; [exact NDp|].
      intros x. rewrite M. split.
      * intros [Hx|(p & Hp' & R & Hn)]; [left; exact Hx|]. right. exists p. split; [right; exact Hp'|]. split; assumption.
      * intros [Hx|(p & [<-|Hp'] & R & Hn)]; [left; exact Hx|lia|]. right. exists p. split; [exact Hp'|]. split; assumption.
    + destruct (PL2 ltac:(lia)) as (e & E1). rewrite E1.
      destruct (IH _ Hnz ND) as (pl & E & NDp & M). exists pl. split; [exact E|]. split; [exact NDp|].
      intros x. rewrite M. split.
      * intros [Hx|(p & Hp' & R & Hn)]; [left; exact Hx|]. right. exists p. split; [right; exact Hp'|]. split; assumption.
      * intros [Hx|(p & [<-|Hp'] & R & Hn)]; [left; exact Hx|lia|]. right. exists p. split; [exact Hp'|]. split; assumption.
Qed.

(* ------------------------------------------------------------------ the specification's selection *)
Lemma existsb_ext_sp {A} (f g : A -> bool) l : (forall x, f x = g x) -> existsb f l = existsb g l.
Proof. intros H. induction l as [|x t IH]; cbn [existsb]; [reflexivity|]. rewrite H, IH. reflexivity. Qed.

Lemma select_pos_aux_In poss N : forall c i x,
  In x (select_pos_aux poss N i c) <->
  exists k, nth_error c k = Some x /\
            existsb (fun p => (p =? i + Z.of_nat k + 1) || (p =? i + Z.of_nat k - N)) poss = true.
Proof.
  induction c as [|h t IH]; intros i x; cbn [select_pos_aux].
  - split; [intros []|]. intros (k & Hk & _). destruct k; discriminate Hk.
  - rewrite in_app_iff, IH. split.
    + intros [Hx|(k & Hk & Hp)].
      * destruct (existsb _ poss) eqn:EX; [|destruct Hx]. destruct Hx as [<-|[]].
        exists 0%nat. split; [reflexivity|]. rewrite <- EX. f_equal.
        (* same predicate *)
        replace (i + Z.of_nat 0) with i by lia. reflexivity.
      * exists (S k). split; [exact Hk|]. rewrite <- Hp. apply existsb_ext_sp. intros p.
        replace (i + Z.of_nat (S k)) with (i + 1 + Z.of_nat k) by lia. reflexivity.
    + intros (k & Hk & Hp). destruct k as [|k].
      * left. cbn [nth_error] in Hk. injection Hk as <-.
        replace (i + Z.of_nat 0) with i in Hp by lia. rewrite Hp. left. reflexivity.
      * right. exists k. split; [exact Hk|]. rewrite <- Hp. apply existsb_ext_sp. intros p.
        replace (i + Z.of_nat (S k)) with (i + 1 + Z.of_nat k) by lia. reflexivity.
Qed.

Lemma select_pos_aux_sub poss N : forall c i x, In x (select_pos_aux poss N i c) -> In x c.
Proof.
  intros c i x H. apply select_pos_aux_In in H. destruct H as (k & Hk & _). apply (nth_error_In _ _ Hk).
Qed.

Lemma select_pos_aux_sorted poss N : forall c i, isorted c -> isorted (select_pos_aux poss N i c).
Proof.
  induction c as [|h t IH]; intros i S; cbn [select_pos_aux]; [exact I|].
  destruct S as [A S]. specialize (IH (i + 1) S).
  destruct (existsb _ poss); cbn [app]; [|exact IH]. split; [|exact IH].
  intros y Hy. apply A. apply (select_pos_aux_sub poss N t (i + 1) y Hy).
Qed.

(* THE BYSETPOS SELECTION: the sorted, duplicate-free poslist is the specification's selection from
   the period's candidates (day indices P ascending, times ts ascending and non-empty) *)
Theorem poslist_is_select_pos : forall yo ts P poss, (0 < length ts)%nat ->
  ssorted P = true -> ssorted ts = true ->
  (forall i, In i P -> from_ordinal (yo + i) = Ok (yo + i)) ->
  forallb (fun p => negb (p =? 0)) poss = true ->
  let C := cand_list yo ts P in
  exists pl, poslist_build yo P ts poss [] = Ok pl /\
             sort_inst pl = select_pos_aux poss (zlen C) 0 C.
Proof.
  intros yo ts P poss Hts SP ST Hfo Hnz C.
  destruct (poslist_build_spec yo ts P Hts Hfo poss [] Hnz (NoDup_nil _)) as (pl & E & ND & M).
  fold C in M. exists pl. split; [exact E|].
  destruct (sort_inst_sorted pl ND) as [S1 M1].
  pose proof (select_pos_aux_sorted poss (zlen C) C 0 (cand_sorted yo ts P SP ST)) as S2.
  apply isorted_ext; [exact S1|exact S2|]. intros x. rewrite M1, M, select_pos_aux_In. split.
  - intros [[]|(p & Hp & R & Hn)]. exists (Z.to_nat (sel_idx (zlen C) p)). split; [exact Hn|].
    apply existsb_exists. exists p. split; [exact Hp|]. rewrite Z2Nat.id by lia.
    unfold sel_idx in *. destruct (p <? 0) eqn:En; lia.
  - intros (k & Hk & Hp). right. apply existsb_exists in Hp. destruct Hp as (p & Hp & Hq).
    assert (Lk : (k < length C)%nat) by (apply nth_error_Some; rewrite Hk; discriminate).
    assert (Hnzp : p <> 0).
    { rewrite forallb_forall in Hnz. specialize (Hnz p Hp). lia. }
    assert (ES : sel_idx (zlen C) p = Z.of_nat k).
    { unfold sel_idx, zlen in *. destruct (p <? 0) eqn:En; lia. }
    exists p. split; [exact Hp|]. rewrite ES, Nat2Z.id. split; [unfold zlen; lia|exact Hk].
Qed.
