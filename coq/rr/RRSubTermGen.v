(* C01 sub-daily, termination is complete (generic part): whenever the generator stops BY ITSELF --
   COUNT used up, UNTIL passed, year > 9999, or an exception (the ValueError / TypeError of the
   sub-daily advance) -- and not because the model ran out of fuel or reached the caller's limit,
   everything the specification yields, for ANY limit and day count, is a prefix of what has been
   yielded: nothing is lost at the end, no exception is raised while the specification still has
   an instant to give.  Same hypotheses as RRSubCloseGen2 (which this file follows); `run_gate_t`
   is run_gate_c with the stop reason recorded.  Written by the rset builder (new file). *)
From Coq Require Import ZArith List Bool Lia ZifyBool.
From V Require Import base.Cal gen.RrTables easter.EasterSpec rr.RRBase rr.RRNorm rr.RRMasks rr.RRIter
  rr.RRSpec rr.RRGateThm rr.RRYearlyUntilThm rr.RRSubSpec rr.RRSubPass rr.RRSubRunBase rr.RRSubClose
  rr.RRSubCloseGen rr.RRSubCloseGen2.
Import ListNotations.
Open Scope Z_scope.

Section Generic3.
Variables (r : raw) (rl : rule).
Hypothesis Hstart : dtstart_inst rl = sp_start r.
Hypothesis Huntil : until rl = r_until r.
Hypothesis Hsub : is_coarse r = false.
Hypothesis Hi : 1 <= r_interval r.
Hypothesis Hsod : 0 <= sp_sod0 r <= 86399.

Variable DenA : state -> Z -> Prop.
Variable filt : Z -> bool.
Hypothesis A_pass : forall s k, DenA s k ->
  step rl s = after_gate rl s (filt k) (gate_list rl (period_cands r k) (c_count s) (c_out s)).
Hypothesis A_next : forall s k cnt out s', DenA s k -> advance rl s (filt k) cnt out = Ok (AdvGo s') ->
  exists k', k < k' /\ DenA s' k' /\ (forall j, k < j < k' -> period_cands r j = []) /\
             c_count s' = cnt /\ c_out s' = out.
Hypothesis A_day : forall s k, DenA s k -> 0 <= k /\ period_start r k / 86400 <= max_ord.
Hypothesis A_init : forall s0, init_state rl = Ok s0 -> DenA s0 0 /\ c_count s0 = r_count r /\ c_out s0 = [].

(* the advance does not hand back a state: the enumeration is over *)
Local Notation dead_after := (dead_after r).
Hypothesis A_stop : forall s k cnt out, DenA s k ->
  match advance rl s (filt k) cnt out with
  | Ok (AdvGo _) => True
  | Ok AdvFuel => False
  | Ok AdvMax => dead_after k
  | Err _ => dead_after k
  end.
(* the constructor's rebuild succeeds (otherwise `iterate` yields nothing at all) *)
Hypothesis A_init_ok : exists s0, init_state rl = Ok s0.

Lemma run_gate_t : forall limit n s k, DenA s k ->
  exists k_end cnt' st, k <= k_end /\
    gate_list rl (flat_map (period_cands r) (zrange k k_end)) (c_count s) (c_out s) =
      (fst (run rl limit n s), cnt', st) /\
    (snd (run rl limit n s) = TOutOfFuel \/ snd (run rl limit n s) = TLimit \/ st <> None \/ dead_after (k_end - 1)).
Proof.
  intros limit. induction n as [|n IH]; intros s k HD.
  - exists k, (c_count s), None. split; [lia|]. rewrite zrange_empty. split; [reflexivity|left; reflexivity].
  - cbn [run]. destruct (Z.leb_spec limit (zlen (c_out s))) as [Hl|Hl].
    + exists k, (c_count s), None. split; [lia|]. rewrite zrange_empty. split; [reflexivity|]. right. left. reflexivity.
    + rewrite (A_pass s k HD). unfold after_gate.
      destruct (gate_list rl (period_cands r k) (c_count s) (c_out s)) as [[out1 cnt1] stop] eqn:Eg.
      assert (Hone : gate_list rl (flat_map (period_cands r) (zrange k (k + 1))) (c_count s) (c_out s)
                     = (out1, cnt1, stop)).
      { rewrite zrange_single. cbn [flat_map]. rewrite app_nil_r. exact Eg. }
      destruct stop as [t|].
      * exists (k + 1), cnt1, (Some t). split; [lia|]. split; [exact Hone|]. right. right. left. discriminate.
      * pose proof (A_stop s k cnt1 out1 HD) as ST.
        destruct (advance rl s (filt k) cnt1 out1) as [[| |s']|e] eqn:Ea.
        -- exists (k + 1), cnt1, None. split; [lia|]. split; [exact Hone|]. right. right. right.
           replace (k + 1 - 1) with k by ring. exact ST.
        -- destruct ST.
        -- destruct (A_next s k cnt1 out1 s' HD Ea) as (k' & Hkk & HD' & Hskip & Ec & Eo).
           destruct (IH s' k' HD') as (k_end & cnt' & st & Hke & Hg & Hb).
           exists k_end, cnt', st. split; [lia|]. split.
           ++ rewrite (periods_skip r k k' k_end ltac:(lia) Hskip), gate_list_app', Eg.
              rewrite <- Ec, <- Eo. exact Hg.
           ++ exact Hb.
        -- exists (k + 1), cnt1, None. split; [lia|]. split; [exact Hone|]. right. right. right.
           replace (k + 1 - 1) with k by ring. exact ST.
Qed.

(* a period before the end of day J's block starts on day J or earlier *)
Lemma period_in_block_t : forall k J, 0 <= J -> k < kend r J -> period_start r k / 86400 <= sp_ord0 r + J.
Proof.
  intros k J HJ Hk. unfold kend in Hk. pose proof (stp_pos r Hi) as S. pose proof (t0_bounds r Hsod) as B.
  set (x := (sp_ord0 r + J) * 86400 + 86399 - sub_t0 r) in *.
  assert (Hx : 0 <= x) by (unfold x; nia).
  pose proof (Z.div_mod x (r_interval r * unit_secs r) ltac:(lia)) as D.
  pose proof (Z.mod_pos_bound x (r_interval r * unit_secs r) ltac:(lia)) as M.
  assert (Hle : k * (r_interval r * unit_secs r) <= x) by nia.
  assert (period_start r k / 86400 < sp_ord0 r + J + 1); [|lia].
  apply Z.div_lt_upper_bound; [lia|]. unfold period_start, sub_stp. unfold x in Hle. nia.
Qed.

Lemma sp_take_len_t : forall xs cnt, (length (fst (fst (sp_take r xs cnt []))) <= length xs)%nat.
Proof.
  intros xs cnt. destruct (sp_take_extends r xs cnt []) as [more [E L]]. rewrite E, app_nil_r. exact L.
Qed.

Lemma flat_len_mono_t : forall a b, 0 <= a <= b ->
  (length (flat_map (period_cands r) (zrange 0 a)) <= length (flat_map (period_cands r) (zrange 0 b)))%nat.
Proof.
  intros a b H. rewrite (zrange_split 0 a b) by lia. rewrite flat_map_app, app_length. lia.
Qed.

Theorem self_stop_is_end : forall limit n,
  snd (iterate rl limit n) <> TOutOfFuel -> snd (iterate rl limit n) <> TLimit ->
  forall L d, exists rest, fst (iterate rl limit n) = fst (spec_iter r L d) ++ rest.
Proof.
  intros limit n NF NL L d.
  destruct (spec_loop_some_days r Hsub L d 0 (r_count r) []) as (d1 & Hd1 & Hb1 & ES).
  set (K := kstart r (Z.of_nat d1)).
  assert (HK0 : 0 <= K) by (unfold K, kstart; lia).
  assert (ESP : fst (spec_iter r L d) =
                rev (fst (fst (sp_take r (filter (inst_le (sp_start r)) (flat_map (period_cands r) (zrange 0 K))) (r_count r) [])))).
  { unfold spec_iter. destruct (spec_loop r L d 0 (r_count r) []) as [acc t]. cbn [fst] in *.
    rewrite ES, (days_are_periods r Hi Hsod d1). reflexivity. }
  set (SP := filter (inst_le (sp_start r)) (flat_map (period_cands r) (zrange 0 K))) in *.
  rewrite ESP.
  destruct A_init_ok as [s0 Ei]. unfold iterate in NF, NL |- *. rewrite Ei in NF, NL |- *.
  destruct (A_init s0 Ei) as (HD & Ec & Eo).
  destruct (run_gate_t limit n s0 0 HD) as (k_end & cnt' & st & Hk & Hg & Hb).
  rewrite Ec, Eo in Hg.
  pose proof (gate_take_gen rl r Hstart Huntil (flat_map (period_cands r) (zrange 0 k_end)) (r_count r) []) as GT.
  rewrite Hg in GT.
  set (M := filter (inst_le (sp_start r)) (flat_map (period_cands r) (zrange 0 k_end))) in *.
  assert (Hout : fst (let '(out, t) := run rl limit n s0 in (rev out, t)) = rev (fst (run rl limit n s0)))
    by (destruct (run rl limit n s0); reflexivity).
  assert (Hterm : snd (let '(out, t) := run rl limit n s0 in (rev out, t)) = snd (run rl limit n s0))
    by (destruct (run rl limit n s0); reflexivity).
  rewrite Hterm in NF, NL. rewrite Hout. clear Hout Hterm.
  destruct (sp_take r M (r_count r) []) as [[a1 c1'] b1] eqn:ETM.
  destruct GT as (EM & GT2 & GT3).
  (* when the model got at least as far as the specification *)
  assert (Hfar : K <= k_end -> exists rest, rev (fst (run rl limit n s0)) =
                                     rev (fst (fst (sp_take r SP (r_count r) []))) ++ rest).
  { intros HKe. unfold M in ETM. rewrite (zrange_split 0 K k_end) in ETM by lia.
    rewrite flat_map_app, filter_app in ETM. fold SP in ETM.
    destruct (sp_take_prefix r SP (filter (inst_le (sp_start r)) (flat_map (period_cands r) (zrange K k_end))) (r_count r) [])
      as [more Em].
    rewrite ETM in Em. cbn [fst] in Em. exists (rev more). rewrite EM, Em, rev_app_distr. reflexivity. }
  destruct (Z_le_gt_dec K k_end) as [HKe|HKe]; [exact (Hfar HKe)|].
  (* the model stopped before: the rest of the specification's list adds nothing *)
  assert (Esplit : SP = M ++ filter (inst_le (sp_start r)) (flat_map (period_cands r) (zrange k_end K))).
  { unfold SP, M. rewrite (zrange_split 0 k_end K) by lia. rewrite flat_map_app, filter_app. reflexivity. }
  assert (Hsame : fst (fst (sp_take r SP (r_count r) [])) = a1 -> exists rest,
            rev (fst (run rl limit n s0)) = rev (fst (fst (sp_take r SP (r_count r) []))) ++ rest).
  { intros E. exists []. rewrite E, EM, app_nil_r. reflexivity. }
  destruct Hb as [Hb|[Hb|[Hb|Hb]]].
  - contradiction.
  - contradiction.
  - (* the gate stopped: so did sp_take, or UNTIL lies before the start *)
    apply Hsame. destruct (GT3 Hb) as [Eb|UL].
    + subst b1. rewrite Esplit, sp_take_app, ETM. reflexivity.
    + rewrite (sp_take_all_after r SP (r_count r) []).
      * symmetry. pose proof (sp_take_all_after r M (r_count r) []) as Q. rewrite ETM in Q. cbn [fst] in Q. apply Q.
        intros y Hy. apply filter_In in Hy. apply UL. apply Hy.
      * intros y Hy. apply filter_In in Hy. apply UL. apply Hy.
  - (* nothing after k_end - 1 within the specification's days *)
    apply Hsame. rewrite Esplit.
    assert (Hnil : flat_map (period_cands r) (zrange k_end K) = []).
    { apply flat_map_nil_in. intros j Hj. apply in_zrange in Hj.
      destruct (Hb j ltac:(lia)) as [E|Hbeyond]; [exact E|]. exfalso.
      destruct d1 as [|d1']; [unfold K in Hj; cbn [Z.of_nat] in Hj; rewrite (kstart_0 r Hi Hsod) in Hj; lia|].
      destruct Hb1 as [Hb1|Hb1]; [discriminate|].
      assert (Hjk : j < kend r (Z.of_nat d1')).
      { unfold K in Hj. replace (Z.of_nat (S d1')) with (Z.of_nat d1' + 1) in Hj by lia.
        rewrite (kstart_succ r Hi Hsod) in Hj by lia. lia. }
      pose proof (period_in_block_t j (Z.of_nat d1') ltac:(lia) Hjk). lia. }
    rewrite Hnil. cbn [filter]. rewrite app_nil_r, ETM. reflexivity.
Qed.

End Generic3.
