(* C01 -- once COUNT is used up nothing more is yielded, whatever the rule and the frequency: from a
   state whose remaining count is <= 0 the generator's loop never adds an instant (it may scan on,
   stop at the next candidate, hit MAXYEAR or raise -- the yielded list stays the same). *)
From Coq Require Import ZArith List Bool Lia ZifyBool.
From V Require Import base.Cal gen.RrTables rr.RRBase rr.RRNorm rr.RRMasks rr.RRIter rr.RRIterThm.
Import ListNotations.
Open Scope Z_scope.

Section Dead.
Variable rl : rule.

Lemma gate_list_dead xs : forall c out, c <= 0 ->
  exists c' st, gate_list rl xs (Some c) out = (out, Some c', st) /\ c' <= 0.
Proof.
  induction xs as [|x t IH]; intros c out Hc; cbn [gate_list].
  - exists c, None. split; [reflexivity|exact Hc].
  - unfold gate_one. destruct (after_until rl x).
    + exists c, (Some TUntil). split; [reflexivity|exact Hc].
    + destruct (inst_le (dtstart_inst rl) x).
      * replace (c - 1 <? 0) with true by lia. exists (c - 1), (Some TCount). split; [reflexivity|lia].
      * apply IH. exact Hc.
Qed.

Lemma out_days_dead yo ts sl : forall c out, c <= 0 ->
  exists c' st, out_days rl yo sl ts (Some c) out = (out, Some c', st) /\ c' <= 0.
Proof.
  induction sl as [|d t IH]; intros c out Hc; cbn [out_days].
  - exists c, None. split; [reflexivity|exact Hc].
  - destruct d as [i|]; [|apply IH; exact Hc].
    destruct (from_ordinal (yo + i)) as [o|e].
    + destruct (gate_list_dead (map (fun s => (o, s)) ts) c out Hc) as (c1 & st1 & E1 & H1). rewrite E1.
      destruct st1 as [tm|]; [exists c1, (Some tm); split; [reflexivity|exact H1]|].
      apply IH. exact H1.
    + exists c, (Some (TRaised e)). split; [reflexivity|exact Hc].
Qed.

Definition dead (s : state) : Prop := exists c, c_count s = Some c /\ c <= 0.

Lemma step_dead s : dead s ->
  match step rl s with
  | inl s' => c_out s' = c_out s /\ dead s'
  | inr (out, _) => out = c_out s
  end.
Proof.
  intros (c & Ec & Hc). unfold step.
  destruct (bind (getdayset rl (c_ii s) (c_year s) (c_month s) (c_day s)) _) as [[[[ds st] en] filtered]|e];
    [|reflexivity].
  set (sl := py_slice ds st en).
  set (ph := if truthy (bysetpos rl) && nonempty (c_timeset s)
     then match poslist_build (yearordinal (c_ii s)) (somes sl) (c_timeset s) (opt_list (bysetpos rl)) [] with
          | Err e => (c_out s, c_count s, Some (TRaised e))
          | Ok pl => gate_list rl (sort_inst pl) (c_count s) (c_out s)
          end
     else out_days rl (yearordinal (c_ii s)) sl (c_timeset s) (c_count s) (c_out s)).
  assert (K : exists c' st', ph = (c_out s, Some c', st') /\ c' <= 0).
  { unfold ph. rewrite Ec. destruct (truthy (bysetpos rl) && nonempty (c_timeset s)).
    - destruct (poslist_build _ _ _ _ _).
      + apply gate_list_dead. exact Hc.
      + exists c, (Some (TRaised e)). split; [reflexivity|exact Hc].
    - apply out_days_dead. exact Hc. }
  destruct K as (c' & st' & Eph & Hc'). rewrite Eph.
  destruct st' as [t|]; [reflexivity|].
  destruct (advance rl s filtered (Some c') (c_out s)) as [[| |s']|e] eqn:EA; try reflexivity.
  destruct (advance_out rl s filtered (Some c') (c_out s) s' EA) as [E2 E3].
  split; [exact E2|]. exists c'. split; [exact E3|exact Hc'].
Qed.

Theorem run_dead limit n : forall s, dead s -> fst (run rl limit n s) = c_out s.
Proof.
  induction n as [|n IH]; intros s D; cbn [run]; [reflexivity|].
  destruct (limit <=? zlen (c_out s)); [reflexivity|].
  pose proof (step_dead s D) as S. destruct (step rl s) as [s'|[out t]].
  - destruct S as [E D']. rewrite (IH s' D'). exact E.
  - cbn [fst]. exact S.
Qed.
End Dead.
