(* C01 layer 6, sub-daily: the MINUTELY and SECONDLY advance branches at the level of the
   iterator state, through finish_advance (the day carry is normalised by the fixday loop):
   the new state's date is the old date plus the day carry computed by the core, its time fields
   and time set are those of the core.  (HOURLY: RRSubHourTop.advance_hourly_state.)
   Written by the rset builder (new file). *)
From Coq Require Import ZArith List Bool Lia ZifyBool Znumtheory.
From V Require Import base.Cal gen.RrTables rr.RRBase rr.RRNorm rr.RRMasks rr.RRIter
  rr.RRSubdailyThm rr.RRAdvanceThm rr.RRSubNorm rr.RRSubHour rr.RRSubSpec rr.RRSubHourTop
  rr.RRSubLoop rr.RRSubMin rr.RRSubSec.
Import ListNotations.
Open Scope Z_scope.

Theorem advance_minutely_state : forall rl s filtered cnt out s',
  freq rl = MINUTELY -> advance rl s filtered cnt out = Ok (AdvGo s') ->
  1 <= c_month s <= 12 -> 1 <= c_day s <= Cal.dim (c_year s) (c_month s) ->
  0 <= c_hour s < 24 -> 0 <= c_minute s < 60 -> 1 <= interval rl ->
  exists mi' hh' dd' fx',
    minutely_core rl filtered (c_hour s) (c_minute s) (c_day s) = Ok (mi', hh', dd', fx') /\
    ord_of_ymd (c_year s') (c_month s') (c_day s') =
      ord_of_ymd (c_year s) (c_month s) (c_day s) + (dd' - c_day s) /\
    1 <= c_month s' <= 12 /\ 1 <= c_day s' <= Cal.dim (c_year s') (c_month s') /\
    c_hour s' = hh' /\ c_minute s' = mi' /\ c_second s' = c_second s /\
    gettimeset rl hh' mi' (c_second s) = Ok (c_timeset s') /\
    c_count s' = cnt /\ c_out s' = out.
Proof.
  intros rl s filtered cnt out s' Hf H Hm Hd Hh Hmi Hi.
  rewrite (advance_minutely_unfold rl s filtered cnt out Hf) in H.
  pose proof (minutely_core_spec rl filtered (c_hour s) (c_minute s) (c_day s) Hi Hh Hmi) as S. cbv zeta in S.
  destruct (minutely_core rl filtered (c_hour s) (c_minute s) (c_day s)) as [[[[mi' hh'] dd'] fx']|e]; [|discriminate].
  destruct S as (j & _ & _ & _ & _ & Rd & Rf & _).
  exists mi', hh', dd', fx'. split; [reflexivity|].
  destruct (gettimeset rl hh' mi' (c_second s)) as [ts'|e] eqn:Et; cbn [bind] in H; [|discriminate].
  destruct (finish_advance_state _ _ _ _ _ _ _ _ _ _ _ _ _ _ _ H Hm ltac:(lia)
              ltac:(intro E; rewrite (Rf E); lia))
    as (V & M & D & A1 & A2 & A3 & _ & A5 & A6 & A7).
  rewrite V. unfold vord, ord_of_ymd. subst. repeat split; auto; lia.
Qed.

Theorem advance_secondly_state : forall rl s filtered cnt out s',
  freq rl = SECONDLY -> advance rl s filtered cnt out = Ok (AdvGo s') ->
  1 <= c_month s <= 12 -> 1 <= c_day s <= Cal.dim (c_year s) (c_month s) ->
  0 <= c_hour s < 24 -> 0 <= c_minute s < 60 -> 0 <= c_second s < 60 -> 1 <= interval rl ->
  exists se' mi' hh' dd' fx',
    secondly_core rl filtered (c_hour s) (c_minute s) (c_second s) (c_day s) = Ok (se', mi', hh', dd', fx') /\
    ord_of_ymd (c_year s') (c_month s') (c_day s') =
      ord_of_ymd (c_year s) (c_month s) (c_day s) + (dd' - c_day s) /\
    1 <= c_month s' <= 12 /\ 1 <= c_day s' <= Cal.dim (c_year s') (c_month s') /\
    c_hour s' = hh' /\ c_minute s' = mi' /\ c_second s' = se' /\
    gettimeset rl hh' mi' se' = Ok (c_timeset s') /\
    c_count s' = cnt /\ c_out s' = out.
Proof.
  intros rl s filtered cnt out s' Hf H Hm Hd Hh Hmi Hse Hi.
  rewrite (advance_secondly_unfold rl s filtered cnt out Hf) in H.
  pose proof (secondly_core_spec rl filtered (c_hour s) (c_minute s) (c_second s) (c_day s) Hi Hh Hmi Hse) as S.
  cbv zeta in S.
  destruct (secondly_core rl filtered (c_hour s) (c_minute s) (c_second s) (c_day s))
    as [[[[[se' mi'] hh'] dd'] fx']|e]; [|discriminate].
  destruct S as (j & _ & _ & _ & _ & _ & Rd & Rf & _).
  exists se', mi', hh', dd', fx'. split; [reflexivity|].
  destruct (gettimeset rl hh' mi' se') as [ts'|e] eqn:Et; cbn [bind] in H; [|discriminate].
  destruct (finish_advance_state _ _ _ _ _ _ _ _ _ _ _ _ _ _ _ H Hm ltac:(lia)
              ltac:(intro E; rewrite (Rf E); lia))
    as (V & M & D & A1 & A2 & A3 & _ & A5 & A6 & A7).
  rewrite V. unfold vord, ord_of_ymd. subst. repeat split; auto; lia.
Qed.
