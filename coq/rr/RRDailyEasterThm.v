(* C01 layer 7 -- DAILY rules WITH BYEASTER (dateutil extension), inside the year range of C19's Easter theorem:
   rrule_iter_correct at equal fuel, BYSETPOS free.  `fixday_advance_e` is RRWeeklyThm.fixday_advance with the
   Easter mask rebuilt at every month / year change. *)
From Coq Require Import ZArith List Bool Lia ZifyBool.
From V Require Import base.Cal gen.RrTables rr.RRBase rr.RRNorm rr.RRMasks rr.RRIter rr.RRSpec
  rr.RROverlay rr.RRWeekCal rr.RRWeekFinal rr.RRFilterThm rr.RRFilterSpec rr.RRGateThm rr.RRTimesetThm
  rr.RRDaysetThm rr.RRAdvanceThm rr.RRIterThm rr.RRPassThm rr.RRYearlyThm rr.RRYearlyEasterThm
  rr.RRCountThm rr.RRYearlyCountThm rr.RRYearlyUntilThm rr.RRDailyThm rr.RRMonthlyThm rr.RRWeeklyThm
  rr.RRSetposThm rr.RRCoarseRun rr.RRMonthlyFullThm rr.RRDailyFullThm.
Import ListNotations.
Ltac Zify.zify_post_hook ::= Z.to_euclidean_division_equations.
Open Scope Z_scope.

Definition easter_year_ok (rl : rule) (y : Z) : Prop := truthy (byeaster rl) = false \/ 1583 <= y <= 4098.

Lemma fixday_advance_e : forall rl s y m d delta hh mi ss wd' ii ts c1 out1,
  valid_ymd y m d = true -> 1 <= delta ->
  rebuild rl ii_init y m = Ok ii -> truthy (bynweekday rl) = false ->
  (forall y', y <= y' <= 9999 -> jan1 y' <= ord_of_ymd y m d + delta -> easter_year_ok rl y') ->
  0 <= wkst rl <= 6 ->
  (exists y' m' d' ii',
     finish_advance rl s true y m (d + delta) hh mi ss wd' ii ts c1 out1 =
       Ok (AdvGo (mkSt y' m' d' hh mi ss wd' ii' ts c1 out1)) /\
     valid_ymd y' m' d' = true /\ ord_of_ymd y' m' d' = ord_of_ymd y m d + delta /\
     rebuild rl ii_init y' m' = Ok ii') \/
  (finish_advance rl s true y m (d + delta) hh mi ss wd' ii ts c1 out1 = Ok AdvMax /\
   max_ord < ord_of_ymd y m d + delta).
Proof.
  intros rl s y m d delta hh mi ss wd' ii ts c1 out1 Av Hdl Ar TN Eok Hwk.
  destruct (index_in_year _ _ _ Av) as (_ & _ & Hy).
  assert (Hm : 1 <= m <= 12 /\ 1 <= d <= dim y m) by (unfold valid_ymd in Av; lia).
  destruct Hm as [Hm Hd].
  unfold finish_advance. cbn [andb].
  set (d2 := d + delta).
  assert (Same : dim y m < d2 \/
                 (valid_ymd y m d2 = true /\ ord_of_ymd y m d2 = ord_of_ymd y m d + delta)).
  { destruct (Z_le_gt_dec d2 (dim y m)) as [Hle|Hgt]; [right|left; lia].
    split; [unfold valid_ymd; lia|unfold ord_of_ymd, d2; lia]. }
  destruct (28 <? d2) eqn:E28.
  2:{ left. exists y, m, d2, ii. split; [reflexivity|].
      destruct Same as [S|[S1 S2]]; [pose proof (dim_pos y m); lia|]. split; [exact S1|]. split; [exact S2|exact Ar]. }
  destruct (dim y m <? d2) eqn:Edm.
  2:{ left. exists y, m, d2, ii. split; [reflexivity|].
      destruct Same as [S|[S1 S2]]; [lia|]. split; [exact S1|]. split; [exact S2|exact Ar]. }
  assert (Hkk : exists kk, Z.to_nat d2 = S kk /\ d2 <= 28 * Z.of_nat kk + dim y m).
  { exists (Z.to_nat (d2 - 1)). pose proof (dim_pos y m). split; lia. }
  destruct Hkk as (kk & Ekk & Hkk). rewrite Ekk.
  pose proof (fix_loop_never_out_of_fuel kk y m d2 (dim y m) ltac:(pose proof (dim_pos y m); lia) Hm Hkk) as NF.
  destruct (fix_loop (S kk) y m d2 (dim y m)) as [y' m' d'| |] eqn:EF; [| |contradiction].
  - destruct (fix_loop_ordinal (S kk) y m d2 y' m' d' Hm ltac:(lia) EF) as (EO & Hm' & Hd').
    destruct (fix_loop_year_le (S kk) y m d2 (dim y m) y' m' d' EF ltac:(unfold T_MAXYEAR; lia)) as [Hy1 Hy2].
    unfold T_MAXYEAR in Hy2.
    assert (V' : valid_ymd y' m' d' = true) by (unfold valid_ymd; lia).
    assert (O' : ord_of_ymd y' m' d' = ord_of_ymd y m d + delta).
    { unfold vord in EO. unfold ord_of_ymd, d2 in *. lia. }
    destruct (index_in_year _ _ _ V') as (I1 & _ & _).
    assert (EY : easter_year_ok rl y') by (apply Eok; [lia|rewrite <- O'; lia]).
    destruct (rebuild_succeeds rl y' m' ltac:(lia) Hwk TN EY) as (ii2 & R2).
    assert (R2' : rebuild rl ii y' m' = Ok ii2).
    { destruct (Z.eq_dec y' y) as [->|Hne].
      - rewrite (rebuild_same_year rl y m m' ii Ar Hy TN). exact R2.
      - destruct (rebuild_slots rl y m ii Hy Ar) as (LY & EM).
        destruct (rebuild_char rl y m ii Hy Ar) as (_ & CN & _).
        rewrite rebuild_from_previous_year; [exact R2| | exact TN | apply CN; exact TN | ].
        + rewrite LY. unfold opt_neqb. apply negb_true_iff. apply Z.eqb_neq. lia.
        + destruct (truthy (byeaster rl)) eqn:TE; [left; reflexivity|right; apply EM; reflexivity]. }
    rewrite R2'. cbn [bind]. left. exists y', m', d', ii2. split; [reflexivity|].
    split; [exact V'|]. split; [exact O'|exact R2].
  - right. split; [reflexivity|].
    pose proof (fix_loop_max_only_beyond (S kk) y m d2 Hm ltac:(unfold T_MAXYEAR; lia) EF) as B.
    unfold T_MAXYEAR in B. change (days_before_year (9999 + 1)) with 3652059 in B.
    unfold vord, ord_of_ymd, d2, max_ord in *. lia.
Qed.

(* ------------------------------------------------------------------ the DAILY family with BYEASTER *)
Record dfam_e (r : raw) : Prop := mk_dfam_e {
  de_wf : spec_wf r = true;
  de_freq : r_freq r = DAILY;
  de_plain : plain_only r = true;
  de_weekno : all_opt (r_byweekno r) weekno_safe = true
}.

Section DailyEaster.
Variables (r : raw) (rl : rule).
Hypothesis HN : normalize r = Ok rl.
Hypothesis Y : dfam_e r.
(* last ordinal the passes may reach: the end of year 4098 *)
Definition e_last : Z := jan1 4099 - 1.

Let HW : spec_wf r = true. Proof. destruct Y; assumption. Qed.
Let Hfr : r_freq r = DAILY. Proof. destruct Y; assumption. Qed.
Let Nfr : freq rl = DAILY. Proof. rewrite (normalize_freq r rl HN). exact Hfr. Qed.

Definition inv_de (k : Z) (cnt : option Z) (s : state) : Prop :=
  at_pass_d r rl k cnt s /\ 1583 <= c_year s <= 4098.
Definition okp_de (k : Z) : Prop := sp_ord0 r + (k + 1) * r_interval r <= e_last.

Lemma year_of_bound y o : 1 <= y -> jan1 y <= o -> o <= e_last -> y <= 4098.
Proof.
  intros Hy H1 H2. unfold e_last in H2. destruct (Z_le_gt_dec y 4098) as [L|G]; [exact L|].
  pose proof (jan1_mono 4099 y ltac:(lia)). lia.
Qed.

Lemma daily_step_items_sel_e k y i : let o := sp_ord0 r + k * r_interval r in 1 <= o <= max_ord ->
  o = jan1 y + i ->
  step_items r k = filter (inst_le (sp_start r))
    (select_pos r (cand_list (jan1 y) (period_times r 0)
                     (filter (fun j => day_ok r (jan1 y + j)) (zrange i (i + 1))))).
Proof.
  intros o Ho Eo.
  unfold step_items, is_coarse. rewrite Hfr. change (DAILY <=? DAILY) with true. cbv iota.
  f_equal. f_equal. unfold cands_coarse, period_days. rewrite Hfr.
  change (DAILY =? YEARLY) with false. change (DAILY =? MONTHLY) with false. change (DAILY =? WEEKLY) with false.
  cbv iota. fold o.
  replace (Z.max o 1) with o by lia. replace (Z.min o max_ord + 1) with (o + 1) by lia.
  unfold zrange. replace (Z.to_nat (o + 1 - o)) with 1%nat by lia.
  replace (Z.to_nat (i + 1 - i)) with 1%nat by lia. cbn [zrange_nat flat_map filter].
  rewrite <- Eo. unfold cand_list. destruct (day_ok r o); cbn [flat_map]; rewrite <- ?Eo; reflexivity.
Qed.

Lemma daily_advance_e : forall k cnt s filtered c1 out1, inv_de k cnt s -> 0 <= k -> okp_de k ->
  (exists s', advance rl s filtered c1 out1 = Ok (AdvGo s') /\ inv_de (k + 1) c1 s' /\ c_out s' = out1) \/
  (advance rl s filtered c1 out1 = Ok AdvMax /\ max_ord < step_lo r (k + 1)).
Proof.
  intros k cnt s filtered c1 out1 [(Av & Ao & Ar & At & Ac) Hr] Hk Hok.
  destruct Y as [_ _ Hp Hs].
  destruct (normalize_misc r rl HN) as (Ni & _ & _ & _ & _ & _ & _).
  pose proof (normalize_wkst r rl HN) as Nwk.
  pose proof (plain_only_no_nth r rl HN Hp) as TN.
  assert (Hwf : 1 <= r_interval r /\ 0 <= r_wkst r <= 6).
  { pose proof HW as HW'. unfold spec_wf in HW'.
    repeat match type of HW' with _ && _ = true =>
      let H := fresh "W" in apply andb_true_iff in HW'; destruct HW' as [HW' H] end.
    unfold between in *. lia. }
  destruct Hwf as [Hitv Hwk].
  assert (EK : sp_ord0 r + (k + 1) * r_interval r = ord_of_ymd (c_year s) (c_month s) (c_day s) + r_interval r)
    by (rewrite Ao; ring).
  unfold advance. rewrite Nfr.
  change (DAILY =? YEARLY) with false. change (DAILY =? MONTHLY) with false. change (DAILY =? WEEKLY) with false.
  change (DAILY =? DAILY) with true. cbv iota zeta. rewrite Ni.
  destruct (fixday_advance_e rl s (c_year s) (c_month s) (c_day s) (r_interval r) (c_hour s) (c_minute s) (c_second s)
              (c_weekday s) (c_ii s) (c_timeset s) c1 out1 Av Hitv Ar TN) as [(y' & m' & d' & ii' & EA & V' & O' & R')|(EA & Hmax)].
  { intros y' Hy' Hj. right. split; [lia|]. apply (year_of_bound y' _ ltac:(lia) Hj). rewrite <- EK. exact Hok. }
  { rewrite Nwk. exact Hwk. }
  - left. eexists. split; [exact EA|]. split; [|reflexivity].
    unfold inv_de, at_pass_d. cbn [c_year c_month c_day c_ii c_timeset c_count]. split.
    + split; [exact V'|]. split; [rewrite O', EK; reflexivity|]. split; [exact R'|]. split; [exact At|reflexivity].
    + destruct (index_in_year _ _ _ V') as (I1 & _ & I3). destruct (index_in_year _ _ _ Av) as (J1 & _ & _).
      split.
      * destruct (Z_le_gt_dec 1583 y') as [L|G]; [exact L|].
        pose proof (jan1_mono (y' + 1) (c_year s) ltac:(lia)) as JM. rewrite jan1_succ in JM. lia.
      * apply (year_of_bound y' (ord_of_ymd y' m' d') ltac:(lia) ltac:(lia)). rewrite O', <- EK. exact Hok.
  - right. split; [exact EA|]. rewrite (step_lo_daily r (k + 1) Hfr), EK. exact Hmax.
Qed.

Lemma daily_step_e : forall k cnt s, inv_de k cnt s -> 0 <= k -> okp_de k ->
  exists acc' cnt' b, sp_take r (step_items r k) cnt (c_out s) = (acc', cnt', b) /\
    ((exists s', step rl s = inl s' /\ inv_de (k + 1) cnt' s' /\ c_out s' = acc' /\ b = false) \/
     (exists t, step rl s = inr (acc', t) /\
                (b = true \/ until_lt_start r \/ max_ord < step_lo r (k + 1)))) /\
    (sp_after_until r (step_lo r k, 0) = true -> acc' = c_out s).
Proof.
  intros k cnt s AA Hk Hok.
  pose proof AA as [A Hr].
  pose proof A as (Av & Ao & Ar & At & Ac).
  destruct Y as [_ _ Hp Hs].
  set (o := sp_ord0 r + k * r_interval r) in *.
  set (i := o - jan1 (c_year s)).
  destruct (index_in_year _ _ _ Av) as (Hi & Ho & Hy). rewrite Ao in Hi, Ho. fold i in Hi.
  pose proof (rebuild_ii_for rl _ _ _ Hy Ar) as F.
  assert (EI : ord_of_ymd (c_year s) (c_month s) (c_day s) - yearordinal (c_ii s) = i).
  { rewrite (f_yo _ _ F), Ao. reflexivity. }
  assert (HRj : day_rejected rl (c_ii s) i = Ok (negb (day_ok r o))).
  { rewrite (day_filter_correct_guarded r rl (c_year s) (c_month s) (c_ii s) i HN HW Hp Hs (or_intror Hr) Hy Ar Hi).
    unfold i. replace (jan1 (c_year s) + (o - jan1 (c_year s))) with o by lia. reflexivity. }
  destruct (single_day_filter rl (c_ii s) (c_year s) (c_month s) (c_day s) (negb (day_ok r o)) Av)
    as (ds & ds' & E1 & E2 & E3).
  { rewrite EI, (f_ylen _ _ F). exact Hi. }
  { rewrite EI. exact HRj. }
  rewrite EI in E1, E2, E3.
  assert (G : getdayset rl (c_ii s) (c_year s) (c_month s) (c_day s) = Ok (ds, i, i + 1)).
  { unfold getdayset. rewrite Nfr. change (DAILY =? YEARLY) with false. change (DAILY =? MONTHLY) with false.
    change (DAILY =? WEEKLY) with false. change ((DAILY <=? DAILY) && (DAILY <=? SECONDLY)) with true.
    cbv iota. exact E1. }
  assert (EP : somes (py_slice ds' i (i + 1)) =
               filter (fun j => day_ok r (jan1 (c_year s) + j)) (zrange i (i + 1))).
  { rewrite E3. unfold zrange. replace (Z.to_nat (i + 1 - i)) with 1%nat by lia. cbn [zrange_nat filter].
    replace (jan1 (c_year s) + i) with o by (unfold i; lia).
    destruct (day_ok r o); reflexivity. }
  destruct (step_from_days r rl HN HW ltac:(rewrite Hfr; reflexivity) s k cnt ds _ _ ds' _ _ G E2 EP
              (ssorted_filter_zrange _ _ _)) as (out' & c1 & s1 & c1' & b1 & PRE & ET & G2 & G3 & G4).
  { intros j Hj. apply filter_In in Hj. destruct Hj as [Hj _]. unfold zrange in Hj.
    pose proof (In_zrange_nat_bounds _ _ _ Hj) as Bj. rewrite (f_yo _ _ F). unfold from_ordinal.
    replace ((1 <=? jan1 (c_year s) + j) && (jan1 (c_year s) + j <=? max_ord)) with true by (unfold i in *; lia).
    reflexivity. }
  { exact At. }
  { exact Ac. }
  { rewrite (f_yo _ _ F). apply (daily_step_items_sel_e k (c_year s) i); [exact Ho|unfold i; lia]. }
  exists out', c1', b1. split; [exact ET|]. split.
  - destruct s1 as [t|].
    + right. exists t. split; [exact PRE|]. destruct (G3 ltac:(discriminate)) as [H|H]; auto.
    + destruct (G2 eq_refl) as [Hb Ec]. subst c1'.
      destruct (daily_advance_e k cnt s (negb (day_ok r o)) c1 out' AA Hk Hok) as [(s' & EA & A' & EO)|(EA & Hmax)].
      * left. exists s'. rewrite PRE, EA. split; [reflexivity|]. split; [exact A'|]. split; [exact EO|exact Hb].
      * right. exists TMaxYear. rewrite PRE, EA. split; [reflexivity|]. right. right. exact Hmax.
  - intros AU. apply (G4 (step_lo r k)); [|exact AU].
    intros j Hj. apply filter_In in Hj. destruct Hj as [Hj _]. unfold zrange in Hj.
    pose proof (In_zrange_nat_bounds _ _ _ Hj) as Bj. rewrite (f_yo _ _ F).
    rewrite (step_lo_daily r k Hfr). fold o. unfold i in *. lia.
Qed.

Theorem daily_easter_iter_correct2 : forall limit n, 1583 <= r_y r <= 4098 ->
  (n <> 0%nat -> sp_ord0 r + Z.of_nat n * r_interval r <= e_last) ->
  fst (iterate rl limit n) = fst (spec_iter r limit n).
Proof.
  intros limit n Hr0 Hn.
  destruct Y as [_ _ Hp Hs].
  destruct (normalize_misc r rl HN) as (Ni & Nsp & Ny & Nm & Nd & Nc & Nu).
  pose proof (normalize_wkst r rl HN) as Nwk.
  pose proof (plain_only_no_nth r rl HN Hp) as TN.
  pose proof (wf_itv r HW) as Hitv.
  assert (Hwf : 0 <= r_wkst r <= 6 /\ valid_ymd (r_y r) (r_m r) (r_d r) = true).
  { pose proof HW as HW'. unfold spec_wf in HW'.
    repeat match type of HW' with _ && _ = true =>
      let H := fresh "W" in apply andb_true_iff in HW'; destruct HW' as [HW' H] end.
    unfold between in *. split; [lia|assumption]. }
  destruct Hwf as [Hwk V].
  destruct (index_in_year _ _ _ V) as (_ & _ & Hy0).
  destruct (rebuild_succeeds rl (r_y r) (r_m r) Hy0 ltac:(rewrite Nwk; exact Hwk) TN (or_intror Hr0)) as (ii0 & R0).
  pose proof (timeset_is_spec r rl HN HW ltac:(rewrite Hfr; reflexivity)) as HT.
  unfold iterate, init_state. rewrite Nfr. change (DAILY =? WEEKLY) with false. cbn [andb]. cbv iota.
  rewrite Ny, Nm, Nd, R0. cbn [bind].
  change (DAILY <? HOURLY) with true. cbv iota. rewrite HT. cbn [bind]. rewrite Nc.
  unfold spec_iter.
  set (s0 := mkSt _ _ _ _ _ _ _ _ _ _ _).
  assert (A0 : inv_de 0 (r_count r) s0).
  { unfold inv_de, at_pass_d, s0. cbn [c_year c_month c_day c_ii c_timeset c_count]. split; [|exact Hr0].
    split; [exact V|]. split; [unfold sp_ord0; ring|]. split; [exact R0|]. split; reflexivity. }
  assert (H1 : forall k0 cnt0 s1, inv_de k0 cnt0 s1 -> c_count s1 = cnt0).
  { intros k0 cnt0 s1 [(_ & _ & _ & _ & Ac) _]. exact Ac. }
  assert (H2 : forall k0, 0 <= k0 -> step_lo r k0 <= step_lo r (k0 + 1)).
  { intros k0 Hk0. rewrite !(step_lo_daily r _ Hfr). nia. }
  assert (H3 : forall k0 cnt0 s1, inv_de k0 cnt0 s1 -> 0 <= k0 -> okp_de k0 -> step_lo r k0 <= max_ord).
  { intros k0 cnt0 s1 [(Av & Ao & _) _] _ _. rewrite (step_lo_daily r k0 Hfr), <- Ao.
    destruct (index_in_year _ _ _ Av) as (_ & B & _). lia. }
  assert (Q : fst (run rl limit n s0) = fst (spec_loop r limit n 0 (r_count r) (c_out s0))).
  { apply (coarse_run_is_spec r rl inv_de okp_de H1 H2 H3 daily_step_e limit n 0 (r_count r) s0 A0 ltac:(lia)).
    intros j Hj. unfold okp_de. pose proof (Hn ltac:(lia)) as B. nia. }
  change (c_out s0) with (@nil instant) in Q.
  destruct (run rl limit n s0) as [out t]. destruct (spec_loop r limit n 0 (r_count r) []) as [acc t'].
  cbn [fst] in *. rewrite Q. reflexivity.
Qed.
End DailyEaster.

Theorem daily_easter_iter_correct : forall r rl limit n,
  normalize r = Ok rl -> dfam_e r -> 1583 <= r_y r <= 4098 ->
  (n <> 0%nat -> sp_ord0 r + Z.of_nat n * r_interval r <= e_last) ->
  fst (iterate rl limit n) = fst (spec_iter r limit n).
Proof. intros r rl limit n HN Y. apply (daily_easter_iter_correct2 r rl HN Y). Qed.

(* non-vacuity: rrule(DAILY, dtstart=datetime(2024,3,25,9,0), byeaster=(-2, 0, 1), count=4): Good Friday, Easter
   Sunday, Easter Monday 2024, Good Friday 2025 *)
Definition raw_daily_easter_example : raw :=
  mkRaw DAILY false 2024 3 25 9 0 0 1 0 (Some 4) None false
        None None None None (Some [-2; 0; 1]) None None None None None.
Example daily_easter_example :
  dfam_e raw_daily_easter_example /\
  match normalize raw_daily_easter_example with
  | Ok rl => fst (iterate rl 100 500) =
             [(ord_of_ymd 2024 3 29, 32400); (ord_of_ymd 2024 3 31, 32400); (ord_of_ymd 2024 4 1, 32400);
              (ord_of_ymd 2025 4 18, 32400)]
  | Err _ => False
  end.
Proof. split; [constructor; reflexivity|vm_compute; reflexivity]. Qed.
