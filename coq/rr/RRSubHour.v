(* C01 layer 6, sub-daily: the HOURLY advance branch of rrule._iter (rrule.py 948-964).
   `hourly_core` is the branch up to `timeset = gettimeset(..)` as a function of the cursor's
   hour; `advance_hourly_unfold` shows that RRIter.advance is exactly that core followed by the
   shared tail.  `hourly_core_spec`: the new (day carry, hour) lies j >= 1 periods ahead, is
   admissible for BYHOUR, and every skipped period is either on the day the day-filter has just
   rejected (`filtered`) or has an hour outside BYHOUR; the branch fails (TypeError from unpacking
   None) exactly when no later period can ever be admissible -- impossible for the BYHOUR set the
   constructor builds (`hourly_never_fails`).  Written by the rset builder (new file). *)
From Coq Require Import ZArith List Bool Lia ZifyBool Znumtheory.
From V Require Import base.Cal gen.RrTables rr.RRBase rr.RRNorm rr.RRMasks rr.RRIter rr.RRSubdailyThm.
From V Require Import easter.EasterSpec rr.RRSpec rr.RRSubNorm.
Import ListNotations.
Open Scope Z_scope.

Definition hour_jump (itv : Z) (filtered : bool) (hour : Z) : Z :=
  if filtered then hour + ((23 - hour) / itv) * itv else hour.

Definition hourly_core (rl : rule) (filtered : bool) (hour : Z) : res (Z * Z) :=
  let hour1 := hour_jump (interval rl) filtered hour in
  if truthy (byhour rl) then mod_distance rl hour1 (opt_list (byhour rl)) 24
  else Ok ((hour1 + interval rl) / 24, (hour1 + interval rl) mod 24).

Lemma advance_hourly_unfold : forall rl s filtered cnt out, freq rl = HOURLY ->
  advance rl s filtered cnt out =
  (do nh <- hourly_core rl filtered (c_hour s);
   let '(ndays, hour) := nh in
   let '(day, fixday) := if negb (ndays =? 0) then (c_day s + ndays, true) else (c_day s, false) in
   do ts' <- gettimeset rl hour (c_minute s) (c_second s);
   finish_advance rl s fixday (c_year s) (c_month s) day hour (c_minute s) (c_second s)
                  (c_weekday s) (c_ii s) ts' cnt out).
Proof.
  intros rl s filtered cnt out E. unfold advance, hourly_core, hour_jump. rewrite E. reflexivity.
Qed.

(* residues repeat after `base` steps *)
Lemma mod_periodic : forall value itv base i, 0 < base -> 1 <= i ->
  exists b, 1 <= b <= base /\ (value + i * itv) mod base = (value + b * itv) mod base.
Proof.
  intros value itv base i Hb Hi.
  exists ((i - 1) mod base + 1). split.
  - pose proof (Z.mod_pos_bound (i - 1) base Hb). lia.
  - pose proof (Z.div_mod (i - 1) base ltac:(lia)) as D.
    replace (value + i * itv) with (value + ((i - 1) mod base + 1) * itv + ((i - 1) / base * itv) * base) by nia.
    apply Z_mod_plus_full.
Qed.

Lemma mod_distance_none_forever : forall n itv base byxxx value,
  0 < base -> Z.of_nat n = base ->
  mod_distance_loop n itv base byxxx value 0 = None ->
  forall i, 1 <= i -> memZ ((value + i * itv) mod base) byxxx = false.
Proof.
  intros n itv base byxxx value Hb Hn Hnone i Hi.
  pose proof (mod_distance_loop_spec n itv base byxxx value 0 Hb) as S. rewrite Hnone in S.
  destruct (mod_periodic value itv base i Hb Hi) as [b [Hbr E]]. rewrite E. apply S. lia.
Qed.

(* what the skipped period i (counted from the cursor) looks like *)
Definition skipped_hour (rl : rule) (filtered : bool) (hour i : Z) : Prop :=
  (filtered = true /\ hour + i * interval rl <= 23) \/
  (truthy (byhour rl) = true /\ memZ ((hour + i * interval rl) mod 24) (opt_list (byhour rl)) = false).

Theorem hourly_core_spec : forall rl filtered hour, 1 <= interval rl -> 0 <= hour <= 23 ->
  match hourly_core rl filtered hour with
  | Ok (ndays, h') =>
      exists j, 1 <= j /\ ndays * 24 + h' = hour + j * interval rl /\ 0 <= h' <= 23 /\ 0 <= ndays /\
                (truthy (byhour rl) = true -> memZ h' (opt_list (byhour rl)) = true) /\
                forall i, 1 <= i < j -> skipped_hour rl filtered hour i
  | Err e => e = EType /\ truthy (byhour rl) = true /\
             forall i, 1 <= i -> skipped_hour rl filtered hour i
  end.
Proof.
  intros rl filtered hour Hi Hh. unfold hourly_core, skipped_hour.
  set (itv := interval rl) in *.
  set (q := if filtered then (23 - hour) / itv else 0).
  assert (Hq : 0 <= q /\ hour + q * itv <= 23 /\ (filtered = false -> q = 0)).
  { unfold q. destruct filtered.
    - pose proof (Z.div_pos (23 - hour) itv ltac:(lia) ltac:(lia)).
      pose proof (Z.mul_div_le (23 - hour) itv ltac:(lia)). split; [lia|]. split; [lia|discriminate].
    - split; [lia|]. split; [lia|reflexivity]. }
  assert (Hj : hour_jump itv filtered hour = hour + q * itv).
  { unfold hour_jump, q. destruct filtered; ring. }
  rewrite Hj. destruct Hq as [Hq0 [Hq1 Hq2]].
  assert (Hleft : forall i, 1 <= i <= q -> filtered = true /\ hour + i * itv <= 23).
  { intros i Hiq. split; [destruct filtered; [reflexivity|specialize (Hq2 eq_refl); lia]|nia]. }
  destruct (truthy (byhour rl)) eqn:Eb.
  - unfold mod_distance. fold itv.
    pose proof (mod_distance_loop_spec (Z.to_nat 24) itv 24 (opt_list (byhour rl)) (hour + q * itv) 0 ltac:(lia)) as S.
    destruct (mod_distance_loop (Z.to_nat 24) itv 24 (opt_list (byhour rl)) (hour + q * itv) 0) as [[a v]|] eqn:El.
    + destruct S as (k & Hk & Eq & Mv & Rv & Fj).
      exists (q + k). split; [lia|]. split; [lia|]. split; [lia|]. split; [nia|]. split; [intros _; exact Mv|].
      intros i Hi'. destruct (Z_le_gt_dec i q) as [Hle|Hgt]; [left; apply Hleft; lia|].
      right. split; [reflexivity|]. specialize (Fj (i - q) ltac:(lia)).
      replace (hour + q * itv + (i - q) * itv) with (hour + i * itv) in Fj by ring. exact Fj.
    + split; [reflexivity|]. split; [reflexivity|]. intros i Hi'.
      destruct (Z_le_gt_dec i q) as [Hle|Hgt]; [left; apply Hleft; lia|].
      right. split; [reflexivity|].
      pose proof (mod_distance_none_forever (Z.to_nat 24) itv 24 (opt_list (byhour rl)) (hour + q * itv)
                    ltac:(lia) eq_refl El (i - q) ltac:(lia)) as F.
      replace (hour + q * itv + (i - q) * itv) with (hour + i * itv) in F by ring. exact F.
  - exists (q + 1). split; [lia|]. split.
    { pose proof (Z.div_mod (hour + q * itv + itv) 24 ltac:(lia)). lia. }
    split; [pose proof (Z.mod_pos_bound (hour + q * itv + itv) 24 ltac:(lia)); lia|].
    split; [apply Z.div_pos; lia|]. split; [discriminate|].
    intros i Hi'. left. apply Hleft. lia.
Qed.


(* the TypeError exit of the HOURLY branch is unreachable for a rule built by the constructor
   from BYHOUR members within 0..23 *)
Theorem hourly_never_fails : forall r rl filtered k, normalize r = Ok rl -> r_freq r = HOURLY ->
  1 <= r_interval r -> 0 <= sp_H0 r <= 23 -> 0 <= k ->
  (forall l, r_byhour r = Some l -> forall x, In x l -> 0 <= x <= 23) ->
  exists nd h, hourly_core rl filtered ((sp_H0 r + k * r_interval r) mod 24) = Ok (nd, h).
Proof.
  intros r rl filtered k Hn Hf Hi HH Hk Hrange.
  destruct (normalize_time_fields r rl Hn) as [_ [Eitv [_ [_ [_ [Bh _]]]]]].
  set (hour := (sp_H0 r + k * r_interval r) mod 24).
  assert (Hh : 0 <= hour <= 23) by (unfold hour; pose proof (Z.mod_pos_bound (sp_H0 r + k * r_interval r) 24 ltac:(lia)); lia).
  pose proof (hourly_core_spec rl filtered hour ltac:(lia) Hh) as S.
  destruct (hourly_core rl filtered hour) as [[nd h]|e]; [eauto|].
  exfalso. destruct S as [_ [Ht Hall]].
  unfold by_field in Bh. destruct (r_byhour r) as [l|] eqn:El.
  - rewrite Hf, Z.eqb_refl in Bh. destruct Bh as [c [Hc Ebh]].
    destruct (construct_byset_ok _ _ _ _ _ Hc) as [Ec Hne].
    destruct c as [|num c']; [contradiction|].
    assert (Hnum : In num l /\ reach_test (r_interval r) (sp_H0 r) 24 num = true).
    { assert (In num (num :: c')) by (left; reflexivity). rewrite Ec in H. apply filter_In in H.
      destruct H as [H1 H2]. split; [exact H1|]. unfold keep_test in H2. apply andb_true_iff in H2. apply H2. }
    destruct Hnum as [Hnl Hnr].
    apply (construct_byset_reachable (r_interval r) (sp_H0 r) 24 num ltac:(lia) ltac:(lia)) in Hnr.
    destruct Hnr as [j [Hj Ej]]. pose proof (Hrange l eq_refl num Hnl) as Hnb.
    rewrite (Z.mod_small num 24) in Ej by lia.
    specialize (Hall (j + 23 * k + 24) ltac:(lia)). unfold skipped_hour in Hall. rewrite Eitv in Hall.
    destruct Hall as [[_ Hle]|[_ Hm]]; [nia|].
    assert (E : (hour + (j + 23 * k + 24) * r_interval r) mod 24 = num).
    { unfold hour. rewrite Zplus_mod_idemp_l. rewrite <- Ej.
      replace (sp_H0 r + k * r_interval r + (j + 23 * k + 24) * r_interval r)
        with (sp_H0 r + j * r_interval r + ((k + 1) * r_interval r) * 24) by ring.
      apply Z_mod_plus_full. }
    rewrite E, Ebh in Hm. cbn [opt_list] in Hm. rewrite memZ_sort_set' in Hm.
    assert (memZ num (num :: c') = true) by (apply memZ_In; left; reflexivity). congruence.
  - rewrite Hf in Bh. cbn in Bh. rewrite Bh in Ht. discriminate.
Qed.
