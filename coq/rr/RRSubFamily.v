(* C01 layer 7, sub-daily families: the abstract day-filter layer IOK of RRSubHourRun /
   RRSubMinRun / RRSubSecRun is instantiated with the rr builder's theorems (rebuild from
   ii_init, day_filter_correct_guarded, rebuild across month / year changes), for the family
   `sfam`: spec_wf, no BYSETPOS, no nth weekday, BYWEEKNO within the safe range, no BYEASTER
   (the same family as RRDailyThm.dfam, for FREQ = HOURLY / MINUTELY / SECONDLY).
   Result: `hourly_iter_family_partial`, `minutely_iter_family_partial`,
   `secondly_iter_family_partial`: for every limit and fuel, what `iterate` has yielded is what
   the until/dtstart/count gate yields on an initial segment of the specification's period
   candidate lists.  Written by the rset builder (new file). *)
From Coq Require Import ZArith List Bool Lia ZifyBool.
From V Require Import base.Cal gen.RrTables easter.EasterSpec rr.RRBase rr.RRNorm rr.RRMasks rr.RRIter
  rr.RRSpec rr.RRWeekCal rr.RRWeekFinal rr.RRFilterThm rr.RRFilterSpec rr.RRPassThm rr.RRYearlyThm
  rr.RRGateThm rr.RRYearlyUntilThm rr.RRDailyThm rr.RRSubSpec rr.RRSubHourRun rr.RRSubMinRun rr.RRSubSecRun.
Import ListNotations.
Open Scope Z_scope.

Record sfam (r : raw) (fr : Z) : Prop := mk_sfam {
  sf_wf : spec_wf r = true;
  sf_freq : r_freq r = fr;
  sf_plain : plain_only r = true;
  sf_setpos : r_bysetpos r = None;
  sf_weekno : all_opt (r_byweekno r) weekno_safe = true;
  sf_easter : r_byeaster r = None
}.

(* an iterinfo that rebuild() produces for year y from scratch *)
Definition IOKf (rl : rule) (ii : iinfo) (y : Z) : Prop :=
  1 <= y <= 9999 /\ exists m, rebuild rl ii_init y m = Ok ii.

Section Family.
Variables (r : raw) (rl : rule) (fr : Z).
Hypothesis Hn : normalize r = Ok rl.
Hypothesis HF : sfam r fr.

Lemma iokf_range : forall ii y m d, IOKf rl ii y -> valid_ymd y m d = true ->
  0 <= ord_of_ymd y m d - yearordinal ii < yearlen ii.
Proof.
  intros ii y m d [Hy [m0 Hr]] Hv. pose proof (rebuild_ii_for rl y m0 ii Hy Hr) as F.
  rewrite (f_yo _ _ F), (f_ylen _ _ F). apply (index_in_year y m d Hv).
Qed.

Lemma iokf_filter : forall ii y i, IOKf rl ii y -> 0 <= i < yearlen ii ->
  day_rejected rl ii i = Ok (negb (day_ok r (yearordinal ii + i))).
Proof.
  intros ii y i [Hy [m0 Hr]] Hi. destruct HF as [HW _ Hp _ Hs He].
  pose proof (rebuild_ii_for rl y m0 ii Hy Hr) as F.
  rewrite (f_ylen _ _ F) in Hi. rewrite (f_yo _ _ F).
  apply (day_filter_correct_guarded r rl y m0 ii i Hn HW Hp Hs (or_introl He) Hy Hr Hi).
Qed.

Lemma iokf_rebuild : forall ii y y' m', IOKf rl ii y -> y <= y' <= 9999 -> 1 <= m' <= 12 ->
  forall ii', rebuild rl ii y' m' = Ok ii' -> IOKf rl ii' y'.
Proof.
  intros ii y y' m' [Hy [m0 Hr]] Hy' Hm' ii' H. destruct HF as [HW _ Hp _ Hs He].
  pose proof (plain_only_no_nth r rl Hn Hp) as TN.
  destruct (normalize_fields r rl Hn) as (_ & _ & _ & _ & _ & Nea & _).
  assert (TE : truthy (byeaster rl) = false) by (rewrite Nea, He; reflexivity).
  split; [lia|]. exists m'.
  destruct (Z.eq_dec y' y) as [->|Hne].
  - rewrite <- (rebuild_same_year rl y m0 m' ii Hr Hy TN). exact H.
  - destruct (rebuild_slots rl y m0 ii Hy Hr) as (LY & EM).
    destruct (rebuild_char rl y m0 ii Hy Hr) as (_ & CN & _).
    rewrite <- (rebuild_from_previous_year rl ii y' m'); [exact H| |exact TN|apply CN; exact TN|right; apply EM; exact TE].
    rewrite LY. unfold opt_neqb. apply negb_true_iff. apply Z.eqb_neq. lia.
Qed.

Lemma iokf_init : forall ii0, rebuild rl ii_init (r_y r) (r_m r) = Ok ii0 -> IOKf rl ii0 (r_y r).
Proof.
  intros ii0 H. destruct HF as [HW _ _ _ _ _].
  assert (V : valid_ymd (r_y r) (r_m r) (r_d r) = true).
  { pose proof HW as W. unfold spec_wf in W.
    repeat match type of W with _ && _ = true =>
      let H := fresh "W" in apply andb_true_iff in W; destruct W as [W H] end. assumption. }
  split; [unfold valid_ymd in V; lia|]. exists (r_m r). exact H.
Qed.

End Family.

Theorem hourly_iter_family_partial : forall r rl, normalize r = Ok rl -> sfam r HOURLY ->
  forall limit n, exists k_end cnt' st out, 0 <= k_end /\
    gate_list rl (flat_map (period_cands r) (zrange 0 k_end)) (r_count r) [] = (out, cnt', st) /\
    fst (iterate rl limit n) = rev out.
Proof.
  intros r rl Hn HF. pose proof HF as [HW Hf _ Hsp _ _].
  apply (hourly_iter_correct_partial r rl Hn HW Hf Hsp (IOKf rl)
           (iokf_range rl) (iokf_filter r rl HOURLY Hn HF) (iokf_rebuild r rl HOURLY Hn HF)
           (iokf_init r rl HOURLY HF)).
Qed.

Theorem minutely_iter_family_partial : forall r rl, normalize r = Ok rl -> sfam r MINUTELY ->
  forall limit n, exists k_end cnt' st out, 0 <= k_end /\
    gate_list rl (flat_map (period_cands r) (zrange 0 k_end)) (r_count r) [] = (out, cnt', st) /\
    fst (iterate rl limit n) = rev out.
Proof.
  intros r rl Hn HF. pose proof HF as [HW Hf _ Hsp _ _].
  apply (minutely_iter_correct_partial r rl Hn HW Hf Hsp (IOKf rl)
           (iokf_range rl) (iokf_filter r rl MINUTELY Hn HF) (iokf_rebuild r rl MINUTELY Hn HF)
           (iokf_init r rl MINUTELY HF)).
Qed.

Theorem secondly_iter_family_partial : forall r rl, normalize r = Ok rl -> sfam r SECONDLY ->
  forall limit n, exists k_end cnt' st out, 0 <= k_end /\
    gate_list rl (flat_map (period_cands r) (zrange 0 k_end)) (r_count r) [] = (out, cnt', st) /\
    fst (iterate rl limit n) = rev out.
Proof.
  intros r rl Hn HF. pose proof HF as [HW Hf _ Hsp _ _].
  apply (secondly_iter_correct_partial r rl Hn HW Hf Hsp (IOKf rl)
           (iokf_range rl) (iokf_filter r rl SECONDLY Hn HF) (iokf_rebuild r rl SECONDLY Hn HF)
           (iokf_init r rl SECONDLY HF)).
Qed.

(* ------------------------------------------------------------------ in terms of the specification only *)
(* the gate yields what RRSpec.sp_take yields on the candidates not earlier than the start *)
Theorem subdaily_iter_family_take_partial : forall r rl fr, normalize r = Ok rl -> sfam r fr ->
  fr = HOURLY \/ fr = MINUTELY \/ fr = SECONDLY ->
  forall limit n, exists k_end, 0 <= k_end /\
    fst (iterate rl limit n) =
    rev (fst (fst (sp_take r (filter (inst_le (sp_start r))
                                (flat_map (period_cands r) (zrange 0 k_end))) (r_count r) []))).
Proof.
  intros r rl fr Hn HF Hfr limit n.
  assert (V : valid_ymd (r_y r) (r_m r) (r_d r) = true).
  { destruct HF as [HW _ _ _ _ _]. pose proof HW as W. unfold spec_wf in W.
    repeat match type of W with _ && _ = true =>
      let H := fresh "W" in apply andb_true_iff in W; destruct W as [W H] end. assumption. }
  destruct (normalize_start_until r rl Hn V) as (S1 & Nu & _).
  assert (HX : exists k_end cnt' st out, 0 <= k_end /\
            gate_list rl (flat_map (period_cands r) (zrange 0 k_end)) (r_count r) [] = (out, cnt', st) /\
            fst (iterate rl limit n) = rev out).
  { destruct Hfr as [->|[->| ->]];
      [apply hourly_iter_family_partial|apply minutely_iter_family_partial|apply secondly_iter_family_partial];
      assumption. }
  destruct HX as (k_end & cnt' & st & out & Hk & Hg & Ho).
  exists k_end. split; [exact Hk|]. rewrite Ho. f_equal.
  pose proof (gate_take_gen rl r S1 Nu (flat_map (period_cands r) (zrange 0 k_end)) (r_count r) []) as GT.
  rewrite Hg in GT.
  destruct (sp_take r (filter (inst_le (sp_start r)) (flat_map (period_cands r) (zrange 0 k_end))) (r_count r) [])
    as [[a1 c1'] b1].
  destruct GT as [E _]. cbn [fst]. exact E.
Qed.
