(* C01 layer 6, sub-daily building blocks (the sub-daily advance layer as a whole stays
   correspondence-only, see notes/rr.md):
   __mod_distance returns the FIRST k >= 1 (k <= base) such that (value + k*interval) mod base is
   in the BY-set, as (carry, new value) with carry*base + new = value + k*interval; it returns
   None (TypeError at the caller) exactly when no k in 1..base hits the set.
   __construct_byset keeps a member iff it is reachable from `start` in steps of `interval`
   modulo `base` (Bezout). *)
From Coq Require Import ZArith List Bool Lia ZifyBool Znumtheory.
From V Require Import base.Cal gen.RrTables rr.RRBase rr.RRNorm rr.RRMasks rr.RRIter.
Import ListNotations.
Open Scope Z_scope.

Lemma mod_step value itv base j : 0 < base ->
  ((value + itv) mod base + j * itv) mod base = (value + (j + 1) * itv) mod base.
Proof.
  intros Hb. rewrite Zplus_mod_idemp_l. f_equal. ring.
Qed.

Theorem mod_distance_loop_spec : forall n itv base byxxx value acc, 0 < base ->
  match mod_distance_loop n itv base byxxx value acc with
  | Some (a, v) =>
      exists k, 1 <= k <= Z.of_nat n /\ a * base + v = acc * base + value + k * itv /\
                memZ v byxxx = true /\ 0 <= v < base /\
                forall j, 1 <= j < k -> memZ ((value + j * itv) mod base) byxxx = false
  | None => forall j, 1 <= j <= Z.of_nat n -> memZ ((value + j * itv) mod base) byxxx = false
  end.
Proof.
  induction n as [|n IH]; intros itv base byxxx value acc Hb; cbn [mod_distance_loop].
  - intros j Hj. lia.
  - destruct (memZ ((value + itv) mod base) byxxx) eqn:EM.
    + exists 1. split; [lia|]. split.
      * pose proof (Z.div_mod (value + itv) base ltac:(lia)) as D. lia.
      * split; [exact EM|]. split; [apply Z.mod_pos_bound; lia|]. intros j Hj. lia.
    + specialize (IH itv base byxxx ((value + itv) mod base) (acc + (value + itv) / base) Hb).
      destruct (mod_distance_loop n itv base byxxx ((value + itv) mod base) (acc + (value + itv) / base))
        as [[a v]|].
      * destruct IH as (k & Hk & Eq & Mv & Rv & Fj).
        exists (k + 1). split; [lia|]. split.
        { pose proof (Z.div_mod (value + itv) base ltac:(lia)) as D.
          replace ((k + 1) * itv) with (k * itv + itv) by ring.
          replace ((acc + (value + itv) / base) * base) with (acc * base + base * ((value + itv) / base)) in Eq by ring.
          lia. }
        split; [exact Mv|]. split; [exact Rv|].
        intros j Hj. destruct (Z.eq_dec j 1) as [->|Hne].
        { replace (1 * itv) with itv by ring. exact EM. }
        specialize (Fj (j - 1) ltac:(lia)). rewrite mod_step in Fj by exact Hb.
        replace (j - 1 + 1) with j in Fj by lia. exact Fj.
      * intros j Hj. destruct (Z.eq_dec j 1) as [->|Hne].
        { replace (1 * itv) with itv by ring. exact EM. }
        specialize (IH (j - 1) ltac:(lia)). rewrite mod_step in IH by exact Hb.
        replace (j - 1 + 1) with j in IH by lia. exact IH.
Qed.

(* __construct_byset: a member is kept iff some number of interval steps from `start` reaches it
   modulo base *)
Theorem construct_byset_reachable : forall itv start base num, 0 < base -> 0 < itv ->
  (let g := Z.gcd itv base in (g =? 1) || ((num - start) mod g =? 0)) = true <->
  exists j, 0 <= j /\ (start + j * itv) mod base = num mod base.
Proof.
  intros itv start base num Hb Hi. cbv zeta.
  pose proof (Z.gcd_nonneg itv base) as Gn.
  assert (Gp : 0 < Z.gcd itv base).
  { destruct (Z.eq_dec (Z.gcd itv base) 0) as [E|E]; [|lia].
    apply Z.gcd_eq_0 in E. lia. }
  set (g := Z.gcd itv base) in *.
  assert (Hdiv : ((g =? 1) || ((num - start) mod g =? 0)) = true <-> (g | num - start)).
  { split.
    - intros H. apply orb_true_iff in H. destruct H as [H|H].
      + apply Z.eqb_eq in H. rewrite H. apply Z.divide_1_l.
      + apply Z.eqb_eq in H. apply Z.mod_divide; [lia|exact H].
    - intros D. apply orb_true_iff. right. apply Z.eqb_eq. apply Z.mod_divide; [lia|exact D]. }
  rewrite Hdiv. clear Hdiv. split.
  - intros [q Hq].
    destruct (Z.gcd_bezout itv base g eq_refl) as (u & v & B).
    (* q*g = q*u*itv + q*v*base; make the multiplier of itv non-negative by adding base*|..| *)
    set (j0 := q * u). set (t := Z.abs j0).
    exists (j0 + t * base). split; [unfold t; nia|].
    replace (start + (j0 + t * base) * itv) with (num + (t * itv - q * v) * base).
    + rewrite Z_mod_plus_full. reflexivity.
    + unfold j0. replace (num) with (start + (num - start)) at 1 by ring. rewrite Hq.
      rewrite <- B. ring.
  - intros (j & Hj & E).
    assert (D : (base | start + j * itv - num)).
    { apply Z.mod_divide; [lia|]. rewrite Zminus_mod, E, Z.sub_diag. apply Z.mod_0_l. lia. }
    assert (Gi : (g | itv)) by apply Z.gcd_divide_l.
    assert (Gb : (g | base)) by apply Z.gcd_divide_r.
    destruct D as [d Hd]. destruct Gi as [a Ha]. destruct Gb as [b Hb'].
    exists (j * a - d * b). rewrite Ha, Hb' in Hd. lia.
Qed.

Example mod_distance_example :
  mod_distance_loop 24 4 24 [1; 5] 17 0 = Some (1, 1).
Proof. reflexivity. Qed.
