(* C01 layer 7 for one sub-daily family: HOURLY rules without BYSETPOS, relative to the day-filter
   layer.  The day filter / rebuild theorems of the rr builder enter through the abstract
   predicate IOK (an iterinfo that fits a year: every day of the year is rejected by the BY
   filter iff RRSpec.day_ok says no, and rebuild keeps producing such iterinfos).
   `hourly_pass`      one pass = the gate applied to the specification's candidate list of the
                      cursor's period, then the advance branch;
   `hourly_next`      the advance leads to the first later admissible period, the skipped ones
                      are empty in the specification, the new state again denotes its period;
   `hourly_run_gate`  by induction over the passes: whatever the loop has yielded when it stops
                      (for any reason, after any number of passes) is exactly what the gate
                      yields on period_cands r k ++ ... ++ period_cands r (k_end - 1);
   `hourly_iter_correct_partial`  the same for `iterate` from the constructor's initial state.
   What is missing for rrule_iter_correct of this family: instantiating IOK with the day-filter
   theorems, and re-bracketing the period lists into RRSpec.spec_loop's days
   (RRSubSpec.cands_subdaily_day_periods) with its stop conditions.
   Written by the rset builder (new file). *)
From Coq Require Import ZArith List Bool Lia ZifyBool Znumtheory.
From V Require Import base.Cal gen.RrTables easter.EasterSpec rr.RRBase rr.RRNorm rr.RRMasks rr.RRIter
  rr.RRSpec rr.RRSubdailyThm rr.RRAdvanceThm rr.RRTimesetThm rr.RRSubNorm rr.RRSubNorm2 rr.RRSubHour
  rr.RRSubSpec rr.RRSubHourTop rr.RRSubTimes rr.RRSubPass rr.RRSubRunBase.
Import ListNotations.
Open Scope Z_scope.

Section HourlyRun.
Variables (r : raw) (rl : rule).
Hypothesis Hn : normalize r = Ok rl.
Hypothesis HW : spec_wf r = true.
Hypothesis Hf : r_freq r = HOURLY.
Hypothesis Hnsp : r_bysetpos r = None.

(* the day-filter layer *)
Variable IOK : iinfo -> Z -> Prop.
Hypothesis IOK_range : forall ii y m d, IOK ii y -> valid_ymd y m d = true ->
  0 <= ord_of_ymd y m d - yearordinal ii < yearlen ii.
Hypothesis IOK_filter : forall ii y i, IOK ii y -> 0 <= i < yearlen ii ->
  day_rejected rl ii i = Ok (negb (day_ok r (yearordinal ii + i))).
Hypothesis IOK_rebuild : forall ii y y' m', IOK ii y -> y <= y' <= 9999 -> 1 <= m' <= 12 ->
  forall ii', rebuild rl ii y' m' = Ok ii' -> IOK ii' y'.

Local Notation itv := (r_interval r).
Local Notation nn k := (sp_H0 r + k * r_interval r).

(* state s is the cursor of period k *)
Definition Den (s : state) (k : Z) : Prop :=
  0 <= k /\ valid_ymd (c_year s) (c_month s) (c_day s) = true /\
  ord_of_ymd (c_year s) (c_month s) (c_day s) = sp_ord0 r + nn k / 24 /\
  c_hour s = nn k mod 24 /\ c_minute s = sp_M0 r /\ c_second s = sp_S0 r /\
  c_timeset s = period_times r (c_hour s * 3600) /\
  IOK (c_ii s) (c_year s).

Lemma facts : freq rl = HOURLY /\ interval rl = itv /\ bysetpos rl = None /\
  0 <= sp_H0 r <= 23 /\ 0 <= sp_M0 r <= 59 /\ 0 <= sp_S0 r <= 59 /\ 1 <= itv /\
  (forall l, r_byhour r = Some l -> forall x, In x l -> 0 <= x <= 23).
Proof.
  destruct (normalize_time_fields r rl Hn) as [Ef [Ei _]].
  destruct (normalize_copied r rl Hn) as [_ [_ [Esp _]]].
  destruct (spec_wf_times r HW) as (VH & VM & VS & RH & _ & _ & _ & _ & _ & Hi).
  split; [congruence|]. split; [exact Ei|]. split; [congruence|].
  split; [exact VH|]. split; [exact VM|]. split; [exact VS|]. split; [exact Hi|].
  intros l El x Hx. apply RH. unfold eff_times. rewrite El. apply In_sort_set'. exact Hx.
Qed.

Lemma period_cands_hourly : forall k, 0 <= k ->
  period_cands r k =
  (let o := sp_ord0 r + nn k / 24 in
   if day_ok r o then map (fun t => (o, t)) (period_times r ((nn k mod 24) * 3600)) else []).
Proof.
  intros k Hk. destruct facts as (_ & _ & _ & _ & VM & VS & _).
  destruct (hourly_period_day_hour r k Hf VM VS) as [Pd Ph].
  unfold period_cands. rewrite Pd, Ph. cbv zeta. unfold select_pos. rewrite Hnsp. reflexivity.
Qed.

Theorem hourly_pass : forall s k, Den s k ->
  step rl s =
  after_gate rl s (negb (day_ok r (sp_ord0 r + nn k / 24)))
    (gate_list rl (period_cands r k) (c_count s) (c_out s)).
Proof.
  intros s k (Hk & Hv & Ho & Hh & Hmi & Hse & Hts & Hii).
  destruct facts as (Efr & _ & Esp & _).
  pose proof (IOK_range _ _ _ _ Hii Hv) as Hi.
  pose proof (ord_of_ymd_range _ _ _ Hv) as Hor.
  set (o := ord_of_ymd (c_year s) (c_month s) (c_day s)) in *.
  set (i := o - yearordinal (c_ii s)) in *.
  assert (Hrej : day_rejected rl (c_ii s) i = Ok (negb (day_ok r o))).
  { rewrite (IOK_filter _ _ i Hii Hi). do 3 f_equal. unfold i. ring. }
  rewrite (step_single_day rl s (negb (day_ok r o))); try assumption.
  - fold o. rewrite <- Ho. f_equal.
    rewrite (period_cands_hourly k Hk). cbv zeta. rewrite <- Ho, <- Hh, <- Hts.
    destruct (day_ok r o); reflexivity.
  - rewrite Efr. reflexivity.
  - rewrite Esp. reflexivity.
Qed.

Theorem hourly_next : forall s k cnt out s', Den s k ->
  advance rl s (negb (day_ok r (sp_ord0 r + nn k / 24))) cnt out = Ok (AdvGo s') ->
  exists k', k < k' /\ Den s' k' /\ (forall j, k < j < k' -> period_cands r j = []) /\
             c_count s' = cnt /\ c_out s' = out.
Proof.
  intros s k cnt out s' (Hk & Hv & Ho & Hh & Hmi & Hse & Hts & Hii) H.
  destruct facts as (Efr & Eitv & _ & VH & VM & VS & Hi & Hrange).
  set (filtered := negb (day_ok r (sp_ord0 r + nn k / 24))) in *.
  assert (Hfilt : filtered = true -> day_ok r (sp_ord0 r + nn k / 24) = false)
    by (unfold filtered; intro E; apply negb_true_iff in E; exact E).
  destruct (advance_correct_hourly r rl k filtered Hn Hf Hi VH VM VS Hrange Hk Hfilt)
    as (nd & h' & k' & Hc & Hkk & Hord & Hh' & Hadm & Hskip).
  rewrite (advance_hourly_unfold rl s filtered cnt out Efr) in H. rewrite Hh, Hc in H. cbn [bind] in H.
  assert (Vymd : 1 <= c_year s <= 9999 /\ 1 <= c_month s <= 12 /\ 1 <= c_day s <= Cal.dim (c_year s) (c_month s))
    by (unfold valid_ymd in Hv; lia).
  destruct Vymd as (Vy & Vm & Vd).
  pose proof (Z.mod_pos_bound (nn k') 24 ltac:(lia)) as Bh'.
  pose proof (hourly_core_spec rl filtered (nn k mod 24) ltac:(lia)
                ltac:(pose proof (Z.mod_pos_bound (nn k) 24 ltac:(lia)); lia)) as S.
  rewrite Hc in S. destruct S as (jj & _ & _ & _ & Rnd & _).
  assert (Hgt : gettimeset rl h' (c_minute s) (c_second s) = Ok (period_times r (h' * 3600))).
  { unfold gettimeset. rewrite Efr, Z.eqb_refl.
    apply (htimeset_is_spec r rl h' Hn HW Hf); [lia|exact Hadm]. }
  set (day' := if negb (nd =? 0) then c_day s + nd else c_day s).
  set (fx' := if negb (nd =? 0) then true else false).
  assert (Hpair : (if negb (nd =? 0) then (c_day s + nd, true) else (c_day s, false)) = (day', fx'))
    by (unfold day', fx'; destruct (negb (nd =? 0)); reflexivity).
  rewrite Hpair, Hgt in H. cbn [bind] in H.
  assert (Hday' : day' = c_day s + nd /\ (fx' = false -> day' <= Cal.dim (c_year s) (c_month s))).
  { unfold day', fx'. destruct (Z.eqb_spec nd 0) as [E|E]; cbn [negb]; split; try lia; try discriminate. }
  destruct Hday' as [Ed' Hfx].
  destruct (finish_advance_state _ _ _ _ _ _ _ _ _ _ _ _ _ _ _ H Vm ltac:(lia) Hfx)
    as (V & M & D & A1 & A2 & A3 & _ & A5 & A6 & A7).
  destruct (finish_advance_ii _ _ _ _ _ _ _ _ _ _ _ _ _ _ _ H ltac:(unfold T_MAXYEAR; lia)) as [Yb Hii'].
  unfold T_MAXYEAR in Yb.
  exists k'. split; [exact Hkk|]. split; [|split; [exact Hskip|split; assumption]].
  split; [lia|]. split.
  { unfold valid_ymd. lia. }
  split.
  { rewrite V. unfold vord. fold (ord_of_ymd (c_year s) (c_month s) day'). unfold ord_of_ymd in *. lia. }
  split; [congruence|]. split; [congruence|]. split; [congruence|]. split; [rewrite A5, A1; reflexivity|].
  destruct Hii' as [[Ei Ey]|Hreb].
  - rewrite Ei, Ey. exact Hii.
  - apply (IOK_rebuild (c_ii s) (c_year s) (c_year s') (c_month s') Hii ltac:(lia) M _ Hreb).
Qed.

Theorem hourly_run_gate : forall limit n s k, Den s k ->
  exists k_end cnt' st, k <= k_end /\
    gate_list rl (flat_map (period_cands r) (zrange k k_end)) (c_count s) (c_out s) =
      (fst (run rl limit n s), cnt', st).
Proof.
  intros limit. induction n as [|n IH]; intros s k HD.
  - exists k, (c_count s), None. split; [lia|]. rewrite zrange_empty. reflexivity.
  - cbn [run]. destruct (limit <=? zlen (c_out s)).
    + exists k, (c_count s), None. split; [lia|]. rewrite zrange_empty. reflexivity.
    + rewrite (hourly_pass s k HD). unfold after_gate.
      destruct (gate_list rl (period_cands r k) (c_count s) (c_out s)) as [[out1 cnt1] stop] eqn:Eg.
      assert (Hone : gate_list rl (flat_map (period_cands r) (zrange k (k + 1))) (c_count s) (c_out s)
                     = (out1, cnt1, stop)).
      { rewrite zrange_single. cbn [flat_map]. rewrite app_nil_r. exact Eg. }
      destruct stop as [t|].
      * exists (k + 1), cnt1, (Some t). split; [lia|]. exact Hone.
      * destruct (advance rl s (negb (day_ok r (sp_ord0 r + nn k / 24))) cnt1 out1) as [[| |s']|e] eqn:Ea;
          try (exists (k + 1), cnt1, None; split; [lia|]; exact Hone).
        destruct (hourly_next s k cnt1 out1 s' HD Ea) as (k' & Hkk & HD' & Hskip & Ec & Eo).
        destruct (IH s' k' HD') as (k_end & cnt' & st & Hke & Hg).
        exists k_end, cnt', st. split; [lia|].
        rewrite (periods_skip r k k' k_end ltac:(lia) Hskip), gate_list_app', Eg.
        rewrite <- Ec, <- Eo. exact Hg.
Qed.


(* ------------------------------------------------------------------ from the constructor's state *)
Hypothesis IOK_init : forall ii0, rebuild rl ii_init (r_y r) (r_m r) = Ok ii0 -> IOK ii0 (r_y r).

Lemma spec_wf_ymd : valid_ymd (r_y r) (r_m r) (r_d r) = true.
Proof.
  pose proof HW as W. unfold spec_wf in W.
  repeat match type of W with _ && _ = true =>
    let H := fresh "W" in apply andb_true_iff in W; destruct W as [W H] end.
  assumption.
Qed.

Lemma init_state_den : forall s0, init_state rl = Ok s0 ->
  Den s0 0 /\ c_count s0 = r_count r /\ c_out s0 = [].
Proof.
  intros s0 H. destruct facts as (Efr & Eitv & _ & VH & VM & VS & Hi & Hrange).
  destruct (normalize_copied r rl Hn) as (Ec & _ & _ & _ & Ey & Em & Ed).
  destruct (normalize_time_fields r rl Hn) as [_ [_ [EH [EM [ES [Bh _]]]]]].
  unfold init_state in H. cbv zeta in H. rewrite Ey, Em, Ed, EH, EM, ES, Efr, Ec in H.
  change (HOURLY =? WEEKLY) with false in H. cbn [andb] in H. cbv iota beta in H.
  destruct (rebuild rl ii_init (r_y r) (r_m r)) as [ii0|e] eqn:Er; cbn [bind] in H; [|discriminate].
  change (HOURLY <? HOURLY) with false in H. change (HOURLY <=? HOURLY) with true in H.
  change (MINUTELY <=? HOURLY) with false in H. change (SECONDLY <=? HOURLY) with false in H.
  cbn [andb orb] in H. rewrite !orb_false_r in H.
  assert (Hts : (if truthy (byhour rl) && negb (memZ (sp_H0 r) (opt_list (byhour rl))) then Ok []
                 else gettimeset rl (sp_H0 r) (sp_M0 r) (sp_S0 r)) = Ok (period_times r (sp_H0 r * 3600))).
  { unfold by_field in Bh. rewrite Hf, Z.eqb_refl in Bh. change (HOURLY <? HOURLY) with false in Bh.
    destruct (r_byhour r) as [l|] eqn:El.
    - destruct Bh as [c [Hc Ebh]]. destruct (construct_byset_ok _ _ _ _ _ Hc) as [_ Hne].
      rewrite Ebh. rewrite truthy_sort_set by assumption. cbn [andb opt_list].
      rewrite (constructed_mem itv (sp_H0 r) l 24 c (sp_H0 r) 0 ltac:(lia) ltac:(lia) ltac:(lia) Hc
                 ltac:(rewrite Z.mul_0_l, Z.add_0_r, Z.mod_small by lia; reflexivity)).
      destruct (memZ (sp_H0 r) l) eqn:Em0; cbn [negb].
      + unfold gettimeset. rewrite Efr, Z.eqb_refl.
        apply (htimeset_is_spec r rl (sp_H0 r) Hn HW Hf VH). rewrite El. exact Em0.
      + f_equal. symmetry. apply (period_times_hourly_out r (sp_H0 r) l Hf VH El Em0).
    - rewrite Bh. cbn [truthy andb]. unfold gettimeset. rewrite Efr, Z.eqb_refl.
      apply (htimeset_is_spec r rl (sp_H0 r) Hn HW Hf VH). rewrite El. reflexivity. }
  rewrite Hts in H. cbn [bind] in H. inversion H; subst; clear H.
  cbn [c_count c_out]. split; [|split; reflexivity].
  unfold Den. cbn [c_year c_month c_day c_hour c_minute c_second c_timeset c_ii].
  replace (sp_H0 r + 0 * itv) with (sp_H0 r) by ring.
  rewrite (Z.div_small (sp_H0 r) 24) by lia. rewrite (Z.mod_small (sp_H0 r) 24) by lia.
  split; [lia|]. split; [exact spec_wf_ymd|]. split; [unfold sp_ord0; ring|].
  repeat split; auto.
Qed.

(* whatever `iterate` has yielded when it stops, after any number of passes and for any reason, is
   what the until/dtstart/count gate yields on an initial segment of the specification's period
   candidate lists period_cands r 0 ++ period_cands r 1 ++ ... *)
Theorem hourly_iter_correct_partial : forall limit n,
  exists k_end cnt' st out, 0 <= k_end /\
    gate_list rl (flat_map (period_cands r) (zrange 0 k_end)) (r_count r) [] = (out, cnt', st) /\
    fst (iterate rl limit n) = rev out.
Proof.
  intros limit n. unfold iterate.
  destruct (init_state rl) as [s0|e] eqn:Ei.
  - destruct (init_state_den s0 Ei) as (HD & Ec & Eo).
    destruct (hourly_run_gate limit n s0 0 HD) as (k_end & cnt' & st & Hk & Hg).
    rewrite Ec, Eo in Hg.
    exists k_end, cnt', st, (fst (run rl limit n s0)). split; [exact Hk|]. split; [exact Hg|].
    destruct (run rl limit n s0) as [out t]. reflexivity.
  - exists 0, (r_count r), None, []. split; [lia|]. split; [rewrite zrange_empty; reflexivity|reflexivity].
Qed.

End HourlyRun.
