(* C01 -- "in order" for the sub-daily frequencies: the specification's sequence is strictly
   increasing for every HOURLY / MINUTELY / SECONDLY rule of its domain (the periods are disjoint
   windows of one hour / minute / second on an ascending grid, the candidates of a period are its
   ascending times, BYSETPOS and the start filter keep a sub-sequence, COUNT / UNTIL a prefix).
   With the stream theorems of RRSubSpAll this gives strictly increasing / duplicate-free output of
   the model for the whole sub-daily family.  (Counterpart of the rr builder's RRSortedThm, which
   covers FREQ coarser than HOURLY.)  Written by the rset builder (new file). *)
From Coq Require Import ZArith List Bool Lia ZifyBool Znumtheory.
From V Require Import base.Cal rr.RRBase rr.RRNorm rr.RRIter rr.RRSpec rr.RRTimesetThm rr.RRSetposThm rr.RRSortedThm
  rr.RRSubSpec rr.RRSubClose rr.RRSubSpBase.
Import ListNotations.
Ltac Zify.zify_post_hook ::= Z.to_euclidean_division_equations.
Open Scope Z_scope.

Definition iabs (x : instant) : Z := fst x * 86400 + snd x.

Lemma ilt_of_abs : forall x y, 0 <= snd x < 86400 -> 0 <= snd y < 86400 -> iabs x < iabs y -> ilt x y.
Proof. intros [a b] [c d]; unfold iabs, ilt; cbn [fst snd]; intros; lia. Qed.

Lemma blk_sorted' : forall o l, ssorted l = true -> isorted (map (fun t => (o, t)) l).
Proof.
  intros o. induction l as [|t l' IH]; intros S; cbn [map isorted]; [exact I|].
  cbn [ssorted] in S. apply andb_true_iff in S. destruct S as [S1 S2]. split; [|apply IH; exact S2].
  intros y Hy. apply in_map_iff in Hy. destruct Hy as (t' & <- & Ht'). right. cbn [fst snd].
  split; [reflexivity|]. rewrite forallb_forall in S1. specialize (S1 t' Ht'). lia.
Qed.

Lemma select_pos_sorted : forall r c, isorted c -> isorted (select_pos r c).
Proof.
  intros r c S. unfold select_pos. destruct (r_bysetpos r); [apply select_pos_aux_sorted; exact S|exact S].
Qed.

Section SortedSub.
Variable r : raw.
Hypothesis HW : spec_wf r = true.
Hypothesis Hsub : is_coarse r = false.

Local Notation u := (unit_secs r).

Lemma sub_freq : r_freq r = HOURLY \/ r_freq r = MINUTELY \/ r_freq r = SECONDLY.
Proof.
  pose proof HW as W. unfold spec_wf in W.
  repeat match type of W with _ && _ = true =>
    let H := fresh "W" in apply andb_true_iff in W; destruct W as [W H] end.
  unfold between in W. unfold is_coarse in Hsub. unfold HOURLY, MINUTELY, SECONDLY, DAILY in *. lia.
Qed.

Lemma itv_pos : 1 <= r_interval r.
Proof.
  pose proof HW as W. unfold spec_wf in W.
  repeat match type of W with _ && _ = true =>
    let H := fresh "W" in apply andb_true_iff in W; destruct W as [W H] end. lia.
Qed.

(* the times of the period starting at second `sod` of its day lie in that period's window *)
Lemma period_times_window : forall sod t, 0 <= sod <= 86399 -> sod mod u = 0 ->
  In t (period_times r sod) -> sod <= t < sod + u.
Proof.
  intros sod t Hs Hm Ht. unfold period_times in Ht. cbv zeta in Ht.
  apply in_flat_map in Ht. destruct Ht as (h & Hh & Ht).
  apply in_flat_map in Ht. destruct Ht as (m & Hmm & Ht).
  apply in_flat_map in Ht. destruct Ht as (s & Hss & Ht).
  destruct (valid_hms h m s) eqn:V; [|destruct Ht]. destruct Ht as [<-|[]].
  unfold valid_hms in V. unfold unit_secs in *.
  destruct sub_freq as [E|[E|E]]; rewrite E in *.
  - change (HOURLY <? HOURLY) with false in Hh. change (HOURLY =? HOURLY) with true in *. cbv iota in *.
    destruct (in_opt (r_byhour r) _); [|destruct Hh]. destruct Hh as [<-|[]]. lia.
  - change (MINUTELY <? HOURLY) with false in Hh. change (MINUTELY <? MINUTELY) with false in Hmm.
    change (MINUTELY =? HOURLY) with false in *. change (MINUTELY =? MINUTELY) with true in *. cbv iota in *.
    destruct (in_opt (r_byhour r) _); [|destruct Hh]. destruct Hh as [<-|[]].
    destruct (in_opt (r_byminute r) _); [|destruct Hmm]. destruct Hmm as [<-|[]]. lia.
  - change (SECONDLY <? HOURLY) with false in Hh. change (SECONDLY <? MINUTELY) with false in Hmm.
    change (SECONDLY <? SECONDLY) with false in Hss.
    change (SECONDLY =? HOURLY) with false in *. change (SECONDLY =? MINUTELY) with false in *. cbv iota in *.
    destruct (in_opt (r_byhour r) _); [|destruct Hh]. destruct Hh as [<-|[]].
    destruct (in_opt (r_byminute r) _); [|destruct Hmm]. destruct Hmm as [<-|[]].
    destruct (in_opt (r_bysecond r) _); [|destruct Hss]. destruct Hss as [<-|[]]. lia.
Qed.

Lemma u_cases : u = 3600 \/ u = 60 \/ u = 1.
Proof. unfold unit_secs. destruct (_ =? _); [left; reflexivity|destruct (_ =? _); [right; left|right; right]; reflexivity]. Qed.

(* period starts are on the grid of the unit *)
Lemma period_start_mod : forall k, (period_start r k mod 86400) mod u = 0.
Proof.
  intro k. unfold period_start, sub_t0, sub_stp.
  set (w := k * r_interval r). set (q := sp_sod0 r / u).
  replace (k * (r_interval r * u)) with (w * u) by (unfold w; ring).
  clearbody w q. destruct u_cases as [E|[E|E]]; rewrite E.
  - rewrite <- Zmod_div_mod; [|lia|lia|exists 24; reflexivity].
    replace (sp_ord0 r * 86400 + q * 3600 + w * 3600) with ((sp_ord0 r * 24 + q + w) * 3600) by ring.
    apply Z.mod_mul. lia.
  - rewrite <- Zmod_div_mod; [|lia|lia|exists 1440; reflexivity].
    replace (sp_ord0 r * 86400 + q * 60 + w * 60) with ((sp_ord0 r * 1440 + q + w) * 60) by ring.
    apply Z.mod_mul. lia.
  - apply Z.mod_1_r.
Qed.

Lemma period_cands_abs : forall k x, In x (period_cands r k) ->
  period_start r k <= iabs x < period_start r k + u /\ 0 <= snd x < 86400.
Proof.
  intros k x Hx. unfold period_cands in Hx. cbv zeta in Hx.
  destruct (day_ok r _); [|destruct Hx].
  apply select_pos_sub in Hx. apply in_map_iff in Hx. destruct Hx as (t & <- & Ht).
  pose proof (period_start_mod k) as Pm.
  pose proof (Z.mod_pos_bound (period_start r k) 86400 ltac:(lia)) as B.
  pose proof (period_times_window (period_start r k mod 86400) t ltac:(lia) Pm Ht) as W.
  unfold iabs. cbn [fst snd]. set (ps := period_start r k) in *. clearbody ps.
  destruct u_cases as [E|[E|E]]; rewrite E in *; lia.
Qed.

Lemma period_cands_sorted : forall k, isorted (period_cands r k).
Proof.
  intro k. unfold period_cands. cbv zeta. destruct (day_ok r _); [|exact I].
  apply select_pos_sorted. apply blk_sorted'. apply (period_times_sorted_any r _ HW).
  pose proof (Z.mod_pos_bound (period_start r k) 86400 ltac:(lia)). lia.
Qed.

Lemma period_start_step : forall k k', k < k' -> period_start r k + u <= period_start r k'.
Proof.
  intros k k' H. unfold period_start, sub_stp. pose proof itv_pos.
  assert (1 <= u) by (destruct u_cases as [->|[-> | ->]]; lia).
  assert (u <= r_interval r * u) by nia. nia.
Qed.

Lemma periods_sorted : forall n a, isorted (flat_map (period_cands r) (zrange_nat a n)).
Proof.
  induction n as [|n IH]; intro a; cbn [zrange_nat flat_map]; [exact I|].
  apply isorted_app; [apply period_cands_sorted|apply IH|].
  intros x y Hx Hy. apply in_flat_map in Hy. destruct Hy as (k' & Hk' & Hy).
  pose proof (proj1 (in_zrange_nat _ _ _) Hk') as Bk.
  destruct (period_cands_abs a x Hx) as [Ax Sx]. destruct (period_cands_abs k' y Hy) as [Ay Sy].
  pose proof (period_start_step a k' ltac:(lia)).
  apply ilt_of_abs; [exact Sx|exact Sy|lia].
Qed.

(* the items of day j: strictly increasing, all on that day *)
Lemma step_items_sorted_sub : forall j,
  isorted (step_items r j) /\ forall x, In x (step_items r j) -> fst x = sp_ord0 r + j.
Proof.
  intro j. unfold step_items. rewrite Hsub. split.
  - apply isorted_filter. rewrite (cands_subdaily_day_periods r j itv_pos). cbv zeta.
    unfold zrange. apply periods_sorted.
  - intros x Hx. apply filter_In in Hx. destruct Hx as [Hx _]. unfold cands_subdaily_day in Hx.
    destruct (negb (day_ok r (sp_ord0 r + j))); [destruct Hx|].
    apply in_flat_map in Hx. destruct Hx as (k & _ & Hx). apply select_pos_sub in Hx.
    apply in_map_iff in Hx. destruct Hx as (t & <- & _). reflexivity.
Qed.

Lemma spec_loop_sorted_sub limit : forall n k cnt acc,
  isorted (rev acc) -> (forall x, In x acc -> fst x < sp_ord0 r + k) ->
  isorted (rev (fst (spec_loop r limit n k cnt acc))).
Proof.
  induction n as [|n IH]; intros k cnt acc S B; cbn [spec_loop]; [exact S|].
  destruct (limit <=? zlen acc); [exact S|].
  destruct (max_ord <? step_lo r k); [exact S|].
  destruct (sp_after_until r (step_lo r k, 0)); [exact S|].
  destruct (match cnt with Some c => c <=? 0 | None => false end); [exact S|].
  destruct (sp_take_shape r (step_items r k) cnt acc) as (pre & suf & E1 & E2).
  destruct (step_items_sorted_sub k) as [SS SB].
  destruct (sp_take r (step_items r k) cnt acc) as [[acc' cnt'] stop]. cbn [fst] in E2. subst acc'.
  assert (S' : isorted (rev (rev pre ++ acc))).
  { rewrite rev_app_distr, rev_involutive. apply isorted_snoc_app; [exact S| |].
    - rewrite E1 in SS. apply (isorted_prefix pre suf SS).
    - intros x y Hx Hy. apply in_rev in Hx. specialize (B x Hx).
      assert (Hy' : In y (step_items r k)) by (rewrite E1; apply in_or_app; left; exact Hy).
      specialize (SB y Hy'). lia. }
  destruct stop; [exact S'|]. apply IH; [exact S'|].
  intros x Hx. apply in_app_or in Hx. destruct Hx as [Hx|Hx].
  - apply in_rev in Hx. assert (Hx' : In x (step_items r k)) by (rewrite E1; apply in_or_app; left; exact Hx).
    specialize (SB x Hx'). lia.
  - specialize (B x Hx). lia.
Qed.

(* THE SPECIFICATION'S SEQUENCE IS STRICTLY INCREASING (sub-daily frequencies) *)
Theorem spec_iter_sorted_sub : forall limit n, isorted (fst (spec_iter r limit n)).
Proof.
  intros limit n. unfold spec_iter.
  pose proof (spec_loop_sorted_sub limit n 0 (r_count r) [] I ltac:(intros x [])) as S.
  destruct (spec_loop r limit n 0 (r_count r) []) as [acc t]. exact S.
Qed.

End SortedSub.
