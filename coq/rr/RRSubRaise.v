(* C01 -- the only exception the sub-daily generator raises is the ValueError: for every HOURLY /
   MINUTELY / SECONDLY rule of `sfam_sa` (spec_wf, BYWEEKNO in the safe range, no BYEASTER; BYSETPOS
   and numeric BYDAY prefixes allowed), whatever the limit and the fuel, if the model's run ends with
   an exception it is EValue ("Invalid combination of interval and other parameters ...") -- no TypeError
   from the unpacked None of __mod_distance (RRSubNoType), no exception from rebuild (RRSubStopFam),
   none from the pass (getdayset / the poslist stage: RRSubSpFam.pass_sub_sp), none from the constructor
   state.  With RRSubSpTerm.subdaily_all_raise_is_end: the ValueError is
   raised only when the specification has nothing more to give.
   Written by the rset builder (new file). *)
From Coq Require Import ZArith List Bool Lia ZifyBool.
From V Require Import base.Cal rr.RRBase rr.RRNorm rr.RRMasks rr.RRIter rr.RRSpec rr.RRSubSpec rr.RRSubTimes
  rr.RRSubPass rr.RRSubMinTop rr.RRSubSecTop rr.RRSubHourRun rr.RRSubMinRun rr.RRSubSecRun rr.RRSubFamily
  rr.RRSubStopFam rr.RRSubAdvance rr.RRSubHourErr rr.RRSubMinErr rr.RRSubSecErr rr.RRStripThm
  rr.RRSubSpBase rr.RRSubSpFam rr.RRSubSpAll.
Import ListNotations.
Open Scope Z_scope.

Lemma gate_list_stop_class : forall rl xs cnt out o c t,
  gate_list rl xs cnt out = (o, c, Some t) -> t = TUntil \/ t = TCount.
Proof.
  intros rl xs. induction xs as [|x xs IH]; intros cnt out o c t H; [discriminate|].
  cbn [gate_list] in H. unfold gate_one in H.
  destruct (after_until rl x); [inversion H; left; reflexivity|].
  destruct (inst_le (dtstart_inst rl) x).
  - destruct cnt as [c0|].
    + destruct (c0 - 1 <? 0); [inversion H; right; reflexivity|apply (IH _ _ _ _ _ H)].
    + apply (IH _ _ _ _ _ H).
  - apply (IH _ _ _ _ _ H).
Qed.

Section GenericRaise.
Variables (r : raw) (rl : rule).
Variable DenA : state -> Z -> Prop.
Variable filt : Z -> bool.
Hypothesis A_pass : forall s k, DenA s k ->
  step rl s = after_gate rl s (filt k) (gate_list rl (period_cands r k) (c_count s) (c_out s)).
Hypothesis A_next : forall s k cnt out s', DenA s k -> advance rl s (filt k) cnt out = Ok (AdvGo s') ->
  exists k', k < k' /\ DenA s' k' /\ (forall j, k < j < k' -> period_cands r j = []) /\
             c_count s' = cnt /\ c_out s' = out.
Hypothesis A_init : forall s0, init_state rl = Ok s0 -> DenA s0 0 /\ c_count s0 = r_count r /\ c_out s0 = [].
Hypothesis A_init_ok : exists s0, init_state rl = Ok s0.
Hypothesis A_err : forall s k cnt out e, DenA s k -> advance rl s (filt k) cnt out = Err e -> e = EValue.

Lemma run_raise_class : forall limit n s k e, DenA s k -> snd (run rl limit n s) = TRaised e -> e = EValue.
Proof.
  intros limit. induction n as [|n IH]; intros s k e HD H; [discriminate|].
  cbn [run] in H. destruct (limit <=? zlen (c_out s)); [discriminate|].
  rewrite (A_pass s k HD) in H. unfold after_gate in H.
  destruct (gate_list rl (period_cands r k) (c_count s) (c_out s)) as [[out1 cnt1] [t|]] eqn:Eg.
  - cbn [snd] in H. destruct (gate_list_stop_class _ _ _ _ _ _ _ Eg) as [-> | ->]; discriminate.
  - destruct (advance rl s (filt k) cnt1 out1) as [[| |s']|e'] eqn:Ea; try discriminate.
    + destruct (A_next s k cnt1 out1 s' HD Ea) as (k' & _ & HD' & _). apply (IH s' k' e HD' H).
    + cbn [snd] in H. inversion H; subst. apply (A_err s k cnt1 out1 e HD Ea).
Qed.

Theorem iterate_raise_class : forall limit n e, snd (iterate rl limit n) = TRaised e -> e = EValue.
Proof.
  intros limit n e H. destruct A_init_ok as [s0 Ei]. unfold iterate in H. rewrite Ei in H.
  destruct (A_init s0 Ei) as (HD & _).
  apply (run_raise_class limit n s0 0 e HD).
  destruct (run rl limit n s0) as [out t]. exact H.
Qed.
End GenericRaise.

(* the advance of the family raises nothing but the ValueError *)
Lemma advance_err_sub : forall r rl fr, normalize r = Ok rl -> sfam r fr ->
  fr = HOURLY \/ fr = MINUTELY \/ fr = SECONDLY ->
  forall s k cnt out e, den_sub r rl s k -> advance rl s (filt_sub r k) cnt out = Err e -> e = EValue.
Proof.
  intros r rl fr Hn HF Hfr s k cnt out e HD Ha. pose proof HF as [HW Hf _ Hsp _ _].
  destruct (spec_wf_times r HW) as (VH & VM & VS & _).
  unfold den_sub in HD. unfold filt_sub in Ha.
  destruct Hfr as [->|[->| ->]]; rewrite Hf in HD.
  - change (HOURLY =? HOURLY) with true in HD. cbv iota in HD.
    destruct (hourly_period_day_hour r k Hf VM VS) as [Pd _]. rewrite Pd in Ha.
    pose proof (hourly_err_is_value r rl Hn HW Hf Hsp (IOKf rl) (iokf_rebuild_ok r rl HOURLY Hn HF) s k cnt out HD) as X.
    rewrite Ha in X. exact X.
  - change (MINUTELY =? HOURLY) with false in HD. change (MINUTELY =? MINUTELY) with true in HD. cbv iota in HD.
    destruct (minutely_period_parts r k Hf VS) as [Pd _]. cbv zeta in Pd. fold (min_n r k) in Pd. rewrite Pd in Ha.
    pose proof (minutely_err_is_value r rl Hn HW Hf Hsp (IOKf rl) (iokf_rebuild_ok r rl MINUTELY Hn HF) s k cnt out HD) as X.
    rewrite Ha in X. exact X.
  - change (SECONDLY =? HOURLY) with false in HD. change (SECONDLY =? MINUTELY) with false in HD. cbv iota in HD.
    destruct (secondly_period_parts r k Hf) as [Pd _]. cbv zeta in Pd. fold (sec_n r k) in Pd. rewrite Pd in Ha.
    pose proof (secondly_err_is_value r rl Hn HW Hf Hsp (IOKf rl) (iokf_rebuild_ok r rl SECONDLY Hn HF) s k cnt out HD) as X.
    rewrite Ha in X. exact X.
Qed.

Theorem subdaily_sp_raise_is_valueerror : forall r rl fr, normalize r = Ok rl -> sfam_s r fr ->
  fr = HOURLY \/ fr = MINUTELY \/ fr = SECONDLY ->
  forall limit n e, snd (iterate rl limit n) = TRaised e -> e = EValue.
Proof.
  intros r rl fr Hn HF Hfr.
  apply (iterate_raise_class r rl (den_sub (nosp_raw r) (nosp_rule rl)) (filt_sub r)
           (pass_sub_sp r rl fr Hn HF Hfr) (next_sub_sp r rl fr Hn HF Hfr) (init_sub_sp r rl fr Hn HF Hfr)).
  - destruct (init_state_den_sub_sp r rl fr Hn HF Hfr) as (s0 & E & _). exists s0. exact E.
  - intros s k cnt out e HD Ha.
    rewrite <- (advance_nosp rl s (filt_sub r k) cnt out) in Ha.
    change (filt_sub r k) with (filt_sub (nosp_raw r) k) in Ha.
    exact (advance_err_sub (nosp_raw r) (nosp_rule rl) fr (normalize_nosp r rl Hn) (sfam_s_nosp r fr HF) Hfr
             s k cnt out e HD Ha).
Qed.

Theorem subdaily_all_raise_is_valueerror : forall r rl fr, normalize r = Ok rl -> sfam_sa r fr ->
  fr = HOURLY \/ fr = MINUTELY \/ fr = SECONDLY ->
  forall limit n e, snd (iterate rl limit n) = TRaised e -> e = EValue.
Proof.
  intros r rl fr HN F Hfr. pose proof (sub_finer r fr F Hfr) as Hm.
  apply (subdaily_sp_raise_is_valueerror (strip r) rl fr ltac:(rewrite (normalize_strip r Hm); exact HN)
           (sfam_sa_strip r fr F) Hfr).
Qed.
