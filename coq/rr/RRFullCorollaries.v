(* C01 -- corollaries of the headline (RRFullTop.full_guard: with and without BYEASTER): order, no duplicates,
   valid instants; and the termination kinds under coarse_guard_all.  (Audit round, 2026-10-02.) *)
From Coq Require Import ZArith List Bool Lia.
From V Require Import base.Cal rr.RRBase rr.RRNorm rr.RRMasks rr.RRIter rr.RRSpec rr.RRSetposThm rr.RRSortedThm
  rr.RRStripThm rr.RRValidThm rr.RRFullTop.
Import ListNotations.
Open Scope Z_scope.

Lemma full_guard_wf_coarse r n : full_guard r n -> spec_wf r = true /\ r_freq r <= DAILY.
Proof.
  unfold YEARLY, MONTHLY, WEEKLY, DAILY.
  intros [(HW & _ & _ & Hf)|(HW & _ & Hf)]; (split; [exact HW|]).
  - destruct Hf as [Hf|[Hf|[Hf|Hf]]]; rewrite Hf; unfold YEARLY, MONTHLY, WEEKLY, DAILY; lia.
  - destruct Hf as [(Hf & _)|[(Hf & _)|[(Hf & _)|(Hf & _)]]]; rewrite Hf; unfold YEARLY, MONTHLY, WEEKLY, DAILY; lia.
Qed.

Theorem rrule_strictly_increasing_full : forall r rl limit n,
  normalize r = Ok rl -> full_guard r n -> isorted (fst (iterate rl limit n)).
Proof.
  intros r rl limit n HN G. rewrite (rrule_iter_correct_coarse_full r rl limit n HN G).
  destruct (full_guard_wf_coarse r n G) as [HW Hc]. apply (spec_iter_sorted r HW Hc).
Qed.

Theorem rrule_nodup_full : forall r rl limit n,
  normalize r = Ok rl -> full_guard r n -> NoDup (fst (iterate rl limit n)).
Proof. intros r rl limit n HN G. apply isorted_NoDup. apply (rrule_strictly_increasing_full r rl limit n HN G). Qed.

Theorem rrule_valid_instants_full : forall r rl limit n,
  normalize r = Ok rl -> full_guard r n ->
  forall x, In x (fst (iterate rl limit n)) -> good_instant r x.
Proof.
  intros r rl limit n HN G x Hx. rewrite (rrule_iter_correct_coarse_full r rl limit n HN G) in Hx.
  destruct (full_guard_wf_coarse r n G) as [_ Hc].
  apply (spec_iter_good r) with (limit := limit) (n := n); [|exact Hx]. unfold is_coarse. lia.
Qed.

(* the termination kinds: under the guard without BYEASTER a run ends by COUNT, UNTIL, the year-9999 stop, or
   because `limit` / the fuel is used up -- never by an exception *)
Theorem rrule_term_kinds_coarse_all : forall r rl limit n,
  normalize r = Ok rl -> coarse_guard_all r n ->
  let t := snd (iterate rl limit n) in
  t = TCount \/ t = TUntil \/ t = TMaxYear \/ t = TOutOfFuel \/ t = TLimit.
Proof.
  intros r rl limit n HN G t. pose proof (rrule_no_exception_coarse_all r rl limit n HN G) as Q. fold t in Q.
  destruct t; auto. exfalso. apply (Q e). reflexivity.
Qed.
