(* finite sweep shard: year shapes whose 1 January is weekday 0 (see RRWeekSweepDefs.v) *)
From Coq Require Import ZArith List Bool.
From V Require Import rr.RRWeekSweepDefs.
Open Scope Z_scope.
Lemma sweep_wd_0 : sweep_wd 0 = true.
Proof. vm_compute. reflexivity. Qed.
