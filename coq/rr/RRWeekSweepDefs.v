(* C01 layer 2 -- the finite facts checked by vm_compute, one shard per weekday of 1 January
   (RRWeekSweep0..6.v): for the 4 shapes with that weekday x 7 week starts:
   - the phase-2 / phase-3 operations and the phase-1 operation for every n in -54..54 run without
     IndexError on the zero mask, and 1 <= numweeks <= 53;
   - for every member n in -53..53 (the RFC 5545 range) the single-member mask says "day of week n"
     on every used index.  (Before /repo commit 83f8e67 this failed for n in {-53,-52,52,53}:
     fixed finding F-C01-weekno.) *)
From Coq Require Import ZArith List Bool.
From V Require Import base.Cal gen.RrTables rr.RRBase rr.RRNorm rr.RRMasks rr.RROverlay rr.RRWeekDefs rr.RRWeekThm.
Import ListNotations.
Open Scope Z_scope.

Definition safe_ns : list Z := zrange (-53) 54.
Definition near_ns : list Z := zrange (-54) 55.
Definition is_ok {A} (r : res A) : bool := match r with Ok _ => true | Err _ => false end.
Definition sh_wdm (sh : shape) : list Z := py_from T_WDAYMASK (sh_ywd sh).

Definition sweep_cell (sh : shape) (wk : Z) : bool :=
  let z := zeros (len0 (sh_ylen sh)) in
  is_ok (g_op (sh_ylen sh) (sh_ywd sh) wk (sh_wdm sh) z) &&
  is_ok (h_op (sh_ywd sh) wk z) &&
  forallb (fun n => is_ok (f_op (sh_ylen sh) (sh_ywd sh) wk (sh_wdm sh) z n)) near_ns &&
  (1 <=? numweeks (sh_ylen sh) (sh_ywd sh) wk) && (numweeks (sh_ylen sh) (sh_ywd sh) wk <=? 53) &&
  forallb (single_ok sh wk) safe_ns.

Definition sweep_wd (wd : Z) : bool :=
  forallb (fun sh => forallb (sweep_cell sh) (zrange 0 7)) (shapes_of_wd wd).
