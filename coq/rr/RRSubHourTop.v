(* C01 layer 6, sub-daily: `advance_correct_hourly` -- one execution of the HOURLY advance branch
   from a cursor denoting period k leads to the first period k' > k whose hour is admissible, and
   every skipped period has an empty candidate list in the specification; plus the state-level
   form through finish_advance (day carry normalised by the fixday loop).
   Written by the rset builder (new file). *)
From Coq Require Import ZArith List Bool Lia ZifyBool Znumtheory.
From V Require Import base.Cal gen.RrTables easter.EasterSpec rr.RRBase rr.RRNorm rr.RRMasks rr.RRIter
  rr.RRSpec rr.RRSubdailyThm rr.RRAdvanceThm rr.RRSubNorm rr.RRSubHour rr.RRSubSpec.
Import ListNotations.
Open Scope Z_scope.

Theorem advance_correct_hourly : forall r rl k filtered,
  normalize r = Ok rl -> r_freq r = HOURLY -> 1 <= r_interval r ->
  0 <= sp_H0 r <= 23 -> 0 <= sp_M0 r <= 59 -> 0 <= sp_S0 r <= 59 ->
  (forall l, r_byhour r = Some l -> forall x, In x l -> 0 <= x <= 23) -> 0 <= k ->
  let n := sp_H0 r + k * r_interval r in
  let od := sp_ord0 r + n / 24 in
  (filtered = true -> day_ok r od = false) ->
  exists nd h' k',
    hourly_core rl filtered (n mod 24) = Ok (nd, h') /\ k < k' /\
    od + nd = sp_ord0 r + (sp_H0 r + k' * r_interval r) / 24 /\
    h' = (sp_H0 r + k' * r_interval r) mod 24 /\
    in_opt (r_byhour r) (Z.eqb h') = true /\
    forall j, k < j < k' -> period_cands r j = [].
Proof.
  intros r rl k filtered Hn Hf Hi HH HM HS Hrange Hk n od Hfilt.
  destruct (normalize_time_fields r rl Hn) as [_ [Eitv [_ [_ [_ [Bh _]]]]]].
  destruct (hourly_never_fails r rl filtered k Hn Hf Hi HH Hk Hrange) as [nd [h' Hc]]. fold n in Hc.
  pose proof (Z.mod_pos_bound n 24 ltac:(lia)) as Bn. pose proof (Z.div_mod n 24 ltac:(lia)) as Dn.
  pose proof (hourly_core_spec rl filtered (n mod 24) ltac:(lia) ltac:(lia)) as S. unfold skipped_hour in S. rewrite Hc in S. rewrite !Eitv in S.
  destruct S as (jj & Hjj & Eq & Rh & Rnd & Mem & Skip).
  exists nd, h', (k + jj). split; [exact Hc|]. split; [lia|].
  assert (En : sp_H0 r + (k + jj) * r_interval r = (n / 24 + nd) * 24 + h') by (unfold n in *; lia).
  assert (Hq : (sp_H0 r + (k + jj) * r_interval r) / 24 = n / 24 + nd)
    by (symmetry; apply (Z.div_unique _ 24 _ h'); lia).
  assert (Hm : (sp_H0 r + (k + jj) * r_interval r) mod 24 = h')
    by (symmetry; apply (Z.mod_unique _ 24 (n / 24 + nd) h'); lia).
  split; [rewrite Hq; unfold od; ring|]. split; [symmetry; exact Hm|].
  unfold by_field in Bh. rewrite Hf in Bh.
  split.
  - destruct (r_byhour r) as [l|] eqn:El; [|reflexivity].
    rewrite Z.eqb_refl in Bh. destruct Bh as [c [Hcb Ebh]].
    destruct (construct_byset_ok _ _ _ _ _ Hcb) as [_ Hne].
    assert (Ht : truthy (byhour rl) = true) by (rewrite Ebh; apply truthy_sort_set; assumption).
    specialize (Mem Ht). rewrite Ebh in Mem. cbn [opt_list] in Mem.
    rewrite (constructed_mem (r_interval r) (sp_H0 r) l 24 c h' (k + jj) ltac:(lia) ltac:(lia) ltac:(lia) Hcb (eq_sym Hm)) in Mem.
    exact Mem.
  - intros j Hj. set (i := j - k).
    destruct (hourly_period_day_hour r j Hf HM HS) as [Pd Ph].
    assert (Enj : sp_H0 r + j * r_interval r = n + i * r_interval r) by (unfold n, i; ring).
    destruct (Skip i ltac:(unfold i; lia)) as [[Efl Hle]|[Ht Hmem]].
    + apply period_cands_bad_day. rewrite Pd, Enj.
      assert (Hq' : (n + i * r_interval r) / 24 = n / 24).
      { symmetry. apply (Z.div_unique _ 24 _ (n mod 24 + i * r_interval r)); [|lia].
        assert (0 <= i * r_interval r) by (unfold i; nia). lia. }
      rewrite Hq'. apply Hfilt. exact Efl.
    + apply period_cands_no_times. rewrite Ph, Enj.
      destruct (r_byhour r) as [l|] eqn:El.
      * rewrite Z.eqb_refl in Bh. destruct Bh as [c [Hcb Ebh]].
        rewrite Ebh in Hmem. cbn [opt_list] in Hmem.
        assert (Ex : (n mod 24 + i * r_interval r) mod 24 = (n + i * r_interval r) mod 24)
          by (apply Zplus_mod_idemp_l).
        rewrite Ex in Hmem.
        rewrite (constructed_mem (r_interval r) (sp_H0 r) l 24 c ((n + i * r_interval r) mod 24) j
                   ltac:(lia) ltac:(lia) ltac:(lia) Hcb ltac:(rewrite <- Enj; reflexivity)) in Hmem.
        apply (period_times_hourly_out r _ l Hf); [|exact El|exact Hmem].
        pose proof (Z.mod_pos_bound (n + i * r_interval r) 24 ltac:(lia)). lia.
      * cbn in Bh. rewrite Bh in Ht. discriminate.
Qed.

(* ------------------------------------------------------------------ through finish_advance *)
Lemma finish_advance_state : forall rl s fixday y m d hh mi ss wd ii ts cnt out s',
  finish_advance rl s fixday y m d hh mi ss wd ii ts cnt out = Ok (AdvGo s') ->
  1 <= m <= 12 -> 1 <= d -> (fixday = false -> d <= Cal.dim y m) ->
  ord_of_ymd (c_year s') (c_month s') (c_day s') = vord y m d /\
  1 <= c_month s' <= 12 /\ 1 <= c_day s' <= Cal.dim (c_year s') (c_month s') /\
  c_hour s' = hh /\ c_minute s' = mi /\ c_second s' = ss /\ c_weekday s' = wd /\
  c_timeset s' = ts /\ c_count s' = cnt /\ c_out s' = out.
Proof.
  intros rl s fixday y m d hh mi ss wd ii ts cnt out s' H Hm Hd Hfix. unfold finish_advance in H.
  pose proof (dim_pos y m) as Dp.
  assert (Hstay : d <= Cal.dim y m ->
            forall s0, s0 = mkSt y m d hh mi ss wd ii ts cnt out ->
            ord_of_ymd (c_year s0) (c_month s0) (c_day s0) = vord y m d /\
            1 <= c_month s0 <= 12 /\ 1 <= c_day s0 <= Cal.dim (c_year s0) (c_month s0) /\
            c_hour s0 = hh /\ c_minute s0 = mi /\ c_second s0 = ss /\ c_weekday s0 = wd /\
            c_timeset s0 = ts /\ c_count s0 = cnt /\ c_out s0 = out).
  { intros Hle s0 ->. cbn. unfold vord, ord_of_ymd. repeat split; auto; lia. }
  destruct (fixday && (28 <? d)) eqn:E1.
  - destruct (Cal.dim y m <? d) eqn:E2.
    + destruct (fix_loop (Z.to_nat d) y m d (Cal.dim y m)) as [y' m' d'| |] eqn:Ef; try discriminate.
      destruct (rebuild rl ii y' m') as [ii'|e]; cbn [bind] in H; [|discriminate].
      inversion H; subst; clear H. cbn.
      destruct (fix_loop_ordinal _ _ _ _ _ _ _ Hm Hd Ef) as [V [M D]].
      repeat split; auto; lia.
    + inversion H; subst. apply (Hstay ltac:(lia) _ eq_refl).
  - inversion H; subst. apply (Hstay); [|reflexivity].
    destruct fixday; [|apply Hfix; reflexivity]. cbn in E1. lia.
Qed.

Theorem advance_hourly_state : forall rl s filtered cnt out s',
  freq rl = HOURLY -> advance rl s filtered cnt out = Ok (AdvGo s') ->
  1 <= c_month s <= 12 -> 1 <= c_day s <= Cal.dim (c_year s) (c_month s) ->
  0 <= c_hour s <= 23 -> 1 <= interval rl ->
  exists nd h', hourly_core rl filtered (c_hour s) = Ok (nd, h') /\
    ord_of_ymd (c_year s') (c_month s') (c_day s') = ord_of_ymd (c_year s) (c_month s) (c_day s) + nd /\
    1 <= c_month s' <= 12 /\ 1 <= c_day s' <= Cal.dim (c_year s') (c_month s') /\
    c_hour s' = h' /\ c_minute s' = c_minute s /\ c_second s' = c_second s /\
    gettimeset rl h' (c_minute s) (c_second s) = Ok (c_timeset s') /\
    c_count s' = cnt /\ c_out s' = out.
Proof.
  intros rl s filtered cnt out s' Hf H Hm Hd Hh Hi.
  rewrite (advance_hourly_unfold rl s filtered cnt out Hf) in H.
  pose proof (hourly_core_spec rl filtered (c_hour s) Hi Hh) as S.
  destruct (hourly_core rl filtered (c_hour s)) as [[nd h']|e]; cbn [bind] in H; [|discriminate].
  destruct S as (jj & _ & _ & _ & Rnd & _).
  exists nd, h'. split; [reflexivity|].
  destruct (negb (nd =? 0)) eqn:End.
  - destruct (gettimeset rl h' (c_minute s) (c_second s)) as [ts'|e] eqn:Et; cbn [bind] in H; [|discriminate].
    destruct (finish_advance_state _ _ _ _ _ _ _ _ _ _ _ _ _ _ _ H Hm ltac:(lia) ltac:(discriminate))
      as (V & M & D & A1 & A2 & A3 & _ & A5 & A6 & A7).
    rewrite V. unfold vord, ord_of_ymd. subst. repeat split; auto; lia.
  - apply negb_false_iff, Z.eqb_eq in End. subst nd.
    destruct (gettimeset rl h' (c_minute s) (c_second s)) as [ts'|e] eqn:Et; cbn [bind] in H; [|discriminate].
    destruct (finish_advance_state _ _ _ _ _ _ _ _ _ _ _ _ _ _ _ H Hm ltac:(lia) ltac:(intros _; lia))
      as (V & M & D & A1 & A2 & A3 & _ & A5 & A6 & A7).
    rewrite V. unfold vord, ord_of_ymd. subst. repeat split; auto; lia.
Qed.
