(* C01 -- the sub-daily headline: for EVERY HOURLY / MINUTELY / SECONDLY rule of the specification's
   domain with BYWEEKNO in the safe range and no BYEASTER -- BYSETPOS allowed, numeric BYDAY prefixes
   allowed (they are ignored for FREQ finer than MONTHLY: the rr builder's RRStripThm) -- the
   implementation model `iterate` and the specification RRSpec.spec_iter enumerate one and the same
   stream, unbounded in limit / fuel / days.  Written by the rset builder (new file). *)
From Coq Require Import ZArith List Bool Lia ZifyBool.
From V Require Import base.Cal rr.RRBase rr.RRNorm rr.RRMasks rr.RRIter rr.RRSpec rr.RRWeekFinal rr.RRFilterSpec
  rr.RRStripThm rr.RRSubStopFam rr.RRSubSpecCoh rr.RRSubSpFam rr.RRSubSpSame.
Import ListNotations.
Open Scope Z_scope.

Record sfam_sa (r : raw) (fr : Z) : Prop := mk_sfam_sa {
  sx_wf : spec_wf r = true;
  sx_freq : r_freq r = fr;
  sx_weekno : all_opt (r_byweekno r) weekno_safe = true;
  sx_easter : r_byeaster r = None
}.

Lemma sfam_sa_strip r fr : sfam_sa r fr -> sfam_s (strip r) fr.
Proof.
  intros [HW Hf Hs He]. constructor.
  - rewrite spec_wf_strip. exact HW.
  - exact Hf.
  - apply plain_only_strip.
  - exact Hs.
  - exact He.
Qed.

Lemma sub_finer r fr : sfam_sa r fr -> fr = HOURLY \/ fr = MINUTELY \/ fr = SECONDLY ->
  (MONTHLY <? r_freq r) = true.
Proof. intros [_ Hf _ _] Hfr. rewrite Hf. destruct Hfr as [->|[->| ->]]; reflexivity. Qed.

Theorem subdaily_all_prefix_of_spec : forall r rl fr, normalize r = Ok rl -> sfam_sa r fr ->
  fr = HOURLY \/ fr = MINUTELY \/ fr = SECONDLY ->
  forall limit n, exists L d rest, fst (spec_iter r L d) = fst (iterate rl limit n) ++ rest.
Proof.
  intros r rl fr HN F Hfr limit n. pose proof (sub_finer r fr F Hfr) as Hm.
  destruct (subdaily_sp_prefix_of_spec (strip r) rl fr ltac:(rewrite (normalize_strip r Hm); exact HN)
              (sfam_sa_strip r fr F) Hfr limit n) as (L & d & rest & E).
  exists L, d, rest. rewrite <- (spec_iter_strip r L d Hm). exact E.
Qed.

Theorem subdaily_all_spec_prefix_of_iterate : forall r rl fr, normalize r = Ok rl -> sfam_sa r fr ->
  fr = HOURLY \/ fr = MINUTELY \/ fr = SECONDLY ->
  forall L d, exists limit n rest, fst (iterate rl limit n) = fst (spec_iter r L d) ++ rest.
Proof.
  intros r rl fr HN F Hfr L d. pose proof (sub_finer r fr F Hfr) as Hm.
  destruct (subdaily_sp_spec_prefix_of_iterate (strip r) rl fr ltac:(rewrite (normalize_strip r Hm); exact HN)
              (sfam_sa_strip r fr F) Hfr L d) as (limit & n & rest & E).
  exists limit, n, rest. rewrite <- (spec_iter_strip r L d Hm). exact E.
Qed.

(* model and specification enumerate the same stream, position by position *)
Theorem subdaily_all_iter_correct : forall r rl fr, normalize r = Ok rl -> sfam_sa r fr ->
  fr = HOURLY \/ fr = MINUTELY \/ fr = SECONDLY ->
  forall i x,
    (exists limit n, nth_error (fst (iterate rl limit n)) i = Some x) <->
    (exists L d, nth_error (fst (spec_iter r L d)) i = Some x).
Proof.
  intros r rl fr HN F Hfr i x. split.
  - intros (limit & n & H).
    destruct (subdaily_all_prefix_of_spec r rl fr HN F Hfr limit n) as (L & d & rest & E).
    exists L, d. rewrite E. apply nth_error_app_some. exact H.
  - intros (L & d & H).
    destruct (subdaily_all_spec_prefix_of_iterate r rl fr HN F Hfr L d) as (limit & n & rest & E).
    exists limit, n. rewrite E. apply nth_error_app_some. exact H.
Qed.

Theorem subdaily_all_iterate_spec_comparable : forall r rl fr, normalize r = Ok rl -> sfam_sa r fr ->
  fr = HOURLY \/ fr = MINUTELY \/ fr = SECONDLY ->
  forall limit n L d,
    is_prefix (fst (iterate rl limit n)) (fst (spec_iter r L d)) \/
    is_prefix (fst (spec_iter r L d)) (fst (iterate rl limit n)).
Proof.
  intros r rl fr HN F Hfr limit n L d.
  destruct (subdaily_all_prefix_of_spec r rl fr HN F Hfr limit n) as (L1 & d1 & rest & E).
  assert (P1 : is_prefix (fst (iterate rl limit n)) (fst (spec_iter r L1 d1))) by (exists rest; exact E).
  destruct (spec_iter_comparable r L d L1 d1) as [P|P].
  - apply (prefixes_comparable _ _ _ (fst (spec_iter r L1 d1)) P1 P).
  - left. apply (is_prefix_trans _ _ _ _ P1 P).
Qed.

Theorem subdaily_all_nth_agree : forall r rl fr, normalize r = Ok rl -> sfam_sa r fr ->
  fr = HOURLY \/ fr = MINUTELY \/ fr = SECONDLY ->
  forall limit n L d i x y,
    nth_error (fst (iterate rl limit n)) i = Some x ->
    nth_error (fst (spec_iter r L d)) i = Some y -> x = y.
Proof.
  intros r rl fr HN F Hfr limit n L d i x y Hx Hy.
  destruct (subdaily_all_iterate_spec_comparable r rl fr HN F Hfr limit n L d) as [P|P].
  - apply (is_prefix_nth _ _ _ i x y P Hx Hy).
  - symmetry. apply (is_prefix_nth _ _ _ i y x P Hy Hx).
Qed.

(* non-vacuity (checked against the real dateutil): rrule(SECONDLY, dtstart=datetime(2024,12,31,23,59,40),
   interval=7, byweekday=(WE(+1), TU), byminute=(0,59), bysetpos=(1,), count=4): numeric prefix ignored,
   BYSETPOS on one-element periods, the year changes *)
Definition raw_secondly_all_example : raw :=
  mkRaw SECONDLY false 2024 12 31 23 59 40 7 0 (Some 4) None false
        (Some [1]) None None None None None (Some [(2, 1); (1, 0)]) None (Some [0; 59]) None.
Example secondly_all_example :
  sfam_sa raw_secondly_all_example SECONDLY /\ plain_only raw_secondly_all_example = false /\
  match normalize raw_secondly_all_example with
  | Ok rl => fst (iterate rl 100 40) =
             [(739251, 86380); (739251, 86387); (739251, 86394); (739252, 1)] /\
             fst (spec_iter raw_secondly_all_example 100 5) = fst (iterate rl 100 40)
  | Err _ => False
  end.
Proof. split; [constructor; reflexivity|split; [reflexivity|vm_compute; split; reflexivity]]. Qed.
