(* C01 layer 6/7: `advance_correct_subdaily` -- ONE statement for the HOURLY / MINUTELY / SECONDLY
   branches of RRIter.advance (rrule._iter lines 985-1058), at the level of iterator states, for the
   family `sfam`: from a cursor denoting period k, with `filtered` = "the cursor's day is rejected",
     - Ok (AdvGo s'): s' denotes the FIRST period k' > k that can contain a candidate (every skipped
       period k < j < k' has an empty candidate list in the specification); count and output untouched;
     - Err _ (the ValueError "Invalid combination of interval and other parameters" / the TypeError
       of the unpacked None) or Ok AdvMax (year > 9999): only when NO later period can contribute:
       every later period is empty or starts after 9999-12-31 (`dead_after`);
     - Ok AdvFuel (the model's fuel marker) never.
   Written by the rset builder (new file). *)
From Coq Require Import ZArith List Bool Lia ZifyBool.
From V Require Import base.Cal rr.RRBase rr.RRNorm rr.RRIter rr.RRSpec rr.RRSubSpec rr.RRSubTimes rr.RRSubMinTop
  rr.RRSubSecTop rr.RRSubHourRun rr.RRSubMinRun rr.RRSubSecRun rr.RRSubFamily rr.RRSubCloseGen2
  rr.RRSubHourStop rr.RRSubMinStop rr.RRSubSecStop rr.RRSubStopFam.
Import ListNotations.
Open Scope Z_scope.

(* "state s is the cursor of period k", per frequency (Den / DenM / DenS with the family's iterinfo
   invariant) *)
Definition den_sub (r : raw) (rl : rule) (s : state) (k : Z) : Prop :=
  if r_freq r =? HOURLY then Den r (IOKf rl) s k
  else if r_freq r =? MINUTELY then DenM r (IOKf rl) s k
  else DenS r (IOKf rl) s k.

(* the `filtered` flag of the pass: the day of period k is rejected by the day filter *)
Definition filt_sub (r : raw) (k : Z) : bool := negb (day_ok r (period_start r k / 86400)).

Theorem advance_correct_subdaily : forall r rl fr, normalize r = Ok rl -> sfam r fr ->
  fr = HOURLY \/ fr = MINUTELY \/ fr = SECONDLY ->
  forall s k cnt out, den_sub r rl s k ->
  match advance rl s (filt_sub r k) cnt out with
  | Ok (AdvGo s') =>
      exists k', k < k' /\ den_sub r rl s' k' /\ (forall j, k < j < k' -> period_cands r j = []) /\
                 c_count s' = cnt /\ c_out s' = out
  | Ok AdvFuel => False
  | Ok AdvMax => dead_after r k
  | Err _ => dead_after r k
  end.
Proof.
  intros r rl fr Hn HF Hfr s k cnt out HD. pose proof HF as [HW Hf _ Hsp _ _].
  destruct (spec_wf_times r HW) as (VH & VM & VS & _).
  unfold den_sub in *. unfold filt_sub.
  destruct Hfr as [->|[->| ->]]; rewrite Hf in *.
  - change (HOURLY =? HOURLY) with true in *. cbv iota in *.
    destruct (hourly_period_day_hour r k Hf VM VS) as [Pd _]. rewrite Pd.
    pose proof (hourly_stop r rl Hn HW Hf Hsp (IOKf rl) (iokf_rebuild_ok r rl HOURLY Hn HF) s k cnt out HD) as ST.
    destruct (advance rl s _ cnt out) as [[| |s']|e] eqn:Ea; try exact ST.
    apply (hourly_next r rl Hn HW Hf Hsp (IOKf rl) (iokf_range rl) (iokf_filter r rl HOURLY Hn HF)
             (iokf_rebuild r rl HOURLY Hn HF) s k cnt out s' HD Ea).
  - change (MINUTELY =? HOURLY) with false in *. change (MINUTELY =? MINUTELY) with true in *. cbv iota in *.
    destruct (minutely_period_parts r k Hf VS) as [Pd _]. cbv zeta in Pd. fold (min_n r k) in Pd. rewrite Pd.
    pose proof (minutely_stop r rl Hn HW Hf Hsp (IOKf rl) (iokf_rebuild_ok r rl MINUTELY Hn HF) s k cnt out HD) as ST.
    destruct (advance rl s _ cnt out) as [[| |s']|e] eqn:Ea; try exact ST.
    apply (minutely_next r rl Hn HW Hf Hsp (IOKf rl) (iokf_range rl) (iokf_filter r rl MINUTELY Hn HF)
             (iokf_rebuild r rl MINUTELY Hn HF) s k cnt out s' HD Ea).
  - change (SECONDLY =? HOURLY) with false in *. change (SECONDLY =? MINUTELY) with false in *. cbv iota in *.
    destruct (secondly_period_parts r k Hf) as [Pd _]. cbv zeta in Pd. fold (sec_n r k) in Pd. rewrite Pd.
    pose proof (secondly_stop r rl Hn HW Hf Hsp (IOKf rl) (iokf_rebuild_ok r rl SECONDLY Hn HF) s k cnt out HD) as ST.
    destruct (advance rl s _ cnt out) as [[| |s']|e] eqn:Ea; try exact ST.
    apply (secondly_next r rl Hn HW Hf Hsp (IOKf rl) (iokf_range rl) (iokf_filter r rl SECONDLY Hn HF)
             (iokf_rebuild r rl SECONDLY Hn HF) s k cnt out s' HD Ea).
Qed.

(* the constructor's state is the cursor of period 0 *)
Theorem init_state_den_sub : forall r rl fr, normalize r = Ok rl -> sfam r fr ->
  fr = HOURLY \/ fr = MINUTELY \/ fr = SECONDLY ->
  exists s0, init_state rl = Ok s0 /\ den_sub r rl s0 0 /\ c_count s0 = r_count r /\ c_out s0 = [].
Proof.
  intros r rl fr Hn HF Hfr. pose proof HF as [HW Hf _ Hsp _ _].
  unfold den_sub. destruct Hfr as [->|[->| ->]]; rewrite Hf.
  - change (HOURLY =? HOURLY) with true. cbv iota.
    destruct (RRSubInit.hourly_init_exists r rl Hn HW Hf Hsp (fam_rebuild_init r rl HOURLY Hn HF)) as [s0 E].
    exists s0. split; [exact E|].
    apply (init_state_den r rl Hn HW Hf Hsp (IOKf rl) (iokf_range rl) (iokf_filter r rl HOURLY Hn HF)
             (iokf_rebuild r rl HOURLY Hn HF) (iokf_init r rl HOURLY HF) s0 E).
  - change (MINUTELY =? HOURLY) with false. change (MINUTELY =? MINUTELY) with true. cbv iota.
    destruct (RRSubInit.minutely_init_exists r rl Hn HW Hf Hsp (fam_rebuild_init r rl MINUTELY Hn HF)) as [s0 E].
    exists s0. split; [exact E|].
    apply (init_state_denM r rl Hn HW Hf Hsp (IOKf rl) (iokf_range rl) (iokf_filter r rl MINUTELY Hn HF)
             (iokf_rebuild r rl MINUTELY Hn HF) (iokf_init r rl MINUTELY HF) s0 E).
  - change (SECONDLY =? HOURLY) with false. change (SECONDLY =? MINUTELY) with false. cbv iota.
    destruct (RRSubInit.secondly_init_exists r rl Hn HW Hf Hsp (fam_rebuild_init r rl SECONDLY Hn HF)) as [s0 E].
    exists s0. split; [exact E|].
    apply (init_state_denS r rl Hn HW Hf Hsp (IOKf rl) (iokf_range rl) (iokf_filter r rl SECONDLY Hn HF)
             (iokf_rebuild r rl SECONDLY Hn HF) (iokf_init r rl SECONDLY HF) s0 E).
Qed.

(* non-vacuity of the Err branch: rrule(MINUTELY, dtstart=datetime(2024,1,1,0,0), interval=90,
   byhour=(1,), byminute=(0,), count=3) -- the constructor accepts it (minute 0 is on the grid), the
   periods are the multiples of 90 minutes, 01:00 is none of them: the real _iter raises ValueError
   ("Invalid combination of interval and byhour resulting in empty rule.") in its first advance, the
   model does the same, and the specification's sequence is empty *)
Definition raw_minutely_valueerror : raw :=
  mkRaw MINUTELY false 2024 1 1 0 0 0 90 0 (Some 3) None false
        None None None None None None None (Some [1]) (Some [0]) None.
Example minutely_valueerror_example :
  sfam raw_minutely_valueerror MINUTELY /\
  match normalize raw_minutely_valueerror with
  | Ok rl => iterate rl 100 40 = ([], TRaised EValue) /\
             fst (spec_iter raw_minutely_valueerror 100 60) = []
  | Err _ => False
  end.
Proof. split; [constructor; reflexivity|vm_compute; split; reflexivity]. Qed.
