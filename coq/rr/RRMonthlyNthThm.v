(* C01 layer 7 -- MONTHLY rules with nth weekdays (BYDAY=+1MO,-1FR,...; plain and nth mixed), with or
   without BYSETPOS: rrule_iter_correct for every fuel.  rebuild() recomputes the nth-weekday mask at
   every month change from data that does not depend on the previous iterinfo. *)
From Coq Require Import ZArith List Bool Lia ZifyBool.
From V Require Import base.Cal gen.RrTables rr.RRBase rr.RRNorm rr.RRMasks rr.RRIter rr.RRSpec
  rr.RROverlay rr.RRTablesThm rr.RRWeekDefs rr.RRWeekThm rr.RRWeekCal rr.RRWeekFinal rr.RRWeekTop rr.RRNwdThm rr.RRNwdCal rr.RRFilterThm rr.RRFilterSpec
  rr.RRGateThm rr.RRTimesetThm
  rr.RRDaysetThm rr.RRAdvanceThm rr.RRIterThm rr.RRPassThm rr.RRYearlyThm rr.RRYearlyEasterThm
  rr.RRCountThm rr.RRYearlyCountThm rr.RRYearlyUntilThm rr.RRDailyThm rr.RRMonthlyThm rr.RRSetposThm
  rr.RRCoarseRun rr.RRMonthlyFullThm.
Import ListNotations.
Ltac Zify.zify_post_hook ::= Z.to_euclidean_division_equations.
Open Scope Z_scope.

(* rebuild() within the same year for a MONTHLY rule with nth weekdays, month changed *)
Theorem rebuild_nth_same_year : forall rl y m0 m ii,
  rebuild rl ii_init y m0 = Ok ii -> 1 <= y <= 9999 -> freq rl = MONTHLY ->
  truthy (bynweekday rl) = true -> truthy (byeaster rl) = false -> m <> m0 ->
  rebuild rl ii y m = rebuild rl ii_init y m.
Proof.
  intros rl y m0 m ii HR Hy Nfr TN TE Hne.
  revert HR. unfold rebuild at 1.
  destruct (is_leap y) eqn:L0; destruct (is_leap (y + 1)) eqn:L1.
  all: change (lastyear ii_init) with (@None Z); change (opt_neqb None y) with true; cbv iota.
  all: change (lastmonth ii_init) with (@None Z); change (opt_neqb None m0) with true.
  all: destruct (date_ord y 1 1) as [yo|e] eqn:ED; cbn [bind]; [|discriminate].
  all: match goal with |- context [if ?c then (T_M365MASK, _, _, _) else _] =>
         destruct (if c then (T_M365MASK, T_MDAY365MASK, T_NMDAY365MASK, T_M365RANGE)
                   else (T_M366MASK, T_MDAY366MASK, T_NMDAY366MASK, T_M366RANGE)) as [[[mm mdm] nmdm] mr] eqn:ET end.
  all: destruct (if negb (truthy (byweekno rl)) then _ else _) as [wno|e] eqn:EW; cbn [bind]; [|discriminate].
  all: rewrite TN, TE, Nfr; cbn [andb orb bind nwdaymask eastermask yearordinal yearlen mrange wdaymask].
  all: change (MONTHLY =? YEARLY) with false; change (MONTHLY =? MONTHLY) with true; cbv iota; cbn [nonempty].
  all: destruct (fold_res _ _ _) as [nm|e] eqn:EF; cbn [bind]; [|discriminate].
  all: intros E; injection E as E; rewrite <- E; clear E ii.
  all: unfold rebuild; cbn [lastyear lastmonth yearlen nextyearlen yearordinal yearweekday mmask mrange
         mdaymask nmdaymask wdaymask wnomask nwdaymask eastermask].
  all: unfold opt_neqb at 1; rewrite Z.eqb_refl; cbn [negb].
  all: change (lastyear ii_init) with (@None Z); change (opt_neqb None y) with true; cbv iota.
  all: change (lastmonth ii_init) with (@None Z); change (opt_neqb None m) with true.
  all: rewrite ?L0, ?L1, ED; cbn [bind]; rewrite ?ET, EW; cbn [bind]; rewrite TN, TE, Nfr;
       cbn [andb orb bind nwdaymask eastermask yearordinal yearlen mrange wdaymask lastyear lastmonth].
  all: change (MONTHLY =? YEARLY) with false; change (MONTHLY =? MONTHLY) with true; cbv iota; cbn [nonempty].
  all: replace (opt_neqb (Some m0) m) with true
         by (symmetry; unfold opt_neqb; apply negb_true_iff; apply Z.eqb_neq; lia).
  all: unfold opt_neqb; rewrite ?Z.eqb_refl; cbn [negb orb].
  all: change (365 + 1) with 366 in *; change (365 + 0) with 365 in *.
  all: reflexivity.
Qed.

(* rebuild() on the iterinfo of another year: everything is recomputed *)
Theorem rebuild_nth_other_year : forall rl ii y m,
  opt_neqb (lastyear ii) y = true -> freq rl = MONTHLY -> truthy (bynweekday rl) = true ->
  truthy (byeaster rl) = false -> eastermask ii = None ->
  rebuild rl ii y m = rebuild rl ii_init y m.
Proof.
  intros rl ii y m HL Nfr TN TE HE. unfold rebuild. rewrite HL, TN, TE, Nfr.
  change (lastyear ii_init) with (@None Z). change (opt_neqb None y) with true. cbv iota.
  change (lastmonth ii_init) with (@None Z). change (opt_neqb None m) with true.
  rewrite orb_true_r. cbn [andb orb].
  change (MONTHLY =? YEARLY) with false. change (MONTHLY =? MONTHLY) with true. cbv iota.
  destruct (date_ord y 1 1) as [yo|e]; cbn [bind]; [|reflexivity].
  destruct (if 365 + (if is_leap y then 1 else 0) =? 365 then _ else _) as [[[mm mdm] nmdm] mr].
  destruct (if negb (truthy (byweekno rl)) then _ else _) as [wno|e]; cbn [bind]; [|reflexivity].
  cbn [nwdaymask eastermask yearordinal yearlen nextyearlen yearweekday mmask mrange mdaymask nmdaymask
       wdaymask wnomask nonempty].
  rewrite HE. change (eastermask ii_init) with (@None (list Z)).
  destruct (fold_res _ _ _) as [nm|e]; cbn [bind]; reflexivity.
Qed.

(* the nth-weekday pairs the constructor stores are well-formed *)
Lemma nth_pairs_ok r rl : normalize r = Ok rl -> spec_wf r = true -> (MONTHLY <? r_freq r) = false ->
  forall wn, In wn (opt_list (bynweekday rl)) -> pair_ok wn.
Proof.
  intros HN HW Hfr wn Hin.
  destruct (normalize_fields r rl HN) as (_ & _ & _ & _ & _ & _ & Nwd).
  unfold spec_wf in HW.
  repeat match type of HW with _ && _ = true =>
    let H := fresh "W" in apply andb_true_iff in HW; destruct HW as [HW H] end.
  unfold wd_split in Nwd.
  destruct (eff_byweekday r) as [l|] eqn:EL.
  2:{ injection Nwd as _ Q. rewrite Q in Hin. destruct Hin. }
  assert (WD : forallb (fun wn : Z * Z => between 0 6 (fst wn)) l = true).
  { unfold eff_byweekday in EL. destruct (r_byweekday r) as [l0|].
    - injection EL as <-. assumption.
    - destruct (no_day_part r && (r_freq r =? WEEKLY)); [|discriminate EL]. injection EL as <-.
      cbn [forallb fst]. unfold between. pose proof (weekday_of_ord_range (sp_ord0 r)). lia. }
  pose proof (split_spec (r_freq r) (fun _ => true) 0 l Hfr) as SP.
  destruct (split_weekday (r_freq r) l) as [plain nth]. destruct SP as [_ SP2].
  assert (Hin' : In wn (sort_set_pair nth)).
  { destruct (negb (nonempty (sort_set plain))); [injection Nwd as _ Q; rewrite Q in Hin; exact Hin|].
    destruct (negb (nonempty (sort_set_pair nth))); injection Nwd as _ Q; rewrite Q in Hin; [destruct Hin|exact Hin]. }
  apply (proj1 (In_sort_set_pair wn nth)) in Hin'. destruct (SP2 wn Hin') as [Hl Hn].
  split; [|exact Hn]. rewrite forallb_forall in WD. specialize (WD wn Hl). unfold between in WD. lia.
Qed.

(* a rule whose BYDAY is not plain has a non-empty nth-weekday list *)
Lemma not_plain_has_nth r rl : normalize r = Ok rl -> (MONTHLY <? r_freq r) = false ->
  plain_only r = false -> truthy (bynweekday rl) = true.
Proof.
  intros HN Hfr Hp.
  destruct (normalize_fields r rl HN) as (_ & _ & _ & _ & _ & _ & Nwd).
  unfold wd_split in Nwd. unfold plain_only in Hp.
  destruct (r_byweekday r) as [l0|] eqn:EB; [|discriminate Hp]. cbn [opt_list] in Hp.
  assert (EL : eff_byweekday r = Some l0) by (unfold eff_byweekday; rewrite EB; reflexivity).
  rewrite EL in Nwd.
  assert (EX : exists wn, In wn l0 /\ snd wn <> 0).
  { clear -Hp. induction l0 as [|[w n] t IH]; [discriminate Hp|]. cbn [forallb snd] in Hp.
    destruct (n =? 0) eqn:En.
    - cbn [andb] in Hp. destruct (IH Hp) as (wn & Hin & Hn). exists wn. split; [right; exact Hin|exact Hn].
    - exists (w, n). split; [left; reflexivity|cbn [snd]; lia]. }
  destruct EX as ([w n] & Hin & Hn). cbn [snd] in Hn.
  assert (IN : In (w, n) (snd (split_weekday (r_freq r) l0))).
  { clear -Hin Hn Hfr. unfold split_weekday. induction l0 as [|[w' n'] t IH]; [destruct Hin|].
    cbn [fold_right]. destruct Hin as [E|Hin].
    - injection E as -> ->. rewrite Hfr. replace (n =? 0) with false by lia. cbn [orb snd]. left. reflexivity.
    - specialize (IH Hin). destruct ((n' =? 0) || (MONTHLY <? r_freq r)); cbn [snd]; [exact IH|right; exact IH]. }
  destruct (split_weekday (r_freq r) l0) as [plain nth]. cbn [snd] in IN.
  assert (NE : nonempty (sort_set_pair nth) = true).
  { apply (proj2 (In_sort_set_pair (w, n) nth)) in IN. destruct (sort_set_pair nth); [destruct IN|reflexivity]. }
  rewrite NE in Nwd. cbn [negb] in Nwd.
  destruct (negb (nonempty (sort_set plain))); injection Nwd as _ Q; rewrite Q; cbn [truthy];
    destruct (sort_set_pair nth); try discriminate NE; reflexivity.
Qed.

(* rebuild() succeeds for MONTHLY rules with nth weekdays *)
Theorem rebuild_nth_succeeds : forall rl y month,
  1 <= y <= 9999 -> 1 <= month <= 12 -> 0 <= wkst rl <= 6 -> freq rl = MONTHLY ->
  truthy (bynweekday rl) = true -> truthy (byeaster rl) = false ->
  (forall wn, In wn (opt_list (bynweekday rl)) -> pair_ok wn) ->
  exists ii', rebuild rl ii_init y month = Ok ii'.
Proof.
  intros rl y month Hy Hm Hk Nfr TN TE PK. unfold rebuild.
  change (lastyear ii_init) with (@None Z). change (opt_neqb None y) with true. cbv iota.
  change (lastmonth ii_init) with (@None Z). change (opt_neqb None month) with true.
  unfold date_ord. assert (V : valid_ymd y 1 1 = true) by (unfold valid_ymd; change (dim y 1) with 31; lia).
  rewrite V. cbn [bind]. fold (jan1 y). rewrite !year_len_365.
  assert (T : (if year_len y =? 365
               then (T_M365MASK, T_MDAY365MASK, T_NMDAY365MASK, T_M365RANGE)
               else (T_M366MASK, T_MDAY366MASK, T_NMDAY366MASK, T_M366RANGE)) =
              (fst (fst (fst (masks_for y))), snd (fst (fst (masks_for y))), snd (fst (masks_for y)),
               RRNwdCal.mrange_of (is_leap y))).
  { unfold masks_for, tables_of, RRNwdCal.mrange_of, year_len. destruct (is_leap y); reflexivity. }
  rewrite T. clear T.
  assert (W : exists wno,
     (if negb (truthy (byweekno rl)) then Ok None
      else do m <- build_wnomask y (year_len y) (year_len (y + 1)) (weekday_of_ord (jan1 y)) (wkst rl)
                     (py_from T_WDAYMASK (weekday_of_ord (jan1 y))) (opt_list (byweekno rl));
           Ok (Some m)) = Ok wno).
  { destruct (negb (truthy (byweekno rl))); [eexists; reflexivity|].
    destruct (wnomask_no_index_error_calendar y (wkst rl) (opt_list (byweekno rl)) Hk) as (m & Em).
    cbv zeta in Em. rewrite Em. cbn [bind]. eexists; reflexivity. }
  destruct W as (wno & Ew). rewrite Ew. cbn [bind]. rewrite TN, TE, Nfr. cbn [andb orb yearlen mrange wdaymask].
  change (MONTHLY =? YEARLY) with false. change (MONTHLY =? MONTHLY) with true. cbv iota.
  cbn [nonempty]. unfold py_repeat. fold (zeros (Z.to_nat (year_len y))).
  fold (wdm_of (weekday_of_ord (jan1 y))).
  destruct (nwdaymask_monthly_calendar y month (opt_list (bynweekday rl)) Hm PK) as (m' & Ef' & _).
  cbv zeta in Ef'. rewrite Ef'. cbn [bind]. eexists; reflexivity.
Qed.

(* ------------------------------------------------------------------ the whole MONTHLY family *)
Record mfam_all (r : raw) : Prop := mk_mfam_all {
  ma_wf : spec_wf r = true;
  ma_freq : r_freq r = MONTHLY;
  ma_weekno : all_opt (r_byweekno r) weekno_safe = true;
  ma_easter : r_byeaster r = None
}.

(* rrule_iter_correct for every MONTHLY rule of the specification's domain without BYEASTER (BYWEEKNO in
   the RFC range): plain and nth weekdays, BYSETPOS, COUNT, UNTIL, any interval; every fuel *)
Theorem monthly_iter_correct_all : forall r rl limit n,
  normalize r = Ok rl -> mfam_all r ->
  fst (iterate rl limit n) = fst (spec_iter r limit n).
Proof.
  intros r rl limit n HN [HW Hfr Hs He].
  destruct (plain_only r) eqn:Hp.
  - apply (monthly_setpos_iter_correct r rl limit n HN). constructor; assumption.
  - pose proof (normalize_wkst r rl HN) as Nwk.
    pose proof (normalize_freq r rl HN) as Nfr. rewrite Hfr in Nfr.
    pose proof (not_plain_has_nth r rl HN ltac:(rewrite Hfr; reflexivity) Hp) as TN.
    pose proof (nth_pairs_ok r rl HN HW ltac:(rewrite Hfr; reflexivity)) as PK.
    destruct (normalize_fields r rl HN) as (_ & _ & _ & _ & _ & Nea & _).
    assert (TE : truthy (byeaster rl) = false) by (rewrite Nea, He; reflexivity).
    assert (Hwk : 0 <= wkst rl <= 6).
    { rewrite Nwk. pose proof HW as HW'. unfold spec_wf in HW'.
      repeat match type of HW' with _ && _ = true =>
        let H := fresh "W" in apply andb_true_iff in HW'; destruct HW' as [HW' H] end.
      unfold between in *. lia. }
    apply (monthly_iter_correct2 r rl HN HW Hfr 1 9999); [| | |apply (start_year_range_m r HW)|intros j _; unfold okp_m; lia].
    + intros y m Hy Hm. apply (rebuild_nth_succeeds rl y m Hy Hm Hwk Nfr TN TE PK).
    + intros y m ii y' m' Hy Hm Ar Hy' Hm' Hne.
      destruct (Z.eq_dec y' y) as [->|Hney].
      * apply (rebuild_nth_same_year rl y m m' ii Ar Hy Nfr TN TE). destruct Hne as [H|H]; [contradiction|exact H].
      * destruct (rebuild_slots rl y m ii Hy Ar) as (LY & EM).
        apply rebuild_nth_other_year; [|exact Nfr|exact TN|exact TE|apply EM; exact TE].
        rewrite LY. unfold opt_neqb. apply negb_true_iff. apply Z.eqb_neq. lia.
    + intros y m ii i Hy Hm Ar Hi.
      apply (day_filter_correct_monthly_nth_guarded r rl y m ii i HN HW Hfr TN Hs (or_introl He) Hy Hm Ar Hi).
Qed.

(* non-vacuity: rrule(MONTHLY, dtstart=datetime(2023,11,1,9,0), byweekday=(MO(+1), FR(-1), WE), bysetpos=(2,-1),
   count=6): second and last of {first Monday, last Friday, every Wednesday} of each month *)
Definition raw_monthly_nth_example : raw :=
  mkRaw MONTHLY false 2023 11 1 9 0 0 1 0 (Some 6) None false
        (Some [2; -1]) None None None None None (Some [(0, 1); (4, -1); (2, 0)]) None None None.
Example monthly_nth_example :
  mfam_all raw_monthly_nth_example /\ plain_only raw_monthly_nth_example = false /\
  match normalize raw_monthly_nth_example with
  | Ok rl => fst (iterate rl 100 40) =
             [(ord_of_ymd 2023 11 6, 32400); (ord_of_ymd 2023 11 29, 32400); (ord_of_ymd 2023 12 6, 32400);
              (ord_of_ymd 2023 12 29, 32400); (ord_of_ymd 2024 1 3, 32400); (ord_of_ymd 2024 1 31, 32400)]
  | Err _ => False
  end.
Proof. split; [constructor; reflexivity|split; [reflexivity|vm_compute; reflexivity]]. Qed.
