(* C01 sub-daily, specification side: period k of a sub-daily rule starts k * interval units
   after the start's unit; `period_cands r k` is its candidate list exactly as RRSpec's
   `cands_subdaily_day` computes it (`cands_subdaily_day_periods`).  A period whose own hour /
   minute / second is not in a supplied BY-list, or whose day fails day_ok, has no candidates.
   Written by the rset builder (new file). *)
From Coq Require Import ZArith List Bool Lia ZifyBool.
From V Require Import base.Cal easter.EasterSpec rr.RRBase rr.RRNorm rr.RRSpec.
Import ListNotations.
Open Scope Z_scope.

Definition sub_t0 (r : raw) : Z := sp_ord0 r * 86400 + (sp_sod0 r / unit_secs r) * unit_secs r.
Definition sub_stp (r : raw) : Z := r_interval r * unit_secs r.
Definition period_start (r : raw) (k : Z) : Z := sub_t0 r + k * sub_stp r.

Definition period_cands (r : raw) (k : Z) : list instant :=
  let t := period_start r k in
  let o := t / 86400 in
  if day_ok r o then select_pos r (map (fun x => (o, x)) (period_times r (t mod 86400))) else [].

Lemma select_pos_nil : forall r, select_pos r [] = [].
Proof. intro r. unfold select_pos. destruct (r_bysetpos r); reflexivity. Qed.

Lemma flat_map_ext_in : forall (A B : Type) (f g : A -> list B) l,
  (forall x, In x l -> f x = g x) -> flat_map f l = flat_map g l.
Proof.
  intros A B f g l. induction l as [|a l IH]; intro H; simpl; [reflexivity|].
  rewrite (H a (or_introl eq_refl)), IH; [reflexivity|]. intros x Hx. apply H. right. assumption.
Qed.

Lemma in_zrange_nat : forall n a x, In x (zrange_nat a n) <-> a <= x < a + Z.of_nat n.
Proof.
  induction n as [|n IH]; intros a x; cbn [zrange_nat]; [simpl; lia|].
  simpl In. rewrite IH. lia.
Qed.

Lemma in_zrange : forall a b x, In x (zrange a b) <-> a <= x < b.
Proof. intros a b x. unfold zrange. rewrite in_zrange_nat. lia. Qed.

(* the day-wise enumeration of RRSpec is the concatenation of the periods starting on that day *)
Theorem cands_subdaily_day_periods : forall r j, 1 <= r_interval r ->
  let u := unit_secs r in
  let stp := r_interval r * u in
  let t0 := sub_t0 r in
  let dlo := (sp_ord0 r + j) * 86400 in
  let klo := Z.max 0 ((dlo - t0 + stp - 1) / stp) in
  let khi := (dlo + 86399 - t0) / stp in
  cands_subdaily_day r j = flat_map (period_cands r) (zrange klo (khi + 1)).
Proof.
  intros r j Hi. cbv zeta. unfold cands_subdaily_day.
  assert (Hu : 1 <= unit_secs r) by (unfold unit_secs; destruct (_ =? _); [lia|destruct (_ =? _); lia]).
  set (u := unit_secs r) in *. set (stp := r_interval r * u).
  assert (Hs : 1 <= stp) by (unfold stp; nia).
  fold (sub_t0 r). set (t0 := sub_t0 r). set (dlo := (sp_ord0 r + j) * 86400).
  set (klo := Z.max 0 ((dlo - t0 + stp - 1) / stp)). set (khi := (dlo + 86399 - t0) / stp).
  assert (Hk : forall k, In k (zrange klo (khi + 1)) ->
            (t0 + k * stp) / 86400 = sp_ord0 r + j /\ (t0 + k * stp) mod 86400 = t0 + k * stp - dlo).
  { intros k Hk. apply in_zrange in Hk.
    assert (H1 : dlo <= t0 + k * stp).
    { pose proof (Z.div_mod (dlo - t0 + stp - 1) stp ltac:(lia)) as D.
      pose proof (Z.mod_pos_bound (dlo - t0 + stp - 1) stp ltac:(lia)) as B.
      assert ((dlo - t0 + stp - 1) / stp <= k) by (unfold klo in Hk; lia). nia. }
    assert (H2 : t0 + k * stp <= dlo + 86399).
    { pose proof (Z.div_mod (dlo + 86399 - t0) stp ltac:(lia)) as D.
      pose proof (Z.mod_pos_bound (dlo + 86399 - t0) stp ltac:(lia)) as B.
      assert (k <= (dlo + 86399 - t0) / stp) by (unfold khi in Hk; lia). nia. }
    assert (Hq : (t0 + k * stp) / 86400 = sp_ord0 r + j).
    { symmetry. apply (Z.div_unique (t0 + k * stp) 86400 (sp_ord0 r + j) (t0 + k * stp - dlo)); [lia|].
      unfold dlo. ring. }
    split; [exact Hq|]. rewrite Z.mod_eq by lia. rewrite Hq. unfold dlo. ring. }
  destruct (day_ok r (sp_ord0 r + j)) eqn:Ed; cbn [negb].
  - apply flat_map_ext_in. intros k Hk'. destruct (Hk k Hk') as [Hq Hm].
    unfold period_cands, period_start, sub_stp. fold u. fold stp. fold t0. rewrite Hq, Hm, Ed. reflexivity.
  - symmetry. induction (zrange klo (khi + 1)) as [|k l IH]; [reflexivity|].
    simpl. rewrite IH by (intros k' Hk'; apply Hk; right; assumption).
    destruct (Hk k (or_introl eq_refl)) as [Hq _].
    unfold period_cands, period_start, sub_stp. fold u. fold stp. fold t0. rewrite Hq, Ed. reflexivity.
Qed.

(* ------------------------------------------------------------------ empty periods *)
Lemma period_cands_bad_day : forall r k, day_ok r (period_start r k / 86400) = false -> period_cands r k = [].
Proof. intros r k H. unfold period_cands. rewrite H. reflexivity. Qed.

Lemma period_cands_no_times : forall r k, period_times r (period_start r k mod 86400) = [] -> period_cands r k = [].
Proof.
  intros r k H. unfold period_cands. rewrite H. cbn [map]. rewrite select_pos_nil.
  destruct (day_ok r _); reflexivity.
Qed.

(* HOURLY: shape of period k and its time list *)
Lemma hourly_period_start : forall r k, r_freq r = HOURLY ->
  0 <= sp_M0 r <= 59 -> 0 <= sp_S0 r <= 59 ->
  period_start r k = (sp_ord0 r * 24 + sp_H0 r + k * r_interval r) * 3600.
Proof.
  intros r k Hf HM HS. unfold period_start, sub_t0, sub_stp, unit_secs, sp_sod0. rewrite Hf. cbn.
  replace ((sp_H0 r * 3600 + sp_M0 r * 60 + sp_S0 r) / 3600) with (sp_H0 r); [ring|].
  apply (Z.div_unique _ 3600 (sp_H0 r) (sp_M0 r * 60 + sp_S0 r)); lia.
Qed.

Lemma hourly_period_day_hour : forall r k, r_freq r = HOURLY ->
  0 <= sp_M0 r <= 59 -> 0 <= sp_S0 r <= 59 ->
  period_start r k / 86400 = sp_ord0 r + (sp_H0 r + k * r_interval r) / 24 /\
  period_start r k mod 86400 = ((sp_H0 r + k * r_interval r) mod 24) * 3600.
Proof.
  intros r k Hf HM HS. rewrite (hourly_period_start r k Hf HM HS).
  set (n := sp_H0 r + k * r_interval r).
  replace (sp_ord0 r * 24 + sp_H0 r + k * r_interval r) with (sp_ord0 r * 24 + n) by (unfold n; ring).
  pose proof (Z.div_mod n 24 ltac:(lia)) as D. pose proof (Z.mod_pos_bound n 24 ltac:(lia)) as B.
  assert (Hq : (sp_ord0 r * 24 + n) * 3600 / 86400 = sp_ord0 r + n / 24).
  { symmetry. apply (Z.div_unique _ 86400 (sp_ord0 r + n / 24) ((n mod 24) * 3600)); lia. }
  split; [exact Hq|]. rewrite Z.mod_eq by lia. rewrite Hq. lia.
Qed.

Lemma period_times_hourly_out : forall r h l, r_freq r = HOURLY -> 0 <= h <= 23 ->
  r_byhour r = Some l -> memZ h l = false -> period_times r (h * 3600) = [].
Proof.
  intros r h l Hf Hh Hl Hm. unfold period_times. rewrite Hf, Hl.
  replace (h * 3600 / 3600) with h by (symmetry; apply Z.div_mul; lia).
  change (HOURLY <? HOURLY) with false. cbv iota.
  unfold in_opt. fold (memZ h l). rewrite Hm. reflexivity.
Qed.

(* ------------------------------------------------------------------ MINUTELY / SECONDLY periods *)
Lemma flat_map_all_nil : forall (A B : Type) (f : A -> list B) l, (forall x, f x = []) -> flat_map f l = [].
Proof. intros A B f l H. induction l as [|a l IH]; simpl; [reflexivity|]. rewrite H, IH. reflexivity. Qed.

Lemma minutely_period_parts : forall r k, r_freq r = MINUTELY -> 0 <= sp_S0 r <= 59 ->
  let n := sp_H0 r * 60 + sp_M0 r + k * r_interval r in
  period_start r k / 86400 = sp_ord0 r + n / 1440 /\
  period_start r k mod 86400 = (n mod 1440) * 60.
Proof.
  intros r k Hf HS n. unfold period_start, sub_t0, sub_stp, unit_secs, sp_sod0. rewrite Hf. cbn.
  replace ((sp_H0 r * 3600 + sp_M0 r * 60 + sp_S0 r) / 60) with (sp_H0 r * 60 + sp_M0 r)
    by (apply (Z.div_unique _ 60 _ (sp_S0 r)); lia).
  replace (sp_ord0 r * 86400 + (sp_H0 r * 60 + sp_M0 r) * 60 + k * (r_interval r * 60))
    with ((sp_ord0 r * 1440 + n) * 60) by (unfold n; ring).
  pose proof (Z.div_mod n 1440 ltac:(lia)) as D. pose proof (Z.mod_pos_bound n 1440 ltac:(lia)) as B.
  assert (Hq : (sp_ord0 r * 1440 + n) * 60 / 86400 = sp_ord0 r + n / 1440).
  { symmetry. apply (Z.div_unique _ 86400 (sp_ord0 r + n / 1440) ((n mod 1440) * 60)); lia. }
  split; [exact Hq|]. rewrite Z.mod_eq by lia. rewrite Hq. lia.
Qed.

Lemma period_times_minutely_out : forall r a, r_freq r = MINUTELY -> 0 <= a < 1440 ->
  (exists l, r_byminute r = Some l /\ memZ (a mod 60) l = false) \/
  (exists l, r_byhour r = Some l /\ memZ (a / 60) l = false) ->
  period_times r (a * 60) = [].
Proof.
  intros r a Hf Ha Hbad. unfold period_times. rewrite Hf.
  replace (a * 60 / 3600) with (a / 60) by (change 3600 with (60 * 60); rewrite Z.div_mul_cancel_r by lia; reflexivity).
  replace (a * 60 / 60) with a by (symmetry; apply Z.div_mul; lia).
  change (MINUTELY <? HOURLY) with false. change (MINUTELY <? MINUTELY) with false. cbv iota.
  destruct Hbad as [[l [El Hm]]|[l [El Hm]]].
  - rewrite El. unfold in_opt. fold (memZ (a mod 60) l). rewrite Hm.
    apply flat_map_all_nil. intro h. reflexivity.
  - rewrite El. unfold in_opt. fold (memZ (a / 60) l). rewrite Hm. reflexivity.
Qed.

Lemma secondly_period_parts : forall r k, r_freq r = SECONDLY ->
  let n := sp_sod0 r + k * r_interval r in
  period_start r k / 86400 = sp_ord0 r + n / 86400 /\
  period_start r k mod 86400 = n mod 86400.
Proof.
  intros r k Hf n. unfold period_start, sub_t0, sub_stp, unit_secs. rewrite Hf. cbn.
  rewrite Z.div_1_r. replace (sp_ord0 r * 86400 + sp_sod0 r * 1 + k * (r_interval r * 1))
    with (n + sp_ord0 r * 86400) by (unfold n; ring).
  split.
  - rewrite Z.div_add by lia. ring.
  - apply Z_mod_plus_full.
Qed.

Lemma period_times_secondly_out : forall r a, r_freq r = SECONDLY -> 0 <= a < 86400 ->
  (exists l, r_bysecond r = Some l /\ memZ (a mod 60) l = false) \/
  (exists l, r_byminute r = Some l /\ memZ ((a / 60) mod 60) l = false) \/
  (exists l, r_byhour r = Some l /\ memZ (a / 3600) l = false) ->
  period_times r a = [].
Proof.
  intros r a Hf Ha Hbad. unfold period_times. rewrite Hf.
  change (SECONDLY <? HOURLY) with false. change (SECONDLY <? MINUTELY) with false.
  change (SECONDLY <? SECONDLY) with false. cbv iota.
  destruct Hbad as [[l [El Hm]]|[[l [El Hm]]|[l [El Hm]]]].
  - rewrite El. unfold in_opt. fold (memZ (a mod 60) l). rewrite Hm.
    apply flat_map_all_nil. intro h. apply flat_map_all_nil. intro m. reflexivity.
  - rewrite El. unfold in_opt. fold (memZ ((a / 60) mod 60) l). rewrite Hm.
    apply flat_map_all_nil. intro h. reflexivity.
  - rewrite El. unfold in_opt. fold (memZ (a / 3600) l). rewrite Hm. reflexivity.
Qed.
