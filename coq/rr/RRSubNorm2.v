(* C01 sub-daily, shared facts (2): the non-BY attributes the constructor copies.
   Written by the rset builder (new file). *)
From Coq Require Import ZArith List Bool Lia ZifyBool.
From V Require Import base.Cal gen.RrTables easter.EasterSpec rr.RRBase rr.RRNorm rr.RRSpec.
Import ListNotations.
Open Scope Z_scope.

Lemma normalize_copied : forall r rl, normalize r = Ok rl ->
  count rl = r_count r /\ until rl = r_until r /\ bysetpos rl = r_bysetpos r /\ wkst rl = r_wkst r /\
  s_y rl = r_y r /\ s_m rl = r_m r /\ s_d rl = r_d r.
Proof.
  intros r rl. unfold normalize.
  destruct (if r_isdate r then (0, 0, 0) else (r_H r, r_M r, r_S r)) as [[hh mm] ss].
  destruct (negb (is_none (r_until r)) && r_tzmix r); [discriminate|].
  destruct (negb match r_bysetpos r with None => true | Some l => setpos_ok l end); [discriminate|].
  intros H.
  repeat match type of H with
  | (let '(_, _) := ?p in _) = _ => destruct p eqn:?
  | bind ?x _ = _ => destruct x; cbn [bind] in H; [|discriminate H]
  end.
  inversion H; subst; clear H. cbn. repeat split; reflexivity.
Qed.
