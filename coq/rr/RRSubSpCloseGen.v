(* C01 sub-daily, closing statement (generic part) WITHOUT the hypothesis "no BYSETPOS": copy of
   RRSubCloseGen.v's Section Generic with `D_lower` proved through select_pos_sub (a selection of
   a period's candidates is a sub-list of them).  `iterate_prefix_of_spec_sp`.
   Written by the rset builder (new file). *)
From Coq Require Import ZArith List Bool Lia ZifyBool.
From V Require Import base.Cal gen.RrTables easter.EasterSpec rr.RRBase rr.RRNorm rr.RRMasks rr.RRIter
  rr.RRSpec rr.RRGateThm rr.RRYearlyUntilThm rr.RRSubSpec rr.RRSubPass rr.RRSubRunBase rr.RRSubClose rr.RRSubSpBase.
Import ListNotations.
Open Scope Z_scope.

Section GenericSp.
Variables (r : raw) (rl : rule).
Hypothesis Hstart : dtstart_inst rl = sp_start r.
Hypothesis Huntil : until rl = r_until r.
Hypothesis Hsub : is_coarse r = false.
Hypothesis Hi : 1 <= r_interval r.
Hypothesis Hsod : 0 <= sp_sod0 r <= 86399.

Variable DenA : state -> Z -> Prop.
Variable filt : Z -> bool.
Hypothesis A_pass : forall s k, DenA s k ->
  step rl s = after_gate rl s (filt k) (gate_list rl (period_cands r k) (c_count s) (c_out s)).
Hypothesis A_next : forall s k cnt out s', DenA s k -> advance rl s (filt k) cnt out = Ok (AdvGo s') ->
  exists k', k < k' /\ DenA s' k' /\ (forall j, k < j < k' -> period_cands r j = []) /\
             c_count s' = cnt /\ c_out s' = out.
Hypothesis A_day : forall s k, DenA s k -> 0 <= k /\ period_start r k / 86400 <= max_ord.
Hypothesis A_init : forall s0, init_state rl = Ok s0 -> DenA s0 0 /\ c_count s0 = r_count r /\ c_out s0 = [].

Lemma period_day_mono_sp : forall j j', j <= j' -> period_start r j / 86400 <= period_start r j' / 86400.
Proof.
  intros j j' Hj. apply Z.div_le_mono; [lia|]. unfold period_start, sub_stp.
  pose proof (stp_pos r Hi). nia.
Qed.

Lemma run_gate_b_sp : forall limit n s k, DenA s k ->
  exists k_end cnt' st, k <= k_end /\
    gate_list rl (flat_map (period_cands r) (zrange k k_end)) (c_count s) (c_out s) =
      (fst (run rl limit n s), cnt', st) /\
    (k_end = k \/ period_start r (k_end - 1) / 86400 <= max_ord).
Proof.
  intros limit. induction n as [|n IH]; intros s k HD.
  - exists k, (c_count s), None. split; [lia|]. rewrite zrange_empty. split; [reflexivity|left; reflexivity].
  - cbn [run]. destruct (limit <=? zlen (c_out s)).
    + exists k, (c_count s), None. split; [lia|]. rewrite zrange_empty. split; [reflexivity|left; reflexivity].
    + rewrite (A_pass s k HD). unfold after_gate.
      destruct (gate_list rl (period_cands r k) (c_count s) (c_out s)) as [[out1 cnt1] stop] eqn:Eg.
      assert (Hone : gate_list rl (flat_map (period_cands r) (zrange k (k + 1))) (c_count s) (c_out s)
                     = (out1, cnt1, stop)).
      { rewrite zrange_single. cbn [flat_map]. rewrite app_nil_r. exact Eg. }
      assert (Hday : k + 1 = k \/ period_start r (k + 1 - 1) / 86400 <= max_ord).
      { right. replace (k + 1 - 1) with k by ring. apply (A_day s k HD). }
      destruct stop as [t|].
      * exists (k + 1), cnt1, (Some t). split; [lia|]. split; [exact Hone|exact Hday].
      * destruct (advance rl s (filt k) cnt1 out1) as [[| |s']|e] eqn:Ea;
          try (exists (k + 1), cnt1, None; split; [lia|]; split; [exact Hone|exact Hday]).
        destruct (A_next s k cnt1 out1 s' HD Ea) as (k' & Hkk & HD' & Hskip & Ec & Eo).
        destruct (IH s' k' HD') as (k_end & cnt' & st & Hke & Hg & Hb).
        exists k_end, cnt', st. split; [lia|]. split.
        -- rewrite (periods_skip r k k' k_end ltac:(lia) Hskip), gate_list_app', Eg.
           rewrite <- Ec, <- Eo. exact Hg.
        -- right. destruct Hb as [->|Hb]; [|exact Hb].
           eapply Z.le_trans; [apply (period_day_mono_sp (k' - 1) k'); lia|]. apply (A_day s' k' HD').
Qed.

(* every candidate of day j lies at or after midnight of day j *)
Lemma D_lower_sp : forall j x, In x (cands_subdaily_day r j) -> inst_le (sp_ord0 r + j, 0) x = true.
Proof.
  intros j x Hx. unfold cands_subdaily_day in Hx.
  destruct (negb (day_ok r (sp_ord0 r + j))); [destruct Hx|].
  apply in_flat_map in Hx. destruct Hx as (k & _ & Hx). apply select_pos_sub in Hx.
  apply in_map_iff in Hx. destruct Hx as (t & <- & Ht).
  pose proof (period_times_nonneg r _ t Ht). unfold inst_le. cbn [fst snd]. lia.
Qed.

Theorem iterate_prefix_of_spec_sp : forall limit n,
  exists L d rest, fst (spec_iter r L d) = fst (iterate rl limit n) ++ rest.
Proof.
  intros limit n. unfold iterate.
  case_eq (init_state rl); [intros s0 Ei|intros e Ei].
  2:{ exists 0, O, []. reflexivity. }
  destruct (A_init s0 Ei) as (HD & Ec & Eo).
  destruct (run_gate_b_sp limit n s0 0 HD) as (k_end & cnt' & st & Hk & Hg & Hb).
  rewrite Ec, Eo in Hg.
  (* the model side as sp_take *)
  pose proof (gate_take_gen rl r Hstart Huntil (flat_map (period_cands r) (zrange 0 k_end)) (r_count r) []) as GT.
  rewrite Hg in GT.
  set (M := filter (inst_le (sp_start r)) (flat_map (period_cands r) (zrange 0 k_end))) in *.
  assert (EM : fst (run rl limit n s0) = fst (fst (sp_take r M (r_count r) []))).
  { destruct (sp_take r M (r_count r) []) as [[a1 c1'] b1]. destruct GT as [E _]. exact E. }
  assert (Hout : fst (let '(out, t) := run rl limit n s0 in (rev out, t)) = rev (fst (run rl limit n s0)))
    by (destruct (run rl limit n s0); reflexivity).
  rewrite Hout, EM. clear Hout.
  destruct (Z.eqb_spec k_end 0) as [E0|Hne].
  { (* nothing was processed *)
    subst k_end. unfold M. rewrite zrange_empty. cbn [flat_map filter sp_take fst rev].
    exists 0, O, []. reflexivity. }
  destruct Hb as [Eb|Hb]; [lia|].
  set (J := period_start r (k_end - 1) / 86400 - sp_ord0 r).
  assert (Hge : 0 <= J).
  { unfold J. assert (sp_ord0 r <= period_start r (k_end - 1) / 86400); [|lia].
    apply Z.div_le_lower_bound; [lia|]. unfold period_start, sub_stp.
    pose proof (t0_bounds r Hsod). pose proof (stp_pos r Hi). nia. }
  assert (HK : k_end <= kstart r (J + 1)).
  { rewrite (kstart_succ r Hi Hsod) by lia.
    pose proof (period_before_kend r Hi Hsod (k_end - 1) J ltac:(unfold J; lia)). lia. }
  set (d := Z.to_nat (J + 1)).
  assert (Ed : Z.of_nat d = J + 1) by (unfold d; lia).
  set (DL := flat_map (cands_subdaily_day r) (zrange_nat 0 d)).
  set (L := 1 + Z.of_nat (length DL)).
  exists L, d.
  assert (C1 : sp_ord0 r + 0 + Z.of_nat d - 1 <= max_ord) by (rewrite Ed; unfold J; lia).
  assert (C2 : zlen (@nil instant) + Z.of_nat (length DL) < L) by (unfold L, zlen; cbn [length]; lia).
  pose proof (spec_loop_take r Hsub D_lower_sp L d 0 (r_count r) [] C1 C2) as SL.
  fold DL in SL. clearbody L.
  assert (EDL : DL = flat_map (period_cands r) (zrange 0 k_end) ++
                     flat_map (period_cands r) (zrange k_end (kstart r (J + 1)))).
  { unfold DL. rewrite (days_are_periods r Hi Hsod d), Ed.
    rewrite (zrange_split 0 k_end (kstart r (J + 1))) by lia. apply flat_map_app. }
  rewrite EDL, filter_app in SL. fold M in SL.
  destruct (sp_take_prefix r M (filter (inst_le (sp_start r))
              (flat_map (period_cands r) (zrange k_end (kstart r (J + 1))))) (r_count r) []) as [more Em].
  rewrite Em in SL.
  exists (rev more). unfold spec_iter.
  destruct (spec_loop r L d 0 (r_count r) []) as [acc t]. cbn [fst] in *.
  rewrite SL, rev_app_distr. reflexivity.
Qed.

End GenericSp.
