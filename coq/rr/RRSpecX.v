(* C01 -- the EXTENDED domain of the specification (audit round, 2026-10-02).
   RRSpec.spec_wf is the RFC 5545 value grammar (the domain of the loop theorems).  The property's last sentence
   ("a rule that can never match either raises ValueError -- when built or when first iterated -- or yields
   nothing; it never yields a wrong instant") is about members OUTSIDE that grammar that can simply never match.
   spec_xwf admits them: BYHOUR / BYMINUTE / BYSECOND members outside 0..23 / 0..59 and BYMONTHDAY 0.  The
   specification needs no change for them: RRSpec.period_times drops hour/minute/second combinations that are not
   a time of day (valid_hms) and compares a sub-daily period's own value with the members, and day_ok compares the
   day of the month with the members (0 equals neither d nor d - len - 1), so a never-matching member contributes
   nothing.  For rules in spec_xwf but not in spec_wf the check compares the implementation with THIS
   specification; a ValueError at construction or at the first iteration is accepted there (the argument is
   outside the RFC grammar), any other exception class and any instant outside the specified sequence is not. *)
From Coq Require Import ZArith List Bool.
From V Require Import base.Cal rr.RRBase rr.RRNorm rr.RRSpec.
Import ListNotations.
Open Scope Z_scope.

Definition spec_xwf (r : raw) : bool :=
  between 0 6 (r_freq r) && (1 <=? r_interval r) && between 0 6 (r_wkst r) &&
  valid_ymd (r_y r) (r_m r) (r_d r) && valid_hms (sp_H0 r) (sp_M0 r) (sp_S0 r) &&
  negb ((negb (is_none (r_until r))) && r_tzmix r) &&
  ne_opt (r_bysetpos r) && ne_opt (r_bymonth r) && ne_opt (r_bymonthday r) && ne_opt (r_byyearday r) &&
  ne_opt (r_byeaster r) && ne_opt (r_byweekno r) && ne_opt (r_byweekday r) &&
  ne_opt (r_byhour r) && ne_opt (r_byminute r) && ne_opt (r_bysecond r) &&
  all_opt (r_bysetpos r) (fun p => negb (p =? 0) && between (-366) 366 p) &&
  all_opt (r_bymonth r) (between 1 12) &&
  match r_byweekday r with None => true | Some l => forallb (fun wn => between 0 6 (fst wn)) l end.

(* the grammar domain is inside the extended one *)
Lemma spec_wf_xwf r : spec_wf r = true -> spec_xwf r = true.
Proof.
  unfold spec_wf, spec_xwf. intros H.
  repeat match type of H with _ && _ = true =>
    let K := fresh "W" in apply andb_true_iff in H; destruct H as [H K] end.
  repeat match goal with K : ?x = true |- _ => rewrite K; clear K end. reflexivity.
Qed.
