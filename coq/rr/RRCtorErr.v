(* C01 -- "Only ValueError may be raised ... when built": the constructor model raises nothing but ValueError, for EVERY
   argument record (no domain hypothesis at all).  (Audit round, 2026-10-02.) *)
From Coq Require Import ZArith List Bool Lia.
From V Require Import base.Cal rr.RRBase rr.RRNorm.
Import ListNotations.
Open Scope Z_scope.

Lemma map_res_err_value {A B : Type} (f : A -> res B) :
  (forall a e, f a = Err e -> e = EValue) -> forall l e, map_res f l = Err e -> e = EValue.
Proof.
  intros Hf l. induction l as [|a t IH]; intros e H; cbn [map_res] in H; [discriminate H|].
  destruct (f a) eqn:Ea; cbn [bind] in H.
  - destruct (map_res f t) eqn:Et; cbn [bind] in H; [discriminate H|]. inversion H; subst. apply IH. reflexivity.
  - inversion H; subst. apply (Hf a e Ea).
Qed.

Lemma time_product_err_value hs ms ss e : time_product hs ms ss = Err e -> e = EValue.
Proof.
  unfold time_product. apply map_res_err_value. intros [[h m] s] e'. unfold mk_time.
  destruct (valid_hms h m s); intros H; inversion H; reflexivity.
Qed.

Lemma construct_byset_err_value itv start l base e : construct_byset itv start l base = Err e -> e = EValue.
Proof.
  unfold construct_byset. cbv zeta. destruct (filter _ l); intros H; inversion H; reflexivity.
Qed.

Theorem normalize_only_valueerror : forall r e, normalize r = Err e -> e = EValue.
Proof.
  intros r e. unfold normalize.
  destruct (if r_isdate r then (0, 0, 0) else (r_H r, r_M r, r_S r)) as [[hh mm] ss].
  destruct (negb (is_none (r_until r)) && r_tzmix r); [intros H; inversion H; reflexivity|].
  destruct (negb _); [intros H; inversion H; reflexivity|].
  match goal with |- (let '(_, _) := ?p in _) = _ -> _ => destruct p as [bwd bnwd] end.
  destruct (memZ 0 _); cbn [bind]; [intros H; inversion H; reflexivity|].
  repeat match goal with
  | |- bind ?x _ = Err _ -> _ =>
      let E := fresh "E" in destruct x eqn:E; cbn [bind];
      [|intros H; inversion H; subst;
        repeat match goal with
        | E : match ?o with Some _ => _ | None => _ end = Err _ |- _ => destruct o
        | E : (if ?c then _ else _) = Err _ |- _ => destruct c
        | E : bind ?y _ = Err _ |- _ =>
            let E' := fresh "E" in destruct y eqn:E'; cbn [bind] in E; [|inversion E; subst]
        | E : Ok _ = Err _ |- _ => discriminate E
        | E : construct_byset _ _ _ _ = Err _ |- _ => exact (construct_byset_err_value _ _ _ _ _ E)
        | E : time_product _ _ _ = Err _ |- _ => exact (time_product_err_value _ _ _ _ E)
        end]
  end.
  intros H. discriminate H.
Qed.
