(* C01 sub-daily: one pass of `while True:` for DAILY..SECONDLY rules without BYSETPOS.  The day
   set is the cursor's single day; the filter loop either keeps it (filtered = False) or blanks
   it (filtered = True); the pass then feeds day x timeset to the until/dtstart/count gate and
   calls the advance branch with that `filtered` flag.  `step_single_day` states this as one
   equation for RRIter.step.  Written by the rset builder (new file). *)
From Coq Require Import ZArith List Bool Lia ZifyBool.
From V Require Import base.Cal gen.RrTables rr.RRBase rr.RRNorm rr.RRMasks rr.RRIter rr.RROverlay rr.RRDaysetThm.
Import ListNotations.
Open Scope Z_scope.

Lemma ddayset_shape : forall ii year month day,
  valid_ymd year month day = true ->
  0 <= ord_of_ymd year month day - yearordinal ii < yearlen ii ->
  let i := ord_of_ymd year month day - yearordinal ii in
  ddayset ii year month day =
    Ok (set_nat (repeat None (Z.to_nat (yearlen ii))) (Z.to_nat i) (Some i), i, i + 1).
Proof.
  intros ii year month day Hv Hi i. unfold ddayset, date_ord. rewrite Hv. cbn [bind]. fold i.
  assert (Hi' : 0 <= i < yearlen ii) by exact Hi. clearbody i. clear Hi.
  unfold py_set, py_repeat, zlen. rewrite repeat_len.
  replace (i <? 0) with false by lia.
  replace (i <? 0) with false by lia.
  replace (Z.of_nat (Z.to_nat (yearlen ii)) <=? i) with false by lia.
  reflexivity.
Qed.

Lemma slice_one_set : forall (l : list (option Z)) i v, 0 <= i < zlen l ->
  py_slice (set_nat l (Z.to_nat i) v) i (i + 1) = [v].
Proof.
  intros l i v Hi. unfold zlen in Hi.
  rewrite py_slice_in by (unfold zlen; rewrite ?set_nat_length; lia).
  replace (Z.to_nat (i + 1 - i)) with 1%nat by lia.
  rewrite skipn_set_nat by lia. reflexivity.
Qed.

Lemma py_set_in : forall (l : list (option Z)) i v, 0 <= i < zlen l ->
  py_set l i v = Ok (set_nat l (Z.to_nat i) v).
Proof.
  intros l i v Hi. unfold py_set.
  replace (i <? 0) with false by lia. replace (i <? 0) with false by lia.
  replace (zlen l <=? i) with false by lia. reflexivity.
Qed.

(* the filter loop on a single-day slice *)
Lemma filter_loop_single : forall rl ii (ds : dayset) i rj, 0 <= i < zlen ds ->
  day_rejected rl ii i = Ok rj ->
  filter_loop rl ii [Some i] ds false =
    Ok (if rj then set_nat ds (Z.to_nat i) None else ds, rj).
Proof.
  intros rl ii ds i rj Hi Hr. cbn [filter_loop]. rewrite Hr. cbn [bind].
  destruct rj; [|reflexivity]. rewrite py_set_in by assumption. reflexivity.
Qed.

Definition after_gate (rl : rule) (s : state) (filtered : bool)
  (g : list instant * option Z * option term) : state + (list instant * term) :=
  let '(out1, cnt1, stop) := g in
  match stop with
  | Some t => inr (out1, t)
  | None =>
    match advance rl s filtered cnt1 out1 with
    | Err e => inr (out1, TRaised e)
    | Ok AdvMax => inr (out1, TMaxYear)
    | Ok AdvFuel => inr (out1, TOutOfFuel)
    | Ok (AdvGo s') => inl s'
    end
  end.

Theorem step_single_day : forall rl s rj,
  (DAILY <=? freq rl) && (freq rl <=? SECONDLY) = true ->
  truthy (bysetpos rl) = false ->
  valid_ymd (c_year s) (c_month s) (c_day s) = true ->
  let o := ord_of_ymd (c_year s) (c_month s) (c_day s) in
  let i := o - yearordinal (c_ii s) in
  0 <= i < yearlen (c_ii s) -> 1 <= o <= max_ord ->
  day_rejected rl (c_ii s) i = Ok rj ->
  step rl s =
  after_gate rl s rj
    (if rj then (c_out s, c_count s, None)
     else gate_list rl (map (fun t => (o, t)) (c_timeset s)) (c_count s) (c_out s)).
Proof.
  intros rl s rj Hfr Hsp Hv o i Hi Ho Hr. unfold step.
  assert (Hgd : getdayset rl (c_ii s) (c_year s) (c_month s) (c_day s) =
                ddayset (c_ii s) (c_year s) (c_month s) (c_day s)).
  { unfold getdayset. apply andb_true_iff in Hfr. destruct Hfr as [F1 F2].
    unfold DAILY, SECONDLY, YEARLY, MONTHLY, WEEKLY in *.
    replace (freq rl =? 0) with false by lia. replace (freq rl =? 1) with false by lia.
    replace (freq rl =? 2) with false by lia. rewrite F1, F2. reflexivity. }
  rewrite Hgd. rewrite (ddayset_shape (c_ii s) _ _ _ Hv Hi). cbn [bind]. fold o. fold i.
  set (ds := set_nat (repeat None (Z.to_nat (yearlen (c_ii s)))) (Z.to_nat i) (Some i)).
  assert (Hlen : zlen ds = yearlen (c_ii s)).
  { unfold ds, zlen. rewrite set_nat_length, repeat_len. lia. }
  assert (Hsl : py_slice ds i (i + 1) = [Some i]).
  { unfold ds. apply slice_one_set. unfold zlen. rewrite repeat_len. lia. }
  rewrite Hsl. rewrite (filter_loop_single rl (c_ii s) ds i rj ltac:(lia) Hr). cbn [bind fst snd].
  rewrite Hsp. cbn [andb].
  assert (Hfo : from_ordinal (yearordinal (c_ii s) + i) = Ok o).
  { unfold from_ordinal. replace (yearordinal (c_ii s) + i) with o by (unfold i; ring).
    replace ((1 <=? o) && (o <=? max_ord)) with true by lia. reflexivity. }
  destruct rj.
  - rewrite (slice_one_set ds i None ltac:(lia)). cbn [out_days]. reflexivity.
  - rewrite Hsl. cbn [out_days]. rewrite Hfo.
    destruct (gate_list rl (map (fun t => (o, t)) (c_timeset s)) (c_count s) (c_out s)) as [[out1 cnt1] [t|]];
      reflexivity.
Qed.
