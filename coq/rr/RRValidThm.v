(* C01 -- rrule_invalid_dates_skipped / whole seconds: every instant of the specification's sequence (coarse FREQ)
   is a representable day 0001-01-01 .. 9999-12-31 that passes the rule's day predicate, with a valid wall-clock
   time of whole seconds taken from the rule's time set, not earlier than the start; hence so is every instant
   the generator yields under the headline guard. *)
From Coq Require Import ZArith List Bool Lia ZifyBool.
From V Require Import base.Cal rr.RRBase rr.RRNorm rr.RRMasks rr.RRIter rr.RRSpec rr.RRTimesetThm rr.RRPassThm
  rr.RRYearlyUntilThm rr.RRSetposThm rr.RRCoarseRun rr.RRSortedThm rr.RRCoarseTop rr.RRStripThm.
Import ListNotations.
Open Scope Z_scope.

Definition good_instant (r : raw) (x : instant) : Prop :=
  1 <= fst x <= max_ord /\ day_ok r (fst x) = true /\ In (snd x) (period_times r 0) /\
  0 <= snd x < 86400 /\ inst_le (sp_start r) x = true.

Lemma period_times_range r sod t : In t (period_times r sod) -> 0 <= t < 86400.
Proof.
  unfold period_times. intros H.
  apply in_flat_map in H. destruct H as (h & _ & H).
  apply in_flat_map in H. destruct H as (m & _ & H).
  apply in_flat_map in H. destruct H as (s & _ & H).
  destruct (valid_hms h m s) eqn:V; [|destruct H].
  destruct H as [<-|[]]. unfold valid_hms in V. lia.
Qed.

Section Valid.
Variable r : raw.
Hypothesis Hc : is_coarse r = true.

Lemma step_items_good k x : In x (step_items r k) -> good_instant r x.
Proof.
  unfold step_items. rewrite Hc. intros Hx. apply filter_In in Hx. destruct Hx as [Hx Hs].
  assert (HxC : In x (cands_coarse r k)).
  { unfold select_pos in Hx. destruct (r_bysetpos r); [apply (select_pos_aux_sub _ _ _ _ _ Hx)|exact Hx]. }
  unfold cands_coarse in HxC. destruct (period_days r k) as [lo hi].
  apply in_flat_map in HxC. destruct HxC as (o & Ho & HxC).
  destruct (day_ok r o) eqn:D; [|destruct HxC].
  apply in_map_iff in HxC. destruct HxC as (t & <- & Ht). unfold good_instant. cbn [fst snd].
  unfold zrange in Ho. pose proof (In_zrange_nat_bounds _ _ _ Ho) as B.
  split; [lia|]. split; [exact D|]. split; [exact Ht|]. split; [apply (period_times_range r 0 t Ht)|exact Hs].
Qed.

Lemma spec_loop_good limit : forall n k cnt acc,
  (forall x, In x acc -> good_instant r x) ->
  forall x, In x (fst (spec_loop r limit n k cnt acc)) -> good_instant r x.
Proof.
  induction n as [|n IH]; intros k cnt acc G; cbn [spec_loop]; [exact G|].
  destruct (limit <=? zlen acc); [exact G|].
  destruct (max_ord <? step_lo r k); [exact G|].
  destruct (sp_after_until r (step_lo r k, 0)); [exact G|].
  destruct (match cnt with Some c => c <=? 0 | None => false end); [exact G|].
  destruct (sp_take_shape r (step_items r k) cnt acc) as (pre & suf & E1 & E2).
  destruct (sp_take r (step_items r k) cnt acc) as [[acc' cnt'] stop]. cbn [fst] in E2. subst acc'.
  assert (G' : forall x, In x (rev pre ++ acc) -> good_instant r x).
  { intros x Hx. apply in_app_or in Hx. destruct Hx as [Hx|Hx]; [|apply G; exact Hx].
    apply in_rev in Hx. apply (step_items_good k x). rewrite E1. apply in_or_app. left. exact Hx. }
  destruct stop; [exact G'|]. apply IH. exact G'.
Qed.

Theorem spec_iter_good : forall limit n x, In x (fst (spec_iter r limit n)) -> good_instant r x.
Proof.
  intros limit n x. unfold spec_iter.
  pose proof (spec_loop_good limit n 0 (r_count r) [] ltac:(intros y []) x) as G.
  destruct (spec_loop r limit n 0 (r_count r) []) as [acc t]. cbn [fst] in *. intros Hx. apply G.
  apply in_rev. exact Hx.
Qed.
End Valid.

(* every yielded instant is a representable date-time that satisfies the rule *)
Theorem rrule_valid_instants_coarse_all : forall r rl limit n,
  normalize r = Ok rl -> coarse_guard_all r n ->
  forall x, In x (fst (iterate rl limit n)) -> good_instant r x.
Proof.
  intros r rl limit n HN G x Hx. rewrite (rrule_iter_correct_coarse_all r rl limit n HN G) in Hx.
  apply (spec_iter_good r) with (limit := limit) (n := n); [|exact Hx].
  destruct G as (_ & _ & _ & Hf). unfold is_coarse, YEARLY, MONTHLY, WEEKLY, DAILY in *.
  destruct Hf as [Hf|[Hf|[Hf|Hf]]]; rewrite Hf; reflexivity.
Qed.
