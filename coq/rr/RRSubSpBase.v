(* C01 sub-daily WITH BYSETPOS, base layer: BYSETPOS is read only by normalize (validation + copy),
   by the pass (RRIter.step) and by the WEEKLY prologue of init_state; everything else -- the advance
   branches, rebuild, the day filter, the gate, the specification's day filter / time sets / period
   grid -- is literally independent of it.  `nosp_raw` / `nosp_rule` erase the field; the transfer
   lemmas let the sub-daily theorems proved for rules without BYSETPOS be reused unchanged.
   Also: the time set of ANY period is strictly increasing (`period_times_sorted_any`).
   Written by the rset builder (new file). *)
From Coq Require Import ZArith List Bool Lia ZifyBool.
From V Require Import base.Cal rr.RRBase rr.RRNorm rr.RRMasks rr.RRIter rr.RRSpec rr.RRTimesetThm rr.RRSubSpec.
Import ListNotations.
Open Scope Z_scope.

Definition nosp_rule (rl : rule) : rule :=
  mkRule (freq rl) (interval rl) (wkst rl) (count rl) (until rl) (s_y rl) (s_m rl) (s_d rl) (s_H rl) (s_M rl) (s_S rl)
    None (bymonth rl) (byyearday rl) (byeaster rl) (bymonthday rl) (bynmonthday rl) (byweekno rl) (byweekday rl)
    (bynweekday rl) (byhour rl) (byminute rl) (bysecond rl) (timeset rl).
Definition nosp_raw (r : raw) : raw :=
  mkRaw (r_freq r) (r_isdate r) (r_y r) (r_m r) (r_d r) (r_H r) (r_M r) (r_S r) (r_interval r) (r_wkst r)
    (r_count r) (r_until r) (r_tzmix r) None (r_bymonth r) (r_bymonthday r) (r_byyearday r) (r_byeaster r)
    (r_byweekno r) (r_byweekday r) (r_byhour r) (r_byminute r) (r_bysecond r).

Lemma advance_nosp : forall rl s f cnt out, advance (nosp_rule rl) s f cnt out = advance rl s f cnt out.
Proof. reflexivity. Qed.
Lemma rebuild_nosp : forall rl ii y m, rebuild (nosp_rule rl) ii y m = rebuild rl ii y m.
Proof. reflexivity. Qed.
Lemma day_rejected_nosp : forall rl ii i, day_rejected (nosp_rule rl) ii i = day_rejected rl ii i.
Proof. reflexivity. Qed.
Lemma gate_list_nosp : forall rl l cnt out, gate_list (nosp_rule rl) l cnt out = gate_list rl l cnt out.
Proof.
  intros rl l. induction l as [|x t IH]; intros cnt out; [reflexivity|].
  cbn [gate_list]. change (gate_one (nosp_rule rl) x cnt out) with (gate_one rl x cnt out).
  destruct (gate_one rl x cnt out) as [[o c] [st|]]; [reflexivity|apply IH].
Qed.
Lemma day_ok_nosp : forall r o, day_ok (nosp_raw r) o = day_ok r o.
Proof. reflexivity. Qed.
Lemma period_times_nosp : forall r x, period_times (nosp_raw r) x = period_times r x.
Proof. reflexivity. Qed.
Lemma period_start_nosp : forall r k, period_start (nosp_raw r) k = period_start r k.
Proof. reflexivity. Qed.

(* the period's candidates = the selection from the candidates of the rule without BYSETPOS *)
Lemma period_cands_nosp : forall r k, period_cands r k = select_pos r (period_cands (nosp_raw r) k).
Proof.
  intros. unfold period_cands. rewrite period_start_nosp, day_ok_nosp, period_times_nosp.
  destruct (day_ok r _); [|symmetry; apply select_pos_nil].
  unfold select_pos at 2. reflexivity.
Qed.

Lemma period_cands_nosp_nil : forall r k, period_cands (nosp_raw r) k = [] -> period_cands r k = [].
Proof. intros r k H. rewrite period_cands_nosp, H. apply select_pos_nil. Qed.

Lemma normalize_nosp : forall r rl, normalize r = Ok rl -> normalize (nosp_raw r) = Ok (nosp_rule rl).
Proof.
  intros r rl H.
  destruct r as [a1 a2 a3 a4 a5 a6 a7 a8 a9 a10 a11 a12 a13 a14 a15 a16 a17 a18 a19 a20 a21 a22 a23].
  unfold normalize in *.
  cbn [nosp_raw r_freq r_isdate r_y r_m r_d r_H r_M r_S r_interval r_wkst r_count r_until r_tzmix r_bysetpos
       r_bymonth r_bymonthday r_byyearday r_byeaster r_byweekno r_byweekday r_byhour r_byminute r_bysecond] in *.
  cbn [negb].
  destruct (if a2 then (0, 0, 0) else (a6, a7, a8)) as [[hh mm] ss].
  destruct (negb (is_none a12) && a13); [discriminate H|].
  destruct (negb match a14 with Some l => setpos_ok l | None => true end); [discriminate H|].
  cbv zeta in *.
  match type of H with (let '(_, _) := ?M in _) = _ => destruct M as [bw bnw] end.
  repeat match type of H with bind ?X _ = _ => destruct X; [|discriminate H]; cbn [bind] in H |- * end.
  inversion H. reflexivity.
Qed.

Lemma normalize_bysetpos : forall r rl, normalize r = Ok rl -> bysetpos rl = r_bysetpos r.
Proof.
  intros r rl H. unfold normalize in H.
  destruct (if r_isdate r then (0, 0, 0) else (r_H r, r_M r, r_S r)) as [[hh mm] ss].
  destruct (negb (is_none (r_until r)) && r_tzmix r); [discriminate H|].
  destruct (negb match r_bysetpos r with Some l => setpos_ok l | None => true end); [discriminate H|].
  cbv zeta in H.
  match type of H with (let '(_, _) := ?M in _) = _ => destruct M as [bw bnw] end.
  repeat match type of H with bind ?X _ = _ => destruct X; [|discriminate H]; cbn [bind] in H end.
  inversion H. reflexivity.
Qed.

Lemma spec_wf_nosp : forall r, spec_wf r = true -> spec_wf (nosp_raw r) = true.
Proof.
  intros r W. unfold spec_wf in *.
  repeat match type of W with _ && _ = true =>
    let H := fresh "W" in apply andb_true_iff in W; destruct W as [W H] end.
  change (sp_H0 (nosp_raw r)) with (sp_H0 r). change (sp_M0 (nosp_raw r)) with (sp_M0 r).
  change (sp_S0 (nosp_raw r)) with (sp_S0 r).
  cbn [nosp_raw r_freq r_isdate r_y r_m r_d r_H r_M r_S r_interval r_wkst r_count r_until r_tzmix r_bysetpos
       r_bymonth r_bymonthday r_byyearday r_byeaster r_byweekno r_byweekday r_byhour r_byminute r_bysecond].
  repeat match goal with H : _ = true |- _ => try rewrite H; clear H end. reflexivity.
Qed.

(* what spec_wf says about a supplied BYSETPOS *)
Lemma spec_wf_setpos : forall r poss, spec_wf r = true -> r_bysetpos r = Some poss ->
  poss <> [] /\ forallb (fun p => negb (p =? 0)) poss = true.
Proof.
  intros r poss W E. unfold spec_wf in W.
  repeat match type of W with _ && _ = true =>
    let H := fresh "W" in apply andb_true_iff in W; destruct W as [W H] end.
  rewrite E in *. split.
  - intro N. subst poss. match goal with H : ne_opt (Some []) = true |- _ => discriminate H end.
  - match goal with H : all_opt (Some poss) _ = true |- _ => cbn [all_opt] in H; rename H into A end.
    rewrite forallb_forall in *. intros p Hp. specialize (A p Hp). lia.
Qed.

Lemma select_pos_aux_nil : forall poss n i, select_pos_aux poss n i [] = [].
Proof. reflexivity. Qed.

Lemma select_pos_aux_sub' : forall poss N c i x, In x (select_pos_aux poss N i c) -> In x c.
Proof.
  intros poss N c. induction c as [|h t IH]; intros i x H; [exact H|].
  cbn [select_pos_aux] in H. apply in_app_or in H. destruct H as [H|H].
  - destruct (existsb _ poss); [destruct H as [<-|[]]; left; reflexivity|destruct H].
  - right. apply (IH (i + 1) x H).
Qed.

Lemma select_pos_sub : forall r c x, In x (select_pos r c) -> In x c.
Proof.
  intros r c x H. unfold select_pos in H. destruct (r_bysetpos r); [|exact H].
  apply (select_pos_aux_sub' _ _ _ _ _ H).
Qed.

(* ------------------------------------------------------------------ sorted time sets, any frequency *)
Lemma ssorted_single : forall x, ssorted [x] = true.
Proof. reflexivity. Qed.

Lemma period_times_sorted_any : forall r sod, spec_wf r = true -> 0 <= sod <= 86399 ->
  ssorted (period_times r sod) = true.
Proof.
  intros r sod HW Hs. unfold spec_wf in HW.
  repeat match type of HW with _ && _ = true =>
    let H := fresh "W" in apply andb_true_iff in HW; destruct HW as [HW H] end.
  assert (VH : 0 <= sp_H0 r <= 23 /\ 0 <= sp_M0 r <= 59 /\ 0 <= sp_S0 r <= 59).
  { match goal with H : valid_hms _ _ _ = true |- _ => unfold valid_hms in H end. lia. }
  destruct VH as (VH & VM & VS).
  pose proof (all_opt_range (r_byhour r) 0 23 (sp_H0 r) ltac:(assumption) VH) as RH.
  pose proof (all_opt_range (r_byminute r) 0 59 (sp_M0 r) ltac:(assumption) VM) as RM.
  pose proof (all_opt_range (r_bysecond r) 0 59 (sp_S0 r) ltac:(assumption) VS) as RS.
  unfold eff_times in RH, RM, RS.
  assert (Bh : 0 <= sod / 3600 <= 23).
  { pose proof (Z.div_lt_upper_bound sod 3600 24 ltac:(lia) ltac:(lia)).
    pose proof (Z.div_pos sod 3600 ltac:(lia) ltac:(lia)). lia. }
  assert (Bm : 0 <= (sod / 60) mod 60 <= 59) by (pose proof (Z.mod_pos_bound (sod / 60) 60 ltac:(lia)); lia).
  assert (Bs : 0 <= sod mod 60 <= 59) by (pose proof (Z.mod_pos_bound sod 60 ltac:(lia)); lia).
  unfold period_times. cbv zeta.
  set (hs := if r_freq r <? HOURLY then _ else _).
  set (ms := if r_freq r <? MINUTELY then _ else _).
  set (ss := if r_freq r <? SECONDLY then _ else _).
  assert (Hh : ssorted hs = true /\ in_range 0 23 hs).
  { unfold hs. destruct (r_freq r <? HOURLY); [split; [apply sort_set_sorted|exact RH]|].
    destruct (in_opt (r_byhour r) _); split; try reflexivity; intros x Hx; [destruct Hx as [<-|[]]; exact Bh|destruct Hx]. }
  assert (Hm : ssorted ms = true /\ in_range 0 59 ms).
  { unfold ms. destruct (r_freq r <? MINUTELY); [split; [apply sort_set_sorted|exact RM]|].
    destruct (in_opt (r_byminute r) _); split; try reflexivity; intros x Hx; [destruct Hx as [<-|[]]; exact Bm|destruct Hx]. }
  assert (Hs' : ssorted ss = true /\ in_range 0 59 ss).
  { unfold ss. destruct (r_freq r <? SECONDLY); [split; [apply sort_set_sorted|exact RS]|].
    destruct (in_opt (r_bysecond r) _); split; try reflexivity; intros x Hx; [destruct Hx as [<-|[]]; exact Bs|destruct Hx]. }
  destruct Hh as [Sh Rh]. destruct Hm as [Sm Rm]. destruct Hs' as [Ss Rs].
  rewrite (spec_product_valid hs ms ss Rh Rm Rs). apply tprod_sorted; assumption.
Qed.
