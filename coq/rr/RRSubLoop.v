(* C01 sub-daily: `for j in range(n): ... break` of RRIter (iter_until over positive) as a plain
   structural loop, so that the MINUTELY / SECONDLY advance branches can be reasoned about by
   induction on the number of rounds.  Written by the rset builder (new file). *)
From Coq Require Import ZArith List Bool Lia PArith Pnat.
From V Require Import rr.RRBase rr.RRIter.
Import ListNotations.
Open Scope Z_scope.

Fixpoint loop_n {A : Type} (n : nat) (f : A -> lp A) (a : A) : lp A :=
  match n with
  | O => LCont a
  | S k => match f a with
           | LCont a' => loop_n k f a'
           | r => r
           end
  end.

Lemma loop_n_add : forall (A : Type) (f : A -> lp A) n m a,
  loop_n (n + m) f a = match loop_n n f a with LCont a' => loop_n m f a' | r => r end.
Proof.
  intros A f n. induction n as [|n IH]; intros m a; [reflexivity|].
  cbn [Nat.add loop_n]. destruct (f a); [apply IH|reflexivity|reflexivity].
Qed.

Lemma iter_until_loop_n : forall (A : Type) (f : A -> lp A) p a,
  iter_until p f a = loop_n (Pos.to_nat p) f a.
Proof.
  intros A f p. induction p as [p IH|p IH|]; intro a.
  - rewrite Pos2Nat.inj_xI. cbn [iter_until loop_n].
    destruct (f a) as [a1| |]; [|reflexivity|reflexivity].
    replace (2 * Pos.to_nat p)%nat with (Pos.to_nat p + Pos.to_nat p)%nat by lia.
    rewrite loop_n_add, <- IH. destruct (iter_until p f a1); [apply IH|reflexivity|reflexivity].
  - rewrite Pos2Nat.inj_xO. cbn [iter_until].
    replace (2 * Pos.to_nat p)%nat with (Pos.to_nat p + Pos.to_nat p)%nat by lia.
    rewrite loop_n_add, <- IH. destruct (iter_until p f a); [apply IH|reflexivity|reflexivity].
  - change (Pos.to_nat 1) with 1%nat. cbn [iter_until loop_n]. destruct (f a); reflexivity.
Qed.

Lemma for_range_loop_n : forall (A : Type) (f : A -> lp A) k a,
  for_range k f a = loop_n (Z.to_nat k) f a.
Proof.
  intros A f k a. unfold for_range. destruct (Z.leb_spec k 0).
  - replace (Z.to_nat k) with O by lia. reflexivity.
  - rewrite iter_until_loop_n. f_equal. lia.
Qed.
