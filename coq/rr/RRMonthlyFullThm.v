(* C01 layer 7 -- rrule_iter_correct for MONTHLY rules WITH BYSETPOS (and, through the abstract
   rebuild/filter facts of the Section, with nth weekdays): every fuel.
   The Section proves the loop theorem from three facts about the rule -- rebuild() succeeds for
   every month, rebuild() on the previous pass's iterinfo equals rebuild() from scratch, and the
   BY-filter on the cursor's month is the specification's day_ok -- and is then instantiated. *)
From Coq Require Import ZArith List Bool Lia ZifyBool.
From V Require Import base.Cal gen.RrTables rr.RRBase rr.RRNorm rr.RRMasks rr.RRIter rr.RRSpec
  rr.RROverlay rr.RRWeekCal rr.RRWeekFinal rr.RRFilterThm rr.RRFilterSpec rr.RRGateThm rr.RRTimesetThm
  rr.RRDaysetThm rr.RRAdvanceThm rr.RRIterThm rr.RRPassThm rr.RRYearlyThm rr.RRYearlyEasterThm
  rr.RRCountThm rr.RRYearlyCountThm rr.RRYearlyUntilThm rr.RRDailyThm rr.RRMonthlyThm rr.RRSetposThm
  rr.RRCoarseRun.
Import ListNotations.
Ltac Zify.zify_post_hook ::= Z.to_euclidean_division_equations.
Open Scope Z_scope.

(* the candidates of period k, written over day indices *)
Lemma cands_by_index (r : raw) (y st en : Z) ts : st <= en ->
  flat_map (fun o => map (fun t => (o, t)) ts) (filter (day_ok r) (zrange (jan1 y + st) (jan1 y + en))) =
  cand_list (jan1 y) ts (filter (fun i => day_ok r (jan1 y + i)) (zrange st en)).
Proof.
  intros Hse. unfold cand_list.
  replace (jan1 y + en) with (jan1 y + st + (en - st)) by lia. rewrite zrange_shift.
  replace (zrange st en) with (map (fun i => st + i) (zrange 0 (en - st)))
    by (rewrite <- zrange_shift; f_equal; lia).
  rewrite !filter_map_comm, !flat_map_map'.
  generalize (zrange 0 (en - st)) as Z0. induction Z0 as [|a t IH]; cbn [filter flat_map]; [reflexivity|].
  replace (jan1 y + (st + a)) with (jan1 y + st + a) by lia.
  destruct (day_ok r (jan1 y + st + a)); cbn [flat_map]; rewrite IH; [|reflexivity].
  f_equal. apply map_ext. intros t0. f_equal. lia.
Qed.

Lemma start_year_range_m r : spec_wf r = true -> 1 <= r_y r <= 9999.
Proof.
  intros HW. unfold spec_wf in HW.
  repeat match type of HW with _ && _ = true =>
    let H := fresh "W" in apply andb_true_iff in HW; destruct HW as [HW H] end.
  match goal with H : valid_ymd _ _ _ = true |- _ => unfold valid_ymd in H end. lia.
Qed.

Section MonthlyFull.
Variables (r : raw) (rl : rule).
Hypothesis HN : normalize r = Ok rl.
Hypothesis HW : spec_wf r = true.
Hypothesis Hfr : r_freq r = MONTHLY.
(* the years ylo..yhi in which the three facts hold (1..9999 without BYEASTER, C19's range with it) *)
Variables (ylo yhi : Z).
Hypothesis RB_ok : forall y m, ylo <= y <= yhi -> 1 <= m <= 12 -> exists ii, rebuild rl ii_init y m = Ok ii.
Hypothesis RB_eq : forall y m ii y' m', ylo <= y <= yhi -> 1 <= m <= 12 -> rebuild rl ii_init y m = Ok ii ->
  ylo <= y' <= yhi -> 1 <= m' <= 12 -> (y' <> y \/ m' <> m) ->
  rebuild rl ii y' m' = rebuild rl ii_init y' m'.
Hypothesis DF : forall y m ii i, ylo <= y <= yhi -> 1 <= m <= 12 -> rebuild rl ii_init y m = Ok ii ->
  dbm y m <= i < dbm y (m + 1) -> day_rejected rl ii i = Ok (negb (day_ok r (jan1 y + i))).

(* the cursor invariant with the year range; passes after which the next month's year is still inside it (or
   beyond 9999, where the loop stops) *)
Definition inv_m (k : Z) (cnt : option Z) (s : state) : Prop :=
  at_pass_m r rl k cnt s /\ ylo <= c_year s <= yhi.
Definition okp_m (k : Z) : Prop := midx r (k + 1) / 12 <= yhi \/ 9999 < midx r (k + 1) / 12.

Let Nfr : freq rl = MONTHLY.
Proof. rewrite (normalize_freq r rl HN). exact Hfr. Qed.

(* the days of a MONTHLY pass that survive the filter *)
Lemma monthly_days : forall k cnt s, at_pass_m r rl k cnt s -> ylo <= c_year s <= yhi ->
  let y := c_year s in let m := c_month s in
  let st := dbm y m in let en := dbm y (m + 1) in
  exists ds ds' f,
    getdayset rl (c_ii s) y m (c_day s) = Ok (ds, st, en) /\
    filter_loop rl (c_ii s) (py_slice ds st en) ds false = Ok (ds', f) /\
    somes (py_slice ds' st en) = filter (fun i => day_ok r (jan1 y + i)) (zrange st en).
Proof.
  intros k cnt s (Am & Ay & Ai & Ar & At & Ac) Hr y m st en.
  fold y m in Am, Ay, Ai, Ar. fold y in Hr.
  pose proof (rebuild_ii_for rl y m (c_ii s) Ay Ar) as F.
  pose proof (dbm_mono y 1 m ltac:(lia) ltac:(lia) ltac:(lia)) as M1.
  pose proof (dbm_mono y (m + 1) 13 ltac:(lia) ltac:(lia) ltac:(lia)) as M2.
  rewrite dbm_1 in M1. rewrite dbm_13 in M2. pose proof (dbm_succ y m Am) as DS. pose proof (dim_pos y m) as DP.
  fold st in M1, DS. fold en in M2, DS.
  destruct (mdayset_correct (c_ii s) y m F Am) as (ds & E1 & Eds). fold st en in E1, Eds.
  assert (G : getdayset rl (c_ii s) y m (c_day s) = Ok (ds, st, en)).
  { unfold getdayset. rewrite Nfr. change (MONTHLY =? YEARLY) with false. change (MONTHLY =? MONTHLY) with true.
    cbv iota. exact E1. }
  set (rej := fun i => negb (day_ok r (jan1 y + i))).
  assert (HRj : forall i, st <= i < en -> day_rejected rl (c_ii s) i = Ok (rej i)).
  { intros i Hi. apply (DF y m (c_ii s) i Hr Am Ar). exact Hi. }
  set (pre := repeat (@None Z) (Z.to_nat st)). set (suf := repeat (@None Z) (Z.to_nat (year_len y - en))).
  assert (Lp : Z.of_nat (length pre) = st) by (unfold pre; rewrite repeat_length; lia).
  assert (SL : py_slice ds st en = map Some (zrange st en)).
  { rewrite Eds. fold pre suf. pose proof (py_slice_mid pre (map Some (zrange st en)) suf) as P.
    rewrite Lp in P. rewrite map_length in P. unfold zrange in P at 2. rewrite zrange_nat_length in P.
    replace (st + Z.of_nat (Z.to_nat (en - st))) with en in P by lia. exact P. }
  assert (FL : filter_loop rl (c_ii s) (py_slice ds st en) ds false =
               Ok (pre ++ map (mark rej) (zrange st en) ++ suf, existsb rej (zrange st en))).
  { rewrite SL, Eds. fold pre suf. unfold zrange.
    rewrite (filter_loop_range rl (c_ii s) rej (Z.to_nat (en - st)) st pre suf false Lp).
    - reflexivity.
    - intros i Hi. apply HRj. lia. }
  set (ds' := pre ++ map (mark rej) (zrange st en) ++ suf).
  assert (SL' : py_slice ds' st en = map (mark rej) (zrange st en)).
  { unfold ds'. pose proof (py_slice_mid pre (map (mark rej) (zrange st en)) suf) as P.
    rewrite Lp in P. rewrite map_length in P. unfold zrange in P at 2. rewrite zrange_nat_length in P.
    replace (st + Z.of_nat (Z.to_nat (en - st))) with en in P by lia. exact P. }
  exists ds, ds', (existsb rej (zrange st en)). split; [exact G|]. split; [exact FL|].
  rewrite SL', somes_map_mark. apply filter_ext'. intros x. unfold rej. apply negb_involutive.
Qed.

Lemma monthly_step_items_sel k y m : 1 <= m <= 12 -> 1 <= y <= 9999 -> y * 12 + (m - 1) = midx r k ->
  step_items r k = filter (inst_le (sp_start r))
    (select_pos r (cand_list (jan1 y) (period_times r 0)
                     (filter (fun i => day_ok r (jan1 y + i)) (zrange (dbm y m) (dbm y (m + 1)))))).
Proof.
  intros Hm Hy Hi.
  pose proof (dbm_succ y m Hm) as DS. pose proof (dim_pos y m) as DP.
  rewrite <- (cands_by_index r) by lia.
  unfold step_items, is_coarse. rewrite Hfr. change (MONTHLY <=? DAILY) with true. cbv iota.
  f_equal. f_equal. unfold cands_coarse, period_days. rewrite Hfr.
  change (MONTHLY =? YEARLY) with false. change (MONTHLY =? MONTHLY) with true. cbv iota zeta.
  fold (midx r k). rewrite <- Hi.
  replace ((y * 12 + (m - 1)) / 12) with y by lia. replace ((y * 12 + (m - 1)) mod 12 + 1) with m by lia.
  destruct (first_of_month y m Hm) as [F1 F2].
  assert (B1 : 1 <= jan1 y).
  { rewrite jan1_eq. assert (days_before_year 1 <= days_before_year y) by (apply days_before_year_mono; lia).
    change (days_before_year 1) with 0 in *. lia. }
  assert (B2 : jan1 (y + 1) <= max_ord + 1).
  { rewrite jan1_eq. assert (days_before_year (y + 1) <= days_before_year 10000) by (apply days_before_year_mono; lia).
    change (days_before_year 10000) with 3652059 in *. unfold max_ord. lia. }
  pose proof (dbm_mono y 1 m ltac:(lia) ltac:(lia) ltac:(lia)) as M1.
  pose proof (dbm_mono y (m + 1) 13 ltac:(lia) ltac:(lia) ltac:(lia)) as M2.
  rewrite dbm_1 in M1. rewrite dbm_13 in M2.
  rewrite jan1_succ in B2.
  replace (Z.max (ord_of_ymd y m 1) 1) with (jan1 y + dbm y m) by lia.
  replace (Z.min (ord_of_ymd y m 1 + dim y m - 1) max_ord + 1) with (jan1 y + dbm y (m + 1)) by lia.
  apply flat_map_filter.
Qed.

Lemma monthly_advance2 : forall k cnt s filtered c1 out1, inv_m k cnt s -> okp_m k ->
  (exists s', advance rl s filtered c1 out1 = Ok (AdvGo s') /\ inv_m (k + 1) c1 s' /\ c_out s' = out1) \/
  (advance rl s filtered c1 out1 = Ok AdvMax /\ max_ord < step_lo r (k + 1)).
Proof.
  intros k cnt s filtered c1 out1 [(Am & Ay & Ai & Ar & At & Ac) Hr] Hok.
  destruct (normalize_misc r rl HN) as (Ni & _ & _ & _ & _ & _ & _).
  pose proof (wf_itv r HW) as Hitv.
  rewrite (advance_monthly_is_carry rl s filtered c1 out1 Nfr).
  pose proof (monthly_carry_correct (c_year s) (c_month s) (interval rl) Am ltac:(rewrite Ni; lia)) as MC.
  destruct (monthly_carry (c_year s) (c_month s) (interval rl)) as [m' y'] eqn:EMC. destruct MC as [Hm' Hidx].
  assert (Hidx' : y' * 12 + (m' - 1) = midx r (k + 1)).
  { rewrite Hidx, Ai, Ni. unfold midx. ring. }
  assert (Hyge : c_year s <= y').
  { unfold monthly_carry in EMC. destruct (12 <? c_month s + interval rl); [|inversion EMC; lia].
    destruct ((c_month s + interval rl) mod 12 =? 0); inversion EMC; subst; rewrite Ni in *; lia. }
  destruct ((12 <? c_month s + interval rl) && (T_MAXYEAR <? y')) eqn:EMX.
  - right. split; [reflexivity|]. unfold T_MAXYEAR in EMX.
    rewrite (step_lo_monthly r (k + 1) y' m' Hfr Hm' Hidx').
    pose proof (month_start_mono 10000 1 y' m' ltac:(lia) Hm' ltac:(lia)) as MM.
    change (ord_of_ymd 10000 1 1) with 3652060 in MM. unfold max_ord. lia.
  - assert (Hy' : 1 <= y' <= 9999).
    { unfold T_MAXYEAR in EMX. unfold monthly_carry in EMC.
      destruct (12 <? c_month s + interval rl) eqn:E12; [cbn [andb] in EMX; lia|inversion EMC; lia]. }
    assert (Hr' : ylo <= y' <= yhi).
    { unfold okp_m in Hok. rewrite <- Hidx' in Hok.
      replace ((y' * 12 + (m' - 1)) / 12) with y' in Hok by lia. lia. }
    destruct (RB_ok y' m' Hr' Hm') as (ii2 & R2).
    assert (R2' : rebuild rl (c_ii s) y' m' = Ok ii2).
    { rewrite (RB_eq (c_year s) (c_month s) (c_ii s) y' m' Hr Am Ar Hr' Hm'); [exact R2|].
      destruct (Z.eq_dec y' (c_year s)) as [E|E]; [|left; exact E]. right. intros E2. subst. rewrite Ni in *. lia. }
    rewrite R2'. cbn [bind]. unfold finish_advance. cbn [andb].
    left. eexists. split; [reflexivity|]. split; [|reflexivity].
    unfold inv_m, at_pass_m. cbn [c_year c_month c_ii c_timeset c_count]. split; [|exact Hr'].
    split; [exact Hm'|]. split; [exact Hy'|]. split; [exact Hidx'|]. split; [exact R2|]. split; [exact At|reflexivity].
Qed.

Lemma monthly_step2 : forall k cnt s, inv_m k cnt s -> 0 <= k -> okp_m k ->
  exists acc' cnt' b, sp_take r (step_items r k) cnt (c_out s) = (acc', cnt', b) /\
    ((exists s', step rl s = inl s' /\ inv_m (k + 1) cnt' s' /\ c_out s' = acc' /\ b = false) \/
     (exists t, step rl s = inr (acc', t) /\
                (b = true \/ until_lt_start r \/ max_ord < step_lo r (k + 1)))) /\
    (sp_after_until r (step_lo r k, 0) = true -> acc' = c_out s).
Proof.
  intros k cnt s AA Hk Hok.
  pose proof AA as [A Hr].
  pose proof A as (Am & Ay & Ai & Ar & At & Ac).
  destruct (monthly_days k cnt s A Hr) as (ds & ds' & f & E1 & E2 & E3).
  pose proof (rebuild_ii_for rl _ _ (c_ii s) Ay Ar) as F.
  pose proof (dbm_mono (c_year s) 1 (c_month s) ltac:(lia) ltac:(lia) ltac:(lia)) as M1.
  pose proof (dbm_mono (c_year s) (c_month s + 1) 13 ltac:(lia) ltac:(lia) ltac:(lia)) as M2.
  rewrite dbm_1 in M1. rewrite dbm_13 in M2.
  assert (B1 : 1 <= jan1 (c_year s)).
  { rewrite jan1_eq. assert (days_before_year 1 <= days_before_year (c_year s)) by (apply days_before_year_mono; lia).
    change (days_before_year 1) with 0 in *. lia. }
  assert (B2 : jan1 (c_year s + 1) <= max_ord + 1).
  { rewrite jan1_eq. assert (days_before_year (c_year s + 1) <= days_before_year 10000) by (apply days_before_year_mono; lia).
    change (days_before_year 10000) with 3652059 in *. unfold max_ord. lia. }
  rewrite jan1_succ in B2.
  destruct (step_from_days r rl HN HW ltac:(rewrite Hfr; reflexivity) s k cnt ds _ _ ds' f _ E1 E2 E3
              (ssorted_filter_zrange _ _ _)) as (out' & c1 & s1 & c1' & b1 & PRE & ET & G2 & G3 & G4).
  { intros i Hi. apply filter_In in Hi. destruct Hi as [Hi _]. unfold zrange in Hi.
    pose proof (In_zrange_nat_bounds _ _ _ Hi) as Bi. rewrite (f_yo _ _ F). unfold from_ordinal.
    replace ((1 <=? jan1 (c_year s) + i) && (jan1 (c_year s) + i <=? max_ord)) with true by lia. reflexivity. }
  { exact At. }
  { exact Ac. }
  { rewrite (f_yo _ _ F). apply (monthly_step_items_sel k (c_year s) (c_month s) Am Ay Ai). }
  exists out', c1', b1. split; [exact ET|]. split.
  - destruct s1 as [t|].
    + right. exists t. split; [exact PRE|]. destruct (G3 ltac:(discriminate)) as [H|H]; auto.
    + destruct (G2 eq_refl) as [Hb Ec]. subst c1'.
      destruct (monthly_advance2 k cnt s f c1 out' AA Hok) as [(s' & EA & A' & EO)|(EA & Hmax)].
      * left. exists s'. rewrite PRE, EA. split; [reflexivity|]. split; [exact A'|]. split; [exact EO|exact Hb].
      * right. exists TMaxYear. rewrite PRE, EA. split; [reflexivity|]. right. right. exact Hmax.
  - intros AU. apply (G4 (step_lo r k)); [|exact AU].
    intros i Hi. apply filter_In in Hi. destruct Hi as [Hi _]. unfold zrange in Hi.
    pose proof (In_zrange_nat_bounds _ _ _ Hi) as Bi. rewrite (f_yo _ _ F).
    rewrite (step_lo_monthly r k (c_year s) (c_month s) Hfr Am Ai).
    destruct (first_of_month (c_year s) (c_month s) Am) as [F1 _]. lia.
Qed.

Lemma step_lo_monthly_mono k : 0 <= k -> step_lo r k <= step_lo r (k + 1).
Proof.
  intros Hk. pose proof (wf_itv r HW) as Hitv.
  set (i1 := midx r k). set (i2 := midx r (k + 1)).
  assert (Hle : i1 <= i2) by (unfold i1, i2, midx; nia).
  rewrite (step_lo_monthly r k (i1 / 12) (i1 mod 12 + 1) Hfr ltac:(lia) ltac:(unfold i1; lia)).
  rewrite (step_lo_monthly r (k + 1) (i2 / 12) (i2 mod 12 + 1) Hfr ltac:(lia) ltac:(unfold i2; lia)).
  apply month_start_mono; lia.
Qed.

Theorem monthly_run_is_spec2 : forall limit n k cnt s, inv_m k cnt s -> 0 <= k ->
  (forall j, k <= j < k + Z.of_nat n -> okp_m j) ->
  fst (run rl limit n s) = fst (spec_loop r limit n k cnt (c_out s)).
Proof.
  intros limit n k cnt s A Hk Hokn.
  apply (coarse_run_is_spec r rl inv_m okp_m); try assumption.
  - intros k0 cnt0 s0 [(_ & _ & _ & _ & _ & Ac) _]. exact Ac.
  - exact step_lo_monthly_mono.
  - intros k0 cnt0 s0 [(Am & Ay & Ai & _) _] _ _.
    rewrite (step_lo_monthly r k0 (c_year s0) (c_month s0) Hfr Am Ai).
    assert (V : valid_ymd (c_year s0) (c_month s0) 1 = true).
    { unfold valid_ymd. pose proof (dim_pos (c_year s0) (c_month s0)). lia. }
    pose proof (ord_of_ymd_range _ _ _ V). lia.
  - exact monthly_step2.
Qed.

Theorem monthly_iter_correct2 : forall limit n, ylo <= r_y r <= yhi ->
  (forall j, 0 <= j < Z.of_nat n -> okp_m j) ->
  fst (iterate rl limit n) = fst (spec_iter r limit n).
Proof.
  intros limit n Hr0 Hokn.
  destruct (normalize_misc r rl HN) as (Ni & Nsp & Ny & Nm & Nd & Nc & Nu).
  assert (V : valid_ymd (r_y r) (r_m r) (r_d r) = true).
  { pose proof HW as HW'. unfold spec_wf in HW'.
    repeat match type of HW' with _ && _ = true =>
      let H := fresh "W" in apply andb_true_iff in HW'; destruct HW' as [HW' H] end. assumption. }
  destruct (index_in_year _ _ _ V) as (_ & _ & Hy0).
  assert (Hm0 : 1 <= r_m r <= 12) by (unfold valid_ymd in V; lia).
  destruct (RB_ok (r_y r) (r_m r) Hr0 Hm0) as (ii0 & R0).
  pose proof (timeset_is_spec r rl HN HW ltac:(rewrite Hfr; reflexivity)) as HT.
  unfold iterate, init_state. rewrite Nfr. change (MONTHLY =? WEEKLY) with false. cbn [andb]. cbv iota.
  rewrite Ny, Nm, Nd, R0. cbn [bind].
  change (MONTHLY <? HOURLY) with true. cbv iota. rewrite HT. cbn [bind]. rewrite Nc.
  unfold spec_iter.
  set (s0 := mkSt _ _ _ _ _ _ _ _ _ _ _).
  assert (A0 : inv_m 0 (r_count r) s0).
  { unfold inv_m, at_pass_m, s0, midx. cbn [c_year c_month c_ii c_timeset c_count]. split; [|exact Hr0].
    split; [exact Hm0|]. split; [exact Hy0|]. split; [ring|]. split; [exact R0|]. split; reflexivity. }
  pose proof (monthly_run_is_spec2 limit n 0 (r_count r) s0 A0 ltac:(lia) ltac:(intros j Hj; apply Hokn; lia)) as Q.
  change (c_out s0) with (@nil instant) in Q.
  destruct (run rl limit n s0) as [out t]. destruct (spec_loop r limit n 0 (r_count r) []) as [acc t'].
  cbn [fst] in *. rewrite Q. reflexivity.
Qed.
End MonthlyFull.

(* ------------------------------------------------------------------ instance 1: plain BYDAY, BYSETPOS free *)
Record mfam_s (r : raw) : Prop := mk_mfam_s {
  ms_wf : spec_wf r = true;
  ms_freq : r_freq r = MONTHLY;
  ms_plain : plain_only r = true;
  ms_weekno : all_opt (r_byweekno r) weekno_safe = true;
  ms_easter : r_byeaster r = None
}.

Theorem monthly_setpos_iter_correct : forall r rl limit n,
  normalize r = Ok rl -> mfam_s r ->
  fst (iterate rl limit n) = fst (spec_iter r limit n).
Proof.
  intros r rl limit n HN [HW Hfr Hp Hs He].
  pose proof (normalize_wkst r rl HN) as Nwk.
  pose proof (plain_only_no_nth r rl HN Hp) as TN.
  destruct (normalize_fields r rl HN) as (_ & _ & _ & _ & _ & Nea & _).
  assert (TE : truthy (byeaster rl) = false) by (rewrite Nea, He; reflexivity).
  assert (Hwk : 0 <= wkst rl <= 6).
  { rewrite Nwk. pose proof HW as HW'. unfold spec_wf in HW'.
    repeat match type of HW' with _ && _ = true =>
      let H := fresh "W" in apply andb_true_iff in HW'; destruct HW' as [HW' H] end.
    unfold between in *. lia. }
  apply (monthly_iter_correct2 r rl HN HW Hfr 1 9999); [| | |apply (start_year_range_m r HW)|intros j _; unfold okp_m; lia].
  - intros y m Hy Hm. apply (rebuild_succeeds rl y m Hy Hwk TN (or_introl TE)).
  - intros y m ii y' m' Hy Hm Ar Hy' Hm' Hne.
    destruct (Z.eq_dec y' y) as [->|Hney].
    + apply (rebuild_same_year rl y m m' ii Ar Hy TN).
    + destruct (rebuild_slots rl y m ii Hy Ar) as (LY & EM).
      destruct (rebuild_char rl y m ii Hy Ar) as (_ & CN & _).
      apply rebuild_from_previous_year; [|exact TN|apply CN; exact TN|right; apply EM; exact TE].
      rewrite LY. unfold opt_neqb. apply negb_true_iff. apply Z.eqb_neq. lia.
  - intros y m ii i Hy Hm Ar Hi.
    pose proof (dbm_mono y 1 m ltac:(lia) ltac:(lia) ltac:(lia)) as M1.
    pose proof (dbm_mono y (m + 1) 13 ltac:(lia) ltac:(lia) ltac:(lia)) as M2.
    rewrite dbm_1 in M1. rewrite dbm_13 in M2.
    apply (day_filter_correct_guarded r rl y m ii i HN HW Hp Hs (or_introl He) Hy Ar). lia.
Qed.

(* ------------------------------------------------------------------ instance 1e: the same with BYEASTER *)
Record mfam_e (r : raw) : Prop := mk_mfam_e {
  me_wf : spec_wf r = true;
  me_freq : r_freq r = MONTHLY;
  me_plain : plain_only r = true;
  me_weekno : all_opt (r_byweekno r) weekno_safe = true
}.

(* BYEASTER inside the year range of C19's Easter theorem: the start's year and the year of every pass 1..n *)
Theorem monthly_easter_iter_correct : forall r rl limit n,
  normalize r = Ok rl -> mfam_e r -> 1583 <= r_y r <= 4098 ->
  (forall j, 0 <= j < Z.of_nat n -> midx r (j + 1) / 12 <= 4098) ->
  fst (iterate rl limit n) = fst (spec_iter r limit n).
Proof.
  intros r rl limit n HN [HW Hfr Hp Hs] Hr0 Hn.
  pose proof (normalize_wkst r rl HN) as Nwk.
  pose proof (plain_only_no_nth r rl HN Hp) as TN.
  assert (Hwk : 0 <= wkst rl <= 6).
  { rewrite Nwk. pose proof HW as HW'. unfold spec_wf in HW'.
    repeat match type of HW' with _ && _ = true =>
      let H := fresh "W" in apply andb_true_iff in HW'; destruct HW' as [HW' H] end.
    unfold between in *. lia. }
  apply (monthly_iter_correct2 r rl HN HW Hfr 1583 4098).
  - intros y m Hy Hm. apply (rebuild_succeeds rl y m ltac:(lia) Hwk TN (or_intror Hy)).
  - intros y m ii y' m' Hy Hm Ar Hy' Hm' Hne.
    destruct (Z.eq_dec y' y) as [->|Hney].
    + apply (rebuild_same_year rl y m m' ii Ar ltac:(lia) TN).
    + destruct (rebuild_slots rl y m ii ltac:(lia) Ar) as (LY & EM).
      destruct (rebuild_char rl y m ii ltac:(lia) Ar) as (_ & CN & _).
      apply rebuild_from_previous_year; [|exact TN|apply CN; exact TN|].
      * rewrite LY. unfold opt_neqb. apply negb_true_iff. apply Z.eqb_neq. lia.
      * destruct (truthy (byeaster rl)) eqn:TE; [left; reflexivity|right; apply EM; reflexivity].
  - intros y m ii i Hy Hm Ar Hi.
    pose proof (dbm_mono y 1 m ltac:(lia) ltac:(lia) ltac:(lia)) as M1.
    pose proof (dbm_mono y (m + 1) 13 ltac:(lia) ltac:(lia) ltac:(lia)) as M2.
    rewrite dbm_1 in M1. rewrite dbm_13 in M2.
    apply (day_filter_correct_guarded r rl y m ii i HN HW Hp Hs (or_intror Hy) ltac:(lia) Ar). lia.
  - exact Hr0.
  - intros j Hj. unfold okp_m. left. apply Hn. exact Hj.
Qed.

(* non-vacuity: rrule(MONTHLY, dtstart=datetime(2024,2,1,9,0), byeaster=(-47, 0, 39), count=3): Shrove Tuesday,
   Easter Sunday, Ascension Day of 2024, found month by month *)
Definition raw_monthly_easter_example : raw :=
  mkRaw MONTHLY false 2024 2 1 9 0 0 1 0 (Some 3) None false
        None None None None (Some [-47; 0; 39]) None None None None None.
Example monthly_easter_example :
  mfam_e raw_monthly_easter_example /\
  match normalize raw_monthly_easter_example with
  | Ok rl => fst (iterate rl 100 40) =
             [(ord_of_ymd 2024 2 13, 32400); (ord_of_ymd 2024 3 31, 32400); (ord_of_ymd 2024 5 9, 32400)]
  | Err _ => False
  end.
Proof. split; [constructor; reflexivity|vm_compute; reflexivity]. Qed.

(* non-vacuity: rrule(MONTHLY, dtstart=datetime(2023,11,30,9,0), byweekday=(MO,TU,WE,TH,FR),
   bysetpos=(1,-1), byhour=(9,17), count=6): first and last working-day instant of each month *)
Definition raw_monthly_setpos_example : raw :=
  mkRaw MONTHLY false 2023 11 30 9 0 0 1 0 (Some 6) None false
        (Some [1; -1]) None None None None None (Some [(0, 0); (1, 0); (2, 0); (3, 0); (4, 0)])
        (Some [9; 17]) None None.
Example monthly_setpos_example :
  mfam_s raw_monthly_setpos_example /\
  match normalize raw_monthly_setpos_example with
  | Ok rl => fst (iterate rl 100 40) =
             [(ord_of_ymd 2023 11 30, 61200); (ord_of_ymd 2023 12 1, 32400); (ord_of_ymd 2023 12 29, 61200);
              (ord_of_ymd 2024 1 1, 32400); (ord_of_ymd 2024 1 31, 61200); (ord_of_ymd 2024 2 1, 32400)]
  | Err _ => False
  end.
Proof. split; [constructor; reflexivity|vm_compute; reflexivity]. Qed.
