(* C01 sub-daily, HOURLY: when the advance does not hand back a state the enumeration is over
   (`hourly_stop`), and the constructor's initial state exists (`hourly_init_ok`); relative to the
   abstract day-filter layer IOK extended by "rebuild succeeds".
   Written by the rset builder (new file). *)
From Coq Require Import ZArith List Bool Lia ZifyBool.
From V Require Import base.Cal gen.RrTables easter.EasterSpec rr.RRBase rr.RRNorm rr.RRMasks rr.RRIter
  rr.RRSpec rr.RRAdvanceThm rr.RRTimesetThm rr.RRSubNorm rr.RRSubNorm2 rr.RRSubHour rr.RRSubSpec
  rr.RRSubHourTop rr.RRSubTimes rr.RRSubPass rr.RRSubRunBase rr.RRSubHourRun rr.RRSubClose
  rr.RRSubCloseGen rr.RRSubCloseGen2 rr.RRSubStop.
Import ListNotations.
Open Scope Z_scope.

Section HourlyErr.
Variables (r : raw) (rl : rule).
Hypothesis Hn : normalize r = Ok rl.
Hypothesis HW : spec_wf r = true.
Hypothesis Hf : r_freq r = HOURLY.
Hypothesis Hnsp : r_bysetpos r = None.
Variable IOK : iinfo -> Z -> Prop.
Hypothesis IOK_rebuild_ok : forall ii y y' m', IOK ii y -> y <= y' <= 9999 -> 1 <= m' <= 12 ->
  exists ii', rebuild rl ii y' m' = Ok ii'.

Local Notation nn k := (sp_H0 r + k * r_interval r).
Local Notation filt k := (negb (day_ok r (sp_ord0 r + nn k / 24))).

Theorem hourly_err_is_value : forall s k cnt out, Den r IOK s k ->
  match advance rl s (filt k) cnt out with
  | Err e => e = EValue
  | _ => True
  end.
Proof.
  intros s k cnt out (Hk & Hv & Ho & Hh & Hmi & Hse & Hts & Hii).
  destruct (facts r rl Hn HW Hf Hnsp) as (Efr & Eitv & _ & VH & VM & VS & Hi & Hrange).
  set (filtered := filt k).
  assert (Hfilt : filtered = true -> day_ok r (sp_ord0 r + nn k / 24) = false)
    by (unfold filtered; intro E; apply negb_true_iff in E; exact E).
  destruct (advance_correct_hourly r rl k filtered Hn Hf Hi VH VM VS Hrange Hk Hfilt)
    as (nd & h' & k' & Hc & Hkk & Hord & Hh' & Hadm & Hskip).
  rewrite (advance_hourly_unfold rl s filtered cnt out Efr). rewrite Hh, Hc. cbn [bind].
  assert (Vymd : 1 <= c_year s <= 9999 /\ 1 <= c_month s <= 12 /\ 1 <= c_day s <= Cal.dim (c_year s) (c_month s))
    by (unfold valid_ymd in Hv; lia).
  destruct Vymd as (Vy & Vm & Vd).
  pose proof (hourly_core_spec rl filtered (nn k mod 24) ltac:(lia)
                ltac:(pose proof (Z.mod_pos_bound (nn k) 24 ltac:(lia)); lia)) as S.
  rewrite Hc in S. destruct S as (jj & _ & _ & Rh' & Rnd & _).
  assert (Hgt : gettimeset rl h' (c_minute s) (c_second s) = Ok (period_times r (h' * 3600))).
  { unfold gettimeset. rewrite Efr, Z.eqb_refl. apply (htimeset_is_spec r rl h' Hn HW Hf); [lia|exact Hadm]. }
  set (day' := if negb (nd =? 0) then c_day s + nd else c_day s).
  set (fx' := if negb (nd =? 0) then true else false).
  assert (Hpair : (if negb (nd =? 0) then (c_day s + nd, true) else (c_day s, false)) = (day', fx'))
    by (unfold day', fx'; destruct (negb (nd =? 0)); reflexivity).
  rewrite Hpair, Hgt. cbn [bind].
  assert (Ed' : day' = c_day s + nd) by (unfold day'; destruct (Z.eqb_spec nd 0); cbn [negb]; lia).
  destruct (finish_advance_cases rl s fx' (c_year s) (c_month s) day' h' (c_minute s) (c_second s)
              (c_weekday s) (c_ii s) (period_times r (h' * 3600)) cnt out Vm ltac:(lia) ltac:(unfold T_MAXYEAR; lia))
    as [[s' ->]|[[-> Hbeyond]|(e & y' & m' & -> & Hreb & Hy' & Hm')]].
  - exact I.
  - exact I.
  - exfalso. unfold T_MAXYEAR in Hy'.
    destruct (IOK_rebuild_ok (c_ii s) (c_year s) y' m' Hii Hy' Hm') as [ii' E]. congruence.
Qed.

End HourlyErr.
