(* C01 -- theorems about the main loop of the model (RRIter) that hold for EVERY rule and every
   frequency (including the sub-daily ones), by induction over the loop:
   every yielded instant is >= dtstart and not after UNTIL, at most COUNT instants are yielded,
   and the out-of-fuel outcome of the day-normalisation loop (fix_loop) is unreachable. *)
From Coq Require Import ZArith List Bool Lia ZifyBool.
From V Require Import base.Cal gen.RrTables rr.RRBase rr.RRNorm rr.RRMasks rr.RRIter.
Import ListNotations.
Open Scope Z_scope.

Section Gate.
Variable rl : rule.

Definition inb (x : instant) : Prop :=
  inst_le (dtstart_inst rl) x = true /\ after_until rl x = false.

(* count bookkeeping: c0 is the rule's COUNT, k what is left of it *)
Definition cnt_inv (c0 : option Z) (cnt : option Z) (out : list instant) : Prop :=
  match c0, cnt with
  | Some c, Some k => zlen out + k = c /\ (0 <= k \/ zlen out = 0)
  | None, None => True
  | _, _ => False
  end.

Definition cnt_bound (c0 : option Z) (out : list instant) : Prop :=
  match c0 with Some c => zlen out <= Z.max c 0 | None => True end.

Lemma zlen_cons {A} (x : A) l : zlen (x :: l) = zlen l + 1.
Proof. unfold zlen. cbn [length]. lia. Qed.

Lemma zlen_nonneg {A} (l : list A) : 0 <= zlen l.
Proof. unfold zlen. lia. Qed.

Lemma cnt_inv_bound c0 cnt out : cnt_inv c0 cnt out -> cnt_bound c0 out.
Proof.
  unfold cnt_inv, cnt_bound. destruct c0 as [c|], cnt as [k|]; try tauto. lia.
Qed.

Definition inv3 (c0 : option Z) (out : list instant) (cnt : option Z) (st : option term) : Prop :=
  Forall inb out /\ (st = None -> cnt_inv c0 cnt out) /\ cnt_bound c0 out.

Lemma gate_one_inv c0 x cnt out :
  Forall inb out -> cnt_inv c0 cnt out ->
  let '(out', cnt', st) := gate_one rl x cnt out in inv3 c0 out' cnt' st.
Proof.
  intros HF HC. pose proof (cnt_inv_bound _ _ _ HC) as HB. unfold gate_one, inv3.
  destruct (after_until rl x) eqn:EU.
  { split; [exact HF|split; [discriminate|exact HB]]. }
  destruct (inst_le (dtstart_inst rl) x) eqn:ES.
  2:{ split; [exact HF|split; [intros _; exact HC|exact HB]]. }
  assert (FX : Forall inb (x :: out)) by (constructor; [split; assumption|exact HF]).
  destruct cnt as [k|].
  - destruct (k - 1 <? 0) eqn:EK.
    + split; [exact HF|split; [discriminate|exact HB]].
    + assert (CI : cnt_inv c0 (Some (k - 1)) (x :: out)).
      { unfold cnt_inv in *. destruct c0 as [c|]; [|tauto]. rewrite zlen_cons. lia. }
      split; [exact FX|split; [intros _; exact CI|exact (cnt_inv_bound _ _ _ CI)]].
  - assert (CI : cnt_inv c0 None (x :: out)).
    { unfold cnt_inv in *. destruct c0; tauto. }
    split; [exact FX|split; [intros _; exact CI|exact (cnt_inv_bound _ _ _ CI)]].
Qed.

Lemma gate_list_inv c0 xs : forall cnt out,
  Forall inb out -> cnt_inv c0 cnt out ->
  let '(out', cnt', st) := gate_list rl xs cnt out in inv3 c0 out' cnt' st.
Proof.
  induction xs as [|x t IH]; intros cnt out HF HC; cbn [gate_list].
  - split; [exact HF|split; [intros _; exact HC|exact (cnt_inv_bound _ _ _ HC)]].
  - pose proof (gate_one_inv c0 x cnt out HF HC) as G.
    destruct (gate_one rl x cnt out) as [[o1 c1] s1].
    destruct s1 as [t1|]; [exact G|].
    destruct G as (F1 & C1 & _). apply IH; [exact F1|exact (C1 eq_refl)].
Qed.

Lemma out_days_inv c0 yo ts sl : forall cnt out,
  Forall inb out -> cnt_inv c0 cnt out ->
  let '(out', cnt', st) := out_days rl yo sl ts cnt out in inv3 c0 out' cnt' st.
Proof.
  induction sl as [|d t IH]; intros cnt out HF HC; cbn [out_days].
  - split; [exact HF|split; [intros _; exact HC|exact (cnt_inv_bound _ _ _ HC)]].
  - destruct d as [i|]; [|apply IH; assumption].
    destruct (from_ordinal (yo + i)) as [o|e].
    + pose proof (gate_list_inv c0 (map (fun s => (o, s)) ts) cnt out HF HC) as G.
      destruct (gate_list rl (map (fun s => (o, s)) ts) cnt out) as [[o1 c1] s1].
      destruct s1 as [t1|]; [exact G|].
      destruct G as (F1 & C1 & _). apply IH; [exact F1|exact (C1 eq_refl)].
    + split; [exact HF|split; [discriminate|exact (cnt_inv_bound _ _ _ HC)]].
Qed.

(* the advance step only moves the cursor: yielded list and remaining count pass through *)
Lemma finish_advance_out s fixday y m d hh mi ss wd ii ts cnt out s' :
  finish_advance rl s fixday y m d hh mi ss wd ii ts cnt out = Ok (AdvGo s') ->
  c_out s' = out /\ c_count s' = cnt.
Proof.
  unfold finish_advance.
  destruct (fixday && (28 <? d)); [|intros E; inversion E; subst; auto].
  destruct (Cal.dim y m <? d); [|intros E; inversion E; subst; auto].
  destruct (fix_loop _ _ _ _ _); try discriminate.
  destruct (rebuild rl ii y0 m0); cbn [bind]; [|discriminate].
  intros E; inversion E; subst; auto.
Qed.

Lemma advance_out s filtered cnt out s' :
  advance rl s filtered cnt out = Ok (AdvGo s') -> c_out s' = out /\ c_count s' = cnt.
Proof.
  unfold advance.
  repeat match goal with
  | |- finish_advance _ _ _ _ _ _ _ _ _ _ _ _ _ _ = _ -> _ => apply finish_advance_out
  | |- Ok AdvMax = _ -> _ => discriminate
  | |- Err _ = _ -> _ => discriminate
  | |- context [if ?b then _ else _] => destruct b
  | |- context [bind ?r _] => destruct r; cbn [bind]
  | |- context [match ?x with _ => _ end] => destruct x
  end.
Qed.

Definition st_inv (c0 : option Z) (s : state) : Prop :=
  Forall inb (c_out s) /\ cnt_inv c0 (c_count s) (c_out s).
Definition res_inv (c0 : option Z) (r : list instant * term) : Prop :=
  Forall inb (fst r) /\ cnt_bound c0 (fst r).

Lemma step_inv c0 s : st_inv c0 s ->
  match step rl s with inl s' => st_inv c0 s' | inr r => res_inv c0 r end.
Proof.
  intros [HF HC]. pose proof (cnt_inv_bound _ _ _ HC) as HB.
  unfold step.
  destruct (bind (getdayset rl (c_ii s) (c_year s) (c_month s) (c_day s)) _) as [[[[ds st] en] filtered]|e];
    [|split; assumption].
  set (sl := py_slice ds st en).
  set (ph := if truthy (bysetpos rl) && nonempty (c_timeset s)
     then match poslist_build (yearordinal (c_ii s)) (somes sl) (c_timeset s) (opt_list (bysetpos rl)) [] with
          | Err e => (c_out s, c_count s, Some (TRaised e))
          | Ok pl => gate_list rl (sort_inst pl) (c_count s) (c_out s)
          end
     else out_days rl (yearordinal (c_ii s)) sl (c_timeset s) (c_count s) (c_out s)).
  assert (K : let '(o1, c1, stp) := ph in inv3 c0 o1 c1 stp).
  { unfold ph. destruct (truthy (bysetpos rl) && nonempty (c_timeset s)).
    - destruct (poslist_build _ _ _ _ _).
      + apply gate_list_inv; assumption.
      + split; [exact HF|split; [discriminate|exact HB]].
    - apply out_days_inv; assumption. }
  destruct ph as [[o1 c1] stp]. destruct K as (F1 & C1 & B1).
  destruct stp as [t|]; [split; assumption|].
  destruct (advance rl s filtered c1 o1) as [[| |s']|e] eqn:EA; try (split; assumption).
  destruct (advance_out s filtered c1 o1 s' EA) as [E2 E3].
  unfold st_inv. rewrite E2, E3. split; [assumption|auto].
Qed.

Lemma run_inv c0 limit fuel : forall s, st_inv c0 s -> res_inv c0 (run rl limit fuel s).
Proof.
  induction fuel as [|k IH]; intros s HS; cbn [run].
  - destruct HS as [HF HC]. split; [exact HF|exact (cnt_inv_bound _ _ _ HC)].
  - destruct (limit <=? zlen (c_out s)).
    + destruct HS as [HF HC]. split; [exact HF|exact (cnt_inv_bound _ _ _ HC)].
    + pose proof (step_inv c0 s HS) as S. destruct (step rl s) as [s'|r]; [apply IH; exact S|exact S].
Qed.
End Gate.

Lemma zlen_rev {A} (l : list A) : zlen (rev l) = zlen l.
Proof. unfold zlen. rewrite rev_length. reflexivity. Qed.

Lemma init_state_out rl s : init_state rl = Ok s -> c_out s = [] /\ c_count s = count rl.
Proof.
  unfold init_state. intros EI.
  destruct (if (freq rl =? WEEKLY) && truthy (bysetpos rl) then _ else _) as [[[y0 m0] d0] w0].
  match type of EI with bind ?r _ = _ => destruct r; cbn [bind] in EI; [|discriminate] end.
  match type of EI with bind ?r _ = _ => destruct r; cbn [bind] in EI; [|discriminate] end.
  inversion EI; subst; auto.
Qed.

Lemma iterate_inv rl limit fuel :
  Forall (inb rl) (fst (iterate rl limit fuel)) /\ cnt_bound (count rl) (fst (iterate rl limit fuel)).
Proof.
  unfold iterate. destruct (init_state rl) as [s|e] eqn:EI.
  - destruct (init_state_out rl s EI) as [HO HCn].
    assert (HS : st_inv rl (count rl) s).
    { unfold st_inv. rewrite HO, HCn. split; [constructor|].
      unfold cnt_inv. destruct (count rl); [|exact I]. unfold zlen. cbn. lia. }
    pose proof (run_inv rl (count rl) limit fuel s HS) as [F B].
    destruct (run rl limit fuel s) as [out t]. cbn [fst] in *. split.
    + apply Forall_forall. intros x Hx. apply in_rev in Hx. rewrite Forall_forall in F. auto.
    + unfold cnt_bound in *. destruct (count rl); [|exact I]. rewrite zlen_rev. exact B.
  - cbn [fst]. split; [constructor|]. unfold cnt_bound. destruct (count rl); [|exact I].
    unfold zlen. cbn. lia.
Qed.

(* every instant the model yields is >= dtstart and not after UNTIL (all rules, all frequencies) *)
Theorem iterate_within_bounds : forall rl limit fuel x,
  In x (fst (iterate rl limit fuel)) ->
  inst_le (dtstart_inst rl) x = true /\ after_until rl x = false.
Proof.
  intros rl limit fuel x Hx. destruct (iterate_inv rl limit fuel) as [F _].
  rewrite Forall_forall in F. exact (F x Hx).
Qed.

(* at most COUNT instants are yielded *)
Theorem iterate_count_bound : forall rl limit fuel c,
  count rl = Some c -> zlen (fst (iterate rl limit fuel)) <= Z.max c 0.
Proof.
  intros rl limit fuel c EC. destruct (iterate_inv rl limit fuel) as [_ B].
  unfold cnt_bound in B. rewrite EC in B. exact B.
Qed.

(* the month/year carry loop never runs out of its fuel: fuel = day suffices because each pass
   removes at least 28 days *)
Theorem fix_loop_never_out_of_fuel : forall k year month day dm,
  28 <= dm -> 1 <= month <= 12 -> day <= 28 * Z.of_nat k + dm ->
  fix_loop (S k) year month day dm <> FixFuel.
Proof.
  induction k as [|k IH]; intros year month day dm Hdm Hm Hd.
  - cbn [fix_loop]. destruct (dm <? day) eqn:E; [lia|discriminate].
  - remember (S k) as k1. cbn [fix_loop]. destruct (dm <? day) eqn:E; [|discriminate].
    subst k1.
    destruct (month + 1 =? 13) eqn:E13.
    + destruct (T_MAXYEAR <? year + 1); [discriminate|].
      pose proof (dim_pos (year + 1) 1). apply IH; lia.
    + pose proof (dim_pos year (month + 1)). apply IH; lia.
Qed.

(* hence the advance step never reports AdvFuel (the cursor month is always 1..12) *)
Theorem finish_advance_never_out_of_fuel :
  forall rl s fixday y m d hh mi ss wd ii ts cnt out,
  1 <= m <= 12 -> finish_advance rl s fixday y m d hh mi ss wd ii ts cnt out <> Ok AdvFuel.
Proof.
  intros rl s fixday y m d hh mi ss wd ii ts cnt out Hm. unfold finish_advance.
  destruct (fixday && (28 <? d)) eqn:E1; [|discriminate].
  destruct (Cal.dim y m <? d) eqn:E2; [|discriminate].
  pose proof (dim_pos y m) as Hd.
  assert (Hk : exists k, Z.to_nat d = S k /\ d <= 28 * Z.of_nat k + Cal.dim y m).
  { exists (Z.to_nat (d - 1)). split; lia. }
  destruct Hk as (k & Ek & Hk). rewrite Ek.
  pose proof (fix_loop_never_out_of_fuel k y m d (Cal.dim y m) ltac:(lia) Hm Hk) as NF.
  destruct (fix_loop (S k) y m d (Cal.dim y m)); try discriminate; [|contradiction].
  destruct (rebuild rl ii y0 m0); cbn [bind]; discriminate.
Qed.

Example iterate_bounds_example :
  let rl := mkRule DAILY 1 0 (Some 3) None 2000 1 30 0 0 0 None None None None [] [] None None None
                   (Some [0]) (Some [0]) (Some [0]) (Some [0]) in
  fst (iterate rl 10 20%nat) = [(730149, 0); (730150, 0); (730151, 0)].
Proof. vm_compute. reflexivity. Qed.
