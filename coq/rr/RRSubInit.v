(* C01 sub-daily: the constructor's initial state exists whenever rebuild() succeeds for the start
   year -- the time set of period 0 never raises (HOURLY / MINUTELY / SECONDLY, spec_wf rules).
   Written by the rset builder (new file). *)
From Coq Require Import ZArith List Bool Lia ZifyBool.
From V Require Import base.Cal gen.RrTables easter.EasterSpec rr.RRBase rr.RRNorm rr.RRMasks rr.RRIter
  rr.RRSpec rr.RRTimesetThm rr.RRSubNorm rr.RRSubNorm2 rr.RRSubSpec rr.RRSubMin rr.RRSubSec
  rr.RRSubMinTop rr.RRSubSecTop rr.RRSubTimes rr.RRSubHourRun rr.RRSubMinRun rr.RRSubSecRun.
Import ListNotations.
Open Scope Z_scope.

Lemma hourly_init_exists : forall r rl, normalize r = Ok rl -> spec_wf r = true -> r_freq r = HOURLY ->
  r_bysetpos r = None -> (exists ii0, rebuild rl ii_init (r_y r) (r_m r) = Ok ii0) ->
  exists s0, init_state rl = Ok s0.
Proof.
  intros r rl Hn HW Hf Hnsp [ii0 Er].
  destruct (facts r rl Hn HW Hf Hnsp) as (Efr & Eitv & _ & VH & VM & VS & Hi & Hrange).
  destruct (normalize_copied r rl Hn) as (Ec & _ & _ & _ & Ey & Em & Ed).
  destruct (normalize_time_fields r rl Hn) as [_ [_ [EH [EM [ES [Bh _]]]]]].
  unfold init_state. cbv zeta. rewrite Ey, Em, Ed, EH, EM, ES, Efr, Ec.
  change (HOURLY =? WEEKLY) with false. cbn [andb]. cbv iota beta. rewrite Er. cbn [bind].
  change (HOURLY <? HOURLY) with false. change (HOURLY <=? HOURLY) with true.
  change (MINUTELY <=? HOURLY) with false. change (SECONDLY <=? HOURLY) with false.
  cbn [andb orb]. rewrite !orb_false_r.
  assert (Hts : (if truthy (byhour rl) && negb (memZ (sp_H0 r) (opt_list (byhour rl))) then Ok []
                 else gettimeset rl (sp_H0 r) (sp_M0 r) (sp_S0 r)) = Ok (period_times r (sp_H0 r * 3600))).
  { unfold by_field in Bh. rewrite Hf, Z.eqb_refl in Bh. change (HOURLY <? HOURLY) with false in Bh.
    destruct (r_byhour r) as [l|] eqn:El.
    - destruct Bh as [c [Hc Ebh]]. destruct (construct_byset_ok _ _ _ _ _ Hc) as [_ Hne].
      rewrite Ebh. rewrite truthy_sort_set by assumption. cbn [andb opt_list].
      rewrite (constructed_mem (r_interval r) (sp_H0 r) l 24 c (sp_H0 r) 0 ltac:(lia) ltac:(lia) ltac:(lia) Hc
                 ltac:(rewrite Z.mul_0_l, Z.add_0_r, Z.mod_small by lia; reflexivity)).
      destruct (memZ (sp_H0 r) l) eqn:Em0; cbn [negb].
      + unfold gettimeset. rewrite Efr, Z.eqb_refl.
        apply (htimeset_is_spec r rl (sp_H0 r) Hn HW Hf VH). rewrite El. exact Em0.
      + f_equal. symmetry. apply (period_times_hourly_out r (sp_H0 r) l Hf VH El Em0).
    - rewrite Bh. cbn [truthy andb]. unfold gettimeset. rewrite Efr, Z.eqb_refl.
      apply (htimeset_is_spec r rl (sp_H0 r) Hn HW Hf VH). rewrite El. reflexivity. }
  rewrite Hts. cbn [bind]. eexists. reflexivity.
Qed.

Lemma minutely_init_exists : forall r rl, normalize r = Ok rl -> spec_wf r = true -> r_freq r = MINUTELY ->
  r_bysetpos r = None -> (exists ii0, rebuild rl ii_init (r_y r) (r_m r) = Ok ii0) ->
  exists s0, init_state rl = Ok s0.
Proof.
  intros r rl Hn HW Hf Hnsp [ii0 Er].
  destruct (factsM r rl Hn HW Hf Hnsp) as (Efr & Eitv & _ & VH & VM & VS & Hi & Hne).
  destruct (normalize_copied r rl Hn) as (Ec & _ & _ & _ & Ey & Em & Ed).
  destruct (normalize_time_fields r rl Hn) as [_ [_ [EH [EM [ES _]]]]].
  set (a0 := min_n r 0 mod 1440).
  assert (Ea0 : a0 = sp_H0 r * 60 + sp_M0 r).
  { unfold a0, min_n. rewrite Z.mul_0_l, Z.add_0_r. apply Z.mod_small. lia. }
  assert (Eh0 : a0 / 60 = sp_H0 r) by (rewrite Ea0; symmetry; apply (Z.div_unique _ 60 _ (sp_M0 r)); lia).
  assert (Em0 : a0 mod 60 = sp_M0 r) by (rewrite Ea0; symmetry; apply (Z.mod_unique _ 60 (sp_H0 r) (sp_M0 r)); lia).
  unfold init_state. cbv zeta. rewrite Ey, Em, Ed, EH, EM, ES, Efr, Ec.
  change (MINUTELY =? WEEKLY) with false. cbn [andb]. cbv iota beta. rewrite Er. cbn [bind].
  change (MINUTELY <? HOURLY) with false. change (HOURLY <=? MINUTELY) with true.
  change (MINUTELY <=? MINUTELY) with true. change (SECONDLY <=? MINUTELY) with false.
  cbn [andb orb]. rewrite !orb_false_r.
  assert (Hts : (if truthy (byhour rl) && negb (memZ (sp_H0 r) (opt_list (byhour rl))) ||
                    truthy (byminute rl) && negb (memZ (sp_M0 r) (opt_list (byminute rl)))
                 then Ok [] else gettimeset rl (sp_H0 r) (sp_M0 r) (sp_S0 r))
                = Ok (period_times r (a0 * 60))).
  { pose proof (min_adm_is_spec r rl Hn Hf Hi Hne 0 ltac:(lia)) as MA. cbv zeta in MA. fold a0 in MA.
    assert (Ecnd : (truthy (byhour rl) && negb (memZ (sp_H0 r) (opt_list (byhour rl))) ||
                    truthy (byminute rl) && negb (memZ (sp_M0 r) (opt_list (byminute rl))))
                   = negb (min_adm rl a0)).
    { unfold min_adm. rewrite Em0. rewrite (Z.mod_small (a0 / 60) 24) by (rewrite Eh0; lia). rewrite Eh0.
      destruct (truthy (byhour rl)), (truthy (byminute rl)),
        (memZ (sp_H0 r) (opt_list (byhour rl))), (memZ (sp_M0 r) (opt_list (byminute rl))); reflexivity. }
    rewrite Ecnd. destruct (min_adm rl a0) eqn:Eadm; cbn [negb].
    - symmetry in MA. apply andb_true_iff in MA. destruct MA as [A1 A2]. rewrite Eh0 in A1. rewrite Em0 in A2.
      unfold gettimeset. rewrite Efr. change (MINUTELY =? HOURLY) with false. change (MINUTELY =? MINUTELY) with true.
      cbv iota. rewrite (mtimeset_is_spec r rl (sp_H0 r) (sp_M0 r) Hn HW Hf VH VM A1 A2).
      do 2 f_equal. rewrite Ea0. ring.
    - f_equal. symmetry. apply (min_bad_no_times r rl Hn Hf Hi Hne 0 ltac:(lia) Eadm). }
  rewrite Hts. cbn [bind]. eexists. reflexivity.
Qed.

Lemma secondly_init_exists : forall r rl, normalize r = Ok rl -> spec_wf r = true -> r_freq r = SECONDLY ->
  r_bysetpos r = None -> (exists ii0, rebuild rl ii_init (r_y r) (r_m r) = Ok ii0) ->
  exists s0, init_state rl = Ok s0.
Proof.
  intros r rl Hn HW Hf Hnsp [ii0 Er].
  destruct (factsS r rl Hn HW Hf Hnsp) as (Efr & Eitv & _ & VH & VM & VS & Hi & Hneh & Hnem).
  destruct (normalize_copied r rl Hn) as (Ec & _ & _ & _ & Ey & Em & Ed).
  destruct (normalize_time_fields r rl Hn) as [_ [_ [EH [EM [ES _]]]]].
  set (a0 := sec_n r 0 mod 86400).
  assert (Ea0 : a0 = sp_H0 r * 3600 + sp_M0 r * 60 + sp_S0 r).
  { unfold a0, sec_n, sp_sod0. rewrite Z.mul_0_l, Z.add_0_r. apply Z.mod_small. lia. }
  assert (Eh0 : a0 / 3600 = sp_H0 r)
    by (rewrite Ea0; symmetry; apply (Z.div_unique _ 3600 _ (sp_M0 r * 60 + sp_S0 r)); lia).
  assert (Em0 : (a0 / 60) mod 60 = sp_M0 r).
  { rewrite Ea0. replace ((sp_H0 r * 3600 + sp_M0 r * 60 + sp_S0 r) / 60) with (sp_H0 r * 60 + sp_M0 r)
      by (apply (Z.div_unique _ 60 _ (sp_S0 r)); lia).
    symmetry. apply (Z.mod_unique _ 60 (sp_H0 r) (sp_M0 r)); lia. }
  assert (Es0 : a0 mod 60 = sp_S0 r)
    by (rewrite Ea0; symmetry; apply (Z.mod_unique _ 60 (sp_H0 r * 60 + sp_M0 r) (sp_S0 r)); lia).
  unfold init_state. cbv zeta. rewrite Ey, Em, Ed, EH, EM, ES, Efr, Ec.
  change (SECONDLY =? WEEKLY) with false. cbn [andb]. cbv iota beta. rewrite Er. cbn [bind].
  change (SECONDLY <? HOURLY) with false. change (HOURLY <=? SECONDLY) with true.
  change (MINUTELY <=? SECONDLY) with true. change (SECONDLY <=? SECONDLY) with true.
  cbn [andb].
  assert (Hts : (if truthy (byhour rl) && negb (memZ (sp_H0 r) (opt_list (byhour rl))) ||
                    truthy (byminute rl) && negb (memZ (sp_M0 r) (opt_list (byminute rl))) ||
                    truthy (bysecond rl) && negb (memZ (sp_S0 r) (opt_list (bysecond rl)))
                 then Ok [] else gettimeset rl (sp_H0 r) (sp_M0 r) (sp_S0 r))
                = Ok (period_times r a0)).
  { pose proof (sec_adm_is_spec r rl Hn Hf Hi Hneh Hnem 0 ltac:(lia)) as MA. cbv zeta in MA. fold a0 in MA.
    assert (Ecnd : (truthy (byhour rl) && negb (memZ (sp_H0 r) (opt_list (byhour rl))) ||
                    truthy (byminute rl) && negb (memZ (sp_M0 r) (opt_list (byminute rl))) ||
                    truthy (bysecond rl) && negb (memZ (sp_S0 r) (opt_list (bysecond rl))))
                   = negb (sec_adm rl a0)).
    { unfold sec_adm. rewrite Em0, Es0. rewrite (Z.mod_small (a0 / 3600) 24) by (rewrite Eh0; lia). rewrite Eh0.
      destruct (truthy (byhour rl)), (truthy (byminute rl)), (truthy (bysecond rl)),
        (memZ (sp_H0 r) (opt_list (byhour rl))), (memZ (sp_M0 r) (opt_list (byminute rl))),
        (memZ (sp_S0 r) (opt_list (bysecond rl))); reflexivity. }
    rewrite Ecnd. destruct (sec_adm rl a0) eqn:Eadm; cbn [negb].
    - symmetry in MA. apply andb_true_iff in MA. destruct MA as [A12 A3].
      apply andb_true_iff in A12. destruct A12 as [A1 A2].
      rewrite Eh0 in A1. rewrite Em0 in A2. rewrite Es0 in A3.
      unfold gettimeset. rewrite Efr. change (SECONDLY =? HOURLY) with false. change (SECONDLY =? MINUTELY) with false.
      cbv iota. rewrite (stimeset_is_spec r (sp_H0 r) (sp_M0 r) (sp_S0 r) HW Hf VH VM VS A1 A2 A3).
      rewrite Ea0. reflexivity.
    - f_equal. symmetry. apply (sec_bad_no_times r rl Hn Hf Hi Hneh Hnem 0 ltac:(lia) Eadm). }
  rewrite Hts. cbn [bind]. eexists. reflexivity.
Qed.
