(* finite sweep shard: year shapes whose 1 January is weekday 2 (see RRWeekSweepDefs.v) *)
From Coq Require Import ZArith List Bool.
From V Require Import rr.RRWeekSweepDefs.
Open Scope Z_scope.
Lemma sweep_wd_2 : sweep_wd 2 = true.
Proof. vm_compute. reflexivity. Qed.
