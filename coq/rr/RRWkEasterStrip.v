(* C01 -- rules WITH BYEASTER, WEEKLY and DAILY: the rr builder's RREasterTop.rrule_iter_correct_coarse_easter
   without `plain_only` for these two frequencies -- numeric BYDAY prefixes are ignored for FREQ finer
   than MONTHLY (RRStripThm), and `strip` keeps BYEASTER, so the guard carries over.  YEARLY / MONTHLY
   keep plain_only here (BYEASTER next to nth weekdays is open).  Written by the rset builder (new file). *)
From Coq Require Import ZArith List Bool Lia ZifyBool.
From V Require Import base.Cal rr.RRBase rr.RRNorm rr.RRMasks rr.RRIter rr.RRSpec rr.RRWeekFinal rr.RRFilterSpec
  rr.RRWeeklyThm rr.RRMonthlyThm rr.RRDailyEasterThm rr.RRWeeklyEasterThm rr.RREasterTop rr.RRStripThm.
Import ListNotations.
Open Scope Z_scope.

Definition easter_guard_all (r : raw) (n : nat) : Prop :=
  spec_wf r = true /\ all_opt (r_byweekno r) weekno_safe = true /\
  ((r_freq r = YEARLY /\ plain_only r = true /\ 1583 <= r_y r <= 4098 /\
    forall j, 0 <= j < Z.of_nat n -> r_y r + (j + 1) * r_interval r <= 4098) \/
   (r_freq r = MONTHLY /\ plain_only r = true /\ 1583 <= r_y r <= 4098 /\
    forall j, 0 <= j < Z.of_nat n -> midx r (j + 1) / 12 <= 4098) \/
   (r_freq r = WEEKLY /\ (r_bysetpos r <> None -> 1 <= ws0 r) /\ 1584 <= r_y r /\ r_y r + 1 <= 4098 /\
    (n <> 0%nat -> wlo r (Z.of_nat n) <= we_last)) \/
   (r_freq r = DAILY /\ 1583 <= r_y r <= 4098 /\
    (n <> 0%nat -> sp_ord0 r + Z.of_nat n * r_interval r <= e_last))).

Lemma easter_guard_reduce r rl n : normalize r = Ok rl -> easter_guard_all r n ->
  exists r', normalize r' = Ok rl /\ easter_guard r' n /\
             (forall limit, spec_iter r' limit n = spec_iter r limit n).
Proof.
  intros HN (HW & Hs & [(Hf & Hp & Hy & Hn)|[(Hf & Hp & Hy & Hn)|[(Hf & Hw & Hy1 & Hy2 & Hn)|(Hf & Hy & Hn)]]]).
  - exists r. split; [exact HN|]. split; [|reflexivity]. repeat split; try assumption. left. repeat split; assumption || apply Hy.
  - exists r. split; [exact HN|]. split; [|reflexivity]. repeat split; try assumption. right. left. repeat split; assumption || apply Hy.
  - assert (Hm : (MONTHLY <? r_freq r) = true) by (rewrite Hf; reflexivity).
    exists (strip r). split; [rewrite (normalize_strip r Hm); exact HN|]. split.
    + split; [rewrite spec_wf_strip; exact HW|]. split; [apply plain_only_strip|]. split; [exact Hs|].
      right. right. left. split; [exact Hf|]. split; [exact Hw|]. split; [exact Hy1|]. split; [exact Hy2|exact Hn].
    + intros limit. apply (spec_iter_strip r limit n Hm).
  - assert (Hm : (MONTHLY <? r_freq r) = true) by (rewrite Hf; reflexivity).
    exists (strip r). split; [rewrite (normalize_strip r Hm); exact HN|]. split.
    + split; [rewrite spec_wf_strip; exact HW|]. split; [apply plain_only_strip|]. split; [exact Hs|].
      right. right. right. split; [exact Hf|]. split; [exact Hy|exact Hn].
    + intros limit. apply (spec_iter_strip r limit n Hm).
Qed.

Theorem rrule_iter_correct_coarse_easter_all : forall r rl limit n,
  normalize r = Ok rl -> easter_guard_all r n ->
  fst (iterate rl limit n) = fst (spec_iter r limit n).
Proof.
  intros r rl limit n HN G. destruct (easter_guard_reduce r rl n HN G) as (r' & HN' & G' & E).
  rewrite <- E. apply (rrule_iter_correct_coarse_easter r' rl limit n HN' G').
Qed.

(* non-vacuity (checked against the real dateutil): rrule(WEEKLY, dtstart=datetime(2024,3,25,9,0),
   byeaster=(0,1), byweekday=(MO(+1), SU), count=3): Easter Sunday and Monday 2024, Easter Sunday 2025; the
   numeric prefix is ignored *)
Definition raw_weekly_easter_nth_example : raw :=
  mkRaw WEEKLY false 2024 3 25 9 0 0 1 0 (Some 3) None false
        None None None None (Some [0; 1]) None (Some [(0, 1); (6, 0)]) None None None.
Example weekly_easter_nth_example :
  easter_guard_all raw_weekly_easter_nth_example 60 /\ plain_only raw_weekly_easter_nth_example = false /\
  match normalize raw_weekly_easter_nth_example with
  | Ok rl => fst (iterate rl 100 60) = [(738976, 32400); (738977, 32400); (739361, 32400)]
  | Err _ => False
  end.
Proof.
  split.
  - split; [reflexivity|]. split; [reflexivity|]. right. right. left.
    split; [reflexivity|]. split; [intros _; vm_compute; discriminate|]. split; [vm_compute; discriminate|].
    split; [vm_compute; discriminate|]. intros _. vm_compute. discriminate.
  - split; [reflexivity|]. vm_compute. reflexivity.
Qed.
