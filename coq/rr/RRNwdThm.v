(* C01 layer 3 -- the nth-weekday mask (rrule.py 1223-1252).  For EVERY range (first, last),
   weekday of 1 January, and EVERY list of (weekday, n) pairs the mask marks index j exactly when
   j lies in the range, has the listed weekday and is the n-th (n > 0) / |n|-th last (n < 0) such
   day of the range -- RRSpec.nth_in on the position within the range.  No finite sweep except the
   7 x 378 lookups of the shifted WDAYMASK; everything else by arithmetic and the union lemma. *)
From Coq Require Import ZArith List Bool Lia ZifyBool.
From V Require Import base.Cal gen.RrTables rr.RRBase rr.RRNorm rr.RRMasks rr.RRSpec rr.RROverlay
  rr.RRWeekThm rr.RREasterThm.
Import ListNotations.
Ltac Zify.zify_post_hook ::= Z.to_euclidean_division_equations.
Open Scope Z_scope.

Definition nwd_op (wdm : list Z) (first last : Z) (mask : list Z) (wn : Z * Z) : res (list Z) :=
  let '(wday, n) := wn in
  if n <? 0 then
    let i := last + (n + 1) * 7 in
    if i <? first then Ok mask else
    do w <- py_nth wdm i;
    let i := i - (w - wday) mod 7 in
    if (first <=? i) && (i <=? last) then py_set mask i 1 else Ok mask
  else
    let i := first + (n - 1) * 7 in
    if last <? i then Ok mask else
    do w <- py_nth wdm i;
    let i := i + (7 - w + wday) mod 7 in
    if (first <=? i) && (i <=? last) then py_set mask i 1 else Ok mask.

Lemma nwd_range_unfold wdm pairs mask first last0 :
  nwd_range wdm pairs mask [first; last0] = fold_res (nwd_op wdm first (last0 - 1)) pairs mask.
Proof. reflexivity. Qed.

Lemma additive_err e : additive (fun _ => Err e).
Proof. split; [reflexivity|discriminate]. Qed.

Lemma additive_nwd_op wdm first last wn : additive (fun m => nwd_op wdm first last m wn).
Proof.
  unfold nwd_op. destruct wn as [wday n].
  destruct (n <? 0).
  - destruct (_ <? first); [apply additive_id|].
    destruct (py_nth wdm _) as [w|e]; cbn [bind]; [|apply additive_err].
    destruct (_ && _); [apply additive_py_set|apply additive_id].
  - destruct (last <? _); [apply additive_id|].
    destruct (py_nth wdm _) as [w|e]; cbn [bind]; [|apply additive_err].
    destruct (_ && _); [apply additive_py_set|apply additive_id].
Qed.

Lemma additive_nwd_range wdm pairs rg : additive (fun m => nwd_range wdm pairs m rg).
Proof.
  destruct rg as [|first [|last0 [|x t]]]; try apply additive_err.
  apply additive_fold. intros wn. apply additive_nwd_op.
Qed.

(* the shifted weekday table: wdaymask[i] = (weekday of 1 Jan + i) mod 7 *)
Definition wdm_of (ywd : Z) : list Z := py_from T_WDAYMASK ywd.
Lemma wdm_sweep :
  forallb (fun ywd => forallb (fun i =>
     match py_nth (wdm_of ywd) i with Ok w => w =? (ywd + i) mod 7 | Err _ => false end)
     (zrange 0 378)) (zrange 0 7) = true.
Proof. vm_compute. reflexivity. Qed.

Lemma In_zrange_nat' n : forall a x, a <= x < a + Z.of_nat n -> In x (zrange_nat a n).
Proof.
  induction n as [|n IH]; intros a x H; [lia|]. cbn [zrange_nat].
  destruct (Z.eq_dec x a) as [->|Hne]; [left; reflexivity|right; apply IH; lia].
Qed.

Lemma wdm_nth ywd i : 0 <= ywd <= 6 -> 0 <= i < 378 -> py_nth (wdm_of ywd) i = Ok ((ywd + i) mod 7).
Proof.
  intros Hy Hi. pose proof wdm_sweep as S. rewrite forallb_forall in S.
  assert (I1 : In ywd (zrange 0 7)) by (apply In_zrange_nat'; lia).
  specialize (S ywd I1). rewrite forallb_forall in S.
  assert (I2 : In i (zrange 0 378)) by (apply In_zrange_nat'; lia).
  specialize (S i I2). destruct (py_nth (wdm_of ywd) i); [|discriminate].
  apply Z.eqb_eq in S. subst. reflexivity.
Qed.

(* declarative meaning of one (weekday, n) pair on the range first..last *)
Definition nwd_spec (ywd first last : Z) (wn : Z * Z) (j : Z) : bool :=
  (first <=? j) && (j <=? last) && ((ywd + j) mod 7 =? fst wn) &&
  nth_in (j - first + 1) (last - first + 1) (snd wn).

Lemma nth_set_zeros len k j : 0 <= k < Z.of_nat len -> 0 <= j ->
  nzb (nth (Z.to_nat j) (set_nat (zeros len) (Z.to_nat k) 1) 0) = (j =? k).
Proof.
  intros Hk Hj. rewrite set_nat_zeros_nth by lia. unfold nzb.
  destruct (Nat.eqb (Z.to_nat j) (Z.to_nat k)) eqn:E.
  - apply Nat.eqb_eq in E. assert (j = k) by lia. subst. rewrite Z.eqb_refl. reflexivity.
  - apply Nat.eqb_neq in E. destruct (j =? k) eqn:E2; [|reflexivity]. apply Z.eqb_eq in E2. subst. contradiction.
Qed.

(* one pair, on the zero mask *)
Lemma nwd_op_correct ywd first last len wd n :
  0 <= ywd <= 6 -> 0 <= wd <= 6 -> n <> 0 -> 0 <= first -> last < Z.of_nat len -> Z.of_nat len <= 372 ->
  exists a, nwd_op (wdm_of ywd) first last (zeros len) (wd, n) = Ok a /\
    forall j, 0 <= j < Z.of_nat len -> nzb (nth (Z.to_nat j) a 0) = nwd_spec ywd first last (wd, n) j.
Proof.
  intros Hy Hw Hn Hf Hl Hlen. unfold nwd_op, nwd_spec, nth_in. cbn [fst snd].
  destruct (n <? 0) eqn:En.
  - destruct (last + (n + 1) * 7 <? first) eqn:E1.
    + exists (zeros len). split; [reflexivity|]. intros j Hj. rewrite nth_zeros. change (nzb 0) with false.
      destruct (0 <? n) eqn:E0; [lia|]. symmetry. lia.
    + rewrite wdm_nth by lia. cbn [bind].
      set (i := last + (n + 1) * 7) in *.
      set (i' := i - ((ywd + i) mod 7 - wd) mod 7).
      destruct ((first <=? i') && (i' <=? last)) eqn:E2.
      * rewrite py_set_zeros by lia. eexists. split; [reflexivity|].
        intros j Hj. rewrite nth_set_zeros by lia.
        destruct (0 <? n) eqn:E0; [lia|]. unfold i' in *. clear E0.
        destruct (j =? i - ((ywd + i) mod 7 - wd) mod 7) eqn:E3; symmetry; unfold i in *; lia.
      * exists (zeros len). split; [reflexivity|]. intros j Hj. rewrite nth_zeros. change (nzb 0) with false.
        destruct (0 <? n) eqn:E0; [lia|]. symmetry. unfold i', i in *. lia.
  - assert (Hp : 0 < n) by lia. assert (E0 : (0 <? n) = true) by lia. rewrite E0.
    destruct (last <? first + (n - 1) * 7) eqn:E1.
    + exists (zeros len). split; [reflexivity|]. intros j Hj. rewrite nth_zeros. change (nzb 0) with false.
      symmetry. lia.
    + rewrite wdm_nth by lia. cbn [bind].
      set (i := first + (n - 1) * 7) in *.
      set (i' := i + (7 - (ywd + i) mod 7 + wd) mod 7).
      destruct ((first <=? i') && (i' <=? last)) eqn:E2.
      * rewrite py_set_zeros by lia. eexists. split; [reflexivity|].
        intros j Hj. rewrite nth_set_zeros by lia. unfold i' in *.
        destruct (j =? i + (7 - (ywd + i) mod 7 + wd) mod 7) eqn:E3; symmetry; unfold i in *; lia.
      * exists (zeros len). split; [reflexivity|]. intros j Hj. rewrite nth_zeros. change (nzb 0) with false.
        symmetry. unfold i', i in *. lia.
Qed.

Definition pair_ok (wn : Z * Z) : Prop := 0 <= fst wn <= 6 /\ snd wn <> 0.

(* all pairs of one range *)
Theorem nwd_range_correct : forall ywd first last0 len pairs,
  0 <= ywd <= 6 -> 0 <= first -> last0 - 1 < Z.of_nat len -> Z.of_nat len <= 372 ->
  (forall wn, In wn pairs -> pair_ok wn) ->
  exists m, nwd_range (wdm_of ywd) pairs (zeros len) [first; last0] = Ok m /\ length m = len /\
    forall j, 0 <= j < Z.of_nat len ->
      nzb (nth (Z.to_nat j) m 0) = existsb (fun wn => nwd_spec ywd first (last0 - 1) wn j) pairs.
Proof.
  intros ywd first last0 len pairs Hy Hf Hl Hlen Hp. rewrite nwd_range_unfold.
  set (ops := nwd_op (wdm_of ywd) first (last0 - 1)).
  set (a := fun wn => match ops (zeros len) wn with Ok x => x | Err _ => [] end).
  assert (Hok : forall wn, In wn pairs -> ops (zeros len) wn = Ok (a wn) /\
            forall j, 0 <= j < Z.of_nat len ->
              nzb (nth (Z.to_nat j) (a wn) 0) = nwd_spec ywd first (last0 - 1) wn j).
  { intros [wd n] Hin. destruct (Hp _ Hin) as [H1 H2]. cbn [fst snd] in H1, H2.
    destruct (nwd_op_correct ywd first (last0 - 1) len wd n Hy H1 H2 Hf Hl Hlen) as (x & Ex & Px).
    unfold a, ops. rewrite Ex. split; [reflexivity|exact Px]. }
  destruct (fold_additive_pointwise ops len a (fun wn => additive_nwd_op _ _ _ wn) pairs
              (fun wn Hin => proj1 (Hok wn Hin))) as (m & Em & Lm & Pm).
  exists m. split; [exact Em|]. split; [exact Lm|].
  intros j Hj. rewrite Pm.
  clear Em Pm. induction pairs as [|wn t IH]; [reflexivity|]. cbn [existsb].
  rewrite (proj2 (Hok wn (or_introl eq_refl)) j Hj). f_equal.
  apply IH; intros; [apply Hp|apply Hok]; right; assumption.
Qed.

Definition range_ok (len : nat) (rg : list Z) : Prop :=
  exists first last0, rg = [first; last0] /\ 0 <= first /\ last0 - 1 < Z.of_nat len.

(* lines 1237-1252 as a whole: all ranges, all pairs *)
Theorem nwdaymask_correct : forall ywd len ranges pairs,
  0 <= ywd <= 6 -> Z.of_nat len <= 372 ->
  (forall rg, In rg ranges -> range_ok len rg) -> (forall wn, In wn pairs -> pair_ok wn) ->
  exists m, fold_res (nwd_range (wdm_of ywd) pairs) ranges (zeros len) = Ok m /\ length m = len /\
    forall j, 0 <= j < Z.of_nat len ->
      nzb (nth (Z.to_nat j) m 0) =
      existsb (fun rg => match rg with
                         | [first; last0] => existsb (fun wn => nwd_spec ywd first (last0 - 1) wn j) pairs
                         | _ => false end) ranges.
Proof.
  intros ywd len ranges pairs Hy Hlen Hr Hp.
  set (ops := nwd_range (wdm_of ywd) pairs).
  set (a := fun rg => match ops (zeros len) rg with Ok x => x | Err _ => [] end).
  assert (Hok : forall rg, In rg ranges -> ops (zeros len) rg = Ok (a rg) /\
            forall j, 0 <= j < Z.of_nat len ->
              nzb (nth (Z.to_nat j) (a rg) 0) =
              match rg with
              | [first; last0] => existsb (fun wn => nwd_spec ywd first (last0 - 1) wn j) pairs
              | _ => false end).
  { intros rg Hin. destruct (Hr rg Hin) as (first & last0 & -> & Hf & Hl).
    destruct (nwd_range_correct ywd first last0 len pairs Hy Hf Hl Hlen Hp) as (x & Ex & _ & Px).
    unfold a, ops. rewrite Ex. split; [reflexivity|exact Px]. }
  destruct (fold_additive_pointwise ops len a (fun rg => additive_nwd_range _ _ rg) ranges
              (fun rg Hin => proj1 (Hok rg Hin))) as (m & Em & Lm & Pm).
  exists m. split; [exact Em|]. split; [exact Lm|].
  intros j Hj. rewrite Pm.
  clear Em Pm. induction ranges as [|rg t IH]; [reflexivity|]. cbn [existsb].
  rewrite (proj2 (Hok rg (or_introl eq_refl)) j Hj). f_equal.
  apply IH; intros; [apply Hr|apply Hok]; right; assumption.
Qed.

(* non-vacuity: 2nd Tuesday and last Friday of a 31-day month starting on index 0, 1 Jan = Monday *)
Example nwdaymask_example :
  match nwd_range (wdm_of 0) [(1, 2); (4, -1)] (zeros 365) [0; 31] with
  | Ok m => nth 8 m 0 = 1 /\ nth 25 m 0 = 1 /\ nth 1 m 0 = 0 /\ nth 32 m 0 = 0
  | Err _ => False
  end.
Proof. vm_compute. repeat split; reflexivity. Qed.
