(* C01 layer 6, sub-daily: the MINUTELY advance branch of rrule._iter (rrule.py 965-993):
   the `filtered` jump to the last period of the day, then up to 1440 // gcd(interval, 1440)
   rounds of { next admissible minute (via __mod_distance); carry into hour / day; stop when the
   hour is admissible }, ValueError when no round stops.
   `minutely_core_spec`: on success the new (minute, hour, day) lies j >= 1 periods ahead, is
   admissible for BYMINUTE and BYHOUR, and every skipped period is on the rejected day or is
   `bad` (minute or hour not admissible); on failure (ValueError, or TypeError from a failing
   __mod_distance) EVERY later period is skipped/bad, i.e. no period can ever match.
   Written by the rset builder (new file). *)
From Coq Require Import ZArith List Bool Lia ZifyBool Znumtheory.
From V Require Import base.Cal gen.RrTables rr.RRBase rr.RRNorm rr.RRMasks rr.RRIter rr.RRSubdailyThm
  rr.RRSubLoop rr.RRSubHour.
Import ListNotations.
Open Scope Z_scope.

Definition mstate := (Z * Z * Z * bool)%type.     (* minute, hour, day, fixday *)

Definition min_jump (itv : Z) (filtered : bool) (hour minute : Z) : Z :=
  if filtered then minute + ((1439 - (hour * 60 + minute)) / itv) * itv else minute.

Definition min_body (rl : rule) (st : mstate) : lp mstate :=
  let '(minute, hour, day, fixday) := st in
  match (if truthy (byminute rl) then mod_distance rl minute (opt_list (byminute rl)) 60
         else Ok ((minute + interval rl) / 60, (minute + interval rl) mod 60)) with
  | Err e => LErr e
  | Ok (nhours, minute) =>
    let dv := (hour + nhours) / 24 in
    let hour := (hour + nhours) mod 24 in
    let '(day, fixday) := if negb (dv =? 0) then (day + dv, true) else (day, fixday) in
    if negb (truthy (byhour rl)) || memZ hour (opt_list (byhour rl))
    then LBreak (minute, hour, day, fixday) else LCont (minute, hour, day, fixday)
  end.

Definition minutely_core (rl : rule) (filtered : bool) (hour minute day : Z) : res mstate :=
  match for_range (1440 / Z.gcd (interval rl) 1440) (min_body rl)
                  (min_jump (interval rl) filtered hour minute, hour, day, false) with
  | LErr e => Err e
  | LCont _ => Err EValue
  | LBreak st => Ok st
  end.

Lemma lp_match_assoc : forall (B : Type) (r : lp mstate) (K : Z -> Z -> Z -> bool -> res B),
  match r with
  | LErr e => Err e
  | LCont _ => Err EValue
  | LBreak (mi, hh, dd, fx) => K mi hh dd fx
  end =
  match (match r with LErr e => Err e | LCont _ => Err EValue | LBreak st => Ok st end) with
  | Err e => Err e
  | Ok (mi, hh, dd, fx) => K mi hh dd fx
  end.
Proof. intros B r K. destruct r as [[[[mi hh] dd] fx]|[[[mi hh] dd] fx]|e]; reflexivity. Qed.

Lemma advance_minutely_unfold : forall rl s filtered cnt out, freq rl = MINUTELY ->
  advance rl s filtered cnt out =
  match minutely_core rl filtered (c_hour s) (c_minute s) (c_day s) with
  | Err e => Err e
  | Ok (minute, hour, day, fixday) =>
    do ts' <- gettimeset rl hour minute (c_second s);
    finish_advance rl s fixday (c_year s) (c_month s) day hour minute (c_second s)
                   (c_weekday s) (c_ii s) ts' cnt out
  end.
Proof.
  intros rl s filtered cnt out E. unfold advance, minutely_core. rewrite E.
  change (MINUTELY =? YEARLY) with false. change (MINUTELY =? MONTHLY) with false.
  change (MINUTELY =? WEEKLY) with false. change (MINUTELY =? DAILY) with false.
  change (MINUTELY =? HOURLY) with false. change (MINUTELY =? MINUTELY) with true. cbv iota.
  exact (lp_match_assoc adv
           (for_range (1440 / Z.gcd (interval rl) 1440) (min_body rl)
              (min_jump (interval rl) filtered (c_hour s) (c_minute s), c_hour s, c_day s, false))
           (fun minute hour day fixday =>
              do ts' <- gettimeset rl hour minute (c_second s);
              finish_advance rl s fixday (c_year s) (c_month s) day hour minute (c_second s)
                             (c_weekday s) (c_ii s) ts' cnt out)).
Qed.

(* absolute minute of a state (relative to day 0 of the cursor's month) *)
Definition mabs (st : mstate) : Z := let '(minute, hour, day, _) := st in day * 1440 + hour * 60 + minute.
Definition mgood (st : mstate) : Prop := let '(minute, hour, _, _) := st in 0 <= minute < 60 /\ 0 <= hour < 24.
Definition mday (st : mstate) : Z := let '(_, _, day, _) := st in day.
Definition mfix (st : mstate) : bool := let '(_, _, _, fx) := st in fx.

(* the period starting at absolute minute a cannot hold a candidate *)
Definition min_adm (rl : rule) (a : Z) : bool :=
  (negb (truthy (byminute rl)) || memZ (a mod 60) (opt_list (byminute rl))) &&
  (negb (truthy (byhour rl)) || memZ ((a / 60) mod 24) (opt_list (byhour rl))).

Lemma mabs_parts : forall minute hour day fx, 0 <= minute < 60 -> 0 <= hour < 24 ->
  mabs (minute, hour, day, fx) mod 60 = minute /\ (mabs (minute, hour, day, fx) / 60) mod 24 = hour.
Proof.
  intros minute hour day fx Hm Hh. unfold mabs.
  assert (Hq : (day * 1440 + hour * 60 + minute) / 60 = day * 24 + hour)
    by (symmetry; apply (Z.div_unique _ 60 _ minute); lia).
  split.
  - symmetry. apply (Z.mod_unique _ 60 (day * 24 + hour) minute); lia.
  - rewrite Hq. symmetry. apply (Z.mod_unique _ 24 day hour); lia.
Qed.

Lemma min_adm_congr : forall rl a b, a mod 1440 = b mod 1440 -> min_adm rl a = min_adm rl b.
Proof.
  intros rl a b E. unfold min_adm.
  assert (H60 : forall x, x mod 60 = (x mod 1440) mod 60).
  { intro x. apply Zmod_div_mod; [lia|lia|]. exists 24. reflexivity. }
  assert (H24 : forall x, (x / 60) mod 24 = ((x mod 1440) / 60) mod 24).
  { intro x. pose proof (Z.div_mod x 1440 ltac:(lia)) as D.
    rewrite D at 1. replace (1440 * (x / 1440) + x mod 1440) with ((24 * (x / 1440)) * 60 + x mod 1440) by ring.
    rewrite Z.div_add_l by lia. rewrite Z.add_comm, Z.mul_comm. apply Z_mod_plus_full. }
  rewrite (H60 a), (H60 b), (H24 a), (H24 b), E. reflexivity.
Qed.

(* one round *)
Lemma min_body_spec : forall rl minute hour day fx, 1 <= interval rl -> 0 <= minute -> 0 <= hour < 24 ->
  let st := (minute, hour, day, fx) in
  match min_body rl st with
  | LErr e => e = EType /\ truthy (byminute rl) = true /\
              forall i, 1 <= i -> memZ ((minute + i * interval rl) mod 60) (opt_list (byminute rl)) = false
  | LCont st' =>
      exists km, 1 <= km /\ mabs st' = mabs st + km * interval rl /\ mgood st' /\
        day <= mday st' /\ (mfix st' = false -> mday st' = day /\ fx = false) /\
        min_adm rl (mabs st') = false /\
        forall i, 1 <= i < km -> memZ ((minute + i * interval rl) mod 60) (opt_list (byminute rl)) = false /\
                                 truthy (byminute rl) = true
  | LBreak st' =>
      exists km, 1 <= km /\ mabs st' = mabs st + km * interval rl /\ mgood st' /\
        day <= mday st' /\ (mfix st' = false -> mday st' = day /\ fx = false) /\
        min_adm rl (mabs st') = true /\
        forall i, 1 <= i < km -> memZ ((minute + i * interval rl) mod 60) (opt_list (byminute rl)) = false /\
                                 truthy (byminute rl) = true
  end.
Proof.
  intros rl minute hour day fx Hi Hm Hh. cbv zeta. unfold min_body.
  set (itv := interval rl) in *.
  (* the minute step, uniformly *)
  assert (Hstep :
    match (if truthy (byminute rl) then mod_distance rl minute (opt_list (byminute rl)) 60
           else Ok ((minute + itv) / 60, (minute + itv) mod 60)) with
    | Err e => e = EType /\ truthy (byminute rl) = true /\
               forall i, 1 <= i -> memZ ((minute + i * itv) mod 60) (opt_list (byminute rl)) = false
    | Ok (nh, mi') => exists km, 1 <= km /\ nh * 60 + mi' = minute + km * itv /\ 0 <= mi' < 60 /\ 0 <= nh /\
        (truthy (byminute rl) = true -> memZ mi' (opt_list (byminute rl)) = true) /\
        forall i, 1 <= i < km -> memZ ((minute + i * itv) mod 60) (opt_list (byminute rl)) = false /\
                                 truthy (byminute rl) = true
    end).
  { destruct (truthy (byminute rl)) eqn:Eb.
    - unfold mod_distance. fold itv.
      pose proof (mod_distance_loop_spec (Z.to_nat 60) itv 60 (opt_list (byminute rl)) minute 0 ltac:(lia)) as S.
      destruct (mod_distance_loop (Z.to_nat 60) itv 60 (opt_list (byminute rl)) minute 0) as [[a v]|] eqn:El.
      + destruct S as (k & Hk & Eq & Mv & Rv & Fj). exists k. split; [lia|]. split; [lia|]. split; [lia|].
        split; [nia|]. split; [intros _; exact Mv|]. intros i Hi'. split; [apply Fj; lia|reflexivity].
      + split; [reflexivity|]. split; [reflexivity|].
        apply (mod_distance_none_forever (Z.to_nat 60) itv 60 _ minute ltac:(lia) eq_refl El).
    - exists 1. split; [lia|]. split; [pose proof (Z.div_mod (minute + itv) 60 ltac:(lia)); lia|].
      split; [apply Z.mod_pos_bound; lia|]. split; [apply Z.div_pos; lia|]. split; [discriminate|]. intros i Hi'. lia. }
  destruct (if truthy (byminute rl) then mod_distance rl minute (opt_list (byminute rl)) 60
            else Ok ((minute + itv) / 60, (minute + itv) mod 60)) as [[nh mi']|e]; [|exact Hstep].
  destruct Hstep as (km & Hkm & Eq & Rm & Rnh & Mem & Skip).
  pose proof (Z.div_mod (hour + nh) 24 ltac:(lia)) as Dh.
  pose proof (Z.mod_pos_bound (hour + nh) 24 ltac:(lia)) as Bh.
  assert (Hdv : 0 <= (hour + nh) / 24) by (apply Z.div_pos; lia).
  set (dv := (hour + nh) / 24) in *. set (h' := (hour + nh) mod 24) in *.
  assert (Hres : forall st', st' = (if negb (dv =? 0) then (mi', h', day + dv, true) else (mi', h', day, fx)) ->
            mabs st' = mabs (minute, hour, day, fx) + km * itv /\ mgood st' /\ day <= mday st' /\
            (mfix st' = false -> mday st' = day /\ fx = false) /\
            min_adm rl (mabs st') =
              (negb (truthy (byhour rl)) || memZ h' (opt_list (byhour rl)))).
  { intros st' ->. destruct (Z.eqb_spec dv 0) as [E0|E0]; cbn [negb].
    - split; [unfold mabs; lia|]. split; [unfold mgood; lia|]. split; [cbn; lia|].
      split; [cbn; auto|].
      unfold min_adm. destruct (mabs_parts mi' h' day fx Rm Bh) as [P1 P2]. rewrite P1, P2.
      destruct (truthy (byminute rl)); [rewrite (Mem eq_refl)|]; reflexivity.
    - split; [unfold mabs; lia|]. split; [unfold mgood; lia|]. split; [cbn; lia|].
      split; [cbn; discriminate|].
      unfold min_adm. destruct (mabs_parts mi' h' (day + dv) true Rm Bh) as [P1 P2]. rewrite P1, P2.
      destruct (truthy (byminute rl)); [rewrite (Mem eq_refl)|]; reflexivity. }
  destruct (if negb (dv =? 0) then (day + dv, true) else (day, fx)) as [day' fx'] eqn:Ed.
  assert (Est : (mi', h', day', fx') = (if negb (dv =? 0) then (mi', h', day + dv, true) else (mi', h', day, fx))).
  { destruct (negb (dv =? 0)); inversion Ed; reflexivity. }
  destruct (Hres _ Est) as (A1 & A2 & A3 & A4 & A5).
  destruct (negb (truthy (byhour rl)) || memZ h' (opt_list (byhour rl))) eqn:Eadm;
    (exists km; repeat (split; [assumption|]); assumption).
Qed.

(* ------------------------------------------------------------------ the rounds *)
Lemma min_bad_by_minute : forall rl minute hour day fx i,
  truthy (byminute rl) = true ->
  memZ ((minute + i * interval rl) mod 60) (opt_list (byminute rl)) = false ->
  min_adm rl (mabs (minute, hour, day, fx) + i * interval rl) = false.
Proof.
  intros rl minute hour day fx i Ht Hm. unfold min_adm, mabs.
  replace ((day * 1440 + hour * 60 + minute + i * interval rl) mod 60) with ((minute + i * interval rl) mod 60).
  - rewrite Ht, Hm. reflexivity.
  - replace (day * 1440 + hour * 60 + minute + i * interval rl)
      with (minute + i * interval rl + (day * 24 + hour) * 60) by ring.
    symmetry. apply Z_mod_plus_full.
Qed.

Definition mpre (st : mstate) : Prop := let '(mi, hh, _, _) := st in 0 <= mi /\ 0 <= hh < 24.

Lemma mgood_mpre : forall st, mgood st -> mpre st.
Proof. intros [[[mi hh] dd] fx]. unfold mgood, mpre. lia. Qed.

Lemma min_loop_spec : forall rl, 1 <= interval rl -> forall n st, mpre st ->
  match loop_n n (min_body rl) st with
  | LBreak st' =>
      exists c, 1 <= c /\ mabs st' = mabs st + c * interval rl /\ mgood st' /\ mday st <= mday st' /\
        (mfix st' = false -> mday st' = mday st /\ mfix st = false) /\
        min_adm rl (mabs st') = true /\
        forall i, 1 <= i < c -> min_adm rl (mabs st + i * interval rl) = false
  | LCont st' =>
      (n = O /\ st' = st) \/
      exists c, Z.of_nat n <= c /\ 1 <= c /\ mabs st' = mabs st + c * interval rl /\ mgood st' /\
        forall i, 1 <= i <= c -> min_adm rl (mabs st + i * interval rl) = false
  | LErr e => e = EType /\ forall i, 1 <= i -> min_adm rl (mabs st + i * interval rl) = false
  end.
Proof.
  intros rl Hi. induction n as [|n IH]; intros st Hpre; [left; split; reflexivity|].
  cbn [loop_n]. destruct st as [[[mi hh] dd] fx]. destruct Hpre as [Hmi Hhh].
  pose proof (min_body_spec rl mi hh dd fx Hi Hmi Hhh) as B. cbv zeta in B.
  destruct (min_body rl (mi, hh, dd, fx)) as [st1|st1|e].
  - (* the hour of the landing period is not admissible: next round *)
    destruct B as (km & Hkm & Eabs & Hg & Hday & Hfix & Hadm & Skip).
    assert (Hskip : forall i, 1 <= i <= km -> min_adm rl (mabs (mi, hh, dd, fx) + i * interval rl) = false).
    { intros i Hi'. destruct (Z.eq_dec i km) as [->|Hne]; [rewrite <- Eabs; exact Hadm|].
      destruct (Skip i ltac:(lia)) as [S1 S2]. apply min_bad_by_minute; assumption. }
    specialize (IH st1 (mgood_mpre _ Hg)).
    destruct (loop_n n (min_body rl) st1) as [st2|st2|e].
    + right. destruct IH as [[-> ->]|(c & Hc & Hc1 & Ea & Hg2 & Sk)].
      * exists km. split; [lia|]. split; [lia|]. split; [exact Eabs|]. split; [exact Hg|]. exact Hskip.
      * exists (km + c). split; [lia|]. split; [lia|]. split; [rewrite Ea, Eabs; ring|]. split; [exact Hg2|].
        intros i Hi'. destruct (Z_le_gt_dec i km) as [Hle|Hgt]; [apply Hskip; lia|].
        specialize (Sk (i - km) ltac:(lia)). rewrite Eabs in Sk.
        replace (mabs (mi, hh, dd, fx) + km * interval rl + (i - km) * interval rl)
          with (mabs (mi, hh, dd, fx) + i * interval rl) in Sk by ring. exact Sk.
    + destruct IH as (c & Hc & Ea & Hg2 & Hd2 & Hf2 & Had & Sk).
      exists (km + c). split; [lia|]. split; [rewrite Ea, Eabs; ring|]. split; [exact Hg2|].
      split; [cbn [mday] in *; lia|]. split.
      { intro Hf. destruct (Hf2 Hf) as [E1 E2]. destruct (Hfix E2) as [E3 E4]. cbn [mday mfix] in *. split; [lia|exact E4]. }
      split; [exact Had|].
      intros i Hi'. destruct (Z_le_gt_dec i km) as [Hle|Hgt]; [apply Hskip; lia|].
      specialize (Sk (i - km) ltac:(lia)). rewrite Eabs in Sk.
      replace (mabs (mi, hh, dd, fx) + km * interval rl + (i - km) * interval rl)
        with (mabs (mi, hh, dd, fx) + i * interval rl) in Sk by ring. exact Sk.
    + destruct IH as [-> Sk]. split; [reflexivity|].
      intros i Hi'. destruct (Z_le_gt_dec i km) as [Hle|Hgt]; [apply Hskip; lia|].
      specialize (Sk (i - km) ltac:(lia)). rewrite Eabs in Sk.
      replace (mabs (mi, hh, dd, fx) + km * interval rl + (i - km) * interval rl)
        with (mabs (mi, hh, dd, fx) + i * interval rl) in Sk by ring. exact Sk.
  - destruct B as (km & Hkm & Eabs & Hg & Hday & Hfix & Hadm & Skip).
    exists km. split; [lia|]. split; [exact Eabs|]. split; [exact Hg|]. split; [exact Hday|].
    split; [exact Hfix|]. split; [exact Hadm|].
    intros i Hi'. destruct (Skip i Hi') as [S1 S2]. apply min_bad_by_minute; assumption.
  - destruct B as (-> & Ht & Sk). split; [reflexivity|].
    intros i Hi'. apply min_bad_by_minute; [exact Ht|apply Sk; exact Hi'].
Qed.

(* the positions repeat after 1440 / gcd(interval, 1440) periods *)
Lemma min_all_bad_forever : forall rl A c, 1 <= interval rl ->
  1440 / Z.gcd (interval rl) 1440 <= c ->
  (forall i, 1 <= i <= c -> min_adm rl (A + i * interval rl) = false) ->
  forall i, 1 <= i -> min_adm rl (A + i * interval rl) = false.
Proof.
  intros rl A c Hi Hc Hall i Hi'.
  set (itv := interval rl) in *. set (g := Z.gcd itv 1440) in *.
  assert (Gp : 0 < g).
  { pose proof (Z.gcd_nonneg itv 1440). destruct (Z.eq_dec g 0) as [E|E]; [|lia].
    apply Z.gcd_eq_0 in E. lia. }
  destruct (Z.gcd_divide_l itv 1440) as [a Ha]. destruct (Z.gcd_divide_r itv 1440) as [b Hb].
  fold g in Ha, Hb.
  assert (HN : 1440 / g = b) by (rewrite Hb at 1; apply Z.div_mul; lia).
  assert (Hbpos : 1 <= b) by nia.
  rewrite HN in Hc.
  set (i0 := (i - 1) mod b + 1).
  assert (Hi0 : 1 <= i0 <= b) by (unfold i0; pose proof (Z.mod_pos_bound (i - 1) b ltac:(lia)); lia).
  rewrite (min_adm_congr rl (A + i * itv) (A + i0 * itv)); [apply Hall; lia|].
  pose proof (Z.div_mod (i - 1) b ltac:(lia)) as D.
  replace (A + i * itv) with (A + i0 * itv + ((i - 1) / b * a) * 1440).
  - apply Z_mod_plus_full.
  - unfold i0. rewrite Hb. rewrite Ha. nia.
Qed.

Lemma rep_rate_pos : forall itv base, 1 <= itv -> 1 <= base -> 1 <= base / Z.gcd itv base.
Proof.
  intros itv base Hi Hb. pose proof (Z.gcd_nonneg itv base).
  assert (Gp : 0 < Z.gcd itv base).
  { destruct (Z.eq_dec (Z.gcd itv base) 0) as [E|E]; [|lia]. apply Z.gcd_eq_0 in E. lia. }
  destruct (Z.gcd_divide_r itv base) as [b Hb']. rewrite Hb' at 1. rewrite Z.div_mul by lia. nia.
Qed.

(* period i (counted from the cursor at relative minute A0 of its day) holds no candidate *)
Definition skipped_min (rl : rule) (filtered : bool) (A0 i : Z) : Prop :=
  (filtered = true /\ A0 + i * interval rl <= 1439) \/ min_adm rl (A0 + i * interval rl) = false.

Theorem minutely_core_spec : forall rl filtered hour minute day,
  1 <= interval rl -> 0 <= hour < 24 -> 0 <= minute < 60 ->
  let A0 := hour * 60 + minute in
  match minutely_core rl filtered hour minute day with
  | Ok (mi', hh', dd', fx') =>
      exists j, 1 <= j /\ (dd' - day) * 1440 + hh' * 60 + mi' = A0 + j * interval rl /\
        0 <= mi' < 60 /\ 0 <= hh' < 24 /\ day <= dd' /\ (fx' = false -> dd' = day) /\
        min_adm rl (A0 + j * interval rl) = true /\
        (filtered = true -> 1439 < A0 + j * interval rl) /\
        forall i, 1 <= i < j -> skipped_min rl filtered A0 i
  | Err e => (e = EValue \/ e = EType) /\ forall i, 1 <= i -> skipped_min rl filtered A0 i
  end.
Proof.
  intros rl filtered hour minute day Hi Hh Hm A0. unfold minutely_core, skipped_min.
  set (itv := interval rl) in *.
  set (q := if filtered then (1439 - A0) / itv else 0).
  assert (HA : 0 <= A0 <= 1439) by (unfold A0; lia).
  assert (Hq : 0 <= q /\ A0 + q * itv <= 1439 /\ (filtered = false -> q = 0) /\
               (filtered = true -> 1439 < A0 + (q + 1) * itv)).
  { unfold q. destruct filtered.
    - pose proof (Z.div_pos (1439 - A0) itv ltac:(lia) ltac:(lia)).
      pose proof (Z.div_mod (1439 - A0) itv ltac:(lia)) as D.
      pose proof (Z.mod_pos_bound (1439 - A0) itv ltac:(lia)) as B.
      split; [lia|]. split; [nia|]. split; [discriminate|]. intros _. nia.
    - split; [lia|]. split; [lia|]. split; [reflexivity|discriminate]. }
  destruct Hq as (Hq0 & Hq1 & Hq2 & Hq3).
  assert (Hj : min_jump itv filtered hour minute = minute + q * itv).
  { unfold min_jump, q. fold A0. destruct filtered; ring. }
  rewrite Hj, for_range_loop_n.
  set (st0 := (minute + q * itv, hour, day, false)).
  assert (Hpre : mpre st0) by (unfold st0, mpre; nia).
  assert (Habs0 : mabs st0 = day * 1440 + A0 + q * itv) by (unfold st0, mabs, A0; ring).
  assert (Hcongr : forall i, min_adm rl (mabs st0 + (i - q) * itv) = min_adm rl (A0 + i * itv)).
  { intro i. apply min_adm_congr. rewrite Habs0.
    replace (day * 1440 + A0 + q * itv + (i - q) * itv) with (A0 + i * itv + day * 1440) by ring.
    apply Z_mod_plus_full. }
  assert (Hleft : forall i, 1 <= i <= q -> filtered = true /\ A0 + i * itv <= 1439).
  { intros i Hiq. split; [destruct filtered; [reflexivity|specialize (Hq2 eq_refl); lia]|nia]. }
  pose proof (rep_rate_pos itv 1440 Hi ltac:(lia)) as HN.
  pose proof (min_loop_spec rl Hi (Z.to_nat (1440 / Z.gcd itv 1440)) st0 Hpre) as L.
  subst itv.
  destruct (loop_n (Z.to_nat (1440 / Z.gcd (interval rl) 1440)) (min_body rl) st0) as [st'|[[[mi' hh'] dd'] fx']|e].
  - (* ValueError *)
    split; [left; reflexivity|]. destruct L as [[E0 _]|(c & Hc & Hc1 & Ea & Hg & Sk)]; [lia|].
    pose proof (min_all_bad_forever rl (mabs st0) c Hi ltac:(lia) Sk) as F.
    intros i Hi'. destruct (Z_le_gt_dec i q) as [Hle|Hgt]; [left; apply Hleft; lia|].
    right. rewrite <- Hcongr. apply F. lia.
  - destruct L as (c & Hc & Ea & Hg & Hd & Hf & Had & Sk).
    cbn [mday mfix mgood] in *. unfold st0 in Hd, Hf. cbn [mday mfix] in Hd, Hf.
    exists (q + c). split; [lia|].
    split; [rewrite Habs0 in Ea; unfold mabs in Ea; lia|]. split; [lia|]. split; [lia|]. split; [lia|].
    split; [intro E; destruct (Hf E); assumption|].
    split; [rewrite <- Hcongr; replace (q + c - q) with c by ring; rewrite <- Ea; exact Had|].
    split; [intro E; specialize (Hq3 E); nia|].
    intros i Hi'. destruct (Z_le_gt_dec i q) as [Hle|Hgt]; [left; apply Hleft; lia|].
    right. rewrite <- Hcongr. apply Sk. lia.
  - destruct L as [-> F]. split; [right; reflexivity|].
    intros i Hi'. destruct (Z_le_gt_dec i q) as [Hle|Hgt]; [left; apply Hleft; lia|].
    right. rewrite <- Hcongr. apply F. lia.
Qed.
