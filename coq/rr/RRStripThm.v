(* C01 -- numeric BYDAY prefixes under FREQ finer than MONTHLY.  RFC 5545 allows "+1MO" only under MONTHLY and
   YEARLY; dateutil accepts it everywhere and IGNORES the prefix for WEEKLY .. SECONDLY (rrule.py 597-605:
   `if not wday.n or freq > MONTHLY: byweekday.add(wday.weekday)`), and so does the specification.  Hence a rule
   and the rule with the prefixes erased have the same constructor result and the same specified sequence, and
   the `plain_only` hypothesis of the WEEKLY / DAILY loop theorems can be dropped. *)
From Coq Require Import ZArith List Bool Lia ZifyBool.
From V Require Import base.Cal rr.RRBase rr.RRNorm rr.RRMasks rr.RRIter rr.RRSpec rr.RRWeekFinal rr.RRFilterSpec
  rr.RRSetposThm rr.RRWeeklyThm rr.RRDailyFullThm rr.RRWeeklySetposThm rr.RRSortedThm rr.RRCoarseTop rr.RRNoRaise.
Import ListNotations.
Open Scope Z_scope.

Definition strip_wn (wn : Z * Z) : Z * Z := (fst wn, 0).

Definition strip (r : raw) : raw :=
  mkRaw (r_freq r) (r_isdate r) (r_y r) (r_m r) (r_d r) (r_H r) (r_M r) (r_S r) (r_interval r) (r_wkst r)
        (r_count r) (r_until r) (r_tzmix r) (r_bysetpos r) (r_bymonth r) (r_bymonthday r) (r_byyearday r)
        (r_byeaster r) (r_byweekno r) (option_map (map strip_wn) (r_byweekday r))
        (r_byhour r) (r_byminute r) (r_bysecond r).

Lemma split_strip fr l : (MONTHLY <? fr) = true ->
  split_weekday fr (map strip_wn l) = split_weekday fr l.
Proof.
  intros Hf. unfold split_weekday. induction l as [|[w n] t IH]; [reflexivity|].
  cbn [map fold_right strip_wn fst]. rewrite IH, Hf. rewrite !orb_true_r. reflexivity.
Qed.

Lemma is_none_map {A B} (f : A -> B) (o : option (list A)) : is_none (option_map (map f) o) = is_none o.
Proof. destruct o; reflexivity. Qed.

Theorem normalize_strip r : (MONTHLY <? r_freq r) = true -> normalize (strip r) = normalize r.
Proof.
  intros Hf. unfold normalize.
  cbn [strip r_freq r_isdate r_y r_m r_d r_H r_M r_S r_interval r_wkst r_count r_until r_tzmix r_bysetpos
       r_bymonth r_bymonthday r_byyearday r_byeaster r_byweekno r_byweekday r_byhour r_byminute r_bysecond].
  rewrite is_none_map.
  destruct (r_byweekday r) as [l|]; [|reflexivity].
  cbn [option_map is_none]. rewrite !andb_false_r. cbn [andb].
  rewrite (split_strip (r_freq r) l Hf). reflexivity.
Qed.

Lemma no_day_part_strip r : no_day_part (strip r) = no_day_part r.
Proof. unfold no_day_part. cbn [strip r_byweekno r_byyearday r_bymonthday r_byweekday r_byeaster]. rewrite is_none_map. reflexivity. Qed.

Lemma existsb_map_sp {A B} (p : B -> bool) (g : A -> B) l : existsb p (map g l) = existsb (fun x => p (g x)) l.
Proof. induction l as [|x t IH]; cbn [map existsb]; [reflexivity|]. rewrite IH. reflexivity. Qed.

Lemma existsb_ext_st {A} (f g : A -> bool) l : (forall x, f x = g x) -> existsb f l = existsb g l.
Proof. intros H. induction l as [|x t IH]; cbn [existsb]; [reflexivity|]. rewrite H, IH. reflexivity. Qed.

Theorem day_ok_strip r o : (MONTHLY <? r_freq r) = true -> day_ok (strip r) o = day_ok r o.
Proof.
  intros Hf. unfold day_ok, eff_bymonth, eff_bymonthday, eff_byweekday. rewrite !no_day_part_strip.
  cbn [strip r_freq r_bymonth r_bymonthday r_byyearday r_byeaster r_byweekno r_byweekday r_wkst r_y r_m r_d].
  destruct (ymd_of_ord o) as [[y m] d].
  replace (sp_ord0 (strip r)) with (sp_ord0 r) by reflexivity.
  rewrite Hf.
  f_equal. f_equal.
  destruct (r_byweekday r) as [l|]; [|reflexivity].
  cbn [option_map in_opt]. rewrite existsb_map_sp. apply existsb_ext_st. intros [w n].
  cbn [strip_wn fst]. rewrite !orb_true_r. reflexivity.
Qed.

Lemma forallb_map_sp {A B} (p : B -> bool) (g : A -> B) l : forallb p (map g l) = forallb (fun x => p (g x)) l.
Proof. induction l as [|x t IH]; cbn [map forallb]; [reflexivity|]. rewrite IH. reflexivity. Qed.

Theorem spec_wf_strip r : spec_wf (strip r) = spec_wf r.
Proof.
  unfold spec_wf, sp_H0, sp_M0, sp_S0.
  cbn [strip r_freq r_isdate r_y r_m r_d r_H r_M r_S r_interval r_wkst r_count r_until r_tzmix r_bysetpos
       r_bymonth r_bymonthday r_byyearday r_byeaster r_byweekno r_byweekday r_byhour r_byminute r_bysecond].
  destruct (r_byweekday r) as [l|]; [|reflexivity].
  cbn [option_map]. rewrite forallb_map_sp.
  assert (E : ne_opt (Some (map strip_wn l)) = ne_opt (Some l)) by (destruct l; reflexivity).
  rewrite E. reflexivity.
Qed.

Lemma plain_only_strip r : plain_only (strip r) = true.
Proof.
  unfold plain_only. cbn [strip r_byweekday]. destruct (r_byweekday r) as [l|]; [|reflexivity].
  cbn [option_map opt_list]. rewrite forallb_map_sp. apply forallb_forall. intros x _. reflexivity.
Qed.

(* the specified sequence does not see the prefixes (coarse FREQ finer than MONTHLY: WEEKLY, DAILY) *)
Lemma step_items_strip r k : (MONTHLY <? r_freq r) = true ->
  step_items (strip r) k = step_items r k.
Proof.
  intros Hf. unfold step_items.
  replace (is_coarse (strip r)) with (is_coarse r) by reflexivity.
  replace (sp_start (strip r)) with (sp_start r) by reflexivity.
  f_equal. destruct (is_coarse r).
  - unfold select_pos. replace (r_bysetpos (strip r)) with (r_bysetpos r) by reflexivity.
    assert (EC : cands_coarse (strip r) k = cands_coarse r k).
    { unfold cands_coarse. replace (period_days (strip r) k) with (period_days r k) by reflexivity.
      destruct (period_days r k) as [lo hi].
      replace (period_times (strip r) 0) with (period_times r 0) by reflexivity.
      apply RRTimesetThm.flat_map_ext'. intros o _. rewrite (day_ok_strip r o Hf). reflexivity. }
    rewrite EC. reflexivity.
  - unfold cands_subdaily_day. replace (sp_ord0 (strip r)) with (sp_ord0 r) by reflexivity.
    rewrite (day_ok_strip r _ Hf). reflexivity.
Qed.

Lemma spec_loop_strip r limit : (MONTHLY <? r_freq r) = true ->
  forall n k cnt acc, spec_loop (strip r) limit n k cnt acc = spec_loop r limit n k cnt acc.
Proof.
  intros Hf. induction n as [|n IH]; intros k cnt acc; cbn [spec_loop]; [reflexivity|].
  replace (step_lo (strip r) k) with (step_lo r k) by reflexivity.
  replace (sp_after_until (strip r) (step_lo r k, 0)) with (sp_after_until r (step_lo r k, 0)) by reflexivity.
  rewrite (step_items_strip r k Hf).
  replace (sp_take (strip r) (step_items r k) cnt acc) with (sp_take r (step_items r k) cnt acc).
  2:{ generalize (step_items r k) as xs. intros xs. revert cnt acc.
      induction xs as [|x t IHx]; intros cnt acc; cbn [sp_take]; [reflexivity|].
      replace (sp_after_until (strip r) x) with (sp_after_until r x) by reflexivity.
      destruct (sp_after_until r x); [reflexivity|].
      destruct cnt as [c|]; [destruct (c <=? 0); [reflexivity|]|]; apply IHx. }
  destruct (limit <=? zlen acc); [reflexivity|].
  destruct (max_ord <? step_lo r k); [reflexivity|].
  destruct (sp_after_until r (step_lo r k, 0)); [reflexivity|].
  destruct (match cnt with Some c => c <=? 0 | None => false end); [reflexivity|].
  destruct (sp_take r (step_items r k) cnt acc) as [[acc' cnt'] stop]. destruct stop; [reflexivity|]. apply IH.
Qed.

Theorem spec_iter_strip r limit n : (MONTHLY <? r_freq r) = true ->
  spec_iter (strip r) limit n = spec_iter r limit n.
Proof.
  intros Hf. unfold spec_iter. replace (r_count (strip r)) with (r_count r) by reflexivity.
  rewrite (spec_loop_strip r limit Hf). reflexivity.
Qed.

(* ------------------------------------------------------------------ the guard without `plain_only` *)
Definition coarse_guard_all (r : raw) (n : nat) : Prop :=
  spec_wf r = true /\ all_opt (r_byweekno r) weekno_safe = true /\ r_byeaster r = None /\
  (r_freq r = YEARLY \/ r_freq r = MONTHLY \/
   r_freq r = WEEKLY \/ r_freq r = DAILY).

(* every rule under coarse_guard_all is, or has the same constructor result and specified sequence as, a rule
   under coarse_guard *)
Lemma guard_reduce r rl n : normalize r = Ok rl -> coarse_guard_all r n ->
  exists r', normalize r' = Ok rl /\ coarse_guard r' n /\
             (forall limit, spec_iter r' limit n = spec_iter r limit n).
Proof.
  intros HN (HW & Hs & He & [Hf|[Hf|[Hf|Hf]]]).
  - exists r. split; [exact HN|]. split; [|reflexivity]. repeat split; try assumption. left. exact Hf.
  - exists r. split; [exact HN|]. split; [|reflexivity]. repeat split; try assumption. right. left. exact Hf.
  - assert (Hm : (MONTHLY <? r_freq r) = true) by (rewrite Hf; reflexivity).
    exists (strip r). split; [rewrite (normalize_strip r Hm); exact HN|]. split.
    + split; [rewrite spec_wf_strip; exact HW|]. split; [exact Hs|]. split; [exact He|].
      right. right. left. split; [exact Hf|apply plain_only_strip].
    + intros limit. apply (spec_iter_strip r limit n Hm).
  - assert (Hm : (MONTHLY <? r_freq r) = true) by (rewrite Hf; reflexivity).
    exists (strip r). split; [rewrite (normalize_strip r Hm); exact HN|]. split.
    + split; [rewrite spec_wf_strip; exact HW|]. split; [exact Hs|]. split; [exact He|].
      right. right. right. split; [exact Hf|apply plain_only_strip].
    + intros limit. apply (spec_iter_strip r limit n Hm).
Qed.

(* THE SUMMARY THEOREMS, final form *)
Theorem rrule_iter_correct_coarse_all : forall r rl limit n,
  normalize r = Ok rl -> coarse_guard_all r n ->
  fst (iterate rl limit n) = fst (spec_iter r limit n).
Proof.
  intros r rl limit n HN G. destruct (guard_reduce r rl n HN G) as (r' & HN' & G' & E).
  rewrite <- E. apply (rrule_iter_correct_coarse r' rl limit n HN' G').
Qed.

Theorem rrule_strictly_increasing_coarse_all : forall r rl limit n,
  normalize r = Ok rl -> coarse_guard_all r n -> isorted (fst (iterate rl limit n)).
Proof.
  intros r rl limit n HN G. destruct (guard_reduce r rl n HN G) as (r' & HN' & G' & _).
  apply (rrule_strictly_increasing_coarse r' rl limit n HN' G').
Qed.

Theorem rrule_nodup_coarse_all : forall r rl limit n,
  normalize r = Ok rl -> coarse_guard_all r n -> NoDup (fst (iterate rl limit n)).
Proof. intros r rl limit n HN G. apply isorted_NoDup. apply (rrule_strictly_increasing_coarse_all r rl limit n HN G). Qed.

Theorem rrule_no_exception_coarse_all : forall r rl limit n,
  normalize r = Ok rl -> coarse_guard_all r n -> forall e, snd (iterate rl limit n) <> TRaised e.
Proof.
  intros r rl limit n HN G. destruct (guard_reduce r rl n HN G) as (r' & HN' & G' & _).
  apply (rrule_no_exception_coarse r' rl limit n HN' G').
Qed.

Theorem rrule_total_coarse_all : forall r limit n, coarse_guard_all r n ->
  exists rl, normalize r = Ok rl /\ forall e, snd (iterate rl limit n) <> TRaised e.
Proof.
  intros r limit n G. pose proof G as (HW & _ & _ & Hf).
  destruct (normalize_total_coarse r HW) as (rl & HN).
  { unfold HOURLY, YEARLY, MONTHLY, WEEKLY, DAILY in *. destruct Hf as [Hf|[Hf|[Hf|Hf]]]; rewrite Hf; reflexivity. }
  exists rl. split; [exact HN|]. apply (rrule_no_exception_coarse_all r rl limit n HN G).
Qed.

(* non-vacuity: rrule(WEEKLY, dtstart=datetime(2024,12,26,9,0), byweekday=(MO(+1), WE(-2)), count=3): the prefixes
   are ignored *)
Definition raw_weekly_nth_example : raw :=
  mkRaw WEEKLY false 2024 12 26 9 0 0 1 0 (Some 3) None false
        None None None None None None (Some [(0, 1); (2, -2)]) None None None.
Example weekly_nth_example :
  coarse_guard_all raw_weekly_nth_example 40 /\ plain_only raw_weekly_nth_example = false /\
  match normalize raw_weekly_nth_example with
  | Ok rl => fst (iterate rl 100 40) =
             [(ord_of_ymd 2024 12 30, 32400); (ord_of_ymd 2025 1 1, 32400); (ord_of_ymd 2025 1 6, 32400)]
  | Err _ => False
  end.
Proof.
  split; [|split; [reflexivity|vm_compute; reflexivity]].
  split; [reflexivity|]. split; [reflexivity|]. split; [reflexivity|]. right. right. left. reflexivity.
Qed.
