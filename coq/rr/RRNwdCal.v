(* C01 layer 3, calendar level: for a MONTHLY rule (ranges = [mrange[month-1:month+1]]) and for a
   YEARLY rule without BYMONTH (ranges = [(0, yearlen)]), in EVERY year, the nth-weekday mask marks
   day index j exactly when the day lies in the month (year), its weekday is listed with an n, and
   it is the n-th / |n|-th last such weekday of the month (year): RRSpec.nth_in on the day of the
   month and the month's length (day of the year and the year's length). *)
From Coq Require Import ZArith List Bool Lia ZifyBool.
From V Require Import base.Cal gen.RrTables rr.RRBase rr.RRNorm rr.RRMasks rr.RRSpec rr.RROverlay
  rr.RRWeekThm rr.RRTablesThm rr.RRWeekCal rr.RREasterThm rr.RRNwdThm.
Import ListNotations.
Ltac Zify.zify_post_hook ::= Z.to_euclidean_division_equations.
Open Scope Z_scope.

Definition mrange_of (leap : bool) : list Z := if leap then T_M366RANGE else T_M365RANGE.

Fixpoint zlist_eqb (a b : list Z) : bool :=
  match a, b with
  | [], [] => true
  | x :: s, y :: t => (x =? y) && zlist_eqb s t
  | _, _ => false
  end.
Lemma zlist_eqb_eq a : forall b, zlist_eqb a b = true -> a = b.
Proof.
  induction a as [|x s IH]; intros [|y t] H; cbn in H; try discriminate; [reflexivity|].
  apply andb_true_iff in H. destruct H as [H1 H2]. apply Z.eqb_eq in H1. subst. f_equal. apply IH. exact H2.
Qed.

Lemma mrange_slices :
  forallb (fun leap => forallb (fun m =>
     zlist_eqb (py_slice (mrange_of leap) (m - 1) (m + 1)) [dbm_l leap m; dbm_l leap (m + 1)])
     (zrange 1 13)) [true; false] = true.
Proof. vm_compute. reflexivity. Qed.

Lemma mrange_slice y m : 1 <= m <= 12 ->
  py_slice (mrange_of (is_leap y)) (m - 1) (m + 1) = [dbm y m; dbm y (m + 1)].
Proof.
  intros Hm. rewrite !dbm_leap. pose proof mrange_slices as S. rewrite forallb_forall in S.
  assert (I : In (is_leap y) [true; false]) by (destruct (is_leap y); cbn; auto).
  specialize (S _ I). rewrite forallb_forall in S.
  assert (I2 : In m (zrange 1 13)) by (apply In_zrange_nat'; lia).
  apply zlist_eqb_eq. apply (S m I2).
Qed.

Lemma ylen_nat y : Z.of_nat (Z.to_nat (year_len y)) = year_len y.
Proof. unfold year_len. destruct (is_leap y); lia. Qed.

(* MONTHLY *)
Theorem nwdaymask_monthly_calendar : forall y month pairs,
  1 <= month <= 12 -> (forall wn, In wn pairs -> pair_ok wn) ->
  let ywd := weekday_of_ord (jan1 y) in
  exists m,
    fold_res (nwd_range (wdm_of ywd) pairs) [py_slice (mrange_of (is_leap y)) (month - 1) (month + 1)]
             (zeros (Z.to_nat (year_len y))) = Ok m /\
    forall j, 0 <= j < year_len y ->
      nzb (nth (Z.to_nat j) m 0) =
      (dbm y month <=? j) && (j <? dbm y (month + 1)) &&
      existsb (fun wn => (weekday_of_ord (jan1 y + j) =? fst wn) &&
                         nth_in (j + 1 - dbm y month) (dim y month) (snd wn)) pairs.
Proof.
  intros y month pairs Hm Hp ywd. rewrite (mrange_slice y month Hm).
  pose proof (weekday_of_ord_range (jan1 y)) as Hw. fold ywd in Hw.
  pose proof (dbm_mono y 1 month ltac:(lia) ltac:(lia) ltac:(lia)) as M1.
  pose proof (dbm_mono y (month + 1) 13 ltac:(lia) ltac:(lia) ltac:(lia)) as M2.
  rewrite dbm_1 in M1. rewrite dbm_13 in M2.
  pose proof (dbm_succ y month Hm) as DS. pose proof (dim_pos y month) as DP.
  assert (Hlen : Z.of_nat (Z.to_nat (year_len y)) <= 372).
  { rewrite ylen_nat. unfold year_len. destruct (is_leap y); lia. }
  destruct (nwdaymask_correct ywd (Z.to_nat (year_len y)) [[dbm y month; dbm y (month + 1)]] pairs
              ltac:(lia) Hlen) as (m & Em & _ & Pm).
  - intros rg [<-|[]]. exists (dbm y month), (dbm y (month + 1)). split; [reflexivity|].
    rewrite ylen_nat. lia.
  - exact Hp.
  - exists m. split; [exact Em|]. intros j Hj. rewrite Pm by (rewrite ylen_nat; lia).
    cbn [existsb]. rewrite orb_false_r. clear Em Pm.
    induction pairs as [|wn t IH].
    + cbn [existsb]. rewrite andb_false_r. reflexivity.
    + cbn [existsb]. rewrite IH by (intros; apply Hp; right; assumption).
      unfold nwd_spec. unfold ywd at 1. rewrite <- wd_shift.
      replace (j - dbm y month + 1) with (j + 1 - dbm y month) by lia.
      replace (dbm y (month + 1) - 1 - dbm y month + 1) with (dim y month) by lia.
      replace (j <=? dbm y (month + 1) - 1) with (j <? dbm y (month + 1)) by lia.
      destruct (dbm y month <=? j), (j <? dbm y (month + 1)),
        (weekday_of_ord (jan1 y + j) =? fst wn), (nth_in (j + 1 - dbm y month) (dim y month) (snd wn));
        cbn [andb orb]; reflexivity.
Qed.

(* YEARLY without BYMONTH *)
Theorem nwdaymask_yearly_calendar : forall y pairs,
  (forall wn, In wn pairs -> pair_ok wn) ->
  let ywd := weekday_of_ord (jan1 y) in
  exists m,
    fold_res (nwd_range (wdm_of ywd) pairs) [[0; year_len y]] (zeros (Z.to_nat (year_len y))) = Ok m /\
    forall j, 0 <= j < year_len y ->
      nzb (nth (Z.to_nat j) m 0) =
      existsb (fun wn => (weekday_of_ord (jan1 y + j) =? fst wn) &&
                         nth_in (j + 1) (year_len y) (snd wn)) pairs.
Proof.
  intros y pairs Hp ywd.
  pose proof (weekday_of_ord_range (jan1 y)) as Hw. fold ywd in Hw.
  assert (Hlen : Z.of_nat (Z.to_nat (year_len y)) <= 372).
  { rewrite ylen_nat. unfold year_len. destruct (is_leap y); lia. }
  destruct (nwdaymask_correct ywd (Z.to_nat (year_len y)) [[0; year_len y]] pairs ltac:(lia) Hlen)
    as (m & Em & _ & Pm).
  - intros rg [<-|[]]. exists 0, (year_len y). split; [reflexivity|]. rewrite ylen_nat. lia.
  - exact Hp.
  - exists m. split; [exact Em|]. intros j Hj. rewrite Pm by (rewrite ylen_nat; lia).
    cbn [existsb]. rewrite orb_false_r. clear Em Pm.
    induction pairs as [|wn t IH]; [reflexivity|].
    cbn [existsb]. rewrite IH by (intros; apply Hp; right; assumption). f_equal.
    unfold nwd_spec. unfold ywd. rewrite <- wd_shift.
    replace (j - 0 + 1) with (j + 1) by lia. replace (year_len y - 1 - 0 + 1) with (year_len y) by lia.
    replace (0 <=? j) with true by lia. replace (j <=? year_len y - 1) with true by lia. reflexivity.
Qed.
