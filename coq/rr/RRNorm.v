(* C01 -- model of dateutil.rrule.rrule.__init__ (rrule.py 431-701) and __construct_byset
   (1038-1083): argument normalisation and dtstart-derived defaults.  Mirrors the code branch for
   branch; `Err EValue` = ValueError.  No proofs in this file. *)
From Coq Require Import ZArith List Bool.
From V Require Import base.Cal rr.RRBase.
Import ListNotations.
Open Scope Z_scope.

(* Raw constructor arguments as the harness passes them.  A BY-part is None (argument omitted)
   or a tuple; a bare integer argument is the 1-tuple (rrule.py converts it first thing).
   byweekday members are (weekday, n) with n = 0 for a plain integer / weekday without n. *)
Record raw := mkRaw {
  r_freq : Z;
  r_isdate : bool;                       (* dtstart is a datetime.date, not a datetime *)
  r_y : Z; r_m : Z; r_d : Z; r_H : Z; r_M : Z; r_S : Z;
  r_interval : Z;
  r_wkst : Z;
  r_count : option Z;
  r_until : option (Z * Z * Z);          (* (ordinal, second of day, microsecond), date promoted *)
  r_tzmix : bool;                        (* exactly one of dtstart / until is tz-aware *)
  r_bysetpos : option (list Z);
  r_bymonth : option (list Z);
  r_bymonthday : option (list Z);
  r_byyearday : option (list Z);
  r_byeaster : option (list Z);
  r_byweekno : option (list Z);
  r_byweekday : option (list (Z * Z));
  r_byhour : option (list Z);
  r_byminute : option (list Z);
  r_bysecond : option (list Z)
}.

(* The attributes of the constructed rrule object that _iter / _iterinfo read. *)
Record rule := mkRule {
  freq : Z; interval : Z; wkst : Z;
  count : option Z;
  until : option (Z * Z * Z);
  s_y : Z; s_m : Z; s_d : Z; s_H : Z; s_M : Z; s_S : Z;   (* self._dtstart *)
  bysetpos : option (list Z);
  bymonth : option (list Z);
  byyearday : option (list Z);
  byeaster : option (list Z);
  bymonthday : list Z; bynmonthday : list Z;
  byweekno : option (list Z);
  byweekday : option (list Z);
  bynweekday : option (list (Z * Z));
  byhour : option (list Z);
  byminute : option (list Z);
  bysecond : option (list Z);
  timeset : option (list Z)              (* seconds of day, sorted; None for freq >= HOURLY *)
}.

(* Python truthiness of `None or tuple` *)
Definition truthy {A : Type} (o : option (list A)) : bool :=
  match o with Some (_ :: _) => true | _ => false end.
Definition is_none {A : Type} (o : option A) : bool :=
  match o with None => true | Some _ => false end.
Definition nonempty {A : Type} (l : list A) : bool :=
  match l with [] => false | _ => true end.

(* datetime.time(h, m, s): ValueError outside the ranges; represented as second of day *)
Definition mk_time (h m s : Z) : res Z :=
  if valid_hms h m s then Ok (h * 3600 + m * 60 + s) else Err EValue.

Fixpoint map_res {A B : Type} (f : A -> res B) (l : list A) : res (list B) :=
  match l with
  | [] => Ok []
  | a :: t => do b <- f a; do bs <- map_res f t; Ok (b :: bs)
  end.

(* __construct_byset: keep the members reachable from `start` in steps of interval mod base; members outside
   0..base-1 can never match and are skipped (fix e1e7505) *)
Definition construct_byset (itv start : Z) (byxxx : list Z) (base : Z) : res (list Z) :=
  let cset := filter (fun num => (0 <=? num) && (num <? base) &&
                                 (let g := Z.gcd itv base in
                                  (g =? 1) || ((num - start) mod g =? 0))) byxxx in
  match cset with [] => Err EValue | _ => Ok cset end.

Definition setpos_ok (l : list Z) : bool :=
  forallb (fun p => negb (p =? 0) && (-366 <=? p) && (p <=? 366)) l.

(* split of byweekday into plain weekdays and (weekday, n) pairs, lines 597-605 *)
Definition split_weekday (fr : Z) (l : list (Z * Z)) : list Z * list (Z * Z) :=
  fold_right (fun wn acc =>
    let '(w, n) := wn in
    if (n =? 0) || (MONTHLY <? fr) then (w :: fst acc, snd acc) else (fst acc, (w, n) :: snd acc))
    ([], []) l.

(* for hour in byhour: for minute in byminute: for second in bysecond: time(hour,minute,second) *)
Definition time_product (hs ms ss : list Z) : res (list Z) :=
  map_res (fun hms => let '(h, m, s) := hms in mk_time h m s)
    (flat_map (fun h => flat_map (fun m => map (fun s => (h, m, s)) ss) ms) hs).

Definition opt_list {A : Type} (o : option (list A)) : list A :=
  match o with Some l => l | None => [] end.

Definition normalize (r : raw) : res rule :=
  let fr := r_freq r in
  let '(hh, mm, ss) := if r_isdate r then (0, 0, 0) else (r_H r, r_M r, r_S r) in
  (* 464-476 *)
  if (negb (is_none (r_until r))) && r_tzmix r then Err EValue else
  (* 490-502 *)
  if negb (match r_bysetpos r with None => true | Some l => setpos_ok l end) then Err EValue else
  (* 507-520 *)
  let nodays := is_none (r_byweekno r) && is_none (r_byyearday r) && is_none (r_bymonthday r) &&
                is_none (r_byweekday r) && is_none (r_byeaster r) in
  let bymonth0 := if nodays && (fr =? YEARLY) && is_none (r_bymonth r) then Some [r_m r]
                  else r_bymonth r in
  let bymonthday0 := if nodays && ((fr =? YEARLY) || (fr =? MONTHLY)) then Some [r_d r]
                     else r_bymonthday r in
  let byweekday0 := if nodays && (fr =? WEEKLY) then Some [(Cal.weekday (r_y r) (r_m r) (r_d r), 0)]
                    else r_byweekday r in
  (* 523-555 *)
  let bymonth1 := option_map sort_set bymonth0 in
  let byyearday1 := option_map sort_set (r_byyearday r) in
  let byeaster1 := option_map sortZ (r_byeaster r) in
  (* 558-573 *)
  let md := sort_set (opt_list bymonthday0) in
  let bymonthday1 := filter (fun x => 0 <? x) md in
  let bynmonthday1 := filter (fun x => x <? 0) md in
  (* 576-584 *)
  let byweekno1 := option_map sort_set (r_byweekno r) in
  (* 587-626 *)
  let '(byweekday1, bynweekday1) :=
    match byweekday0 with
    | None => (None, None)
    | Some l =>
      let '(plain, nth) := split_weekday fr l in
      let plain := sort_set plain in
      let nth := sort_set_pair nth in
      if negb (nonempty plain) then (None, Some nth)
      else if negb (nonempty nth) then (Some plain, None)
      else (Some plain, Some nth)
    end in
  (* 567-569 (fix 55654b4): `if 0 in bymonthday: raise ValueError` -- every failure of the constructor is a
     ValueError, so its place among the checks is not observable *)
  do _ <- (if memZ 0 (opt_list bymonthday0) then Err EValue else Ok tt);
  (* 629-646 *)
  do byhour1 <-
    match r_byhour r with
    | None => if fr <? HOURLY then Ok (Some [hh]) else Ok None
    | Some l => if fr =? HOURLY then do c <- construct_byset (r_interval r) hh l 24; Ok (Some (sort_set c))
                else Ok (Some (sort_set l))
    end;
  (* 649-666 *)
  do byminute1 <-
    match r_byminute r with
    | None => if fr <? MINUTELY then Ok (Some [mm]) else Ok None
    | Some l => if fr =? MINUTELY then do c <- construct_byset (r_interval r) mm l 60; Ok (Some (sort_set c))
                else Ok (Some (sort_set l))
    end;
  (* 669-688 *)
  do bysecond1 <-
    match r_bysecond r with
    | None => if fr <? SECONDLY then Ok (Some [ss]) else Ok None
    | Some l => if fr =? SECONDLY then do c <- construct_byset (r_interval r) ss l 60; Ok (Some (sort_set c))
                else Ok (Some (sort_set l))
    end;
  (* 690-701 *)
  do timeset1 <-
    (if HOURLY <=? fr then Ok None
     else do ts <- time_product (opt_list byhour1) (opt_list byminute1) (opt_list bysecond1);
          Ok (Some (sortZ ts)));
  Ok (mkRule fr (r_interval r) (r_wkst r) (r_count r) (r_until r)
             (r_y r) (r_m r) (r_d r) hh mm ss
             (r_bysetpos r) bymonth1 byyearday1 byeaster1 bymonthday1 bynmonthday1
             byweekno1 byweekday1 bynweekday1 byhour1 byminute1 bysecond1 timeset1).
