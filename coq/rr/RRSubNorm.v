(* C01 sub-daily, shared facts: what rrule.__init__ stores in byhour / byminute / bysecond
   (`normalize_time_fields`), and membership in a set built by __construct_byset for values the
   cursor can take (`constructed_mem`).  Written by the rset builder (new file). *)
From Coq Require Import ZArith List Bool Lia ZifyBool Znumtheory.
From V Require Import base.Cal gen.RrTables rr.RRBase rr.RRNorm rr.RRMasks rr.RRIter rr.RRSubdailyThm.
Import ListNotations.
Open Scope Z_scope.

(* ------------------------------------------------------------------ what the constructor stores *)
From V Require Import easter.EasterSpec rr.RRSpec.

Definition by_field (r : raw) (sup : option (list Z)) (unit_freq : Z) (start base : Z) (got : option (list Z)) : Prop :=
  match sup with
  | None => got = if r_freq r <? unit_freq then Some [start] else None
  | Some l => if r_freq r =? unit_freq
              then exists c, construct_byset (r_interval r) start l base = Ok c /\ got = Some (sort_set c)
              else got = Some (sort_set l)
  end.

Lemma normalize_time_fields : forall r rl, normalize r = Ok rl ->
  freq rl = r_freq r /\ interval rl = r_interval r /\
  s_H rl = sp_H0 r /\ s_M rl = sp_M0 r /\ s_S rl = sp_S0 r /\
  by_field r (r_byhour r) HOURLY (sp_H0 r) 24 (byhour rl) /\
  by_field r (r_byminute r) MINUTELY (sp_M0 r) 60 (byminute rl) /\
  by_field r (r_bysecond r) SECONDLY (sp_S0 r) 60 (bysecond rl).
Proof.
  intros r rl. unfold normalize, by_field, sp_H0, sp_M0, sp_S0.
  destruct (r_isdate r);
  (destruct (negb (is_none (r_until r)) && r_tzmix r); [discriminate|];
   destruct (negb match r_bysetpos r with None => true | Some l => setpos_ok l end); [discriminate|];
   intros H;
   repeat match type of H with
   | (let '(_, _) := ?p in _) = _ => destruct p eqn:?
   end;
   destruct (r_byhour r) as [lh|]; destruct (r_byminute r) as [lm|]; destruct (r_bysecond r) as [ls|];
   destruct (r_freq r =? HOURLY) eqn:EH; destruct (r_freq r =? MINUTELY) eqn:EM;
   destruct (r_freq r =? SECONDLY) eqn:ES;
   repeat match type of H with
   | bind ?x _ = _ => let E := fresh "E" in destruct x eqn:E; cbn [bind] in H; [|discriminate H]
   end;
   inversion H; subst; clear H; cbn [freq interval s_H s_M s_S byhour byminute bysecond];
   repeat split; eauto;
   repeat match goal with
   | E : bind ?x _ = Ok _ |- _ => destruct x eqn:?; cbn [bind] in E; [|discriminate E]; inversion E; subst; clear E
   | E : Ok _ = Ok _ |- _ => inversion E; subst; clear E
   end; eauto;
   repeat match goal with
   | E : (if ?c then Ok _ else Ok _) = Ok _ |- _ => destruct c; inversion E; subst; clear E
   end; eauto).
Qed.

(* ------------------------------------------------------------------ BY-sets built by the constructor *)
Lemma memZ_In : forall x l, memZ x l = true <-> In x l.
Proof.
  intros x l. unfold memZ. rewrite existsb_exists. split.
  - intros [y [Hy E]]. apply Z.eqb_eq in E. subst. assumption.
  - intro Hi. exists x. split; [assumption|apply Z.eqb_refl].
Qed.

Lemma insert_uniq_In : forall x l y, In y (insert_uniq x l) <-> y = x \/ In y l.
Proof.
  intros x l y. induction l as [|h t IH]; simpl; [intuition|].
  destruct (x <? h); simpl; [intuition|].
  destruct (x =? h) eqn:E; simpl; [apply Z.eqb_eq in E; subst; intuition|]. rewrite IH. intuition.
Qed.

Lemma sort_set_In : forall l y, In y (sort_set l) <-> In y l.
Proof.
  induction l as [|h t IH]; intro y; simpl; [reflexivity|]. rewrite insert_uniq_In, IH. intuition.
Qed.

Lemma memZ_sort_set' : forall x l, memZ x (sort_set l) = memZ x l.
Proof.
  intros x l. destruct (memZ x l) eqn:E.
  - apply memZ_In. apply sort_set_In. apply memZ_In. assumption.
  - apply not_true_is_false. intro H. apply (proj1 (memZ_In _ _)) in H. apply (proj1 (sort_set_In _ _)) in H.
    apply (proj2 (memZ_In _ _)) in H. congruence.
Qed.

Definition reach_test (itv start base num : Z) : bool :=
  let g := Z.gcd itv base in (g =? 1) || ((num - start) mod g =? 0).

(* the filter of __construct_byset after fix e1e7505: members outside 0..base-1 are skipped, then the gcd test *)
Definition keep_test (itv start base num : Z) : bool :=
  (0 <=? num) && (num <? base) && reach_test itv start base num.

Lemma construct_byset_ok : forall itv start l base c, construct_byset itv start l base = Ok c ->
  c = filter (keep_test itv start base) l /\ c <> [].
Proof.
  intros itv start l base c H. unfold construct_byset in H. cbv zeta in H.
  match type of H with context[filter ?f l] => change f with (keep_test itv start base) in H end.
  destruct (filter (keep_test itv start base) l) eqn:E; [discriminate H|].
  inversion H. split; [reflexivity|discriminate].
Qed.

(* a value the cursor can take (start + j steps, reduced) is in the stored set iff it was supplied *)
Lemma constructed_mem : forall itv start l base c x j, 0 < base -> 0 < itv -> 0 <= j ->
  construct_byset itv start l base = Ok c -> x = (start + j * itv) mod base ->
  memZ x (sort_set c) = memZ x l.
Proof.
  intros itv start l base c x j Hb Hi Hj Hc Hx. destruct (construct_byset_ok _ _ _ _ _ Hc) as [-> _].
  rewrite memZ_sort_set'.
  assert (Hr : keep_test itv start base x = true).
  { unfold keep_test. pose proof (Z.mod_pos_bound (start + j * itv) base Hb) as B. rewrite <- Hx in B.
    replace (0 <=? x) with true by lia. replace (x <? base) with true by lia. cbn [andb].
    unfold reach_test. apply (construct_byset_reachable itv start base x Hb Hi).
    exists j. split; [assumption|]. rewrite Hx. rewrite Z.mod_mod by lia. reflexivity. }
  destruct (memZ x l) eqn:E.
  - apply memZ_In. apply filter_In. split; [apply memZ_In; assumption|assumption].
  - apply not_true_is_false. intro H. apply (proj1 (memZ_In _ _)) in H. apply filter_In in H. destruct H as [H _].
    apply (proj2 (memZ_In _ _)) in H. congruence.
Qed.

Lemma truthy_sort_set : forall c, c <> [] -> truthy (Some (sort_set c)) = true.
Proof.
  intros [|a c] Hne; [contradiction|].
  assert (Hin : In a (sort_set (a :: c))) by (apply sort_set_In; left; reflexivity).
  destruct (sort_set (a :: c)); [destruct Hin|reflexivity].
Qed.

