(* C01 sub-daily, closing the gap to RRSpec.spec_iter (limit-free form).
   Part 1 (frequency-generic): RRSpec.spec_loop on d consecutive days, with a limit that is never
   reached, accumulates exactly what sp_take accumulates on the concatenation of the days'
   candidate lists (the per-day stop tests of spec_loop -- UNTIL at the day start, COUNT used up
   -- only skip work that sp_take would not add to anyway); sp_take is monotone in prefixes.
   Written by the rset builder (new file). *)
From Coq Require Import ZArith List Bool Lia ZifyBool.
From V Require Import base.Cal easter.EasterSpec rr.RRBase rr.RRNorm rr.RRSpec rr.RRGateThm
  rr.RRYearlyUntilThm rr.RRSubSpec rr.RRSubRunBase.
Import ListNotations.
Open Scope Z_scope.

Lemma sp_take_app : forall r a b cnt acc,
  sp_take r (a ++ b) cnt acc =
  (let '(acc1, cnt1, st) := sp_take r a cnt acc in
   if st then (acc1, cnt1, true) else sp_take r b cnt1 acc1).
Proof.
  intros r a. induction a as [|x a IH]; intros b cnt acc; [reflexivity|].
  cbn [app sp_take]. destruct (sp_after_until r x); [reflexivity|].
  destruct cnt as [c|]; [destruct (c <=? 0); [reflexivity|]|]; apply IH.
Qed.

(* the accumulator only grows at its head *)
Lemma sp_take_extends : forall r xs cnt acc,
  exists more, fst (fst (sp_take r xs cnt acc)) = more ++ acc /\ (length more <= length xs)%nat.
Proof.
  intros r xs. induction xs as [|x xs IH]; intros cnt acc; cbn [sp_take].
  - exists []. split; [reflexivity|simpl; lia].
  - destruct (sp_after_until r x); [exists []; split; [reflexivity|simpl; lia]|].
    destruct cnt as [c|].
    + destruct (c <=? 0); [exists []; split; [reflexivity|simpl; lia]|].
      destruct (IH (Some (c - 1)) (x :: acc)) as [more [E L]]. exists (more ++ [x]).
      split; [rewrite E, <- app_assoc; reflexivity|rewrite app_length; simpl; lia].
    + destruct (IH None (x :: acc)) as [more [E L]]. exists (more ++ [x]).
      split; [rewrite E, <- app_assoc; reflexivity|rewrite app_length; simpl; lia].
Qed.

Lemma sp_take_prefix : forall r a b cnt acc,
  exists more, fst (fst (sp_take r (a ++ b) cnt acc)) = more ++ fst (fst (sp_take r a cnt acc)).
Proof.
  intros r a b cnt acc. rewrite sp_take_app.
  destruct (sp_take r a cnt acc) as [[acc1 cnt1] st]. destruct st.
  - exists []. reflexivity.
  - cbn [fst]. destruct (sp_take_extends r b cnt1 acc1) as [more [E _]]. exists more. exact E.
Qed.

Lemma sp_take_count_dead : forall r xs c acc, c <= 0 -> fst (fst (sp_take r xs (Some c) acc)) = acc.
Proof.
  intros r xs c acc Hc. destruct xs as [|x xs]; cbn [sp_take]; [reflexivity|].
  destruct (sp_after_until r x); [reflexivity|]. replace (c <=? 0) with true by lia. reflexivity.
Qed.

Lemma filter_len_le' : forall (f : instant -> bool) l, (length (filter f l) <= length l)%nat.
Proof. intros f l. induction l as [|h t IH]; simpl; [lia|]. destruct (f h); simpl; lia. Qed.

Lemma filter_flat_map_app : forall (f : instant -> bool) (a b : list instant), filter f (a ++ b) = filter f a ++ filter f b.
Proof. intros. apply filter_app. Qed.

Section Days.
Variable r : raw.
Hypothesis Hsub : is_coarse r = false.

Local Notation D := (cands_subdaily_day r).
Local Notation ge0 := (inst_le (sp_start r)).

Lemma step_lo_sub : forall j, step_lo r j = sp_ord0 r + j.
Proof. intro j. unfold step_lo. rewrite Hsub. reflexivity. Qed.

Lemma step_items_sub : forall j, step_items r j = filter ge0 (D j).
Proof. intro j. unfold step_items. rewrite Hsub. reflexivity. Qed.

(* every candidate of day j or later is not before midnight of day j *)
Hypothesis D_lower : forall j x, In x (D j) -> inst_le (sp_ord0 r + j, 0) x = true.

Lemma days_all_after : forall d j x, sp_after_until r (sp_ord0 r + j, 0) = true ->
  In x (filter ge0 (flat_map D (zrange_nat j d))) -> sp_after_until r x = true.
Proof.
  intros d j x AU Hx. apply filter_In in Hx. destruct Hx as [Hx _].
  apply in_flat_map in Hx. destruct Hx as (j' & Hj' & Hx). apply in_zrange_nat in Hj'.
  apply (after_until_mono r (sp_ord0 r + j, 0) x AU).
  pose proof (D_lower j' x Hx) as L. unfold inst_le in *. cbn [fst snd] in *. lia.
Qed.

Theorem spec_loop_take : forall limit d j cnt acc,
  sp_ord0 r + j + Z.of_nat d - 1 <= max_ord ->
  zlen acc + Z.of_nat (length (flat_map D (zrange_nat j d))) < limit ->
  fst (spec_loop r limit d j cnt acc) =
  fst (fst (sp_take r (filter ge0 (flat_map D (zrange_nat j d))) cnt acc)).
Proof.
  intros limit. induction d as [|d IH]; intros j cnt acc Hmax Hlim; [reflexivity|].
  cbn [spec_loop zrange_nat flat_map].
  cbn [zrange_nat flat_map] in Hlim. rewrite app_length in Hlim.
  assert (Hl1 : zlen acc < limit) by lia.
  replace (limit <=? zlen acc) with false by lia.
  rewrite step_lo_sub. replace (max_ord <? sp_ord0 r + j) with false by lia.
  destruct (sp_after_until r (sp_ord0 r + j, 0)) eqn:AU.
  { cbn [fst]. symmetry. apply sp_take_all_after. intros y Hy.
    apply (days_all_after (S d) j y AU). exact Hy. }
  destruct (match cnt with Some c => c <=? 0 | None => false end) eqn:EC.
  { cbn [fst]. destruct cnt as [c|]; [|discriminate]. symmetry. apply sp_take_count_dead. lia. }
  rewrite step_items_sub, filter_app, sp_take_app.
  destruct (sp_take r (filter ge0 (D j)) cnt acc) as [[acc1 cnt1] st] eqn:ET.
  destruct st; [reflexivity|].
  apply IH; [lia|].
  pose proof (sp_take_extends r (filter ge0 (D j)) cnt acc) as [more [E L]]. rewrite ET in E. cbn [fst] in E.
  subst acc1. unfold zlen in *. rewrite app_length.
  pose proof (filter_len_le' ge0 (D j)). lia.
Qed.

End Days.

(* ------------------------------------------------------------------ days = consecutive blocks of periods *)
Section Blocks.
Variable r : raw.
Hypothesis Hi : 1 <= r_interval r.
Hypothesis Hsod : 0 <= sp_sod0 r <= 86399.

Local Notation u := (unit_secs r).
Local Notation stp := (r_interval r * unit_secs r).
Local Notation t0 := (sub_t0 r).
Local Notation dlo j := ((sp_ord0 r + j) * 86400).

(* index of the first period that starts on day j or later / one past the last one of day j *)
Definition kstart (j : Z) : Z := Z.max 0 ((dlo j - t0 + stp - 1) / stp).
Definition kend (j : Z) : Z := (dlo j + 86399 - t0) / stp + 1.

Lemma unit_pos : 1 <= u.
Proof. unfold unit_secs. destruct (_ =? _); [lia|destruct (_ =? _); lia]. Qed.

Lemma stp_pos : 1 <= stp.
Proof. pose proof unit_pos. nia. Qed.

Lemma t0_bounds : sp_ord0 r * 86400 <= t0 <= sp_ord0 r * 86400 + 86399.
Proof.
  unfold sub_t0. pose proof unit_pos as Hu.
  pose proof (Z.mul_div_le (sp_sod0 r) u ltac:(lia)) as A.
  assert (0 <= sp_sod0 r / u) by (apply Z.div_pos; lia).
  replace (sp_sod0 r / u * u) with (u * (sp_sod0 r / u)) by ring. nia.
Qed.

Lemma kstart_0 : kstart 0 = 0.
Proof.
  unfold kstart. pose proof t0_bounds as B. pose proof stp_pos as S.
  assert ((dlo 0 - t0 + stp - 1) / stp < 1).
  { replace (dlo 0) with (sp_ord0 r * 86400) by ring.
    apply Z.div_lt_upper_bound; nia. }
  lia.
Qed.

Lemma kstart_succ : forall j, 0 <= j -> kstart (j + 1) = kend j.
Proof.
  intros j Hj. unfold kstart, kend. pose proof t0_bounds as B. pose proof stp_pos as S.
  replace (dlo (j + 1) - t0 + stp - 1) with ((dlo j + 86399 - t0) + 1 * stp) by ring.
  rewrite Z.div_add by lia.
  assert (0 <= (dlo j + 86399 - t0) / stp) by (apply Z.div_pos; nia). lia.
Qed.

Lemma kstart_le_kend : forall j, 0 <= j -> kstart j <= kend j.
Proof.
  intros j Hj. unfold kstart, kend. pose proof t0_bounds as B. pose proof stp_pos as S.
  assert (0 <= (dlo j + 86399 - t0) / stp) by (apply Z.div_pos; nia).
  assert ((dlo j - t0 + stp - 1) / stp <= (dlo j + 86399 - t0) / stp + 1).
  { replace ((dlo j + 86399 - t0) / stp + 1) with ((dlo j + 86399 - t0 + 1 * stp) / stp) by (rewrite Z.div_add by lia; reflexivity).
    apply Z.div_le_mono; lia. }
  lia.
Qed.

Lemma day_is_block : forall j, cands_subdaily_day r j = flat_map (period_cands r) (zrange (kstart j) (kend j)).
Proof.
  intro j. pose proof (cands_subdaily_day_periods r j Hi) as E. cbv zeta in E. rewrite E.
  unfold kstart, kend. reflexivity.
Qed.

Theorem days_are_periods : forall d,
  flat_map (cands_subdaily_day r) (zrange_nat 0 d) =
  flat_map (period_cands r) (zrange 0 (kstart (Z.of_nat d))).
Proof.
  induction d as [|d IH].
  - cbn. rewrite kstart_0, zrange_empty. reflexivity.
  - replace (S d) with (d + 1)%nat by lia. rewrite zrange_nat_app, flat_map_app, IH.
    cbn [zrange_nat flat_map]. rewrite app_nil_r. rewrite Z.add_0_l.
    rewrite day_is_block.
    replace (Z.of_nat (d + 1)) with (Z.of_nat d + 1) by lia. rewrite (kstart_succ (Z.of_nat d)) by lia.
    rewrite <- flat_map_app. f_equal. symmetry. apply zrange_split.
    split; [unfold kstart; lia|apply kstart_le_kend; lia].
Qed.

(* a period that starts on day j or earlier lies before the end of day j's block *)
Lemma period_before_kend : forall k j, period_start r k / 86400 <= sp_ord0 r + j -> k < kend j.
Proof.
  intros k j Hd. unfold kend. pose proof stp_pos as S.
  assert (Ht : period_start r k <= dlo j + 86399).
  { pose proof (Z.div_mod (period_start r k) 86400 ltac:(lia)).
    pose proof (Z.mod_pos_bound (period_start r k) 86400 ltac:(lia)). nia. }
  unfold period_start, sub_stp in Ht.
  assert (k <= (dlo j + 86399 - t0) / stp) by (apply Z.div_le_lower_bound; [lia|]; nia).
  lia.
Qed.

End Blocks.
