(* C01 layer 7 -- rrule_iter_correct for DAILY rules WITH BYSETPOS (selection within the day's time
   set): every fuel.  Uses the generic pass/run lemmas of RRCoarseRun and the day-increment advance of
   RRWeeklyThm.fixday_advance. *)
From Coq Require Import ZArith List Bool Lia ZifyBool.
From V Require Import base.Cal gen.RrTables rr.RRBase rr.RRNorm rr.RRMasks rr.RRIter rr.RRSpec
  rr.RROverlay rr.RRWeekCal rr.RRWeekFinal rr.RRFilterThm rr.RRFilterSpec rr.RRGateThm rr.RRTimesetThm
  rr.RRDaysetThm rr.RRAdvanceThm rr.RRIterThm rr.RRPassThm rr.RRYearlyThm rr.RRYearlyEasterThm
  rr.RRCountThm rr.RRYearlyCountThm rr.RRYearlyUntilThm rr.RRDailyThm rr.RRMonthlyThm rr.RRWeeklyThm
  rr.RRSetposThm rr.RRCoarseRun rr.RRMonthlyFullThm.
Import ListNotations.
Ltac Zify.zify_post_hook ::= Z.to_euclidean_division_equations.
Open Scope Z_scope.

Record dfam_s (r : raw) : Prop := mk_dfam_s {
  ds_wf : spec_wf r = true;
  ds_freq : r_freq r = DAILY;
  ds_plain : plain_only r = true;
  ds_weekno : all_opt (r_byweekno r) weekno_safe = true;
  ds_easter : r_byeaster r = None
}.

Section DailyFull.
Variables (r : raw) (rl : rule).
Hypothesis HN : normalize r = Ok rl.
Hypothesis Y : dfam_s r.

Let HW : spec_wf r = true. Proof. destruct Y; assumption. Qed.
Let Hfr : r_freq r = DAILY. Proof. destruct Y; assumption. Qed.
Let Nfr : freq rl = DAILY. Proof. rewrite (normalize_freq r rl HN). exact Hfr. Qed.

Lemma daily_step_items_sel k y i : let o := sp_ord0 r + k * r_interval r in 1 <= o <= max_ord ->
  o = jan1 y + i ->
  step_items r k = filter (inst_le (sp_start r))
    (select_pos r (cand_list (jan1 y) (period_times r 0)
                     (filter (fun j => day_ok r (jan1 y + j)) (zrange i (i + 1))))).
Proof.
  intros o Ho Eo.
  unfold step_items, is_coarse. rewrite Hfr. change (DAILY <=? DAILY) with true. cbv iota.
  f_equal. f_equal. unfold cands_coarse, period_days. rewrite Hfr.
  change (DAILY =? YEARLY) with false. change (DAILY =? MONTHLY) with false. change (DAILY =? WEEKLY) with false.
  cbv iota. fold o.
  replace (Z.max o 1) with o by lia. replace (Z.min o max_ord + 1) with (o + 1) by lia.
  unfold zrange. replace (Z.to_nat (o + 1 - o)) with 1%nat by lia.
  replace (Z.to_nat (i + 1 - i)) with 1%nat by lia. cbn [zrange_nat flat_map filter].
  rewrite <- Eo. unfold cand_list. destruct (day_ok r o); cbn [flat_map]; rewrite <- ?Eo; reflexivity.
Qed.

Lemma daily_advance2 : forall k cnt s filtered c1 out1, at_pass_d r rl k cnt s ->
  (exists s', advance rl s filtered c1 out1 = Ok (AdvGo s') /\ at_pass_d r rl (k + 1) c1 s' /\ c_out s' = out1) \/
  (advance rl s filtered c1 out1 = Ok AdvMax /\ max_ord < step_lo r (k + 1)).
Proof.
  intros k cnt s filtered c1 out1 (Av & Ao & Ar & At & Ac).
  destruct Y as [_ _ Hp Hs He].
  destruct (normalize_misc r rl HN) as (Ni & _ & _ & _ & _ & _ & _).
  pose proof (normalize_wkst r rl HN) as Nwk.
  pose proof (plain_only_no_nth r rl HN Hp) as TN.
  destruct (normalize_fields r rl HN) as (_ & _ & _ & _ & _ & Nea & _).
  assert (TE : truthy (byeaster rl) = false) by (rewrite Nea, He; reflexivity).
  assert (Hwf : 1 <= r_interval r /\ 0 <= r_wkst r <= 6).
  { pose proof HW as HW'. unfold spec_wf in HW'.
    repeat match type of HW' with _ && _ = true =>
      let H := fresh "W" in apply andb_true_iff in HW'; destruct HW' as [HW' H] end.
    unfold between in *. lia. }
  destruct Hwf as [Hitv Hwk].
  assert (EK : sp_ord0 r + (k + 1) * r_interval r = ord_of_ymd (c_year s) (c_month s) (c_day s) + r_interval r)
    by (rewrite Ao; ring).
  unfold advance. rewrite Nfr.
  change (DAILY =? YEARLY) with false. change (DAILY =? MONTHLY) with false. change (DAILY =? WEEKLY) with false.
  change (DAILY =? DAILY) with true. cbv iota zeta. rewrite Ni.
  destruct (fixday_advance rl s (c_year s) (c_month s) (c_day s) (r_interval r) (c_hour s) (c_minute s) (c_second s)
              (c_weekday s) (c_ii s) (c_timeset s) c1 out1 Av Hitv Ar TN TE ltac:(rewrite Nwk; exact Hwk))
    as [(y' & m' & d' & ii' & EA & V' & O' & R')|(EA & Hmax)].
  - left. eexists. split; [exact EA|]. split; [|reflexivity].
    unfold at_pass_d. cbn [c_year c_month c_day c_ii c_timeset c_count].
    split; [exact V'|]. split; [rewrite O', EK; reflexivity|]. split; [exact R'|]. split; [exact At|reflexivity].
  - right. split; [exact EA|]. rewrite (step_lo_daily r (k + 1) Hfr), EK. exact Hmax.
Qed.

Lemma daily_step2 : forall k cnt s, at_pass_d r rl k cnt s -> 0 <= k -> True ->
  exists acc' cnt' b, sp_take r (step_items r k) cnt (c_out s) = (acc', cnt', b) /\
    ((exists s', step rl s = inl s' /\ at_pass_d r rl (k + 1) cnt' s' /\ c_out s' = acc' /\ b = false) \/
     (exists t, step rl s = inr (acc', t) /\
                (b = true \/ until_lt_start r \/ max_ord < step_lo r (k + 1)))) /\
    (sp_after_until r (step_lo r k, 0) = true -> acc' = c_out s).
Proof.
  intros k cnt s A Hk _.
  pose proof A as (Av & Ao & Ar & At & Ac).
  destruct Y as [_ _ Hp Hs He].
  set (o := sp_ord0 r + k * r_interval r) in *.
  set (i := o - jan1 (c_year s)).
  destruct (index_in_year _ _ _ Av) as (Hi & Ho & Hy). rewrite Ao in Hi, Ho. fold i in Hi.
  pose proof (rebuild_ii_for rl _ _ _ Hy Ar) as F.
  assert (EI : ord_of_ymd (c_year s) (c_month s) (c_day s) - yearordinal (c_ii s) = i).
  { rewrite (f_yo _ _ F), Ao. reflexivity. }
  assert (HRj : day_rejected rl (c_ii s) i = Ok (negb (day_ok r o))).
  { rewrite (day_filter_correct_guarded r rl (c_year s) (c_month s) (c_ii s) i HN HW Hp Hs (or_introl He) Hy Ar Hi).
    unfold i. replace (jan1 (c_year s) + (o - jan1 (c_year s))) with o by lia. reflexivity. }
  destruct (single_day_filter rl (c_ii s) (c_year s) (c_month s) (c_day s) (negb (day_ok r o)) Av)
    as (ds & ds' & E1 & E2 & E3).
  { rewrite EI, (f_ylen _ _ F). exact Hi. }
  { rewrite EI. exact HRj. }
  rewrite EI in E1, E2, E3.
  assert (G : getdayset rl (c_ii s) (c_year s) (c_month s) (c_day s) = Ok (ds, i, i + 1)).
  { unfold getdayset. rewrite Nfr. change (DAILY =? YEARLY) with false. change (DAILY =? MONTHLY) with false.
    change (DAILY =? WEEKLY) with false. change ((DAILY <=? DAILY) && (DAILY <=? SECONDLY)) with true.
    cbv iota. exact E1. }
  assert (EP : somes (py_slice ds' i (i + 1)) =
               filter (fun j => day_ok r (jan1 (c_year s) + j)) (zrange i (i + 1))).
  { rewrite E3. unfold zrange. replace (Z.to_nat (i + 1 - i)) with 1%nat by lia. cbn [zrange_nat filter].
    replace (jan1 (c_year s) + i) with o by (unfold i; lia).
    destruct (day_ok r o); reflexivity. }
  destruct (step_from_days r rl HN HW ltac:(rewrite Hfr; reflexivity) s k cnt ds _ _ ds' _ _ G E2 EP
              (ssorted_filter_zrange _ _ _)) as (out' & c1 & s1 & c1' & b1 & PRE & ET & G2 & G3 & G4).
  { intros j Hj. apply filter_In in Hj. destruct Hj as [Hj _]. unfold zrange in Hj.
    pose proof (In_zrange_nat_bounds _ _ _ Hj) as Bj. rewrite (f_yo _ _ F). unfold from_ordinal.
    replace ((1 <=? jan1 (c_year s) + j) && (jan1 (c_year s) + j <=? max_ord)) with true by (unfold i in *; lia).
    reflexivity. }
  { exact At. }
  { exact Ac. }
  { rewrite (f_yo _ _ F). apply (daily_step_items_sel k (c_year s) i); [exact Ho|unfold i; lia]. }
  exists out', c1', b1. split; [exact ET|]. split.
  - destruct s1 as [t|].
    + right. exists t. split; [exact PRE|]. destruct (G3 ltac:(discriminate)) as [H|H]; auto.
    + destruct (G2 eq_refl) as [Hb Ec]. subst c1'.
      destruct (daily_advance2 k cnt s (negb (day_ok r o)) c1 out' A) as [(s' & EA & A' & EO)|(EA & Hmax)].
      * left. exists s'. rewrite PRE, EA. split; [reflexivity|]. split; [exact A'|]. split; [exact EO|exact Hb].
      * right. exists TMaxYear. rewrite PRE, EA. split; [reflexivity|]. right. right. exact Hmax.
  - intros AU. apply (G4 (step_lo r k)); [|exact AU].
    intros j Hj. apply filter_In in Hj. destruct Hj as [Hj _]. unfold zrange in Hj.
    pose proof (In_zrange_nat_bounds _ _ _ Hj) as Bj. rewrite (f_yo _ _ F).
    rewrite (step_lo_daily r k Hfr). fold o. unfold i in *. lia.
Qed.

Theorem daily_iter_correct2 : forall limit n,
  fst (iterate rl limit n) = fst (spec_iter r limit n).
Proof.
  intros limit n.
  destruct Y as [_ _ Hp Hs He].
  destruct (normalize_misc r rl HN) as (Ni & Nsp & Ny & Nm & Nd & Nc & Nu).
  pose proof (normalize_wkst r rl HN) as Nwk.
  pose proof (plain_only_no_nth r rl HN Hp) as TN.
  pose proof (wf_itv r HW) as Hitv.
  destruct (normalize_fields r rl HN) as (_ & _ & _ & _ & _ & Nea & _).
  assert (TE : truthy (byeaster rl) = false) by (rewrite Nea, He; reflexivity).
  assert (Hwf : 0 <= r_wkst r <= 6 /\ valid_ymd (r_y r) (r_m r) (r_d r) = true).
  { pose proof HW as HW'. unfold spec_wf in HW'.
    repeat match type of HW' with _ && _ = true =>
      let H := fresh "W" in apply andb_true_iff in HW'; destruct HW' as [HW' H] end.
    unfold between in *. split; [lia|assumption]. }
  destruct Hwf as [Hwk V].
  destruct (index_in_year _ _ _ V) as (_ & _ & Hy0).
  destruct (rebuild_succeeds rl (r_y r) (r_m r) Hy0 ltac:(rewrite Nwk; exact Hwk) TN (or_introl TE)) as (ii0 & R0).
  pose proof (timeset_is_spec r rl HN HW ltac:(rewrite Hfr; reflexivity)) as HT.
  unfold iterate, init_state. rewrite Nfr. change (DAILY =? WEEKLY) with false. cbn [andb]. cbv iota.
  rewrite Ny, Nm, Nd, R0. cbn [bind].
  change (DAILY <? HOURLY) with true. cbv iota. rewrite HT. cbn [bind]. rewrite Nc.
  unfold spec_iter.
  set (s0 := mkSt _ _ _ _ _ _ _ _ _ _ _).
  assert (A0 : at_pass_d r rl 0 (r_count r) s0).
  { unfold at_pass_d, s0. cbn [c_year c_month c_day c_ii c_timeset c_count].
    split; [exact V|]. split; [unfold sp_ord0; ring|]. split; [exact R0|]. split; reflexivity. }
  assert (H1 : forall k0 cnt0 s1, at_pass_d r rl k0 cnt0 s1 -> c_count s1 = cnt0).
  { intros k0 cnt0 s1 (_ & _ & _ & _ & Ac). exact Ac. }
  assert (H2 : forall k0, 0 <= k0 -> step_lo r k0 <= step_lo r (k0 + 1)).
  { intros k0 Hk0. rewrite !(step_lo_daily r _ Hfr). nia. }
  assert (H3 : forall k0 cnt0 s1, at_pass_d r rl k0 cnt0 s1 -> 0 <= k0 -> True -> step_lo r k0 <= max_ord).
  { intros k0 cnt0 s1 (Av & Ao & _) _ _. rewrite (step_lo_daily r k0 Hfr), <- Ao.
    destruct (index_in_year _ _ _ Av) as (_ & B & _). lia. }
  pose proof (coarse_run_is_spec r rl (at_pass_d r rl) (fun _ => True) H1 H2 H3 daily_step2
                limit n 0 (r_count r) s0 A0 ltac:(lia) (fun j _ => I)) as Q.
  change (c_out s0) with (@nil instant) in Q.
  destruct (run rl limit n s0) as [out t]. destruct (spec_loop r limit n 0 (r_count r) []) as [acc t'].
  cbn [fst] in *. rewrite Q. reflexivity.
Qed.
End DailyFull.

Theorem daily_setpos_iter_correct : forall r rl limit n,
  normalize r = Ok rl -> dfam_s r ->
  fst (iterate rl limit n) = fst (spec_iter r limit n).
Proof. intros r rl limit n HN Y. apply (daily_iter_correct2 r rl HN Y). Qed.

(* non-vacuity: rrule(DAILY, dtstart=datetime(2023,12,30,9,0), byhour=(9,12,17), byweekday=(SA,MO), bysetpos=(2,-1), count=4) *)
Definition raw_daily_setpos_example : raw :=
  mkRaw DAILY false 2023 12 30 9 0 0 1 0 (Some 4) None false
        (Some [2; -1]) None None None None None (Some [(5, 0); (0, 0)]) (Some [9; 12; 17]) None None.
Example daily_setpos_example :
  dfam_s raw_daily_setpos_example /\
  match normalize raw_daily_setpos_example with
  | Ok rl => fst (iterate rl 100 40) =
             [(ord_of_ymd 2023 12 30, 43200); (ord_of_ymd 2023 12 30, 61200); (ord_of_ymd 2024 1 1, 43200);
              (ord_of_ymd 2024 1 1, 61200)]
  | Err _ => False
  end.
Proof. split; [constructor; reflexivity|vm_compute; reflexivity]. Qed.
