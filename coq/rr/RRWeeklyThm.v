(* C01 layer 7 -- rrule_iter_correct for the WEEKLY family: every WEEKLY rule without BYSETPOS,
   BYEASTER and nth weekdays (BYMONTH, BYMONTHDAY, BYYEARDAY, plain BYDAY incl. the start-derived
   default, BYWEEKNO in the RFC range; COUNT, UNTIL, any interval, WKST and time expansion), for every
   number of passes whose weeks stay within 9999-12-31.
   Pass 0 expands the days from the start to the end of its WKST-week, pass k >= 1 the whole week
   start-of-week + 7*k*interval; a week that straddles 1 January is expanded with the masks of the
   OLD year through their 7-day extension -- this is where the BY-filter is proved on the extension
   (day_filter_ext), incl. the week-number mask on `used_index` and the next-January table entries. *)
From Coq Require Import ZArith List Bool Lia ZifyBool.
From V Require Import base.Cal gen.RrTables rr.RRBase rr.RRNorm rr.RRMasks rr.RRIter rr.RRSpec
  rr.RROverlay rr.RRTablesThm rr.RRWeekDefs rr.RRWeekThm rr.RRWeekCal rr.RRWeekFinal rr.RRWeekTop rr.RRNwdThm
  rr.RRNwdCal rr.RRFilterThm rr.RRFilterSpec rr.RRGateThm rr.RRTimesetThm rr.RRDaysetThm rr.RRAdvanceThm rr.RRIterThm
  rr.RRPassThm rr.RRYearlyThm rr.RRYearlyEasterThm rr.RRCountThm rr.RRYearlyCountThm rr.RRYearlyUntilThm
  rr.RRDailyThm rr.RRMonthlyThm.
Import ListNotations.
Ltac Zify.zify_post_hook ::= Z.to_euclidean_division_equations.
Open Scope Z_scope.

(* ------------------------------------------------------------------ the week's day set *)
(* number of days from day index i to the end of its wkst-week *)
Definition week_rest (ywd wk i : Z) : Z := 7 - ((ywd + i) mod 7 - wk) mod 7.

Lemma py_set_app_at {A} (pre : list A) x rest v i : Z.of_nat (length pre) = i ->
  py_set (pre ++ x :: rest) i v = Ok (pre ++ v :: rest).
Proof. intros <-. apply py_set_app. Qed.

(* the loop stops after min(n, days to the end of the wkst-week, days to 9999-12-31) steps (fix 8ced7a9) *)
Lemma wday_loop_spec ywd wk yo : 0 <= ywd <= 6 -> 0 <= wk <= 6 ->
  forall n i pre rest suf, 0 <= i -> i + Z.of_nat n < 378 -> yo + i <= max_ord ->
  Z.of_nat (length pre) = i -> length rest = n ->
  let L := Z.min (Z.min (Z.of_nat n) (week_rest ywd wk i)) (max_ord + 1 - (yo + i)) in
  exists rest',
    wday_loop n (wdm_of ywd) wk yo (pre ++ rest ++ suf) i =
    Ok (pre ++ map Some (zrange i (i + L)) ++ rest' ++ suf, i + L) /\
    length rest' = (n - Z.to_nat L)%nat /\ rest' = skipn (Z.to_nat L) rest.
Proof.
  intros Hy Hk. induction n as [|n IH]; intros i pre rest suf Hi Hn Hmx Hl Hr L.
  - destruct rest; [|discriminate Hr]. unfold L. cbn [wday_loop].
    assert (W : 1 <= week_rest ywd wk i <= 7) by (unfold week_rest; lia).
    replace (Z.min (Z.min (Z.of_nat 0) (week_rest ywd wk i)) (max_ord + 1 - (yo + i))) with 0 by lia.
    exists []. rewrite Z.add_0_r. unfold zrange. rewrite Z.sub_diag. cbn [Z.to_nat zrange_nat map app skipn length].
    repeat split; reflexivity.
  - destruct rest as [|x rest]; [discriminate Hr|]. cbn [length] in Hr. injection Hr as Hr.
    cbn [wday_loop]. cbn [app]. rewrite (py_set_app_at pre x (rest ++ suf) (Some i) i Hl). cbn [bind].
    rewrite (wdm_nth ywd (i + 1) Hy ltac:(lia)). cbn [bind].
    assert (W : 1 <= week_rest ywd wk i <= 7) by (unfold week_rest; lia).
    assert (STOP : forall Lone : Z.min (Z.min (Z.of_nat (S n)) (week_rest ywd wk i)) (max_ord + 1 - (yo + i)) = 1,
              exists rest',
                Ok (pre ++ Some i :: rest ++ suf, i + 1) =
                Ok (pre ++ map Some (zrange i (i + L)) ++ rest' ++ suf, i + L) /\
                length rest' = (S n - Z.to_nat L)%nat /\ rest' = skipn (Z.to_nat L) (x :: rest)).
    { intros Lone. unfold L. rewrite Lone. exists rest. unfold zrange.
      replace (Z.to_nat (i + 1 - i)) with 1%nat by lia.
      cbn [zrange_nat map app Z.to_nat Pos.to_nat Pos.iter_op Nat.add skipn].
      split; [reflexivity|]. split; [lia|reflexivity]. }
    destruct ((ywd + (i + 1)) mod 7 =? wk) eqn:EW.
    + (* the next day starts a new week: stop *)
      assert (W1 : week_rest ywd wk i = 1) by (unfold week_rest; lia).
      apply STOP. lia.
    + destruct (max_ord <? yo + (i + 1)) eqn:EM.
      * (* the next day would be 10000-01-01: stop *)
        apply STOP. lia.
      * assert (W1 : week_rest ywd wk (i + 1) = week_rest ywd wk i - 1) by (unfold week_rest; lia).
        replace (pre ++ Some i :: rest ++ suf) with ((pre ++ [Some i]) ++ rest ++ suf)
          by (rewrite <- app_assoc; reflexivity).
        destruct (IH (i + 1) (pre ++ [Some i]) rest suf ltac:(lia) ltac:(lia) ltac:(lia)
                    ltac:(rewrite app_length; cbn [length]; lia) Hr) as (rest' & E & Lr & Sr).
        cbv zeta in E, Lr, Sr. rewrite W1 in E, Lr, Sr. rewrite E.
        set (L1 := Z.min (Z.min (Z.of_nat n) (week_rest ywd wk i - 1)) (max_ord + 1 - (yo + (i + 1)))) in *.
        assert (EL : Z.min (Z.min (Z.of_nat (S n)) (week_rest ywd wk i)) (max_ord + 1 - (yo + i)) = L1 + 1)
          by (unfold L1; lia).
        unfold L. rewrite EL. exists rest'.
        assert (HL1 : 0 <= L1) by (unfold L1; lia).
        split.
        -- f_equal. f_equal; [|lia]. rewrite <- app_assoc. cbn [app]. f_equal.
           unfold zrange. replace (Z.to_nat (i + (L1 + 1) - i)) with (S (Z.to_nat (i + 1 + L1 - (i + 1)))) by lia.
           cbn [zrange_nat map]. reflexivity.
        -- replace (Z.to_nat (L1 + 1)) with (S (Z.to_nat L1)) by lia. cbn [skipn Nat.sub]. split; [exact Lr|exact Sr].
Qed.

(* the week's day set: from the cursor to the end of its wkst-week, cut at 9999-12-31 *)
Theorem wdayset_correct : forall rl ii y year month day,
  ii_for ii y -> 0 <= wkst rl <= 6 -> valid_ymd year month day = true ->
  let i0 := ord_of_ymd year month day - jan1 y in
  0 <= i0 < year_len y ->
  let L := Z.min (week_rest (weekday_of_ord (jan1 y)) (wkst rl) i0) (max_ord + 1 - (jan1 y + i0)) in
  exists ds suf,
    wdayset rl ii year month day = Ok (ds, i0, i0 + L) /\
    ds = repeat None (Z.to_nat i0) ++ map Some (zrange i0 (i0 + L)) ++ suf /\ 1 <= L <= 7.
Proof.
  intros rl ii y year month day F Hk Hv i0 Hi L.
  pose proof (ord_of_ymd_range _ _ _ Hv) as Ro.
  unfold wdayset, date_ord. rewrite Hv. cbn [bind]. rewrite (f_yo ii y F). fold i0.
  rewrite (f_wdm ii y F), (f_ylen ii y F).
  pose proof (weekday_of_ord_range (jan1 y)) as Hy.
  assert (YL : 365 <= year_len y <= 366) by (unfold year_len; destruct (is_leap y); lia).
  assert (W : 1 <= L <= 7) by (unfold L, week_rest, i0; lia).
  unfold py_repeat.
  replace (Z.to_nat (year_len y + 7)) with (Z.to_nat i0 + (7 + Z.to_nat (year_len y - i0)))%nat by lia.
  rewrite !repeat_app_split.
  destruct (wday_loop_spec (weekday_of_ord (jan1 y)) (wkst rl) (jan1 y) Hy Hk 7 i0
              (repeat None (Z.to_nat i0)) (repeat None 7) (repeat None (Z.to_nat (year_len y - i0)))
              ltac:(lia) ltac:(lia) ltac:(unfold i0; lia) ltac:(rewrite repeat_length; lia) ltac:(apply repeat_length))
    as (rest' & E & _ & _).
  cbv zeta in E.
  replace (Z.min (Z.min (Z.of_nat 7) (week_rest (weekday_of_ord (jan1 y)) (wkst rl) i0)) (max_ord + 1 - (jan1 y + i0)))
    with L in E by (unfold L, week_rest; lia).
  rewrite E. cbn [bind fst snd].
  exists (repeat None (Z.to_nat i0) ++ map Some (zrange i0 (i0 + L)) ++ rest' ++ repeat None (Z.to_nat (year_len y - i0))),
         (rest' ++ repeat None (Z.to_nat (year_len y - i0))).
  split; [reflexivity|]. split; [reflexivity|exact W].
Qed.

(* ------------------------------------------------------------------ the BY-filter on the 7-day extension *)
(* plain BYDAY: what the constructor stores vs the specification's predicate, for any weekday value
   and whatever the nth-branch would be *)
Lemma plain_weekday_eq r rl (q : Z -> bool) wd :
  normalize r = Ok rl -> spec_wf r = true -> plain_only r = true ->
  truthy (byweekday rl) && negb (memZ wd (opt_list (byweekday rl))) =
  negb (in_opt (eff_byweekday r) (fun wn : Z * Z => let '(w, n) := wn in
          (w =? wd) && (if (n =? 0) || (MONTHLY <? r_freq r) then true else q n))).
Proof.
  intros HN HW Hp.
  destruct (normalize_fields r rl HN) as (_ & _ & _ & _ & _ & _ & Nwd).
  unfold spec_wf in HW.
  repeat match type of HW with _ && _ = true =>
    let H := fresh "W" in apply andb_true_iff in HW; destruct HW as [HW H] end.
  assert (NEw : ne_opt (eff_byweekday r) = true /\
                forallb (fun wn : Z * Z => snd wn =? 0) (opt_list (eff_byweekday r)) = true).
  { unfold eff_byweekday, plain_only in *. destruct (r_byweekday r) as [l|]; [split; assumption|].
    destruct (no_day_part r && (r_freq r =? WEEKLY)); split; reflexivity. }
  destruct NEw as [NEw Pl].
  assert (BW : byweekday rl = match eff_byweekday r with
                              | None => None | Some l => Some (sort_set (map fst l)) end).
  { pose proof Nwd as Q. unfold wd_split in Q. destruct (eff_byweekday r) as [l|].
    - cbn [opt_list] in Pl. rewrite (split_plain _ l Pl) in Q.
      destruct l as [|h t]; [discriminate NEw|].
      assert (NP : nonempty (sort_set (map fst (h :: t))) = true) by (rewrite sort_set_nonempty; reflexivity).
      rewrite NP in Q. cbn [negb nonempty sort_set_pair fold_right] in Q. injection Q as Q1 Q2. exact Q1.
    - injection Q as Q1 Q2. exact Q1. }
  rewrite BW. destruct (eff_byweekday r) as [l|]; [|reflexivity].
  cbn [opt_list in_opt] in *. destruct l as [|h t]; [discriminate NEw|].
  assert (NP : nonempty (sort_set (map fst (h :: t))) = true) by (rewrite sort_set_nonempty; reflexivity).
  assert (TT : truthy (Some (sort_set (map fst (h :: t)))) = true).
  { cbn [truthy]. destruct (sort_set (map fst (h :: t))); [discriminate NP|reflexivity]. }
  rewrite TT. cbn [andb]. rewrite memZ_sort_set. f_equal. rewrite <- existsb_fst.
  clear -Pl. induction (h :: t) as [|[w n] t' IH]; [reflexivity|].
  cbn [forallb snd] in Pl. apply andb_true_iff in Pl. destruct Pl as [Pn Pt].
  cbn [existsb fst]. rewrite (IH Pt). rewrite Pn. cbn [orb]. rewrite andb_true_r. reflexivity.
Qed.

(* the date of an extension index: January of the next year *)
Lemma ymd_ext y i : year_len y <= i < year_len y + 7 ->
  ymd_of_ord (jan1 y + i) = (y + 1, 1, i - year_len y + 1) /\
  jan1 y + i - days_before_year (y + 1) = i - year_len y + 1.
Proof.
  intros Hi. unfold ymd_of_ord.
  assert (YL : 365 <= year_len y <= 366) by (unfold year_len; destruct (is_leap y); lia).
  pose proof (year_of_rel y i ltac:(lia)) as Y.
  replace (i <? year_len y) with false in Y by lia. rewrite Y.
  assert (E : jan1 y + i - days_before_year (y + 1) = i - year_len y + 1).
  { rewrite jan1_eq, days_before_year_succ. lia. }
  rewrite E. split; [|reflexivity].
  assert (M : month_of_yday (y + 1) (i - year_len y + 1) = 1).
  { apply month_of_yday_unique; [lia|]. rewrite dbm_1. change (1 + 1) with 2.
    assert (dbm (y + 1) 2 = 31) by reflexivity. lia. }
  rewrite M, dbm_1. f_equal. lia.
Qed.

(* day_filter_correct on the extension (plain family, no BYEASTER): the days of next January that
   belong to the week that began in year y *)
Theorem day_filter_ext : forall r rl y month ii i,
  normalize r = Ok rl -> spec_wf r = true -> plain_only r = true ->
  all_opt (r_byweekno r) weekno_safe = true -> r_byeaster r = None ->
  1 <= y <= 9999 -> rebuild rl ii_init y month = Ok ii ->
  year_len y <= i < year_len y + 7 -> used_index (shape_of y) (r_wkst r) i = true ->
  day_rejected rl ii i = Ok (negb (day_ok r (jan1 y + i))).
Proof.
  intros r rl y month ii i HN HW Hp Hs He Hy HR Hi Hu.
  destruct (normalize_fields r rl HN) as (Nm & Nyd & Nmd & Nnmd & Nwn & Nea & Nwd).
  pose proof (normalize_wkst r rl HN) as Nwk.
  destruct (rebuild_char rl y month ii Hy HR) as (F & Cnw & Cwn).
  pose proof (plain_only_no_nth r rl HN Hp) as TN.
  pose proof (Cnw TN) as Hnw.
  pose proof HW as HW'. unfold spec_wf in HW'.
  repeat match type of HW' with _ && _ = true =>
    let H := fresh "W" in apply andb_true_iff in HW'; destruct HW' as [HW' H] end.
  destruct (ymd_ext y i Hi) as [EY EYD].
  set (d := i - year_len y + 1) in *.
  assert (YL : 365 <= year_len y <= 366) by (unfold year_len; destruct (is_leap y); lia).
  (* table entries of the extension *)
  pose proof (tables_correct y i ltac:(lia)) as T.
  pose proof (f_masks ii y F) as M. destruct (masks_for y) as [[[mm mdm] nmdm] mr]. inversion M; subst mm mdm nmdm mr.
  replace (i <? year_len y) with false in T by lia. fold d in T. change (dim (y + 1) 1) with 31 in T.
  destruct T as (T1 & T2 & T3).
  assert (P1 : py_nth (mmask ii) i = Ok 1) by (apply py_nth_nth_error; [lia|exact T1]).
  assert (P2 : py_nth (mdaymask ii) i = Ok d) by (apply py_nth_nth_error; [lia|exact T2]).
  assert (P3 : py_nth (nmdaymask ii) i = Ok (d - 31 - 1)) by (apply py_nth_nth_error; [lia|exact T3]).
  pose proof (weekday_of_ord_range (jan1 y)) as Rw.
  (* the six clauses *)
  unfold day_rejected.
  assert (C1 : cl_month rl ii i = Ok (truthy (bymonth rl) && negb (memZ 1 (opt_list (bymonth rl))))).
  { unfold cl_month. destruct (truthy (bymonth rl)); [rewrite P1; reflexivity|reflexivity]. }
  assert (C5 : cl_monthday rl ii i = Ok ((nonempty (bymonthday rl) || nonempty (bynmonthday rl)) &&
              negb (memZ d (bymonthday rl)) && negb (memZ (d - 31 - 1) (bynmonthday rl)))).
  { unfold cl_monthday. destruct (nonempty (bymonthday rl) || nonempty (bynmonthday rl)); [|reflexivity].
    rewrite P2. cbn [bind]. destruct (memZ d (bymonthday rl)); [reflexivity|]. rewrite P3. reflexivity. }
  assert (C6 : cl_yearday rl ii i = Ok (truthy (byyearday rl) && negb (memZ d (opt_list (byyearday rl))) &&
              negb (memZ (d - year_len (y + 1) - 1) (opt_list (byyearday rl))))).
  { unfold cl_yearday. rewrite (f_ylen ii y F), (f_nylen ii y F).
    destruct (truthy (byyearday rl)); [|reflexivity].
    replace (i <? year_len y) with false by lia.
    replace (i + 1 - year_len y) with d by (unfold d; lia).
    replace (- year_len (y + 1) + i - year_len y) with (d - year_len (y + 1) - 1) by (unfold d; lia). reflexivity. }
  assert (C3 : cl_weekday rl ii i = Ok (truthy (byweekday rl) &&
              negb (memZ (weekday_of_ord (jan1 y + i)) (opt_list (byweekday rl))))).
  { unfold cl_weekday. rewrite Hnw. cbn [truthy orb]. rewrite orb_false_r.
    destruct (truthy (byweekday rl)); [|reflexivity].
    rewrite (f_wdm ii y F). rewrite (wdm_nth _ i Rw ltac:(lia)). cbn [bind]. rewrite <- wd_shift.
    destruct (memZ (weekday_of_ord (jan1 y + i)) (opt_list (byweekday rl))); reflexivity. }
  assert (C4 : cl_easter rl ii i = Ok false) by (unfold cl_easter; rewrite Nea, He; reflexivity).
  assert (C2 : cl_weekno rl ii i = Ok (negb (in_opt (r_byweekno r) (weekno_lambda r (jan1 y + i))))).
  { unfold cl_weekno. rewrite Nwn.
    destruct (r_byweekno r) as [l|] eqn:EL; [|reflexivity].
    assert (NE : ne_opt (Some l) = true) by assumption.
    assert (TT : truthy (option_map sort_set (Some l)) = true).
    { rewrite (truthy_map_sort (Some l) NE). reflexivity. }
    rewrite TT. rewrite Nwn in Cwn. destruct (Cwn TT) as (m & Em & Eb). rewrite Em.
    cbn [option_map opt_list] in Eb.
    assert (SAFE : forallb weekno_safe (sort_set l) = true) by (apply forallb_sort_set; exact Hs).
    assert (Hk : 0 <= wkst rl <= 6).
    { rewrite Nwk. match goal with H : between 0 6 (r_wkst r) = true |- _ => unfold between in H end. lia. }
    destruct (wnomask_correct_calendar y (wkst rl) (sort_set l) Hk SAFE) as (m' & Em' & Lm & Pm).
    cbv zeta in Em'. rewrite Eb in Em'. injection Em' as <-.
    rewrite (py_nth_nth m i) by lia. cbn [bind].
    rewrite Nwk in Pm. specialize (Pm i Hu). unfold RRWeekThm.nzb in Pm.
    f_equal. cbn [in_opt]. rewrite <- (existsb_sort_set (weekno_lambda r (jan1 y + i)) l).
    replace (nth (Z.to_nat i) m 0 =? 0) with (negb (negb (nth (Z.to_nat i) m 0 =? 0))) by apply negb_involutive.
    f_equal. rewrite Pm. reflexivity. }
  rewrite C1, C2, C3, C4, C5, C6.
  (* the specification on (y + 1, January, d) *)
  unfold day_ok. rewrite EY, EYD. fold d. rewrite He. cbn [in_opt]. rewrite andb_true_r.
  fold (weekno_lambda r (jan1 y + i)).
  change (dim (y + 1) 1) with 31.
  assert (NEm : ne_opt (eff_bymonth r) = true).
  { unfold eff_bymonth. destruct (r_bymonth r) as [l|]; [assumption|].
    destruct (no_day_part r && (r_freq r =? YEARLY)); reflexivity. }
  rewrite Nm, (month_clause (eff_bymonth r) 1 NEm).
  assert (Vd : 1 <= r_d r).
  { match goal with H : valid_ymd _ _ _ = true |- _ => unfold valid_ymd in H end. lia. }
  assert (NEd : ne_opt (eff_bymonthday r) = true /\ all_opt (eff_bymonthday r) (fun x => negb (x =? 0)) = true).
  { unfold eff_bymonthday. destruct (r_bymonthday r) as [l|]; [split; assumption|].
    destruct (no_day_part r && ((r_freq r =? YEARLY) || (r_freq r =? MONTHLY))); [|split; reflexivity].
    split; [reflexivity|]. cbn [all_opt forallb]. rewrite andb_true_r. apply negb_true_iff. lia. }
  destruct NEd as [NEd Zd].
  rewrite Nmd, Nnmd.
  rewrite (monthday_clause (eff_bymonthday r) d (d - 31 - 1) NEd Zd ltac:(unfold d; lia) ltac:(unfold d; lia)).
  rewrite Nyd. rewrite (yearday_clause (r_byyearday r) d (d - year_len (y + 1) - 1)) by assumption.
  rewrite (plain_weekday_eq r rl (fun n => if (r_freq r =? MONTHLY) || negb (is_none (r_bymonth r))
                                           then nth_in d 31 n else nth_in d (year_len (y + 1)) n)
             (weekday_of_ord (jan1 y + i)) HN HW Hp).
  destruct (in_opt (eff_bymonth r) (Z.eqb 1)), (in_opt (eff_bymonthday r) _), (in_opt (r_byyearday r) _),
    (in_opt (eff_byweekday r) _), (in_opt (r_byweekno r) _); reflexivity.
Qed.

(* ------------------------------------------------------------------ the WEEKLY family *)
Record wfam (r : raw) : Prop := mk_wfam {
  w_wf : spec_wf r = true;
  w_freq : r_freq r = WEEKLY;
  w_plain : plain_only r = true;
  w_setpos : r_bysetpos r = None;
  w_weekno : all_opt (r_byweekno r) weekno_safe = true;
  w_easter : r_byeaster r = None
}.

(* first day of the WKST-week of the start; first day of period k; the model's cursor in pass k *)
Definition ws0 (r : raw) : Z := sp_ord0 r - (weekday_of_ord (sp_ord0 r) - r_wkst r) mod 7.
Definition wlo (r : raw) (k : Z) : Z := ws0 r + 7 * (k * r_interval r).
Definition wcur (r : raw) (k : Z) : Z := Z.max (sp_ord0 r) (wlo r k).
(* one past the last representable day of period k (the week that contains 9999-12-31 ends there, fix 8ced7a9);
   the first representable day of period k (the week that contains 0001-01-01 begins there, fix 3426f68) *)
Definition wend (r : raw) (k : Z) : Z := Z.min (wlo r k + 6) max_ord + 1.
Definition wbeg (r : raw) (k : Z) : Z := Z.max (wlo r k) 1.

Lemma wlo_succ r k : wlo r (k + 1) = wlo r k + 7 * r_interval r.
Proof. unfold wlo. ring. Qed.

Lemma wlo_mono r k j : 1 <= r_interval r -> k <= j -> wlo r k <= wlo r j.
Proof. intros Hi Hk. unfold wlo. nia. Qed.

Lemma wlo_weekday r k : 0 <= r_wkst r <= 6 -> weekday_of_ord (wlo r k) = r_wkst r.
Proof.
  intros Hw. unfold wlo, ws0. generalize (k * r_interval r) as m. intros m.
  unfold weekday_of_ord. lia.
Qed.

Lemma wcur_cases r k : 1 <= r_interval r -> 0 <= r_wkst r <= 6 -> 0 <= k ->
  (k = 0 /\ wcur r k = sp_ord0 r /\ wlo r k = ws0 r) \/ (1 <= k /\ wcur r k = wlo r k).
Proof.
  intros Hi Hw Hk. unfold wcur, wlo.
  assert (B : 0 <= sp_ord0 r - ws0 r <= 6) by (unfold ws0; lia).
  destruct (Z.eq_dec k 0) as [->|Hne]; [left|right].
  - split; [reflexivity|]. split; lia.
  - split; [lia|]. assert (1 <= k * r_interval r) by nia. lia.
Qed.

(* the cursor lies in period k, and the rest of its week ends with the period *)
Lemma wcur_week r k : 1 <= r_interval r -> 0 <= r_wkst r <= 6 -> 0 <= k ->
  (weekday_of_ord (wcur r k) - r_wkst r) mod 7 = wcur r k - wlo r k /\ wlo r k <= wcur r k <= wlo r k + 6.
Proof.
  intros Hi Hw Hk.
  destruct (wcur_cases r k Hi Hw Hk) as [(-> & E1 & E2)|(Hk1 & E)].
  - rewrite E1, E2. unfold ws0. lia.
  - rewrite E, (wlo_weekday r k Hw). rewrite Z.sub_diag. change (0 mod 7) with 0. lia.
Qed.

Lemma zrange_nat_cut : forall n m a, zrange_nat a (n + m) = zrange_nat a n ++ zrange_nat (a + Z.of_nat n) m.
Proof.
  induction n as [|n IH]; intros m a.
  - cbn [Nat.add zrange_nat app]. f_equal. lia.
  - cbn [Nat.add zrange_nat app]. f_equal. rewrite IH. f_equal. f_equal. lia.
Qed.

Lemma zrange_cut a b c : a <= b <= c -> zrange a c = zrange a b ++ zrange b c.
Proof.
  intros H. unfold zrange. replace (Z.to_nat (c - a)) with (Z.to_nat (b - a) + Z.to_nat (c - b))%nat by lia.
  rewrite zrange_nat_cut. f_equal. f_equal. lia.
Qed.

Lemma step_lo_weekly r k : r_freq r = WEEKLY -> step_lo r k = wlo r k.
Proof.
  intros Hf. unfold step_lo, is_coarse, period_days. rewrite Hf. change (WEEKLY <=? DAILY) with true.
  change (WEEKLY =? YEARLY) with false. change (WEEKLY =? MONTHLY) with false. change (WEEKLY =? WEEKLY) with true.
  reflexivity.
Qed.

(* the specification's step for WEEKLY: the days of period k from the cursor on -- the earlier days of
   the start's week precede the start *)
Lemma weekly_step_items_g r k : spec_wf r = true -> r_freq r = WEEKLY -> r_bysetpos r = None -> 0 <= k ->
  wcur r k <= max_ord ->
  step_items r k = filter (inst_le (sp_start r))
    (flat_map (fun o => map (fun t => (o, t)) (period_times r 0))
              (filter (day_ok r) (zrange (wcur r k) (wend r k)))).
Proof.
  intros HW Hfr Hsp Hk Hmax.
  assert (Hwf : 1 <= r_interval r /\ 0 <= r_wkst r <= 6 /\ valid_ymd (r_y r) (r_m r) (r_d r) = true).
  { pose proof HW as HW'. unfold spec_wf in HW'.
    repeat match type of HW' with _ && _ = true =>
      let H := fresh "W" in apply andb_true_iff in HW'; destruct HW' as [HW' H] end.
    unfold between in *. split; [lia|]. split; [lia|assumption]. }
  destruct Hwf as (Hitv & Hwk & V).
  pose proof (ord_of_ymd_range _ _ _ V) as R0. fold (sp_ord0 r) in R0.
  destruct (wcur_week r k Hitv Hwk Hk) as [_ Bc].
  assert (Bc0 : sp_ord0 r <= wcur r k) by (unfold wcur; lia).
  unfold step_items, is_coarse, select_pos. rewrite Hfr, Hsp. change (WEEKLY <=? DAILY) with true. cbv iota.
  unfold cands_coarse, period_days. rewrite Hfr.
  change (WEEKLY =? YEARLY) with false. change (WEEKLY =? MONTHLY) with false. change (WEEKLY =? WEEKLY) with true.
  cbv iota zeta. fold (ws0 r). fold (wlo r k). fold (wend r k).
  rewrite flat_map_filter.
  rewrite (zrange_cut (Z.max (wlo r k) 1) (wcur r k) (wend r k)) by (unfold wend; lia).
  rewrite filter_app, flat_map_app, filter_app.
  match goal with |- ?a ++ ?b = ?c => assert (E : a = []); [|rewrite E; reflexivity] end.
  assert (Hlt : forall o, In o (zrange (Z.max (wlo r k) 1) (wcur r k)) -> o < sp_ord0 r).
  { intros o Ho. unfold zrange in Ho. pose proof (In_zrange_nat_bounds _ _ _ Ho) as B. unfold wcur in *. lia. }
  induction (zrange (Z.max (wlo r k) 1) (wcur r k)) as [|o t IH]; [reflexivity|].
  cbn [filter]. destruct (day_ok r o); cbn [flat_map].
  - rewrite filter_app, IH by (intros o' Ho'; apply Hlt; right; exact Ho'). rewrite app_nil_r.
    pose proof (Hlt o (or_introl eq_refl)) as Lo. clear IH.
    induction (period_times r 0) as [|t0 ts IHt]; [reflexivity|]. cbn [map filter].
    unfold inst_le at 1, sp_start. cbn [fst snd].
    replace ((sp_ord0 r <? o) || (sp_ord0 r =? o) && (sp_sod0 r <=? t0)) with false by lia. exact IHt.
  - apply IH. intros o' Ho'. apply Hlt. right. exact Ho'.
Qed.

Lemma weekly_step_items r k : spec_wf r = true -> r_freq r = WEEKLY -> r_bysetpos r = None -> 0 <= k ->
  wlo r k + 6 <= max_ord ->
  step_items r k = filter (inst_le (sp_start r))
    (flat_map (fun o => map (fun t => (o, t)) (period_times r 0))
              (filter (day_ok r) (zrange (wcur r k) (wlo r k + 7)))).
Proof.
  intros HW Hfr Hsp Hk Hmax.
  assert (Hwf : 1 <= r_interval r /\ 0 <= r_wkst r <= 6).
  { pose proof HW as HW'. unfold spec_wf in HW'.
    repeat match type of HW' with _ && _ = true =>
      let H := fresh "W" in apply andb_true_iff in HW'; destruct HW' as [HW' H] end.
    unfold between in *. lia. }
  destruct Hwf as (Hitv & Hwk).
  destruct (wcur_week r k Hitv Hwk Hk) as [_ Bc].
  rewrite (weekly_step_items_g r k HW Hfr Hsp Hk ltac:(lia)).
  replace (wend r k) with (wlo r k + 7) by (unfold wend; lia). reflexivity.
Qed.

Definition at_pass_w (r : raw) (rl : rule) (k : Z) (cnt : option Z) (s : state) : Prop :=
  valid_ymd (c_year s) (c_month s) (c_day s) = true /\
  ord_of_ymd (c_year s) (c_month s) (c_day s) = wcur r k /\
  c_weekday s = weekday_of_ord (wcur r k) /\
  rebuild rl ii_init (c_year s) (c_month s) = Ok (c_ii s) /\
  c_timeset s = period_times r 0 /\ c_count s = cnt.

Lemma week_off wk t : 0 <= wk <= 6 -> 0 <= t <= 6 -> ((wk + t) mod 7 - wk) mod 7 = t.
Proof. intros. lia. Qed.

(* a WEEKLY pass: day set, filter (possibly reaching into next January), gate, against the
   specification's step *)
Lemma weekly_pass_full : forall r rl k cnt s,
  normalize r = Ok rl -> wfam r -> at_pass_w r rl k cnt s -> 0 <= k ->
  let y := c_year s in
  let st := wcur r k - jan1 y in let en := wend r k - jan1 y in
  exists ds ds' f out' c1 s1 c1' b1,
    getdayset rl (c_ii s) y (c_month s) (c_day s) = Ok (ds, st, en) /\
    filter_loop rl (c_ii s) (py_slice ds st en) ds false = Ok (ds', f) /\
    out_days rl (yearordinal (c_ii s)) (py_slice ds' st en) (period_times r 0) cnt (c_out s) = (out', c1, s1) /\
    sp_take r (step_items r k) cnt (c_out s) = (out', c1', b1) /\
    (s1 = None -> b1 = false /\ c1 = c1') /\ (s1 <> None -> b1 = true \/ until_lt_start r) /\
    (sp_after_until r (wlo r k, 0) = true -> out' = c_out s).
Proof.
  intros r rl k cnt s HN [HW Hfr Hp Hsp Hs He] (Av & Ao & Aw & Ar & At & Ac) Hk y st en.
  fold y in Av, Ao, Ar.
  assert (Hmax : wcur r k <= max_ord) by (pose proof (ord_of_ymd_range _ _ _ Av) as RR; rewrite Ao in RR; lia).
  destruct (normalize_misc r rl HN) as (_ & _ & _ & _ & _ & _ & Nu).
  pose proof (normalize_freq r rl HN) as Nfr. rewrite Hfr in Nfr.
  pose proof (normalize_wkst r rl HN) as Nwk.
  assert (Hwf : 1 <= r_interval r /\ 0 <= r_wkst r <= 6 /\ valid_ymd (r_y r) (r_m r) (r_d r) = true).
  { pose proof HW as HW'. unfold spec_wf in HW'.
    repeat match type of HW' with _ && _ = true =>
      let H := fresh "W" in apply andb_true_iff in HW'; destruct HW' as [HW' H] end.
    unfold between in *. split; [lia|]. split; [lia|assumption]. }
  destruct Hwf as (Hitv & Hwk & V).
  destruct (normalize_start_until r rl HN V) as (S1 & _ & _).
  destruct (index_in_year _ _ _ Av) as (Hi & Ho & Hy). rewrite Ao in Hi, Ho. fold st in Hi.
  pose proof (rebuild_ii_for rl y _ (c_ii s) Hy Ar) as F.
  destruct (wcur_week r k Hitv Hwk Hk) as [Ew Bc].
  assert (YL : 365 <= year_len y <= 366) by (unfold year_len; destruct (is_leap y); lia).
  (* day set *)
  destruct (wdayset_correct rl (c_ii s) y y (c_month s) (c_day s) F ltac:(rewrite Nwk; exact Hwk) Av
              ltac:(rewrite Ao; exact Hi)) as (ds & suf & E1 & Eds & _).
  rewrite Ao in E1, Eds. fold st in E1, Eds.
  assert (EL : st + Z.min (week_rest (weekday_of_ord (jan1 y)) (wkst rl) st) (max_ord + 1 - (jan1 y + st)) = en).
  { unfold week_rest. rewrite <- wd_shift. replace (jan1 y + st) with (wcur r k) by (unfold st; lia).
    rewrite Nwk, Ew. unfold st, en, wend. lia. }
  rewrite EL in E1, Eds.
  assert (G : getdayset rl (c_ii s) y (c_month s) (c_day s) = Ok (ds, st, en)).
  { unfold getdayset. rewrite Nfr. change (WEEKLY =? YEARLY) with false. change (WEEKLY =? MONTHLY) with false.
    change (WEEKLY =? WEEKLY) with true. cbv iota. exact E1. }
  (* filter loop *)
  set (rej := fun i => negb (day_ok r (jan1 y + i))).
  assert (HRj : forall i, st <= i < en -> day_rejected rl (c_ii s) i = Ok (rej i)).
  { intros i Hi'. destruct (Z_lt_ge_dec i (year_len y)) as [Hlt|Hge].
    - apply (day_filter_correct_guarded r rl y (c_month s) (c_ii s) i HN HW Hp Hs (or_introl He) Hy Ar). lia.
    - apply (day_filter_ext r rl y (c_month s) (c_ii s) i HN HW Hp Hs He Hy Ar); [unfold st, en, wend in *; lia|].
      unfold used_index, shape_of. cbn [sh_ylen sh_ywd].
      rewrite <- wd_shift.
      replace (jan1 y + i) with (wlo r k + (jan1 y + i - wlo r k)) by lia.
      rewrite wd_shift, (wlo_weekday r k Hwk).
      rewrite (week_off (r_wkst r) (jan1 y + i - wlo r k) Hwk) by (unfold st, en, wend in *; lia).
      unfold st, en, wend in *. lia. }
  set (pre := repeat (@None Z) (Z.to_nat st)).
  assert (Lp : Z.of_nat (length pre) = st) by (unfold pre; rewrite repeat_length; lia).
  assert (Hse : st <= en) by (unfold st, en, wend; lia).
  assert (SL : py_slice ds st en = map Some (zrange st en)).
  { rewrite Eds. fold pre. pose proof (py_slice_mid pre (map Some (zrange st en)) suf) as P.
    rewrite Lp in P. rewrite map_length in P. unfold zrange in P at 2. rewrite zrange_nat_length in P.
    replace (st + Z.of_nat (Z.to_nat (en - st))) with en in P by lia. exact P. }
  assert (FL : filter_loop rl (c_ii s) (py_slice ds st en) ds false =
               Ok (pre ++ map (mark rej) (zrange st en) ++ suf, existsb rej (zrange st en))).
  { rewrite SL, Eds. fold pre. unfold zrange.
    rewrite (filter_loop_range rl (c_ii s) rej (Z.to_nat (en - st)) st pre suf false Lp).
    - reflexivity.
    - intros i Hi'. apply HRj. lia. }
  set (ds' := pre ++ map (mark rej) (zrange st en) ++ suf).
  assert (SL' : py_slice ds' st en = map (mark rej) (zrange st en)).
  { unfold ds'. pose proof (py_slice_mid pre (map (mark rej) (zrange st en)) suf) as P.
    rewrite Lp in P. rewrite map_length in P. unfold zrange in P at 2. rewrite zrange_nat_length in P.
    replace (st + Z.of_nat (Z.to_nat (en - st))) with en in P by lia. exact P. }
  (* candidates *)
  set (L := flat_map (fun o => map (fun t => (o, t)) (period_times r 0))
                     (filter (day_ok r) (zrange (jan1 y + st) (jan1 y + en)))).
  assert (EO : out_days rl (yearordinal (c_ii s)) (py_slice ds' st en) (period_times r 0) cnt (c_out s) =
               gate_list rl L cnt (c_out s)).
  { rewrite SL', (f_yo _ _ F). rewrite out_days_is_gate.
    - f_equal. rewrite somes_map_mark. unfold L.
      rewrite (filter_ext' (fun i => negb (rej i)) (fun i => day_ok r (jan1 y + i)))
        by (intros x; unfold rej; apply negb_involutive).
      replace (jan1 y + en) with (jan1 y + st + (en - st)) by lia. rewrite zrange_shift.
      replace (zrange st en) with (map (fun i => st + i) (zrange 0 (en - st)))
        by (rewrite <- zrange_shift; f_equal; lia).
      rewrite !filter_map_comm, !flat_map_map'.
      generalize (zrange 0 (en - st)) as Z0. induction Z0 as [|a t IH]; cbn [filter flat_map]; [reflexivity|].
      replace (jan1 y + (st + a)) with (jan1 y + st + a) by lia.
      destruct (day_ok r (jan1 y + st + a)); cbn [flat_map]; rewrite IH; [|reflexivity].
      f_equal. apply map_ext. intros t0. f_equal. lia.
    - intros i Hi'. rewrite somes_map_mark in Hi'. apply filter_In in Hi'. destruct Hi' as [Hi' _].
      unfold zrange in Hi'. pose proof (In_zrange_nat_bounds _ _ _ Hi') as Bi.
      unfold from_ordinal.
      replace ((1 <=? jan1 y + i) && (jan1 y + i <=? max_ord)) with true by (unfold st, en, wend in *; lia).
      reflexivity. }
  assert (ES : step_items r k = filter (inst_le (sp_start r)) L).
  { rewrite (weekly_step_items_g r k HW Hfr Hsp Hk Hmax). unfold L.
    replace (jan1 y + st) with (wcur r k) by (unfold st; lia).
    replace (jan1 y + en) with (wend r k) by (unfold en; lia). reflexivity. }
  pose proof (gate_take_gen rl r S1 Nu L cnt (c_out s)) as GT.
  assert (DU : sp_after_until r (wlo r k, 0) = true -> fst (fst (gate_list rl L cnt (c_out s))) = c_out s).
  { intros AU. destruct (gate_list_all_after rl r Nu L cnt (c_out s)) as (stp & Eg & _).
    - intros [o t] Hx. unfold L in Hx. apply in_flat_map in Hx. destruct Hx as (o' & Ho' & Hx).
      apply in_map_iff in Hx. destruct Hx as (t' & E & Ht'). inversion E; subst o' t'.
      apply filter_In in Ho'. destruct Ho' as [Ho' _]. unfold zrange in Ho'.
      pose proof (In_zrange_nat_bounds _ _ _ Ho') as Bo. pose proof (period_times_nonneg r 0 t Ht') as Bt.
      apply (after_until_mono r (wlo r k, 0) (o, t) AU). unfold inst_le. cbn [fst snd].
      unfold st in Bo. lia.
    - rewrite Eg. reflexivity. }
  rewrite <- EO in GT, DU. rewrite <- ES in GT.
  destruct (out_days rl (yearordinal (c_ii s)) (py_slice ds' st en) (period_times r 0) cnt (c_out s))
    as [[o1 c1] s1] eqn:EOD.
  destruct (sp_take r (step_items r k) cnt (c_out s)) as [[a1 c1'] b1] eqn:ET.
  destruct GT as (G1 & G2 & G3). subst a1.
  exists ds, ds', (existsb rej (zrange st en)), o1, c1, s1, c1', b1.
  split; [exact G|]. split; [exact FL|]. split; [exact EOD|]. split; [reflexivity|].
  split; [exact G2|]. split; [exact G3|]. intros AU. apply (DU AU).
Qed.

(* ------------------------------------------------------------------ moving the cursor by whole days *)
(* finish_advance with fixday: the cursor moves `delta` days on and stays an existing date, the
   iterinfo equals the one built from scratch; or the year would pass 9999 *)
Lemma fixday_advance : forall rl s y m d delta hh mi ss wd' ii ts c1 out1,
  valid_ymd y m d = true -> 1 <= delta ->
  rebuild rl ii_init y m = Ok ii -> truthy (bynweekday rl) = false -> truthy (byeaster rl) = false ->
  0 <= wkst rl <= 6 ->
  (exists y' m' d' ii',
     finish_advance rl s true y m (d + delta) hh mi ss wd' ii ts c1 out1 =
       Ok (AdvGo (mkSt y' m' d' hh mi ss wd' ii' ts c1 out1)) /\
     valid_ymd y' m' d' = true /\ ord_of_ymd y' m' d' = ord_of_ymd y m d + delta /\
     rebuild rl ii_init y' m' = Ok ii') \/
  (finish_advance rl s true y m (d + delta) hh mi ss wd' ii ts c1 out1 = Ok AdvMax /\
   max_ord < ord_of_ymd y m d + delta).
Proof.
  intros rl s y m d delta hh mi ss wd' ii ts c1 out1 Av Hdl Ar TN TE Hwk.
  destruct (index_in_year _ _ _ Av) as (_ & _ & Hy).
  assert (Hm : 1 <= m <= 12 /\ 1 <= d <= dim y m) by (unfold valid_ymd in Av; lia).
  destruct Hm as [Hm Hd].
  unfold finish_advance. cbn [andb].
  set (d2 := d + delta).
  assert (Same : dim y m < d2 \/
                 (valid_ymd y m d2 = true /\ ord_of_ymd y m d2 = ord_of_ymd y m d + delta)).
  { destruct (Z_le_gt_dec d2 (dim y m)) as [Hle|Hgt]; [right|left; lia].
    split; [unfold valid_ymd; lia|unfold ord_of_ymd, d2; lia]. }
  destruct (28 <? d2) eqn:E28.
  2:{ left. exists y, m, d2, ii. split; [reflexivity|].
      destruct Same as [S|[S1 S2]]; [pose proof (dim_pos y m); lia|]. split; [exact S1|]. split; [exact S2|exact Ar]. }
  destruct (dim y m <? d2) eqn:Edm.
  2:{ left. exists y, m, d2, ii. split; [reflexivity|].
      destruct Same as [S|[S1 S2]]; [lia|]. split; [exact S1|]. split; [exact S2|exact Ar]. }
  assert (Hkk : exists kk, Z.to_nat d2 = S kk /\ d2 <= 28 * Z.of_nat kk + dim y m).
  { exists (Z.to_nat (d2 - 1)). pose proof (dim_pos y m). split; lia. }
  destruct Hkk as (kk & Ekk & Hkk). rewrite Ekk.
  pose proof (fix_loop_never_out_of_fuel kk y m d2 (dim y m) ltac:(pose proof (dim_pos y m); lia) Hm Hkk) as NF.
  destruct (fix_loop (S kk) y m d2 (dim y m)) as [y' m' d'| |] eqn:EF; [| |contradiction].
  - destruct (fix_loop_ordinal (S kk) y m d2 y' m' d' Hm ltac:(lia) EF) as (EO & Hm' & Hd').
    destruct (fix_loop_year_le (S kk) y m d2 (dim y m) y' m' d' EF ltac:(unfold T_MAXYEAR; lia)) as [Hy1 Hy2].
    unfold T_MAXYEAR in Hy2.
    destruct (rebuild_succeeds rl y' m' ltac:(lia) Hwk TN (or_introl TE)) as (ii2 & R2).
    assert (R2' : rebuild rl ii y' m' = Ok ii2).
    { destruct (Z.eq_dec y' y) as [->|Hne].
      - rewrite (rebuild_same_year rl y m m' ii Ar Hy TN). exact R2.
      - destruct (rebuild_slots rl y m ii Hy Ar) as (LY & EM).
        destruct (rebuild_char rl y m ii Hy Ar) as (_ & CN & _).
        rewrite rebuild_from_previous_year; [exact R2| | exact TN | apply CN; exact TN | right; apply EM; exact TE].
        rewrite LY. unfold opt_neqb. apply negb_true_iff. apply Z.eqb_neq. lia. }
    rewrite R2'. cbn [bind]. left. exists y', m', d', ii2. split; [reflexivity|].
    split; [unfold valid_ymd; lia|]. split; [|exact R2].
    rewrite EO. unfold vord, ord_of_ymd, d2. lia.
  - right. split; [reflexivity|].
    pose proof (fix_loop_max_only_beyond (S kk) y m d2 Hm ltac:(unfold T_MAXYEAR; lia) EF) as B.
    unfold T_MAXYEAR in B. change (days_before_year (9999 + 1)) with 3652059 in B.
    unfold vord, ord_of_ymd, d2, max_ord in *. lia.
Qed.

(* the WEEKLY advance: on to the first day of period k + 1 *)
Lemma weekly_advance : forall r rl k cnt s filtered c1 out1,
  normalize r = Ok rl -> wfam r -> at_pass_w r rl k cnt s -> 0 <= k ->
  (exists s', advance rl s filtered c1 out1 = Ok (AdvGo s') /\ at_pass_w r rl (k + 1) c1 s' /\ c_out s' = out1) \/
  (advance rl s filtered c1 out1 = Ok AdvMax /\ max_ord < wlo r (k + 1)).
Proof.
  intros r rl k cnt s filtered c1 out1 HN [HW Hfr Hp Hsp Hs He] (Av & Ao & Aw & Ar & At & Ac) Hk.
  destruct (normalize_misc r rl HN) as (Ni & _ & _ & _ & _ & _ & _).
  pose proof (normalize_freq r rl HN) as Nfr. rewrite Hfr in Nfr.
  pose proof (normalize_wkst r rl HN) as Nwk.
  pose proof (plain_only_no_nth r rl HN Hp) as TN.
  destruct (normalize_fields r rl HN) as (_ & _ & _ & _ & _ & Nea & _).
  assert (TE : truthy (byeaster rl) = false) by (rewrite Nea, He; reflexivity).
  assert (Hwf : 1 <= r_interval r /\ 0 <= r_wkst r <= 6).
  { pose proof HW as HW'. unfold spec_wf in HW'.
    repeat match type of HW' with _ && _ = true =>
      let H := fresh "W" in apply andb_true_iff in HW'; destruct HW' as [HW' H] end.
    unfold between in *. lia. }
  destruct Hwf as [Hitv Hwk].
  destruct (wcur_week r k Hitv Hwk Hk) as [Ew Bc].
  pose proof (weekday_of_ord_range (wcur r k)) as Rw.
  unfold advance. rewrite Nfr.
  change (WEEKLY =? YEARLY) with false. change (WEEKLY =? MONTHLY) with false. change (WEEKLY =? WEEKLY) with true.
  cbv iota zeta.
  rewrite (weekly_advance_correct (c_day s) (c_weekday s) (wkst rl) (interval rl)
             ltac:(rewrite Aw; exact Rw) ltac:(rewrite Nwk; exact Hwk)).
  rewrite Aw, Nwk, Ew, Ni.
  set (delta := 7 * r_interval r - (wcur r k - wlo r k)).
  replace (c_day s - (wcur r k - wlo r k) + 7 * r_interval r) with (c_day s + delta) by (unfold delta; lia).
  assert (EN : wcur r k + delta = wlo r (k + 1)) by (rewrite wlo_succ; unfold delta; lia).
  assert (EC : wcur r (k + 1) = wlo r (k + 1)).
  { destruct (wcur_cases r (k + 1) Hitv Hwk ltac:(lia)) as [(E0 & _)|(_ & E)]; [lia|exact E]. }
  destruct (fixday_advance rl s (c_year s) (c_month s) (c_day s) delta (c_hour s) (c_minute s) (c_second s)
              (r_wkst r) (c_ii s) (c_timeset s) c1 out1 Av ltac:(unfold delta; lia) Ar TN TE
              ltac:(rewrite Nwk; exact Hwk))
    as [(y' & m' & d' & ii' & EA & V' & O' & R')|(EA & Hmax)].
  - left. eexists. split; [exact EA|]. split; [|reflexivity].
    unfold at_pass_w. cbn [c_year c_month c_day c_weekday c_ii c_timeset c_count].
    split; [exact V'|]. split; [rewrite O', Ao, EN, EC; reflexivity|].
    split; [rewrite EC, (wlo_weekday r (k + 1) Hwk); reflexivity|].
    split; [exact R'|]. split; [exact At|reflexivity].
  - right. split; [exact EA|]. rewrite <- EN, <- Ao. exact Hmax.
Qed.

(* one pass of the loop for the WEEKLY family *)
Lemma weekly_step : forall r rl k cnt s,
  normalize r = Ok rl -> wfam r -> at_pass_w r rl k cnt s -> 0 <= k ->
  exists acc' cnt' b, sp_take r (step_items r k) cnt (c_out s) = (acc', cnt', b) /\
    ((exists s', step rl s = inl s' /\ at_pass_w r rl (k + 1) cnt' s' /\ c_out s' = acc' /\ b = false) \/
     (exists t, step rl s = inr (acc', t) /\
                (b = true \/ until_lt_start r \/ max_ord < wlo r (k + 1)))) /\
    (sp_after_until r (wlo r k, 0) = true -> acc' = c_out s).
Proof.
  intros r rl k cnt s HN Y A Hk.
  pose proof Y as [HW Hfr Hp Hsp Hs He].
  destruct (normalize_misc r rl HN) as (_ & Nsp & _ & _ & _ & _ & _).
  destruct (weekly_pass_full r rl k cnt s HN Y A Hk)
    as (ds & ds' & f & out' & c1 & s1 & c1' & b1 & E1 & E2 & E3 & E4 & G2 & G3 & G4).
  pose proof A as (Av & Ao & Aw & Ar & At & Ac).
  exists out', c1', b1. split; [exact E4|]. split; [|exact G4].
  assert (PRE : step rl s =
    match s1 with
    | Some t => inr (out', t)
    | None => match advance rl s f c1 out' with
              | Err e => inr (out', TRaised e)
              | Ok AdvMax => inr (out', TMaxYear)
              | Ok AdvFuel => inr (out', TOutOfFuel)
              | Ok (AdvGo s') => inl s'
              end
    end).
  { unfold step. rewrite E1. cbn [bind]. rewrite E2. cbn [bind fst snd].
    rewrite Nsp, Hsp. cbn [truthy andb]. rewrite At, Ac. rewrite E3. reflexivity. }
  destruct s1 as [t|].
  - right. exists t. split; [exact PRE|]. destruct (G3 ltac:(discriminate)) as [H|H]; auto.
  - destruct (G2 eq_refl) as [Hb Ec]. subst c1'.
    destruct (weekly_advance r rl k cnt s f c1 out' HN Y A Hk) as [(s' & EA & A' & EO)|(EA & Hmx)].
    + left. exists s'. rewrite PRE, EA. split; [reflexivity|]. split; [exact A'|]. split; [exact EO|exact Hb].
    + right. exists TMaxYear. rewrite PRE, EA. split; [reflexivity|]. right. right. exact Hmx.
Qed.

Lemma spec_loop_beyond_weekly r limit n k cnt acc :
  r_freq r = WEEKLY -> max_ord < wlo r k -> fst (spec_loop r limit n k cnt acc) = acc.
Proof.
  intros Hfr Hk. destruct n as [|n]; cbn [spec_loop]; [reflexivity|].
  destruct (limit <=? zlen acc); [reflexivity|].
  rewrite (step_lo_weekly r k Hfr). replace (max_ord <? wlo r k) with true by lia. reflexivity.
Qed.

Lemma weekly_run_dead_until : forall r rl limit n k cnt s,
  normalize r = Ok rl -> wfam r -> at_pass_w r rl k cnt s -> 0 <= k ->
  sp_after_until r (wlo r k, 0) = true ->
  fst (run rl limit n s) = c_out s.
Proof.
  intros r rl limit n. induction n as [|n IH]; intros k cnt s HN Y A Hk AU; cbn [run].
  - reflexivity.
  - destruct (limit <=? zlen (c_out s)); [reflexivity|].
    pose proof Y as [HW Hfr Hp Hsp Hs He]. pose proof (wf_itv r HW) as Hitv.
    destruct (weekly_step r rl k cnt s HN Y A Hk) as (acc' & cnt' & b & ET & Hcase & Hau).
    specialize (Hau AU).
    destruct Hcase as [(s' & ES & A' & EO & Eb)|(t & ES & _)].
    + rewrite ES. rewrite (IH (k + 1) cnt' s' HN Y A' ltac:(lia)).
      * rewrite EO. exact Hau.
      * apply (after_until_mono r _ _ AU). unfold inst_le. cbn [fst snd]. rewrite wlo_succ. lia.
    + rewrite ES. cbn [fst]. exact Hau.
Qed.

Lemma weekly_run_is_spec : forall r rl limit n k cnt s,
  normalize r = Ok rl -> wfam r -> at_pass_w r rl k cnt s -> 0 <= k ->
  fst (run rl limit n s) = fst (spec_loop r limit n k cnt (c_out s)).
Proof.
  intros r rl limit n. induction n as [|n IH]; intros k cnt s HN Y A Hk.
  - reflexivity.
  - pose proof Y as [HW Hfr Hp Hsp Hs He]. pose proof (wf_itv r HW) as Hitv.
    pose proof A as (Av & Ao & Aw & Ar & At & Ac).
    assert (Hmk : wlo r k <= max_ord).
    { pose proof (ord_of_ymd_range _ _ _ Av) as RR. rewrite Ao in RR. unfold wcur in RR. lia. }
    destruct (sp_after_until r (wlo r k, 0)) eqn:AU.
    + rewrite (weekly_run_dead_until r rl limit (S n) k cnt s HN Y A Hk AU).
      cbn [spec_loop]. destruct (limit <=? zlen (c_out s)); [reflexivity|].
      rewrite (step_lo_weekly r k Hfr).
      replace (max_ord <? wlo r k) with false by lia. rewrite AU. reflexivity.
    + cbn [run spec_loop]. destruct (limit <=? zlen (c_out s)); [reflexivity|].
      rewrite (step_lo_weekly r k Hfr).
      replace (max_ord <? wlo r k) with false by lia. rewrite AU.
      destruct (match cnt with Some c => c <=? 0 | None => false end) eqn:EC.
      * destruct cnt as [c|]; [|discriminate EC].
        assert (D : dead s) by (exists c; split; [exact Ac|lia]).
        pose proof (step_dead rl s D) as SD. destruct (step rl s) as [s'|[out t]].
        -- destruct SD as [E D']. rewrite (run_dead rl limit n s' D'). exact E.
        -- exact SD.
      * destruct (weekly_step r rl k cnt s HN Y A Hk) as (acc' & cnt' & b & ET & Hcase & _).
        rewrite ET. destruct Hcase as [(s' & ES & A' & EO & Eb)|(t & ES & Hb)].
        -- rewrite ES. subst b. rewrite <- EO. apply IH; try assumption. lia.
        -- rewrite ES. cbn [fst]. destruct b; [reflexivity|].
           destruct Hb as [Hb|[UL|Hmx]]; [discriminate Hb| |].
           ++ symmetry. apply (spec_loop_dead_until r limit UL).
           ++ symmetry. apply (spec_loop_beyond_weekly r limit n (k + 1) cnt' acc' Hfr Hmx).
Qed.

(* rrule_iter_correct for the WEEKLY family: every rule, every number n of passes (the week that contains
   9999-12-31 consists of its representable days, fix 8ced7a9) *)
Theorem weekly_iter_correct : forall r rl limit n,
  normalize r = Ok rl -> wfam r ->
  fst (iterate rl limit n) = fst (spec_iter r limit n).
Proof.
  intros r rl limit n HN Y.
  pose proof Y as [HW Hfr Hp Hsp Hs He].
  destruct (normalize_misc r rl HN) as (Ni & Nsp & Ny & Nm & Nd & Nc & Nu).
  pose proof (normalize_freq r rl HN) as Nfr. rewrite Hfr in Nfr.
  pose proof (normalize_wkst r rl HN) as Nwk.
  pose proof (plain_only_no_nth r rl HN Hp) as TN.
  destruct (normalize_fields r rl HN) as (_ & _ & _ & _ & _ & Nea & _).
  assert (TE : truthy (byeaster rl) = false) by (rewrite Nea, He; reflexivity).
  assert (Hwf : 1 <= r_interval r /\ 0 <= r_wkst r <= 6 /\ valid_ymd (r_y r) (r_m r) (r_d r) = true).
  { pose proof HW as HW'. unfold spec_wf in HW'.
    repeat match type of HW' with _ && _ = true =>
      let H := fresh "W" in apply andb_true_iff in HW'; destruct HW' as [HW' H] end.
    unfold between in *. split; [lia|]. split; [lia|assumption]. }
  destruct Hwf as (Hitv & Hwk & V).
  destruct (index_in_year _ _ _ V) as (_ & _ & Hy0).
  destruct (rebuild_succeeds rl (r_y r) (r_m r) Hy0 ltac:(rewrite Nwk; exact Hwk) TN (or_introl TE)) as (ii0 & R0).
  pose proof (timeset_is_spec r rl HN HW ltac:(rewrite Hfr; reflexivity)) as HT.
  unfold iterate, init_state. rewrite Nfr, Nsp, Hsp. change (WEEKLY =? WEEKLY) with true.
  cbn [truthy andb]. cbv iota.
  rewrite Ny, Nm, Nd, R0. cbn [bind].
  change (WEEKLY <? HOURLY) with true. cbv iota. rewrite HT. cbn [bind]. rewrite Nc.
  unfold spec_iter.
  set (s0 := mkSt _ _ _ _ _ _ _ _ _ _ _).
  assert (C0 : wcur r 0 = sp_ord0 r).
  { destruct (wcur_cases r 0 Hitv Hwk ltac:(lia)) as [(_ & E & _)|(H & _)]; [exact E|lia]. }
  assert (A0 : at_pass_w r rl 0 (r_count r) s0).
  { unfold at_pass_w, s0. cbn [c_year c_month c_day c_weekday c_ii c_timeset c_count].
    split; [exact V|]. split; [rewrite C0; reflexivity|]. split; [rewrite C0; reflexivity|].
    split; [exact R0|]. split; reflexivity. }
  assert (Q : fst (run rl limit n s0) = fst (spec_loop r limit n 0 (r_count r) (c_out s0))).
  { apply (weekly_run_is_spec r rl limit n 0 (r_count r) s0 HN Y A0 ltac:(lia)). }
  change (c_out s0) with (@nil instant) in Q.
  destruct (run rl limit n s0) as [out t]. destruct (spec_loop r limit n 0 (r_count r) []) as [acc t'].
  cbn [fst] in *. rewrite Q. reflexivity.
Qed.

(* non-vacuity: rrule(WEEKLY, dtstart=datetime(2024,12,26,9,0) (a Thursday), interval=2, wkst=SU,
   byweekday=(TU,TH,SA), bymonth=(1,12), count=5): the first period starts mid-week and straddles
   nothing, the second one (5..11 January) is reached across the year end *)
Definition raw_weekly_example : raw :=
  mkRaw WEEKLY false 2024 12 26 9 0 0 2 6 (Some 5) None false
        None (Some [1; 12]) None None None None (Some [(1, 0); (3, 0); (5, 0)]) None None None.
Example weekly_example :
  wfam raw_weekly_example /\
  match normalize raw_weekly_example with
  | Ok rl => fst (iterate rl 100 40) =
             [(ord_of_ymd 2024 12 26, 32400); (ord_of_ymd 2024 12 28, 32400); (ord_of_ymd 2025 1 7, 32400);
              (ord_of_ymd 2025 1 9, 32400); (ord_of_ymd 2025 1 11, 32400)]
  | Err _ => False
  end.
Proof. split; [constructor; reflexivity|vm_compute; reflexivity]. Qed.
