(* C01 -- nth weekdays NEXT TO BYEASTER (YEARLY / MONTHLY): the rebuild lemmas of RRMonthlyNthThm / RRYearlyFullThm /
   RRYearlyMonthNthThm without the assumption `truthy (byeaster rl) = false`, the filter theorem for YEARLY + BYMONTH
   + nth weekdays with the Easter clause, and the loop theorems inside C19's year range. *)
From Coq Require Import ZArith List Bool Lia ZifyBool.
From V Require Import base.Cal gen.RrTables rr.RRBase rr.RRNorm rr.RRMasks rr.RRIter rr.RRSpec
  rr.RROverlay rr.RRTablesThm rr.RRWeekDefs rr.RRWeekThm rr.RRWeekCal rr.RRWeekFinal rr.RRWeekTop rr.RREasterThm
  rr.RRNwdThm rr.RRNwdCal rr.RRFilterThm rr.RRFilterSpec rr.RRGateThm rr.RRTimesetThm
  rr.RRDaysetThm rr.RRAdvanceThm rr.RRIterThm rr.RRPassThm rr.RRYearlyThm rr.RRYearlyEasterThm
  rr.RRCountThm rr.RRYearlyCountThm rr.RRYearlyUntilThm rr.RRDailyThm rr.RRMonthlyThm rr.RRSetposThm
  rr.RRCoarseRun rr.RRMonthlyFullThm rr.RRMonthlyNthThm rr.RRYearlyFullThm rr.RRYearlyMonthNthThm.
Import ListNotations.
Ltac Zify.zify_post_hook ::= Z.to_euclidean_division_equations.
Open Scope Z_scope.

(* ------------------------------------------------------------------ MONTHLY *)
Theorem rebuild_nth_same_year_e : forall rl y m0 m ii,
  rebuild rl ii_init y m0 = Ok ii -> 1 <= y <= 9999 -> freq rl = MONTHLY ->
  truthy (bynweekday rl) = true -> m <> m0 ->
  rebuild rl ii y m = rebuild rl ii_init y m.
Proof.
  intros rl y m0 m ii HR Hy Nfr TN Hne.
  revert HR. unfold rebuild at 1.
  destruct (is_leap y) eqn:L0; destruct (is_leap (y + 1)) eqn:L1.
  all: change (lastyear ii_init) with (@None Z); change (opt_neqb None y) with true; cbv iota.
  all: change (lastmonth ii_init) with (@None Z); change (opt_neqb None m0) with true.
  all: destruct (date_ord y 1 1) as [yo|e] eqn:ED; cbn [bind]; [|discriminate].
  all: match goal with |- context [if ?c then (T_M365MASK, _, _, _) else _] =>
         destruct (if c then (T_M365MASK, T_MDAY365MASK, T_NMDAY365MASK, T_M365RANGE)
                   else (T_M366MASK, T_MDAY366MASK, T_NMDAY366MASK, T_M366RANGE)) as [[[mm mdm] nmdm] mr] eqn:ET end.
  all: destruct (if negb (truthy (byweekno rl)) then _ else _) as [wno|e] eqn:EW; cbn [bind]; [|discriminate].
  all: rewrite TN, Nfr; cbn [andb orb bind nwdaymask eastermask yearordinal yearlen mrange wdaymask].
  all: change (MONTHLY =? YEARLY) with false; change (MONTHLY =? MONTHLY) with true; cbv iota; cbn [nonempty].
  all: destruct (fold_res _ _ _) as [nm|e] eqn:EF; cbn [bind]; [|discriminate].
  all: destruct (truthy (byeaster rl)) eqn:TE.
  all: try (destruct (RRMasks.easter_ord y) as [eo|e] eqn:EO; cbn [bind]; [|discriminate];
            destruct (if y <? T_MAXYEAR then _ else _) as [ne|e] eqn:EN; cbn [bind]; [|discriminate];
            destruct (build_eastermask _ _ _ _) as [em|e] eqn:EB; cbn [bind]; [|discriminate]).
  all: cbn [bind]; intros E; injection E as E; rewrite <- E; clear E ii.
  all: unfold rebuild; cbn [lastyear lastmonth yearlen nextyearlen yearordinal yearweekday mmask mrange
         mdaymask nmdaymask wdaymask wnomask nwdaymask eastermask].
  all: unfold opt_neqb at 1; rewrite Z.eqb_refl; cbn [negb].
  all: change (lastyear ii_init) with (@None Z); change (opt_neqb None y) with true; cbv iota.
  all: change (lastmonth ii_init) with (@None Z); change (opt_neqb None m) with true.
  all: rewrite ?L0, ?L1, ED; cbn [bind]; rewrite ?ET, EW; cbn [bind]; rewrite TN, TE, Nfr;
       cbn [andb orb bind nwdaymask eastermask yearordinal yearlen mrange wdaymask lastyear lastmonth].
  all: change (MONTHLY =? YEARLY) with false; change (MONTHLY =? MONTHLY) with true; cbv iota; cbn [nonempty].
  all: replace (opt_neqb (Some m0) m) with true
         by (symmetry; unfold opt_neqb; apply negb_true_iff; apply Z.eqb_neq; lia).
  all: unfold opt_neqb; rewrite ?Z.eqb_refl; cbn [negb orb].
  all: change (365 + 1) with 366 in *; change (365 + 0) with 365 in *.
  all: rewrite ?EF; cbn [bind].
  all: try (rewrite EO; cbn [bind]; rewrite EN; cbn [bind]; rewrite EB).
  all: reflexivity.
Qed.

Theorem rebuild_nth_other_year_e : forall rl ii y m,
  opt_neqb (lastyear ii) y = true -> freq rl = MONTHLY -> truthy (bynweekday rl) = true ->
  (truthy (byeaster rl) = true \/ eastermask ii = None) ->
  rebuild rl ii y m = rebuild rl ii_init y m.
Proof.
  intros rl ii y m HL Nfr TN HE. unfold rebuild. rewrite HL, TN, Nfr.
  change (lastyear ii_init) with (@None Z). change (opt_neqb None y) with true. cbv iota.
  change (lastmonth ii_init) with (@None Z). change (opt_neqb None m) with true.
  rewrite orb_true_r. cbn [andb orb].
  change (MONTHLY =? YEARLY) with false. change (MONTHLY =? MONTHLY) with true. cbv iota.
  destruct (date_ord y 1 1) as [yo|e]; cbn [bind]; [|reflexivity].
  destruct (if 365 + (if is_leap y then 1 else 0) =? 365 then _ else _) as [[[mm mdm] nmdm] mr].
  destruct (if negb (truthy (byweekno rl)) then _ else _) as [wno|e]; cbn [bind]; [|reflexivity].
  cbn [nwdaymask eastermask yearordinal yearlen nextyearlen yearweekday mmask mrange mdaymask nmdaymask
       wdaymask wnomask nonempty].
  change (eastermask ii_init) with (@None (list Z)).
  destruct (fold_res _ _ _) as [nm|e]; cbn [bind]; [|reflexivity].
  destruct (truthy (byeaster rl)) eqn:TE.
  - destruct (RRMasks.easter_ord y) as [eo|e]; cbn [bind]; [|reflexivity].
    destruct (if y <? T_MAXYEAR then _ else _) as [ne|e]; cbn [bind]; [|reflexivity].
    destruct (build_eastermask _ _ _ _); cbn [bind]; reflexivity.
  - destruct HE as [HE|HE]; [discriminate HE|]. rewrite HE. reflexivity.
Qed.

(* the Easter block of rebuild() succeeds inside C19's range *)
Lemma easter_block_ok rl y yo ylen : truthy (byeaster rl) = false \/ 1583 <= y <= 4098 -> yo = jan1 y ->
  ylen = year_len y ->
  exists em,
    (if truthy (byeaster rl) then
       do eo <- RRMasks.easter_ord y;
       do ne <- (if y <? T_MAXYEAR then do eo2 <- RRMasks.easter_ord (y + 1); Ok (Some (eo2 - yo)) else Ok None);
       do m <- build_eastermask (eo - yo) ne ylen (opt_list (byeaster rl));
       Ok (Some m)
     else Ok (@None (list Z))) = Ok em.
Proof.
  intros HE -> ->. destruct (truthy (byeaster rl)) eqn:TE; [|eexists; reflexivity].
  destruct HE as [HE|HE]; [discriminate HE|].
  rewrite (easter_ord_is_spec y ltac:(lia)). cbn [bind].
  unfold T_MAXYEAR. replace (y <? 9999) with true by lia.
  rewrite (easter_ord_is_spec (y + 1) ltac:(lia)). cbn [bind].
  destruct (eastermask_fold_correct (easter_ord_spec y - jan1 y) (Some (easter_ord_spec (y + 1) - jan1 y))
              (year_len y) (opt_list (byeaster rl))
              ltac:(unfold year_len; destruct (is_leap y); lia)) as (m & Em & _).
  rewrite Em. cbn [bind]. eexists; reflexivity.
Qed.

Theorem rebuild_nth_succeeds_e : forall rl y month,
  1 <= y <= 9999 -> 1 <= month <= 12 -> 0 <= wkst rl <= 6 -> freq rl = MONTHLY ->
  truthy (bynweekday rl) = true -> (truthy (byeaster rl) = false \/ 1583 <= y <= 4098) ->
  (forall wn, In wn (opt_list (bynweekday rl)) -> pair_ok wn) ->
  exists ii', rebuild rl ii_init y month = Ok ii'.
Proof.
  intros rl y month Hy Hm Hk Nfr TN HE PK. unfold rebuild.
  change (lastyear ii_init) with (@None Z). change (opt_neqb None y) with true. cbv iota.
  change (lastmonth ii_init) with (@None Z). change (opt_neqb None month) with true.
  unfold date_ord. assert (V : valid_ymd y 1 1 = true) by (unfold valid_ymd; change (dim y 1) with 31; lia).
  rewrite V. cbn [bind]. fold (jan1 y). rewrite !year_len_365.
  assert (T : (if year_len y =? 365
               then (T_M365MASK, T_MDAY365MASK, T_NMDAY365MASK, T_M365RANGE)
               else (T_M366MASK, T_MDAY366MASK, T_NMDAY366MASK, T_M366RANGE)) =
              (fst (fst (fst (masks_for y))), snd (fst (fst (masks_for y))), snd (fst (masks_for y)),
               RRNwdCal.mrange_of (is_leap y))).
  { unfold masks_for, tables_of, RRNwdCal.mrange_of, year_len. destruct (is_leap y); reflexivity. }
  rewrite T. clear T.
  assert (W : exists wno,
     (if negb (truthy (byweekno rl)) then Ok None
      else do m <- build_wnomask y (year_len y) (year_len (y + 1)) (weekday_of_ord (jan1 y)) (wkst rl)
                     (py_from T_WDAYMASK (weekday_of_ord (jan1 y))) (opt_list (byweekno rl));
           Ok (Some m)) = Ok wno).
  { destruct (negb (truthy (byweekno rl))); [eexists; reflexivity|].
    destruct (wnomask_no_index_error_calendar y (wkst rl) (opt_list (byweekno rl)) Hk) as (m & Em).
    cbv zeta in Em. rewrite Em. cbn [bind]. eexists; reflexivity. }
  destruct W as (wno & Ew). rewrite Ew. cbn [bind]. rewrite TN, Nfr. cbn [andb orb yearlen mrange wdaymask].
  change (MONTHLY =? YEARLY) with false. change (MONTHLY =? MONTHLY) with true. cbv iota.
  cbn [nonempty]. unfold py_repeat. fold (zeros (Z.to_nat (year_len y))).
  fold (wdm_of (weekday_of_ord (jan1 y))).
  destruct (nwdaymask_monthly_calendar y month (opt_list (bynweekday rl)) Hm PK) as (m' & Ef' & _).
  cbv zeta in Ef'. rewrite Ef'. cbn [bind yearordinal yearlen eastermask].
  destruct (easter_block_ok rl y (jan1 y) (year_len y) HE eq_refl eq_refl) as (em & Eem).
  change (eastermask ii_init) with (@None (list Z)). rewrite Eem. cbn [bind]. eexists; reflexivity.
Qed.

(* ------------------------------------------------------------------ YEARLY, no BYMONTH *)
Theorem rebuild_nth_other_year_y_e : forall rl ii y m,
  opt_neqb (lastyear ii) y = true -> freq rl = YEARLY -> truthy (bymonth rl) = false ->
  truthy (bynweekday rl) = true -> (truthy (byeaster rl) = true \/ eastermask ii = None) ->
  rebuild rl ii y m = rebuild rl ii_init y m.
Proof.
  intros rl ii y m HL Nfr TB TN HE. unfold rebuild. rewrite HL, TN, TB, Nfr.
  change (lastyear ii_init) with (@None Z). change (opt_neqb None y) with true. cbv iota.
  change (lastmonth ii_init) with (@None Z). change (opt_neqb None m) with true.
  rewrite orb_true_r. cbn [andb orb].
  change (YEARLY =? YEARLY) with true. cbv iota.
  destruct (date_ord y 1 1) as [yo|e]; cbn [bind]; [|reflexivity].
  destruct (if 365 + (if is_leap y then 1 else 0) =? 365 then _ else _) as [[[mm mdm] nmdm] mr].
  destruct (if negb (truthy (byweekno rl)) then _ else _) as [wno|e]; cbn [bind]; [|reflexivity].
  cbn [nwdaymask eastermask yearordinal yearlen nextyearlen yearweekday mmask mrange mdaymask nmdaymask
       wdaymask wnomask nonempty].
  change (eastermask ii_init) with (@None (list Z)).
  destruct (fold_res _ _ _) as [nm|e]; cbn [bind]; [|reflexivity].
  destruct (truthy (byeaster rl)) eqn:TE.
  - destruct (RRMasks.easter_ord y) as [eo|e]; cbn [bind]; [|reflexivity].
    destruct (if y <? T_MAXYEAR then _ else _) as [ne|e]; cbn [bind]; [|reflexivity].
    destruct (build_eastermask _ _ _ _); cbn [bind]; reflexivity.
  - destruct HE as [HE|HE]; [discriminate HE|]. rewrite HE. reflexivity.
Qed.

Theorem rebuild_nth_succeeds_y_e : forall rl y month,
  1 <= y <= 9999 -> 0 <= wkst rl <= 6 -> freq rl = YEARLY -> truthy (bymonth rl) = false ->
  truthy (bynweekday rl) = true -> (truthy (byeaster rl) = false \/ 1583 <= y <= 4098) ->
  (forall wn, In wn (opt_list (bynweekday rl)) -> pair_ok wn) ->
  exists ii', rebuild rl ii_init y month = Ok ii'.
Proof.
  intros rl y month Hy Hk Nfr TB TN HE PK. unfold rebuild.
  change (lastyear ii_init) with (@None Z). change (opt_neqb None y) with true. cbv iota.
  change (lastmonth ii_init) with (@None Z). change (opt_neqb None month) with true.
  unfold date_ord. assert (V : valid_ymd y 1 1 = true) by (unfold valid_ymd; change (dim y 1) with 31; lia).
  rewrite V. cbn [bind]. fold (jan1 y). rewrite !year_len_365.
  destruct (if year_len y =? 365 then _ else _) as [[[mm mdm] nmdm] mr].
  assert (W : exists wno,
     (if negb (truthy (byweekno rl)) then Ok None
      else do m <- build_wnomask y (year_len y) (year_len (y + 1)) (weekday_of_ord (jan1 y)) (wkst rl)
                     (py_from T_WDAYMASK (weekday_of_ord (jan1 y))) (opt_list (byweekno rl));
           Ok (Some m)) = Ok wno).
  { destruct (negb (truthy (byweekno rl))); [eexists; reflexivity|].
    destruct (wnomask_no_index_error_calendar y (wkst rl) (opt_list (byweekno rl)) Hk) as (m & Em).
    cbv zeta in Em. rewrite Em. cbn [bind]. eexists; reflexivity. }
  destruct W as (wno & Ew). rewrite Ew. cbn [bind]. rewrite TN, TB, Nfr. cbn [andb orb yearlen mrange wdaymask].
  change (YEARLY =? YEARLY) with true. cbv iota.
  cbn [nonempty]. unfold py_repeat. fold (zeros (Z.to_nat (year_len y))).
  fold (wdm_of (weekday_of_ord (jan1 y))).
  destruct (nwdaymask_yearly_calendar y (opt_list (bynweekday rl)) PK) as (m' & Ef' & _).
  cbv zeta in Ef'. rewrite Ef'. cbn [bind yearordinal yearlen eastermask].
  destruct (easter_block_ok rl y (jan1 y) (year_len y) HE eq_refl eq_refl) as (em & Eem).
  change (eastermask ii_init) with (@None (list Z)). rewrite Eem. cbn [bind]. eexists; reflexivity.
Qed.

(* ------------------------------------------------------------------ YEARLY with BYMONTH *)
Theorem rebuild_nth_other_year_ym_e : forall rl ii y m,
  opt_neqb (lastyear ii) y = true -> freq rl = YEARLY -> truthy (bymonth rl) = true ->
  truthy (bynweekday rl) = true -> (truthy (byeaster rl) = true \/ eastermask ii = None) ->
  rebuild rl ii y m = rebuild rl ii_init y m.
Proof.
  intros rl ii y m HL Nfr TB TN HE. unfold rebuild. rewrite HL, TN, TB, Nfr.
  change (lastyear ii_init) with (@None Z). change (opt_neqb None y) with true. cbv iota.
  change (lastmonth ii_init) with (@None Z). change (opt_neqb None m) with true.
  rewrite orb_true_r. cbn [andb orb].
  change (YEARLY =? YEARLY) with true. cbv iota.
  destruct (date_ord y 1 1) as [yo|e]; cbn [bind]; [|reflexivity].
  destruct (if 365 + (if is_leap y then 1 else 0) =? 365 then _ else _) as [[[mm mdm] nmdm] mr].
  destruct (if negb (truthy (byweekno rl)) then _ else _) as [wno|e]; cbn [bind]; [|reflexivity].
  cbn [nwdaymask eastermask yearordinal yearlen nextyearlen yearweekday mmask mrange mdaymask nmdaymask
       wdaymask wnomask].
  change (eastermask ii_init) with (@None (list Z)).
  assert (NE : nonempty (map (fun m0 => py_slice mr (m0 - 1) (m0 + 1)) (opt_list (bymonth rl))) = true).
  { destruct (bymonth rl) as [[|h t]|]; try discriminate TB. reflexivity. }
  rewrite NE. destruct (fold_res _ _ _) as [nm|e]; cbn [bind]; [|reflexivity].
  destruct (truthy (byeaster rl)) eqn:TE.
  - destruct (RRMasks.easter_ord y) as [eo|e]; cbn [bind]; [|reflexivity].
    destruct (if y <? T_MAXYEAR then _ else _) as [ne|e]; cbn [bind]; [|reflexivity].
    destruct (build_eastermask _ _ _ _); cbn [bind]; reflexivity.
  - destruct HE as [HE|HE]; [discriminate HE|]. rewrite HE. reflexivity.
Qed.

Theorem rebuild_nth_succeeds_ym_e : forall rl y month,
  1 <= y <= 9999 -> 0 <= wkst rl <= 6 -> freq rl = YEARLY -> truthy (bymonth rl) = true ->
  (forall mo, In mo (opt_list (bymonth rl)) -> 1 <= mo <= 12) ->
  truthy (bynweekday rl) = true -> (truthy (byeaster rl) = false \/ 1583 <= y <= 4098) ->
  (forall wn, In wn (opt_list (bynweekday rl)) -> pair_ok wn) ->
  exists ii', rebuild rl ii_init y month = Ok ii'.
Proof.
  intros rl y month Hy Hk Nfr TB RM TN HE PK. unfold rebuild.
  change (lastyear ii_init) with (@None Z). change (opt_neqb None y) with true. cbv iota.
  change (lastmonth ii_init) with (@None Z). change (opt_neqb None month) with true.
  unfold date_ord. assert (V : valid_ymd y 1 1 = true) by (unfold valid_ymd; change (dim y 1) with 31; lia).
  rewrite V. cbn [bind]. fold (jan1 y). rewrite !year_len_365.
  assert (T : (if year_len y =? 365
               then (T_M365MASK, T_MDAY365MASK, T_NMDAY365MASK, T_M365RANGE)
               else (T_M366MASK, T_MDAY366MASK, T_NMDAY366MASK, T_M366RANGE)) =
              (fst (fst (fst (masks_for y))), snd (fst (fst (masks_for y))), snd (fst (masks_for y)),
               RRNwdCal.mrange_of (is_leap y))).
  { unfold masks_for, tables_of, RRNwdCal.mrange_of, year_len. destruct (is_leap y); reflexivity. }
  rewrite T. clear T.
  assert (W : exists wno,
     (if negb (truthy (byweekno rl)) then Ok None
      else do m <- build_wnomask y (year_len y) (year_len (y + 1)) (weekday_of_ord (jan1 y)) (wkst rl)
                     (py_from T_WDAYMASK (weekday_of_ord (jan1 y))) (opt_list (byweekno rl));
           Ok (Some m)) = Ok wno).
  { destruct (negb (truthy (byweekno rl))); [eexists; reflexivity|].
    destruct (wnomask_no_index_error_calendar y (wkst rl) (opt_list (byweekno rl)) Hk) as (m & Em).
    cbv zeta in Em. rewrite Em. cbn [bind]. eexists; reflexivity. }
  destruct W as (wno & Ew). rewrite Ew. cbn [bind]. rewrite TN, TB, Nfr. cbn [andb orb yearlen mrange wdaymask].
  change (YEARLY =? YEARLY) with true. cbv iota.
  fold (month_ranges y (opt_list (bymonth rl))).
  assert (NE : nonempty (month_ranges y (opt_list (bymonth rl))) = true).
  { unfold month_ranges. destruct (bymonth rl) as [[|h t]|]; try discriminate TB. reflexivity. }
  rewrite NE. unfold py_repeat. fold (zeros (Z.to_nat (year_len y))).
  fold (wdm_of (weekday_of_ord (jan1 y))).
  destruct (nwdaymask_months_calendar y (opt_list (bymonth rl)) (opt_list (bynweekday rl)) RM PK) as (m' & Ef' & _).
  cbv zeta in Ef'. rewrite Ef'. cbn [bind yearordinal yearlen eastermask].
  destruct (easter_block_ok rl y (jan1 y) (year_len y) HE eq_refl eq_refl) as (em & Eem).
  change (eastermask ii_init) with (@None (list Z)). rewrite Eem. cbn [bind]. eexists; reflexivity.
Qed.

(* the Easter clause on the year's own days (stand-alone form) *)
Lemma easter_clause_ok r rl y month ii i :
  normalize r = Ok rl -> spec_wf r = true -> (r_byeaster r = None \/ 1583 <= y <= 4098) ->
  1 <= y <= 9999 -> rebuild rl ii_init y month = Ok ii -> 0 <= i < year_len y ->
  cl_easter rl ii i = Ok (negb (in_opt (r_byeaster r) (easter_lambda y (jan1 y + i)))).
Proof.
  intros HN HW He Hy HR Hi.
  destruct (normalize_fields r rl HN) as (_ & _ & _ & _ & _ & Nea & _).
  unfold spec_wf in HW.
  repeat match type of HW with _ && _ = true =>
    let H := fresh "W" in apply andb_true_iff in HW; destruct HW as [HW H] end.
  unfold cl_easter. rewrite Nea.
  destruct (r_byeaster r) as [l|] eqn:EL; [|reflexivity].
  destruct He as [He|He]; [discriminate He|].
  assert (NE : nonempty l = true).
  { match goal with H : ne_opt (Some l) = true |- _ => destruct l; [discriminate H|reflexivity] end. }
  assert (TT : truthy (option_map sortZ (Some l)) = true).
  { cbn [option_map truthy]. pose proof (sortZ_nonempty l) as SN. rewrite NE in SN.
    destruct (sortZ l); [discriminate SN|reflexivity]. }
  rewrite TT.
  destruct (rebuild_easter rl y month ii ltac:(lia) HR ltac:(rewrite Nea; exact TT))
    as (eo & eo2 & m & Eo & Eo2 & Em & Eb).
  rewrite Em. rewrite Nea in Eb. cbn [option_map opt_list] in Eb.
  destruct (eastermask_correct_calendar y (sortZ l) ltac:(lia) ltac:(lia))
    as (eo' & eo2' & m' & Eo' & Eo2' & Eb' & Pm).
  cbv zeta in Eb', Pm. fold (jan1 y) in Eb', Pm.
  rewrite Eo in Eo'. injection Eo' as <-. rewrite Eo2 in Eo2'. injection Eo2' as <-.
  rewrite Eb in Eb'. injection Eb' as <-.
  assert (Lm : zlen m = year_len y + 7).
  { destruct (eastermask_fold_correct (eo - jan1 y) (Some (eo2 - jan1 y)) (year_len y) (sortZ l)
                ltac:(unfold year_len; destruct (is_leap y); lia)) as (m2 & E2 & L2 & _).
    rewrite Eb in E2. injection E2 as <-. exact L2. }
  rewrite (py_nth_nth m i) by lia. cbn [bind].
  specialize (Pm i ltac:(lia)). replace (i <? year_len y) with true in Pm by lia.
  unfold RRWeekThm.nzb in Pm.
  f_equal. cbn [in_opt]. rewrite <- (existsb_sortZ (easter_lambda y (jan1 y + i)) l).
  replace (nth (Z.to_nat i) m 0 =? 0) with (negb (negb (nth (Z.to_nat i) m 0 =? 0)))
    by apply negb_involutive.
  f_equal. rewrite Pm. reflexivity.
Qed.

(* day_filter_correct for YEARLY + BYMONTH + nth weekdays, with the Easter clause *)
Theorem day_filter_correct_yearly_bymonth_nth_e : forall r rl y month ii i lm,
  normalize r = Ok rl -> spec_wf r = true -> r_freq r = YEARLY -> r_bymonth r = Some lm ->
  truthy (bynweekday rl) = true -> all_opt (r_byweekno r) weekno_safe = true ->
  (r_byeaster r = None \/ 1583 <= y <= 4098) ->
  1 <= y <= 9999 -> rebuild rl ii_init y month = Ok ii -> 0 <= i < year_len y ->
  day_rejected rl ii i = Ok (negb (day_ok r (jan1 y + i))).
Proof.
  intros r rl y month ii i lm HN HW Hfr Hbm TN Hs He Hy HR Hi.
  destruct (normalize_fields r rl HN) as (Nm & _ & _ & _ & _ & Nea & _).
  pose proof (rebuild_ii_for rl y month ii Hy HR) as F.
  destruct (memZ (month_at y i) lm) eqn:Hmem.
  - apply (day_filter_core r rl ii y i HN HW F Hy Hi).
    + apply (weekday_nth_clause_yearly_months r rl y month ii i lm HN HW Hfr Hbm TN Hy HR Hi Hmem).
    + apply (weekno_clause_ok r rl y month ii i HN HW Hs Hy HR Hi).
    + apply (easter_clause_ok r rl y month ii i HN HW He Hy HR Hi).
  - (* a day outside the BYMONTH months: rejected by the first clause, and by the specification *)
    assert (EBM : bymonth rl = Some (sort_set lm)).
    { rewrite Nm. unfold eff_bymonth. rewrite Hbm. reflexivity. }
    assert (NEl : lm <> []).
    { pose proof HW as HW'. unfold spec_wf in HW'.
      repeat match type of HW' with _ && _ = true =>
        let H := fresh "W" in apply andb_true_iff in HW'; destruct HW' as [HW' H] end.
      assert (NE : ne_opt (r_bymonth r) = true) by assumption. rewrite Hbm in NE.
      destruct lm; [discriminate NE|discriminate]. }
    assert (TB : truthy (bymonth rl) = true).
    { rewrite EBM. cbn [truthy]. pose proof (sort_set_nonempty lm) as SN.
      destruct lm; [contradiction|]. cbn [nonempty] in SN. destruct (sort_set (z :: lm)); [discriminate SN|reflexivity]. }
    unfold day_rejected. rewrite (cl_month_correct rl ii y F i Hi), TB, EBM. cbn [opt_list andb].
    rewrite memZ_sort_set, Hmem. cbn [negb].
    destruct (ymd_at y i Hi) as [EY _].
    unfold day_ok. rewrite EY. unfold eff_bymonth. rewrite Hbm. cbn [in_opt].
    assert (EX : existsb (Z.eqb (month_at y i)) lm = false).
    { unfold memZ in Hmem. exact Hmem. }
    rewrite EX. reflexivity.
Qed.

(* ------------------------------------------------------------------ the loop theorems *)
Record mfam_ea (r : raw) : Prop := mk_mfam_ea {
  mea_wf : spec_wf r = true;
  mea_freq : r_freq r = MONTHLY;
  mea_weekno : all_opt (r_byweekno r) weekno_safe = true
}.

(* every MONTHLY rule of the domain (BYEASTER allowed), passes inside C19's year range *)
Theorem monthly_easter_iter_correct_all : forall r rl limit n,
  normalize r = Ok rl -> mfam_ea r -> 1583 <= r_y r <= 4098 ->
  (forall j, 0 <= j < Z.of_nat n -> midx r (j + 1) / 12 <= 4098) ->
  fst (iterate rl limit n) = fst (spec_iter r limit n).
Proof.
  intros r rl limit n HN [HW Hfr Hs] Hr0 Hn.
  destruct (plain_only r) eqn:Hp.
  { apply (monthly_easter_iter_correct r rl limit n HN); [constructor; assumption|exact Hr0|exact Hn]. }
  pose proof (normalize_wkst r rl HN) as Nwk.
  pose proof (normalize_freq r rl HN) as Nfr. rewrite Hfr in Nfr.
  pose proof (not_plain_has_nth r rl HN ltac:(rewrite Hfr; reflexivity) Hp) as TN.
  pose proof (nth_pairs_ok r rl HN HW ltac:(rewrite Hfr; reflexivity)) as PK.
  assert (Hwk : 0 <= wkst rl <= 6).
  { rewrite Nwk. pose proof HW as HW'. unfold spec_wf in HW'.
    repeat match type of HW' with _ && _ = true =>
      let H := fresh "W" in apply andb_true_iff in HW'; destruct HW' as [HW' H] end.
    unfold between in *. lia. }
  apply (monthly_iter_correct2 r rl HN HW Hfr 1583 4098).
  - intros y m Hy Hm. apply (rebuild_nth_succeeds_e rl y m ltac:(lia) Hm Hwk Nfr TN (or_intror Hy) PK).
  - intros y m ii y' m' Hy Hm Ar Hy' Hm' Hne.
    destruct (Z.eq_dec y' y) as [->|Hney].
    + apply (rebuild_nth_same_year_e rl y m m' ii Ar ltac:(lia) Nfr TN). destruct Hne as [H|H]; [contradiction|exact H].
    + destruct (rebuild_slots rl y m ii ltac:(lia) Ar) as (LY & EM).
      apply rebuild_nth_other_year_e; [|exact Nfr|exact TN|].
      * rewrite LY. unfold opt_neqb. apply negb_true_iff. apply Z.eqb_neq. lia.
      * destruct (truthy (byeaster rl)) eqn:TE; [left; reflexivity|right; apply EM; reflexivity].
  - intros y m ii i Hy Hm Ar Hi.
    apply (day_filter_correct_monthly_nth_guarded r rl y m ii i HN HW Hfr TN Hs (or_intror Hy) ltac:(lia) Hm Ar Hi).
  - exact Hr0.
  - intros j Hj. unfold okp_m. left. apply Hn. exact Hj.
Qed.

Record yfam_ea (r : raw) : Prop := mk_yfam_ea {
  yea_wf : spec_wf r = true;
  yea_freq : r_freq r = YEARLY;
  yea_weekno : all_opt (r_byweekno r) weekno_safe = true
}.

(* every YEARLY rule of the domain (BYEASTER allowed), passes inside C19's year range *)
Theorem yearly_easter_iter_correct_all : forall r rl limit n,
  normalize r = Ok rl -> yfam_ea r -> 1583 <= r_y r <= 4098 ->
  (forall j, 0 <= j < Z.of_nat n -> r_y r + (j + 1) * r_interval r <= 4098) ->
  fst (iterate rl limit n) = fst (spec_iter r limit n).
Proof.
  intros r rl limit n HN [HW Hfr Hs] Hr0 Hn.
  destruct (plain_only r) eqn:Hp.
  { apply (yearly_easter_iter_correct r rl limit n HN); [constructor; assumption|exact Hr0|exact Hn]. }
  pose proof (normalize_wkst r rl HN) as Nwk.
  pose proof (normalize_freq r rl HN) as Nfr. rewrite Hfr in Nfr.
  pose proof (not_plain_has_nth r rl HN ltac:(rewrite Hfr; reflexivity) Hp) as TN.
  pose proof (nth_pairs_ok r rl HN HW ltac:(rewrite Hfr; reflexivity)) as PK.
  destruct (normalize_fields r rl HN) as (Nm & _ & _ & _ & _ & _ & _).
  assert (Hwk : 0 <= wkst rl <= 6).
  { rewrite Nwk. pose proof HW as HW'. unfold spec_wf in HW'.
    repeat match type of HW' with _ && _ = true =>
      let H := fresh "W" in apply andb_true_iff in HW'; destruct HW' as [HW' H] end.
    unfold between in *. lia. }
  destruct (r_bymonth r) as [lm|] eqn:Hbm.
  - assert (EBM : bymonth rl = Some (sort_set lm)).
    { rewrite Nm. unfold eff_bymonth. rewrite Hbm. reflexivity. }
    pose proof HW as HW'. unfold spec_wf in HW'.
    repeat match type of HW' with _ && _ = true =>
      let H := fresh "W" in apply andb_true_iff in HW'; destruct HW' as [HW' H] end.
    assert (AM : all_opt (r_bymonth r) (between 1 12) = true) by assumption.
    assert (NEm : ne_opt (r_bymonth r) = true) by assumption.
    rewrite Hbm in AM, NEm.
    assert (TB : truthy (bymonth rl) = true).
    { rewrite EBM. cbn [truthy]. pose proof (sort_set_nonempty lm) as SN.
      destruct lm; [discriminate NEm|]. cbn [nonempty] in SN. destruct (sort_set (z :: lm)); [discriminate SN|reflexivity]. }
    assert (RM : forall mo, In mo (opt_list (bymonth rl)) -> 1 <= mo <= 12).
    { rewrite EBM. cbn [opt_list]. intros mo Hmo. apply (proj1 (In_sort_set' mo lm)) in Hmo. cbn [all_opt] in AM.
      rewrite forallb_forall in AM. specialize (AM mo Hmo). unfold between in AM. lia. }
    apply (yearly_iter_correct2 r rl HN HW Hfr 1583 4098).
    + intros y m Hy. apply (rebuild_nth_succeeds_ym_e rl y m ltac:(lia) Hwk Nfr TB RM TN (or_intror Hy) PK).
    + intros y m ii y' Hy Ar Hy' Hne.
      destruct (rebuild_slots rl y m ii ltac:(lia) Ar) as (LY & EM).
      apply rebuild_nth_other_year_ym_e; [|exact Nfr|exact TB|exact TN|].
      * rewrite LY. unfold opt_neqb. apply negb_true_iff. apply Z.eqb_neq. lia.
      * destruct (truthy (byeaster rl)) eqn:TE; [left; reflexivity|right; apply EM; reflexivity].
    + intros y m ii i Hy Ar Hi.
      apply (day_filter_correct_yearly_bymonth_nth_e r rl y m ii i lm HN HW Hfr Hbm TN Hs (or_intror Hy) ltac:(lia) Ar Hi).
    + exact Hr0.
    + intros j Hj. unfold okp_y. left. apply Hn. exact Hj.
  - assert (TB : truthy (bymonth rl) = false).
    { rewrite Nm. unfold eff_bymonth. rewrite Hbm.
      assert (ND : no_day_part r = false).
      { unfold no_day_part. unfold plain_only in Hp. destruct (r_byweekday r); [|discriminate Hp].
        cbn [is_none]. rewrite andb_false_r. reflexivity. }
      rewrite ND. reflexivity. }
    apply (yearly_iter_correct2 r rl HN HW Hfr 1583 4098).
    + intros y m Hy. apply (rebuild_nth_succeeds_y_e rl y m ltac:(lia) Hwk Nfr TB TN (or_intror Hy) PK).
    + intros y m ii y' Hy Ar Hy' Hne.
      destruct (rebuild_slots rl y m ii ltac:(lia) Ar) as (LY & EM).
      apply rebuild_nth_other_year_y_e; [|exact Nfr|exact TB|exact TN|].
      * rewrite LY. unfold opt_neqb. apply negb_true_iff. apply Z.eqb_neq. lia.
      * destruct (truthy (byeaster rl)) eqn:TE; [left; reflexivity|right; apply EM; reflexivity].
    + intros y m ii i Hy Ar Hi.
      apply (day_filter_correct_yearly_nth_guarded r rl y m ii i HN HW Hfr Hbm TN Hs (or_intror Hy) ltac:(lia) Ar Hi).
    + exact Hr0.
    + intros j Hj. unfold okp_y. left. apply Hn. exact Hj.
Qed.

(* non-vacuity: rrule(YEARLY, dtstart=datetime(2023,1,1,9,0), bymonth=(3,4), byweekday=(FR(-1), SU(+1)), byeaster=(-2, 0),
   count=4): Good Friday / Easter Sunday when they are the last Friday / first Sunday of March or April *)
Definition raw_yearly_easter_nth_example : raw :=
  mkRaw YEARLY false 2023 1 1 9 0 0 1 0 (Some 4) None false
        None (Some [3; 4]) None None (Some [-2; 0]) None (Some [(4, -1); (6, 1)]) None None None.
Example yearly_easter_nth_example :
  yfam_ea raw_yearly_easter_nth_example /\ plain_only raw_yearly_easter_nth_example = false /\
  match normalize raw_yearly_easter_nth_example with
  | Ok rl => fst (iterate rl 100 40) = fst (spec_iter raw_yearly_easter_nth_example 100 40) /\
             length (fst (iterate rl 100 40)) = 4%nat
  | Err _ => False
  end.
Proof. split; [constructor; reflexivity|split; [reflexivity|vm_compute; split; reflexivity]]. Qed.
