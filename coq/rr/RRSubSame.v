(* C01 layer 7, sub-daily families, final statement: for HOURLY / MINUTELY / SECONDLY rules of the
   family `sfam`, the implementation model `iterate` and the specification RRSpec.spec_iter
   enumerate ONE AND THE SAME stream:
     - for any resources (limit, fuel) and (L, days) one output is a prefix of the other
       (`subdaily_iterate_spec_comparable`), so wherever both define position i they agree
       (`subdaily_nth_agree`);
     - position i is reached by the model for some resources iff it is reached by the
       specification for some resources (RRSubStopFam.subdaily_iter_correct_family).
   Unbounded in every parameter; the family restriction (no BYSETPOS, no nth weekday, BYWEEKNO in
   the safe range, no BYEASTER) is inherited from the rr builder's day-filter theorems.
   Written by the rset builder (new file). *)
From Coq Require Import ZArith List Bool Lia.
From V Require Import base.Cal rr.RRBase rr.RRNorm rr.RRIter rr.RRSpec rr.RRSubFamily rr.RRSubCloseFam
  rr.RRSubStopFam rr.RRSubSpecCoh.
Import ListNotations.
Open Scope Z_scope.

Theorem subdaily_iterate_spec_comparable : forall r rl fr, normalize r = Ok rl -> sfam r fr ->
  fr = HOURLY \/ fr = MINUTELY \/ fr = SECONDLY ->
  forall limit n L d,
    is_prefix (fst (iterate rl limit n)) (fst (spec_iter r L d)) \/
    is_prefix (fst (spec_iter r L d)) (fst (iterate rl limit n)).
Proof.
  intros r rl fr Hn HF Hfr limit n L d.
  destruct (subdaily_prefix_of_spec r rl fr Hn HF Hfr limit n) as (L1 & d1 & rest & E).
  assert (P1 : is_prefix (fst (iterate rl limit n)) (fst (spec_iter r L1 d1))) by (exists rest; exact E).
  destruct (spec_iter_comparable r L d L1 d1) as [P|P].
  - apply (prefixes_comparable _ _ _ (fst (spec_iter r L1 d1)) P1 P).
  - left. apply (is_prefix_trans _ _ _ _ P1 P).
Qed.

Theorem subdaily_nth_agree : forall r rl fr, normalize r = Ok rl -> sfam r fr ->
  fr = HOURLY \/ fr = MINUTELY \/ fr = SECONDLY ->
  forall limit n L d i x y,
    nth_error (fst (iterate rl limit n)) i = Some x ->
    nth_error (fst (spec_iter r L d)) i = Some y -> x = y.
Proof.
  intros r rl fr Hn HF Hfr limit n L d i x y Hx Hy.
  destruct (subdaily_iterate_spec_comparable r rl fr Hn HF Hfr limit n L d) as [P|P].
  - apply (is_prefix_nth _ _ _ i x y P Hx Hy).
  - symmetry. apply (is_prefix_nth _ _ _ i y x P Hy Hx).
Qed.

(* the model's own outputs for different resources are coherent as well *)
Theorem subdaily_iterate_nth_unique : forall r rl fr, normalize r = Ok rl -> sfam r fr ->
  fr = HOURLY \/ fr = MINUTELY \/ fr = SECONDLY ->
  forall limit n limit' n' i x y,
    nth_error (fst (iterate rl limit n)) i = Some x ->
    nth_error (fst (iterate rl limit' n')) i = Some y -> x = y.
Proof.
  intros r rl fr Hn HF Hfr limit n limit' n' i x y Hx Hy.
  destruct (proj1 (subdaily_iter_correct_family r rl fr Hn HF Hfr i x) (ex_intro _ limit (ex_intro _ n Hx)))
    as (L & d & Hs).
  rewrite (subdaily_nth_agree r rl fr Hn HF Hfr limit' n' L d i y x Hy Hs). reflexivity.
Qed.
