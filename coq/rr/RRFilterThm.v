(* C01 layer 4 (partial) -- the BY-filter of rrule._iter (838-851) on a year's own days, for the
   clauses that read the module tables: BYMONTH, BYMONTHDAY (positive and negative), BYYEARDAY
   (positive and negative) and plain BYDAY.  For EVERY year 1..9999 and every day index
   i < yearlen, with the iterinfo that rebuild() produces, each clause rejects the day exactly when
   the calendar date of that index fails the declarative predicate.  (The BYWEEKNO / nth-weekday /
   BYEASTER clauses read the masks of layers 2-3; their composition into one statement about
   day_rejected, and the link from the normalised rule to the raw arguments, are not done.) *)
From Coq Require Import ZArith List Bool Lia ZifyBool.
From V Require Import base.Cal gen.RrTables rr.RRBase rr.RRNorm rr.RRMasks rr.RRIter rr.RRTablesThm
  rr.RRWeekCal rr.RRNwdThm.
Import ListNotations.
Ltac Zify.zify_post_hook ::= Z.to_euclidean_division_equations.
Open Scope Z_scope.

(* what rebuild() establishes about the table-derived slots for year y *)
Record ii_for (ii : iinfo) (y : Z) : Prop := mk_ii_for {
  f_ylen : yearlen ii = year_len y;
  f_nylen : nextyearlen ii = year_len (y + 1);
  f_yo : yearordinal ii = jan1 y;
  f_masks : (mmask ii, mdaymask ii, nmdaymask ii, mrange ii) = masks_for y;
  f_wdm : wdaymask ii = wdm_of (weekday_of_ord (jan1 y))
}.

Lemma year_len_365 y : (365 + (if is_leap y then 1 else 0)) = year_len y.
Proof. unfold year_len. destruct (is_leap y); reflexivity. Qed.

Theorem rebuild_ii_for : forall rl y month ii',
  1 <= y <= 9999 -> rebuild rl ii_init y month = Ok ii' -> ii_for ii' y.
Proof.
  intros rl y month ii' Hy. unfold rebuild.
  change (lastyear ii_init) with (@None Z). change (opt_neqb None y) with true. cbv iota.
  unfold date_ord. assert (V : valid_ymd y 1 1 = true) by (unfold valid_ymd; change (dim y 1) with 31; lia).
  rewrite V. cbn [bind]. fold (jan1 y).
  assert (T : (if 365 + (if is_leap y then 1 else 0) =? 365
               then (T_M365MASK, T_MDAY365MASK, T_NMDAY365MASK, T_M365RANGE)
               else (T_M366MASK, T_MDAY366MASK, T_NMDAY366MASK, T_M366RANGE)) = masks_for y).
  { unfold masks_for, tables_of. destruct (is_leap y); reflexivity. }
  rewrite T. clear T.
  destruct (masks_for y) as [[[mm mdm] nmdm] mr] eqn:EM.
  destruct (if negb (truthy (byweekno rl)) then _ else _) as [wno|e]; cbn [bind]; [|discriminate].
  match goal with |- bind ?r _ = _ -> _ => destruct r as [[nwd month']|e]; cbn [bind]; [|discriminate] end.
  match goal with |- bind ?r _ = _ -> _ => destruct r as [em|e]; cbn [bind]; [|discriminate] end.
  intros E. inversion E; subst. constructor; cbn [yearlen nextyearlen yearordinal mmask mdaymask nmdaymask mrange wdaymask].
  - apply year_len_365.
  - apply year_len_365.
  - reflexivity.
  - symmetry; exact EM.
  - reflexivity.
Qed.

Lemma py_nth_nth_error {A} (l : list A) i v : 0 <= i ->
  nth_error l (Z.to_nat i) = Some v -> py_nth l i = Ok v.
Proof.
  intros Hi H. unfold py_nth. destruct (i <? 0) eqn:E; [lia|]. rewrite E. rewrite H. reflexivity.
Qed.

Section Clauses.
Variables (rl : rule) (ii : iinfo) (y : Z).
Hypothesis F : ii_for ii y.
Hypothesis Hy : 1 <= y <= 9999.

(* calendar date of day index i of year y *)
Definition month_at (i : Z) : Z := month_of_yday y (i + 1).
Definition mday_at (i : Z) : Z := i + 1 - dbm y (month_at i).

Lemma tables_at i : 0 <= i < year_len y ->
  py_nth (mmask ii) i = Ok (month_at i) /\ py_nth (mdaymask ii) i = Ok (mday_at i) /\
  py_nth (nmdaymask ii) i = Ok (mday_at i - dim y (month_at i) - 1).
Proof.
  intros Hi. pose proof (tables_correct y i ltac:(lia)) as T.
  pose proof (f_masks ii y F) as M. destruct (masks_for y) as [[[mm mdm] nmdm] mr].
  inversion M; subst.
  replace (i <? year_len y) with true in T by lia.
  destruct T as (T1 & T2 & T3).
  repeat split; apply py_nth_nth_error; try lia; assumption.
Qed.

Theorem cl_month_correct i : 0 <= i < year_len y ->
  cl_month rl ii i = Ok (truthy (bymonth rl) && negb (memZ (month_at i) (opt_list (bymonth rl)))).
Proof.
  intros Hi. unfold cl_month. destruct (tables_at i Hi) as (T1 & _ & _).
  destruct (truthy (bymonth rl)); [rewrite T1; reflexivity|reflexivity].
Qed.

Theorem cl_monthday_correct i : 0 <= i < year_len y ->
  cl_monthday rl ii i =
  Ok ((nonempty (bymonthday rl) || nonempty (bynmonthday rl)) &&
      negb (memZ (mday_at i) (bymonthday rl)) &&
      negb (memZ (mday_at i - dim y (month_at i) - 1) (bynmonthday rl))).
Proof.
  intros Hi. unfold cl_monthday. destruct (tables_at i Hi) as (_ & T2 & T3).
  destruct (nonempty (bymonthday rl) || nonempty (bynmonthday rl)); [|reflexivity].
  rewrite T2. cbn [bind]. destruct (memZ (mday_at i) (bymonthday rl)); [reflexivity|].
  rewrite T3. reflexivity.
Qed.

(* yearday i+1, or its negative i+1 - yearlen - 1 *)
Theorem cl_yearday_correct i : 0 <= i < year_len y ->
  cl_yearday rl ii i =
  Ok (truthy (byyearday rl) &&
      negb (memZ (i + 1) (opt_list (byyearday rl))) &&
      negb (memZ (i + 1 - year_len y - 1) (opt_list (byyearday rl)))).
Proof.
  intros Hi. unfold cl_yearday. rewrite (f_ylen ii y F).
  destruct (truthy (byyearday rl)); [|reflexivity].
  replace (i <? year_len y) with true by lia.
  replace (- year_len y + i) with (i + 1 - year_len y - 1) by lia. reflexivity.
Qed.

(* plain BYDAY (no nth-weekday mask): weekday of the date *)
Theorem cl_weekday_plain_correct i : 0 <= i < year_len y -> nwdaymask ii = None ->
  cl_weekday rl ii i =
  Ok (truthy (byweekday rl) &&
      negb (memZ (weekday_of_ord (jan1 y + i)) (opt_list (byweekday rl)))).
Proof.
  intros Hi Hn. unfold cl_weekday. rewrite Hn. cbn [truthy orb].
  rewrite orb_false_r.
  destruct (truthy (byweekday rl)); [|reflexivity].
  rewrite (f_wdm ii y F).
  pose proof (weekday_of_ord_range (jan1 y)) as R.
  assert (Hlen : year_len y <= 366) by (unfold year_len; destruct (is_leap y); lia).
  rewrite (wdm_nth _ i R ltac:(lia)). cbn [bind]. rewrite <- wd_shift.
  destruct (memZ (weekday_of_ord (jan1 y + i)) (opt_list (byweekday rl))); reflexivity.
Qed.
End Clauses.
