(* C01 -- the full statement "model = specification for every rule in the specification's domain"
   is FALSE of the faithful model (= of dateutil's code).  Two witnesses, each checked by
   vm_compute and replayed on the real implementation by harness/check_C01.py (known findings
   F-C01-weekno and F-C01-setpos-week):
   D1c  BYWEEKNO with a negative member near a year boundary: an instant of the recurrence set is
        never yielded;
   D1e  WEEKLY + BYSETPOS with a start that is not on WKST: an instant that is not in the
        recurrence set is yielded. *)
From Coq Require Import ZArith List Bool.
From V Require Import base.Cal rr.RRBase rr.RRNorm rr.RRMasks rr.RRIter rr.RRSpec.
Import ListNotations.
Open Scope Z_scope.

(* rrule(YEARLY, dtstart=datetime(1890,1,1), wkst=TH, byweekno=-52, until=datetime(1891,12,31,23,59,59)) *)
Definition raw_weekno : raw :=
  mkRaw YEARLY false 1890 1 1 0 0 0 1 3 None (Some (ord_of_ymd 1891 12 31, 86399, 0)) false
        None None None None None (Some [-52]) None None None None.

(* rrule(WEEKLY, dtstart=datetime(1997,9,3,9,0), byweekday=(MO,WE,FR), bysetpos=1, count=3) *)
Definition raw_setpos : raw :=
  mkRaw WEEKLY false 1997 9 3 9 0 0 1 0 (Some 3) None false
        (Some [1]) None None None None None (Some [(0, 0); (2, 0); (4, 0)]) None None None.

Definition model_run (r : raw) (limit : Z) (fuel : nat) : option (list instant * term) :=
  match normalize r with Ok rl => Some (iterate rl limit fuel) | Err _ => None end.

(* 1891-12-31 00:00 belongs to week -52 of week-year 1892 (wkst = TH: week 1 of 1892 starts on
   Thu 1891-12-31 and 1892 has 52 weeks); the code never yields it *)
Theorem rrule_iter_refuted_weekno : exists r x out,
  spec_wf r = true /\ r_byweekno r = Some [-52] /\
  spec_iter r 100 10 = (out ++ [x], SExhausted) /\
  model_run r 100 10 = Some (out, TUntil).
Proof.
  exists raw_weekno, (ord_of_ymd 1891 12 31, 0).
  eexists (map (fun d => (d, 0)) [_; _; _; _; _; _; _; _; _; _; _; _; _; _]).
  vm_compute. repeat split; reflexivity.
Qed.

Theorem rrule_iter_refuted_setpos_week : exists r x,
  spec_wf r = true /\ r_freq r = WEEKLY /\ r_bysetpos r = Some [1] /\
  (exists rest, model_run r 100 10 = Some (x :: rest, TCount)) /\
  ~ In x (fst (spec_iter r 100 10)).
Proof.
  exists raw_setpos, (ord_of_ymd 1997 9 3, 32400).
  split; [reflexivity|]. split; [reflexivity|]. split; [reflexivity|]. split.
  - eexists. vm_compute. reflexivity.
  - vm_compute. intros [H|[H|[H|[]]]]; discriminate.
Qed.

(* D1f  WEEKLY + BYEASTER across the year end: in the week that straddles 1 January the easter mask
   of the old year is used.
   rrule(WEEKLY, dtstart=datetime(2016,12,1), byeaster=(-105, 0), until=datetime(2017,2,1)): Easter 2017 is
   16 April, minus 105 days = Sunday 1 January 2017, inside the Monday-week 2016-12-26..2017-01-01
   that the code expands with the masks of 2016 -- never yielded (DAILY yields it). *)
Definition raw_easter : raw :=
  mkRaw WEEKLY false 2016 12 1 0 0 0 1 0 None (Some (ord_of_ymd 2017 2 1, 0, 0)) false
        None None None None (Some [-105; 0]) None None None None None.

Theorem rrule_iter_refuted_easter_week : exists r x,
  spec_wf r = true /\ r_freq r = WEEKLY /\ r_byeaster r = Some [-105; 0] /\
  spec_iter r 100 20 = ([x], SExhausted) /\
  model_run r 100 30 = Some ([], TUntil).
Proof.
  exists raw_easter, (ord_of_ymd 2017 1 1, 0). vm_compute. repeat split; reflexivity.
Qed.

(* year 1: rrule(YEARLY, dtstart=datetime(1,1,1), wkst=TU, byweekno=1, until=datetime(3,1,1)) --
   rebuild() evaluates datetime.date(0, 1, 1): ValueError at the first next(), although the rule
   has occurrences (F-C01-year1-weekno) *)
Definition raw_year1 : raw :=
  mkRaw YEARLY false 1 1 1 0 0 0 1 1 None (Some (ord_of_ymd 3 1 1, 0, 0)) false
        None None None None None (Some [1]) None None None None.

Theorem rrule_iter_refuted_year1 : exists r x rest,
  spec_wf r = true /\ r_y r = 1 /\
  fst (spec_iter r 100 10) = x :: rest /\
  model_run r 100 10 = Some ([], TRaised EValue).
Proof. exists raw_year1. eexists (_, _). eexists. vm_compute. repeat split; reflexivity. Qed.
