(* C01 layer 5 -- day sets: YEARLY enumerates every day index of the year, DAILY (and the
   sub-daily frequencies) exactly the cursor's day; MONTHLY the indices of the month.  All years /
   all dates (no bound).  The WEEKLY day set (start day to the end of the wkst-week through the +7
   extension) is compared differentially only -- see notes/rr.md. *)
From Coq Require Import ZArith List Bool Lia ZifyBool.
From V Require Import base.Cal gen.RrTables rr.RRBase rr.RRNorm rr.RRMasks rr.RRIter rr.RROverlay.
Import ListNotations.
Open Scope Z_scope.

Lemma zrange_nat_length n : forall a, length (zrange_nat a n) = n.
Proof. induction n as [|n IH]; intros a; cbn; [reflexivity|]. rewrite IH. reflexivity. Qed.

Lemma somes_map_Some l : somes (map Some l) = l.
Proof. induction l as [|x t IH]; cbn; [reflexivity|]. rewrite IH. reflexivity. Qed.

Lemma clamp_idx_in n i : 0 <= i <= n -> clamp_idx n i = i.
Proof.
  intros H. unfold clamp_idx. destruct (i <? 0) eqn:E; [lia|].
  destruct (i <? 0) eqn:E1; [lia|]. destruct (n <? i) eqn:E2; [lia|reflexivity].
Qed.

Lemma py_slice_in {A} (l : list A) a b : 0 <= a <= b -> b <= zlen l ->
  py_slice l a b = firstn (Z.to_nat (b - a)) (skipn (Z.to_nat a) l).
Proof.
  intros H1 H2. unfold py_slice. rewrite !clamp_idx_in by lia. reflexivity.
Qed.

Lemma py_slice_all {A} (l : list A) : py_slice l 0 (zlen l) = l.
Proof.
  rewrite py_slice_in by (unfold zlen; lia).
  replace (Z.to_nat (zlen l - 0)) with (length l) by (unfold zlen; lia).
  cbn [Z.to_nat skipn]. apply firstn_all.
Qed.

(* YEARLY: the unfiltered day set is every index 0 .. yearlen-1, in order *)
Theorem ydayset_correct : forall ii, 0 <= yearlen ii ->
  exists ds, ydayset ii = Ok (ds, 0, yearlen ii) /\
             somes (py_slice ds 0 (yearlen ii)) = zrange 0 (yearlen ii).
Proof.
  intros ii Hy. unfold ydayset. eexists. split; [reflexivity|].
  set (ds := map Some (zrange 0 (yearlen ii))).
  assert (L : zlen ds = yearlen ii).
  { unfold ds, zlen, zrange. rewrite map_length, zrange_nat_length. lia. }
  transitivity (somes ds); [|apply somes_map_Some].
  f_equal. pose proof (py_slice_all ds) as P. rewrite L in P. exact P.
Qed.

Lemma skipn_set_nat {A} (l : list A) : forall k v, (k < length l)%nat ->
  skipn k (set_nat l k v) = v :: skipn (S k) l.
Proof.
  induction l as [|h t IH]; intros k v Hk; [cbn in Hk; lia|].
  destruct k as [|k]; [reflexivity|]. cbn [set_nat skipn]. apply IH. cbn in Hk. lia.
Qed.

Lemma repeat_len {A} (x : A) n : length (repeat x n) = n.
Proof. apply repeat_length. Qed.

(* DAILY and sub-daily: exactly the cursor's day *)
Theorem ddayset_correct : forall ii year month day,
  valid_ymd year month day = true ->
  0 <= ord_of_ymd year month day - yearordinal ii < yearlen ii ->
  let i := ord_of_ymd year month day - yearordinal ii in
  exists ds, ddayset ii year month day = Ok (ds, i, i + 1) /\ py_slice ds i (i + 1) = [Some i].
Proof.
  intros ii year month day Hv Hi i. unfold ddayset, date_ord. rewrite Hv. cbn [bind]. fold i.
  assert (Hi' : 0 <= i < yearlen ii) by exact Hi. clearbody i. clear Hi.
  unfold py_set, py_repeat, zlen. rewrite repeat_len.
  replace (i <? 0) with false by lia.
  replace (i <? 0) with false by lia.
  replace (Z.of_nat (Z.to_nat (yearlen ii)) <=? i) with false by lia.
  cbn [orb bind]. eexists. split; [reflexivity|].
  rewrite py_slice_in by (unfold zlen; rewrite ?set_nat_length, ?repeat_len; lia).
  replace (Z.to_nat (i + 1 - i)) with 1%nat by lia.
  rewrite skipn_set_nat by (rewrite repeat_len; lia). reflexivity.
Qed.
