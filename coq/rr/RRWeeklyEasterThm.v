(* C01 layer 7 -- WEEKLY rules WITH BYEASTER inside the year range of C19's Easter theorem (the combination in
   which finding F-C01-easter-week lived): the BY-filter on the 7-day extension with next year's Easter, and
   rrule_iter_correct at equal fuel, with and without BYSETPOS. *)
From Coq Require Import ZArith List Bool Lia ZifyBool.
From V Require Import base.Cal gen.RrTables rr.RRBase rr.RRNorm rr.RRMasks rr.RRIter rr.RRSpec
  rr.RROverlay rr.RRTablesThm rr.RRWeekDefs rr.RRWeekThm rr.RRWeekCal rr.RRWeekFinal rr.RRWeekTop rr.RREasterThm rr.RRNwdThm
  rr.RRNwdCal rr.RRFilterThm rr.RRFilterSpec rr.RRGateThm rr.RRTimesetThm rr.RRDaysetThm rr.RRAdvanceThm rr.RRIterThm
  rr.RRPassThm rr.RRYearlyThm rr.RRYearlyEasterThm rr.RRCountThm rr.RRYearlyCountThm rr.RRYearlyUntilThm
  rr.RRDailyThm rr.RRMonthlyThm rr.RRWeeklyThm rr.RRSetposThm rr.RRCoarseRun rr.RRMonthlyFullThm rr.RRWeeklySetposThm
  rr.RRDailyFullThm rr.RRDailyEasterThm.
Import ListNotations.
Ltac Zify.zify_post_hook ::= Z.to_euclidean_division_equations.
Open Scope Z_scope.

Theorem day_filter_ext_e : forall r rl y month ii i,
  normalize r = Ok rl -> spec_wf r = true -> plain_only r = true ->
  all_opt (r_byweekno r) weekno_safe = true -> (r_byeaster r = None \/ (1583 <= y /\ y + 1 <= 4098)) ->
  1 <= y <= 9999 -> rebuild rl ii_init y month = Ok ii ->
  year_len y <= i < year_len y + 7 -> used_index (shape_of y) (r_wkst r) i = true ->
  day_rejected rl ii i = Ok (negb (day_ok r (jan1 y + i))).
Proof.
  intros r rl y month ii i HN HW Hp Hs He Hy HR Hi Hu.
  destruct (normalize_fields r rl HN) as (Nm & Nyd & Nmd & Nnmd & Nwn & Nea & Nwd).
  pose proof (normalize_wkst r rl HN) as Nwk.
  destruct (rebuild_char rl y month ii Hy HR) as (F & Cnw & Cwn).
  pose proof (plain_only_no_nth r rl HN Hp) as TN.
  pose proof (Cnw TN) as Hnw.
  pose proof HW as HW'. unfold spec_wf in HW'.
  repeat match type of HW' with _ && _ = true =>
    let H := fresh "W" in apply andb_true_iff in HW'; destruct HW' as [HW' H] end.
  destruct (ymd_ext y i Hi) as [EY EYD].
  set (d := i - year_len y + 1) in *.
  assert (YL : 365 <= year_len y <= 366) by (unfold year_len; destruct (is_leap y); lia).
  (* table entries of the extension *)
  pose proof (tables_correct y i ltac:(lia)) as T.
  pose proof (f_masks ii y F) as M. destruct (masks_for y) as [[[mm mdm] nmdm] mr]. inversion M; subst mm mdm nmdm mr.
  replace (i <? year_len y) with false in T by lia. fold d in T. change (dim (y + 1) 1) with 31 in T.
  destruct T as (T1 & T2 & T3).
  assert (P1 : py_nth (mmask ii) i = Ok 1) by (apply py_nth_nth_error; [lia|exact T1]).
  assert (P2 : py_nth (mdaymask ii) i = Ok d) by (apply py_nth_nth_error; [lia|exact T2]).
  assert (P3 : py_nth (nmdaymask ii) i = Ok (d - 31 - 1)) by (apply py_nth_nth_error; [lia|exact T3]).
  pose proof (weekday_of_ord_range (jan1 y)) as Rw.
  (* the six clauses *)
  unfold day_rejected.
  assert (C1 : cl_month rl ii i = Ok (truthy (bymonth rl) && negb (memZ 1 (opt_list (bymonth rl))))).
  { unfold cl_month. destruct (truthy (bymonth rl)); [rewrite P1; reflexivity|reflexivity]. }
  assert (C5 : cl_monthday rl ii i = Ok ((nonempty (bymonthday rl) || nonempty (bynmonthday rl)) &&
              negb (memZ d (bymonthday rl)) && negb (memZ (d - 31 - 1) (bynmonthday rl)))).
  { unfold cl_monthday. destruct (nonempty (bymonthday rl) || nonempty (bynmonthday rl)); [|reflexivity].
    rewrite P2. cbn [bind]. destruct (memZ d (bymonthday rl)); [reflexivity|]. rewrite P3. reflexivity. }
  assert (C6 : cl_yearday rl ii i = Ok (truthy (byyearday rl) && negb (memZ d (opt_list (byyearday rl))) &&
              negb (memZ (d - year_len (y + 1) - 1) (opt_list (byyearday rl))))).
  { unfold cl_yearday. rewrite (f_ylen ii y F), (f_nylen ii y F).
    destruct (truthy (byyearday rl)); [|reflexivity].
    replace (i <? year_len y) with false by lia.
    replace (i + 1 - year_len y) with d by (unfold d; lia).
    replace (- year_len (y + 1) + i - year_len y) with (d - year_len (y + 1) - 1) by (unfold d; lia). reflexivity. }
  assert (C3 : cl_weekday rl ii i = Ok (truthy (byweekday rl) &&
              negb (memZ (weekday_of_ord (jan1 y + i)) (opt_list (byweekday rl))))).
  { unfold cl_weekday. rewrite Hnw. cbn [truthy orb]. rewrite orb_false_r.
    destruct (truthy (byweekday rl)); [|reflexivity].
    rewrite (f_wdm ii y F). rewrite (wdm_nth _ i Rw ltac:(lia)). cbn [bind]. rewrite <- wd_shift.
    destruct (memZ (weekday_of_ord (jan1 y + i)) (opt_list (byweekday rl))); reflexivity. }
  assert (C4 : cl_easter rl ii i = Ok (negb (in_opt (r_byeaster r) (easter_lambda (y + 1) (jan1 y + i))))).
  { unfold cl_easter. rewrite Nea.
    destruct (r_byeaster r) as [l|] eqn:EL; [|reflexivity].
    destruct He as [He|He]; [discriminate He|].
    assert (NE : nonempty l = true).
    { match goal with H : ne_opt (Some l) = true |- _ => destruct l; [discriminate H|reflexivity] end. }
    assert (TT : truthy (option_map sortZ (Some l)) = true).
    { cbn [option_map truthy]. pose proof (sortZ_nonempty l) as SN. rewrite NE in SN.
      destruct (sortZ l); [discriminate SN|reflexivity]. }
    rewrite TT.
    destruct (rebuild_easter rl y month ii ltac:(lia) HR ltac:(rewrite Nea; exact TT))
      as (eo & eo2 & m & Eo & Eo2 & Em & Eb).
    rewrite Em. rewrite Nea in Eb. cbn [option_map opt_list] in Eb.
    destruct (eastermask_correct_calendar y (sortZ l) ltac:(lia) ltac:(lia))
      as (eo' & eo2' & m' & Eo' & Eo2' & Eb' & Pm).
    cbv zeta in Eb', Pm. fold (jan1 y) in Eb', Pm.
    rewrite Eo in Eo'. injection Eo' as <-. rewrite Eo2 in Eo2'. injection Eo2' as <-.
    rewrite Eb in Eb'. injection Eb' as <-.
    assert (Lm : zlen m = year_len y + 7).
    { destruct (eastermask_fold_correct (eo - jan1 y) (Some (eo2 - jan1 y)) (year_len y) (sortZ l)
                  ltac:(unfold year_len; destruct (is_leap y); lia)) as (m2 & E2 & L2 & _).
      rewrite Eb in E2. injection E2 as <-. exact L2. }
    rewrite (py_nth_nth m i) by lia. cbn [bind].
    specialize (Pm i ltac:(lia)). replace (i <? year_len y) with false in Pm by lia.
    unfold RRWeekThm.nzb in Pm.
    f_equal. cbn [in_opt]. rewrite <- (existsb_sortZ (easter_lambda (y + 1) (jan1 y + i)) l).
    replace (nth (Z.to_nat i) m 0 =? 0) with (negb (negb (nth (Z.to_nat i) m 0 =? 0)))
      by apply negb_involutive.
    f_equal. rewrite Pm. reflexivity. }
  assert (C2 : cl_weekno rl ii i = Ok (negb (in_opt (r_byweekno r) (weekno_lambda r (jan1 y + i))))).
  { unfold cl_weekno. rewrite Nwn.
    destruct (r_byweekno r) as [l|] eqn:EL; [|reflexivity].
    assert (NE : ne_opt (Some l) = true) by assumption.
    assert (TT : truthy (option_map sort_set (Some l)) = true).
    { rewrite (truthy_map_sort (Some l) NE). reflexivity. }
    rewrite TT. rewrite Nwn in Cwn. destruct (Cwn TT) as (m & Em & Eb). rewrite Em.
    cbn [option_map opt_list] in Eb.
    assert (SAFE : forallb weekno_safe (sort_set l) = true) by (apply forallb_sort_set; exact Hs).
    assert (Hk : 0 <= wkst rl <= 6).
    { rewrite Nwk. match goal with H : between 0 6 (r_wkst r) = true |- _ => unfold between in H end. lia. }
    destruct (wnomask_correct_calendar y (wkst rl) (sort_set l) Hk SAFE) as (m' & Em' & Lm & Pm).
    cbv zeta in Em'. rewrite Eb in Em'. injection Em' as <-.
    rewrite (py_nth_nth m i) by lia. cbn [bind].
    rewrite Nwk in Pm. specialize (Pm i Hu). unfold RRWeekThm.nzb in Pm.
    f_equal. cbn [in_opt]. rewrite <- (existsb_sort_set (weekno_lambda r (jan1 y + i)) l).
    replace (nth (Z.to_nat i) m 0 =? 0) with (negb (negb (nth (Z.to_nat i) m 0 =? 0))) by apply negb_involutive.
    f_equal. rewrite Pm. reflexivity. }
  rewrite C1, C2, C3, C4, C5, C6.
  (* the specification on (y + 1, January, d) *)
  unfold day_ok. rewrite EY, EYD. fold d.
  fold (easter_lambda (y + 1) (jan1 y + i)).
  fold (weekno_lambda r (jan1 y + i)).
  change (dim (y + 1) 1) with 31.
  assert (NEm : ne_opt (eff_bymonth r) = true).
  { unfold eff_bymonth. destruct (r_bymonth r) as [l|]; [assumption|].
    destruct (no_day_part r && (r_freq r =? YEARLY)); reflexivity. }
  rewrite Nm, (month_clause (eff_bymonth r) 1 NEm).
  assert (Vd : 1 <= r_d r).
  { match goal with H : valid_ymd _ _ _ = true |- _ => unfold valid_ymd in H end. lia. }
  assert (NEd : ne_opt (eff_bymonthday r) = true /\ all_opt (eff_bymonthday r) (fun x => negb (x =? 0)) = true).
  { unfold eff_bymonthday. destruct (r_bymonthday r) as [l|]; [split; assumption|].
    destruct (no_day_part r && ((r_freq r =? YEARLY) || (r_freq r =? MONTHLY))); [|split; reflexivity].
    split; [reflexivity|]. cbn [all_opt forallb]. rewrite andb_true_r. apply negb_true_iff. lia. }
  destruct NEd as [NEd Zd].
  rewrite Nmd, Nnmd.
  rewrite (monthday_clause (eff_bymonthday r) d (d - 31 - 1) NEd Zd ltac:(unfold d; lia) ltac:(unfold d; lia)).
  rewrite Nyd. rewrite (yearday_clause (r_byyearday r) d (d - year_len (y + 1) - 1)) by assumption.
  rewrite (plain_weekday_eq r rl (fun n => if (r_freq r =? MONTHLY) || negb (is_none (r_bymonth r))
                                           then nth_in d 31 n else nth_in d (year_len (y + 1)) n)
             (weekday_of_ord (jan1 y + i)) HN HW Hp).
  destruct (in_opt (eff_bymonth r) (Z.eqb 1)), (in_opt (eff_bymonthday r) _), (in_opt (r_byyearday r) _),
    (in_opt (eff_byweekday r) _), (in_opt (r_byweekno r) _), (in_opt (r_byeaster r) _); reflexivity.
Qed.
(* ------------------------------------------------------------------ the WEEKLY family with BYEASTER *)
Record wfam_e (r : raw) : Prop := mk_wfam_e {
  we_wf : spec_wf r = true;
  we_freq : r_freq r = WEEKLY;
  we_plain : plain_only r = true;
  we_weekno : all_opt (r_byweekno r) weekno_safe = true
}.

(* the passes may reach the end of year 4097: the cross-year week needs Easter of the following year *)
Definition we_last : Z := jan1 4098 - 1.

Section WeeklyEaster.
Variables (r : raw) (rl : rule).
Hypothesis HN : normalize r = Ok rl.
Hypothesis Y : wfam_e r.
(* the cursor of pass k: the week start, or (pass 0 without BYSETPOS) the start itself *)
Variable cur : Z -> Z.
Hypothesis Hcur_rng : forall k, 0 <= k -> wlo r k <= cur k <= wlo r k + 6.
Hypothesis Hcur_next : forall k, 0 <= k -> cur (k + 1) = wlo r (k + 1).
Hypothesis Hcur_pos : forall k, 0 <= k -> 1 <= cur k.
Hypothesis SI : forall k y, 0 <= k -> wlo r k + 6 <= max_ord ->
  step_items r k = filter (inst_le (sp_start r))
    (select_pos r (cand_list (jan1 y) (period_times r 0)
                     (filter (fun i => day_ok r (jan1 y + i)) (zrange (cur k - jan1 y) (wlo r k + 7 - jan1 y))))).

Let HW : spec_wf r = true. Proof. destruct Y; assumption. Qed.
Let Hfr : r_freq r = WEEKLY. Proof. destruct Y; assumption. Qed.
Let Nfr : freq rl = WEEKLY. Proof. rewrite (normalize_freq r rl HN). exact Hfr. Qed.

Definition inv_we (k : Z) (cnt : option Z) (s : state) : Prop :=
  valid_ymd (c_year s) (c_month s) (c_day s) = true /\
  ord_of_ymd (c_year s) (c_month s) (c_day s) = cur k /\
  c_weekday s = weekday_of_ord (cur k) /\
  rebuild rl ii_init (c_year s) (c_month s) = Ok (c_ii s) /\
  c_timeset s = period_times r 0 /\ c_count s = cnt /\
  1583 <= c_year s /\ c_year s + 1 <= 4098.
Definition okp_we (k : Z) : Prop := wlo r k + 6 <= max_ord /\ wlo r (k + 1) <= we_last.

Lemma wfacts_e : 1 <= r_interval r /\ 0 <= r_wkst r <= 6 /\ valid_ymd (r_y r) (r_m r) (r_d r) = true.
Proof.
  pose proof HW as HW'. unfold spec_wf in HW'.
  repeat match type of HW' with _ && _ = true =>
    let H := fresh "W" in apply andb_true_iff in HW'; destruct HW' as [HW' H] end.
  unfold between in *. split; [lia|]. split; [lia|assumption].
Qed.

Lemma cur_week k : 0 <= k -> (weekday_of_ord (cur k) - r_wkst r) mod 7 = cur k - wlo r k.
Proof.
  intros Hk. destruct wfacts_e as (_ & Hwk & _). pose proof (Hcur_rng k Hk) as B.
  replace (cur k) with (wlo r k + (cur k - wlo r k)) at 1 by lia.
  rewrite wd_shift, (wlo_weekday r k Hwk). apply week_off; lia.
Qed.

Lemma weekly_days_e : forall k cnt s, inv_we k cnt s -> 0 <= k -> wlo r k + 6 <= max_ord ->
  let y := c_year s in
  let st := cur k - jan1 y in let en := wlo r k + 7 - jan1 y in
  exists ds ds' f,
    getdayset rl (c_ii s) y (c_month s) (c_day s) = Ok (ds, st, en) /\
    filter_loop rl (c_ii s) (py_slice ds st en) ds false = Ok (ds', f) /\
    somes (py_slice ds' st en) = filter (fun i => day_ok r (jan1 y + i)) (zrange st en) /\
    1 <= jan1 y + st /\ jan1 y + en <= max_ord + 1.
Proof.
  intros k cnt s (Av & Ao & Aw & Ar & At & Ac & Hr1 & Hr2) Hk Hmax y st en.
  fold y in Av, Ao, Ar, Hr1, Hr2.
  destruct Y as [_ _ Hp Hs].
  pose proof (normalize_wkst r rl HN) as Nwk.
  destruct wfacts_e as (Hitv & Hwk & V).
  destruct (index_in_year _ _ _ Av) as (Hi & Ho & Hy). rewrite Ao in Hi, Ho. fold st in Hi.
  pose proof (rebuild_ii_for rl y _ (c_ii s) Hy Ar) as F.
  pose proof (cur_week k Hk) as Ew. pose proof (Hcur_rng k Hk) as Bc. pose proof (Hcur_pos k Hk) as Bp.
  assert (YL : 365 <= year_len y <= 366) by (unfold year_len; destruct (is_leap y); lia).
  destruct (wdayset_correct rl (c_ii s) y y (c_month s) (c_day s) F ltac:(rewrite Nwk; exact Hwk) Av
              ltac:(rewrite Ao; exact Hi)) as (ds & suf & E1 & Eds & _).
  rewrite Ao in E1, Eds. fold st in E1, Eds.
  assert (EL : st + Z.min (week_rest (weekday_of_ord (jan1 y)) (wkst rl) st) (max_ord + 1 - (jan1 y + st)) = en).
  { unfold week_rest. rewrite <- wd_shift. replace (jan1 y + st) with (cur k) by (unfold st; lia).
    rewrite Nwk, Ew. unfold st, en. lia. }
  rewrite EL in E1, Eds.
  assert (G : getdayset rl (c_ii s) y (c_month s) (c_day s) = Ok (ds, st, en)).
  { unfold getdayset. rewrite Nfr. change (WEEKLY =? YEARLY) with false. change (WEEKLY =? MONTHLY) with false.
    change (WEEKLY =? WEEKLY) with true. cbv iota. exact E1. }
  set (rej := fun i => negb (day_ok r (jan1 y + i))).
  assert (HRj : forall i, st <= i < en -> day_rejected rl (c_ii s) i = Ok (rej i)).
  { assert (Hr3 : y <= 4098) by lia.
    intros i Hi'. destruct (Z_lt_ge_dec i (year_len y)) as [Hlt|Hge].
    - apply (day_filter_correct_guarded r rl y (c_month s) (c_ii s) i HN HW Hp Hs
               (or_intror (conj Hr1 Hr3)) Hy Ar). lia.
    - apply (day_filter_ext_e r rl y (c_month s) (c_ii s) i HN HW Hp Hs (or_intror (conj Hr1 Hr2)) Hy Ar);
        [unfold st, en in *; lia|].
      unfold used_index, shape_of. cbn [sh_ylen sh_ywd].
      rewrite <- wd_shift.
      replace (jan1 y + i) with (wlo r k + (jan1 y + i - wlo r k)) by lia.
      rewrite wd_shift, (wlo_weekday r k Hwk).
      rewrite (week_off (r_wkst r) (jan1 y + i - wlo r k) Hwk) by (unfold st, en in *; lia).
      unfold st, en in *. lia. }
  set (pre := repeat (@None Z) (Z.to_nat st)).
  assert (Lp : Z.of_nat (length pre) = st) by (unfold pre; rewrite repeat_length; lia).
  assert (Hse : st <= en) by (unfold st, en; lia).
  assert (SL : py_slice ds st en = map Some (zrange st en)).
  { rewrite Eds. fold pre. pose proof (py_slice_mid pre (map Some (zrange st en)) suf) as P.
    rewrite Lp in P. rewrite map_length in P. unfold zrange in P at 2. rewrite zrange_nat_length in P.
    replace (st + Z.of_nat (Z.to_nat (en - st))) with en in P by lia. exact P. }
  assert (FL : filter_loop rl (c_ii s) (py_slice ds st en) ds false =
               Ok (pre ++ map (mark rej) (zrange st en) ++ suf, existsb rej (zrange st en))).
  { rewrite SL, Eds. fold pre. unfold zrange.
    rewrite (filter_loop_range rl (c_ii s) rej (Z.to_nat (en - st)) st pre suf false Lp).
    - reflexivity.
    - intros i Hi'. apply HRj. lia. }
  set (ds' := pre ++ map (mark rej) (zrange st en) ++ suf).
  assert (SL' : py_slice ds' st en = map (mark rej) (zrange st en)).
  { unfold ds'. pose proof (py_slice_mid pre (map (mark rej) (zrange st en)) suf) as P.
    rewrite Lp in P. rewrite map_length in P. unfold zrange in P at 2. rewrite zrange_nat_length in P.
    replace (st + Z.of_nat (Z.to_nat (en - st))) with en in P by lia. exact P. }
  exists ds, ds', (existsb rej (zrange st en)). split; [exact G|]. split; [exact FL|]. split.
  - rewrite SL', somes_map_mark. apply filter_ext'. intros x. unfold rej. apply negb_involutive.
  - unfold st, en. lia.
Qed.

Lemma weekly_advance_e : forall k cnt s filtered c1 out1, inv_we k cnt s -> 0 <= k -> okp_we k ->
  (exists s', advance rl s filtered c1 out1 = Ok (AdvGo s') /\ inv_we (k + 1) c1 s' /\ c_out s' = out1) \/
  (advance rl s filtered c1 out1 = Ok AdvMax /\ max_ord < step_lo r (k + 1)).
Proof.
  intros k cnt s filtered c1 out1 (Av & Ao & Aw & Ar & At & Ac & Hr1 & Hr2) Hk [Hok1 Hok2].
  destruct Y as [_ _ Hp Hs].
  destruct (normalize_misc r rl HN) as (Ni & _ & _ & _ & _ & _ & _).
  pose proof (normalize_wkst r rl HN) as Nwk.
  pose proof (plain_only_no_nth r rl HN Hp) as TN.
  destruct wfacts_e as (Hitv & Hwk & V).
  pose proof (cur_week k Hk) as Ew. pose proof (Hcur_rng k Hk) as Bc.
  pose proof (weekday_of_ord_range (cur k)) as Rw.
  unfold advance. rewrite Nfr.
  change (WEEKLY =? YEARLY) with false. change (WEEKLY =? MONTHLY) with false. change (WEEKLY =? WEEKLY) with true.
  cbv iota zeta.
  rewrite (weekly_advance_correct (c_day s) (c_weekday s) (wkst rl) (interval rl)
             ltac:(rewrite Aw; exact Rw) ltac:(rewrite Nwk; exact Hwk)).
  rewrite Aw, Nwk, Ew, Ni.
  set (delta := 7 * r_interval r - (cur k - wlo r k)).
  replace (c_day s - (cur k - wlo r k) + 7 * r_interval r) with (c_day s + delta) by (unfold delta; lia).
  assert (EN : cur k + delta = wlo r (k + 1)) by (rewrite wlo_succ; unfold delta; lia).
  destruct (fixday_advance_e rl s (c_year s) (c_month s) (c_day s) delta (c_hour s) (c_minute s) (c_second s)
              (r_wkst r) (c_ii s) (c_timeset s) c1 out1 Av ltac:(unfold delta; lia) Ar TN)
    as [(y' & m' & d' & ii' & EA & V' & O' & R')|(EA & Hmx)].
  { intros y' Hy' Hj. right. split; [lia|]. rewrite Ao, EN in Hj. unfold we_last in Hok2.
    destruct (Z_le_gt_dec y' 4098) as [L|G]; [exact L|]. pose proof (jan1_mono 4099 y' ltac:(lia)).
    pose proof (jan1_mono 4098 4099 ltac:(lia)). lia. }
  { rewrite Nwk. exact Hwk. }
  - left. eexists. split; [exact EA|]. split; [|reflexivity].
    unfold inv_we. cbn [c_year c_month c_day c_weekday c_ii c_timeset c_count].
    rewrite (Hcur_next k Hk).
    split; [exact V'|]. split; [rewrite O', Ao, EN; reflexivity|].
    split; [rewrite (wlo_weekday r (k + 1) Hwk); reflexivity|].
    split; [exact R'|]. split; [exact At|]. split; [reflexivity|].
    destruct (index_in_year _ _ _ V') as (I1 & _ & I3). destruct (index_in_year _ _ _ Av) as (J1 & _ & _).
    rewrite O', Ao, EN in I1. unfold we_last in Hok2. split.
    + destruct (Z_le_gt_dec 1583 y') as [L|G]; [exact L|].
      pose proof (jan1_mono (y' + 1) (c_year s) ltac:(lia)) as JM. rewrite jan1_succ in JM.
      rewrite Ao in J1. unfold delta in EN. lia.
    + destruct (Z_le_gt_dec (y' + 1) 4098) as [L|G]; [exact L|].
      pose proof (jan1_mono 4098 y' ltac:(lia)). lia.
  - right. split; [exact EA|]. rewrite (step_lo_weekly r (k + 1) Hfr), <- EN, <- Ao. exact Hmx.
Qed.

Lemma weekly_step_e : forall k cnt s, inv_we k cnt s -> 0 <= k -> okp_we k ->
  exists acc' cnt' b, sp_take r (step_items r k) cnt (c_out s) = (acc', cnt', b) /\
    ((exists s', step rl s = inl s' /\ inv_we (k + 1) cnt' s' /\ c_out s' = acc' /\ b = false) \/
     (exists t, step rl s = inr (acc', t) /\
                (b = true \/ until_lt_start r \/ max_ord < step_lo r (k + 1)))) /\
    (sp_after_until r (step_lo r k, 0) = true -> acc' = c_out s).
Proof.
  intros k cnt s A Hk Hok. pose proof Hok as [Hmax _].
  pose proof A as (Av & Ao & Aw & Ar & At & Ac & Hr1 & Hr2).
  destruct (weekly_days_e k cnt s A Hk Hmax) as (ds & ds' & f & E1 & E2 & E3 & B1 & B2).
  destruct (index_in_year _ _ _ Av) as (_ & _ & Hy).
  pose proof (rebuild_ii_for rl _ _ (c_ii s) Hy Ar) as F.
  destruct (step_from_days r rl HN HW ltac:(rewrite Hfr; reflexivity) s k cnt ds _ _ ds' f _ E1 E2 E3
              (ssorted_filter_zrange _ _ _)) as (out' & c1 & s1 & c1' & b1 & PRE & ET & G2 & G3 & G4).
  { intros i Hi'. apply filter_In in Hi'. destruct Hi' as [Hi' _]. unfold zrange in Hi'.
    pose proof (In_zrange_nat_bounds _ _ _ Hi') as Bi. rewrite (f_yo _ _ F). unfold from_ordinal.
    replace ((1 <=? jan1 (c_year s) + i) && (jan1 (c_year s) + i <=? max_ord)) with true by lia. reflexivity. }
  { exact At. }
  { exact Ac. }
  { rewrite (f_yo _ _ F). apply (SI k (c_year s) Hk Hmax). }
  exists out', c1', b1. split; [exact ET|]. split.
  - destruct s1 as [t|].
    + right. exists t. split; [exact PRE|]. destruct (G3 ltac:(discriminate)) as [H|H]; auto.
    + destruct (G2 eq_refl) as [Hb Ec]. subst c1'.
      destruct (weekly_advance_e k cnt s f c1 out' A Hk Hok) as [(s' & EA & A' & EO)|(EA & Hmx)].
      * left. exists s'. rewrite PRE, EA. split; [reflexivity|]. split; [exact A'|]. split; [exact EO|exact Hb].
      * right. exists TMaxYear. rewrite PRE, EA. split; [reflexivity|]. right. right. exact Hmx.
  - intros AU. apply (G4 (step_lo r k)); [|exact AU].
    intros i Hi'. apply filter_In in Hi'. destruct Hi' as [Hi' _]. unfold zrange in Hi'.
    pose proof (In_zrange_nat_bounds _ _ _ Hi') as Bi. rewrite (f_yo _ _ F).
    rewrite (step_lo_weekly r k Hfr). pose proof (Hcur_rng k Hk). lia.
Qed.

Theorem weekly_easter_run : forall limit n s0, inv_we 0 (r_count r) s0 ->
  (forall j, 0 <= j < Z.of_nat n -> okp_we j) ->
  fst (run rl limit n s0) = fst (spec_loop r limit n 0 (r_count r) (c_out s0)).
Proof.
  intros limit n s0 A0 Hokn.
  destruct wfacts_e as (Hitv & Hwk & V).
  assert (H1 : forall k0 cnt0 s1, inv_we k0 cnt0 s1 -> c_count s1 = cnt0).
  { intros k0 cnt0 s1 (_ & _ & _ & _ & _ & Ac & _). exact Ac. }
  assert (H2 : forall k0, 0 <= k0 -> step_lo r k0 <= step_lo r (k0 + 1)).
  { intros k0 Hk0. rewrite !(step_lo_weekly r _ Hfr). apply wlo_mono; lia. }
  assert (H3 : forall k0 cnt0 s1, inv_we k0 cnt0 s1 -> 0 <= k0 -> okp_we k0 -> step_lo r k0 <= max_ord).
  { intros k0 cnt0 s1 _ _ [Hm _]. rewrite (step_lo_weekly r k0 Hfr). lia. }
  apply (coarse_run_is_spec r rl inv_we okp_we H1 H2 H3 weekly_step_e limit n 0 (r_count r) s0 A0 ltac:(lia)).
  intros j Hj. apply Hokn. lia.
Qed.
End WeeklyEaster.

Lemma we_last_small : we_last + 7 <= max_ord.
Proof. vm_compute. discriminate. Qed.

Lemma okp_from_bound r n : 1 <= r_interval r -> (n <> 0%nat -> wlo r (Z.of_nat n) <= we_last) ->
  forall j, 0 <= j < Z.of_nat n -> okp_we r j.
Proof.
  intros Hitv Hn j Hj. pose proof (Hn ltac:(lia)) as B. pose proof we_last_small as S.
  pose proof (wlo_mono r (j + 1) (Z.of_nat n) Hitv ltac:(lia)) as M1.
  pose proof (wlo_mono r j (j + 1) Hitv ltac:(lia)) as M2.
  unfold okp_we. split; lia.
Qed.

(* ---- without BYSETPOS: pass 0 starts at the start *)
Theorem weekly_easter_iter_correct_nosetpos : forall r rl limit n,
  normalize r = Ok rl -> wfam_e r -> r_bysetpos r = None -> 1583 <= r_y r -> r_y r + 1 <= 4098 ->
  (n <> 0%nat -> wlo r (Z.of_nat n) <= we_last) ->
  fst (iterate rl limit n) = fst (spec_iter r limit n).
Proof.
  intros r rl limit n HN Y Hsp Hy1 Hy2 Hn.
  pose proof Y as [HW Hfr Hp Hs].
  destruct (normalize_misc r rl HN) as (Ni & Nsp & Ny & Nm & Nd & Nc & Nu).
  pose proof (normalize_freq r rl HN) as Nfr. rewrite Hfr in Nfr.
  pose proof (normalize_wkst r rl HN) as Nwk.
  pose proof (plain_only_no_nth r rl HN Hp) as TN.
  assert (Hwf : 1 <= r_interval r /\ 0 <= r_wkst r <= 6 /\ valid_ymd (r_y r) (r_m r) (r_d r) = true).
  { pose proof HW as HW'. unfold spec_wf in HW'.
    repeat match type of HW' with _ && _ = true =>
      let H := fresh "W" in apply andb_true_iff in HW'; destruct HW' as [HW' H] end.
    unfold between in *. split; [lia|]. split; [lia|assumption]. }
  destruct Hwf as (Hitv & Hwk & V).
  pose proof (ord_of_ymd_range _ _ _ V) as R0. fold (sp_ord0 r) in R0.
  destruct (index_in_year _ _ _ V) as (_ & _ & Hy0).
  assert (Hy3 : r_y r <= 4098) by lia.
  destruct (rebuild_succeeds rl (r_y r) (r_m r) Hy0 ltac:(rewrite Nwk; exact Hwk) TN
              (or_intror (conj Hy1 Hy3))) as (ii0 & R0').
  pose proof (timeset_is_spec r rl HN HW ltac:(rewrite Hfr; reflexivity)) as HT.
  unfold iterate, init_state. rewrite Nfr, Nsp, Hsp. change (WEEKLY =? WEEKLY) with true.
  cbn [truthy andb]. cbv iota.
  rewrite Ny, Nm, Nd, R0'. cbn [bind].
  change (WEEKLY <? HOURLY) with true. cbv iota. rewrite HT. cbn [bind]. rewrite Nc.
  unfold spec_iter.
  set (s0 := mkSt _ _ _ _ _ _ _ _ _ _ _).
  assert (C0 : wcur r 0 = sp_ord0 r).
  { destruct (wcur_cases r 0 Hitv Hwk ltac:(lia)) as [(_ & E & _)|(H & _)]; [exact E|lia]. }
  assert (A0 : inv_we r rl (wcur r) 0 (r_count r) s0).
  { unfold inv_we, s0. cbn [c_year c_month c_day c_weekday c_ii c_timeset c_count].
    split; [exact V|]. split; [rewrite C0; reflexivity|]. split; [rewrite C0; reflexivity|].
    split; [exact R0'|]. split; [reflexivity|]. split; [reflexivity|]. split; [exact Hy1|exact Hy2]. }
  pose proof (weekly_easter_run r rl HN Y (wcur r)) as RUN.
  assert (Q : fst (run rl limit n s0) = fst (spec_loop r limit n 0 (r_count r) (c_out s0))).
  { apply RUN.
    - intros k Hk. apply (wcur_week r k Hitv Hwk Hk).
    - intros k Hk. destruct (wcur_cases r (k + 1) Hitv Hwk ltac:(lia)) as [(E0 & _)|(_ & E)]; [lia|exact E].
    - intros k Hk. unfold wcur. lia.
    - intros k y Hk Hmax. rewrite (weekly_step_items r k HW Hfr Hsp Hk Hmax).
      unfold select_pos. rewrite Hsp.
      destruct (wcur_week r k Hitv Hwk Hk) as [_ Bc].
      rewrite <- (cands_by_index r y (wcur r k - jan1 y) (wlo r k + 7 - jan1 y)) by lia.
      replace (jan1 y + (wcur r k - jan1 y)) with (wcur r k) by lia.
      replace (jan1 y + (wlo r k + 7 - jan1 y)) with (wlo r k + 7) by lia. reflexivity.
    - exact A0.
    - apply (okp_from_bound r n Hitv Hn). }
  change (c_out s0) with (@nil instant) in Q.
  destruct (run rl limit n s0) as [out t]. destruct (spec_loop r limit n 0 (r_count r) []) as [acc t'].
  cbn [fst] in *. rewrite Q. reflexivity.
Qed.

(* ---- with BYSETPOS: every pass starts at the week start (prologue of fix 12b1f51) *)
Theorem weekly_easter_iter_correct_setpos : forall r rl limit n,
  normalize r = Ok rl -> wfam_e r -> r_bysetpos r <> None -> 1 <= ws0 r -> 1584 <= r_y r -> r_y r + 1 <= 4098 ->
  (n <> 0%nat -> wlo r (Z.of_nat n) <= we_last) ->
  fst (iterate rl limit n) = fst (spec_iter r limit n).
Proof.
  intros r rl limit n HN Y Hsp Hws Hy1 Hy2 Hn.
  pose proof Y as [HW Hfr Hp Hs].
  destruct (normalize_misc r rl HN) as (Ni & Nsp & Ny & Nm & Nd & Nc & Nu).
  pose proof (normalize_freq r rl HN) as Nfr. rewrite Hfr in Nfr.
  pose proof (normalize_wkst r rl HN) as Nwk.
  pose proof (plain_only_no_nth r rl HN Hp) as TN.
  assert (Hwf : 1 <= r_interval r /\ 0 <= r_wkst r <= 6 /\ valid_ymd (r_y r) (r_m r) (r_d r) = true).
  { pose proof HW as HW'. unfold spec_wf in HW'.
    repeat match type of HW' with _ && _ = true =>
      let H := fresh "W" in apply andb_true_iff in HW'; destruct HW' as [HW' H] end.
    unfold between in *. split; [lia|]. split; [lia|assumption]. }
  destruct Hwf as (Hitv & Hwk & V).
  pose proof (ord_of_ymd_range _ _ _ V) as R0. fold (sp_ord0 r) in R0.
  pose proof (timeset_is_spec r rl HN HW ltac:(rewrite Hfr; reflexivity)) as HT.
  assert (TS : truthy (bysetpos rl) = true).
  { rewrite Nsp. destruct (r_bysetpos r) as [poss|] eqn:EB; [|contradiction].
    pose proof HW as HW'. unfold spec_wf in HW'.
    repeat match type of HW' with _ && _ = true =>
      let H := fresh "W" in apply andb_true_iff in HW'; destruct HW' as [HW' H] end.
    rewrite EB in *. match goal with H : ne_opt (Some poss) = true |- _ => rename H into HE end.
    destruct poss; [discriminate HE|reflexivity]. }
  set (back := (weekday (r_y r) (r_m r) (r_d r) - r_wkst r) mod 7).
  assert (EB : sp_ord0 r - back = ws0 r) by reflexivity.
  assert (EW0 : wlo r 0 = ws0 r) by (unfold wlo; lia).
  assert (PRO : exists y0 m0 d0,
     (if negb (back =? 0)
      then let '(y', m', d') := ymd_of_ord (Z.max (sp_ord0 r - back) 1) in
           (y', m', d', weekday_of_ord (Z.max (sp_ord0 r - back) 1))
      else (r_y r, r_m r, r_d r, weekday (r_y r) (r_m r) (r_d r))) = (y0, m0, d0, r_wkst r) /\
     valid_ymd y0 m0 d0 = true /\ ord_of_ymd y0 m0 d0 = ws0 r).
  { destruct (back =? 0) eqn:E0; cbn [negb andb].
    - exists (r_y r), (r_m r), (r_d r). split; [|split; [exact V|]].
      + f_equal. unfold back, weekday in *. fold (sp_ord0 r) in *.
        pose proof (weekday_of_ord_range (sp_ord0 r)). lia.
      + fold (sp_ord0 r). lia.
    - replace (Z.max (sp_ord0 r - back) 1) with (ws0 r) by lia.
      pose proof (ymd_of_ord_valid (ws0 r) ltac:(unfold back in *; lia)) as VV.
      destruct (ymd_of_ord (ws0 r)) as [[y0 m0] d0]. destruct VV as [V1 V2].
      exists y0, m0, d0. split; [rewrite <- EW0, (wlo_weekday r 0 Hwk); reflexivity|]. split; assumption. }
  destruct PRO as (y0 & m0 & d0 & EP & V0 & O0).
  destruct (index_in_year _ _ _ V0) as (I1 & _ & Hy0).
  (* the week start lies in the start's year or the one before *)
  assert (Hyr : r_y r - 1 <= y0 <= r_y r).
  { destruct (index_in_year _ _ _ V) as (J1 & _ & _). fold (sp_ord0 r) in J1. rewrite O0 in I1.
    assert (B6 : 0 <= sp_ord0 r - ws0 r <= 6) by (unfold ws0; lia).
    split.
    - destruct (Z_le_gt_dec (r_y r - 1) y0) as [L|G]; [exact L|].
      pose proof (jan1_mono (y0 + 1) (r_y r - 1) ltac:(lia)) as JM. rewrite jan1_succ in JM.
      pose proof (jan1_succ (r_y r - 1)) as JS. replace (r_y r - 1 + 1) with (r_y r) in JS by lia.
      assert (365 <= year_len (r_y r - 1)) by (unfold year_len; destruct (is_leap (r_y r - 1)); lia). lia.
    - destruct (Z_le_gt_dec y0 (r_y r)) as [L|G]; [exact L|].
      pose proof (jan1_mono (r_y r + 1) y0 ltac:(lia)) as JM. rewrite jan1_succ in JM. lia. }
  assert (Hy3 : 1583 <= y0 <= 4098) by lia.
  destruct (rebuild_succeeds rl y0 m0 Hy0 ltac:(rewrite Nwk; exact Hwk) TN (or_intror Hy3)) as (ii0 & R0').
  unfold iterate, init_state. rewrite Nfr, TS. change (WEEKLY =? WEEKLY) with true. cbn [andb]. cbv iota.
  rewrite Ny, Nm, Nd, Nwk. fold (sp_ord0 r). fold back. rewrite EP. rewrite R0'. cbn [bind].
  change (WEEKLY <? HOURLY) with true. cbv iota. rewrite HT. cbn [bind]. rewrite Nc.
  unfold spec_iter.
  set (s0 := mkSt _ _ _ _ _ _ _ _ _ _ _).
  assert (A0 : inv_we r rl (wlo r) 0 (r_count r) s0).
  { unfold inv_we, s0. cbn [c_year c_month c_day c_weekday c_ii c_timeset c_count].
    split; [exact V0|]. split; [rewrite O0, EW0; reflexivity|].
    split; [rewrite (wlo_weekday r 0 Hwk); reflexivity|].
    split; [exact R0'|]. split; [reflexivity|]. split; [reflexivity|]. split; lia. }
  pose proof (weekly_easter_run r rl HN Y (wlo r)) as RUN.
  assert (Q : fst (run rl limit n s0) = fst (spec_loop r limit n 0 (r_count r) (c_out s0))).
  { apply RUN.
    - intros k Hk. lia.
    - intros k Hk. reflexivity.
    - intros k Hk. pose proof (wlo_mono r 0 k Hitv Hk). lia.
    - intros k y Hk Hmax.
      pose proof (wlo_mono r 0 k Hitv Hk) as M0.
      rewrite <- (cands_by_index r y (wlo r k - jan1 y) (wlo r k + 7 - jan1 y)) by lia.
      unfold step_items, is_coarse. rewrite Hfr. change (WEEKLY <=? DAILY) with true. cbv iota.
      f_equal. f_equal. unfold cands_coarse, period_days. rewrite Hfr.
      change (WEEKLY =? YEARLY) with false. change (WEEKLY =? MONTHLY) with false. change (WEEKLY =? WEEKLY) with true.
      cbv iota zeta. fold (ws0 r). fold (wlo r k).
      replace (Z.max (wlo r k) 1) with (jan1 y + (wlo r k - jan1 y)) by lia.
      replace (Z.min (wlo r k + 6) max_ord + 1) with (jan1 y + (wlo r k + 7 - jan1 y)) by lia.
      apply flat_map_filter.
    - exact A0.
    - apply (okp_from_bound r n Hitv Hn). }
  change (c_out s0) with (@nil instant) in Q.
  destruct (run rl limit n s0) as [out t]. destruct (spec_loop r limit n 0 (r_count r) []) as [acc t'].
  cbn [fst] in *. rewrite Q. reflexivity.
Qed.

(* WEEKLY with BYEASTER, with or without BYSETPOS *)
Theorem weekly_easter_iter_correct : forall r rl limit n,
  normalize r = Ok rl -> wfam_e r -> (r_bysetpos r <> None -> 1 <= ws0 r) -> 1584 <= r_y r -> r_y r + 1 <= 4098 ->
  (n <> 0%nat -> wlo r (Z.of_nat n) <= we_last) ->
  fst (iterate rl limit n) = fst (spec_iter r limit n).
Proof.
  intros r rl limit n HN Y Hws Hy1 Hy2 Hn.
  destruct (r_bysetpos r) as [poss|] eqn:EB.
  - apply (weekly_easter_iter_correct_setpos r rl limit n HN Y); try assumption; try lia.
    + rewrite EB. discriminate.
    + apply Hws. discriminate.
  - apply (weekly_easter_iter_correct_nosetpos r rl limit n HN Y EB); try assumption; lia.
Qed.

(* non-vacuity: the witness of the repaired finding F-C01-easter-week -- rrule(WEEKLY, dtstart=datetime(2016,12,26,9,0),
   byeaster=(-105,), count=2): 1 January 2017 = Easter 2017 - 105 lies in the week that began on 26 December 2016;
   the next one is 6 January 2019 = Easter 2019 - 105 *)
Definition raw_weekly_easter_example : raw :=
  mkRaw WEEKLY false 2016 12 26 9 0 0 1 0 (Some 2) None false
        None None None None (Some [-105]) None None None None None.
Example weekly_easter_example :
  wfam_e raw_weekly_easter_example /\
  match normalize raw_weekly_easter_example with
  | Ok rl => fst (iterate rl 100 120) = [(ord_of_ymd 2017 1 1, 32400); (ord_of_ymd 2019 1 6, 32400)]
  | Err _ => False
  end.
Proof. split; [constructor; reflexivity|vm_compute; reflexivity]. Qed.
