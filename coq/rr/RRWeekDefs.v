(* C01 layer 2 -- definitions for the week-number mask theorem: year shapes, the shape-level
   declarative week predicate, the single-member mask and the executable comparison used by the
   finite sweeps (RRWeekSweep*.v).  A year shape is everything build_wnomask and the week
   predicate read from the calendar: length of the year, weekday of its 1 January, lengths of the
   previous and the next year. *)
From Coq Require Import ZArith List Bool.
From V Require Import base.Cal gen.RrTables rr.RRBase rr.RRNorm rr.RRMasks.
Import ListNotations.
Open Scope Z_scope.

Record shape := mkShape { sh_ylen : Z; sh_ywd : Z; sh_lylen : Z; sh_nylen : Z }.

(* index (relative to 1 January of the shape's year) of 1 January of the year k years later *)
Definition jan1_rel (sh : shape) (k : Z) : Z :=
  if k <=? -1 then - sh_lylen sh else if k =? 0 then 0
  else if k =? 1 then sh_ylen sh else sh_ylen sh + sh_nylen sh.

(* first day of week 1 (first wkst-week with >= 4 days in the year), relative index *)
Definition w1s_rel (sh : shape) (wk k : Z) : Z :=
  let j1 := jan1_rel sh k in
  let off := ((sh_ywd sh + j1) mod 7 - wk) mod 7 in
  if off <=? 3 then j1 - off else j1 - off + 7.

(* (relative week-year, week number, weeks in that week-year) of day index i *)
Definition week_rel (sh : shape) (wk i : Z) : Z * Z * Z :=
  let ki := if i <? sh_ylen sh then 0 else 1 in
  let wy := if i <? w1s_rel sh wk ki then ki - 1
            else if w1s_rel sh wk (ki + 1) <=? i then ki + 1 else ki in
  (wy, (i - w1s_rel sh wk wy) / 7 + 1, (w1s_rel sh wk (wy + 1) - w1s_rel sh wk wy) / 7).

(* day index i is in week n, or n is that week's number counted from the end of its week-year *)
Definition week_matches (sh : shape) (wk i n : Z) : bool :=
  let '(_, w, nw) := week_rel sh wk i in (n =? w) || (n =? w - nw - 1).

(* what rebuild() passes to build_wnomask for a year of this shape *)
Definition shape_mask (sh : shape) (wk : Z) (bwn : list Z) : res (list Z) :=
  build_wnomask_core (sh_lylen sh) (sh_nylen sh) (sh_ylen sh) (sh_ywd sh) wk
                     (py_from T_WDAYMASK (sh_ywd sh)) bwn.

Definition nz (v : Z) : bool := negb (v =? 0).

Fixpoint list_eqb (a b : list bool) : bool :=
  match a, b with
  | [], [] => true
  | x :: s, y :: t => Bool.eqb x y && list_eqb s t
  | _, _ => false
  end.

(* The mask indices the iteration can read: the days of the year, and of the 7-day extension only
   the days of the week that began inside the year (the cross-year week of a WEEKLY rule). *)
Definition used_index (sh : shape) (wk i : Z) : bool :=
  (0 <=? i) && (i <? sh_ylen sh + 7) &&
  ((i <? sh_ylen sh) || (i - ((sh_ywd sh + i) mod 7 - wk) mod 7 <? sh_ylen sh)).

(* on every used index, the mask built for the single member n says "day of week n" *)
Definition single_ok (sh : shape) (wk n : Z) : bool :=
  match shape_mask sh wk [n] with
  | Ok m => (zlen m =? sh_ylen sh + 7) &&
            forallb (fun p => let '(i, v) := p in
                       negb (used_index sh wk i) || Bool.eqb (nz v) (week_matches sh wk i n))
                    (combine (zrange 0 (sh_ylen sh + 7)) m)
  | Err _ => false
  end.

(* the mask is at least built without error and has the right length *)
Definition single_built (sh : shape) (wk n : Z) : bool :=
  match shape_mask sh wk [n] with
  | Ok m => zlen m =? sh_ylen sh + 7
  | Err _ => false
  end.

(* the 28 year shapes: leap year (neighbours common), or common year with at most one leap neighbour *)
Definition shapes_of_wd (wd : Z) : list shape :=
  [mkShape 366 wd 365 365; mkShape 365 wd 366 365; mkShape 365 wd 365 366; mkShape 365 wd 365 365].
Definition all_shapes : list shape := flat_map shapes_of_wd (zrange 0 7).
Definition weeknos : list Z := zrange (-53) 0 ++ zrange 1 54.
