(* finite sweep shard: year shapes whose 1 January is weekday 6 (see RRWeekSweepDefs.v) *)
From Coq Require Import ZArith List Bool.
From V Require Import rr.RRWeekSweepDefs.
Open Scope Z_scope.
Lemma sweep_wd_6 : sweep_wd 6 = true.
Proof. vm_compute. reflexivity. Qed.
