(* C01 -- the sub-daily stream theorem (builder rset, RRSubStopFam / RRSubCloseFam) without `plain_only`:
   numeric BYDAY prefixes are ignored under HOURLY / MINUTELY / SECONDLY (RRStripThm). *)
From Coq Require Import ZArith List Bool Lia ZifyBool.
From V Require Import base.Cal rr.RRBase rr.RRNorm rr.RRMasks rr.RRIter rr.RRSpec rr.RRWeekFinal rr.RRFilterSpec
  rr.RRSubFamily rr.RRSubCloseFam rr.RRSubStopFam rr.RRStripThm.
Import ListNotations.
Open Scope Z_scope.

Record sfam_all (r : raw) (fr : Z) : Prop := mk_sfam_all {
  sa_wf : spec_wf r = true;
  sa_freq : r_freq r = fr;
  sa_setpos : r_bysetpos r = None;
  sa_weekno : all_opt (r_byweekno r) weekno_safe = true;
  sa_easter : r_byeaster r = None
}.

Lemma sfam_strip r fr : sfam_all r fr -> sfam (strip r) fr.
Proof.
  intros [HW Hf Hsp Hs He]. constructor.
  - rewrite spec_wf_strip. exact HW.
  - exact Hf.
  - apply plain_only_strip.
  - exact Hsp.
  - exact Hs.
  - exact He.
Qed.

(* model and specification enumerate the same stream, position by position *)
Theorem subdaily_iter_correct_all : forall r rl fr, normalize r = Ok rl -> sfam_all r fr ->
  fr = HOURLY \/ fr = MINUTELY \/ fr = SECONDLY ->
  forall i x,
    (exists limit n, nth_error (fst (iterate rl limit n)) i = Some x) <->
    (exists L d, nth_error (fst (spec_iter r L d)) i = Some x).
Proof.
  intros r rl fr HN F Hfr i x.
  assert (Hm : (MONTHLY <? r_freq r) = true).
  { destruct F as [_ Hf _ _ _]. rewrite Hf. destruct Hfr as [->|[->| ->]]; reflexivity. }
  pose proof (subdaily_iter_correct_family (strip r) rl fr
                ltac:(rewrite (normalize_strip r Hm); exact HN) (sfam_strip r fr F) Hfr i x) as Q.
  rewrite Q. split; intros (L & d & H); exists L, d.
  - rewrite <- (spec_iter_strip r L d Hm). exact H.
  - rewrite (spec_iter_strip r L d Hm). exact H.
Qed.

(* non-vacuity: rrule(HOURLY, dtstart=datetime(2023,12,31,17,0), interval=5, byweekday=(MO(+2), WE), count=4): the
   numeric prefix is ignored *)
Definition raw_hourly_nth_example : raw :=
  mkRaw HOURLY false 2023 12 31 17 0 0 5 0 (Some 4) None false
        None None None None None None (Some [(0, 2); (2, 0)]) None None None.
Example hourly_nth_example :
  sfam_all raw_hourly_nth_example HOURLY /\ plain_only raw_hourly_nth_example = false /\
  match normalize raw_hourly_nth_example with
  | Ok rl => fst (iterate rl 100 60) =
             [(ord_of_ymd 2024 1 1, 10800); (ord_of_ymd 2024 1 1, 28800); (ord_of_ymd 2024 1 1, 46800);
              (ord_of_ymd 2024 1 1, 64800)] /\
             fst (iterate rl 100 60) = fst (spec_iter raw_hourly_nth_example 100 60)
  | Err _ => False
  end.
Proof. split; [constructor; reflexivity|split; [reflexivity|vm_compute; split; reflexivity]]. Qed.
