(* C01 sub-daily: the time set of one pass = the specification's period_times of that period.
   HOURLY: htimeset expands BYMINUTE x BYSECOND (or the start's values) for the cursor's hour;
   MINUTELY: mtimeset expands BYSECOND; SECONDLY: the single cursor time.  Through the
   constructor (normalize), for rules in spec_wf.  Written by the rset builder (new file). *)
From Coq Require Import ZArith List Bool Lia ZifyBool.
From V Require Import base.Cal gen.RrTables easter.EasterSpec rr.RRBase rr.RRNorm rr.RRMasks rr.RRIter
  rr.RRSpec rr.RRTimesetThm rr.RRSubNorm.
Import ListNotations.
Open Scope Z_scope.

Lemma spec_wf_times : forall r, spec_wf r = true ->
  0 <= sp_H0 r <= 23 /\ 0 <= sp_M0 r <= 59 /\ 0 <= sp_S0 r <= 59 /\
  in_range 0 23 (eff_times (r_byhour r) (sp_H0 r)) /\
  in_range 0 59 (eff_times (r_byminute r) (sp_M0 r)) /\
  in_range 0 59 (eff_times (r_bysecond r) (sp_S0 r)) /\
  ne_opt (r_byhour r) = true /\ ne_opt (r_byminute r) = true /\ ne_opt (r_bysecond r) = true /\
  1 <= r_interval r.
Proof.
  intros r HW. unfold spec_wf in HW.
  repeat match type of HW with _ && _ = true =>
    let H := fresh "W" in apply andb_true_iff in HW; destruct HW as [HW H] end.
  assert (VH : 0 <= sp_H0 r <= 23 /\ 0 <= sp_M0 r <= 59 /\ 0 <= sp_S0 r <= 59).
  { match goal with H : valid_hms _ _ _ = true |- _ => unfold valid_hms in H end. lia. }
  destruct VH as (VH & VM & VS).
  split; [exact VH|]. split; [exact VM|]. split; [exact VS|].
  split; [apply all_opt_range; assumption|]. split; [apply all_opt_range; assumption|].
  split; [apply all_opt_range; assumption|].
  repeat split; try assumption. lia.
Qed.

Lemma concat_map_flat_map : forall (A B : Type) (f : A -> list B) l, concat (map f l) = flat_map f l.
Proof. intros. symmetry. apply flat_map_concat_map. Qed.

Lemma mk_time_ok : forall h m s, 0 <= h <= 23 -> 0 <= m <= 59 -> 0 <= s <= 59 ->
  mk_time h m s = Ok (h * 3600 + m * 60 + s).
Proof.
  intros h m s Hh Hm Hs. unfold mk_time, valid_hms.
  replace ((0 <=? h) && (h <=? 23) && (0 <=? m) && (m <=? 59) && (0 <=? s) && (s <=? 59)) with true by lia.
  reflexivity.
Qed.

Lemma tprod_single_h : forall h ms ss, tprod [h] ms ss = flat_map (fun m => map (fun s => h * 3600 + m * 60 + s) ss) ms.
Proof. intros. unfold tprod. cbn [flat_map]. apply app_nil_r. Qed.

Lemma ssorted_single : forall x, ssorted [x] = true.
Proof. reflexivity. Qed.

(* ------------------------------------------------------------------ HOURLY *)
Theorem htimeset_is_spec : forall r rl h, normalize r = Ok rl -> spec_wf r = true -> r_freq r = HOURLY ->
  0 <= h <= 23 -> in_opt (r_byhour r) (Z.eqb h) = true ->
  htimeset rl h = Ok (period_times r (h * 3600)).
Proof.
  intros r rl h Hn HW Hf Hh Hadm.
  destruct (spec_wf_times r HW) as (VH & VM & VS & RH & RM & RS & _).
  destruct (normalize_time_fields r rl Hn) as [_ [_ [_ [_ [_ [_ [Bm Bs]]]]]]].
  unfold by_field in Bm, Bs. rewrite Hf in Bm, Bs.
  change (HOURLY =? MINUTELY) with false in Bm. change (HOURLY <? MINUTELY) with true in Bm.
  change (HOURLY =? SECONDLY) with false in Bs. change (HOURLY <? SECONDLY) with true in Bs.
  assert (Em : byminute rl = Some (eff_times (r_byminute r) (sp_M0 r))).
  { unfold eff_times. destruct (r_byminute r); rewrite Bm; reflexivity. }
  assert (Es : bysecond rl = Some (eff_times (r_bysecond r) (sp_S0 r))).
  { unfold eff_times. destruct (r_bysecond r); rewrite Bs; reflexivity. }
  set (ms := eff_times (r_byminute r) (sp_M0 r)) in *. set (ss := eff_times (r_bysecond r) (sp_S0 r)) in *.
  (* specification *)
  assert (SP : period_times r (h * 3600) = tprod [h] ms ss).
  { unfold period_times. rewrite Hf.
    replace (h * 3600 / 3600) with h by (symmetry; apply Z.div_mul; lia).
    change (HOURLY <? HOURLY) with false. change (HOURLY <? MINUTELY) with true.
    change (HOURLY <? SECONDLY) with true. cbv iota. rewrite Hadm.
    apply spec_product_valid; [|exact RM|exact RS]. intros x [<-|[]]. lia. }
  rewrite SP.
  (* model *)
  unfold htimeset. rewrite Em, Es. cbn [iter_opt bind].
  rewrite (map_res_all_ok _ (fun m => map (fun s => h * 3600 + m * 60 + s) ss)).
  - cbn [bind]. f_equal. rewrite concat_map_flat_map, <- tprod_single_h.
    apply sortZ_of_sorted. apply tprod_sorted; try assumption; [reflexivity| |]; apply sort_set_sorted.
  - intros m Hm. apply map_res_all_ok. intros s Hs. apply mk_time_ok; [lia|apply RM; exact Hm|apply RS; exact Hs].
Qed.

(* ------------------------------------------------------------------ MINUTELY *)
Theorem mtimeset_is_spec : forall r rl h m, normalize r = Ok rl -> spec_wf r = true -> r_freq r = MINUTELY ->
  0 <= h <= 23 -> 0 <= m <= 59 ->
  in_opt (r_byhour r) (Z.eqb h) = true -> in_opt (r_byminute r) (Z.eqb m) = true ->
  mtimeset rl h m = Ok (period_times r (h * 3600 + m * 60)).
Proof.
  intros r rl h m Hn HW Hf Hh Hm Hadh Hadm.
  destruct (spec_wf_times r HW) as (VH & VM & VS & RH & RM & RS & _).
  destruct (normalize_time_fields r rl Hn) as [_ [_ [_ [_ [_ [_ [_ Bs]]]]]]].
  unfold by_field in Bs. rewrite Hf in Bs.
  change (MINUTELY =? SECONDLY) with false in Bs. change (MINUTELY <? SECONDLY) with true in Bs.
  assert (Es : bysecond rl = Some (eff_times (r_bysecond r) (sp_S0 r))).
  { unfold eff_times. destruct (r_bysecond r); rewrite Bs; reflexivity. }
  set (ss := eff_times (r_bysecond r) (sp_S0 r)) in *.
  assert (SP : period_times r (h * 3600 + m * 60) = tprod [h] [m] ss).
  { unfold period_times. rewrite Hf.
    replace ((h * 3600 + m * 60) / 3600) with h by (apply (Z.div_unique _ 3600 _ (m * 60)); lia).
    replace ((h * 3600 + m * 60) / 60 mod 60) with m.
    2:{ replace ((h * 3600 + m * 60) / 60) with (h * 60 + m) by (apply (Z.div_unique _ 60 _ 0); lia).
        apply (Z.mod_unique _ 60 h m); lia. }
    change (MINUTELY <? HOURLY) with false. change (MINUTELY <? MINUTELY) with false.
    change (MINUTELY <? SECONDLY) with true. cbv iota. rewrite Hadh, Hadm.
    apply spec_product_valid; [| |exact RS]; intros x [<-|[]]; lia. }
  rewrite SP. unfold mtimeset. rewrite Es. cbn [iter_opt bind].
  rewrite (map_res_all_ok _ (fun s => h * 3600 + m * 60 + s)).
  - cbn [bind]. f_equal. unfold tprod. cbn [flat_map]. rewrite !app_nil_r.
    apply sortZ_of_sorted.
    pose proof (tprod_sorted [h] [m] ss eq_refl eq_refl (sort_set_sorted _)
                  ltac:(intros x [<-|[]]; lia) RS) as T.
    unfold tprod in T. cbn [flat_map] in T. rewrite !app_nil_r in T. exact T.
  - intros s Hs. apply mk_time_ok; [lia|lia|apply RS; exact Hs].
Qed.

(* ------------------------------------------------------------------ SECONDLY *)
Theorem stimeset_is_spec : forall r h m s, spec_wf r = true -> r_freq r = SECONDLY ->
  0 <= h <= 23 -> 0 <= m <= 59 -> 0 <= s <= 59 ->
  in_opt (r_byhour r) (Z.eqb h) = true -> in_opt (r_byminute r) (Z.eqb m) = true ->
  in_opt (r_bysecond r) (Z.eqb s) = true ->
  stimeset h m s = Ok (period_times r (h * 3600 + m * 60 + s)).
Proof.
  intros r h m s HW Hf Hh Hm Hs A1 A2 A3.
  unfold stimeset. rewrite mk_time_ok by assumption. cbn [bind]. f_equal.
  unfold period_times. rewrite Hf.
  replace ((h * 3600 + m * 60 + s) / 3600) with h by (apply (Z.div_unique _ 3600 _ (m * 60 + s)); lia).
  replace ((h * 3600 + m * 60 + s) / 60 mod 60) with m.
  2:{ replace ((h * 3600 + m * 60 + s) / 60) with (h * 60 + m) by (apply (Z.div_unique _ 60 _ s); lia).
      apply (Z.mod_unique _ 60 h m); lia. }
  replace ((h * 3600 + m * 60 + s) mod 60) with s by (apply (Z.mod_unique _ 60 (h * 60 + m) s); lia).
  change (SECONDLY <? HOURLY) with false. change (SECONDLY <? MINUTELY) with false.
  change (SECONDLY <? SECONDLY) with false. cbv iota. rewrite A1, A2, A3. cbn [flat_map].
  unfold valid_hms. replace ((0 <=? h) && (h <=? 23) && (0 <=? m) && (m <=? 59) && (0 <=? s) && (s <=? 59)) with true by lia.
  reflexivity.
Qed.
