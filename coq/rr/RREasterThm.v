(* C01 layer 3 -- the easter mask: for EVERY Easter index, year length and list of offsets the mask
   built by rebuild() marks index j exactly when j = eyday + offset for a listed offset (unbounded,
   by the union lemma); at calendar level, for the years where C19 proves easter() right
   (1583..4099), the days of the year itself (i < yearlen) are marked exactly when the day is
   Easter of that year plus a listed offset.  The 7-day extension is filled from the OLD year's
   Easter, which is where the statement fails (F-C01-easter-week): eastermask_extension_refuted. *)
From Coq Require Import ZArith List Bool Lia.
From V Require Import base.Cal gen.RrTables gen.EasterGen easter.EasterSpec easter.EasterThm
  rr.RRBase rr.RRNorm rr.RRMasks rr.RRSpec rr.RROverlay rr.RRWeekThm.
Import ListNotations.
Open Scope Z_scope.

Lemma existsb_ext' {A} (f g : A -> bool) l : (forall x, f x = g x) -> existsb f l = existsb g l.
Proof. intros H. induction l as [|x t IH]; [reflexivity|]. cbn [existsb]. rewrite H, IH. reflexivity. Qed.

Lemma set_nat_zeros_nth len : forall k j, (k < len)%nat ->
  nth j (set_nat (zeros len) k 1) 0 = if Nat.eqb j k then 1 else 0.
Proof.
  induction len as [|len IH]; intros k j Hk; [lia|].
  destruct k as [|k]; destruct j as [|j]; cbn [zeros repeat set_nat nth Nat.eqb]; try reflexivity.
  - fold (zeros len). apply nth_zeros.
  - fold (zeros len). apply IH. lia.
Qed.

Lemma py_set_zeros len i : 0 <= i < Z.of_nat len ->
  py_set (zeros len) i 1 = Ok (set_nat (zeros len) (Z.to_nat i) 1).
Proof.
  intros H. unfold py_set, zlen, zeros. rewrite repeat_length.
  destruct (i <? 0) eqn:E; [lia|].
  destruct ((i <? 0) || (Z.of_nat len <=? i))%bool eqn:E2; [lia|reflexivity].
Qed.

Theorem eastermask_fold_correct : forall eyday ylen offs, 0 <= ylen ->
  exists m, build_eastermask eyday ylen offs = Ok m /\ zlen m = ylen + 7 /\
    forall j, 0 <= j < ylen + 7 ->
      nzb (nth (Z.to_nat j) m 0) = existsb (fun off => eyday + off =? j) offs.
Proof.
  intros eyday ylen offs Hy. unfold build_eastermask, py_repeat.
  set (len := Z.to_nat (ylen + 7)). fold (zeros len).
  set (ops := fun (mask : list Z) (offset : Z) =>
     if (0 <=? eyday + offset) && (eyday + offset <? ylen + 7)
     then py_set mask (eyday + offset) 1 else Ok mask).
  set (a := fun off => if (0 <=? eyday + off) && (eyday + off <? ylen + 7)
                       then set_nat (zeros len) (Z.to_nat (eyday + off)) 1 else zeros len).
  assert (Hadd : forall x, additive (fun m => ops m x)).
  { intros x. unfold ops. destruct (_ && _); [apply additive_py_set|apply additive_id]. }
  assert (Hok : forall x, In x offs -> ops (zeros len) x = Ok (a x)).
  { intros x _. unfold ops, a. destruct ((0 <=? eyday + x) && (eyday + x <? ylen + 7)) eqn:E; [|reflexivity].
    apply py_set_zeros. unfold len. lia. }
  destruct (fold_additive_pointwise ops len a Hadd offs Hok) as (m & Em & Lm & Pm).
  exists m. split; [exact Em|]. split; [unfold zlen; rewrite Lm; unfold len; lia|].
  intros j Hj. rewrite Pm. apply existsb_ext'. intros off. unfold a.
  destruct ((0 <=? eyday + off) && (eyday + off <? ylen + 7)) eqn:E.
  - rewrite set_nat_zeros_nth by (unfold len; lia). unfold nzb.
    destruct (Nat.eqb (Z.to_nat j) (Z.to_nat (eyday + off))) eqn:E2.
    + apply Nat.eqb_eq in E2. assert (eyday + off = j) by lia. subst j. rewrite Z.eqb_refl. reflexivity.
    + apply Nat.eqb_neq in E2. destruct (eyday + off =? j) eqn:E3; [|reflexivity].
      apply Z.eqb_eq in E3. subst j. contradiction.
  - rewrite nth_zeros. unfold nzb. cbn. symmetry. apply Z.eqb_neq. lia.
Qed.

(* easter() as the model calls it = the specification's Easter, for the years of C19's theorem *)
Lemma easter_ord_is_spec year : 1583 <= year <= 4099 -> easter_ord year = Ok (easter_ord_spec year).
Proof.
  intros Hy. unfold easter_ord, easter_ord_spec, spec_western.
  rewrite easter_default_lemma.
  destruct (easter_western_lemma year Hy) as (m & d & E & Emd & _).
  rewrite E. rewrite <- Emd. reflexivity.
Qed.

(* calendar level: days of the year itself *)
Theorem eastermask_correct_own_year : forall year offs, 1583 <= year <= 4099 ->
  let yo := ord_of_ymd year 1 1 in
  exists eo m, easter_ord year = Ok eo /\ build_eastermask (eo - yo) (year_len year) offs = Ok m /\
    forall i, 0 <= i < year_len year + 7 ->
      nzb (nth (Z.to_nat i) m 0) = existsb (fun x => yo + i =? easter_ord_spec year + x) offs.
Proof.
  intros year offs Hy yo. exists (easter_ord_spec year).
  assert (Hl : 0 <= year_len year) by (unfold year_len; destruct (is_leap year); lia).
  destruct (eastermask_fold_correct (easter_ord_spec year - yo) (year_len year) offs Hl) as (m & Em & _ & Pm).
  exists m. split; [apply easter_ord_is_spec; exact Hy|]. split; [exact Em|].
  intros i Hi. rewrite (Pm i Hi). apply existsb_ext'. intros x.
  destruct (easter_ord_spec year - yo + x =? i) eqn:E1; destruct (yo + i =? easter_ord_spec year + x) eqn:E2;
    try reflexivity; lia.
Qed.

(* ... which for the extension (indices >= yearlen, days of the NEXT year) is the OLD year's
   Easter: 1 January 2017 (index 366 of 2016) is marked for offset 280 although
   Easter 2017 + 280 is 21 January 2018 *)
Theorem eastermask_extension_refuted : exists year offs i eo m,
  easter_ord year = Ok eo /\ year_len year <= i < year_len year + 7 /\
  build_eastermask (eo - ord_of_ymd year 1 1) (year_len year) offs = Ok m /\
  nzb (nth (Z.to_nat i) m 0) = true /\
  existsb (fun x => ord_of_ymd year 1 1 + i =? easter_ord_spec (year + 1) + x) offs = false.
Proof.
  exists 2016, [280], 366, (ord_of_ymd 2016 3 27).
  exists (match build_eastermask (ord_of_ymd 2016 3 27 - ord_of_ymd 2016 1 1) 366 [280] with
          | Ok m => m | Err _ => [] end).
  vm_compute. repeat split; try reflexivity; discriminate.
Qed.
