(* C01 layer 3 -- the easter mask (after /repo commit c760855): for EVERY pair of Easter indices,
   year length and list of offsets the mask built by rebuild() marks a day of the year itself exactly
   when it is this year's Easter plus a listed offset, and one of the 7 extra days exactly when it is
   NEXT year's Easter plus a listed offset (unbounded, by the union lemma); at calendar level for the
   years where C19 proves easter() right (1583..4099).  (Before the fix the extra days used the old
   year's Easter: fixed finding F-C01-easter-week.) *)
From Coq Require Import ZArith List Bool Lia ZifyBool.
From V Require Import base.Cal gen.RrTables gen.EasterGen easter.EasterSpec easter.EasterThm
  rr.RRBase rr.RRNorm rr.RRMasks rr.RRSpec rr.RROverlay rr.RRWeekThm.
Import ListNotations.
Open Scope Z_scope.

Lemma existsb_ext' {A} (f g : A -> bool) l : (forall x, f x = g x) -> existsb f l = existsb g l.
Proof. intros H. induction l as [|x t IH]; [reflexivity|]. cbn [existsb]. rewrite H, IH. reflexivity. Qed.

Lemma set_nat_zeros_nth len : forall k j, (k < len)%nat ->
  nth j (set_nat (zeros len) k 1) 0 = if Nat.eqb j k then 1 else 0.
Proof.
  induction len as [|len IH]; intros k j Hk; [lia|].
  destruct k as [|k]; destruct j as [|j]; cbn [zeros repeat set_nat nth Nat.eqb]; try reflexivity.
  - fold (zeros len). apply nth_zeros.
  - fold (zeros len). apply IH. lia.
Qed.

Lemma py_set_zeros len i : 0 <= i < Z.of_nat len ->
  py_set (zeros len) i 1 = Ok (set_nat (zeros len) (Z.to_nat i) 1).
Proof.
  intros H. unfold py_set, zlen, zeros. rewrite repeat_length.
  destruct (i <? 0) eqn:E; [lia|].
  destruct ((i <? 0) || (Z.of_nat len <=? i))%bool eqn:E2; [lia|reflexivity].
Qed.

Lemma existsb_all_false {A} (f : A -> bool) l : (forall x, f x = false) -> existsb f l = false.
Proof. intros H. induction l as [|x t IH]; cbn [existsb]; [reflexivity|]. rewrite H, IH. reflexivity. Qed.

(* one conditional-set loop on the zero mask: marks e + off for the offsets that land in [lo, hi) *)
Lemma cond_set_fold (e lo hi : Z) (len : nat) offs : 0 <= lo -> hi <= Z.of_nat len ->
  let ops := fun (mask : list Z) (offset : Z) =>
     if (lo <=? e + offset) && (e + offset <? hi) then py_set mask (e + offset) 1 else Ok mask in
  additive (fun m => fold_res ops offs m) /\
  exists m, fold_res ops offs (zeros len) = Ok m /\ length m = len /\
    forall j, 0 <= j -> nzb (nth (Z.to_nat j) m 0) =
                        existsb (fun off => (e + off =? j) && (lo <=? j) && (j <? hi)) offs.
Proof.
  intros Hlo Hhi ops.
  set (a := fun off => if (lo <=? e + off) && (e + off <? hi)
                       then set_nat (zeros len) (Z.to_nat (e + off)) 1 else zeros len).
  assert (Hadd : forall x, additive (fun m => ops m x)).
  { intros x. unfold ops. destruct (_ && _); [apply additive_py_set|apply additive_id]. }
  split; [apply additive_fold; exact Hadd|].
  assert (Hok : forall x, In x offs -> ops (zeros len) x = Ok (a x)).
  { intros x _. unfold ops, a. destruct ((lo <=? e + x) && (e + x <? hi)) eqn:E; [|reflexivity].
    apply py_set_zeros. lia. }
  destruct (fold_additive_pointwise ops len a Hadd offs Hok) as (m & Em & Lm & Pm).
  exists m. split; [exact Em|]. split; [exact Lm|].
  intros j Hj. rewrite Pm. apply existsb_ext'. intros off. unfold a.
  destruct ((lo <=? e + off) && (e + off <? hi)) eqn:E.
  - rewrite set_nat_zeros_nth by lia. unfold nzb.
    destruct (Nat.eqb (Z.to_nat j) (Z.to_nat (e + off))) eqn:E2.
    + apply Nat.eqb_eq in E2. assert (e + off = j) by lia. subst j. rewrite Z.eqb_refl. cbn [negb andb]. symmetry. lia.
    + apply Nat.eqb_neq in E2. destruct (e + off =? j) eqn:E3; [|reflexivity].
      apply Z.eqb_eq in E3. subst j. contradiction.
  - rewrite nth_zeros. unfold nzb. cbn [Z.eqb negb]. symmetry.
    destruct (e + off =? j) eqn:E3; [|reflexivity]. apply Z.eqb_eq in E3. subst j. cbn [andb]. lia.
Qed.

Theorem eastermask_fold_correct : forall eyday neyday ylen offs, 0 <= ylen ->
  exists m, build_eastermask eyday neyday ylen offs = Ok m /\ zlen m = ylen + 7 /\
    forall j, 0 <= j < ylen + 7 ->
      nzb (nth (Z.to_nat j) m 0) =
      if j <? ylen then existsb (fun off => eyday + off =? j) offs
      else match neyday with
           | Some e2 => existsb (fun off => e2 + off =? j) offs
           | None => false
           end.
Proof.
  intros eyday neyday ylen offs Hy. unfold build_eastermask, py_repeat.
  set (len := Z.to_nat (ylen + 7)). fold (zeros len).
  destruct (cond_set_fold eyday 0 ylen len offs ltac:(lia) ltac:(unfold len; lia)) as (_ & m1 & E1 & L1 & P1).
  cbv zeta in E1. rewrite E1. cbn [bind].
  destruct neyday as [e2|].
  - destruct (cond_set_fold e2 ylen (ylen + 7) len offs ltac:(lia) ltac:(unfold len; lia)) as (A2 & m2 & E2 & L2 & P2).
    cbv zeta in A2, E2.
    rewrite (additive_on_zeros _ m1 A2). rewrite L1. fold (zeros len). rewrite E2. cbn [lift].
    eexists. split; [reflexivity|]. split; [unfold zlen; rewrite overlay_length; unfold len in *; lia|].
    intros j Hj. unfold nzb. rewrite nth_overlay by lia. fold (nzb (nth (Z.to_nat j) m1 0)).
    fold (nzb (nth (Z.to_nat j) m2 0)). rewrite P1, P2 by lia.
    destruct (j <? ylen) eqn:EJ.
    + match goal with |- existsb ?f offs || existsb ?g offs = _ =>
        rewrite (existsb_all_false g offs) by (intros x; lia) end.
      rewrite orb_false_r. apply existsb_ext'. intros off. lia.
    + match goal with |- existsb ?f offs || existsb ?g offs = _ =>
        rewrite (existsb_all_false f offs) by (intros x; lia) end.
      cbn [orb]. apply existsb_ext'. intros off. lia.
  - exists m1. split; [reflexivity|]. split; [unfold zlen; rewrite L1; unfold len; lia|].
    intros j Hj. rewrite P1 by lia. destruct (j <? ylen) eqn:EJ.
    + apply existsb_ext'. intros off. lia.
    + apply existsb_all_false. intros x. lia.
Qed.

(* easter() as the model calls it = the specification's Easter, for the years of C19's theorem *)
Lemma easter_ord_is_spec year : 1583 <= year <= 4099 -> easter_ord year = Ok (easter_ord_spec year).
Proof.
  intros Hy. unfold easter_ord, easter_ord_spec, spec_western.
  rewrite easter_default_lemma.
  destruct (easter_western_lemma year Hy) as (m & d & E & Emd & _).
  rewrite E. rewrite <- Emd. reflexivity.
Qed.

(* calendar level: the days of the year itself use this year's Easter, the 7 extra days next
   year's Easter (both years within the range of C19's theorem) *)
Theorem eastermask_correct_calendar : forall year offs, 1583 <= year -> year + 1 <= 4099 ->
  let yo := ord_of_ymd year 1 1 in
  exists eo eo2 m, easter_ord year = Ok eo /\ easter_ord (year + 1) = Ok eo2 /\
    build_eastermask (eo - yo) (Some (eo2 - yo)) (year_len year) offs = Ok m /\
    forall i, 0 <= i < year_len year + 7 ->
      nzb (nth (Z.to_nat i) m 0) =
      existsb (fun x => yo + i =? easter_ord_spec (if i <? year_len year then year else year + 1) + x) offs.
Proof.
  intros year offs Hy1 Hy2 yo.
  exists (easter_ord_spec year), (easter_ord_spec (year + 1)).
  assert (Hl : 0 <= year_len year) by (unfold year_len; destruct (is_leap year); lia).
  destruct (eastermask_fold_correct (easter_ord_spec year - yo) (Some (easter_ord_spec (year + 1) - yo))
              (year_len year) offs Hl) as (m & Em & _ & Pm).
  exists m. split; [apply easter_ord_is_spec; lia|]. split; [apply easter_ord_is_spec; lia|]. split; [exact Em|].
  intros i Hi. rewrite (Pm i Hi). destruct (i <? year_len year); apply existsb_ext'; intros x.
  - destruct (easter_ord_spec year - yo + x =? i) eqn:E1; destruct (yo + i =? easter_ord_spec year + x) eqn:E2;
      try reflexivity; lia.
  - destruct (easter_ord_spec (year + 1) - yo + x =? i) eqn:E1;
      destruct (yo + i =? easter_ord_spec (year + 1) + x) eqn:E2; try reflexivity; lia.
Qed.

(* regression of the fixed finding F-C01-easter-week: 1 January 2017 (index 366 of 2016) is no longer
   marked for offset 280 (= Easter 2016 + 280) but is marked for -105 (= Easter 2017 - 105) *)
Example eastermask_extension_fixed :
  match build_eastermask (ord_of_ymd 2016 3 27 - ord_of_ymd 2016 1 1)
                         (Some (ord_of_ymd 2017 4 16 - ord_of_ymd 2016 1 1)) 366 [280; -105] with
  | Ok m => nth 366 m 0 = 1 /\ build_eastermask (ord_of_ymd 2016 3 27 - ord_of_ymd 2016 1 1)
                                  (Some (ord_of_ymd 2017 4 16 - ord_of_ymd 2016 1 1)) 366 [280] =
                               Ok (repeat 0 373)
  | Err _ => False
  end.
Proof. vm_compute. split; reflexivity. Qed.
